/* Translator helper: prints the tables of conf.h (dirmarks, dircontexts, placeholders) and the
 * compile-time constants of regex.c / vi.h / lbuf.c as seen by the compiler. */
#include <stdio.h>
#include <string.h>
#include "vi.h"
#include "conf.h"
#include "kmap.h"

static void hex(char *s)
{
	if (!s || !*s) { printf("-"); return; }
	for (; *s; s++)
		printf("%02x", (unsigned char) *s);
}

int main(void)
{
	int i;
	for (i = 0; i < LEN(dircontexts); i++) {
		printf("dircontext %d ", dircontexts[i].dir);
		hex(dircontexts[i].pat);
		printf("\n");
	}
	for (i = 0; i < LEN(dirmarks); i++) {
		printf("dirmark %d %d %d ", dirmarks[i].ctx, dirmarks[i].dir, dirmarks[i].grp);
		hex(dirmarks[i].pat);
		printf("\n");
	}
	for (i = 0; i < LEN(placeholders); i++) {
		printf("placeholder %d ", placeholders[i].wid);
		hex(placeholders[i].s);
		printf(" ");
		hex(placeholders[i].d);
		printf("\n");
	}
	for (i = 0; i < LEN(filetypes); i++) {
		printf("filetype ");
		hex(filetypes[i].ft);
		printf(" ");
		hex(filetypes[i].pat);
		printf("\n");
	}
	printf("const EXLEN %d\n", EXLEN);
	printf("const RE_ICASE %d\nconst RE_NOTBOL %d\nconst RE_NOTEOL %d\n", RE_ICASE, RE_NOTBOL, RE_NOTEOL);
	return 0;
}
