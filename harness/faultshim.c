/* faultshim.c -- LD_PRELOAD fault injector for C03.
 *
 * Interposes open/open64/write/close/ftruncate/ftruncate64.  Only active in a process whose name is
 * NVSHIM_PROG (default "vi"), and only for files whose base name is listed in NVSHIM_TARGETS
 * (colon separated) and that are opened for writing.  Every open-for-writing of a target, every
 * write to and every close of such a descriptor is one *call* of the sequence, numbered from 0 in
 * program order (the shim counts the calls the implementation actually makes).  NVSHIM_SCHED is a comma
 * separated list  <index>:err:<errno>  |  <index>:short:<count> ; calls not listed succeed in full.
 *   open  err   -> returns -1, nothing opened
 *   write err   -> returns -1, nothing written
 *   write short -> really writes min(count, n) bytes and returns that
 *   close err   -> really closes, returns -1
 * ftruncate is passed through (logged, not numbered).  Every call is logged to NVSHIM_LOG
 * (last word of a line = base name of the file).
 */
#define _GNU_SOURCE
#include <dlfcn.h>
#include <errno.h>
#include <fcntl.h>
#include <stdarg.h>
#include <stdio.h>
#include <stdlib.h>
#include <string.h>
#include <sys/types.h>
#include <unistd.h>

extern char *program_invocation_short_name;

static int (*real_open)(const char *, int, ...);
static ssize_t (*real_write)(int, const void *, size_t);
static int (*real_close)(int);
static int (*real_ftruncate)(int, off_t);
static int inited, active, ncall, logfd = -1;
static char tracked[1024];
static char names[1024][8];	/* base name of the file behind a tracked descriptor (for the log) */
static char targets[512];
struct inj { int idx, kind, arg; };	/* kind 1 = err, 2 = short */
static struct inj sched[64];
static int nsched;

static void shim_init(void)
{
	char *s;
	if (inited)
		return;
	inited = 1;
	real_open = dlsym(RTLD_NEXT, "open");
	real_write = dlsym(RTLD_NEXT, "write");
	real_close = dlsym(RTLD_NEXT, "close");
	real_ftruncate = dlsym(RTLD_NEXT, "ftruncate");
	s = getenv("NVSHIM_PROG");
	if (strcmp(program_invocation_short_name, s ? s : "vi"))
		return;
	s = getenv("NVSHIM_TARGETS");
	if (!s)
		return;
	snprintf(targets, sizeof(targets), ":%s:", s);
	s = getenv("NVSHIM_SCHED");
	while (s && *s && nsched < 64) {
		char kind[16];
		int idx, arg;
		if (sscanf(s, "%d:%15[a-z]:%d", &idx, kind, &arg) == 3) {
			sched[nsched].idx = idx;
			sched[nsched].kind = !strcmp(kind, "err") ? 1 : 2;
			sched[nsched].arg = arg;
			nsched++;
		}
		s = strchr(s, ',');
		if (s)
			s++;
	}
	s = getenv("NVSHIM_LOG");
	if (s)
		logfd = real_open(s, O_WRONLY | O_CREAT | O_APPEND, 0600);
	active = 1;
}

static void shim_log(const char *fmt, ...)
{
	char buf[256];
	va_list ap;
	int n;
	if (logfd < 0)
		return;
	va_start(ap, fmt);
	n = vsnprintf(buf, sizeof(buf), fmt, ap);
	va_end(ap);
	if (n > 0)
		real_write(logfd, buf, n < (int) sizeof(buf) ? n : (int) sizeof(buf) - 1);
}

static struct inj *lookup(int idx)
{
	int i;
	for (i = 0; i < nsched; i++)
		if (sched[i].idx == idx)
			return &sched[i];
	return NULL;
}

static int is_target(const char *path, int flags)
{
	const char *b;
	char key[300];
	if (!active || !path || (flags & O_ACCMODE) == O_RDONLY)
		return 0;
	b = strrchr(path, '/');
	b = b ? b + 1 : path;
	if (!*b || strlen(b) > 250)
		return 0;
	snprintf(key, sizeof(key), ":%s:", b);
	return strstr(targets, key) != NULL;
}

static int shim_open(const char *path, int flags, mode_t mode)
{
	int fd;
	shim_init();
	if (is_target(path, flags)) {
		int idx = ncall++;
		struct inj *j = lookup(idx);
		if (j && j->kind == 1) {
			const char *b = strrchr(path, '/');
			shim_log("%d open err %d %s\n", idx, j->arg, b ? b + 1 : path);
			errno = j->arg;
			return -1;
		}
		fd = real_open(path, flags, mode);
		if (fd >= 0 && fd < (int) sizeof(tracked)) {
			const char *b = strrchr(path, '/');
			tracked[fd] = 1;
			snprintf(names[fd], sizeof(names[fd]), "%s", b ? b + 1 : path);
		}
		shim_log("%d open ok %d %s\n", idx, fd, fd >= 0 && fd < (int) sizeof(tracked) ? names[fd] : "?");
		return fd;
	}
	return real_open(path, flags, mode);
}

int open(const char *path, int flags, ...)
{
	mode_t mode = 0;
	if (flags & (O_CREAT | O_TMPFILE)) {
		va_list ap;
		va_start(ap, flags);
		mode = va_arg(ap, mode_t);
		va_end(ap);
	}
	return shim_open(path, flags, mode);
}

int open64(const char *path, int flags, ...)
{
	mode_t mode = 0;
	if (flags & (O_CREAT | O_TMPFILE)) {
		va_list ap;
		va_start(ap, flags);
		mode = va_arg(ap, mode_t);
		va_end(ap);
	}
	return shim_open(path, flags | O_LARGEFILE, mode);
}

ssize_t write(int fd, const void *buf, size_t n)
{
	shim_init();
	if (active && fd >= 0 && fd < (int) sizeof(tracked) && tracked[fd]) {
		int idx = ncall++;
		struct inj *j = lookup(idx);
		ssize_t r;
		if (j && j->kind == 1) {
			shim_log("%d write %ld err %d %s\n", idx, (long) n, j->arg, names[fd]);
			errno = j->arg;
			return -1;
		}
		if (j && j->kind == 2 && (size_t) j->arg < n)
			n = j->arg;
		r = real_write(fd, buf, n);
		shim_log("%d write %ld ret %ld %s\n", idx, (long) n, (long) r, names[fd]);
		return r;
	}
	return real_write(fd, buf, n);
}

int close(int fd)
{
	shim_init();
	if (active && fd >= 0 && fd < (int) sizeof(tracked) && tracked[fd]) {
		int idx = ncall++;
		struct inj *j = lookup(idx);
		int r;
		tracked[fd] = 0;
		r = real_close(fd);
		if (j && j->kind == 1) {
			shim_log("%d close err %d %s\n", idx, j->arg, names[fd]);
			errno = j->arg;
			return -1;
		}
		shim_log("%d close ok %d %s\n", idx, r, names[fd]);
		return r;
	}
	return real_close(fd);
}

int ftruncate(int fd, off_t len)
{
	shim_init();
	if (active && fd >= 0 && fd < (int) sizeof(tracked) && tracked[fd])
		shim_log("- ftruncate %ld\n", (long) len);
	return real_ftruncate(fd, len);
}

int ftruncate64(int fd, off_t len)
{
	return ftruncate(fd, len);
}
