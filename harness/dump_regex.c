/* Translator helper: constants and tables of regex.c as the compiler sees them. */
#include "regex.c"

int main(void)
{
	int i;
	char *s;
	printf("const NGRPS %d\nconst NREPS %d\nconst NDEPT %d\n", NGRPS, NREPS, NDEPT);
#ifdef NINST		/* instruction limit of regcomp (absent before the fix: no limit) */
	printf("const NINST %d\n", NINST);
#else
	printf("const NINST -1\n");
#endif
	printf("const REG_ICASE %d\nconst REG_NEWLINE %d\nconst REG_NOTBOL %d\nconst REG_NOTEOL %d\n",
		REG_ICASE, REG_NEWLINE, REG_NOTBOL, REG_NOTEOL);
	for (i = 0; i < LEN(brk_classes); i++) {
		printf("brkclass ");
		for (s = brk_classes[i][0]; *s; s++) printf("%02x", (unsigned char) *s);
		printf(" ");
		for (s = brk_classes[i][1]; *s; s++) printf("%02x", (unsigned char) *s);
		printf("\n");
	}
	return 0;
}
