/* probe_help.c -- C05: the stack buffers of the insert-mode helpers of /repo.
 * vi.c is included textually (main renamed) to reach the static vi_help(), term.c to empty the input
 * queue between requests (it is reclaimed only by a read from the terminal); vi.o and term.o are left
 * out of the link.  tag_find is renamed in this translation unit only, so that the word vi_help() copies into
 * its char tag[] is handed to the probe instead of the tags file lookup (tag.o keeps its own
 * tag_find, unused here).  Descriptor 1 is redirected to /dev/null (vi_help and led_input draw on
 * the terminal); answers go to a duplicate of the original descriptor 1.  Requests are read from a
 * duplicate of descriptor 0, which is then replaced by /dev/null so that term_read() can never eat
 * the request stream.
 *
 *   help <hex>                     vi_help(ln) on a heap block of exactly strlen+1 bytes;
 *                                  answers  tag <hex of the string handed to tag_find>  or  none
 *   ai <xai> <k> <rest> <hexkeys>  led_input(pref, "", ...) with pref = k blanks (+ "x" when rest = 1), the ai
 *                                  option set to xai and the keys (ending in ESC) in the input queue;
 *                                  answers the hex of the returned text or  null
 *   trim <hex>                     uc_trim() of uc.c (since a04410e; a weak reference: "nofn" when /repo has none) on a
 *                                  heap block of exactly strlen+1 bytes; answers the hex of what is left
 *   cutstore <size> <hex>          snprintf(buf, size, "%s", s) into a heap block of exactly size bytes, then uc_trim(buf)
 */
#define tag_find probe_tag_find
#define main neatvi_main
#include "vi.c"
#undef main
#include "term.c"
#include "probe_util.h"
#include <fcntl.h>
#include <unistd.h>

static FILE *req, *ans;
static char *seen_tag;

int probe_tag_find(char *name, int *pos, int dir, char *path, int pathlen, char *cmd, int cmdlen)
{
	free(seen_tag);
	seen_tag = malloc(strlen(name) + 1);
	strcpy(seen_tag, name);
	return 1;
}

static char *exact(char *s, int n)		/* heap copy of exactly n + 1 bytes */
{
	char *r = malloc(n + 1);
	memcpy(r, s, n);
	r[n] = '\0';
	return r;
}

static void put_hex(const char *s, int n)
{
	int i;
	if (n <= 0)
		fprintf(ans, "-");
	for (i = 0; i < n; i++)
		fprintf(ans, "%02x", (unsigned char) s[i]);
}

static char *req_getline(void)
{
	static char *line;
	static size_t cap;
	ssize_t n = getline(&line, &cap, req);
	if (n < 0)
		return NULL;
	while (n > 0 && (line[n - 1] == '\n' || line[n - 1] == '\r'))
		line[--n] = '\0';
	return line;
}

static void do_help(char *hex)
{
	int len;
	char *raw = pu_unhex(hex, &len, 0, 0);
	char *ln = exact(raw, strlen(raw));
	free(seen_tag);
	seen_tag = NULL;
	vi_help(ln);
	if (seen_tag) {
		fprintf(ans, "tag ");
		put_hex(seen_tag, strlen(seen_tag));
		fprintf(ans, "\n");
	} else {
		fprintf(ans, "none\n");
	}
	free(ln);
	free(raw);
}

void uc_trim(char *s) __attribute__((weak));

static void do_trim(int size, char *hex)
{
	int len;
	char *raw = pu_unhex(hex, &len, 0, 0);
	char *b;
	if (!uc_trim) {
		fprintf(ans, "nofn\n");
		free(raw);
		return;
	}
	if (size > 0) {
		b = malloc(size);
		snprintf(b, size, "%s", raw);
	} else {
		b = exact(raw, strlen(raw));
	}
	uc_trim(b);
	put_hex(b, strlen(b));
	fprintf(ans, "\n");
	free(b);
	free(raw);
}

static void nl_stub(void)
{
}

static void do_ai(int ai, int k, int rest, char *hex)
{
	int len, i;
	char *keys = pu_unhex(hex, &len, 0, 0);
	char *pref = malloc(k + 2);
	char *post = calloc(1, 1);
	char *r;
	int left = 0, kmap = 0;
	for (i = 0; i < k; i++)
		pref[i] = ' ';
	pref[k] = rest ? 'x' : '\0';
	pref[k + 1] = '\0';
	xai = ai;
	ibuf_pos = ibuf_cnt = icmd_pos = 0;
	term_push(keys, len);
	r = led_input(pref, post, &left, &kmap, "", nl_stub, NULL);
	ibuf_pos = ibuf_cnt = icmd_pos = 0;	/* whatever is left in the queue */
	if (r) {
		put_hex(r, strlen(r));
		fprintf(ans, "\n");
	} else {
		fprintf(ans, "null\n");
	}
	free(r);
	free(pref);
	free(post);
	free(keys);
}

int main(void)
{
	char *files[] = {NULL};
	char *l, *w[8];
	int nul;
	req = fdopen(dup(0), "r");
	ans = fdopen(dup(1), "w");
	nul = open("/dev/null", O_RDWR);
	if (!req || !ans || nul < 0)
		return 2;
	dup2(nul, 0);
	dup2(nul, 1);
	xvis = 0;
	xled = 0;
	dir_init();
	syn_init();
	if (ex_init(files))
		return 2;
	term_init();
	while ((l = req_getline())) {
		int n = pu_words(l, w, 8);
		if (n == 2 && !strcmp(w[0], "help"))
			do_help(w[1]);
		else if (n == 5 && !strcmp(w[0], "ai"))
			do_ai(atoi(w[1]), atoi(w[2]), atoi(w[3]), w[4]);
		else if (n == 2 && !strcmp(w[0], "trim"))
			do_trim(0, w[1]);
		else if (n == 3 && !strcmp(w[0], "cutstore"))
			do_trim(atoi(w[1]), w[2]);
		else
			fprintf(ans, "?\n");
		fflush(ans);
	}
	return 0;
}
