/* probe_re.c -- drives regex.c / rset.c of /repo (C10, C11).  regex.c is included textually so that
 * the statics (rnode_parse, rnode_count, struct regex) can be reached; regex.o is left out of the
 * link.  rset.c is used through its public interface only.
 *
 * request:  R <rset flags> <nsub> <pat,pat,...> <eflags:line,eflags:line,...>      (hex words, "-" = empty)
 * answer:   rej
 *           ok n=<emitted> res=<rnode_count + 3> | <case> | <case> ...
 *   case:   set=<index> g=<so>.<eo>,... cut=<re_verif_depthcut delta>     (g only when set >= 0)
 *           timeout cut=<n>      the call exceeded the CPU limit (env PROBE_RE_LIMIT_MS, default 2000)
 * request:  C <pat,pat,...>     compile only (whatever the size): rej | ok n=<emitted> res=<rnode_count + 3>
 * request:  Q <op> <op> ...     a SEQUENCE of calls inside this one process, through the public interface only
 *           (no direct parser call, so the file-scope state of regex.c is touched exactly as in the editor):
 *             M<rset flags>:<pat,pat,...>      rset_make into the next slot ("-" = empty pattern, "~" = NULL entry)
 *             G:<pat>                          bare regcomp(pat, REG_EXTENDED) + regfree (as stag.c does)
 *             F<slot>:<nsub>:<eflags>:<line>   rset_find with the set in <slot>
 * answer:   the answers of the operations joined by " ; ":
 *             M, G:  rej | ok n=<emitted>          F:  none (slot holds no set) | <case> as above
 * With PROBE_RE_FORK=1 every request line is answered by a fresh child forked from a parent that never
 * called the regex code (pristine file-scope state); a child that dies answers "crash sig=<n>".
 * Every pattern and line lives in an exact-size malloc block, so that the sanitizer sees any read
 * past a terminator.  Patterns whose reservation exceeds PROBE_RE_MAXRES are answered "big res=<n>"
 * without compiling them.
 */
#include <setjmp.h>
#include <signal.h>
#include <sys/time.h>
#include <sys/wait.h>
#include <unistd.h>
#include "regex.c"
#include "vi.h"
#include "probe_util.h"

#ifndef NEATVI_VERIF
int re_verif_depthcut;
#endif

static sigjmp_buf jb;
static void on_alarm(int sig)
{
	siglongjmp(jb, 1);
}

static void timer_set(long ms)
{
	struct itimerval it;
	memset(&it, 0, sizeof(it));
	it.it_value.tv_sec = ms / 1000;
	it.it_value.tv_usec = (ms % 1000) * 1000;
	setitimer(ITIMER_VIRTUAL, &it, NULL);
}

static char *exact(char *s, int n)
{
	char *b = malloc(n + 1);
	memcpy(b, s, n);
	b[n] = '\0';
	return b;
}

#define MAXP	64
#define MAXG	256

static long limit = 2000;
static long maxres = 200000;

#define MAXSLOT	64

/* Q: a sequence of rset_make / regcomp / rset_find calls in this process */
static void handle_session(char *l)
{
	static char *w[512];
	struct rset *slot[MAXSLOT];
	int nslot = 0;
	int nw = pu_words(l, w, 512);
	int k, i, len;
	for (k = 1; k < nw; k++) {
		char *o = w[k];
		if (k > 1)
			printf(" ; ");
		if (o[0] == 'M' && nslot < MAXSLOT) {
			char *pats[MAXP];
			int npat = 0;
			int flg = atoi(o + 1);
			char *colon = strchr(o, ':');
			char *tok, *save;
			struct rset *rs;
			for (tok = strtok_r(colon ? colon + 1 : "", ",", &save); tok && npat < MAXP; tok = strtok_r(NULL, ",", &save)) {
				if (!strcmp(tok, "~")) {
					pats[npat++] = NULL;
				} else {
					char *p = pu_unhex(tok, &len, 0, 0);
					pats[npat++] = exact(p, strlen(p));
					free(p);
				}
			}
			rs = rset_make(npat, pats, flg);
			slot[nslot++] = rs;
			if (rs)
				printf("ok n=%d", (*(struct regex **) rs)->n);	/* the regex_t is the first member of struct rset */
			else
				printf("rej");
			for (i = 0; i < npat; i++)
				free(pats[i]);
		} else if (o[0] == 'G' && o[1] == ':') {
			char *p = pu_unhex(o + 2, &len, 0, 0);
			char *pat = exact(p, strlen(p));
			regex_t re;
			free(p);
			if (!regcomp(&re, pat, REG_EXTENDED)) {
				printf("ok n=%d", re->n);
				regfree(&re);
			} else {
				printf("rej");
			}
			free(pat);
		} else if (o[0] == 'F') {
			int si = atoi(o + 1);
			char *c1 = strchr(o, ':');
			char *c2 = c1 ? strchr(c1 + 1, ':') : NULL;
			char *c3 = c2 ? strchr(c2 + 1, ':') : NULL;
			int nsub = c1 ? atoi(c1 + 1) : 0;
			int eflg = c2 ? atoi(c2 + 1) : 0;
			char *raw, *line;
			int grps[MAXG * 2];
			volatile int cut0 = re_verif_depthcut;
			int set;
			if (nsub > MAXG)
				nsub = MAXG;
			if (si < 0 || si >= nslot || !slot[si] || !c3) {
				printf("none");
				continue;
			}
			raw = pu_unhex(c3 + 1, &len, 0, 0);
			line = exact(raw, strlen(raw));
			free(raw);
			for (i = 0; i < nsub * 2; i++)
				grps[i] = -7;
			if (sigsetjmp(jb, 1)) {
				printf("timeout cut=%d", re_verif_depthcut - cut0);
				free(line);
				continue;
			}
			timer_set(limit);
			set = rset_find(slot[si], line, nsub, grps, eflg);
			timer_set(0);
			printf("set=%d", set);
			if (set >= 0) {
				printf(" g=");
				for (i = 0; i < nsub; i++)
					printf("%s%d.%d", i ? "," : "", grps[i * 2], grps[i * 2 + 1]);
			}
			printf(" cut=%d", re_verif_depthcut - cut0);
			free(line);
		} else {
			printf("?");
		}
	}
	printf("\n");
	for (i = 0; i < nslot; i++)
		if (slot[i])
			rset_free(slot[i]);
	fflush(stdout);
}

static void handle(char *l)
{
	char *w[8];
	char *pats[MAXP];
	int npat = 0, nw, flg, nsub, i, len;
	struct rset *rs;
	char *tok, *save;
	struct sbuf *sb;
	char *wrapped, *wp;
	struct rnode *rn;
	long res;
	int emitted;
	int componly;
	nw = pu_words(l, w, 8);
	componly = nw == 2 && !strcmp(w[0], "C");	/* C <pat,...>: compile only, no size shortcut */
	if (componly) {
		w[3] = w[1];
		w[1] = w[2] = "0";
		w[4] = "";
	} else if (nw < 5 || strcmp(w[0], "R")) {
		printf("?\n");
		return;
	}
	flg = atoi(w[1]);
	nsub = atoi(w[2]);
	if (nsub > MAXG)
		nsub = MAXG;
	for (tok = strtok_r(w[3], ",", &save); tok && npat < MAXP; tok = strtok_r(NULL, ",", &save)) {
		char *p = pu_unhex(tok, &len, 0, 0);
		pats[npat++] = exact(p, strlen(p));
		free(p);
	}
	/* the combined pattern exactly as rset_make builds it, in an exact-size block */
	sb = sbuf_make();
	sbuf_chr(sb, '(');
	for (i = 0; i < npat; i++) {
		if (sbuf_len(sb) > 1)
			sbuf_chr(sb, '|');
		sbuf_chr(sb, '(');
		sbuf_str(sb, pats[i]);
		sbuf_chr(sb, ')');
	}
	sbuf_chr(sb, ')');
	wrapped = exact(sbuf_buf(sb), sbuf_len(sb));
	sbuf_free(sb);
	wp = wrapped;
	rn = rnode_parse(&wp);
	res = rn ? rnode_count(rn) + 3 : -1;
	if (rn)
		rnode_free(rn);
	if (res > maxres && !componly) {
		printf("big res=%ld\n", res);
		goto done;
	}
	emitted = -1;
	if (rn) {		/* direct regcomp on the exact-size copy */
		regex_t re;
		if (!regcomp(&re, wrapped, REG_EXTENDED)) {
			emitted = re->n;
			regfree(&re);
		}
	}
	if (componly) {
		if (emitted < 0)
			printf("rej\n");
		else
			printf("ok n=%d res=%ld\n", emitted, res);
		goto done;
	}
	rs = rset_make(npat, pats, flg);
	if (!rs) {
		printf("rej\n");
		goto done;
	}
	printf("ok n=%d res=%ld", emitted, res);
	for (tok = strtok_r(w[4], ",", &save); tok; tok = strtok_r(NULL, ",", &save)) {
		char *colon = strchr(tok, ':');
		int eflg = atoi(tok);
		char *raw = pu_unhex(colon ? colon + 1 : "-", &len, 0, 0);
		char *line = exact(raw, strlen(raw));
		int grps[MAXG * 2];
		volatile int cut0 = re_verif_depthcut;
		int set;
		free(raw);
		for (i = 0; i < nsub * 2; i++)
			grps[i] = -7;
		if (sigsetjmp(jb, 1)) {
			printf(" | timeout cut=%d", re_verif_depthcut - cut0);
			free(line);
			continue;
		}
		timer_set(limit);
		set = rset_find(rs, line, nsub, grps, eflg);
		timer_set(0);
		printf(" | set=%d", set);
		if (set >= 0) {
			printf(" g=");
			for (i = 0; i < nsub; i++)
				printf("%s%d.%d", i ? "," : "", grps[i * 2], grps[i * 2 + 1]);
		}
		printf(" cut=%d", re_verif_depthcut - cut0);
		free(line);
	}
	printf("\n");
	rset_free(rs);
done:
	for (i = 0; i < npat; i++)
		free(pats[i]);
	free(wrapped);
	fflush(stdout);
}

int main(void)
{
	char *l;
	int forkmode = getenv("PROBE_RE_FORK") && atoi(getenv("PROBE_RE_FORK"));
	if (getenv("PROBE_RE_LIMIT_MS"))
		limit = atol(getenv("PROBE_RE_LIMIT_MS"));
	if (getenv("PROBE_RE_MAXRES"))
		maxres = atol(getenv("PROBE_RE_MAXRES"));
	signal(SIGVTALRM, on_alarm);
	while ((l = pu_getline())) {
		if (forkmode) {
			pid_t pid;
			int status = 0;
			fflush(stdout);
			pid = fork();
			if (pid == 0) {
				if (l[0] == 'Q' && l[1] == ' ')
					handle_session(l);
				else
					handle(l);
				fflush(stdout);
				_exit(0);
			}
			if (pid < 0 || waitpid(pid, &status, 0) < 0 || !WIFEXITED(status) || WEXITSTATUS(status)) {
				printf("crash sig=%d\n", WIFSIGNALED(status) ? WTERMSIG(status) : -1);
				fflush(stdout);
			}
			continue;
		}
		if (l[0] == 'Q' && l[1] == ' ')
			handle_session(l);
		else
			handle(l);
	}
	return 0;
}
