/* probe_undo.c -- drives the edit log of /repo's lbuf.c through its API (C04, C02).
 * lbuf.c is included textually so that struct lbuf and the static lbuf_seq() can be reached;
 * lbuf.o is left out of the link.
 *
 * request:  <init> <op> <op> ...
 *   <init>  hex of the file content read into the fresh buffer ("-" = empty file); the probe does
 *           what ec_edit does: lbuf_edit(lb, content, 0, 0); lbuf_saved(lb, 1)
 *           "@" = the buffer the editor starts with when NO file name is given (ec_edit with an empty
 *           path: bufs_open(""), open("") fails, nothing is read): lbuf_make(); lbuf_saved(lb, 0) --
 *           the history was never cleared, useq_last is still 0
 *   E<b>,<e>,<t>  lbuf_edit(lb, t, b, e); t = hex, "-" = "" (empty string), "N" = NULL
 *   M  lbuf_modified(lb)   U  lbuf_undo(lb)   R  lbuf_redo(lb)
 *   S  lbuf_saved(lb, 0)   K  lbuf_saved(lb, 1)   P  lbuf_unsaved(lb)
 * answer:   one word per op: <rc>,<flag>,<text> where rc is the function's result (0 for void),
 *           flag is lbuf_seq(lb) != lb->useq_zero read WITHOUT the counter bump of
 *           lbuf_modified, text is the hex of all lines concatenated.
 */
#define ex_lbuf probe_ex_lbuf		/* xb is ex_lbuf(): lbuf_saved() bumps the counter of xb */
#include "lbuf.c"
#include "probe_util.h"

static struct lbuf *probe_xb;
struct lbuf *probe_ex_lbuf(void)
{
	return probe_xb;
}

static void show(struct lbuf *lb, int rc)
{
	int i;
	printf("%d,%d,", rc, lbuf_seq(lb) != lb->useq_zero);
	if (!lbuf_len(lb))
		printf("-");
	for (i = 0; i < lbuf_len(lb); i++)
		pu_hex(lbuf_get(lb, i), strlen(lbuf_get(lb, i)));
}

int main(void)
{
	char *ln;
	static char *w[1 << 16];
	while ((ln = pu_getline())) {
		int n = pu_words(ln, w, LEN(w));
		struct lbuf *lb = lbuf_make();
		int i;
		char *init;
		if (n < 1) {
			printf("\n");
			lbuf_free(lb);
			continue;
		}
		probe_xb = lb;
		if (!strcmp(w[0], "@")) {
			lbuf_saved(lb, 0);
		} else {
			init = pu_unhex(w[0], NULL, 0, 1);
			lbuf_edit(lb, init, 0, 0);
			lbuf_saved(lb, 1);
			free(init);
		}
		for (i = 1; i < n; i++) {
			char *o = w[i];
			int rc = 0;
			if (o[0] == 'E') {
				int b = atoi(o + 1);
				char *c1 = strchr(o, ',');
				int e = c1 ? atoi(c1 + 1) : b;
				char *c2 = c1 ? strchr(c1 + 1, ',') : NULL;
				char *t = NULL;
				if (c2 && strcmp(c2 + 1, "N"))
					t = pu_unhex(c2 + 1, NULL, 0, 1);
				lbuf_edit(lb, t, b, e);
				free(t);
			} else if (o[0] == 'M') {
				rc = lbuf_modified(lb);
			} else if (o[0] == 'U') {
				rc = lbuf_undo(lb);
			} else if (o[0] == 'R') {
				rc = lbuf_redo(lb);
			} else if (o[0] == 'S') {
				lbuf_saved(lb, 0);
			} else if (o[0] == 'K') {
				lbuf_saved(lb, 1);
			} else if (o[0] == 'P') {
				lbuf_unsaved(lb);
			}
			if (i > 1)
				printf(" ");
			show(lb, rc);
		}
		printf("\n");
		fflush(stdout);		/* a crash is then attributed to the right request */
		probe_xb = NULL;
		lbuf_free(lb);
	}
	return 0;
}
