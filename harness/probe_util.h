/* Shared helpers of the C probes: line protocol, hex strings.  Every probe reads one request
 * per line from stdin and prints one answer per line on stdout. */
#ifndef PROBE_UTIL_H
#define PROBE_UTIL_H
#include <stdio.h>
#include <stdlib.h>
#include <string.h>

static char *pu_line;
static size_t pu_cap;

static char *pu_getline(void)
{
	ssize_t n = getline(&pu_line, &pu_cap, stdin);
	if (n < 0)
		return NULL;
	while (n > 0 && (pu_line[n - 1] == '\n' || pu_line[n - 1] == '\r'))
		pu_line[--n] = '\0';
	return pu_line;
}

static int pu_hexval(int c)
{
	if (c >= '0' && c <= '9') return c - '0';
	if (c >= 'a' && c <= 'f') return c - 'a' + 10;
	if (c >= 'A' && c <= 'F') return c - 'A' + 10;
	return -1;
}

/* decode a hex word ("-" = empty) into a fresh buffer with `pad` zero bytes after it and `pre`
 * zero bytes before it (returned pointer is to the first data byte); *len gets the length */
static char *pu_unhex(const char *w, int *len, int pre, int pad)
{
	int n = strcmp(w, "-") ? strlen(w) / 2 : 0;
	char *b = calloc(pre + n + pad + 1, 1);
	int i;
	for (i = 0; i < n; i++)
		b[pre + i] = (pu_hexval(w[2 * i]) << 4) | pu_hexval(w[2 * i + 1]);
	if (len)
		*len = n;
	return b + pre;
}

static void pu_hex(const char *s, int n)
{
	int i;
	if (n <= 0) {
		printf("-");
		return;
	}
	for (i = 0; i < n; i++)
		printf("%02x", (unsigned char) s[i]);
}

/* split a line into words (in place) */
static int pu_words(char *s, char **w, int max)
{
	int n = 0;
	while (*s && n < max) {
		while (*s == ' ')
			s++;
		if (!*s)
			break;
		w[n++] = s;
		while (*s && *s != ' ')
			s++;
		if (*s)
			*s++ = '\0';
	}
	return n;
}
#endif
