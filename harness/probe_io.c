/* probe_io.c -- C probe of the read/write path (C01): drives lbuf_rd / lbuf_wr / sbuf_mem of
 * /repo's current sources.  Same line protocol as ocaml/drv_io.ml.
 *   rw <chunks: hex,hex,...|-> <b> <e|-1> <old hex|-|absent> [<pos>|<beg>:<end> <chunks2>]   (second file read at line pos as :Nr, or replacing lines beg..end as :e! does)
 *      the chunks are delivered to lbuf_rd one read(2) each (SOCK_SEQPACKET: one record per read),
 *      then lines [b,e) are written with lbuf_wr onto a real file that held <old>
 *   sbuf <len,len,...>   (len -1 = sbuf_chr)
 */
#define _GNU_SOURCE
#include <fcntl.h>
#include <sys/socket.h>
#include <sys/stat.h>
#include <sys/wait.h>
#include <unistd.h>
#include "lbuf.c"
#include "sbuf.c"
#include "probe_util.h"

static char tmpl[256];

/* deliver the chunks one record each on a SOCK_SEQPACKET pair and run lbuf_rd on the other end */
static int feed_rd(struct lbuf *lb, char *chunks, int pos, int end)
{
	int sv[2];
	pid_t pid;
	int rd, st;
	if (socketpair(AF_UNIX, SOCK_SEQPACKET, 0, sv) < 0)
		return 100;
	fflush(stdout);
	pid = fork();
	if (pid == 0) {
		char *s = chunks;
		close(sv[0]);
		while (strcmp(chunks, "-") && *s) {
			char *c = strchr(s, ',');
			int n;
			char *d;
			if (c)
				*c = '\0';
			d = pu_unhex(s, &n, 0, 0);
			if (n > 0 && write(sv[1], d, n) != n)
				_exit(3);
			free(d);
			if (!c)
				break;
			s = c + 1;
		}
		close(sv[1]);
		_exit(0);
	}
	close(sv[1]);
	rd = lbuf_rd(lb, sv[0], pos, end);
	close(sv[0]);
	waitpid(pid, &st, 0);
	if (rd || !WIFEXITED(st) || WEXITSTATUS(st))
		return 101;
	return 0;
}

static void do_rw(char *chunks, int b, int e, char *old, int pos, int end, char *chunks2)
{
	struct lbuf *lb = lbuf_make();
	int fd, i;
	long tot = 0;
	struct stat st;
	char *data;
	if (feed_rd(lb, chunks, 0, 0) || (chunks2 && feed_rd(lb, chunks2, pos, end))) {
		printf("error read\n");
		lbuf_free(lb);
		return;
	}
	if (e < 0)
		e = lb->ln_n;
	if (b < 0 || b > e || e > lb->ln_n) {
		printf("error range n=%d\n", lb->ln_n);
		lbuf_free(lb);
		return;
	}
	unlink(tmpl);
	if (strcmp(old, "absent")) {
		int n;
		char *d = pu_unhex(old, &n, 0, 0);
		fd = open(tmpl, O_WRONLY | O_CREAT | O_TRUNC, 0600);
		if (n > 0 && write(fd, d, n) != n)
			printf("error old\n");
		close(fd);
		free(d);
	}
	fd = open(tmpl, O_WRONLY | O_CREAT, 0600);
	i = lbuf_wr(lb, fd, b, e);
	close(fd);
	printf("n=%d file=", lb->ln_n);
	stat(tmpl, &st);
	data = malloc(st.st_size + 1);
	fd = open(tmpl, O_RDONLY);
	if (read(fd, data, st.st_size) != st.st_size)
		printf("error readback");
	close(fd);
	pu_hex(data, st.st_size);
	free(data);
	printf(" text=");
	for (i = 0; i < lb->ln_n; i++)
		tot += strlen(lb->ln[i]);
	if (!tot)
		printf("-");
	for (i = 0; i < lb->ln_n; i++)
		if (lb->ln[i][0])
			pu_hex(lb->ln[i], strlen(lb->ln[i]));
	printf(" cap=%d lnsz=%d\n", lb->ln_n < lb->ln_sz, lb->ln_sz);
	lbuf_free(lb);
	unlink(tmpl);
}

static void do_sbuf(char *lens)
{
	struct sbuf *sb = sbuf_make();
	char *s = lens;
	int ok = 1;
	while (strcmp(lens, "-") && *s) {
		int l = atoi(s);
		char *c = strchr(s, ',');
		if (l < 0) {
			sbuf_chr(sb, 'a');
		} else {
			char *d = malloc(l + 1);
			memset(d, 'a', l);
			sbuf_mem(sb, d, l);
			free(d);
		}
		if (sb->s_n + 1 > sb->s_sz)
			ok = 0;
		if (!c)
			break;
		s = c + 1;
	}
	sbuf_buf(sb);
	printf("n=%d room=%d sz=%d\n", sb->s_n, ok && sb->s_n + 1 <= sb->s_sz, sb->s_sz);
	sbuf_free(sb);
}

int main(int argc, char *argv[])
{
	char *l;
	char *w[8];
	snprintf(tmpl, sizeof(tmpl), "%s/probe_io.%d.out", argc > 1 ? argv[1] : "/var/tmp", (int) getpid());
	while ((l = pu_getline())) {
		int n = pu_words(l, w, 8);
		if ((n == 5 || n == 7) && !strcmp(w[0], "rw"))
			do_rw(w[1], atoi(w[2]), atoi(w[3]), w[4], n == 7 ? atoi(w[5]) : 0,
				n == 7 ? (strchr(w[5], ':') ? atoi(strchr(w[5], ':') + 1) : atoi(w[5])) : 0, n == 7 ? w[6] : NULL);
		else if (n == 2 && !strcmp(w[0], "sbuf"))
			do_sbuf(w[1]);
		else
			printf("?\n");
		fflush(stdout);
	}
	return 0;
}
