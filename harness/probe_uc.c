/* probe_uc.c -- drives the UTF-8 helpers of /repo's uc.c (C16).  uc.c is included textually so
 * that the static uc_cput() can be reached; uc.o is left out of the link. */
#include "uc.c"
#include "probe_util.h"

static int enc(unsigned c, char *d)		/* the probe's own RFC 3629 encoder */
{
	if (c < 0x80) { d[0] = c; return 1; }
	if (c < 0x800) { d[0] = 0xc0 | (c >> 6); d[1] = 0x80 | (c & 0x3f); return 2; }
	if (c < 0x10000) { d[0] = 0xe0 | (c >> 12); d[1] = 0x80 | ((c >> 6) & 0x3f); d[2] = 0x80 | (c & 0x3f); return 3; }
	d[0] = 0xf0 | (c >> 18); d[1] = 0x80 | ((c >> 12) & 0x3f); d[2] = 0x80 | ((c >> 6) & 0x3f); d[3] = 0x80 | (c & 0x3f);
	return 4;
}

static void do_sweep(long lo, long hi)
{
	long c;
	for (c = lo; c <= hi; c++) {
		char b[16] = {0}, put[16] = {0};
		int n;
		if (c >= 0xd800 && c <= 0xdfff)
			continue;
		n = enc(c, b);
		b[n] = 'A';
		uc_cput(put, c);
		printf("%ld %d %d %d %d %d ", c, uc_len(b), uc_code(b), (int) (uc_end(b) - b), (int) (uc_next(b) - b), uc_slen(b));
		pu_hex(put, strlen(put));
		printf("\n");
	}
}

static void do_str(char *hex)
{
	int len, i, n, b, e;
	char *s = pu_unhex(hex, &len, 8, 8);
	char **chrs;
	n = uc_slen(s);
	printf("slen=%d chop=", n);
	chrs = uc_chop(s, &i);
	for (i = 0; i <= n; i++)
		printf("%d,", (int) (chrs[i] - s));
	free(chrs);
	printf(" chr=");
	for (i = -1; i <= n + 1; i++) {
		char *r = uc_chr(s, i);
		if (r >= s && r <= s + len)
			printf("%d,", (int) (r - s));
		else
			printf("x,");
	}
	printf(" off=");
	for (i = 0; i <= len; i++)
		printf("%d,", uc_off(s, i));
	printf(" len=");
	for (i = 0; i <= len; i++)
		printf("%d,", uc_len(s + i));
	printf(" code=");
	for (i = 0; i <= len; i++)
		printf("%d,", uc_code(s + i));
	printf(" end=");
	for (i = 0; i <= len; i++)
		printf("%d,", (int) (uc_end(s + i) - (s + i)));
	printf(" next=");
	for (i = 0; i <= len; i++)
		printf("%d,", (int) (uc_next(s + i) - (s + i)));
	printf(" beg=");
	for (i = 0; i <= len; i++)
		printf("%d,", (int) ((s + i) - uc_beg(s, s + i)));
	printf(" prev=");
	for (i = 0; i <= len; i++)
		printf("%d,", (int) ((s + i) - uc_prev(s, s + i)));
	printf(" kind=");
	for (i = 0; i <= len; i++)
		printf("%d,", uc_kind(s + i));
	printf(" cls=");	/* isspace | isprint << 1 | isalpha << 2 | isdigit << 3 */
	for (i = 0; i <= len; i++)
		printf("%d,", (uc_isspace(s + i) != 0) | (uc_isprint(s + i) != 0) << 1 |
				(uc_isalpha(s + i) != 0) << 2 | (uc_isdigit(s + i) != 0) << 3);
	printf(" sub=");
	if (n <= 6)
		for (b = -1; b <= n; b++)
			for (e = -1; e <= n; e++) {
				char *r = uc_sub(s, b, e);
				pu_hex(r, strlen(r));
				printf(",");
				free(r);
			}
	printf("\n");
	free(s - 8);
}

/* the number of characters of s as the probe counts them (lead bytes + ASCII), used only to keep the probe away from the
 * one call of uc_sub that is undefined: exactly one offset beyond the last character */
static int resolves(char *s, int off)
{
	return off < 0 || off <= uc_slen(s);
}

/* sub <hex> <beg> <end>: uc_sub for any int offsets; "x" when exactly one offset lies beyond the last character (the C text then
 * compares a pointer into the line with the static "": not called) */
static void do_sub(char *hex, int b, int e)
{
	int len;
	char *s = pu_unhex(hex, &len, 8, 8);
	if (resolves(s, b) != resolves(s, e)) {
		printf("x\n");
	} else {
		char *r = uc_sub(s, b, e);
		pu_hex(r, strlen(r));
		printf("\n");
		free(r);
	}
	free(s - 8);
}

/* cat <hex> <hex> */
static void do_cat(char *h1, char *h2)
{
	int l1, l2;
	char *s1 = pu_unhex(h1, &l1, 8, 8);
	char *s2 = pu_unhex(h2, &l2, 8, 8);
	char *r = uc_cat(s1, s2);
	pu_hex(r, strlen(r));
	printf("\n");
	free(r);
	free(s1 - 8);
	free(s2 - 8);
}

/* mem <hex>: uc_dup, uc_lastline, uc_trim (in an array with 8 more bytes behind the terminator: keep=1 when the call changed
 * nothing but the one terminator it writes), uc_iscomb at every offset */
static void do_mem(char *hex)
{
	int len, i, n, keep = 1;
	char *s = pu_unhex(hex, &len, 8, 8);
	char *r = uc_dup(s);
	char *buf = malloc(len + 9), *old = malloc(len + 9);
	printf("dup=");
	pu_hex(r, strlen(r));
	free(r);
	printf(" last=%d trim=", (int) (uc_lastline(s) - s));
	memcpy(buf, s, len + 1);
	memset(buf + len + 1, 0x5a, 8);
	memcpy(old, buf, len + 9);
	uc_trim(buf);
	n = strlen(buf);
	pu_hex(buf, n);
	for (i = 0; i < len + 9; i++)
		if (i != n && buf[i] != old[i])
			keep = 0;
	printf(" keep=%d comb=", keep);
	for (i = 0; i <= len; i++)
		printf("%d", uc_iscomb(s + i) != 0);
	printf("\n");
	free(buf);
	free(old);
	free(s - 8);
}

int main(void)
{
	char *l, *w[8];
	while ((l = pu_getline())) {
		int n = pu_words(l, w, 8);
		if (n >= 3 && !strcmp(w[0], "sweep"))
			do_sweep(atol(w[1]), atol(w[2]));
		else if (n >= 2 && !strcmp(w[0], "str"))
			do_str(w[1]);
		else if (n >= 4 && !strcmp(w[0], "sub"))
			do_sub(w[1], atoi(w[2]), atoi(w[3]));
		else if (n >= 3 && !strcmp(w[0], "cat"))
			do_cat(w[1], w[2]);
		else if (n >= 2 && !strcmp(w[0], "mem"))
			do_mem(w[1]);
		else
			printf("?\n");
	}
	return 0;
}
