/* probe_uc.c -- drives the UTF-8 helpers of /repo's uc.c (C16).  uc.c is included textually so
 * that the static uc_cput() can be reached; uc.o is left out of the link. */
#include "uc.c"
#include "probe_util.h"

static int enc(unsigned c, char *d)		/* the probe's own RFC 3629 encoder */
{
	if (c < 0x80) { d[0] = c; return 1; }
	if (c < 0x800) { d[0] = 0xc0 | (c >> 6); d[1] = 0x80 | (c & 0x3f); return 2; }
	if (c < 0x10000) { d[0] = 0xe0 | (c >> 12); d[1] = 0x80 | ((c >> 6) & 0x3f); d[2] = 0x80 | (c & 0x3f); return 3; }
	d[0] = 0xf0 | (c >> 18); d[1] = 0x80 | ((c >> 12) & 0x3f); d[2] = 0x80 | ((c >> 6) & 0x3f); d[3] = 0x80 | (c & 0x3f);
	return 4;
}

static void do_sweep(long lo, long hi)
{
	long c;
	for (c = lo; c <= hi; c++) {
		char b[16] = {0}, put[16] = {0};
		int n;
		if (c >= 0xd800 && c <= 0xdfff)
			continue;
		n = enc(c, b);
		b[n] = 'A';
		uc_cput(put, c);
		printf("%ld %d %d %d %d %d ", c, uc_len(b), uc_code(b), (int) (uc_end(b) - b), (int) (uc_next(b) - b), uc_slen(b));
		pu_hex(put, strlen(put));
		printf("\n");
	}
}

static void do_str(char *hex)
{
	int len, i, n, b, e;
	char *s = pu_unhex(hex, &len, 8, 8);
	char **chrs;
	n = uc_slen(s);
	printf("slen=%d chop=", n);
	chrs = uc_chop(s, &i);
	for (i = 0; i <= n; i++)
		printf("%d,", (int) (chrs[i] - s));
	free(chrs);
	printf(" chr=");
	for (i = -1; i <= n + 1; i++) {
		char *r = uc_chr(s, i);
		if (r >= s && r <= s + len)
			printf("%d,", (int) (r - s));
		else
			printf("x,");
	}
	printf(" off=");
	for (i = 0; i <= len; i++)
		printf("%d,", uc_off(s, i));
	printf(" len=");
	for (i = 0; i <= len; i++)
		printf("%d,", uc_len(s + i));
	printf(" code=");
	for (i = 0; i <= len; i++)
		printf("%d,", uc_code(s + i));
	printf(" end=");
	for (i = 0; i <= len; i++)
		printf("%d,", (int) (uc_end(s + i) - (s + i)));
	printf(" next=");
	for (i = 0; i <= len; i++)
		printf("%d,", (int) (uc_next(s + i) - (s + i)));
	printf(" beg=");
	for (i = 0; i <= len; i++)
		printf("%d,", (int) ((s + i) - uc_beg(s, s + i)));
	printf(" prev=");
	for (i = 0; i <= len; i++)
		printf("%d,", (int) ((s + i) - uc_prev(s, s + i)));
	printf(" kind=");
	for (i = 0; i <= len; i++)
		printf("%d,", uc_kind(s + i));
	printf(" cls=");	/* isspace | isprint << 1 | isalpha << 2 | isdigit << 3 */
	for (i = 0; i <= len; i++)
		printf("%d,", (uc_isspace(s + i) != 0) | (uc_isprint(s + i) != 0) << 1 |
				(uc_isalpha(s + i) != 0) << 2 | (uc_isdigit(s + i) != 0) << 3);
	printf(" sub=");
	if (n <= 6)
		for (b = -1; b <= n; b++)
			for (e = -1; e <= n; e++) {
				char *r = uc_sub(s, b, e);
				pu_hex(r, strlen(r));
				printf(",");
				free(r);
			}
	printf("\n");
	free(s - 8);
}

int main(void)
{
	char *l, *w[8];
	while ((l = pu_getline())) {
		int n = pu_words(l, w, 8);
		if (n >= 3 && !strcmp(w[0], "sweep"))
			do_sweep(atol(w[1]), atol(w[2]));
		else if (n >= 2 && !strcmp(w[0], "str"))
			do_str(w[1]);
		else
			printf("?\n");
	}
	return 0;
}
