/* probe_rstr.c -- C12: the literal fast path of /repo's rstr.c against the general engine
 * (rset.c + regex.c) on the same pattern, line and flags.  rstr.c is included textually so that
 * the `rs` field of struct rstr (which path rstr_make chose) can be read; rstr.o is left out of
 * the link.
 *
 *   f <hexpat> <hexline> <flags>      flags = RE_ICASE(1) | RE_NOTBOL(2) | RE_NOTEOL(4)
 *     -> path=<s|g|x> rstr=<rc>:<so>,<eo>:<so1>,<eo1>:<so2>,<eo2> rset=<rc>:... cut=<n>
 *   fn <hexpat> <hexline> <flags> <n>   the same with group count n (0..3) instead of 3; all 6 cells of the
 *     group array are printed whatever the result (-7 = the cell was not written)
 *     -> path=<s|g|x> rstr=<rc>:<c0>,...,<c5> rset=<rc>:<c0>,...,<c5> cut=<n>
 *   sw <hexpat> <maxlen> <hexchar,hexchar,...>
 *     -> path=<s|g|x> R=<2 chars per case> E=<2 chars per case>
 *        cases: icase 0..1, notbol 0..1, noteol 0..1, lines = all strings of 0..maxlen alphabet
 *        characters (by length, then lexicographically) + "\n"; per case so,eo in base 36,
 *        "--" = not found, "**" = engine hit its depth limit, "!!" = a group >= 1 is not -1.
 *   tb <hexpat> <icase> <hexline>      (C14: what ec_substitute's matcher answers on every suffix)
 *     -> path=<s|g|x> cut=<n> <k>.<nb>=<so>,<eo>,<so1>,<eo1>,... for every byte offset k of the line and
 *        nb = 0/1 (RE_NOTBOL) on which rstr_find(re, line + k, 16, offs, nb) finds a match
 */
#include "rstr.c"
#include "probe_util.h"

#ifdef NEATVI_VERIF
extern int re_verif_depthcut;
#define CUT_RESET()	(re_verif_depthcut = 0)
#define CUT_GET()	(re_verif_depthcut)
#else
#define CUT_RESET()	((void) 0)
#define CUT_GET()	0
#endif

#define NG	3
#define SENT	(-7)

static void grps_init(int *g)
{
	int i;
	for (i = 0; i < NG * 2; i++)
		g[i] = SENT;
}

static void grps_print(int rc, int *g)
{
	int i;
	printf("%d", rc < 0 ? -1 : 0);
	if (rc >= 0)
		for (i = 0; i < NG; i++)
			printf(":%d,%d", g[i * 2], g[i * 2 + 1]);
}

static void do_find(char *hpat, char *hline, int flags)
{
	int plen, llen, rc, cut;
	char *pat = pu_unhex(hpat, &plen, 0, 0);
	char *line = pu_unhex(hline, &llen, 0, 0);
	int g[NG * 2];
	struct rstr *rs = rstr_make(pat, flags & RE_ICASE);
	struct rset *set = rset_make(1, &pat, flags & RE_ICASE);
	printf("path=%c", !rs ? 'x' : rs->rs ? 'g' : 's');
	printf(" rstr=");
	if (rs) {
		grps_init(g);
		rc = rstr_find(rs, line, NG, g, flags & (RE_NOTBOL | RE_NOTEOL));
		grps_print(rc, g);
	} else {
		printf("x");
	}
	printf(" rset=");
	cut = 0;
	if (set) {
		grps_init(g);
		CUT_RESET();
		rc = rset_find(set, line, NG, g, flags & (RE_NOTBOL | RE_NOTEOL));
		cut = CUT_GET();
		grps_print(rc, g);
	} else {
		printf("x");
	}
	printf(" cut=%d\n", cut);
	if (rs)
		rstr_free(rs);
	if (set)
		rset_free(set);
	free(pat);
	free(line);
}

static void cells_print(int rc, int *g)
{
	int i;
	printf("%d:", rc < 0 ? -1 : 0);
	for (i = 0; i < NG * 2; i++)
		printf("%s%d", i ? "," : "", g[i]);
}

static void do_find_n(char *hpat, char *hline, int flags, int n)
{
	int plen, llen, rc, cut = 0;
	char *pat = pu_unhex(hpat, &plen, 0, 0);
	char *line = pu_unhex(hline, &llen, 0, 0);
	int g[NG * 2];
	struct rstr *rs = rstr_make(pat, flags & RE_ICASE);
	struct rset *set = rset_make(1, &pat, flags & RE_ICASE);
	if (n < 0 || n > NG)
		n = NG;
	printf("path=%c rstr=", !rs ? 'x' : rs->rs ? 'g' : 's');
	if (rs) {
		grps_init(g);
		rc = rstr_find(rs, line, n, g, flags & (RE_NOTBOL | RE_NOTEOL));
		cells_print(rc, g);
	} else {
		printf("x");
	}
	printf(" rset=");
	if (set) {
		grps_init(g);
		CUT_RESET();
		rc = rset_find(set, line, n, g, flags & (RE_NOTBOL | RE_NOTEOL));
		cut = CUT_GET();
		cells_print(rc, g);
	} else {
		printf("x");
	}
	printf(" cut=%d\n", cut);
	if (rs)
		rstr_free(rs);
	if (set)
		rset_free(set);
	free(pat);
	free(line);
}

static char b36(int v)
{
	return v < 0 || v > 35 ? '?' : v < 10 ? '0' + v : 'a' + v - 10;
}

#define MAXA	16
static char *alpha[MAXA];
static int alen[MAXA];
static int nalpha;

/* the idx-th string of n alphabet characters (most significant digit first), newline-terminated */
static void mkline(char *dst, int n, long idx)
{
	int d[16];
	int i;
	char *p = dst;
	for (i = n - 1; i >= 0; i--) {
		d[i] = idx % nalpha;
		idx /= nalpha;
	}
	for (i = 0; i < n; i++) {
		memcpy(p, alpha[d[i]], alen[d[i]]);
		p += alen[d[i]];
	}
	*p++ = '\n';
	*p = '\0';
}

static void do_sweep(char *hpat, int maxlen, char *alphaspec)
{
	int plen, ic, fl, n, pass;
	long idx, cnt;
	char *pat = pu_unhex(hpat, &plen, 0, 0);
	char *w = alphaspec;
	struct rstr *rs[2];
	struct rset *set[2];
	nalpha = 0;
	while (*w && nalpha < MAXA) {
		char *e = strchr(w, ',');
		if (e)
			*e = '\0';
		alpha[nalpha] = pu_unhex(w, &alen[nalpha], 0, 0);
		nalpha++;
		if (!e)
			break;
		w = e + 1;
	}
	for (ic = 0; ic < 2; ic++) {
		rs[ic] = rstr_make(pat, ic ? RE_ICASE : 0);
		set[ic] = rset_make(1, &pat, ic ? RE_ICASE : 0);
	}
	printf("path=%c", !rs[0] ? 'x' : rs[0]->rs ? 'g' : 's');
	for (pass = 0; pass < 2; pass++) {	/* 0: fast path answers, 1: engine answers */
		printf(pass ? " E=" : " R=");
		for (ic = 0; ic < 2; ic++) {
			for (fl = 0; fl < 4; fl++) {
				for (n = 0; n <= maxlen; n++) {
					for (cnt = 1, idx = 0; idx < n; idx++)
						cnt *= nalpha;
					for (idx = 0; idx < cnt; idx++) {
						char *line = malloc(n * 4 + 2);	/* exact size: overreads are visible to ASan */
						int g[NG * 2];
						int rc = -1, bad = 0;
						mkline(line, n, idx);
						grps_init(g);
						if (!pass && rs[ic]) {
							rc = rstr_find(rs[ic], line, NG, g, fl * 2);
							if (rc >= 0 && !rs[ic]->rs && (g[2] != -1 || g[3] != -1 || g[4] != -1 || g[5] != -1))
								bad = 1;
						}
						if (pass && set[ic]) {
							CUT_RESET();
							rc = rset_find(set[ic], line, NG, g, fl * 2);
							if (CUT_GET())
								bad = 2;
						}
						if (bad)
							printf(bad == 1 ? "!!" : "**");
						else if (rc < 0)
							printf("--");
						else
							printf("%c%c", b36(g[0]), b36(g[1]));
						free(line);
					}
				}
			}
		}
	}
	printf("\n");
	for (ic = 0; ic < 2; ic++) {
		if (rs[ic])
			rstr_free(rs[ic]);
		if (set[ic])
			rset_free(set[ic]);
	}
	for (n = 0; n < nalpha; n++)
		free(alpha[n]);
	free(pat);
}

#define NT	16
static void do_table(char *hpat, int icase, char *hline)
{
	int plen, llen, k, nb, i, cut = 0;
	char *pat = pu_unhex(hpat, &plen, 0, 0);
	char *line = pu_unhex(hline, &llen, 0, 0);
	struct rstr *rs = rstr_make(pat, icase ? RE_ICASE : 0);
	printf("path=%c", !rs ? 'x' : rs->rs ? 'g' : 's');
	CUT_RESET();
	for (k = 0; rs && k < llen; k++) {
		for (nb = 0; nb < 2; nb++) {
			int offs[NT * 2];
			for (i = 0; i < NT * 2; i++)
				offs[i] = SENT;
			if (rstr_find(rs, line + k, NT, offs, nb ? RE_NOTBOL : 0) >= 0) {
				printf(" %d.%d=", k, nb);
				for (i = 0; i < NT * 2; i++)
					printf(i ? ",%d" : "%d", offs[i]);
			}
		}
	}
	cut = CUT_GET();
	printf(" cut=%d\n", cut);
	if (rs)
		rstr_free(rs);
	free(pat);
	free(line);
}

int main(void)
{
	char *l;
	char *w[8];
	while ((l = pu_getline())) {
		int n = pu_words(l, w, 8);
		if (n == 4 && !strcmp(w[0], "f"))
			do_find(w[1], w[2], atoi(w[3]));
		else if (n == 5 && !strcmp(w[0], "fn"))
			do_find_n(w[1], w[2], atoi(w[3]), atoi(w[4]));
		else if (n == 4 && !strcmp(w[0], "tb"))
			do_table(w[1], atoi(w[2]), w[3]);
		else if (n == 4 && !strcmp(w[0], "sw"))
			do_sweep(w[1], atoi(w[2]), w[3]);
		else
			printf("?\n");
		fflush(stdout);
	}
	return 0;
}
