/* Translator helper: compiled against /repo on every run; prints the tables and constants of
 * uc.c so that tools/translate.py can regenerate coq/GenUcTables.v.  Uses the C compiler as
 * the parser of the source text. */
#include "uc.c"

static void ranges(char *name, int tab[][2], int n)
{
	int i;
	printf("table %s %d", name, n);
	for (i = 0; i < n; i++)
		printf(" %d %d", tab[i][0], tab[i][1]);
	printf("\n");
}

int main(void)
{
	int i, c, in = 0, beg = 0;
	ranges("dwchars", dwchars, LEN(dwchars));
	ranges("zwchars", zwchars, LEN(zwchars));
	ranges("bchars", bchars, LEN(bchars));
	printf("achars %d", (int) LEN(achars));
	for (i = 0; i < LEN(achars); i++)
		printf(" %u %u %u %u %u", achars[i].c, achars[i].s, achars[i].i, achars[i].m, achars[i].f);
	printf("\n");
	/* truth tables of the UC_R2L macro and of uc_acomb() over all code points, as ranges */
	printf("r2l");
	for (c = 0; c <= 0x110000; c++) {
		int v = c < 0x110000 && UC_R2L(c);
		if (v && !in) { in = 1; beg = c; }
		if (!v && in) { in = 0; printf(" %d %d", beg, c - 1); }
	}
	printf("\n");
	printf("acomb");
	for (c = 0; c <= 0x110000; c++) {
		int v = c < 0x110000 && uc_acomb(c);
		if (v && !in) { in = 1; beg = c; }
		if (!v && in) { in = 0; printf(" %d %d", beg, c - 1); }
	}
	printf("\n");
	/* thresholds used before the bisection */
	printf("dw_min %d\n", 0x1100);
	return 0;
}
