/* probe_cap2.c -- C05: the small tables of /repo's reg.c and lbuf.c and the off[] array of led_render.
 * reg.c, lbuf.c and led.c are included textually to reach the statics (bufs[], lnmode[], markidx,
 * led_render); their objects are left out of the link.
 *
 *   reg <c> <lnnl> <pre>        clear the register table, set the slots listed in <pre> (i,j,... or -),
 *                               reg_put(c, s, ln) with lnnl = 0: "ab",0  1: "ab",1  2: "a\nb",0;
 *                               answers the slots that are set afterwards
 *   get <c> <pre>               reg_get(c): 1 = a string, 0 = NULL
 *   mark <m>                    markidx(m); on a fresh line buffer lbuf_mark(m, 5, 7) and lbuf_jump(m);
 *                               answers  <idx> <ret> <pos> <off> <cells of mark[] changed by lbuf_mark>
 *   render <cbeg> <cend> <td> <hex>   led_render(line, cbeg, cend, "") with text direction td; answers the
 *                               rendered bytes (off[] is a heap block of exactly cend - cbeg ints)
 */
#include "reg.c"
#include "lbuf.c"
#define linecount led_linecount
#include "led.c"
#undef linecount
#include "probe_util.h"

static void reg_clear(char *pre)
{
	int i;
	for (i = 0; i < LEN(bufs); i++) {
		free(bufs[i]);
		bufs[i] = NULL;
		lnmode[i] = 0;
	}
	if (strcmp(pre, "-")) {
		char *s = pre;
		while (*s) {
			int k = atoi(s);
			if (k >= 0 && k < LEN(bufs) && !bufs[k])
				bufs[k] = uc_dup("x");
			while (*s && *s != ',')
				s++;
			if (*s == ',')
				s++;
		}
	}
}

static void do_reg(int c, int lnnl, char *pre)
{
	int i, first = 1;
	reg_clear(pre);
	reg_put(c, lnnl == 2 ? "a\nb" : "ab", lnnl == 1);
	for (i = 0; i < LEN(bufs); i++) {
		if (bufs[i]) {
			printf("%s%d", first ? "" : ",", i);
			first = 0;
		}
	}
	printf("%s\n", first ? "-" : "");
}

static void do_get(int c, char *pre)
{
	int ln = 0;
	reg_clear(pre);
	printf("%d\n", reg_get(c, &ln) != NULL);
}

static void do_mark(int m)
{
	struct lbuf *lb = lbuf_make();
	int pos = -1, off = -1, ret, i, first = 1;
	int before[NMARKS];
	lbuf_edit(lb, "a\nb\nc\nd\ne\nf\ng\n", 0, 0);
	memcpy(before, lb->mark, sizeof(before));
	lbuf_mark(lb, m, 5, 7);
	ret = lbuf_jump(lb, m, &pos, &off);
	printf("%d %d %d %d ", markidx(m), ret, pos, off);
	for (i = 0; i < NMARKS; i++) {
		if (lb->mark[i] != before[i]) {		/* the edit itself sets '[' and ']' (to 0 and 7) */
			printf("%s%d", first ? "" : ",", i);
			first = 0;
		}
	}
	printf("%s\n", first ? "-" : "");
	lbuf_free(lb);
}

static void do_render(int cbeg, int cend, int td, char *hex)
{
	int n;
	char *raw = pu_unhex(hex, &n, 0, 0);
	char *s = malloc(strlen(raw) + 1);
	char *r;
	strcpy(s, raw);
	xtd = td;
	r = led_render(s, cbeg, cend, "");
	pu_hex(r, strlen(r));
	printf("\n");
	free(r);
	free(s);
	free(raw);
	xtd = +1;
}

int main(void)
{
	char *files[] = {NULL};
	char *l, *w[16];
	xvis = 0;
	xled = 0;
	dir_init();
	syn_init();
	if (ex_init(files))
		return 2;
	while ((l = pu_getline())) {
		int n = pu_words(l, w, 16);
		if (n == 4 && !strcmp(w[0], "reg"))
			do_reg(atoi(w[1]), atoi(w[2]), w[3]);
		else if (n == 3 && !strcmp(w[0], "get"))
			do_get(atoi(w[1]), w[2]);
		else if (n == 2 && !strcmp(w[0], "mark"))
			do_mark(atoi(w[1]));
		else if (n == 5 && !strcmp(w[0], "render"))
			do_render(atoi(w[1]), atoi(w[2]), atoi(w[3]), w[4]);
		else
			printf("?\n");
		fflush(stdout);
	}
	return 0;
}
