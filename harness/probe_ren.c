/* probe_ren.c -- drives ren.c, dir.c and the width-class / shaping functions of uc.c of /repo
 * (C17, C18).  The three modules are included textually to reach their statics (find, uc_isdw,
 * uc_iszw, pos_next, pos_prev, dir_match, uc_cshape, can_join, find_achar, ...).  Calls of
 * rset_find made from dir.c go through a recording wrapper, so that the answers of the pattern
 * matcher can be handed to the extracted model as its matcher oracle.
 *
 * Requests (one per line):
 *   ren <hexline> <order> <td> <lim>     all ren_* observables + dir_context/dir_reorder + the matcher trace
 *   dir <hexline> <order> <td> <lim>     only dir_context / dir_match / dir_reorder + the matcher trace (long lines of C18)
 *                                        both print `rord=`: the order array ren_position() itself laid the line out with
 *                                        (what its own call of dir_reorder left in the array; the identity when
 *                                        ren_position did not call it: order 0, the line over linelimit, ASCII with order 1)
 *   shape <hexline> <xshape>             uc_shape / ren_translate of every character of the line
 *   wsweep <lo> <hi>                     width classes of every code point lo..hi
 *   wclass <lo> <hi>                     the same function of every code point lo..hi, printed as maximal runs
 *                                        "lo-hi:fields;" of code points with identical answers
 *   cssweep                              uc_cshape / can_join over letters x neighbour classes
 *   fasweep                              find_achar over all code points
 */
#include "vi.h"
int probe_rset_find(struct rset *re, char *s, int n, int *grps, int flg);
#include "uc.c"
/* ren.c's own call of dir_reorder (in ren_position_reorder) goes through a wrapper that keeps a copy of the
 * array: whether ren_position() reorders a line at all -- the linelimit / order gate -- is an observable */
void probe_ren_dir_reorder(char *s, int *ord);
#define dir_reorder probe_ren_dir_reorder
#include "ren.c"
#undef dir_reorder
#define rset_find probe_rset_find
#include "dir.c"
#undef rset_find
#include "probe_util.h"

extern int re_verif_depthcut;		/* hook of regex.c (-DNEATVI_VERIF): how often re_rec() hit its depth limit */
static int cap_found, cap_flg, cap_n, cap_subs[64];
static int cap_ctxfound;

int probe_rset_find(struct rset *re, char *s, int n, int *grps, int flg)
{
	int r = rset_find(re, s, n, grps, flg);
	int i;
	if (re == dir_rsctx) {
		cap_ctxfound = r;
		return r;
	}
	cap_found = r;
	cap_flg = flg;
	cap_n = n < 32 ? n : 32;
	for (i = 0; i < cap_n * 2; i++)
		cap_subs[i] = r >= 0 && grps ? grps[i] : -1;
	return r;
}

static int rr_calls, rr_n, *rr_ord;

void probe_ren_dir_reorder(char *s, int *ord)
{
	int n = uc_slen(s);
	dir_reorder(s, ord);
	rr_calls++;
	free(rr_ord);
	rr_ord = malloc((n + 1) * sizeof(rr_ord[0]));
	memcpy(rr_ord, ord, n * sizeof(rr_ord[0]));
	rr_n = n;
}

static int enc(unsigned c, char *d)		/* the probe's own encoder */
{
	if (c < 0x80) { d[0] = c; return 1; }
	if (c < 0x800) { d[0] = 0xc0 | (c >> 6); d[1] = 0x80 | (c & 0x3f); return 2; }
	if (c < 0x10000) { d[0] = 0xe0 | (c >> 12); d[1] = 0x80 | ((c >> 6) & 0x3f); d[2] = 0x80 | (c & 0x3f); return 3; }
	d[0] = 0xf0 | (c >> 18); d[1] = 0x80 | ((c >> 12) & 0x3f); d[2] = 0x80 | ((c >> 6) & 0x3f); d[3] = 0x80 | (c & 0x3f);
	return 4;
}

/* the reference control flow of dir_fix, calling the real dir_match and printing what the matcher
 * answered; dmbuf collects dir_match's own results (an observable) */
static char dmbuf[1 << 16];
static int dmlen, ntrace, maxgrp;

static void trace_fix(char **chrs, int dir, int beg, int end)
{
	int r_beg, r_end, c_beg, c_end, c_dir, c_rec, i;
	while (beg < end && ntrace < 400) {
		int nomatch;
		cap_found = -1;
		cap_flg = -1;
		cap_n = 0;
		r_beg = r_end = c_beg = c_end = c_dir = c_rec = -9;
		nomatch = dir_match(chrs, beg, end, dir, &c_rec, &r_beg, &r_end, &c_beg, &c_end, &c_dir);
		printf("%s%d,%d,%d,%d,%d", ntrace ? ";" : "", beg, end, dir, cap_flg, cap_found);
		ntrace++;
		if (cap_found >= 0)
			for (i = 0; i < 2 * (maxgrp + 1) && i < 2 * cap_n; i++)
				printf(",%d", cap_subs[i]);
		if (dmlen < (int) sizeof(dmbuf) - 200) {
			if (nomatch)
				dmlen += sprintf(dmbuf + dmlen, "x;");
			else
				dmlen += sprintf(dmbuf + dmlen, "%d,%d,%d,%d,%d,%d;", r_beg, r_end, c_beg, c_end, c_dir, c_rec);
		}
		if (nomatch)
			break;
		if (r_end <= beg || r_end > end || r_beg < beg || c_beg < r_beg || c_end > r_end)
			break;		/* the model reports the same condition */
		if (c_beg == r_beg)
			c_beg++;
		if (c_rec)
			trace_fix(chrs, c_dir, c_beg, c_end);
		beg = r_end;
	}
}

static void ilist(char *key, int *a, int n)
{
	int i;
	printf(" %s=", key);
	for (i = 0; i < n; i++)
		printf("%d,", a[i]);
}

static void do_ren(char *hex, int order, int td, int lim, int full)
{
	int len, n, i, p, total, dctx, tn;
	char *s = pu_unhex(hex, &len, 8, 8);
	char **chrs;
	int *pos, *ord;
	int plo[2], phi[2];
	xorder = order;
	xtd = td;
	xlim = lim;
	chrs = uc_chop(s, &n);
	/* matcher oracle for the model */
	cap_ctxfound = -2;
	re_verif_depthcut = 0;
	dctx = dir_context(s);
	ord = malloc((n + 1) * sizeof(ord[0]));
	for (i = 0; i < n; i++)
		ord[i] = i;
	dir_reorder(s, ord);			/* cut = depth cuts of the matcher during one dir_context + dir_reorder */
	free(ord);
	printf("n=%d cut=%d ctxf=%d trace=", n, re_verif_depthcut, cap_ctxfound);
	dmlen = 0;
	dmbuf[0] = '\0';
	ntrace = 0;
	tn = n;
	if (tn && chrs[tn - 1][0] == '\n')
		tn--;
	trace_fix(chrs, dctx, 0, tn);
	if (!ntrace)
		printf("-");
	printf(" |");
	/* observables */
	printf(" dctx=%d dm=%s", dctx, dmlen ? dmbuf : "-");
	ord = malloc((n + 1) * sizeof(ord[0]));
	for (i = 0; i < n; i++)
		ord[i] = i;
	dir_reorder(s, ord);
	ilist("ord", ord, n);
	free(ord);
	/* the order ren_position() itself uses: its own dir_reorder call, if it makes one */
	rr_calls = 0;
	pos = ren_position(s);
	printf(" rord=");
	if (rr_calls == 1 && rr_n == n)
		for (i = 0; i < n; i++)
			printf("%d,", rr_ord[i]);
	else if (rr_calls == 0)
		for (i = 0; i < n; i++)
			printf("%d,", i);
	else
		printf("CALLS%d", rr_calls);
	free(pos);
	if (!full) {
		printf("\n");
		free(chrs);
		free(s - 8);
		return;
	}
	pos = ren_position(s);
	total = pos[n];
	ilist("pos", pos, n + 1);
	printf(" cw=");
	for (i = 0; i < n; i++)
		printf("%d,", ren_cwid(chrs[i], pos[i]));
	printf(" wid=%d", ren_wid(s));
	printf(" rpos=");
	for (i = 0; i <= n + 1; i++)
		printf("%d,", ren_pos(s, i));
	printf(" noeol=");
	for (i = -1; i <= n + 1; i++)
		printf("%d,", ren_noeol(s, i));
	/* columns: everything for short lines, both ends for long ones */
	if (total <= 80) {
		plo[0] = -2; phi[0] = total + 2; plo[1] = 0; phi[1] = -1;
	} else {
		plo[0] = -2; phi[0] = 6; plo[1] = total - 6; phi[1] = total + 2;
	}
	printf(" cols=");
	for (i = 0; i < 2; i++)
		for (p = plo[i]; p <= phi[i]; p++)
			printf("%d:%d:%d:%d:%d:%d:%d:%d:%d,", p, ren_off(s, p), ren_cursor(s, p), ren_next(s, p, +1), ren_next(s, p, -1),
				pos_next(pos, n, p, 0), pos_next(pos, n, p, 1), pos_prev(pos, n, p, 0), pos_prev(pos, n, p, 1));
	printf("\n");
	free(pos);
	free(chrs);
	free(s - 8);
}

static void do_shape(char *hex, int shape)
{
	int len, n, i;
	char *s = pu_unhex(hex, &len, 8, 8);
	char **chrs = uc_chop(s, &n);
	xshape = shape;
	printf("sh=");
	for (i = 0; i < n; i++) {
		char *r = uc_shape(s, chrs[i]);
		if (r)
			pu_hex(r, strlen(r));
		else
			printf("x");
		printf(",");
	}
	printf(" tr=");
	for (i = 0; i < n; i++) {
		char *r = ren_translate(chrs[i], s);
		if (r)
			pu_hex(r, strlen(r));
		else
			printf("x");
		printf(",");
	}
	printf(" comb=");
	for (i = 0; i < n; i++)
		printf("%d", uc_iscomb(chrs[i]) != 0);
	printf("\n");
	free(chrs);
	free(s - 8);
}

/* the width-class answers for code point c, as text (without the code point) */
static void wclass_of(long c, char *out)
{
	char b[16] = {0};
	int n, wid = 0, i;
	char *ph;
	n = enc(c, b);
	b[n] = 'A';
	ph = ren_placeholder(b, &wid);
	out += sprintf(out, "%d %d %d %d %d %d %d %d ", uc_isdw(c) != 0, uc_iszw(c) != 0, find(c, bchars, LEN(bchars)) != 0,
		uc_wid(b), uc_isbell(b) != 0, uc_iscomb(b) != 0, ren_cwid(b, 0), ren_cwid(b, 5));
	if (ph && *ph)
		for (i = 0; ph[i] && i < 16; i++)
			out += sprintf(out, "%02x", (unsigned char) ph[i]);
	else
		out += sprintf(out, ph ? "-" : "x");
}

static void do_wsweep(long lo, long hi)
{
	long c;
	char buf[128];
	for (c = lo; c <= hi; c++) {
		wclass_of(c, buf);
		printf("%ld %s\n", c, buf);
	}
}

/* every code point lo..hi is evaluated; equal neighbours are printed as one run */
static void do_wclass(long lo, long hi)
{
	long c, start = lo;
	char cur[128], buf[128];
	if (lo > hi) {
		printf("-\n");
		return;
	}
	wclass_of(lo, cur);
	for (c = lo + 1; c <= hi; c++) {
		wclass_of(c, buf);
		if (strcmp(buf, cur)) {
			printf("%ld-%ld:%s;", start, c - 1, cur);
			start = c;
			strcpy(cur, buf);
		}
	}
	printf("%ld-%ld:%s;\n", start, hi, cur);
}

static int cs_set[512], cs_n, nb_set[128], nb_n;

static void cs_sets(void)
{
	int i;
	static int extra[] = {0, 0x41, 0x20, 0x64b, 0x670, 0x600, 0x6f0, 0xfe8e, 0xfeff, 0x200e};
	cs_n = nb_n = 0;
	for (i = 0; i < LEN(achars); i++) {
		cs_set[cs_n++] = achars[i].c;
		nb_set[nb_n++] = achars[i].c;
		if (achars[i].s) cs_set[cs_n++] = achars[i].s;
		if (achars[i].i) cs_set[cs_n++] = achars[i].i;
		if (achars[i].m) cs_set[cs_n++] = achars[i].m;
		if (achars[i].f) cs_set[cs_n++] = achars[i].f;
	}
	for (i = 0; i < LEN(extra); i++) {
		cs_set[cs_n++] = extra[i];
		nb_set[nb_n++] = extra[i];
	}
}

static void do_cssweep(void)
{
	int i, j, k;
	cs_sets();
	for (i = 0; i < cs_n; i++) {
		printf("%d:", cs_set[i]);
		for (j = 0; j < nb_n; j++)
			for (k = 0; k < nb_n; k++)
				printf("%d,", uc_cshape(cs_set[i], nb_set[j], nb_set[k]));
		printf("\n");
	}
	for (j = 0; j < nb_n; j++) {
		printf("j%d:", nb_set[j]);
		for (k = 0; k < nb_n; k++)
			printf("%d", can_join(nb_set[j], nb_set[k]) != 0);
		printf("\n");
	}
}

static void do_fasweep(void)
{
	int c;
	for (c = 0; c <= 0x110000; c++) {
		struct achar *a = find_achar(c);
		if (a)
			printf("%d:%d,", c, (int) (a - achars));
	}
	printf("\n");
}

int main(void)
{
	char *l, *w[8];
	int i, grp;
	dir_init();
	for (i = 0; !conf_dirmark(i, NULL, NULL, NULL, &grp); i++)
		if (grp > maxgrp)
			maxgrp = grp;
	while ((l = pu_getline())) {
		int n = pu_words(l, w, 8);
		if (n == 5 && !strcmp(w[0], "ren"))
			do_ren(w[1], atoi(w[2]), atoi(w[3]), atoi(w[4]), 1);
		else if (n == 5 && !strcmp(w[0], "dir"))
			do_ren(w[1], atoi(w[2]), atoi(w[3]), atoi(w[4]), 0);
		else if (n == 3 && !strcmp(w[0], "shape"))
			do_shape(w[1], atoi(w[2]));
		else if (n == 3 && !strcmp(w[0], "wsweep"))
			do_wsweep(atol(w[1]), atol(w[2]));
		else if (n == 3 && !strcmp(w[0], "wclass"))
			do_wclass(atol(w[1]), atol(w[2]));
		else if (n == 1 && !strcmp(w[0], "cssweep"))
			do_cssweep();
		else if (n == 1 && !strcmp(w[0], "fasweep"))
			do_fasweep();
		else
			printf("?\n");
		fflush(stdout);
	}
	return 0;
}
