/* probe_exparse.c -- C05: drives the static command-line scanners of /repo's ex.c (ex_loc, ex_cmd,
 * ex_idx, ex_arg, ex_txt, ex_plus, cutword, ex_region, the length guard of ex_exec) and the input
 * queue of term.c (term_push, term_read, term_cmd).  ex.c and term.c are included textually to
 * reach the statics; ex.o and term.o are left out of the link.
 *
 * Every destination handed to a scanner is a heap block of exactly EXLEN bytes and every source
 * line a heap block of exactly strlen+1 bytes, so that the sanitized build reports a write past
 * the capacity or a read past the terminator at the first byte.
 *
 * Requests are read from a duplicate of stdin; descriptor 0 is replaced by a pipe owned by the
 * probe so that term_read() can be made to refill from "the terminal".
 *
 *   parse <hex>                 the loop of ex_exec without dispatch (line shorter than EXLEN)
 *   exec <hex>                  the real ex_exec (lines that are harmless to execute)
 *   region <len> <xrow> <hex>   ex_region on a buffer of <len> lines
 *   plus <hex> / cut <hex>      ex_plus / cutword
 *   term <op>...                p<n> push n bytes, r read, R read with a refill byte ready, c term_cmd
 *   regx <hex>                  the REG() macro on a heap block of exactly strlen+1 bytes
 *   pexp <sp> <cur> <alt> <hex> ex_pathexpand(src, sp) with bufs[0].path = cur, bufs[1].path = alt
 *                               ("-" = NULL, "e" = the empty string, else hex; heap blocks of exact size)
 *   bufs <op>...                from an empty table: o open a new path, s<idx> bufs_switch(idx), h bufs_shift;
 *                               answers the slot returned by bufs_findroom (o) and the table of used slots
 *   subst <ic> <pat> <ln> <rep> what one round of ec_substitute's loop sees: rstr_make(pat), rstr_find(re, ln, 16, offs, 0) on a
 *                               heap copy of the line of exactly strlen+1 bytes; answers `nopat`, `nomatch`, or the 32 offsets
 *                               followed by what replace() appends for <rep> -- replace() is only called when every group is
 *                               unset (-1,-1) or lies inside the line (else `BADOFFS`: the call would hand memcpy a pointer
 *                               outside the line or a negative length)
 */
#include "ex.c"
#include "term.c"
#include "probe_util.h"
#include <unistd.h>

static FILE *req;
static int fill_fd;

static char *exact(char *s, int n)		/* heap copy of exactly n + 1 bytes */
{
	char *r = malloc(n + 1);
	memcpy(r, s, n);
	r[n] = '\0';
	return r;
}

static void do_parse(char *hex)
{
	int len;
	char *raw = pu_unhex(hex, &len, 0, 0);
	char *ln0 = exact(raw, strlen(raw));
	char *ln = ln0;
	if (strlen(ln) >= EXLEN) {
		printf("toolong\n");
		free(raw);
		free(ln0);
		return;
	}
	if (!*ln)
		printf("-");
	while (*ln) {
		char *loc = malloc(EXLEN), *cmd = malloc(EXLEN), *arg = malloc(EXLEN);
		char *ab;
		int idx;
		ln = ex_loc(ln, loc);
		ln = ex_cmd(ln, cmd);
		idx = ex_idx(cmd);
		ab = idx >= 0 ? excmds[idx].abbr : "unknown";
		ln = ex_arg(ln, arg, ab);
		if (ab[0] == 'r' && ab[1] == 's' && ln[0]) {	/* the only branch of ex_txt that moves src */
			char *txt = NULL;
			ln = ex_txt(ln, &txt, ab);
			free(txt);
		}
		pu_hex(loc, strlen(loc));
		printf(",");
		pu_hex(cmd, strlen(cmd));
		printf(",%d,", idx);
		pu_hex(arg, strlen(arg));
		printf(",%d ", (int) (ln - ln0));
		free(loc);
		free(cmd);
		free(arg);
	}
	printf("\n");
	free(raw);
	free(ln0);
}

static void set_lines(int len)
{
	int i;
	struct sbuf *sb = sbuf_make();
	for (i = 0; i < len; i++)
		sbuf_chr(sb, '\n');
	lbuf_edit(xb, sbuf_buf(sb), 0, lbuf_len(xb));
	sbuf_free(sb);
}

/* the real ex_exec on a line that, if it is parsed at all, moves the current line of a 5-line buffer from 0 to 2 */
static void do_exec(char *hex)
{
	int len, ret;
	char *raw = pu_unhex(hex, &len, 0, 0);
	char *ln = exact(raw, strlen(raw));
	set_lines(5);
	xrow = 0;
	{	/* what the command prints is not part of the observation */
		int save, nul;
		fflush(stdout);
		save = dup(1);
		nul = open("/dev/null", O_WRONLY);
		dup2(nul, 1);
		ret = ex_exec(ln);
		fflush(stdout);
		dup2(save, 1);
		close(save);
		close(nul);
	}
	printf("%d xrow=%d\n", ret, xrow);
	xrow = 0;
	free(raw);
	free(ln);
}

static void do_region(int len, int row, char *hex)
{
	int n, beg = 0, end = 0, ret;
	char *raw = pu_unhex(hex, &n, 0, 0);
	char *loc = exact(raw, strlen(raw));
	set_lines(len);
	xrow = row;
	ret = ex_region(loc, &beg, &end);
	if (ret)
		printf("fail xrow=%d\n", xrow);
	else
		printf("ok %d %d xrow=%d\n", beg, end, xrow);
	xrow = 0;
	free(raw);
	free(loc);
}

static void do_plus(char *hex, int cut)
{
	int n;
	char *raw = pu_unhex(hex, &n, 0, 0);
	char *s = exact(raw, strlen(raw));
	char *d = malloc(EXLEN);
	char *r;
	if (strlen(s) >= EXLEN) {
		printf("toolong\n");
	} else {
		r = cut ? cutword(s, d) : ex_plus(s, d);
		pu_hex(d, strlen(d));
		printf(" %d\n", (int) (r - s));
	}
	free(raw);
	free(s);
	free(d);
}

static void do_term(char **w, int n)
{
	int i;
	ibuf_pos = ibuf_cnt = icmd_pos = 0;	/* every request starts from the initial state */
	for (i = 0; i < n; i++) {
		if (w[i][0] == 'p') {
			int k = atoi(w[i] + 1);
			char *s = malloc(k + 1);
			memset(s, 'k', k);
			term_push(s, k);
			free(s);
		} else if (w[i][0] == 'r' || w[i][0] == 'R') {
			if (ibuf_pos >= ibuf_cnt) {	/* term_read would wait for the terminal */
				if (w[i][0] == 'r') {
					printf("E ");
					continue;
				}
				if (write(fill_fd, "z", 1) != 1)
					exit(3);
			}
			printf("%d:", term_read());
		} else if (w[i][0] == 'c') {
			int k;
			term_cmd(&k);
			printf("%d:", k);
		}
		printf("%d,%d,%d ", ibuf_pos, ibuf_cnt, icmd_pos);
	}
	printf("\n");
}


static void do_regx(char *hex)
{
	int n;
	char *raw = pu_unhex(hex, &n, 0, 0);
	char *s = exact(raw, strlen(raw));
	printf("%d\n", REG(s));
	free(raw);
	free(s);
}

static char *path_arg(char *w)
{
	int n;
	char *raw, *r;
	if (!strcmp(w, "-"))
		return NULL;
	if (!strcmp(w, "e"))
		return exact("", 0);
	raw = pu_unhex(w, &n, 0, 0);
	r = exact(raw, strlen(raw));
	free(raw);
	return r;
}

static void do_pexp(int sp, char *cur, char *alt, char *hex)
{
	int n;
	char *raw = pu_unhex(hex, &n, 0, 0);
	char *src = exact(raw, strlen(raw));
	char *p0 = bufs[0].path, *p1 = bufs[1].path;
	char *r;
	bufs[0].path = path_arg(cur);
	bufs[1].path = path_arg(alt);
	xvis = 1;			/* the "not set" message goes to vi_msg, not to the answer line */
	r = ex_pathexpand(src, sp);
	xvis = 0;
	if (!r)
		printf("null\n");
	else {
		pu_hex(r, strlen(r));
		printf("\n");
	}
	free(bufs[0].path);
	free(bufs[1].path);
	bufs[0].path = p0;
	bufs[1].path = p1;
	free(raw);
	free(src);
}

static void show_bufs(void)
{
	int i;
	for (i = 0; i < LEN(bufs); i++)
		printf("%c", bufs[i].lb ? '1' : '0');
	printf(" ");
}

static void do_bufs(char **w, int n)
{
	int i, k = 0;
	char name[32];
	for (i = 0; i < LEN(bufs); i++)
		bufs_free(i);
	memset(bufs, 0, sizeof(bufs));
	bufs_cnt = 0;
	for (i = 0; i < n; i++) {
		if (w[i][0] == 'o') {
			int idx;
			snprintf(name, sizeof(name), "p%d", k++);
			printf("%d:", bufs_findroom());
			idx = bufs_open(name);
			bufs_switch(idx);
		} else if (w[i][0] == 's') {
			bufs_switch(atoi(w[i] + 1));
		} else if (w[i][0] == 'h') {
			bufs_shift();
		}
		show_bufs();
	}
	printf("\n");
	for (i = 0; i < LEN(bufs); i++)		/* back to one unnamed buffer for the other requests */
		bufs_free(i);
	memset(bufs, 0, sizeof(bufs));
	bufs_cnt = 0;
	bufs_switch(bufs_open(""));
}

static void do_subst(int ic, char *hpat, char *hln, char *hrep)
{
	int n, i, bad = 0;
	int offs[32];
	char *rpat = pu_unhex(hpat, &n, 0, 0);
	char *rln = pu_unhex(hln, &n, 0, 0);
	char *rrep = pu_unhex(hrep, &n, 0, 0);
	char *pat = exact(rpat, strlen(rpat));
	char *ln = exact(rln, strlen(rln));
	char *rep = exact(rrep, strlen(rrep));
	struct rstr *re = rstr_make(pat, ic ? RE_ICASE : 0);
	int len = strlen(ln);
	if (!re) {
		printf("nopat\n");
	} else {
		for (i = 0; i < LEN(offs); i++)
			offs[i] = -7;			/* a slot the matcher does not fill stays visible */
		if (rstr_find(re, ln, LEN(offs) / 2, offs, 0) < 0) {
			printf("nomatch\n");
		} else {
			for (i = 0; i < LEN(offs); i++)
				printf("%d ", offs[i]);
			for (i = 0; i < LEN(offs); i += 2)
				if (!(offs[i] == -1 && offs[i + 1] == -1) &&
						!(0 <= offs[i] && offs[i] <= offs[i + 1] && offs[i + 1] <= len))
					bad = 1;
			if (bad) {
				printf("BADOFFS\n");
			} else {
				struct sbuf *sb = sbuf_make();
				replace(sb, rep, ln, offs);
				pu_hex(sbuf_buf(sb), sbuf_len(sb));
				printf("\n");
				sbuf_free(sb);
			}
		}
		rstr_free(re);
	}
	free(rpat); free(rln); free(rrep);
	free(pat); free(ln); free(rep);
}

static char *req_getline(void)
{
	ssize_t n = getline(&pu_line, &pu_cap, req);
	if (n < 0)
		return NULL;
	while (n > 0 && (pu_line[n - 1] == '\n' || pu_line[n - 1] == '\r'))
		pu_line[--n] = '\0';
	return pu_line;
}

int main(void)
{
	char *files[] = {NULL};
	char *l, *w[4096];
	int p[2];
	req = fdopen(dup(0), "r");
	if (!req || pipe(p))
		return 2;
	dup2(p[0], 0);
	fill_fd = p[1];
	xvis = 0;
	xled = 0;
	dir_init();
	syn_init();
	if (ex_init(files))
		return 2;
	while ((l = req_getline())) {
		int n = pu_words(l, w, 4096);
		if (n == 2 && !strcmp(w[0], "parse"))
			do_parse(w[1]);
		else if (n == 2 && !strcmp(w[0], "exec"))
			do_exec(w[1]);
		else if (n == 4 && !strcmp(w[0], "region"))
			do_region(atoi(w[1]), atoi(w[2]), w[3]);
		else if (n == 2 && !strcmp(w[0], "plus"))
			do_plus(w[1], 0);
		else if (n == 2 && !strcmp(w[0], "cut"))
			do_plus(w[1], 1);
		else if (n >= 1 && !strcmp(w[0], "term"))
			do_term(w + 1, n - 1);
		else if (n == 2 && !strcmp(w[0], "regx"))
			do_regx(w[1]);
		else if (n == 5 && !strcmp(w[0], "pexp"))
			do_pexp(atoi(w[1]), w[2], w[3], w[4]);
		else if (n >= 1 && !strcmp(w[0], "bufs"))
			do_bufs(w + 1, n - 1);
		else if (n == 5 && !strcmp(w[0], "subst"))
			do_subst(atoi(w[1]), w[2], w[3], w[4]);
		else
			printf("?\n");
		fflush(stdout);
	}
	return 0;
}
