(* ReSyntax.v -- shared vocabulary of the regex.c / rset.c model (C10, C11): checked reads, the
   result monad with distinct out-of-bounds and out-of-fuel outcomes, atoms, parse tree,
   instructions.  No proofs here. *)
From Coq Require Import List NArith ZArith Bool.
From NV Require Import Bytes GenConsts.
Import ListNotations.
Local Open Scope N_scope.

(* where a checked read / pointer advance left the string: the classifier of the known finding
   KF-UTF8-TRUNC looks at this tag *)
Inductive site := SUcLen | SUcDec | SBrace | SOther.

Inductive res (A : Type) : Type :=
| Ok (a : A)
| OOB (w : site)          (* a read or pointer advance beyond the terminator *)
| NoFuel.                 (* fuel exhausted (the C code would not terminate / theorem excludes it) *)
Arguments Ok {A} a.
Arguments OOB {A} w.
Arguments NoFuel {A}.

Definition bind {A B} (x : res A) (f : A -> res B) : res B :=
  match x with Ok a => f a | OOB w => OOB w | NoFuel => NoFuel end.
Notation "'do' x <- e ; f" := (bind e (fun x => f)) (at level 200, x pattern, e at level 100, f at level 200).

(* s[k] for a pointer s into a C string: the terminator itself reads as 0, anything beyond is OOB *)
Definition rdk (w : site) (s : bytes) (k : nat) : res N :=
  match nth_error s k with
  | Some b => Ok b
  | None => if Nat.eqb k (length s) then Ok 0 else OOB w
  end.
(* s += k *)
Definition adv (w : site) (s : bytes) (k : nat) : res bytes :=
  if Nat.leb k (length s) then Ok (skipn k s) else OOB w.

Definition memb (c : N) (l : list N) : bool := existsb (N.eqb c) l.

(* regex.c's private uc_len: the sequence length the lead byte asks for ... *)
Definition re_ucfull (c : N) : nat :=
  if negb (bit c 128 && bit c 64) then (if c =? 0 then 0%nat else 1%nat)
  else if negb (bit c 32) then 2%nat
  else if negb (bit c 16) then 3%nat
  else if negb (bit c 8) then 4%nat
  else 1%nat.
(* ... cut at the terminator:  for (i = 1; i < n; i++) if (!s[i]) return i;  *)
Fixpoint ucl_scan (k : nat) (r : bytes) (i : nat) : nat :=
  match k with
  | O => i
  | S k' => match r with
            | [] => i
            | b :: r' => if b =? 0 then i else ucl_scan k' r' (S i)
            end
  end.
Definition re_uclen (s : bytes) : nat :=
  match s with
  | [] => 0%nat
  | c :: r => if negb (bit c 128 && bit c 64) then (if c =? 0 then 0%nat else 1%nat)
              else ucl_scan (re_ucfull c - 1) r 1
  end.
Definition re_uclen_at (s : bytes) (i : nat) : nat := re_uclen (skipn i s).

Inductive atom :=
| AChr (s : bytes) | AAny | ABrk (s : bytes) | ABeg | AEnd | AWBeg | AWEnd.

(* struct rnode: only atoms and groups ever carry a repetition; NNil is the NULL child *)
Inductive node :=
| NNil
| NAtom (a : atom) (mn mx : Z)
| NGrp (x : node) (g : nat) (mn mx : Z)
| NCat (x y : node)
| NAlt (x y : node).

Definition of_opt (o : option node) : node := match o with Some n => n | None => NNil end.

Inductive instr := IAtom (a : atom) | IMark (m : nat) | IJump (t : nat) | IFork (a1 a2 : nat) | IMatch.

Definition has (flg m : Z) : bool := negb (Z.land flg m =? 0)%Z.
