(* TrExAddrEx.v -- C06: the translated ex_lineno / ex_region (TrExAddr.v) return what the list-based model of C06
   (ExDefs.ex_lineno / ExDefs.ex_region, the model C06_resolve_bounds, C06_frame, ... are about) returns: TrExAddr.v composed
   with the model bridge ExCapAddr.v.  The editor state st supplies the buffer length, the current line and the mark rows;
   the memory holds them as TrExAddr.v describes (marks_rep: mark[] of the struct lbuf = the rows of st). *)
From Coq Require Import List ZArith NArith Bool Lia.
From NV Require Import Bytes GenConsts CLite CLiteProps GenCFuncs CLiteTac TrLbufBase TrLbufMarks ExAddrDefs TrExAddr ExCapAddr.
From NV Require CapDefs CapDefs2 CapProps ExDefs.
Import ListNotations.
Local Open Scope Z_scope.

Lemma rd_lt256 s i c : bytes_lt256 s -> CapDefs.rd s i = CapDefs.Ok c -> (c < 256)%N.
Proof.
  intros H E. unfold CapDefs.rd in E. destruct (nth_error s i) as [x|] eqn:En.
  - injection E as <-. unfold bytes_lt256 in H. rewrite Forall_forall in H. apply H. eapply nth_error_In. exact En.
  - destruct (i =? length s)%nat; [injection E as <-; reflexivity|discriminate].
Qed.
Lemma lineno_mark_ext len m1 m2 search s : bytes_lt256 s -> (forall c, (c < 256)%N -> m1 c = m2 c) -> forall xr i,
  CapDefs.ex_lineno len m1 search xr s i = CapDefs.ex_lineno len m2 search xr s i.
Proof.
  intros H Hm xr i. unfold CapDefs.ex_lineno. destruct (CapDefs.rd s i) as [c| | |]; cbn [CapDefs.bind]; try reflexivity.
  destruct (c =? 46)%N; [reflexivity|]. destruct (c =? 36)%N; [reflexivity|]. destruct (c =? 39)%N; [|reflexivity].
  destruct (CapDefs.rd s (S i)) as [mk| | |] eqn:E; cbn [CapDefs.bind]; try reflexivity. rewrite (Hm mk (rd_lt256 s (S i) mk H E)). reflexivity.
Qed.
Lemma marks_model lblk (lb : ExDefs.lbuf) : marks_rep lblk (ExDefs.marks lb) -> forall c, (c < 256)%N -> mark_of lblk c = ExDefs.lbuf_jump lb c.
Proof. intros Hr c Hc. rewrite (jump_model lblk lb c Hr Hc). reflexivity. Qed.

Theorem tr_ex_region_model rvalid rfind (st : ExDefs.st) m bs bb be bl s gbufs lblk vb0 e0 d fuel :
  str_at m bs s -> nonul s -> cell_at m G_xrow (ExDefs.xrow st) ->
  nth_error m bb = Some [vb0] -> nth_error m be = Some [VInt e0] ->
  nth_error m G_bufs = Some gbufs -> nth_error gbufs BUFS_LB = Some (VPtr bl 0) ->
  nth_error m bl = Some lblk -> nth_error lblk L_ln_n = Some (VInt (ExDefs.slen st)) -> marks_ints lblk -> marks_rep lblk (ExDefs.marks (ExDefs.lb st)) ->
  nth_error m G_lit_25_1 = Some gb_lit_25_1 -> rdist bs bb be bl ->
  TrExAddr.int_ok (ExDefs.xrow st) -> TrExAddr.int_ok (ExDefs.slen st) -> TrExAddr.int_ok e0 -> 2 * Z.of_nat (S (length s)) <= 2147483647 ->
  nosearch s -> (2 * S (length s) <= fuel)%nat ->
  region_fit (ExDefs.slen st) (mark_of lblk) search0 s (ExDefs.xrow st) ->
  let R := ExDefs.ex_region rvalid rfind s st in
  exists m', callf cprog fuel (S (S (S (S d)))) F_ex_region [VPtr bs 0; VPtr bb 0; VPtr be 0] m
             = Ok (VInt (b2z (fst (fst (fst R)))), m') /\
    nth_error m' bb = Some [VInt (snd (fst (fst R)))] /\ nth_error m' be = Some [VInt (snd (fst R))] /\
    cell_at m' G_xrow (ExDefs.xrow (snd R)) /\ ExDefs.lb (snd R) = ExDefs.lb st /\
    (forall b', (b' < length m)%nat -> b' <> bb -> b' <> be -> b' <> G_xrow -> nth_error m' b' = nth_error m b').
Proof.
  intros Hs Hnn Hx Hbeg Hend Hb Hbl Hl Hln Hm Hrep Hlit Hdist Hxr Hlen He0 Hbig Hno Hf Hfit R.
  destruct (tr_ex_region m bs bb be bl s (ExDefs.xrow st) (ExDefs.slen st) gbufs lblk vb0 e0 search0 d fuel
              Hs Hnn Hx Hbeg Hend Hb Hbl Hl Hln Hm Hlit Hdist Hxr Hlen He0 Hbig Hno Hf) as (r & Er & H).
  destruct (H Hfit) as (m' & E & B & En & X & Fr).
  destruct (region_bridge rvalid rfind search0 s st Hnn Hno) as (r' & Er' & Ex).
  rewrite (region_full_ext _ _ _ s _ (lineno_mark_ext (ExDefs.slen st) _ _ search0 s (nonul_lt256 s Hnn) (marks_model lblk (ExDefs.lb st) Hrep))) in Er.
  rewrite Er in Er'. injection Er' as <-.
  exists m'. unfold R. rewrite Ex. cbn [fst snd]. repeat split; assumption.
Qed.

Theorem tr_ex_lineno_model rvalid rfind (st : ExDefs.st) m bs bn bl s i gbufs lblk d fuel :
  str_at m bs s -> bytes_lt256 s -> nth_error m bn = Some [VPtr bs (Z.of_nat i)] -> cell_at m G_xrow (ExDefs.xrow st) ->
  nth_error m G_bufs = Some gbufs -> nth_error gbufs BUFS_LB = Some (VPtr bl 0) ->
  nth_error m bl = Some lblk -> nth_error lblk L_ln_n = Some (VInt (ExDefs.slen st)) -> marks_ints lblk -> marks_rep lblk (ExDefs.marks (ExDefs.lb st)) ->
  bs <> bn /\ G_xrow <> bn /\ G_bufs <> bn /\ bl <> bn -> TrExAddr.int_ok (ExDefs.xrow st) -> TrExAddr.int_ok (ExDefs.slen st) ->
  nosearch s -> (i <= length s)%nat -> (2 * S (length s) <= fuel)%nat ->
  lineno_fit (ExDefs.slen st) (mark_of lblk) search0 (ExDefs.xrow st) s i ->
  let R := ExDefs.ex_lineno rvalid rfind st (skipn i s) in
  exists j' nb, callf cprog fuel (S (S (S d))) F_ex_lineno [VPtr bn 0] m
                = Ok (VInt (fst (fst R)), upd m bn [VPtr bs (Z.of_nat j')] ++ [[VInt nb]]) /\
                (snd (fst R) = skipn j' s \/ fst (fst R) = -2) /\ (i <= j')%nat /\ (j' <= length s)%nat /\ snd R = st.
Proof.
  intros Hs H256 Hn Hx Hb Hbl Hl Hln Hm Hrep Hne Hxr Hlen Hno Hi Hf Hfit R.
  destruct (tr_ex_lineno m bs bn bl s i (ExDefs.xrow st) (ExDefs.slen st) gbufs lblk search0 d fuel
              Hs H256 Hn Hx Hb Hbl Hl Hln Hm Hne Hxr Hlen Hno Hi Hf) as (n & j & E & L1 & L2 & H).
  destruct (H Hfit) as (j' & nb & Ec & Rj & J1 & J2 & In).
  destruct (ExCapAddr.nosearch_hd s i Hno) as (N47 & N63).
  destruct (lineno_bridge rvalid rfind st search0 s i (skipn i s) eq_refl Hi N47 N63) as (n2 & j2 & E2 & _ & _ & En & Est & Ej).
  rewrite (lineno_mark_ext (ExDefs.slen st) _ _ search0 s H256 (marks_model lblk (ExDefs.lb st) Hrep)) in E.
  rewrite E in E2. injection E2 as <- <-.
  exists j', nb. unfold R. rewrite En. split; [exact Ec|]. split; [|split; [exact J1|split; [exact J2|exact Est]]].
  destruct Rj as [->|Rj]; [|right; exact Rj]. destruct Ej as [Ej|Ej]; [left; exact Ej|right; exact Ej].
Qed.
