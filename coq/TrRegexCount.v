(* TrRegexCount.v -- rnode_count and rnode_grpnum of /repo/regex.c on the translated C text (part 3 of the compiler side).
   rnode_count: for every tree in memory whose intermediate values fit an int (ReCountBound.count_safe: what C11_count_no_int_overflow
   proves for every tree the parser returns) the C text returns ReEmit.count -- every addition and multiplication is checked by the
   semantics (a signed overflow would be Err EOverflow, the theorem says Ok), the memory is untouched.
   rnode_grpnum: the groups are numbered in pre-order exactly as ReEmit.grpnum does; only the grp cells of group nodes change. *)
From Coq Require Import List ZArith NArith Bool Lia.
From NV Require Import Bytes GenConsts ReSyntax ReParse ReEmit ReVM ReSem ReProps ReProps2 ReProps3 ReCountBound CLite CLiteProps GenCFuncs CLiteTac CLiteExt TrRegex TrRegexAtom TrRegexComp TrRegexParse.
Import ListNotations.
Local Open Scope Z_scope.

Lemma in_int_i32 v : in_int v -> -2147483648 <= v <= 2147483647.
Proof. unfold in_int. change (2 ^ 31) with 2147483648. lia. Qed.

(* ------------------------------------------------------------------ rnode_count *)
Definition count_tl : stmt :=
  match fn_body cf_rnode_count with SSeq _ (SSeq _ (SSeq _ (SSeq _ (SSeq _ t)))) => t | _ => SSkip end.

Definition count_rest : stmt := match count_tl with SSeq _ (SSeq _ t) => t | _ => SSkip end.
Lemma count_tl_eq : exists a b, count_tl = SSeq a (SSeq b count_rest).
Proof. do 2 eexists. reflexivity. Qed.

(* the repetition formula proper: neither {0,0} nor {1,1} *)
Lemma count_rest_ok call lf (m : mem) b c0 c1 c2 c3 c6 c7 n mn mx :
  nth_error m b = Some [c0; c1; c2; c3; VInt mn; VInt mx; c6; c7] -> i32 mn -> i32 mx -> Forall in_int (rep_vals n mn mx) ->
  ((mn =? 0) && (mx =? 0)) = false -> ((mn =? 1) && (mx =? 1)) = false ->
  exists n', exec call lf count_rest (mkst [VPtr b 0; VInt n] m) = OReturn (VInt (sat (rep_raw n mn mx))) (mkst [VPtr b 0; VInt n'] m).
Proof.
  intros Hb I1 I2 Hv E00 E11. unfold count_rest, count_tl. cbn [fn_body cf_rnode_count]. unfold rep_raw, sat, NINST.
  unfold rep_vals, rep_raw in Hv. rewrite E00, E11 in Hv. rewrite E11. change (1048576 <? 0) with false. cbv iota.
  xs. xld Hb. xs. rewrite (wrap_I32_id mx I2).
  destruct (Z.ltb_spec mx 0) as [L|L]; xs.
  - xld Hb. xs. rewrite (wrap_I32_id mn I1).
    inversion Hv as [|? ? A1 Hv1]; inversion Hv1 as [|? ? A2 Hv2]; inversion Hv2 as [|? ? A3 Hv3]; inversion Hv3 as [|? ? A4 Hv4]; inversion Hv4 as [|? ? A5 _]; subst.
    apply in_int_i32 in A1, A2, A3, A4, A5.
    rewrite (chk_I32 (mn + 1)) by lia. xs. rewrite (chk_I32 ((mn + 1) * n)) by lia. xs. rewrite (chk_I32 ((mn + 1) * n + 1)) by lia. xs.
    xld Hb. xs. rewrite (wrap_I32_id mn I1). destruct (Z.eqb_spec mn 0) as [Z0|Z0]; xs.
    + rewrite (chk_I32 ((mn + 1) * n + 1 + 1)) by lia. xs.
      destruct (Z.ltb_spec ((mn + 1) * n + 1 + 1) 1048576); xs; eexists; reflexivity.
    + rewrite Z.add_0_r. destruct (Z.ltb_spec ((mn + 1) * n + 1) 1048576); xs; eexists; reflexivity.
  - xld Hb. xs. rewrite (wrap_I32_id mn I1). xld Hb. xs. rewrite (wrap_I32_id mx I2).
    inversion Hv as [|? ? A1 Hv1]; inversion Hv1 as [|? ? A2 Hv2]; inversion Hv2 as [|? ? A3 Hv3]; inversion Hv3 as [|? ? A4 Hv4]; inversion Hv4 as [|? ? A5 Hv5]; inversion Hv5 as [|? ? A6 _]; subst.
    apply in_int_i32 in A1, A2, A3, A4, A5, A6.
    rewrite (chk_I32 (mn + mx)) by lia. xs. rewrite (chk_I32 ((mn + mx) * n)) by lia. xs.
    xld Hb. xs. rewrite (wrap_I32_id mx I2). rewrite (chk_I32 ((mn + mx) * n + mx)) by lia. xs.
    xld Hb. xs. rewrite (wrap_I32_id mn I1). rewrite (chk_I32 ((mn + mx) * n + mx - mn)) by lia. xs.
    xld Hb. xs. rewrite (wrap_I32_id mn I1). destruct (Z.eqb_spec mn 0) as [Z0|Z0]; xs.
    + rewrite (chk_I32 ((mn + mx) * n + mx - mn + 1)) by lia. xs.
      destruct (Z.ltb_spec ((mn + mx) * n + mx - mn + 1) 1048576); xs; eexists; reflexivity.
    + rewrite Z.add_0_r. destruct (Z.ltb_spec ((mn + mx) * n + mx - mn) 1048576); xs; eexists; reflexivity.
Qed.

Lemma count_tail call lf (m : mem) b c0 c1 c2 c3 c6 c7 n mn mx :
  nth_error m b = Some [c0; c1; c2; c3; VInt mn; VInt mx; c6; c7] -> i32 mn -> i32 mx -> Forall in_int (rep_vals n mn mx) ->
  exists n', exec call lf count_tl (mkst [VPtr b 0; VInt n] m) = OReturn (VInt (rep_count n mn mx)) (mkst [VPtr b 0; VInt n'] m).
Proof.
  intros Hb I1 I2 Hv. unfold rep_count.
  assert (Rest : ((mn =? 0) && (mx =? 0)) = false -> ((mn =? 1) && (mx =? 1)) = false ->
    exists n', exec call lf count_rest (mkst [VPtr b 0; VInt n] m) = OReturn (VInt (sat (rep_raw n mn mx))) (mkst [VPtr b 0; VInt n'] m))
    by (intros; eapply count_rest_ok; eassumption).
  unfold count_tl. cbn [fn_body cf_rnode_count].
  match goal with |- context [SSeq _ (SSeq _ ?t)] => change t with count_rest end. remember count_rest as rest eqn:Er.
  xs. xld Hb. xs. rewrite (wrap_I32_id mn I1).
  destruct (Z.eqb_spec mn 0) as [E0|E0]; cbn [andb b2z]; xs.
  - xld Hb. xs. rewrite (wrap_I32_id mx I2). destruct (Z.eqb_spec mx 0) as [F0|F0]; cbn [b2z]; xs.
    + eexists; reflexivity.
    + xld Hb. xs. rewrite (wrap_I32_id mn I1). destruct (Z.eqb_spec mn 1) as [E1|E1]; [lia|]. cbn [andb b2z] in *. xs.
      subst rest. apply Rest; reflexivity.
  - xld Hb. xs. rewrite (wrap_I32_id mn I1).
    destruct (Z.eqb_spec mn 1) as [E1|E1]; cbn [andb b2z] in *; xs.
    + xld Hb. xs. rewrite (wrap_I32_id mx I2). destruct (Z.eqb_spec mx 1) as [F1|F1]; cbn [b2z] in *; xs.
      * unfold rep_raw. destruct (Z.eqb_spec mn 1); [|lia]. destruct (Z.eqb_spec mx 1); [|lia]. cbn [andb]. unfold sat, NINST. change (1048576 <? 0) with false. cbv iota.
        destruct (Z.ltb_spec n 1048576); xs; eexists; reflexivity.
      * subst rest. apply Rest; reflexivity.
    + subst rest. apply Rest; reflexivity.
Qed.

Definition count_spec (fuel : nat) (t : node) : Prop := forall (m : mem) lo hi p d, tree_in m t lo hi p -> count_safe t -> (height t < d)%nat ->
  callf cprog fuel d F_rnode_count [p] m = Ok (VInt (count t), m).

Ltac xz := repeat (progress (xs; zeqb_const)).
Lemma ptr0_cases v : ptr0 v -> v = VInt 0 \/ exists b, v = VPtr b 0.
Proof. destruct v as [|z|b o]; cbn; [tauto|destruct z; try tauto; left; reflexivity|destruct o; try tauto; right; eexists; reflexivity]. Qed.

Theorem tr_rnode_count fuel : forall t, count_spec fuel t.
Proof.
  induction t as [|a mn mx|x IHx g mn mx|x IHx y IHy|x IHx y IHy]; intros m lo hi p d H Hs Hd;
    cbn [tree_in height count_safe node_vals] in *; (destruct d as [|d]; [lia|]).
  - destruct H as [-> _]. enter F_rnode_count cf_rnode_count. xz. reflexivity.
  - destruct H as [-> [I1 [I2 H]]]. destruct Hs as [Hv _]. inversion Hv as [|? ? _ Hv1]; subst.
    assert (Hn : exists sv, nth_error m lo = Some (node_cells (ra_code a) sv (VInt 0) (VInt 0) mn mx 0 0))
      by (destruct (ra_str a); destruct H as [Hn _]; eexists; exact Hn).
    destruct Hn as [sv Hn]. enter F_rnode_count cf_rnode_count.
    match goal with |- context [SSeq (SIf (EBin OEq I32 (ELoad (Some I32) (EPtrAdd 1 (ELocal 0) (EConst 7))) (EConst 40)) _ SSkip) ?t] => change t with count_tl end.
    remember count_tl as tl eqn:Etl. xz. xld Hn. xz. xld Hn. xz. xld Hn. xz. subst tl.
    destruct (count_tail (callf cprog fuel d) fuel m lo _ _ _ _ _ _ 1 mn mx Hn I1 I2 Hv1) as [n' X]. rewrite X. reflexivity.
  - destruct H as [b [px [-> [I1 [I2 [I3 [Hx [Hb [Hn Hdd]]]]]]]]]. destruct Hs as [Hv Hsx].
    inversion Hv as [|? ? _ Hv1]; inversion Hv1 as [|? ? Acx Hv2]; subst.
    assert (An : in_int (count x + 2)) by (unfold rep_vals in Hv2; repeat match type of Hv2 with context [if ?c then _ else _] => destruct c end; inversion Hv2; assumption).
    apply in_int_i32 in An. apply in_int_i32 in Acx.
    pose proof (IHx m lo b px d Hx Hsx ltac:(lia)) as Cx.
    destruct (count_tail (callf cprog fuel d) fuel m b _ _ _ _ _ _ (count x + 2) mn mx Hn I1 I2 Hv2) as [n' X].
    destruct (ptr0_cases px (tree_in_ptr0 _ _ _ _ _ Hx)) as [->|[bx ->]];
    (enter F_rnode_count cf_rnode_count;
     match goal with |- context [SSeq (SIf (EBin OEq I32 (ELoad (Some I32) (EPtrAdd 1 (ELocal 0) (EConst 7))) (EConst 40)) _ SSkip) ?t] => change t with count_tl end;
     remember count_tl as tl eqn:Etl; xz; xld Hn; xz; xld Hn; xz; xld Hn; xz; xld Hn; xz;
     rewrite Cx; xz; rewrite (chk_I32 (count x + 2)) by lia; xz; subst tl; rewrite X; reflexivity).
  - destruct H as [k [b [px [py [-> [Hx [Hy [Hb [Hn Hdd]]]]]]]]]. destruct Hs as [Hv [Hsx Hsy]].
    inversion Hv as [|? ? _ Hv1]; inversion Hv1 as [|? ? Acx Hv2]; inversion Hv2 as [|? ? Acy Hv3]; subst.
    assert (An : in_int (count x + count y)) by (unfold rep_vals in Hv3; cbn in Hv3; inversion Hv3; assumption).
    apply in_int_i32 in An. apply in_int_i32 in Acx. apply in_int_i32 in Acy.
    pose proof (IHx m lo k px d Hx Hsx ltac:(lia)) as Cx. pose proof (IHy m k b py d Hy Hsy ltac:(lia)) as Cy.
    destruct (count_tail (callf cprog fuel d) fuel m b _ _ _ _ _ _ (count x + count y) 1 1 Hn ltac:(unfold i32; lia) ltac:(unfold i32; lia) Hv3) as [n' X].
    destruct (ptr0_cases px (tree_in_ptr0 _ _ _ _ _ Hx)) as [->|[bx ->]]; destruct (ptr0_cases py (tree_in_ptr0 _ _ _ _ _ Hy)) as [->|[bz ->]];
    (enter F_rnode_count cf_rnode_count;
     match goal with |- context [SSeq (SIf (EBin OEq I32 (ELoad (Some I32) (EPtrAdd 1 (ELocal 0) (EConst 7))) (EConst 40)) _ SSkip) ?t] => change t with count_tl end;
     remember count_tl as tl eqn:Etl; xz; xld Hn; xz; xld Hn; xz;
     rewrite Cx; xz; xld Hn; xz; rewrite Cy; xz;
     rewrite (chk_I32 (count x + count y)) by lia; xz; xld Hn; xz; xld Hn; xz; subst tl; rewrite X; reflexivity).
  - destruct H as [k [b [px [py [-> [Hx [Hy [Hb [Hn Hdd]]]]]]]]]. destruct Hs as [Hv [Hsx Hsy]].
    inversion Hv as [|? ? _ Hv1]; inversion Hv1 as [|? ? Acx Hv2]; inversion Hv2 as [|? ? Acy Hv3]; inversion Hv3 as [|? ? Axy Hv4]; subst.
    assert (An : in_int (count x + count y + 2)) by (unfold rep_vals in Hv4; cbn in Hv4; inversion Hv4; assumption).
    apply in_int_i32 in An. apply in_int_i32 in Acx. apply in_int_i32 in Acy. apply in_int_i32 in Axy.
    pose proof (IHx m lo k px d Hx Hsx ltac:(lia)) as Cx. pose proof (IHy m k b py d Hy Hsy ltac:(lia)) as Cy.
    destruct (count_tail (callf cprog fuel d) fuel m b _ _ _ _ _ _ (count x + count y + 2) 1 1 Hn ltac:(unfold i32; lia) ltac:(unfold i32; lia) Hv4) as [n' X].
    destruct (ptr0_cases px (tree_in_ptr0 _ _ _ _ _ Hx)) as [->|[bx ->]]; destruct (ptr0_cases py (tree_in_ptr0 _ _ _ _ _ Hy)) as [->|[bz ->]];
    (enter F_rnode_count cf_rnode_count;
     match goal with |- context [SSeq (SIf (EBin OEq I32 (ELoad (Some I32) (EPtrAdd 1 (ELocal 0) (EConst 7))) (EConst 40)) _ SSkip) ?t] => change t with count_tl end;
     remember count_tl as tl eqn:Etl; xz; xld Hn; xz; xld Hn; xz; xld Hn; xz;
     rewrite Cx; xz; xld Hn; xz; rewrite Cy; xz;
     rewrite (chk_I32 (count x + count y)) by lia; xz; rewrite (chk_I32 (count x + count y + 2)) by lia; xz; xld Hn; xz; subst tl; rewrite X; reflexivity).
Qed.

(* ------------------------------------------------------------------ rnode_grpnum *)
Lemma grpnum_snd t : forall num, snd (grpnum t num) = ngrp t.
Proof.
  induction t as [|a mn mx|x IHx g mn mx|x IHx y IHy|x IHx y IHy]; intro num; cbn [grpnum ngrp]; try reflexivity.
  - specialize (IHx (num + 1)%nat). destruct (grpnum x (num + 1)); cbn [snd] in *. lia.
  - specialize (IHx num). destruct (grpnum x num) as [x' k1]; cbn [snd] in *. specialize (IHy (num + k1)%nat). destruct (grpnum y (num + k1)); cbn [snd] in *. lia.
  - specialize (IHx num). destruct (grpnum x num) as [x' k1]; cbn [snd] in *. specialize (IHy (num + k1)%nat). destruct (grpnum y (num + k1)); cbn [snd] in *. lia.
Qed.

Definition grpnum_spec (fuel : nat) (t : node) : Prop := forall (m : mem) lo hi p num d,
  tree_in m t lo hi p -> Z.of_nat (num + ngrp t) <= 2147483647 -> (height t < d)%nat ->
  exists m', callf cprog fuel d F_rnode_grpnum [p; VInt (Z.of_nat num)] m = Ok (VInt (Z.of_nat (snd (grpnum t num))), m') /\
    tree_in m' (fst (grpnum t num)) lo hi p /\ length m' = length m /\
    (forall i, (i < lo \/ hi <= i)%nat -> nth_error m' i = nth_error m i) /\ snd (grpnum t num) = ngrp t.

Lemma grpnum_null fuel (m : mem) n d : callf cprog fuel (S d) F_rnode_grpnum [VInt 0; VInt n] m = Ok (VInt 0, m).
Proof. enter F_rnode_grpnum cf_rnode_grpnum. xz. reflexivity. Qed.

Theorem tr_rnode_grpnum fuel : forall t, grpnum_spec fuel t.
Proof.
  induction t as [|a mn mx|x IHx g mn mx|x IHx y IHy|x IHx y IHy]; intros m lo hi p num d H Hg Hd;
    cbn [tree_in height ngrp grpnum] in *; (destruct d as [|d]; [lia|]).
  - destruct H as [-> [L D]]. exists m. split; [apply grpnum_null|]. cbn [fst snd]. split; [cbn [tree_in]; auto|]. auto.
  - (* an atom: no group, both children NULL *)
    destruct d as [|d]; [lia|]. destruct H as [-> [I1 [I2 H]]].
    assert (Hn : exists sv, nth_error m lo = Some (node_cells (ra_code a) sv (VInt 0) (VInt 0) mn mx 0 0))
      by (destruct (ra_str a); destruct H as [Hn _]; eexists; exact Hn).
    destruct Hn as [sv Hn]. exists m. split.
    + enter F_rnode_grpnum cf_rnode_grpnum. xz. xld Hn. xz. xld Hn. xz. rewrite (chk_I32 (Z.of_nat num + 0)) by lia. xz.
      rewrite grpnum_null. xz. xld Hn. xz. rewrite (chk_I32 (Z.of_nat num + 0)) by lia. xz. rewrite grpnum_null. xz. reflexivity.
    + cbn [fst snd tree_in]. split; [auto|]. auto.
  - (* a group: its number is num, the groups inside start at num + 1 *)
    destruct H as [b [px [-> [I1 [I2 [I3 [Hx [Hb [Hn Hdd]]]]]]]]]. pose proof (tree_in_le _ _ _ _ _ Hx) as Lx.
    destruct (grpnum x (num + 1)) as [x' k1] eqn:G1. cbn [fst snd].
    pose proof (grpnum_snd x (num + 1)) as S1. rewrite G1 in S1. cbn [snd] in S1.
    unfold node_cells in Hn. set (blk' := [VInt 0; VInt 0; px; VInt 0; VInt mn; VInt mx; VInt (Z.of_nat num); VInt 40]).
    assert (Lb : (b < length m)%nat) by (eapply nth_lt; exact Hn).
    assert (Hxs : tree_in (upd m b blk') x lo b px) by (apply (tree_in_same m); [exact Hx|intros i Hi; apply mem_upd_other; [exact Lb|lia]]).
    destruct (IHx (upd m b blk') lo b px (num + 1)%nat d Hxs ltac:(lia) ltac:(lia)) as [m1 [C1 [T1 [Ll1 [F1 _]]]]]. rewrite G1 in C1, T1. cbn [fst snd] in C1, T1.
    assert (Hn1 : nth_error m1 b = Some blk') by (rewrite F1 by lia; apply mem_upd_same; exact Lb).
    clear IHx. destruct d as [|d]; [lia|].
    exists m1. split.
    + destruct (ptr0_cases px (tree_in_ptr0 _ _ _ _ _ Hx)) as [->|[bx ->]];
      (enter F_rnode_grpnum cf_rnode_grpnum; xz; xld Hn; xz; rewrite (chk_I32 (Z.of_nat num + 0)) by lia; xz; rewrite Z.add_0_r;
       rewrite (wrap_I32_id (Z.of_nat num)) by lia; xst Hn; xz; fold blk';
       assert (Hns : nth_error (upd m b blk') b = Some blk') by (apply mem_upd_same; exact Lb); xld Hns; xz;
       rewrite (chk_I32 (Z.of_nat num + 1)) by lia; xz; replace (Z.of_nat num + 1) with (Z.of_nat (num + 1)) by lia;
       rewrite C1; xz; rewrite (chk_I32 (1 + Z.of_nat k1)) by lia; xz; xld Hn1; xz;
       rewrite (chk_I32 (Z.of_nat num + (1 + Z.of_nat k1))) by lia; xz; rewrite grpnum_null; xz;
       rewrite (chk_I32 (1 + Z.of_nat k1 + 0)) by lia; xz; repeat f_equal; lia).
    + split; [|split; [rewrite Ll1; apply upd_length; exact Lb|split; [|lia]]].
      * exists b, px. split; [reflexivity|]. split; [exact I1|]. split; [exact I2|]. split; [lia|]. split; [exact T1|]. split; [exact Hb|].
        split; [exact Hn1|]. apply (dead_same m); [exact Hdd|]. intros i Hi. rewrite F1 by lia. apply mem_upd_other; [exact Lb|lia].
      * intros i Hi. rewrite F1 by lia. apply mem_upd_other; [exact Lb|lia].

  - (* a concatenation *)
    destruct H as [k [b [px [py [-> [Hx [Hy [Hb [Hn Hdd]]]]]]]]].
    pose proof (tree_in_le _ _ _ _ _ Hx) as Lx. pose proof (tree_in_le _ _ _ _ _ Hy) as Ly.
    destruct (grpnum x num) as [x' k1] eqn:G1. destruct (grpnum y (num + k1)) as [y' k2] eqn:G2. cbn [fst snd].
    pose proof (grpnum_snd x num) as S1. rewrite G1 in S1. cbn [snd] in S1. pose proof (grpnum_snd y (num + k1)) as S2. rewrite G2 in S2. cbn [snd] in S2.
    destruct (IHx m lo k px num d Hx ltac:(lia) ltac:(lia)) as [m1 [C1 [T1 [Ll1 [F1 _]]]]]. rewrite G1 in C1, T1. cbn [fst snd] in C1, T1.
    assert (Hy1 : tree_in m1 y k b py) by (apply (tree_in_same m); [exact Hy|intros i Hi; apply F1; lia]).
    destruct (IHy m1 k b py (num + k1)%nat d Hy1 ltac:(lia) ltac:(lia)) as [m2 [C2 [T2 [Ll2 [F2 _]]]]]. rewrite G2 in C2, T2. cbn [fst snd] in C2, T2.
    assert (Hn1 : nth_error m1 b = Some (node_cells 0 (VInt 0) px py 1 1 0 99)) by (rewrite F1 by lia; exact Hn).
    assert (Hn2 : nth_error m2 b = Some (node_cells 0 (VInt 0) px py 1 1 0 99)) by (rewrite F2 by lia; exact Hn1).
    clear IHx IHy. exists m2. split.
    + destruct (ptr0_cases px (tree_in_ptr0 _ _ _ _ _ Hx)) as [->|[bx ->]]; destruct (ptr0_cases py (tree_in_ptr0 _ _ _ _ _ Hy)) as [->|[bz ->]];
      (enter F_rnode_grpnum cf_rnode_grpnum; xz; xld Hn; xz; xld Hn; xz; rewrite (chk_I32 (Z.of_nat num + 0)) by lia; xz;
       rewrite Z.add_0_r; rewrite C1; xz; rewrite (chk_I32 (0 + Z.of_nat k1)) by lia; xz; xld Hn1; xz;
       rewrite (chk_I32 (Z.of_nat num + (0 + Z.of_nat k1))) by lia; xz;
       replace (Z.of_nat num + (0 + Z.of_nat k1)) with (Z.of_nat (num + k1)) by lia; rewrite C2; xz;
       rewrite (chk_I32 (0 + Z.of_nat k1 + Z.of_nat k2)) by lia; xz; repeat f_equal; lia).
    + split; [|split; [lia|split; [|lia]]].
      * exists k, b, px, py. split; [reflexivity|]. split; [apply (tree_in_same m1); [exact T1|intros i Hi; apply F2; lia]|]. split; [exact T2|].
        split; [exact Hb|]. split; [exact Hn2|]. apply (dead_same m); [exact Hdd|]. intros i Hi. rewrite F2, F1 by lia. reflexivity.
      * intros i Hi. rewrite F2, F1 by lia. reflexivity.

  - (* an alternation *)
    destruct H as [k [b [px [py [-> [Hx [Hy [Hb [Hn Hdd]]]]]]]]].
    pose proof (tree_in_le _ _ _ _ _ Hx) as Lx. pose proof (tree_in_le _ _ _ _ _ Hy) as Ly.
    destruct (grpnum x num) as [x' k1] eqn:G1. destruct (grpnum y (num + k1)) as [y' k2] eqn:G2. cbn [fst snd].
    pose proof (grpnum_snd x num) as S1. rewrite G1 in S1. cbn [snd] in S1. pose proof (grpnum_snd y (num + k1)) as S2. rewrite G2 in S2. cbn [snd] in S2.
    destruct (IHx m lo k px num d Hx ltac:(lia) ltac:(lia)) as [m1 [C1 [T1 [Ll1 [F1 _]]]]]. rewrite G1 in C1, T1. cbn [fst snd] in C1, T1.
    assert (Hy1 : tree_in m1 y k b py) by (apply (tree_in_same m); [exact Hy|intros i Hi; apply F1; lia]).
    destruct (IHy m1 k b py (num + k1)%nat d Hy1 ltac:(lia) ltac:(lia)) as [m2 [C2 [T2 [Ll2 [F2 _]]]]]. rewrite G2 in C2, T2. cbn [fst snd] in C2, T2.
    assert (Hn1 : nth_error m1 b = Some (node_cells 0 (VInt 0) px py 1 1 0 124)) by (rewrite F1 by lia; exact Hn).
    assert (Hn2 : nth_error m2 b = Some (node_cells 0 (VInt 0) px py 1 1 0 124)) by (rewrite F2 by lia; exact Hn1).
    clear IHx IHy. exists m2. split.
    + destruct (ptr0_cases px (tree_in_ptr0 _ _ _ _ _ Hx)) as [->|[bx ->]]; destruct (ptr0_cases py (tree_in_ptr0 _ _ _ _ _ Hy)) as [->|[bz ->]];
      (enter F_rnode_grpnum cf_rnode_grpnum; xz; xld Hn; xz; xld Hn; xz; rewrite (chk_I32 (Z.of_nat num + 0)) by lia; xz;
       rewrite Z.add_0_r; rewrite C1; xz; rewrite (chk_I32 (0 + Z.of_nat k1)) by lia; xz; xld Hn1; xz;
       rewrite (chk_I32 (Z.of_nat num + (0 + Z.of_nat k1))) by lia; xz;
       replace (Z.of_nat num + (0 + Z.of_nat k1)) with (Z.of_nat (num + k1)) by lia; rewrite C2; xz;
       rewrite (chk_I32 (0 + Z.of_nat k1 + Z.of_nat k2)) by lia; xz; repeat f_equal; lia).
    + split; [|split; [lia|split; [|lia]]].
      * exists k, b, px, py. split; [reflexivity|]. split; [apply (tree_in_same m1); [exact T1|intros i Hi; apply F2; lia]|]. split; [exact T2|].
        split; [exact Hb|]. split; [exact Hn2|]. apply (dead_same m); [exact Hdd|]. intros i Hi. rewrite F2, F1 by lia. reflexivity.
      * intros i Hi. rewrite F2, F1 by lia. reflexivity.
Qed.
