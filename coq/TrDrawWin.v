(* TrDrawWin.v -- C19: the window functions of vi.c / led.c on the translated C text: vi_scrollforward, vi_scrollbackward, vi_wfix,
   vi_pos, led_pos, led_offdir. *)
From Coq Require Import List ZArith NArith Bool Lia ZifyBool.
From NV Require Import Bytes CLite CLiteProps GenCFuncs CLiteTac CLiteExt TrLbufBase DrawDefs DrawWinDefs TrDrawBase.
Import ListNotations.
Local Open Scope Z_scope.

(* lbuf_len(xb) / lbuf_get(xb, r) in the goal, on a memory that holds the buffer *)
Ltac xbuf Hb :=
  rewrite (dr_ex_lbuf _ _ _ _ _ _ _ _ Hb); xstep;
  first [rewrite (dr_lbuf_len _ _ _ _ _ _ _ _ Hb)|rewrite (dr_lbuf_get _ _ _ _ _ _ _ _ Hb)]; xstep.

(* symbolic execution with the loads of the window globals, the int wraps / range checks and term_rows() / term_cols() resolved *)
Lemma if_ok_int (b : bool) (a c : Z) (s : state) :
  (if b then Ok (VInt a, s) else Ok (VInt c, s)) = Ok (VInt (if b then a else c), s).
Proof. destruct b; reflexivity. Qed.
(* equalities / ranges of ints built from if, min, max *)
Ltac zeq := unfold i32b in *; repeat match goal with |- context [if ?b then _ else _] => destruct b eqn:? end; lia.
Ltac i32 := zeq.
Ltac xauto Hk :=
  repeat (xstep; try change (2 =? 0) with false;
    match goal with
    | |- context [if ?b then Ok (VInt ?a, ?s) else Ok (VInt ?c, ?s)] => rewrite (if_ok_int b a c s)
    | H : cell_at ?m ?g _ |- context [load ?m ?g 0] => rewrite (load_cell m g _ H)
    | |- context [wrap I32 ?z] => rewrite (wrap_I32_id z) by i32
    | |- context [chk I32 ?z] => rewrite (chk_I32 z) by i32
    | |- context [callx ?e cprog ?f (S ?d) X_term_rows [] ?m] => rewrite (callx_S e cprog f d X_term_rows), x_term_rows_none, (k_rows e _ _ _ _ Hk)
    | |- context [callx ?e cprog ?f (S ?d) X_term_cols [] ?m] => rewrite (callx_S e cprog f d X_term_cols), x_term_cols_none, (k_cols e _ _ _ _ Hk)
    | H : buf_at ?m _ _ _ _ |- context [callx ?e cprog ?f (S ?d) F_ex_lbuf [] ?m] => rewrite (dr_ex_lbuf e m _ _ _ _ d f H)
    | H : buf_at ?m _ _ _ _ |- context [callx ?e cprog ?f (S ?d) F_lbuf_len [VPtr _ 0] ?m] => rewrite (dr_lbuf_len e m _ _ _ _ d f H)
    | H : buf_at ?m _ _ _ _ |- context [callx ?e cprog ?f (S ?d) F_lbuf_get [VPtr _ 0; VInt ?r] ?m] => rewrite (dr_lbuf_get e m _ _ _ _ d f H r)
    | |- context [Z.quot ?a 2] => rewrite (Z.quot_div_nonneg a 2) by lia
    end); xstep.
Ltac xld H := rewrite (load_cell _ _ _ H); xstep.

Section Win.
  Variable ext : nat -> list val -> mem -> res (val * mem).
  Variables (kl : nat) (h cols hl : Z).
  Hypothesis Hk : kernel_ok ext kl h cols hl.
  Variables (m : mem) (v : vst) (bl bln : nat) (lbs : list nat) (lines : list bytes) (ft : bytes).
  Hypothesis Hm : draw_mem m kl v bl bln lbs lines ft.
  Variables (d fuel : nat).

  Theorem tr_vi_scrollforward cnt : i32b (v_xtop v) -> i32b (v_xrow v) -> i32b cnt -> i32b (v_xtop v + cnt) ->
    let '(r, t, w) := scroll_fwd (blen lines) (v_xtop v) (v_xrow v) cnt in
    callx ext cprog fuel (S (S d)) F_vi_scrollforward [VInt cnt] m
    = Ok (VInt r, if r =? 0 then upd (upd m G_xtop [VInt t]) G_xrow [VInt w] else m).
  Proof.
    intros Ht Hr Hc Hs. pose proof Hm as [H1 H2 H3 H4 H5 H6 Hb _ _ _ _ _ _].
    unfold scroll_fwd. set (n := blen lines) in *.
    assert (Hn : 0 <= n <= 2147483647) by (destruct Hb; unfold n, blen; lia).
    enterx F_vi_scrollforward cf_vi_scrollforward. xstep.
    rewrite (load_cell _ _ _ H2). xstep. xbuf Hb. fold n. rewrite chk_I32 by lia. xstep. rewrite (wrap_i32b _ Ht).
    destruct (Z.leb_spec (n - 1) (v_xtop v)) as [L|L]; xstep; [reflexivity|].
    xbuf Hb. fold n. rewrite chk_I32 by lia. xstep. rewrite (load_cell _ _ _ H2). xstep. rewrite (wrap_i32b _ Ht).
    rewrite chk_I32 by (unfold i32b in *; lia). xstep.
    set (t := Z.min (n - 1) (v_xtop v + cnt)).
    assert (Et : (if n - 1 <? v_xtop v + cnt then n - 1 else v_xtop v + cnt) = t) by (unfold t; destruct (Z.ltb_spec (n - 1) (v_xtop v + cnt)); lia).
    assert (It : i32b t) by (unfold t, i32b in *; lia).
    destruct (Z.ltb_spec (n - 1) (v_xtop v + cnt)) as [L2|L2]; xstep.
    - xbuf Hb. fold n. rewrite chk_I32 by lia. xstep. rewrite (wrap_I32_id (n - 1)) by lia.
      rewrite (store_cell _ _ _ _ H2). xstep.
      pose proof (draw_mem_store _ _ _ _ _ _ _ _ G_xtop (n - 1) _ Hm (or_intror (or_introl (conj eq_refl eq_refl)))) as [K1 K2 _ _ _ _ _ _ _ _ _ _ _].
      cbn [set_xtop v_xrow v_xtop] in K1, K2.
      xld K1. xld K2. rewrite (wrap_i32b _ Hr), (wrap_I32_id (n - 1)) by lia.
      replace t with (n - 1) by lia.
      destruct (Z.ltb_spec (v_xrow v) (n - 1)); xstep.
      + rewrite (load_cell _ _ _ K2). xstep. rewrite ?(wrap_I32_id (n - 1)) by lia. rewrite (store_cell _ _ _ _ K1). xstep.
        replace (Z.max (v_xrow v) (n - 1)) with (n - 1) by lia. reflexivity.
      + rewrite (load_cell _ _ _ K1). xstep. rewrite ?(wrap_i32b _ Hr). rewrite (store_cell _ _ _ _ K1). xstep.
        replace (Z.max (v_xrow v) (n - 1)) with (v_xrow v) by lia. reflexivity.
    - rewrite (load_cell _ _ _ H2). xstep. rewrite (wrap_i32b _ Ht). rewrite chk_I32 by (unfold i32b in *; lia). xstep.
      rewrite (wrap_i32b _ Hs). rewrite (store_cell _ _ _ _ H2). xstep.
      pose proof (draw_mem_store _ _ _ _ _ _ _ _ G_xtop (v_xtop v + cnt) _ Hm (or_intror (or_introl (conj eq_refl eq_refl)))) as [K1 K2 _ _ _ _ _ _ _ _ _ _ _].
      cbn [set_xtop v_xrow v_xtop] in K1, K2.
      xld K1. xld K2. rewrite (wrap_i32b _ Hr), (wrap_i32b _ Hs).
      replace t with (v_xtop v + cnt) by lia.
      destruct (Z.ltb_spec (v_xrow v) (v_xtop v + cnt)); xstep.
      + rewrite (load_cell _ _ _ K2). xstep. rewrite ?(wrap_i32b _ Hs). rewrite (store_cell _ _ _ _ K1). xstep.
        replace (Z.max (v_xrow v) (v_xtop v + cnt)) with (v_xtop v + cnt) by lia. reflexivity.
      + rewrite (load_cell _ _ _ K1). xstep. rewrite ?(wrap_i32b _ Hr). rewrite (store_cell _ _ _ _ K1). xstep.
        replace (Z.max (v_xrow v) (v_xtop v + cnt)) with (v_xrow v) by lia. reflexivity.
  Qed.

  Theorem tr_vi_scrollbackward cnt : 0 <= v_xtop v <= 2147483647 -> i32b (v_xrow v) -> i32b cnt -> 0 <= cnt -> i32b (v_xtop v - cnt) -> 0 <= h -> i32b (v_xtop v + h) ->
    let '(r, t, w) := scroll_bwd h (v_xtop v) (v_xrow v) cnt in
    callx ext cprog fuel (S (S d)) F_vi_scrollbackward [VInt cnt] m
    = Ok (VInt r, if r =? 0 then upd (upd m G_xtop [VInt t]) G_xrow [VInt w] else m).
  Proof.
    intros Ht Hr Hc Hc0 Hs Hh Hth. pose proof Hm as [H1 H2 H3 H4 H5 H6 Hb _ _ _ _ _ _].
    unfold scroll_bwd.
    enterx F_vi_scrollbackward cf_vi_scrollbackward. xauto Hk.
    destruct (Z.eqb_spec (v_xtop v) 0) as [E|E]; xauto Hk; [reflexivity|].
    rewrite (store_cell _ _ _ _ H2). xstep.
    match goal with |- context [upd m G_xtop [VInt ?z]] => set (t := z) end.
    pose proof (draw_mem_store _ _ _ _ _ _ _ _ G_xtop t _ Hm (or_intror (or_introl (conj eq_refl eq_refl)))) as [K1 K2 _ _ _ _ _ _ _ _ _ _ _].
    cbn [set_xtop v_xrow v_xtop] in K1, K2.
    assert (It : 0 <= t <= v_xtop v) by (unfold t; zeq).
    xauto Hk. rewrite (store_cell _ _ _ _ K1). xstep.
    replace (Z.max 0 (v_xtop v - cnt)) with t by (unfold t; zeq).
    match goal with |- Ok (_, upd _ G_xrow [VInt ?a]) = Ok (_, upd _ G_xrow [VInt ?b]) => replace a with b by zeq end. reflexivity.
  Qed.
End Win.

(* ------------------------------------------------------------------ vi_wfix *)
Definition wf_if1 : stmt := match fn_body cf_vi_wfix with SSeq a _ => a | _ => SSkip end.
Definition wf_if2 : stmt := match fn_body cf_vi_wfix with SSeq _ (SSeq a _) => a | _ => SSkip end.
Definition wf_if3 : stmt := match fn_body cf_vi_wfix with SSeq _ (SSeq _ (SSeq a _)) => a | _ => SSkip end.
Definition wf_off : stmt := match fn_body cf_vi_wfix with SSeq _ (SSeq _ (SSeq _ a)) => a | _ => SSkip end.
(* the three steps of DrawDefs.wfix *)
Definition wfix_row (xrow len : Z) : Z := if (xrow <? 0) || (len <=? xrow) then (if 0 <? len then len - 1 else 0) else xrow.
Definition wfix_up (xtop xrow h : Z) : Z := if xrow <? xtop then (if xrow <? xtop - h / 2 then Z.max 0 (xrow - h / 2) else xrow) else xtop.
Definition wfix_down (xtop xrow h : Z) : Z := if xtop + h <=? xrow then (if xtop + h + h / 2 <=? xrow then xrow - h / 2 else xrow - h + 1) else xtop.
Lemma wfix_steps xtop xrow h len : wfix xtop xrow h len =
  (wfix_down (wfix_up xtop (wfix_row xrow len) h) (wfix_row xrow len) h, wfix_row xrow len).
Proof. reflexivity. Qed.

Section Wfix.
  Variable ext : nat -> list val -> mem -> res (val * mem).
  Variables (kl : nat) (h cols hl : Z).
  Hypothesis Hk : kernel_ok ext kl h cols hl.
  Variables (bl bln : nat) (lbs : list nat) (lines : list bytes) (ft : bytes) (d fuel : nat).
  Hypothesis Hh : 0 <= h <= 2147483647.

  Lemma wf_if1_ok m v : draw_mem m kl v bl bln lbs lines ft -> i32b (v_xrow v) ->
    exec (callx ext cprog fuel (S (S d))) fuel wf_if1 (mkst [] m) = ONormal (mkst [] (upd m G_xrow [VInt (wfix_row (v_xrow v) (blen lines))])).
  Proof.
    intros Hm Hr. pose proof Hm as [H1 H2 H3 H4 H5 H6 Hb _ _ _ _ _ _].
    assert (Hn : 0 <= blen lines <= 2147483647) by (destruct Hb; unfold blen; lia).
    unfold wf_if1, wfix_row. cbn [fn_body cf_vi_wfix]. xauto Hk.
    destruct (Z.ltb_spec (v_xrow v) 0) as [L|L]; xauto Hk.
    - rewrite (store_cell _ _ _ _ H1). xstep. repeat f_equal; zeq.
    - destruct (Z.leb_spec (blen lines) (v_xrow v)) as [L2|L2]; xauto Hk.
      + rewrite (store_cell _ _ _ _ H1). xstep. repeat f_equal; zeq.
      + rewrite (upd_self m G_xrow _ H1). reflexivity.
  Qed.

  Lemma wf_if2_ok m v : draw_mem m kl v bl bln lbs lines ft -> 0 <= v_xrow v <= 2147483647 -> 0 <= v_xtop v <= 2147483647 ->
    exec (callx ext cprog fuel (S (S d))) fuel wf_if2 (mkst [] m) = ONormal (mkst [] (upd m G_xtop [VInt (wfix_up (v_xtop v) (v_xrow v) h)])).
  Proof.
    intros Hm Hr Ht. pose proof Hm as [H1 H2 H3 H4 H5 H6 Hb _ _ _ _ _ _].
    assert (Hh2 : 0 <= h / 2 <= h) by (split; [apply Z.div_pos; lia|apply Z.div_le_upper_bound; lia]).
    unfold wf_if2, wfix_up. cbn [fn_body cf_vi_wfix]. xauto Hk.
    destruct (Z.ltb_spec (v_xrow v) (v_xtop v)) as [L|L]; xauto Hk.
    - destruct (Z.ltb_spec (v_xrow v) (v_xtop v - h / 2)) as [L2|L2]; xauto Hk.
      + rewrite (store_cell _ _ _ _ H2). xstep. repeat f_equal; zeq.
      + rewrite (store_cell _ _ _ _ H2). xstep. reflexivity.
    - rewrite (upd_self m G_xtop _ H2). reflexivity.
  Qed.

  Lemma wf_if3_ok m v : draw_mem m kl v bl bln lbs lines ft -> 0 <= v_xrow v <= 2147483647 -> 0 <= v_xtop v -> v_xtop v + h + h / 2 <= 2147483647 ->
    exec (callx ext cprog fuel (S (S d))) fuel wf_if3 (mkst [] m) = ONormal (mkst [] (upd m G_xtop [VInt (wfix_down (v_xtop v) (v_xrow v) h)])).
  Proof.
    intros Hm Hr Ht Hth. pose proof Hm as [H1 H2 H3 H4 H5 H6 Hb _ _ _ _ _ _].
    assert (Hh2 : 0 <= h / 2 <= h) by (split; [apply Z.div_pos; lia|apply Z.div_le_upper_bound; lia]).
    unfold wf_if3, wfix_down. cbn [fn_body cf_vi_wfix]. xauto Hk.
    destruct (Z.leb_spec (v_xtop v + h) (v_xrow v)) as [L|L]; xauto Hk.
    - destruct (Z.leb_spec (v_xtop v + h + h / 2) (v_xrow v)) as [L2|L2]; xauto Hk.
      + rewrite (store_cell _ _ _ _ H2). xstep. reflexivity.
      + rewrite (store_cell _ _ _ _ H2). xstep. reflexivity.
    - rewrite (upd_self m G_xtop _ H2). reflexivity.
  Qed.

  (* vi_wfix(): xrow, xtop = DrawDefs.wfix; xoff = what ren_noeol answers for the cursor line (a hypothesis about that one call: ren_noeol is
     translated, TrRen2.tr_ren_noeol proves it equal to RenDefs.ren_noeol on a line in memory) *)
  Theorem tr_vi_wfix m v o : draw_mem m kl v bl bln lbs lines ft -> i32b (v_xrow v) -> 0 <= v_xtop v -> v_xtop v + h + h / 2 <= 2147483647 -> i32b (v_xoff v) -> i32b o ->
    let '(t, r) := wfix (v_xtop v) (v_xrow v) h (blen lines) in
    let m2 := upd (upd m G_xrow [VInt r]) G_xtop [VInt t] in
    callx ext cprog fuel (S (S d)) F_ren_noeol [line_ptr lbs lines r; VInt (v_xoff v)] m2 = Ok (VInt o, m2) ->
    callx ext cprog fuel (S (S (S d))) F_vi_wfix [] m = Ok (VUndef, upd m2 G_xoff [VInt o]) /\
    draw_mem (upd m2 G_xoff [VInt o]) kl (set_xoff (set_xtop (set_xrow v r) t) o) bl bln lbs lines ft.
  Proof.
    intros Hm Hr Ht Hth Hof Ho. rewrite wfix_steps. cbv zeta.
    set (r := wfix_row (v_xrow v) (blen lines)). set (t1 := wfix_up (v_xtop v) r h). set (t := wfix_down t1 r h).
    assert (Hn : 0 <= blen lines <= 2147483647) by (destruct Hm as [_ _ _ _ _ _ Hb _ _ _ _ _ _]; destruct Hb; unfold blen; lia).
    assert (Hh2 : 0 <= h / 2 <= h) by (split; [apply Z.div_pos; lia|apply Z.div_le_upper_bound; lia]).
    assert (Ir : 0 <= r <= 2147483647) by (unfold r, wfix_row; zeq).
    assert (It1 : 0 <= t1 <= v_xtop v) by (unfold t1, wfix_up; zeq).
    intro Hnoeol.
    pose proof (draw_mem_store _ _ _ _ _ _ _ _ G_xrow r _ Hm (or_introl (conj eq_refl eq_refl))) as Hm1.
    pose proof (draw_mem_store _ _ _ _ _ _ _ _ G_xtop t1 _ Hm1 (or_intror (or_introl (conj eq_refl eq_refl)))) as Hm2.
    pose proof (draw_mem_store _ _ _ _ _ _ _ _ G_xtop t _ Hm2 (or_intror (or_introl (conj eq_refl eq_refl)))) as Hm3.
    assert (E3 : upd (upd (upd m G_xrow [VInt r]) G_xtop [VInt t1]) G_xtop [VInt t] = upd (upd m G_xrow [VInt r]) G_xtop [VInt t]).
    { apply upd_upd. destruct Hm1 as [_ K _ _ _ _ _ _ _ _ _ _ _]. exact (cell_lt _ _ _ K). }
    rewrite E3 in Hm3.
    split.
    - assert (Hbody : fn_body cf_vi_wfix = SSeq wf_if1 (SSeq wf_if2 (SSeq wf_if3 wf_off))) by reflexivity.
      rewrite callx_S. cbn [nth_error cprog F_vi_wfix]. change (fn_nparams cf_vi_wfix) with 0%nat. change (fn_nlocals cf_vi_wfix) with 0%nat.
      cbn [length Nat.eqb Nat.sub repeat app]. rewrite Hbody.
      rewrite exec_seq. rewrite (wf_if1_ok m v Hm Hr). fold r.
      rewrite exec_seq. rewrite (wf_if2_ok _ _ Hm1) by (cbn [set_xrow v_xrow v_xtop]; unfold i32b; lia).
      cbn [set_xrow v_xrow v_xtop]. fold t1.
      rewrite exec_seq. rewrite (wf_if3_ok _ _ Hm2) by (cbn [set_xtop set_xrow v_xrow v_xtop]; unfold i32b; lia).
      cbn [set_xtop set_xrow v_xrow v_xtop]. fold t. rewrite E3.
      pose proof Hm3 as [K1 K2 K3 _ _ _ Kb _ _ _ _ _ _]. cbn [set_xtop set_xrow v_xrow v_xtop v_xoff] in K1, K2, K3.
      unfold wf_off. cbn [fn_body cf_vi_wfix]. xauto Hk. rewrite Hnoeol. xauto Hk. rewrite (store_cell _ _ _ _ K3). xstep. reflexivity.
    - apply (draw_mem_store _ _ _ _ _ _ _ _ G_xoff o _ Hm3). right. right. split; reflexivity.
  Qed.
End Wfix.

(* ------------------------------------------------------------------ led_pos, vi_pos *)
Theorem tr_led_pos ext m dir pos b e d fuel : i32b (pos - b) -> i32b (e - pos) -> i32b (e - pos - 1) ->
  callx ext cprog fuel (S d) F_led_pos [VInt dir; VInt pos; VInt b; VInt e] m = Ok (VInt (flip_pos dir pos b e), m).
Proof.
  intros H1 H2 H3. enterx F_led_pos cf_led_pos. unfold flip_pos. xstep.
  destruct (Z.leb_spec 0 dir); xstep; repeat (rewrite chk_I32 by i32; xstep); reflexivity.
Qed.

(* vi_pos(s, pos): the terminal column of the cursor position; dir_context is translated (coq/TrDir.v proves it equal to DirDefs.dir_context
   relative to the matcher oracle): here a hypothesis about that one call, whose memory m' still holds xleft *)
Theorem tr_vi_pos ext kl h cols hl m m' s pos dir xleft d fuel : kernel_ok ext kl h cols hl ->
  callx ext cprog fuel (S d) F_dir_context [match s with VInt 0 => VPtr G_lit__0 0 | _ => s end] m = Ok (VInt dir, m') ->
  (s = VInt 0 \/ exists b o, s = VPtr b o) -> cell_at m' G_xleft xleft ->
  i32b xleft -> i32b (pos - xleft) -> i32b (xleft + cols) -> i32b (xleft + cols - pos) -> i32b (xleft + cols - pos - 1) ->
  callx ext cprog fuel (S (S d)) F_vi_pos [s; VInt pos] m = Ok (VInt (vi_pos dir pos xleft cols), m').
Proof.
  intros Hk Hdir Hs Hx I1 I2 I3 I4 I5. enterx F_vi_pos cf_vi_pos. unfold vi_pos, flip_pos. xstep.
  destruct Hs as [->|(b & o & ->)]; xstep; rewrite Hdir; xstep;
    (destruct (Z.leb_spec 0 dir); xauto Hk; [reflexivity|repeat f_equal; lia]).
Qed.
