(* TrViShift.v -- C08: vi_shift of /repo/vi.c (`<` and `>`) on the translated C text (coq/GenCFuncs.v cf_vi_shift, whitelist
   tools/c2clite.d/99zzzzz_viops.list), in the vocabulary of coq/TrViOp.v: the buffer as TrViOp.ed_at, the string builder as the record
   TrViOp.oracles.  vi_shift calls lbuf_edit ONCE PER ROW inside its loop, so one hypothesis per call reached (the style of vi_delete /
   vi_case) does not do: lbuf_edit is an oracle with a SIMULATION hypothesis (edit_sim, the style of TrGlob.exec_oracle / TrCmp4.replace_sim):
   called on a memory that represents the lines `lines` with the text t in the newest block, for the row i that is line k, it returns a memory
   that represents `edit_row lines t k` (row k replaced by the lines of t), keeps the text block (the builder is freed afterwards) and the cursor
   cells.  The blocks of the buffer are existential on both sides: lbuf_edit may move the table and allocates the new lines.
   shift_b: the text handed to lbuf_edit for one row -- `>`: a tab in front unless the line starts with the newline (an empty line is left
   alone); `<`: one leading blank or tab dropped.  shift_rows_b: the rows r1..r2 one after the other, a row outside the buffer is skipped
   (`continue`).  tr_vi_shift: the run returns 16 = VC_ALL, the memory represents shift_rows_b of the lines, xrow = r1,
   xoff = lbuf_indents of the NEW buffer at r1, vi_drawfix(r1, r2, r2 - r1 + 1, 0) was called (draw_sim: it keeps the picture). *)
From Coq Require Import List ZArith NArith Bool Lia.
From NV Require Import Bytes UcDefs CLite CLiteProps GenCFuncs CLiteTac CLiteExt TrLbufBase MotDefs TrMot TrViOpPure TrViOp TrViOp2.
From NV Require IoDefs ViDefs TrViOpModel.
Import ListNotations.
Local Open Scope Z_scope.

(* ------------------------------------------------------------------ the byte-level model *)
(* what the builder gets in front of the line, and how many bytes of the line are skipped *)
Definition shift_parts (dir : Z) (s : bytes) : bytes * nat :=
  if 0 <? dir then ((if (nthb s 0 =? 10)%N then [] else [9%N]), O) else ([], if is_bl (nthb s 0) then 1%nat else O).
Definition shift_b (dir : Z) (s : bytes) : bytes := fst (shift_parts dir s) ++ skipn (snd (shift_parts dir s)) s.
(* lbuf_edit(xb, t, k, k + 1) on the lines *)
Definition edit_row (lines : list bytes) (t : bytes) (k : nat) : list bytes := firstn k lines ++ IoDefs.split_lines t ++ skipn (S k) lines.
Definition shift_row_b (dir : Z) (lines : list bytes) (i : Z) : list bytes :=
  match rowidx lines i with Some k => edit_row lines (shift_b dir (nthl lines k)) k | None => lines end.
Fixpoint shift_rows_b (dir : Z) (n : nat) (i : Z) (lines : list bytes) : list bytes :=
  match n with O => lines | S n' => shift_rows_b dir n' (i + 1) (shift_row_b dir lines i) end.
(* every buffer on the way keeps its sizes inside int (a `>` makes a line one byte longer) *)
Fixpoint shift_small (dir : Z) (n : nat) (i : Z) (lines : list bytes) : Prop :=
  match n with O => True | S n' => lines_small (shift_row_b dir lines i) /\ shift_small dir n' (i + 1) (shift_row_b dir lines i) end.

Lemma shift_parts_ok dir s : nonul (fst (shift_parts dir s)) /\ (snd (shift_parts dir s) <= length s)%nat.
Proof.
  unfold shift_parts. destruct (0 <? dir); cbn [fst snd].
  - split; [|lia]. destruct (nthb s 0 =? 10)%N; [constructor|]. repeat constructor; unfold byte_ok; lia.
  - split; [constructor|]. destruct (is_bl (nthb s 0)) eqn:B; [|lia]. destruct s as [|c r]; [|cbn [length]; lia].
    unfold nthb in B. cbn in B. discriminate.
Qed.

Definition shift_loop : stmt := match fn_body cf_vi_shift with SSeq (SSeq _ l) _ => l | _ => SSkip end.
Definition shift_if_s : stmt :=
  match fn_body cf_vi_shift with SSeq (SSeq _ (SFor _ _ (SSeq _ (SSeq _ (SSeq c _))))) _ => c | _ => SSkip end.
Definition shift_tail_s : stmt :=
  match fn_body cf_vi_shift with SSeq (SSeq _ (SFor _ _ (SSeq _ (SSeq _ (SSeq _ t))))) _ => t | _ => SSkip end.
Definition shift_rest : stmt := match fn_body cf_vi_shift with SSeq _ r => r | _ => SSkip end.

Section Shift.
  Variable ext : nat -> list val -> mem -> res (val * mem).
  Variable fuel : nat.
  Hypothesis OR : oracles ext.
  Variable lb : nat.

  (* the simulation hypothesis for lbuf_edit *)
  Definition edit_sim : Prop := forall (m : mem) bln lbs lines t i k xr xo,
    ed_cur m lb bln lbs lines -> cell_at m G_xrow xr -> cell_at m G_xoff xo -> nonul t -> rowidx lines i = Some k ->
    lines_small (edit_row lines t k) ->
    exists u (m6 : mem) bln' lbs',
      ext X_lbuf_edit [VPtr lb 0; VPtr (length m) 0; VInt i; VInt (i + 1)] (m ++ [cstr_block (zb t)]) = Ok (u, m6) /\
      (length m < length m6)%nat /\ str_at m6 (length m) t /\ cell_at m6 G_xrow xr /\ cell_at m6 G_xoff xo /\
      ed_cur (upd m6 (length m) []) lb bln' lbs' (edit_row lines t k).
  Hypothesis ES : edit_sim.

  (* the `if (dir > 0) ... else ...` of the body: the builder gets the first part, ln moves past the dropped blank *)
  Lemma shift_if_ok D (m : mem) bs s r1 r2 dir i lf : str_at m bs s -> nonul s ->
    exec (callx ext cprog fuel (S (S D))) lf shift_if_s
         (mkst [VInt r1; VInt r2; VInt dir; VPtr (length m) 0; VPtr bs 0; VInt i] (m ++ [cstr_block (zb [])]))
    = ONormal (mkst [VInt r1; VInt r2; VInt dir; VPtr (length m) 0; VPtr bs (Z.of_nat (snd (shift_parts dir s))); VInt i]
                    (m ++ [cstr_block (zb (fst (shift_parts dir s)))])).
  Proof.
    intros Hs Ns. set (M1 := m ++ [cstr_block (zb [])]).
    assert (Hs1 : str_at M1 bs s) by (apply str_at_app; exact Hs).
    pose proof (nthb_lt256 s 0 (nonul_lt256 s Ns)) as Hc.
    assert (Ld : load M1 bs (0 + 1 * 0) = Ok (VInt (Z.of_N (nthb s 0)))) by (apply (load_str M1 bs s _ 0 Hs1); [reflexivity|lia]).
    unfold shift_if_s, shift_parts; cbn [fn_body cf_vi_shift]. xs. destruct (0 <? dir); xs; rewrite Ld; xs.
    - rewrite (sx_eq10 _ Hc). destruct (nthb s 0 =? 10)%N; xs; cbn [fst snd]; [reflexivity|].
      rewrite (cx_ext ext fuel (S D) _ _ _ x_sbuf_chr_none). unfold M1. change (VInt 9) with (VInt (Z.of_N 9)).
      rewrite (o_chr ext OR _ (length m) [] 9%N (str_last m []) ltac:(lia)). xs. rewrite upd_last. reflexivity.
    - rewrite (sx_eq32 _ Hc). unfold is_bl. destruct (nthb s 0 =? 32)%N eqn:E32; xs; cbn [orb fst snd]; [reflexivity|].
      rewrite Ld. xs. rewrite (sx_eq9 _ Hc). destruct (nthb s 0 =? 9)%N eqn:E9; xs; reflexivity.
  Qed.

  (* sbuf_str(sb, ln); lbuf_edit(xb, sbuf_buf(sb), i, i + 1); sbuf_free(sb) -- the builder holds cs, ln points o bytes into line k *)
  Lemma shift_tail_ok D (m : mem) bln lbs lines xr xo i k cs o r1 r2 dir lf :
    ed_cur m lb bln lbs lines -> cell_at m G_xrow xr -> cell_at m G_xoff xo -> rowidx lines i = Some k -> nonul cs ->
    (o <= length (nthl lines k))%nat -> int_ok (i + 1) ->
    let t := cs ++ skipn o (nthl lines k) in lines_small (edit_row lines t k) ->
    exists (m7 : mem) bln' lbs',
      exec (callx ext cprog fuel (S (S D))) lf shift_tail_s
           (mkst [VInt r1; VInt r2; VInt dir; VPtr (length m) 0; VPtr (nth k lbs O) (Z.of_nat o); VInt i] (m ++ [cstr_block (zb cs)]))
      = ONormal (mkst [VInt r1; VInt r2; VInt dir; VPtr (length m) 0; VPtr (nth k lbs O) (Z.of_nat o); VInt i] m7) /\
      ed_cur m7 lb bln' lbs' (edit_row lines t k) /\ cell_at m7 G_xrow xr /\ cell_at m7 G_xoff xo.
  Proof.
    intros Ec Hx Ho Ek Ncs Hoo Ii1 t Hsm. pose proof Ec as (E & N1 & N2 & N3). destruct (rowidx_lt _ _ _ Ek) as [Hk Ei].
    set (bs := nth k lbs O). set (s := nthl lines k) in *. unfold int_ok in Ii1.
    pose proof (la_nonul _ _ _ _ _ (ed_lb _ _ _ _ _ E)) as Hnn.
    assert (Ns : nonul s) by (apply nthl_nonul; exact Hnn).
    assert (Hs : str_at m bs s) by (apply (la_str _ _ _ _ _ (ed_lb _ _ _ _ _ E) k Hk)).
    assert (Lbs : (bs < length m)%nat) by (apply nth_error_Some; unfold str_at in Hs; congruence).
    assert (Nt : nonul t) by (apply nonul_app; [exact Ncs|apply nonul_skipn'; exact Ns]).
    assert (Lx : (G_xrow < length m)%nat) by (apply nth_error_Some; unfold cell_at in Hx; congruence).
    assert (Lo : (G_xoff < length m)%nat) by (apply nth_error_Some; unfold cell_at in Ho; congruence).
    unfold shift_tail_s; cbn [fn_body cf_vi_shift]. xs.
    rewrite (cx_ext ext fuel (S D) _ _ _ x_sbuf_str_none).
    rewrite (o_str ext OR _ (length m) cs bs s o (str_last m cs) (str_at_app m _ bs s Hs) ltac:(lia) Ns Hoo). xs. rewrite upd_last. fold t.
    assert (E2 : ed_at (m ++ [cstr_block (zb t)]) lb bln lbs lines) by (apply ed_at_app; exact E).
    rewrite (cx_xb ext fuel (S D) _ lb bln lbs lines E2). xs.
    rewrite (cx_ext ext fuel (S D) _ _ _ x_sbuf_buf_none), (o_buf ext OR _ (length m) t (str_last m t)). xs. rewrite chk_I32 by lia. xs.
    destruct (ES m bln lbs lines t i k xr xo Ec Hx Ho Nt Ek Hsm) as (u & m6 & bln' & lbs' & Ed & L6 & S6 & X6 & O6 & E6).
    rewrite (cx_ext ext fuel (S D) _ _ _ x_lbuf_edit_none), Ed. xs.
    rewrite (cx_ext ext fuel (S D) _ _ _ x_sbuf_free_none), (o_free ext OR m6 (length m) t S6). xs.
    exists (upd m6 (length m) []), bln', lbs'. split; [reflexivity|]. split; [exact E6|].
    unfold cell_at in *. rewrite !mem_upd_other by lia. split; assumption.
  Qed.

  Lemma shift_loop_ok D r1 r2 dir : int_ok (r2 + 1) -> int_ok dir ->
    forall n i (m : mem) bln lbs lines xr xo l3 l4 lf,
      n = Z.to_nat (r2 - i + 1) -> int_ok i -> ed_cur m lb bln lbs lines -> cell_at m G_xrow xr -> cell_at m G_xoff xo ->
      shift_small dir n i lines -> (n < lf)%nat ->
      exists (m' : mem) bln' lbs' l3' l4' vi,
        exec (callx ext cprog fuel (S (S D))) lf shift_loop (mkst [VInt r1; VInt r2; VInt dir; l3; l4; VInt i] m)
        = ONormal (mkst [VInt r1; VInt r2; VInt dir; l3'; l4'; vi] m') /\
        ed_cur m' lb bln' lbs' (shift_rows_b dir n i lines) /\ cell_at m' G_xrow xr /\ cell_at m' G_xoff xo.
  Proof.
    intros Ir2 Idir. unfold int_ok in Ir2, Idir.
    induction n as [|n IH]; intros i m bln lbs lines xr xo l3 l4 lf Hn Ii Ec Hx Ho Hsm Hlf; (destruct lf as [|lf]; [lia|]);
      unfold int_ok in Ii; unfold shift_loop; cbn [fn_body cf_vi_shift];
      match goal with |- context [SSeq ?c (SSeq (SExpr (ECall X_sbuf_str ?a)) ?r)] =>
        change (SSeq c (SSeq (SExpr (ECall X_sbuf_str a)) r)) with (SSeq shift_if_s shift_tail_s) end;
      rewrite exec_for; xs.
    - destruct (Z.leb_spec i r2) as [X|X]; [lia|]. xs.
      exists m, bln, lbs, l3, l4, (VInt i). split; [reflexivity|]. split; [exact Ec|]. split; assumption.
    - destruct (Z.leb_spec i r2) as [X|X]; [|lia]. xs.
      pose proof Ec as (E & N1 & N2 & N3).
      rewrite (cx_xb ext fuel (S D) m lb bln lbs lines E). xs. rewrite (cx_get ext fuel (S D) m lb bln lbs lines i E). unfold line_ptr.
      cbn [shift_rows_b shift_small] in Hsm |- *. destruct Hsm as [Hsm1 Hsm]. unfold shift_row_b in *.
      assert (Hn' : n = Z.to_nat (r2 - (i + 1) + 1)) by lia.
      destruct (rowidx lines i) as [k|] eqn:Ek; xs.
      + destruct (rowidx_lt _ _ _ Ek) as [Hk Ei].
        set (bs := nth k lbs O). set (s := nthl lines k) in *.
        pose proof (la_nonul _ _ _ _ _ (ed_lb _ _ _ _ _ E)) as Hnn.
        assert (Ns : nonul s) by (apply nthl_nonul; exact Hnn).
        assert (Hs : str_at m bs s) by (apply (la_str _ _ _ _ _ (ed_lb _ _ _ _ _ E) k Hk)).
        rewrite (cx_ext ext fuel (S D) _ _ _ x_sbuf_make_none), (o_make ext OR m). unfold fresh. xs.
        rewrite (shift_if_ok D m bs s r1 r2 dir i (S lf) Hs Ns).
        destruct (shift_parts_ok dir s) as [Ncs Hoo].
        destruct (shift_tail_ok D m bln lbs lines xr xo i k (fst (shift_parts dir s)) (snd (shift_parts dir s)) r1 r2 dir (S lf)
                    Ec Hx Ho Ek Ncs Hoo ltac:(unfold int_ok; lia) Hsm1) as (m7 & bln7 & lbs7 & X7 & E7 & Hx7 & Ho7).
        fold bs in X7. rewrite X7. xs. rewrite chk_I32 by lia. xs.
        destruct (IH (i + 1) m7 bln7 lbs7 _ xr xo (VPtr (length m) 0) (VPtr bs (Z.of_nat (snd (shift_parts dir s)))) lf Hn' ltac:(unfold int_ok; lia) E7 Hx7 Ho7 Hsm ltac:(lia))
          as (m' & bln' & lbs' & l3' & l4' & vi & X' & R').
        unfold shift_loop in X'; cbn [fn_body cf_vi_shift] in X'.
        match type of X' with context [SSeq ?c (SSeq (SExpr (ECall X_sbuf_str ?a)) ?r)] =>
          change (SSeq c (SSeq (SExpr (ECall X_sbuf_str a)) r)) with (SSeq shift_if_s shift_tail_s) in X' end.
        rewrite X'. exists m', bln', lbs', l3', l4', vi. split; [reflexivity|exact R'].
      + (* a row outside the buffer: continue *)
        rewrite chk_I32 by lia. xs.
        destruct (IH (i + 1) m bln lbs lines xr xo l3 (VInt 0) lf Hn' ltac:(unfold int_ok; lia) Ec Hx Ho Hsm ltac:(lia))
          as (m' & bln' & lbs' & l3' & l4' & vi & X' & R').
        unfold shift_loop in X'; cbn [fn_body cf_vi_shift] in X'.
        match type of X' with context [SSeq ?c (SSeq (SExpr (ECall X_sbuf_str ?a)) ?r)] =>
          change (SSeq c (SSeq (SExpr (ECall X_sbuf_str a)) r)) with (SSeq shift_if_s shift_tail_s) in X' end.
        rewrite X'. exists m', bln', lbs', l3', l4', vi. split; [reflexivity|exact R'].
  Qed.
  (* vi_drawfix (an oracle here: coq/TrDrawWin.v has it) keeps the buffer and the cursor cells *)
  Definition draw_sim : Prop := forall (m : mem) bln lbs lines a b c e xr xo,
    ed_cur m lb bln lbs lines -> cell_at m G_xrow xr -> cell_at m G_xoff xo ->
    exists u (m9 : mem), ext X_vi_drawfix [VInt a; VInt b; VInt c; VInt e] m = Ok (u, m9) /\
      ed_cur m9 lb bln lbs lines /\ cell_at m9 G_xrow xr /\ cell_at m9 G_xoff xo.
  Hypothesis DS : draw_sim.

  Theorem tr_vi_shift D (m : mem) bln lbs lines r1 r2 dir xr xo :
    ed_cur m lb bln lbs lines -> cell_at m G_xrow xr -> cell_at m G_xoff xo ->
    int_ok r1 -> int_ok (r2 + 1) -> int_ok dir -> int_ok (r2 - r1) -> int_ok (r2 - r1 + 1) ->
    let n := Z.to_nat (r2 - r1 + 1) in let lines' := shift_rows_b dir n r1 lines in
    shift_small dir n r1 lines -> (n < fuel)%nat -> (maxlen lines' < fuel)%nat ->
    exists (m9 : mem) bln' lbs',
      callx ext cprog fuel (S (S (S (S D)))) F_vi_shift [VInt r1; VInt r2; VInt dir] m = Ok (VInt 16, m9) /\
      ed_cur m9 lb bln' lbs' lines' /\ cell_at m9 G_xrow r1 /\ cell_at m9 G_xoff (lbuf_indents (map chop lines') r1).
  Proof.
    intros Ec Hx Ho Ir1 Ir2 Idir Id Id1 n lines' Hsm Hf Hfl.
    destruct (shift_loop_ok (S D) r1 r2 dir Ir2 Idir n r1 m bln lbs lines xr xo VUndef VUndef fuel eq_refl Ir1 Ec Hx Ho Hsm Hf)
      as (m' & bln' & lbs' & l3' & l4' & vi & X & Ec' & Hx' & Ho').
    fold lines' in Ec'. pose proof Ec' as (E' & N1 & N2 & N3).
    assert (Lx : (G_xrow < length m')%nat) by (apply nth_error_Some; unfold cell_at in Hx'; congruence).
    assert (Lo : (G_xoff < length m')%nat) by (apply nth_error_Some; unfold cell_at in Ho'; congruence).
    rewrite callx_S. change (nth_error cprog F_vi_shift) with (Some cf_vi_shift).
    cbn [fn_nparams cf_vi_shift length Nat.eqb fn_nlocals Nat.sub repeat app].
    change (fn_body cf_vi_shift) with (SSeq (SSeq (SExpr (ESetLocal 5 (ELocal 0))) shift_loop) shift_rest).
    xs. rewrite X. unfold shift_rest. cbn [fn_body cf_vi_shift]. xs.
    rewrite (wrap_int_ok r1 Ir1), (store_cell m' G_xrow xr r1 Hx'). xs.
    assert (E8 : ed_at (upd m' G_xrow [VInt r1]) lb bln' lbs' lines').
    { apply ed_at_upd; [exact E'|exact Lx|]. intros [Hb|Hb]; [vm_compute in Hb; discriminate Hb|contradiction]. }
    rewrite (cx_xb ext fuel (S (S D)) _ lb bln' lbs' lines' E8). xs.
    assert (Hx8 : cell_at (upd m' G_xrow [VInt r1]) G_xrow r1) by (unfold cell_at; apply mem_upd_same; exact Lx).
    rewrite (ld1 _ G_xrow _ Hx8). xs. rewrite (wrap_int_ok r1 Ir1).
    rewrite (callx_mono ext _ _ _ _ _ _ _ (tr_lbuf_indents _ lb bln' lbs' lines' r1 D fuel (ed_lb _ _ _ _ _ E8) (ed_small _ _ _ _ _ E8) Hfl)). xs.
    set (v := lbuf_indents (map chop lines') r1).
    assert (Iv : int_ok v).
    { unfold v, lbuf_indents. rewrite getl_rowidx. destruct (rowidx lines' r1) as [i|]; cbn [option_map]; [|unfold int_ok; lia].
      pose proof (count_space_le (chop (nthl lines' i))). pose proof (slen_small lines' i (ed_small _ _ _ _ _ E8) (la_nonul _ _ _ _ _ (ed_lb _ _ _ _ _ E8))). unfold int_ok. lia. }
    assert (Ho8 : cell_at (upd m' G_xrow [VInt r1]) G_xoff xo).
    { unfold cell_at. rewrite mem_upd_other; [exact Ho'|exact Lx|vm_compute; discriminate]. }
    rewrite (wrap_int_ok v Iv), (store_cell _ G_xoff xo v Ho8). xs.
    unfold int_ok in Id, Id1. rewrite chk_I32 by lia. xs. rewrite chk_I32 by lia. xs.
    set (m8 := upd (upd m' G_xrow [VInt r1]) G_xoff [VInt v]).
    assert (L8 : length (upd m' G_xrow [VInt r1]) = length m') by (apply upd_length; exact Lx).
    assert (E9 : ed_cur m8 lb bln' lbs' lines').
    { split; [|tauto]. unfold m8. apply ed_at_upd; [exact E8|rewrite L8; exact Lo|]. intros [Hb|Hb]; [vm_compute in Hb; discriminate Hb|contradiction]. }
    assert (Hx9 : cell_at m8 G_xrow r1).
    { unfold m8, cell_at. rewrite mem_upd_other; [exact Hx8|rewrite L8; exact Lo|vm_compute; discriminate]. }
    assert (Ho9 : cell_at m8 G_xoff v) by (unfold m8, cell_at; apply mem_upd_same; rewrite L8; exact Lo).
    destruct (DS m8 bln' lbs' lines' r1 r2 (r2 - r1 + 1) 0 r1 v E9 Hx9 Ho9) as (u & m9 & Hd & E10 & Hx10 & Ho10).
    rewrite (cx_ext ext fuel (S (S D)) _ _ _ x_vi_drawfix_none), Hd. xs.
    exists m9, bln', lbs'. split; [reflexivity|]. split; [exact E10|]. split; assumption.
  Qed.
End Shift.

(* ------------------------------------------------------------------ the text of one row is the interpreter's (ViDefs.shift_line on the characters) *)
Lemma uc_next_bl s : is_bl (nthb s 0) = true -> uc_next s = 1%nat.
Proof.
  destruct s as [|c r]; [intro H; discriminate H|]. unfold is_bl, nthb. cbn [nth]. intro H.
  apply orb_true_iff in H. destruct H as [H|H]; apply N.eqb_eq in H; subst c; reflexivity.
Qed.
Theorem shift_b_model dir s : nonul s -> s <> [] -> ViDefs.flat (ViDefs.shift_line (0 <? dir) (chop s)) = shift_b dir s.
Proof.
  intros Hn Hne. destruct (TrViOpModel.chop_step s Hn Hne) as ((L1 & L2) & Ec).
  assert (Hb0 : b0 (firstn (uc_next s) s) = nthb s 0).
  { destruct s as [|c r]; [congruence|]. destruct (uc_next (c :: r)); [lia|reflexivity]. }
  unfold shift_b, shift_parts, ViDefs.shift_line. rewrite Ec. destruct (0 <? dir); cbn [fst snd].
  - unfold ViDefs.is_nlb. rewrite Hb0. destruct (nthb s 0 =? 10)%N; cbn [app skipn]; rewrite <- Ec.
    + apply TrViOpModel.flat_chop. exact Hn.
    + unfold ViDefs.flat. cbn [concat app]. f_equal. apply TrViOpModel.flat_chop. exact Hn.
  - unfold ViDefs.is_blankc. rewrite Hb0. fold (is_bl (nthb s 0)). destruct (is_bl (nthb s 0)) eqn:B; cbn [app].
    + rewrite (uc_next_bl s B). apply TrViOpModel.flat_chop. apply nonul_skipn'. exact Hn.
    + cbn [skipn]. rewrite <- Ec. apply TrViOpModel.flat_chop. exact Hn.
Qed.

(* ------------------------------------------------------------------ the translated vi_shift RUNS *)
(* lbuf_edit(xb, t, i, i + 1) for a text t that is one line: the line block of row i gets the text (an edit in place); the other callees as
   TrViOp.ideal_ext has them (the string builder as the record [oracles] describes it, vi_drawfix logs its call) *)
Definition inplace_edit (m : mem) (lb p : nat) (i : Z) : res (val * mem) :=
  match nth_error m lb with
  | Some blk =>
      match nth_error blk L_ln with
      | Some (VPtr bln _) =>
          match nth_error m bln with
          | Some lnblk => match nth_error lnblk (Z.to_nat i) with Some (VPtr b _) => Ok (VUndef, upd m b (nth p m [])) | _ => Err EShape end
          | None => Err EShape
          end
      | _ => Err EShape
      end
  | None => Err EShape
  end.
Definition shift_ext (f : nat) (args : list val) (m : mem) : res (val * mem) :=
  if Nat.eqb f X_lbuf_edit then match args with [VPtr lb _; VPtr p _; VInt i; _] => inplace_edit m lb p i | _ => Err EShape end
  else ideal_ext f args m.
Definition shift_show (r : res (val * mem)) : option (val * option block * option block * list bytes * list block) :=
  match r with
  | Ok (v, m) => Some (v, nth_error m G_xrow, nth_error m G_xoff, mem_lines m (length cglobals),
                       filter (fun b => match b with VInt 3 :: _ => true | _ => false end) (skipn (length cglobals + 5) m))
  | Err _ => None
  end.
(* `>` on rows 0..1 of "ab\n", "cde\n", "f\n" (cursor (1,2)): a tab in front of both, xrow = 0, xoff = 1 = the indentation of the new row 0,
   vi_drawfix(0, 1, 2, 0), result 16; then `<` on rows 0..2 of the result takes the tabs away again; `>` on the row range 2..4 touches row 2 only *)
Lemma shift_run_examples :
  let run args m := callx shift_ext cprog 50 8 F_vi_shift (map VInt args) m in
  shift_show (run [0; 1; 1] (op_mem 1 2))
    = Some (VInt 16, Some [VInt 0], Some [VInt 1], shift_rows_b 1 2 0 op_lines, [map VInt [3; 0; 1; 2; 0]]) /\
  shift_rows_b 1 2 0 op_lines = [[9; 97; 98; 10]; [9; 99; 100; 101; 10]; [102; 10]]%N /\
  (match run [0; 1; 1] (op_mem 1 2) with
   | Ok (_, m1) => option_map (fun x => fst x) (shift_show (run [0; 2; -1] m1)) = Some (VInt 16, Some [VInt 0], Some [VInt 0], op_lines)
   | _ => False
   end) /\
  shift_rows_b (-1) 3 0 (shift_rows_b 1 2 0 op_lines) = op_lines /\
  option_map (fun x => snd (fst x)) (shift_show (run [2; 4; 1] (op_mem 0 0))) = Some (shift_rows_b 1 3 2 op_lines) /\
  shift_rows_b 1 3 2 op_lines = [[97; 98; 10]; [99; 100; 101; 10]; [9; 102; 10]]%N.
Proof. vm_compute. repeat split; reflexivity. Qed.
(* the premises about the memory and the model hold on that run *)
Lemma shift_small_run : shift_small 1 2 0 op_lines.
Proof.
  assert (E1 : shift_row_b 1 op_lines 0 = [[9; 97; 98; 10]; [99; 100; 101; 10]; [102; 10]]%N) by (vm_compute; reflexivity).
  assert (E2 : shift_row_b 1 [[9; 97; 98; 10]; [99; 100; 101; 10]; [102; 10]]%N (0 + 1) = [[9; 97; 98; 10]; [9; 99; 100; 101; 10]; [102; 10]]%N) by (vm_compute; reflexivity).
  cbn [shift_small]. rewrite E1, E2. unfold lines_small. cbn [length].
  split; [split; [lia|repeat constructor; cbn [length]; lia]|]. split; [split; [lia|repeat constructor; cbn [length]; lia]|exact I].
Qed.
Lemma shift_run_premises :
  ed_cur (op_mem 1 2) (length cglobals) (length cglobals + 1) [length cglobals + 2; length cglobals + 3; length cglobals + 4]%nat op_lines /\
  cell_at (op_mem 1 2) G_xrow 1 /\ cell_at (op_mem 1 2) G_xoff 2 /\ shift_small 1 2 0 op_lines /\ (maxlen (shift_rows_b 1 2 0 op_lines) < 50)%nat.
Proof.
  split; [split; [apply op_mem_ed|vm_compute; intuition discriminate]|]. split; [vm_compute; reflexivity|]. split; [vm_compute; reflexivity|].
  split; [exact shift_small_run|]. vm_compute. lia.
Qed.
