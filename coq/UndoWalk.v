(* UndoWalk.v -- the history is never truncated: complete undo and redo walks (C04).
   Corollaries of the refinement (UndoProps.R): from the state reached by ANY operation list, exactly
   length (past) undos succeed, they bring back the texts of the stack one by one, the last one is the text the
   buffer was loaded with, and the next undo fails; the same upwards for redo.  At the command level the number of
   steps is the number of modifying commands not yet undone, whatever the number of entries each of them logged. *)
From Coq Require Import List Arith NArith ZArith Bool Lia.
From NV Require Import GenConsts UndoDefs UndoProps UndoWalkDefs.
Import ListNotations.

Lemma last_cons {A} (l : list A) : forall a d, last (a :: l) d = last l a.
Proof.
  induction l as [|b l IH]; intros a d; [reflexivity|].
  change (last (a :: b :: l) d) with (last (b :: l) d). rewrite (IH b d), (IH b a). reflexivity.
Qed.

(* ---- the stack machine alone ---- *)
Lemma spec_undo_walk : forall p sp, past sp = p ->
  spec_trace sp (repeat Undo (length p) ++ [Undo]) = map (fun x => (snd x, true)) p ++ [(last (map snd p) (cur sp), false)].
Proof.
  induction p as [|[q t] p IH]; intros sp H.
  - cbn [length repeat app spec_trace spec_op]. rewrite H. reflexivity.
  - cbn [length repeat app spec_trace spec_op]. rewrite H. cbn [map snd app cur fst]. rewrite last_cons.
    f_equal. apply (IH {| past := p; cur := t; future := (q, cur sp) :: future sp; cmdno := cmdno sp |}). reflexivity.
Qed.

Lemma spec_redo_walk : forall f sp, future sp = f ->
  spec_trace sp (repeat Redo (length f) ++ [Redo]) = map (fun x => (snd x, true)) f ++ [(last (map snd f) (cur sp), false)].
Proof.
  induction f as [|[q t] f IH]; intros sp H.
  - cbn [length repeat app spec_trace spec_op]. rewrite H. reflexivity.
  - cbn [length repeat app spec_trace spec_op]. rewrite H. cbn [map snd app cur fst]. rewrite last_cons.
    f_equal. apply (IH {| past := (q, cur sp) :: past sp; cur := t; future := f; cmdno := cmdno sp |}). reflexivity.
Qed.

Lemma bottom_step sp o : bottom (fst (spec_op sp o)) = bottom sp.
Proof.
  unfold bottom. destruct o as [buf b e| | |]; cbn [spec_op].
  - destruct (edit_noop (cur sp) buf b e); cbn [fst past cur]; [reflexivity|].
    unfold push_past. destruct (past sp) as [|[q x] r] eqn:P.
    + reflexivity.
    + destruct (Z.eqb q (cmdno sp)).
      * cbn [map snd]. rewrite !last_cons. reflexivity.
      * cbn [map snd]. rewrite !last_cons. reflexivity.
  - reflexivity.
  - destruct (past sp) as [|[q t] p] eqn:P; cbn [fst past cur]; [rewrite P; reflexivity|]. cbn [map snd]. rewrite last_cons. reflexivity.
  - destruct (future sp) as [|[q t] f] eqn:P; cbn [fst past cur]; [reflexivity|]. cbn [map snd]. rewrite last_cons. reflexivity.
Qed.

Lemma bottom_ops ops : forall sp, bottom (spec_ops sp ops) = bottom sp.
Proof. induction ops as [|o ops IH]; intro sp; [reflexivity|]. cbn [spec_ops]. rewrite IH. apply bottom_step. Qed.

(* ---- the model ---- *)
Theorem undo_walk_complete t0 u0 ops : Forall line_wf t0 ->
  let sp := spec_ops (ustack_init t0 u0) ops in
  run_trace (run_ops (lbuf_loaded t0 u0) ops) (repeat Undo (length (past sp)) ++ [Undo]) =
  map (fun x => (snd x, true)) (past sp) ++ [(t0, false)].
Proof.
  intros W sp. rewrite (R_traces _ sp) by (apply R_ops, R_init, W).
  rewrite (spec_undo_walk (past sp) sp eq_refl).
  change (last (map snd (past sp)) (cur sp)) with (bottom sp). unfold sp. rewrite bottom_ops. reflexivity.
Qed.

Theorem redo_walk_complete t0 u0 ops : Forall line_wf t0 ->
  let sp := spec_ops (ustack_init t0 u0) ops in
  run_trace (run_ops (lbuf_loaded t0 u0) ops) (repeat Redo (length (future sp)) ++ [Redo]) =
  map (fun x => (snd x, true)) (future sp) ++ [(top sp, false)].
Proof.
  intros W sp. rewrite (R_traces _ sp) by (apply R_ops, R_init, W).
  rewrite (spec_redo_walk (future sp) sp eq_refl). reflexivity.
Qed.

(* ---- command level ---- *)
Lemma slast_ok_ops ops : forall sp ok, fst (slast_ok sp ops ok) = spec_ops sp ops.
Proof.
  induction ops as [|o ops IH]; intros sp ok; [reflexivity|]. cbn [slast_ok spec_ops].
  destruct (spec_op sp o) as [sp' k]. cbn [fst]. apply IH.
Qed.

Lemma spec_ops_app a : forall sp b, spec_ops sp (a ++ b) = spec_ops (spec_ops sp a) b.
Proof. induction a as [|o a IH]; intros sp b; [reflexivity|]. cbn [app spec_ops]. apply IH. Qed.

Lemma Q_cmds cs : forall sp cst, Qrel sp cst -> Qrel (spec_ops sp (ops_of_cmds cs)) (cspec_cmds cst cs).
Proof.
  induction cs as [|c cs IH]; intros sp cst H; [exact H|].
  unfold ops_of_cmds. cbn [flat_map cspec_cmds]. rewrite spec_ops_app. apply IH.
  rewrite <- (slast_ok_ops _ sp true). apply Q_cmd. exact H.
Qed.

Lemma Q_init t0 u0 : Qrel (ustack_init t0 u0) (cstack_init t0).
Proof. unfold Qrel. cbn. auto. Qed.

Lemma logs_apply l : existsb (fun x : option (list N) * nat * nat => negb (is_none (fst (fst x)))) l = true ->
  forall t, fst (apply_edits l t) = true.
Proof.
  induction l as [|[[buf b] e] l IH]; intros H t; [discriminate H|]. cbn [apply_edits existsb fst] in *.
  destruct (edit_noop t buf b e) eqn:NO; [|reflexivity].
  unfold edit_noop in NO. apply andb_true_iff in NO. destruct NO as [_ NO]. rewrite NO in H. cbn [negb orb] in H.
  apply IH. exact H.
Qed.

Lemma live_count cs : forall s, forallb logs cs = true ->
  (length (cpast (cspec_cmds s cs)), length (cfuture (cspec_cmds s cs))) = live cs (length (cpast s)) (length (cfuture s)).
Proof.
  induction cs as [|c cs IH]; intros s H; [reflexivity|]. cbn [forallb] in H. apply andb_true_iff in H. destruct H as [H1 H2].
  cbn [cspec_cmds]. rewrite (IH _ H2). destruct c as [l| |]; cbn [cspec_cmd live logs] in *.
  - pose proof (logs_apply l H1 (ccur s)) as A. destruct (apply_edits l (ccur s)) as [ch t']. cbn [fst] in A. subst ch. reflexivity.
  - destruct (cpast s) as [|t p] eqn:P; cbn [fst cpast cfuture length]; [rewrite P|]; reflexivity.
  - destruct (cfuture s) as [|t f] eqn:P; cbn [fst cpast cfuture length]; [rewrite P|]; reflexivity.
Qed.

Theorem history_never_truncated t0 u0 cs : Forall line_wf t0 ->
  let lb := run_ops (lbuf_loaded t0 u0) (ops_of_cmds cs) in
  let cst := cspec_cmds (cstack_init t0) cs in
  run_trace lb (repeat Undo (length (cpast cst)) ++ [Undo]) = map (fun t => (t, true)) (cpast cst) ++ [(t0, false)] /\
  run_trace lb (repeat Redo (length (cfuture cst)) ++ [Redo]) = map (fun t => (t, true)) (cfuture cst) ++ [(last (cfuture cst) (ccur cst), false)] /\
  (forallb logs cs = true -> (length (cpast cst), length (cfuture cst)) = live cs 0 0).
Proof.
  intros W lb cst.
  pose proof (Q_cmds cs _ _ (Q_init t0 u0)) as (Q1 & Q2 & Q3 & _). fold cst in Q1, Q2, Q3.
  split; [|split].
  - unfold lb. rewrite <- Q2, map_length, map_map. apply undo_walk_complete. exact W.
  - unfold lb. rewrite <- Q3, <- Q1, map_length, map_map. apply redo_walk_complete. exact W.
  - intro L. apply (live_count cs (cstack_init t0) L).
Qed.
