(* DirtyDefs.v -- C02: the dirty test of lbuf.c/ex.c with a ghost copy of the file content.
   Executable model of what ec_write / ec_edit / ec_quit / ec_buffer do to the line buffer's
   saved-state bookkeeping (lbuf_saved, lbuf_unsaved, lbuf_modified) on top of UndoDefs.v.
   No proofs here (DirtyProps.v). *)
From Coq Require Import List Arith NArith ZArith Bool.
From NV Require Import GenConsts UndoDefs.
Import ListNotations.

(* a buffer and the ghost `disk`: the lines its file held when the editor last read it or last
   wrote the buffer to its own path *)
Record ebuf := { lb : lbuf; disk : text }.

Inductive dop :=
| DEdit (buf : option (list N)) (b e : nat)   (* any modifying command's lbuf_edit call *)
| DBump                                       (* command boundary: lbuf_modified (ex_command, vi() loop, bufs_switch, :b listing) *)
| DUndo
| DRedo
| DSaveWhole                                  (* :w            -> own path, whole buffer *)
| DSaveOwn (b e : nat)                        (* :b,ew         -> own path, lines b..e-1 *)
| DSaveOther                                  (* :w other, :b,ew other *)
| DReload (content : list N).                 (* :e!           -> lbuf_rd over the whole buffer, lbuf_saved(xb, 0) *)

(* the tail of ec_write for the buffer's own path *)
Definition write_own (e : ebuf) (b en : nat) : ebuf :=
  if Nat.eqb b 0 && Nat.eqb en (length (ln (lb e)))
  then {| lb := lbuf_saved (lb e) false; disk := ln (lb e) |}
  else {| lb := lbuf_unsaved (lb e); disk := slice (ln (lb e)) b (en - b) |}.

Definition run_dop (e : ebuf) (o : dop) : ebuf :=
  match o with
  | DEdit buf b en => {| lb := lbuf_edit (lb e) buf b en; disk := disk e |}
  | DBump => {| lb := fst (lbuf_modified (lb e)); disk := disk e |}
  | DUndo => match lbuf_undo (lb e) with None => e | Some l => {| lb := l; disk := disk e |} end
  | DRedo => match lbuf_redo (lb e) with None => e | Some l => {| lb := l; disk := disk e |} end
  | DSaveWhole => write_own e 0 (length (ln (lb e)))
  | DSaveOwn b en => write_own e b en
  | DSaveOther => e
  | DReload c =>
      let l1 := lbuf_edit (lb e) (Some c) 0 (length (ln (lb e))) in      (* lbuf_rd(xb, fd, 0, lbuf_len(xb)) *)
      {| lb := lbuf_saved l1 false; disk := lines_of c |}
  end.

Fixpoint run_dops (e : ebuf) (ops : list dop) : ebuf :=
  match ops with [] => e | o :: r => run_dops (run_dop e o) r end.

(* ec_edit on a new path: lbuf_make, lbuf_rd into the empty buffer, lbuf_saved(xb, 1) *)
Definition ebuf_open (content : list N) : ebuf :=
  {| lb := lbuf_saved (lbuf_edit lbuf_make (Some content) 0 0) true; disk := lines_of content |}.

Definition dirty_flag (e : ebuf) : bool := modified_flag (lb e).

(* the buffer the editor starts with when NO file name is given (ex_init -> ec_edit with an empty path: bufs_open(""), open("")
   fails, nothing is read, lbuf_saved(xb, 0)): the history was never cleared by lbuf_saved(lb, 1), so useq_last is still 0 --
   and lbuf_seq answers useq_last whenever the undo cursor sits below the oldest entry.  The buffer has no file: the ghost disk
   is the empty text.  It takes its name from the first write with a path (ec_write: `if (!ex_path()[0]) bufs[0].path = path`),
   whose tail is then the one for the own path: DSaveWhole / DSaveOwn b e. *)
Definition ebuf_new : ebuf := {| lb := lbuf_saved lbuf_make false; disk := [] |}.

(* ------------------------------------------------------------------------------------------ *)
(* the refusal logic of ec_quit / ec_edit / ec_buffer / ec_exec / ec_make (xwa = xaw = 0) *)

(* bufs_modified(idx, msg): lbuf_modified() of that buffer -- bumps its counter, reports the flag *)
Definition bufs_modified (e : ebuf) : ebuf * bool :=
  ({| lb := fst (lbuf_modified (lb e)); disk := disk e |}, snd (lbuf_modified (lb e))).

(* bufs_switch(idx) on the table pre ++ b :: r (idx = length pre): the buffer being left (slot 0)
   ends its command -- lbuf_modified, since fix 75e4c2f --, slot idx moves to the front, slots
   0..idx-1 move up *)
Definition bumpE (e : ebuf) : ebuf := {| lb := bump (lb e); disk := disk e |}.
Definition switch_to (pre : list ebuf) (b : ebuf) (r : list ebuf) : list ebuf :=
  match pre with
  | [] => bumpE b :: r
  | x :: p => b :: bumpE x :: p ++ r
  end.

(* the loop of ec_quit without 'a' and '!': the first buffer reported modified becomes the
   current one and the command returns without setting xquit *)
Fixpoint quit_scan (pre : list ebuf) (l : list ebuf) : list ebuf * bool :=
  match l with
  | [] => (rev pre, true)
  | b :: r => let (b', m) := bufs_modified b in
              if m then (switch_to (rev pre) b' r, false) else quit_scan (b' :: pre) r
  end.
Definition ec_quit (force : bool) (bufs : list ebuf) : list ebuf * bool :=   (* (table, xquit) *)
  if force then (bufs, true) else quit_scan [] bufs.

(* the guard of ec_edit / ec_buffer / ec_exec / ec_make: the current buffer only; true = refused *)
Definition guard_current (force : bool) (bufs : list ebuf) : list ebuf * bool :=
  if force then (bufs, false)
  else match bufs with
       | [] => ([], false)
       | b :: r => let (b', m) := bufs_modified b in (b' :: r, m)
       end.

(* ec_edit with an EMPTY path argument on a buffer that has a path -- ":e", ":e +cmd" (force = false), ":e!" (force = true):
   the guard first (before the argument is looked at); then nothing is opened and nothing is switched, the function falls through
   to  lbuf_rd(xb, fd, 0, lbuf_len(xb)); lbuf_saved(xb, 0)  = DReload of what the file holds.  Without `!` on a buffer reported
   modified: refused, text and flag kept.  With `!`, or on a clean buffer: the text becomes the file's, ghost disk = text. *)
Definition ec_edit_noarg (force : bool) (file : list N) (bufs : list ebuf) : list ebuf * bool :=
  let (bufs1, refused) := guard_current force bufs in
  if refused then (bufs1, true)
  else match bufs1 with
       | [] => ([], false)
       | b :: r => (run_dop b (DReload file) :: r, false)
       end.

(* ":e %", ":e <own path>" (force = false), ":e! %" (force = true): the guard; then bufs_find(path) = 0 and bufs_switch(0) --
   the command ends for the buffer (a bump) -- and nothing else: no read, the saved point stays where it is *)
Definition ec_edit_own (force : bool) (bufs : list ebuf) : list ebuf * bool :=
  let (bufs1, refused) := guard_current force bufs in
  if refused then (bufs1, true)
  else match bufs1 with
       | [] => ([], false)
       | b :: r => (bumpE b :: r, false)
       end.

(* ------------------------------------------------------------------------------------------ *)
(* ec_write and the buffer's NAME (fix 268c549).  bufs[0].path is "" for the buffer of an editor started without a file name
   (nname = None).  The target of a write is the own path (no argument), a path, or a pipe (argument "!cmd").
     path[0] == '!'  : cmd_pipe; then `if (!ex_path()[0] && path[0] != '!')` does NOT adopt the pipe as a name, and
                       strcmp(ex_path(), "!cmd") != 0: neither lbuf_saved nor lbuf_unsaved nor the mtime -- nothing changes
     no argument     : the own path; for the unnamed buffer lbuf_save("") fails ("write failed"), return 1
     a path          : the unnamed buffer adopts it, and then -- as for a buffer that already has this name -- the own-path
                       tail write_own; any other path: a write elsewhere, nothing changes
   (paths are numbers as in DirtyIoDefs; a FILE whose name starts with `!` cannot be written to by name and is not modelled) *)
Inductive wtarget := WOwn | WPath (p : nat) | WPipe.
Record nbuf := { nb : ebuf; nname : option nat }.
Definition ec_write_named (t : wtarget) (b en : nat) (f : nbuf) : nbuf * bool :=     (* (bufs[0], the command failed) *)
  match t with
  | WPipe => (f, false)
  | WOwn => match nname f with
            | None => (f, true)
            | Some p => ({| nb := write_own (nb f) b en; nname := Some p |}, false)
            end
  | WPath p => match nname f with
               | None => ({| nb := write_own (nb f) b en; nname := Some p |}, false)
               | Some q => if Nat.eqb p q then ({| nb := write_own (nb f) b en; nname := Some q |}, false) else (f, false)
               end
  end.

(* histories with names: the operations that do not involve a file (edits, command boundaries, undo, redo) and writes by target;
   a reload (:e!) needs a file: it is an operation of a buffer that has a name *)
Inductive nop :=
| NEdit (buf : option (list N)) (b e : nat) | NBump | NUndo | NRedo
| NReload (content : list N)
| NWrite (t : wtarget) (b e : nat).
Definition nrun_op (f : nbuf) (o : nop) : nbuf :=
  let lift d := {| nb := run_dop (nb f) d; nname := nname f |} in
  match o with
  | NEdit buf b e => lift (DEdit buf b e)
  | NBump => lift DBump
  | NUndo => lift DUndo
  | NRedo => lift DRedo
  | NReload c => match nname f with Some _ => lift (DReload c) | None => f end
  | NWrite t b e => fst (ec_write_named t b e f)
  end.
Fixpoint nrun (f : nbuf) (ops : list nop) : nbuf :=
  match ops with [] => f | o :: r => nrun (nrun_op f o) r end.
Definition nbuf_new : nbuf := {| nb := ebuf_new; nname := None |}.
Definition nbuf_open (c : list N) (p : nat) : nbuf := {| nb := ebuf_open c; nname := Some p |}.

(* ------------------------------------------------------------------------------------------ *)
(* the table as it is in ex.c: struct buf bufs[NBUFS] (NBUFS generated from ex.c), slot i occupied iff bufs[i].lb != NULL.
   ec_quit: for (i = 0; i < LEN(bufs); i++) if (bufs[i].lb) ...  -- EVERY slot is visited, the empty ones are skipped. *)
Definition NSLOTS : nat := Z.to_nat NBUFS.
Definition table := list (option ebuf).
Definition occupied (t : table) : list ebuf := flat_map (fun s => match s with Some b => [b] | None => [] end) t.
Definition full_table (l : list ebuf) : table := map Some l ++ repeat None (NSLOTS - length l).

(* bufs_switch(idx) on pre ++ Some b :: r, idx = length pre: `if (bufs[0].lb) lbuf_modified(bufs[0].lb)`, then the memmove *)
Definition bumpS (s : option ebuf) : option ebuf := match s with Some x => Some (bumpE x) | None => None end.
Definition switch_tab (pre : table) (b : ebuf) (r : table) : table :=
  match pre with
  | [] => Some (bumpE b) :: r
  | x :: p => Some b :: bumpS x :: p ++ r
  end.
Fixpoint quit_tab (pre : table) (l : table) : table * bool :=
  match l with
  | [] => (rev pre, true)
  | None :: r => quit_tab (None :: pre) r
  | Some b :: r => let (b', m) := bufs_modified b in
                   if m then (switch_tab (rev pre) b' r, false) else quit_tab (Some b' :: pre) r
  end.
Definition ec_quit_tab (force : bool) (t : table) : table * bool :=   (* (bufs[], xquit) *)
  if force then (t, true) else quit_tab [] t.
