(* TrCmp4Chain.v -- C04, composition (part 6): lbuf_edit with the bound of TrCmp4Bound.v, and the property-level corollary with ONE hypothesis about
   an intermediate memory instead of three: the bound on the mark rows (struct and saved), the line count and the capacity in the memory lbuf_opt
   returns (TrUndoOpt.tr_lbuf_opt does not expose the struct block it leaves: lbuf_opt copies row '^' to row '*' and saves the 32 rows in the new
   record).  Everything after that -- the splice of the edit, the undo, the redo -- follows from tr_lbuf_*_bounded_b with conditions on the model. *)
From Coq Require Import List ZArith NArith Bool Lia.
From NV Require Import Bytes GenConsts CLite CLiteProps GenCFuncs CLiteTac CLiteExt TrLbufBase UndoDefs UndoProps TrUndoBase TrUndo TrUndoOpt TrUndoEdit.
From NV Require Import TrLbufMarks TrSplice TrSpliceMarks TrSpliceAll TrSpliceModels TrCmp4Str TrCmp4Rep TrCmp4 TrCmp4Loop TrCmp4Edit TrCmp4Marks TrCmp4Bound.
From NV Require IoDefs IoProps TrLbuf.
Import ListNotations.
Local Open Scope Z_scope.

Section EditBounded.
  Variable ext : nat -> list val -> mem -> res (val * mem).
  Variables (fuelR dR : nat).
  Hypothesis Hext : ext_is_replace ext fuelR dR.
  Variables (d fuel : nat).
  Variable K : Z.
  Hypothesis HK : K <= 2147483647.

  Theorem tr_lbuf_edit_bounded (m : mem) bl (blk : block) bh (hblk : block) lb (bufv : val) buf b e B :
    cp_oracle ext Tc bl -> urep Tc m bl blk bh hblk lb -> bufarg m bl bh bufv buf ->
    (forall bb o, bufv = VPtr bb o -> ~ In bb (log_blocks hblk 0 (length (hist lb)))) ->
    (forall bb o fp, bufv = VPtr bb o -> Tc m (tcells blk) fp (ln lb) -> ~ In bb fp) ->
    (forall bb s o, bufv = VPtr bb o -> str_at m bb s -> Z.of_nat (length s) + 2 <= 2147483647) ->
    (b <= e)%nat -> i31 e -> i31 (length (ln lb) + linecount buf) -> Z.of_nat (hist_sz lb) * 2 <= 2147483647 ->
    (length (hist lb) - hist_u lb < fuel)%nat -> (linecount buf < fuel)%nat -> (28 < fuel)%nat ->
    let b' := Nat.min b (length (ln lb)) in let e' := Nat.min e (length (ln lb)) in
    0 <= B -> size_ok fuelR B buf ->
    (* the bound in the memory lbuf_opt returns *)
    (forall (m1 : mem) (blk1 : block) bh1 (hblk1 : block),
       callx ext cprog fuel (S (S (S (S d)))) F_lbuf_opt [VPtr bl 0; bufv; VInt (Z.of_nat b'); VInt (Z.of_nat (e' - b'))] m = Ok (VUndef, m1) ->
       urep Tc m1 bl blk1 bh1 hblk1 (lbuf_opt lb buf b' (e' - b')) -> bnd B K m1 blk1 hblk1 (lbuf_opt lb buf b' (e' - b'))) ->
    Nat.eqb b' e' && is_none buf = false ->
    exists (m' : mem) (blk' : block) bh' (hblk' : block),
      callx ext cprog fuel (S (S (S (S (S d))))) F_lbuf_edit [VPtr bl 0; bufv; VInt (Z.of_nat b); VInt (Z.of_nat e)] m = Ok (VUndef, m') /\
      urep Tc m' bl blk' bh' hblk' (lbuf_edit lb buf b e) /\ bnd (B + Z.of_nat (linecount buf)) K m' blk' hblk' (lbuf_edit lb buf b e).
  Proof.
    intros HC R Hbuf Hnb Hout Hlen2 Hbe Hie Hin Hsz2 Hf1 Hf2 Hf3 b' e' HB0 Hsize Hobs Ecase.
    pose proof R as [Hb L I Cn Rn Cq Ch Csz Cnn Cu Cz Cl Rg Hh Hl He Ho Ht].
    set (n := length (ln lb)) in *.
    assert (Hbv : bufv = VInt 0 /\ buf = None \/ (exists bb o, bufv = VPtr bb o) /\ exists t, buf = Some t).
    { destruct buf as [t|]; [right|left; auto]. destruct Hbuf as (bb & s & o & -> & _). eauto. }
    assert (HcA : exec (callx ext cprog fuel (S (S (S (S d))))) fuel
               (SIf (EBin OGt I32 (ELocal 2) (ELoad (Some I32) (EPtrAdd 1 (ELocal 0) (EConst 66)))) (SExpr (ESetLocal 2 (ELoad (Some I32) (EPtrAdd 1 (ELocal 0) (EConst 66))))) SSkip)
               (mkst [VPtr bl 0; bufv; VInt (Z.of_nat b); VInt (Z.of_nat e)] m) = ONormal (mkst [VPtr bl 0; bufv; VInt (Z.of_nat b'); VInt (Z.of_nat e)] m)).
    { xstep. xfld Hb Cn. rewrite !(wrap_I32_id (Z.of_nat n)) by (unfold i31 in *; lia). unfold b'. fold n.
      destruct (Z.ltb_spec (Z.of_nat n) (Z.of_nat b)); xstep; [xfld Hb Cn; rewrite !(wrap_I32_id (Z.of_nat n)) by (unfold i31 in *; lia); rewrite Nat.min_r by lia|rewrite Nat.min_l by lia]; reflexivity. }
    assert (HcB : exec (callx ext cprog fuel (S (S (S (S d))))) fuel
               (SIf (EBin OGt I32 (ELocal 3) (ELoad (Some I32) (EPtrAdd 1 (ELocal 0) (EConst 66)))) (SExpr (ESetLocal 3 (ELoad (Some I32) (EPtrAdd 1 (ELocal 0) (EConst 66))))) SSkip)
               (mkst [VPtr bl 0; bufv; VInt (Z.of_nat b'); VInt (Z.of_nat e)] m) = ONormal (mkst [VPtr bl 0; bufv; VInt (Z.of_nat b'); VInt (Z.of_nat e')] m)).
    { xstep. xfld Hb Cn. rewrite !(wrap_I32_id (Z.of_nat n)) by (unfold i31 in *; lia). unfold e'. fold n.
      destruct (Z.ltb_spec (Z.of_nat n) (Z.of_nat e)); xstep; [xfld Hb Cn; rewrite !(wrap_I32_id (Z.of_nat n)) by (unfold i31 in *; lia); rewrite Nat.min_r by lia|rewrite Nat.min_l by lia]; reflexivity. }
    assert (Hb'e' : (b' <= e')%nat /\ (e' <= n)%nat) by (unfold b', e'; fold n; lia). destruct Hb'e' as (Hle & Hen).
    assert (Hedit : lbuf_edit lb buf b e = lbuf_replace (lbuf_opt lb buf b' (e' - b')) buf b' (e' - b')).
    { unfold lbuf_edit. fold n b' e'. rewrite Ecase. reflexivity. }
    assert (Htail : exists (m' : mem) (blk' : block) bh' (hblk' : block),
              exec (callx ext cprog fuel (S (S (S (S d))))) fuel
                (SSeq (SExpr (ECall F_lbuf_opt [ELocal 0; ELocal 1; ELocal 2; EBin OSub I32 (ELocal 3) (ELocal 2)]))
                      (SExpr (ECall X_lbuf_replace [ELocal 0; ELocal 1; ELocal 2; EBin OSub I32 (ELocal 3) (ELocal 2)])))
                (mkst [VPtr bl 0; bufv; VInt (Z.of_nat b'); VInt (Z.of_nat e')] m)
              = ONormal (mkst [VPtr bl 0; bufv; VInt (Z.of_nat b'); VInt (Z.of_nat e')] m') /\
              urep Tc m' bl blk' bh' hblk' (lbuf_replace (lbuf_opt lb buf b' (e' - b')) buf b' (e' - b')) /\
              bnd (B + Z.of_nat (linecount buf)) K m' blk' hblk' (lbuf_replace (lbuf_opt lb buf b' (e' - b')) buf b' (e' - b'))).
    { assert (Hpn : i31 (b' + (e' - b'))) by (unfold i31 in *; lia).
      set (T3 := fun (m0 : mem) (cs : list val) (fp : list nat) (t : text) => Tc m0 cs fp t /\ (forall b0, blk_of bufv = Some b0 -> ~ In b0 fp)).
      assert (TF3 : T_frame T3) by (intros m0 m0' cs fp t (H1 & H2) K0; split; [apply (Tc_frame m0 m0' cs fp t H1 K0)|exact H2]).
      assert (R0 : urep T3 m bl blk bh hblk lb).
      { constructor; try assumption. destruct Ht as (fp & HT & Hfp). exists fp. split; [|exact Hfp]. split; [exact HT|].
        intros bb Ebb. destruct bufv as [| |b0 o0]; cbn [blk_of] in Ebb; try discriminate. injection Ebb as ->. apply (Hout bb o0 fp eq_refl HT). }
      assert (HC2 : cp_oracle ext T3 bl).
      { intros m0 blk0 bh0 hblk0 lb0 b0 e0 R00 He0. apply (HC m0 blk0 bh0 hblk0 lb0 b0 e0); [|exact He0].
        apply (urep_weaken T3 Tc); [|exact R00]. intros ? ? ? ? (X & _). exact X. }
      destruct (tr_lbuf_opt ext d fuel T3 TF3 m bl blk bh hblk lb bufv buf b' (e' - b')%nat HC2 R0 Hbuf Hnb Hpn Hsz2 Hf1 Hf2 Hf3)
        as (m1 & blk1 & bh1 & hblk1 & C1 & R1 & L1 & K1 & _ & _).
      assert (R1c : urep Tc m1 bl blk1 bh1 hblk1 (lbuf_opt lb buf b' (e' - b'))).
      { apply (urep_weaken T3 Tc); [|exact R1]. intros ? ? ? ? (X & _). exact X. }
      pose proof (Hobs m1 blk1 bh1 hblk1 C1 R1c) as HB1.
      destruct (u_tab _ _ _ _ _ _ _ R1) as (fp1 & (HT1 & Hbb1) & Hfp1). cbn [lbuf_opt ln] in HT1.
      assert (Harg : text_arg m1 bl fp1 bufv buf).
      { unfold text_arg. destruct buf as [t|]; cbn [bufarg txt is_null] in *; [|subst bufv; constructor].
        destruct Hbuf as (bb & s & o & -> & Hs & Hn & Hos & Hm & -> & N1 & N2). apply stp_ptr.
        - apply str_pstr. unfold str_at in *. rewrite K1; [exact Hs|apply nth_error_Some; congruence|].
          unfold owned. intros [X|[X|X]]; [congruence|congruence|apply (Hnb bb _ eq_refl X)].
        - exact Hn.
        - exact Hos.
        - apply (Hlen2 bb s _ eq_refl Hs).
        - intros [X|X]; [congruence|]. apply (Hbb1 bb eq_refl X). }
      assert (Hsp : splice_ok (lbuf_opt lb buf b' (e' - b')) buf b' (e' - b')).
      { unfold splice_ok. cbn [lbuf_opt ln]. fold n. split; [lia|exact Hin]. }
      assert (Hstepok : step_ok fuelR bl m1 (length (ln lb)) buf b' (e' - b')).
      { apply (step_ok_of_bnd fuelR bl B K m1 blk1 hblk1 lb (lbuf_opt lb buf b' (e' - b')) fp1); try assumption.
        - apply (u_blk _ _ _ _ _ _ _ R1).
        - apply (u_len _ _ _ _ _ _ _ R1).
        - reflexivity.
        - fold n. lia. }
      destruct Hstepok as ((blk0 & cap' & Hb0 & Hfit) & _ & HfR).
      rewrite (u_blk _ _ _ _ _ _ _ R1) in Hb0. injection Hb0 as <-.
      destruct (replace_sim m1 bl blk1 bh1 hblk1 _ fp1 bufv buf b' (e' - b')%nat cap' dR fuelR R1c HT1 (fun b0 Hb0 => proj1 (Hfp1 b0 Hb0)) Harg Hsp Hfit HfR)
        as (m2 & blk2 & fp2 & C2 & R2 & _ & _ & Lm2 & Fr2 & Ccap2 & Hk2).
      assert (C2x : ext X_lbuf_replace [VPtr bl 0; bufv; VInt (Z.of_nat b'); VInt (Z.of_nat (e' - b'))] m1 = Ok (VUndef, m2)) by (rewrite Hext; exact C2).
      destruct Hsize as (S1 & S2 & S3).
      pose proof (bnd_after_replace ext bl bh1 hblk1 d fuel K m1 m2 blk1 blk2 _ fp1 buf b' (e' - b')%nat cap' B R1c HB0 HB1 (fun b0 Hb0 => proj1 (Hfp1 b0 Hb0)) Hsp Hfit S1 Fr2 Ccap2 Hk2) as HB2.
      exists m2, blk2, bh1, hblk1. split; [|split; [exact R2|exact HB2]].
      clear Hbuf Hnb Hout Hlen2 Harg R0 Hobs.
      destruct Hbv as [(Ev & _)|((bb & o & Ev) & _)]; rewrite Ev in *;
        (xstep; (rewrite chk_I32 by (unfold i31 in *; lia)); xstep; replace (Z.of_nat e' - Z.of_nat b') with (Z.of_nat (e' - b')) by lia;
         rewrite C1; xstep; (rewrite chk_I32 by (unfold i31 in *; lia)); xstep; replace (Z.of_nat e' - Z.of_nat b') with (Z.of_nat (e' - b')) by lia;
         rewrite callx_S, x_lbuf_replace_none, C2x; reflexivity). }
    destruct Htail as (m' & blk' & bh' & hblk' & C & R' & HB'). exists m', blk', bh', hblk'. rewrite Hedit. split; [|split; [exact R'|exact HB']].
    rewrite callx_S. cbn [nth_error cprog F_lbuf_edit cf_lbuf_edit fn_nparams fn_nlocals fn_body length Nat.eqb Nat.sub repeat app].
    rewrite exec_seq, HcA, exec_seq, HcB.
    rewrite exec_seq, exec_if. xcbn.
    apply andb_false_iff in Ecase.
    destruct Hbv as [(-> & ->)|((bb & o & ->) & (t & ->))].
    + destruct Ecase as [Ec|Ec]; [|discriminate]. apply Nat.eqb_neq in Ec.
      destruct (Z.eqb_spec (Z.of_nat b') (Z.of_nat e')); [lia|]. cbn [b2z negb truth bind Z.eqb]. rewrite exec_skip, C. reflexivity.
    + destruct (Z.eqb_spec (Z.of_nat b') (Z.of_nat e')); cbn [b2z negb truth bind Z.eqb]; rewrite exec_skip, C; reflexivity.
  Qed.
End EditBounded.

(* ------------------------------------------------------------------ groups of one record: sizes and the bound left *)
Lemma undo_sizes_one fuelR lb B : one_undo lb ->
  (let lo := nth (hist_u lb - 1) (hist lb) dflt in size_ok fuelR B (del lo)) ->
  undo_sizes fuelR (hist_u lb) (seq_at (hist lb) (hist_u lb - 1)) B lb /\
  undo_bound (hist_u lb) (seq_at (hist lb) (hist_u lb - 1)) B lb = B + Z.of_nat (linecount (del (nth (hist_u lb - 1) (hist lb) dflt))).
Proof.
  intros (Hu & Hone) Hok. destruct (hist_u lb) as [|u] eqn:Eu; [lia|]. cbn [undo_sizes undo_bound]. rewrite Eu.
  change (Nat.ltb 0 (S u)) with true. cbn [andb]. rewrite Z.eqb_refl.
  assert (H1 : hist_u (undo1 lb) = u) by (unfold undo1; rewrite Eu; cbn [lbuf_replace set_ln set_hu hist_u]; lia).
  assert (H2 : hist (undo1 lb) = hist lb) by reflexivity.
  destruct u as [|u]; [split; [split; [exact Hok|exact I]|reflexivity]|]. cbn [undo_sizes undo_bound]. rewrite H1, H2.
  replace (S (S u) - 1)%nat with (S u) by lia.
  change (Nat.ltb 0 (S u)) with true. cbn [andb]. replace (S u - 1)%nat with u by lia.
  destruct Hone as [X|X]; [lia|]. replace (S (S u) - 2)%nat with u in X by lia. replace (S (S u) - 1)%nat with (S u) in X by lia.
  destruct (Z.eqb_spec (seq_at (hist lb) u) (seq_at (hist lb) (S u))); [contradiction|]. split; [split; [exact Hok|exact I]|reflexivity].
Qed.
Lemma redo_sizes_one fuelR lb B : one_redo lb ->
  (let lo := nth (hist_u lb) (hist lb) dflt in size_ok fuelR B (ins lo)) ->
  redo_sizes fuelR (length (hist lb) - hist_u lb) (seq_at (hist lb) (hist_u lb)) B lb.
Proof.
  intros (Hu & Hone) Hok. destruct (length (hist lb) - hist_u lb)%nat as [|k] eqn:Ek; [lia|]. cbn [redo_sizes].
  destruct (Nat.ltb_spec (hist_u lb) (length (hist lb))); [|lia]. cbn [andb]. rewrite Z.eqb_refl. split; [exact Hok|].
  destruct k as [|k]; [exact I|]. cbn [redo_sizes].
  assert (H1 : hist_u (redo1 lb) = S (hist_u lb)) by reflexivity.
  assert (H2 : hist (redo1 lb) = hist lb) by reflexivity.
  rewrite H1, H2.
  destruct (Nat.ltb_spec (S (hist_u lb)) (length (hist lb))); [|exact I]. cbn [andb].
  destruct Hone as [X|X]; [lia|].
  destruct (Z.eqb_spec (seq_at (hist lb) (S (hist_u lb))) (seq_at (hist lb) (hist_u lb))); [contradiction|exact I].
Qed.

Section ChainBounded.
  Variable ext : nat -> list val -> mem -> res (val * mem).
  Variables (fuelR dR : nat).
  Hypothesis Hext : ext_is_replace ext fuelR dR.
  Variables (d fuel : nat).
  Variable K : Z.
  Hypothesis HK : K <= 2147483647.

  Theorem tr_undo_inverts_edit_bounded (m : mem) bl (blk : block) bh (hblk : block) lb (bufv : val) buf b e B :
    cp_oracle ext Tc bl -> urep Tc m bl blk bh hblk lb -> bufarg m bl bh bufv buf ->
    (forall bb o, bufv = VPtr bb o -> ~ In bb (log_blocks hblk 0 (length (hist lb)))) ->
    (forall bb o fp, bufv = VPtr bb o -> Tc m (tcells blk) fp (ln lb) -> ~ In bb fp) ->
    (forall bb s o, bufv = VPtr bb o -> str_at m bb s -> Z.of_nat (length s) + 2 <= 2147483647) ->
    (b <= e)%nat -> i31 e -> i31 (length (ln lb) + linecount buf) -> Z.of_nat (hist_sz lb) * 2 <= 2147483647 ->
    (length (hist lb) + 35 < fuel)%nat -> (linecount buf < fuel)%nat ->
    let b' := Nat.min b (length (ln lb)) in let e' := Nat.min e (length (ln lb)) in
    0 <= B ->
    (* the ONE hypothesis about an intermediate memory: the bound in the memory lbuf_opt returns *)
    (forall (m1 : mem) (blk1 : block) bh1 (hblk1 : block),
       callx ext cprog fuel (S (S (S (S d)))) F_lbuf_opt [VPtr bl 0; bufv; VInt (Z.of_nat b'); VInt (Z.of_nat (e' - b'))] m = Ok (VUndef, m1) ->
       urep Tc m1 bl blk1 bh1 hblk1 (lbuf_opt lb buf b' (e' - b')) -> bnd B K m1 blk1 hblk1 (lbuf_opt lb buf b' (e' - b'))) ->
    Nat.eqb b' e' && is_none buf = false -> lone_edit lb -> Forall line_wf (ln lb) ->
    let lb1 := lbuf_edit lb buf b e in let lb2 := undo1 lb1 in
    (* sizes, on the model: the three splices *)
    size_ok fuelR B buf ->
    (let lo := nth (hist_u lb1 - 1) (hist lb1) dflt in size_ok fuelR (B + Z.of_nat (linecount buf)) (del lo)) ->
    (let lo1 := nth (hist_u lb1 - 1) (hist lb1) dflt in let lo := nth (hist_u lb2) (hist lb2) dflt in
     size_ok fuelR (B + Z.of_nat (linecount buf) + Z.of_nat (linecount (del lo1))) (ins lo)) ->
    exists (m1 m2 m3 : mem) (blk2 blk3 : block) bh' (hblk' : block),
      callx ext cprog fuel (S (S (S (S (S d))))) F_lbuf_edit [VPtr bl 0; bufv; VInt (Z.of_nat b); VInt (Z.of_nat e)] m = Ok (VUndef, m1) /\
      callx ext cprog fuel (S (S (S (S d)))) F_lbuf_undo [VPtr bl 0] m1 = Ok (VInt 0, m2) /\
      callx ext cprog fuel (S (S (S (S d)))) F_lbuf_redo [VPtr bl 0] m2 = Ok (VInt 0, m3) /\
      urep Tc m2 bl blk2 bh' hblk' lb2 /\ ln lb2 = ln lb /\
      urep Tc m3 bl blk3 bh' hblk' (redo1 lb2) /\ ln (redo1 lb2) = edit_text (ln lb) buf b e.
  Proof.
    intros HC R Hbuf Hnb Hout Hlen2 Hbe Hie Hin Hsz2 Hf1 Hf2 b' e' HB0 Hobs Hcase Hlone Hwf lb1 lb2 Sz0 Sz1 Sz2.
    pose proof (u_rng _ _ _ _ _ _ _ R) as (_ & (Hu & _) & _).
    destruct (tr_lbuf_edit_bounded ext fuelR dR Hext d fuel K HK m bl blk bh hblk lb bufv buf b e B HC R Hbuf Hnb Hout Hlen2 Hbe Hie Hin Hsz2
                ltac:(lia) Hf2 ltac:(lia) HB0 Sz0 Hobs Hcase) as (m1 & blk1 & bh1 & hblk1 & C1 & R1 & HB1). fold lb1 in R1, HB1.
    destruct (edit_then_undo_redo lb buf b e Hwf Hu Hlone Hbe Hcase) as (lb2' & lb3 & Hun & Hln2 & Hre & Hln3 & Hone & Honer & _ & _ & _ & Hu1 & E2 & E3).
    fold lb1 in Hun, Hln3, Hone, Hu1, E2. subst lb2'. fold lb2 in Hun, Hln2, Hre, Honer, E3. subst lb3.
    destruct (edit_undo_redo_ok lb buf b e Hwf Hu Hlone Hbe Hcase Hin) as [O1 O2]. fold lb1 in O1, O2. fold lb2 in O2.
    destruct (undo_sizes_one fuelR lb1 (B + Z.of_nat (linecount buf)) Hone Sz1) as (Hs1 & Eb1).
    assert (HB0' : 0 <= B + Z.of_nat (linecount buf)) by lia.
    pose proof (tr_lbuf_undo_bounded_b ext fuelR dR Hext bl bh1 hblk1 d fuel K HK m1 blk1 lb1 _ R1 O1 HB0' HB1 Hs1 ltac:(rewrite Hu1; lia)) as U.
    rewrite Hun in U. destruct U as (m2 & blk2 & C2 & R2 & HB2). rewrite Eb1 in HB2.
    assert (HB0'' : 0 <= B + Z.of_nat (linecount buf) + Z.of_nat (linecount (del (nth (hist_u lb1 - 1) (hist lb1) dflt)))) by lia.
    pose proof (tr_lbuf_redo_bounded_b ext fuelR dR Hext bl bh1 hblk1 d fuel K HK m2 blk2 lb2 _ R2 O2 HB0'' HB2 (redo_sizes_one fuelR lb2 _ Honer Sz2)) as V.
    rewrite Hre in V. destruct V as (m3 & blk3 & C3 & R3 & _).
    { destruct Honer as (X & _). pose proof (u_rng _ _ _ _ _ _ _ R2) as (_ & (Y & Z) & _).
      assert (length (hist lb2) = S (hist_u lb)) by (change (hist lb2) with (hist lb1); unfold lb1, lbuf_edit; fold b' e'; rewrite Hcase; cbn [lbuf_replace set_ln lbuf_opt hist]; rewrite app_length, firstn_length; cbn [length]; lia).
      lia. }
    exists m1, m2, m3, blk2, blk3, bh1, hblk1. repeat (split; [assumption|]).
    rewrite Hln3. unfold lb1, lbuf_edit, edit_text. fold b' e'. rewrite Hcase. reflexivity.
  Qed.
End ChainBounded.
