(* TrCmp4Loop.v -- C04, the two halves composed (part 2): lbuf_undo and lbuf_redo of /repo/lbuf.c on the translated C text with
   lbuf_replace NO LONGER AN ORACLE: for every call semantics `ext` whose answer for X_lbuf_replace IS the run of the translated
   lbuf_replace (`ext_is_replace`: ext X_lbuf_replace args m = callf cprog fuelR _ F_lbuf_replace args m), the translated
   lbuf_undo / lbuf_redo leave a memory that represents UndoDefs.lbuf_undo / lbuf_redo of the represented state -- the log AND the
   text (urep Tc: TrCmp4.v).  One iteration (undo_step_full / redo_step_full) is TrUndo.undo_step / redo_step with
   TrCmp4.replace_sim for the call; the loops are TrUndo's with that step.
   Side conditions: TrUndo's undo_ok / redo_ok (ranges inside the table, line counts inside int) and, at the start of EVERY
   iteration, on the memory the run has reached (undo_run_fits / redo_run_fits): the mark rows fit (row_fits), the capacity the
   growth loop reaches fits an int, the record's text is shorter than 2 GB, the fuel of the splice.  They are stated on the
   memory of the run because TrUndo.v's mark helpers (lbuf_loadpos, lbuf_loadmark) are proved to leave integers in the mark
   cells (mk_eq) but not which ones; for a group of ONE record (a command that made one lbuf_edit call) they are conditions on
   the memory the call starts from only (undo_run_fits_one / redo_run_fits_one). *)
From Coq Require Import List ZArith NArith Bool Lia.
From NV Require Import Bytes GenConsts CLite CLiteProps GenCFuncs CLiteTac CLiteExt TrLbufBase UndoDefs TrUndoBase TrUndo.
From NV Require Import TrLbufMarks TrSplice TrSpliceMarks TrSpliceAll TrSpliceModels TrCmp4Str TrCmp4Rep TrCmp4.
From NV Require IoDefs TrLbuf.
Import ListNotations.
Local Open Scope Z_scope.

Definition ext_is_replace (ext : nat -> list val -> mem -> res (val * mem)) (fuelR dR : nat) : Prop :=
  forall args m, ext X_lbuf_replace args m = callf cprog fuelR (S (S (S dR))) F_lbuf_replace args m.

(* the side conditions do not read the cell hist_u *)
Lemma fits_upd (blk : block) j v n s p nd cap' : length blk = LBUF_CELLS -> (68 <= j)%nat -> fits blk n s p nd cap' -> fits (upd blk j v) n s p nd cap'.
Proof.
  intros L Hj (H1 & (cap & H2 & H3) & H4). split; [|split; [exists cap; split; [|exact H3]|exact H4]].
  - intros k Hk. destruct (H1 k Hk) as (z & Hz & Hr). exists z. split; [|exact Hr].
    destruct (Nat.lt_ge_cases j (length blk)); [rewrite nth_error_upd_other by lia; exact Hz|].
    unfold upd. rewrite firstn_all2, skipn_all2 by lia. rewrite nth_error_app1 by (rewrite L; unfold LBUF_CELLS; lia). exact Hz.
  - destruct (Nat.lt_ge_cases j (length blk)); [rewrite nth_error_upd_other by (unfold L_ln_sz; lia); exact H2|].
    unfold upd. rewrite firstn_all2, skipn_all2 by lia. rewrite nth_error_app1 by (rewrite L; unfold LBUF_CELLS, L_ln_sz; lia). exact H2.
Qed.
Lemma ptr_in_log hblk u n k : (u < n)%nat -> (k = 0 \/ k = 1)%nat -> forall b, In b (ptr_block (hc hblk (9 * u + k))) -> In b (log_blocks hblk 0 n).
Proof.
  intros Hu Hk b Hb. apply (in_log_blocks hblk u n b Hu). rewrite ent_blocks_eq. destruct Hk as [->| ->].
  - rewrite Nat.add_0_r in Hb. apply in_or_app. left. exact Hb.
  - apply in_or_app. right. apply in_or_app. left. exact Hb.
Qed.

Section Full.
  Variable ext : nat -> list val -> mem -> res (val * mem).
  Variables (fuelR dR : nat).
  Hypothesis Hext : ext_is_replace ext fuelR dR.
  Variables (bl bh : nat) (hblk : block).
  Variables (d fuel : nat).
  Let cx := callx ext cprog fuel (S (S (S d))).

  (* what one splice needs of the memory it starts from *)
  Definition step_ok (m : mem) (n : nat) (s : option (list N)) (p nd : nat) : Prop :=
    (exists (blk : block) cap', nth_error m bl = Some blk /\ fits blk n s p nd cap') /\
    (forall t, s = Some t -> Z.of_nat (length t) + 2 <= 2147483647) /\
    (splice_fuel n (linecount s) nd <= fuelR)%nat.

  (* ---------------------------------------------------------------- one iteration of lbuf_undo *)
  Lemma undo_step_full (m : mem) (blk : block) lb (q : Z) (l2 l3 : val) fuel' : urep Tc m bl blk bh hblk lb -> (0 < hist_u lb)%nat -> (32 < fuel')%nat ->
    let u := (hist_u lb - 1)%nat in let lo := nth u (hist lb) dflt in
    splice_ok (set_hu lb u) (del lo) (pos lo) (n_ins lo) -> step_ok m (length (ln lb)) (del lo) (pos lo) (n_ins lo) ->
    exists (m3 : mem) (blk3 : block), exec cx fuel' undo_body (mkst [VPtr bl 0; VInt q; l2; l3] m)
                      = ONormal (mkst [VPtr bl 0; VInt q; VInt 32; VPtr bh (Z.of_nat (9 * u))] m3) /\
                    urep Tc m3 bl blk3 bh hblk (undo1 lb).
  Proof.
    intros R Hu Hf u lo Hsp ((blk0 & cap' & Hb0 & Hfit) & Hlen & HfR).
    destruct (undo_step ext Tc Tc_frame bl bh hblk d fuel m blk lb q l2 l3 fuel' R Hu Hf) as (R1 & _ & Hstep). fold u lo in R1, Hstep.
    rewrite (u_blk _ _ _ _ _ _ _ R) in Hb0. injection Hb0 as <-.
    set (blk1 := upd blk L_hist_u (VInt (Z.of_nat u))) in *. set (m1 := upd m bl blk1) in *.
    assert (Hui : (u < length (hist lb))%nat) by (pose proof (u_rng _ _ _ _ _ _ _ R); unfold u; lia).
    pose proof (u_ents _ _ _ _ _ _ _ R1 u Hui) as E1. cbn [set_hu hist] in E1. fold lo in E1.
    destruct (u_tab _ _ _ _ _ _ _ R1) as (fp & HT & Hfp).
    assert (Harg : text_arg m1 bl fp (hc hblk (9 * u + 1)) (del lo)).
    { apply (sown_text_arg Tc m1 bl blk1 bh hblk (set_hu lb u) fp _ _ R1 (fun b Hb => proj1 (Hfp b Hb)) (er_del _ _ _ _ E1)); [|exact Hlen].
      cbn [set_hu hist]. apply (ptr_in_log hblk u _ 1%nat Hui). right. reflexivity. }
    destruct (replace_sim m1 bl blk1 bh hblk (set_hu lb u) fp _ (del lo) (pos lo) (n_ins lo) cap' dR fuelR R1 HT (fun b Hb => proj1 (Hfp b Hb)) Harg Hsp
                (fits_upd blk L_hist_u _ _ _ _ _ _ (u_len _ _ _ _ _ _ _ R) ltac:(unfold L_hist_u; lia) Hfit) HfR)
      as (m2 & blk2 & fp' & C & R2 & _).
    assert (Hx : ext X_lbuf_replace [VPtr bl 0; hc hblk (9 * u + 1); VInt (Z.of_nat (pos lo)); VInt (Z.of_nat (n_ins lo))] m1 = Ok (VUndef, m2))
      by (rewrite Hext; exact C).
    destruct (Hstep VUndef m2 blk2 _ Hx R2 Hui) as (m3 & blk3 & C3 & R3).
    exists m3, blk3. split; [exact C3|exact R3].
  Qed.

  (* the side conditions of the whole group, on the memory the run has reached at the start of each iteration *)
  Fixpoint undo_run_fits (k : nat) (q : Z) (m : mem) (lb : lbuf) : Prop :=
    match k with
    | O => True
    | S f => if Nat.ltb 0 (hist_u lb) && Z.eqb (seq_at (hist lb) (hist_u lb - 1)) q
             then let lo := nth (hist_u lb - 1) (hist lb) dflt in
                  step_ok m (length (ln lb)) (del lo) (pos lo) (n_ins lo) /\
                  forall fuel' l2 l3 st3, exec cx fuel' undo_body (mkst [VPtr bl 0; VInt q; l2; l3] m) = ONormal st3 ->
                                          undo_run_fits f q (memm st3) (undo1 lb)
             else True
    end.
  Definition undo_run_ok (m : mem) (lb : lbuf) : Prop := undo_run_fits (hist_u lb) (seq_at (hist lb) (hist_u lb - 1)) m lb.

  Lemma undo_loop_full q : forall k (m : mem) (blk : block) lb (l2 l3 : val) fuel',
    urep Tc m bl blk bh hblk lb -> undo_fits k q lb -> undo_run_fits k q m lb -> (hist_u lb <= k)%nat -> (k + 33 < fuel')%nat ->
    exists (m' : mem) (blk' : block) (l2' l3' : val),
      exec cx fuel' undo_while (mkst [VPtr bl 0; VInt q; l2; l3] m) = ONormal (mkst [VPtr bl 0; VInt q; l2'; l3'] m') /\
      urep Tc m' bl blk' bh hblk (undo_loop k q lb).
  Proof.
    induction k as [|k IH]; intros m blk lb l2 l3 fuel' R Hfit Hrun Hk Hf; (destruct fuel' as [|fuel']; [lia|]);
      pose proof R as [Hb L I Cn Rn Cq Ch Csz Cnn Cu Cz Cl Rg Hh Hl He Ho Ht]; destruct Rg as (Rq & (Ru & Rs) & Rz & Rsz);
      rewrite undo_while_eq, exec_while, <- undo_while_eq; set (W := undo_while); unfold undo_cond, undo_while; cbn [fn_body cf_lbuf_undo];
      xstep; xfld Hb Cu; rewrite wrap_I32_id by (unfold i31 in *; lia).
    - assert (hist_u lb = 0)%nat by lia. rewrite H. xstep. exists m, blk, l2, l3. split; [reflexivity|exact R].
    - cbn [undo_loop]. cbn [undo_fits] in Hfit. cbn [undo_run_fits] in Hrun. destruct (hist_u lb) as [|u] eqn:Eu.
      + xstep. exists m, blk, l2, l3. split; [reflexivity|exact R].
      + replace (Z.of_nat (S u) =? 0) with false by (symmetry; apply Z.eqb_neq; lia). xstep.
        xfld Hb Ch. xfld Hb Cu. rewrite ?Eu. rewrite wrap_I32_id by (unfold i31 in *; lia). rewrite chk_I32 by (unfold i31 in *; lia). xstep.
        replace (S u - 1)%nat with u in * by lia.
        assert (Hui : (u < length (hist lb))%nat) by lia.
        pose proof (He u Hui) as E. destruct E as [_ _ _ _ _ _ Es _ (_ & _ & _ & Rsq)].
        rewrite (hc_load m bh hblk (9 * u + 6) _ Hh) by (try rewrite Hl; lia). rewrite Es. xstep. rewrite (wrap_I32_id _ Rsq).
        change (Nat.ltb 0 (S u)) with true in *. cbn [andb] in *. unfold seq_at in *.
        destruct (Z.eqb_spec (seq (nth u (hist lb) dflt)) q) as [Eq|Nq]; xstep.
        2:{ exists m, blk, l2, l3. split; [reflexivity|exact R]. }
        destruct Hfit as [Hsp Hfit]. destruct Hrun as [Hok Hrun].
        destruct (undo_step_full m blk lb q l2 l3 (S fuel') R ltac:(lia) ltac:(lia)) as (m3 & blk3 & C3 & R3);
          [rewrite Eu; replace (S u - 1)%nat with u by lia; exact Hsp|rewrite Eu; replace (S u - 1)%nat with u by lia; exact Hok|].
        rewrite Eu in C3. replace (S u - 1)%nat with u in C3 by lia.
        rewrite C3.
        assert (Hu1 : undo1 lb = lbuf_replace (set_hu lb u) (del (nth u (hist lb) dflt)) (pos (nth u (hist lb) dflt)) (n_ins (nth u (hist lb) dflt)))
          by (unfold undo1; rewrite Eu; replace (S u - 1)%nat with u by lia; reflexivity).
        destruct (IH m3 blk3 (undo1 lb) (VInt 32) (VPtr bh (Z.of_nat (9 * u))) fuel' R3 Hfit (Hrun _ _ _ _ C3)) as (m' & blk' & l2' & l3' & C' & R'); try lia.
        { rewrite Hu1. cbn [lbuf_replace set_ln set_hu hist_u]. lia. }
        subst W. rewrite C'.
        exists m', blk', l2', l3'. split; [reflexivity|exact R'].
  Qed.

  Theorem tr_lbuf_undo_full (m : mem) (blk : block) lb : urep Tc m bl blk bh hblk lb -> undo_ok lb -> undo_run_ok m lb -> (hist_u lb + 33 < fuel)%nat ->
    match UndoDefs.lbuf_undo lb with
    | None => callx ext cprog fuel (S (S (S (S d)))) F_lbuf_undo [VPtr bl 0] m = Ok (VInt 1, m)
    | Some lb' => exists (m' : mem) (blk' : block),
                    callx ext cprog fuel (S (S (S (S d)))) F_lbuf_undo [VPtr bl 0] m = Ok (VInt 0, m') /\ urep Tc m' bl blk' bh hblk lb'
    end.
  Proof.
    intros R Hok Hrun Hf. pose proof R as [Hb L I Cn Rn Cq Ch Csz Cnn Cu Cz Cl Rg Hh Hl He Ho Ht]. destruct Rg as (Rq & (Ru & Rs) & Rz & Rsz).
    unfold UndoDefs.lbuf_undo. destruct (hist_u lb) as [|u] eqn:Eu.
    - cbn [Nat.eqb]. rewrite callx_S. cbn [nth_error cprog F_lbuf_undo cf_lbuf_undo fn_nparams fn_nlocals fn_body length Nat.eqb Nat.sub repeat app].
      xstep. xfld Hb Cu. rewrite ?Eu. change (wrap I32 (Z.of_nat 0)) with 0. xstep. reflexivity.
    - cbn [Nat.eqb]. replace (S u - 1)%nat with u in * by lia.
      assert (Hui : (u < length (hist lb))%nat) by lia.
      pose proof (He u Hui) as E. destruct E as [_ _ _ _ _ _ Es _ (_ & _ & _ & Rsq)].
      unfold undo_ok in Hok. unfold undo_run_ok in Hrun. rewrite Eu in Hok, Hrun. replace (S u - 1)%nat with u in * by lia.
      destruct (undo_loop_full (seq_at (hist lb) u) (S u) m blk lb VUndef VUndef fuel R Hok Hrun ltac:(lia) ltac:(lia)) as (m' & blk' & l2' & l3' & C & R').
      exists m', blk'. split; [|exact R'].
      rewrite callx_S. cbn [nth_error cprog F_lbuf_undo cf_lbuf_undo fn_nparams fn_nlocals fn_body length Nat.eqb Nat.sub repeat app].
      xstep. xfld Hb Cu. rewrite ?Eu. rewrite wrap_I32_id by (unfold i31 in *; lia).
      replace (Z.of_nat (S u) =? 0) with false by (symmetry; apply Z.eqb_neq; lia). cbn [negb]. xstep.
      xfld Hb Ch. xfld Hb Cu. rewrite ?Eu. rewrite wrap_I32_id by (unfold i31 in *; lia). rewrite chk_I32 by (unfold i31 in *; lia). xstep.
      replace (0 + 9 * (Z.of_nat (S u) - 1) + 1 * 6) with (Z.of_nat (9 * u + 6)) by lia.
      rewrite (hc_load m bh hblk (9 * u + 6) _ Hh) by (try rewrite Hl; lia). rewrite Es. xstep. rewrite (wrap_I32_id _ Rsq).
      unfold seq_at in C. fold cx.
      match goal with |- context [exec cx fuel (SWhile ?c ?b) ?st] => change (exec cx fuel (SWhile c b) st) with (exec cx fuel undo_while st) end.
      rewrite C. xstep. reflexivity.
  Qed.

  (* a group of one record: the conditions are about the memory the call starts from *)
  Definition one_undo (lb : lbuf) : Prop :=
    (0 < hist_u lb)%nat /\ (hist_u lb = 1%nat \/ seq_at (hist lb) (hist_u lb - 2) <> seq_at (hist lb) (hist_u lb - 1)).
  Lemma undo_run_fits_one (m : mem) lb : one_undo lb ->
    (let lo := nth (hist_u lb - 1) (hist lb) dflt in step_ok m (length (ln lb)) (del lo) (pos lo) (n_ins lo)) -> undo_run_ok m lb.
  Proof.
    intros (Hu & Hone) Hok. unfold undo_run_ok. destruct (hist_u lb) as [|u] eqn:Eu; [lia|]. cbn [undo_run_fits]. rewrite Eu.
    change (Nat.ltb 0 (S u)) with true. cbn [andb]. rewrite Z.eqb_refl. split; [exact Hok|].
    intros fuel' l2 l3 st3 _. destruct u as [|u]; [exact I|]. cbn [undo_run_fits].
    assert (H1 : hist_u (undo1 lb) = S u) by (unfold undo1; rewrite Eu; cbn [lbuf_replace set_ln set_hu hist_u]; lia).
    assert (H2 : hist (undo1 lb) = hist lb) by reflexivity.
    rewrite H1, H2. replace (S (S u) - 1)%nat with (S u) by lia.
    change (Nat.ltb 0 (S u)) with true. cbn [andb]. replace (S u - 1)%nat with u by lia.
    destruct Hone as [X|X]; [lia|]. replace (S (S u) - 2)%nat with u in X by lia. replace (S (S u) - 1)%nat with (S u) in X by lia.
    destruct (Z.eqb_spec (seq_at (hist lb) u) (seq_at (hist lb) (S u))); [contradiction|exact I].
  Qed.

  (* ---------------------------------------------------------------- lbuf_redo *)
  Lemma redo_step_full (m : mem) (blk : block) lb (q : Z) (l2 : val) fuel' : urep Tc m bl blk bh hblk lb -> (hist_u lb < length (hist lb))%nat ->
    let u := hist_u lb in let lo := nth u (hist lb) dflt in
    splice_ok (set_hu lb (S u)) (ins lo) (pos lo) (n_del lo) -> step_ok m (length (ln lb)) (ins lo) (pos lo) (n_del lo) ->
    exists (m3 : mem) (blk3 : block), exec cx fuel' redo_body (mkst [VPtr bl 0; VInt q; l2] m)
                      = ONormal (mkst [VPtr bl 0; VInt q; VPtr bh (Z.of_nat (9 * u))] m3) /\
                    urep Tc m3 bl blk3 bh hblk (redo1 lb).
  Proof.
    intros R Hu u lo Hsp ((blk0 & cap' & Hb0 & Hfit) & Hlen & HfR).
    destruct (redo_step ext Tc Tc_frame bl bh hblk d fuel m blk lb q l2 fuel' R Hu) as (R1 & _ & Hstep). fold u lo in R1, Hstep.
    rewrite (u_blk _ _ _ _ _ _ _ R) in Hb0. injection Hb0 as <-.
    set (blk1 := upd blk L_hist_u (VInt (Z.of_nat (S u)))) in *. set (m1 := upd m bl blk1) in *.
    assert (Hui : (u < length (hist lb))%nat) by exact Hu.
    pose proof (u_ents _ _ _ _ _ _ _ R1 u Hui) as E1. cbn [set_hu hist] in E1. fold lo in E1.
    destruct (u_tab _ _ _ _ _ _ _ R1) as (fp & HT & Hfp).
    assert (Harg : text_arg m1 bl fp (hc hblk (9 * u)) (ins lo)).
    { apply (sown_text_arg Tc m1 bl blk1 bh hblk (set_hu lb (S u)) fp _ _ R1 (fun b Hb => proj1 (Hfp b Hb)) (er_ins _ _ _ _ E1)); [|exact Hlen].
      cbn [set_hu hist]. intros b Hb. apply (ptr_in_log hblk u _ 0%nat Hui ltac:(left; reflexivity)). rewrite Nat.add_0_r. exact Hb. }
    destruct (replace_sim m1 bl blk1 bh hblk (set_hu lb (S u)) fp _ (ins lo) (pos lo) (n_del lo) cap' dR fuelR R1 HT (fun b Hb => proj1 (Hfp b Hb)) Harg Hsp
                (fits_upd blk L_hist_u _ _ _ _ _ _ (u_len _ _ _ _ _ _ _ R) ltac:(unfold L_hist_u; lia) Hfit) HfR)
      as (m2 & blk2 & fp' & C & R2 & _).
    assert (Hx : ext X_lbuf_replace [VPtr bl 0; hc hblk (9 * u); VInt (Z.of_nat (pos lo)); VInt (Z.of_nat (n_del lo))] m1 = Ok (VUndef, m2))
      by (rewrite Hext; exact C).
    destruct (Hstep VUndef m2 blk2 _ Hx R2 Hui) as (m3 & blk3 & C3 & R3).
    exists m3, blk3. split; [exact C3|exact R3].
  Qed.

  Fixpoint redo_run_fits (k : nat) (q : Z) (m : mem) (lb : lbuf) : Prop :=
    match k with
    | O => True
    | S f => if Nat.ltb (hist_u lb) (length (hist lb)) && Z.eqb (seq_at (hist lb) (hist_u lb)) q
             then let lo := nth (hist_u lb) (hist lb) dflt in
                  step_ok m (length (ln lb)) (ins lo) (pos lo) (n_del lo) /\
                  forall fuel' l2 st3, exec cx fuel' redo_body (mkst [VPtr bl 0; VInt q; l2] m) = ONormal st3 ->
                                       redo_run_fits f q (memm st3) (redo1 lb)
             else True
    end.
  Definition redo_run_ok (m : mem) (lb : lbuf) : Prop := redo_run_fits (length (hist lb) - hist_u lb) (seq_at (hist lb) (hist_u lb)) m lb.

  Lemma redo_loop_full q : forall k (m : mem) (blk : block) lb (l2 : val) fuel',
    urep Tc m bl blk bh hblk lb -> redo_fits k q lb -> redo_run_fits k q m lb -> (length (hist lb) - hist_u lb <= k)%nat -> (k < fuel')%nat ->
    exists (m' : mem) (blk' : block) (l2' : val),
      exec cx fuel' redo_while (mkst [VPtr bl 0; VInt q; l2] m) = ONormal (mkst [VPtr bl 0; VInt q; l2'] m') /\
      urep Tc m' bl blk' bh hblk (redo_loop k q lb).
  Proof.
    induction k as [|k IH]; intros m blk lb l2 fuel' R Hfit Hrun Hk Hf; (destruct fuel' as [|fuel']; [lia|]);
      pose proof R as [Hb L I Cn Rn Cq Ch Csz Cnn Cu Cz Cl Rg Hh Hl He Ho Ht]; destruct Rg as (Rq & (Ru & Rs) & Rz & Rsz);
      rewrite redo_while_eq, exec_while, <- redo_while_eq; set (W := redo_while); unfold redo_cond, redo_while; cbn [fn_body cf_lbuf_redo];
      xstep; xfld Hb Cu; xfld Hb Cnn; rewrite !wrap_I32_id by (unfold i31 in *; lia).
    - destruct (Z.ltb_spec (Z.of_nat (hist_u lb)) (Z.of_nat (length (hist lb)))); [lia|]. xstep.
      exists m, blk, l2. split; [reflexivity|exact R].
    - cbn [redo_loop]. cbn [redo_fits] in Hfit. cbn [redo_run_fits] in Hrun.
      destruct (Nat.ltb_spec (hist_u lb) (length (hist lb))) as [Hlt|Hge]; cbn [andb] in *.
      2:{ destruct (Z.ltb_spec (Z.of_nat (hist_u lb)) (Z.of_nat (length (hist lb)))); [lia|]. xstep.
          exists m, blk, l2. split; [reflexivity|exact R]. }
      destruct (Z.ltb_spec (Z.of_nat (hist_u lb)) (Z.of_nat (length (hist lb)))); [|lia]. xstep.
      xfld Hb Ch. xfld Hb Cu. rewrite wrap_I32_id by (unfold i31 in *; lia). xstep.
      set (u := hist_u lb) in *.
      pose proof (He u Hlt) as E. destruct E as [_ _ _ _ _ _ Es _ (_ & _ & _ & Rsq)].
      replace (0 + 9 * Z.of_nat u + 1 * 6) with (Z.of_nat (9 * u + 6)) by lia.
      rewrite (hc_load m bh hblk (9 * u + 6) _ Hh) by (try rewrite Hl; lia). rewrite Es. xstep. rewrite (wrap_I32_id _ Rsq).
      unfold seq_at in *.
      destruct (Z.eqb_spec (seq (nth u (hist lb) dflt)) q) as [Eq|Nq]; xstep.
      2:{ exists m, blk, l2. split; [reflexivity|exact R]. }
      destruct Hfit as [Hsp Hfit]. destruct Hrun as [Hok Hrun].
      destruct (redo_step_full m blk lb q l2 (S fuel') R Hlt Hsp Hok) as (m3 & blk3 & C3 & R3). fold u in C3.
      rewrite C3.
      assert (Hu1 : redo1 lb = lbuf_replace (set_hu lb (S u)) (ins (nth u (hist lb) dflt)) (pos (nth u (hist lb) dflt)) (n_del (nth u (hist lb) dflt)))
        by reflexivity.
      destruct (IH m3 blk3 (redo1 lb) (VPtr bh (Z.of_nat (9 * u))) fuel' R3 Hfit (Hrun _ _ _ C3)) as (m' & blk' & l2' & C' & R'); try lia.
      { rewrite Hu1. cbn [lbuf_replace set_ln set_hu hist_u hist]. lia. }
      subst W. rewrite C'. exists m', blk', l2'. split; [reflexivity|exact R'].
  Qed.

  Theorem tr_lbuf_redo_full (m : mem) (blk : block) lb : urep Tc m bl blk bh hblk lb -> redo_ok lb -> redo_run_ok m lb -> (length (hist lb) - hist_u lb < fuel)%nat ->
    match UndoDefs.lbuf_redo lb with
    | None => callx ext cprog fuel (S (S (S (S d)))) F_lbuf_redo [VPtr bl 0] m = Ok (VInt 1, m)
    | Some lb' => exists (m' : mem) (blk' : block),
                    callx ext cprog fuel (S (S (S (S d)))) F_lbuf_redo [VPtr bl 0] m = Ok (VInt 0, m') /\ urep Tc m' bl blk' bh hblk lb'
    end.
  Proof.
    intros R Hok Hrun Hf. pose proof R as [Hb L I Cn Rn Cq Ch Csz Cnn Cu Cz Cl Rg Hh Hl He Ho Ht]. destruct Rg as (Rq & (Ru & Rs) & Rz & Rsz).
    unfold UndoDefs.lbuf_redo. destruct (Nat.eqb_spec (hist_u lb) (length (hist lb))) as [Eu|Nu].
    - rewrite callx_S. cbn [nth_error cprog F_lbuf_redo cf_lbuf_redo fn_nparams fn_nlocals fn_body length Nat.eqb Nat.sub repeat app].
      xstep. xfld Hb Cu. xfld Hb Cnn. rewrite !wrap_I32_id by (unfold i31 in *; lia). rewrite Eu, Z.eqb_refl. xstep. reflexivity.
    - assert (Hlt : (hist_u lb < length (hist lb))%nat) by lia.
      pose proof (He _ Hlt) as E. destruct E as [_ _ _ _ _ _ Es _ (_ & _ & _ & Rsq)].
      destruct (redo_loop_full (seq_at (hist lb) (hist_u lb)) (length (hist lb) - hist_u lb) m blk lb VUndef fuel R Hok Hrun ltac:(lia) ltac:(lia)) as (m' & blk' & l2' & C & R').
      exists m', blk'. split; [|exact R'].
      rewrite callx_S. cbn [nth_error cprog F_lbuf_redo cf_lbuf_redo fn_nparams fn_nlocals fn_body length Nat.eqb Nat.sub repeat app].
      xstep. xfld Hb Cu. xfld Hb Cnn. rewrite !wrap_I32_id by (unfold i31 in *; lia).
      destruct (Z.eqb_spec (Z.of_nat (hist_u lb)) (Z.of_nat (length (hist lb)))); [lia|]. xstep.
      xfld Hb Ch. xfld Hb Cu. rewrite wrap_I32_id by (unfold i31 in *; lia). xstep.
      replace (0 + 9 * Z.of_nat (hist_u lb) + 1 * 6) with (Z.of_nat (9 * hist_u lb + 6)) by lia.
      rewrite (hc_load m bh hblk (9 * hist_u lb + 6) _ Hh) by (try rewrite Hl; lia). rewrite Es. xstep. rewrite (wrap_I32_id _ Rsq).
      unfold seq_at in C. fold cx.
      match goal with |- context [exec cx fuel (SWhile ?c ?b) ?st] => change (exec cx fuel (SWhile c b) st) with (exec cx fuel redo_while st) end.
      rewrite C. xstep. reflexivity.
  Qed.

  Definition one_redo (lb : lbuf) : Prop :=
    (hist_u lb < length (hist lb))%nat /\ (S (hist_u lb) = length (hist lb) \/ seq_at (hist lb) (S (hist_u lb)) <> seq_at (hist lb) (hist_u lb)).
  Lemma redo_run_fits_one (m : mem) lb : one_redo lb ->
    (let lo := nth (hist_u lb) (hist lb) dflt in step_ok m (length (ln lb)) (ins lo) (pos lo) (n_del lo)) -> redo_run_ok m lb.
  Proof.
    intros (Hu & Hone) Hok. unfold redo_run_ok. destruct (length (hist lb) - hist_u lb)%nat as [|k] eqn:Ek; [lia|]. cbn [redo_run_fits].
    destruct (Nat.ltb_spec (hist_u lb) (length (hist lb))); [|lia]. cbn [andb]. rewrite Z.eqb_refl. split; [exact Hok|].
    intros fuel' l2 st3 _. destruct k as [|k]; [exact I|]. cbn [redo_run_fits].
    assert (H1 : hist_u (redo1 lb) = S (hist_u lb)) by reflexivity.
    assert (H2 : hist (redo1 lb) = hist lb) by reflexivity.
    rewrite H1, H2.
    destruct (Nat.ltb_spec (S (hist_u lb)) (length (hist lb))); [|exact I]. cbn [andb].
    destruct Hone as [X|X]; [lia|].
    destruct (Z.eqb_spec (seq_at (hist lb) (S (hist_u lb))) (seq_at (hist lb) (hist_u lb))); [contradiction|exact I].
  Qed.
End Full.
