(* TrLbufMarks.v -- the mark table of /repo/lbuf.c: markidx, lbuf_mark, lbuf_jump.  The models (CapDefs2.markidx, the
   table-driven index function of C05; ExDefs.markidx / lbuf_mark / lbuf_jump, the mark rows of C06) are what the C text says,
   on the translated C text (GenCFuncs.v) run on a memory that holds the struct lbuf (mark[32] in cells 0..31, mark_off[32]
   in cells 32..63): values returned, the two cells stored, every index inside its array. *)
From Coq Require Import List ZArith NArith Bool Lia.
From NV Require Import Bytes GenConsts GenCap CLite CLiteProps GenCFuncs CLiteTac TrLbufBase.
From NV Require CapDefs CapDefs2 ExDefs.
Import ListNotations.
Local Open Scope Z_scope.

(* ------------------------------------------------------------------ markidx *)
(* the argument goes to islower(): it must be representable as unsigned char or be EOF (else undefined behaviour, ECtype) *)
Theorem tr_markidx m c d fuel : -1 <= c <= 255 ->
  callf cprog fuel (S d) F_markidx [VInt c] m = Ok (VInt (CapDefs2.markidx c), m).
Proof.
  intro Hc. enter F_markidx cf_markidx. xstep. cbn [do_builtin_m do_builtin]. unfold ct_arg.
  destruct (Z.leb_spec (-1) c); [|lia]. destruct (Z.leb_spec c 255); [|lia]. cbn [andb bind]. xstep.
  unfold CapDefs2.markidx, CapDefs2.z_islower, ct_islower, markidx_lower_base, markidx_special. cbn [find fst snd].
  destruct ((97 <=? c) && (c <=? 122)) eqn:E1.
  - rewrite chk_I32 by lia. reflexivity.
  - xstep.
    repeat (match goal with |- context [c =? ?k] => rewrite (Z.eqb_sym c k); destruct (k =? c) eqn:? end; xstep; try reflexivity).
Qed.


Theorem tr_markidx_ctype m c d fuel : (c < -1 \/ 255 < c) ->
  callf cprog fuel (S d) F_markidx [VInt c] m = Err ECtype.
Proof.
  intro Hc. enter F_markidx cf_markidx. xstep. cbn [do_builtin_m do_builtin]. unfold ct_arg.
  destruct (Z.leb_spec (-1) c); destruct (Z.leb_spec c 255); try lia; reflexivity.
Qed.

(* the two index functions of the models agree (C05's table form on Z, C06's form on N), and the index is inside mark[] *)
Definition midx (c : N) : Z := match ExDefs.markidx c with Some k => Z.of_nat k | None => -1 end.
Lemma markidx_models : forall c, (c < 256)%N -> CapDefs2.markidx (Z.of_N c) = midx c.
Proof. byte_fact. Qed.
Lemma markidx_range c : -1 <= c <= 255 -> -1 <= CapDefs2.markidx c <= 30.
Proof.
  intro H. unfold CapDefs2.markidx, CapDefs2.z_islower, markidx_lower_base, markidx_special. cbn [find fst snd].
  destruct (Z.leb_spec 97 c); destruct (Z.leb_spec c 122); cbn [andb]; try lia;
    repeat (match goal with |- context [?k =? c] => destruct (k =? c) end; cbn [snd]; try lia).
Qed.

(* ------------------------------------------------------------------ lbuf_mark *)
Definition M_OFF : nat := 32.      (* mark_off[] starts at cell 32 *)
(* if (markidx(mark) >= 0) { lbuf->mark[markidx(mark)] = pos; lbuf->mark_off[markidx(mark)] = off; } *)
Theorem tr_lbuf_mark m bl blk c pos off d fuel : nth_error m bl = Some blk -> length blk = LBUF_CELLS ->
  -1 <= c <= 255 -> i32 pos -> i32 off ->
  let k := CapDefs2.markidx c in
  callf cprog fuel (S (S d)) F_lbuf_mark [VPtr bl 0; VInt c; VInt pos; VInt off] m
  = Ok (VUndef, if 0 <=? k then upd m bl (upd (upd blk (Z.to_nat k) (VInt pos)) (M_OFF + Z.to_nat k) (VInt off)) else m).
Proof.
  intros Hb Hl Hc Hp Ho k. pose proof (markidx_range c Hc) as Hk. fold k in Hk.
  enter F_lbuf_mark cf_lbuf_mark. xstep. rewrite (tr_markidx m c d fuel Hc). fold k. xstep.
  destruct (Z.leb_spec 0 k) as [K|K]; xstep; [|reflexivity].
  rewrite (tr_markidx m c d fuel Hc). fold k. xstep. rewrite (wrap_I32_id _ Hp).
  rewrite (fld_store m bl blk (Z.to_nat k) _ _ Hb) by (rewrite ?Hl; unfold LBUF_CELLS; lia). xstep.
  set (blk1 := upd blk (Z.to_nat k) (VInt pos)).
  match goal with |- context [callf cprog fuel (S d) F_markidx [VInt c] ?mm] => set (m1 := mm) end.
  rewrite (tr_markidx m1 c d fuel Hc). fold k. xstep. rewrite (wrap_I32_id _ Ho).
  assert (Hbl : (bl < length m)%nat) by (apply nth_error_Some; congruence).
  assert (Hb1 : nth_error m1 bl = Some blk1) by (apply mem_upd_same; exact Hbl).
  rewrite (fld_store m1 bl blk1 (M_OFF + Z.to_nat k) _ _ Hb1)
    by (unfold blk1; rewrite ?upd_length by (rewrite Hl; unfold LBUF_CELLS; lia); rewrite ?Hl; unfold LBUF_CELLS, M_OFF; lia).
  xstep. cbn [memm]. unfold m1. f_equal. f_equal. apply upd_upd. exact Hbl.
Qed.

(* ---- the tie to the mark rows of ExDefs (C06): cell k of the struct holds the row of mark k *)
Definition marks_rep (blk : block) (mk : list (Z * option nat)) : Prop :=
  length mk = 32%nat /\ forall k, (k < 32)%nat -> nth_error blk k = Some (VInt (fst (nth k mk (-1, None)))).
Definition mark_blk (blk : block) (c pos off : Z) : block :=
  let k := CapDefs2.markidx c in
  if 0 <=? k then upd (upd blk (Z.to_nat k) (VInt pos)) (M_OFF + Z.to_nat k) (VInt off) else blk.

Lemma exupd_length {A} k (v : A) l : length (ExDefs.upd k v l) = length l.
Proof. revert k; induction l as [|x l IH]; intro k; [destruct k; reflexivity|]. destruct k; cbn [ExDefs.upd length]; [reflexivity|]. rewrite IH. reflexivity. Qed.
Lemma exupd_nth {A} k (v : A) l j d : (k < length l)%nat -> nth j (ExDefs.upd k v l) d = if Nat.eqb j k then v else nth j l d.
Proof.
  revert k j; induction l as [|x l IH]; intros k j H; [cbn in H; lia|].
  destruct k as [|k]; destruct j as [|j]; cbn [ExDefs.upd nth Nat.eqb]; try reflexivity. apply IH. cbn in H. lia.
Qed.

Lemma mark_blk_rep blk (lb : ExDefs.lbuf) cn pos off : length blk = LBUF_CELLS -> marks_rep blk (ExDefs.marks lb) -> (cn < 256)%N ->
  marks_rep (mark_blk blk (Z.of_N cn) pos off) (ExDefs.marks (ExDefs.lbuf_mark lb cn pos)).
Proof.
  intros Hl [Hlen Hc] Hcn. unfold mark_blk. rewrite (markidx_models cn Hcn).
  pose proof (markidx_range (Z.of_N cn) ltac:(lia)) as Hr. rewrite (markidx_models cn Hcn) in Hr.
  unfold midx in *. unfold ExDefs.lbuf_mark. destruct (ExDefs.markidx cn) as [k|]; [|split; assumption].
  destruct (Z.leb_spec 0 (Z.of_nat k)); [|lia]. rewrite Nat2Z.id. cbn [ExDefs.marks]. split; [rewrite exupd_length; exact Hlen|].
  intros j Hj. rewrite exupd_nth by lia.
  assert (L1 : (k < length blk)%nat) by (rewrite Hl; unfold LBUF_CELLS; lia).
  assert (L2 : (M_OFF + k < length (upd blk k (VInt pos)))%nat) by (rewrite upd_length by exact L1; rewrite Hl; unfold LBUF_CELLS, M_OFF; lia).
  rewrite nth_error_upd_other by (try exact L2; unfold M_OFF; lia).
  destruct (Nat.eqb_spec j k) as [->|Hne].
  - rewrite nth_error_upd_same by exact L1. reflexivity.
  - rewrite nth_error_upd_other by assumption. apply Hc. exact Hj.
Qed.

Theorem tr_lbuf_mark_model m bl blk (lb : ExDefs.lbuf) cn pos off d fuel : nth_error m bl = Some blk -> length blk = LBUF_CELLS ->
  marks_rep blk (ExDefs.marks lb) -> (cn < 256)%N -> i32 pos -> i32 off ->
  let blk' := mark_blk blk (Z.of_N cn) pos off in
  callf cprog fuel (S (S d)) F_lbuf_mark [VPtr bl 0; VInt (Z.of_N cn); VInt pos; VInt off] m
    = Ok (VUndef, if 0 <=? midx cn then upd m bl blk' else m)
  /\ marks_rep blk' (ExDefs.marks (ExDefs.lbuf_mark lb cn pos)).
Proof.
  intros Hb Hl Hr Hcn Hp Ho blk'. split; [|apply mark_blk_rep; assumption].
  rewrite (tr_lbuf_mark m bl blk (Z.of_N cn) pos off d fuel Hb Hl ltac:(lia) Hp Ho). unfold blk', mark_blk.
  rewrite (markidx_models cn Hcn). destruct (0 <=? midx cn); reflexivity.
Qed.

(* ------------------------------------------------------------------ lbuf_jump *)
(* the 64 mark cells hold ints *)
Definition marks_ints (blk : block) : Prop := forall j, (j < 64)%nat -> exists z, nth_error blk j = Some (VInt z) /\ i32 z.
Definition cellz (blk : block) (j : nat) : Z := match nth_error blk j with Some (VInt z) => z | _ => 0 end.

(* int mk = markidx(mark); if (mk < 0 || lbuf->mark[mk] < 0) return 1; *pos = lbuf->mark[mk]; if (off) *off = lbuf->mark_off[mk]; return 0;
   pos points into block bp, off is NULL or points into a third block bo *)
Theorem tr_lbuf_jump m bl blk c bp op pblk (offp : option (nat * Z * block)) d fuel :
  nth_error m bl = Some blk -> marks_ints blk -> -1 <= c <= 255 ->
  bp <> bl -> nth_error m bp = Some pblk -> 0 <= op < Z.of_nat (length pblk) ->
  match offp with Some (bo, oo, oblk) => bo <> bl /\ bo <> bp /\ nth_error m bo = Some oblk /\ 0 <= oo < Z.of_nat (length oblk) | None => True end ->
  let k := CapDefs2.markidx c in
  let row := cellz blk (Z.to_nat k) in
  let col := cellz blk (M_OFF + Z.to_nat k) in
  callf cprog fuel (S (S d)) F_lbuf_jump
    [VPtr bl 0; VInt c; VPtr bp op; match offp with Some (bo, oo, _) => VPtr bo oo | None => VInt 0 end] m
  = if (k <? 0) || (row <? 0) then Ok (VInt 1, m)
    else Ok (VInt 0, let m1 := upd m bp (upd pblk (Z.to_nat op) (VInt row)) in
                     match offp with Some (bo, oo, oblk) => upd m1 bo (upd oblk (Z.to_nat oo) (VInt col)) | None => m1 end).
Proof.
  intros Hb Hints Hc Hbp Hp Hop Hoff k row col. pose proof (markidx_range c Hc) as Hk. fold k in Hk.
  enter F_lbuf_jump cf_lbuf_jump. xstep. rewrite (tr_markidx m c d fuel Hc). fold k. xstep.
  destruct (Z.ltb_spec k 0) as [K|K]; xstep; [reflexivity|].
  destruct (Hints (Z.to_nat k) ltac:(lia)) as (zr & Hzr & Ir). destruct (Hints (M_OFF + Z.to_nat k)%nat ltac:(unfold M_OFF; lia)) as (zc & Hzc & Ic).
  assert (Er : row = zr) by (unfold row, cellz; rewrite Hzr; reflexivity).
  assert (Ec : col = zc) by (unfold col, cellz; rewrite Hzc; reflexivity).
  replace (0 + 1 * k) with k by lia.
  rewrite (fld_load m bl blk (Z.to_nat k) _ k Hb Hzr) by lia. xstep. rewrite (wrap_I32_id _ Ir). rewrite <- Er.
  destruct (Z.ltb_spec row 0) as [R|R]; xstep; [reflexivity|].
  replace (0 + 1 * k) with k by lia.
  rewrite (fld_load m bl blk (Z.to_nat k) _ k Hb Hzr) by lia. xstep. rewrite (wrap_I32_id _ Ir). rewrite <- Er.
  rewrite (store_ok m bp pblk op _ Hp Hop). xstep. rewrite (wrap_I32_id row) by (rewrite Er; exact Ir).
  assert (Hbpl : (bp < length m)%nat) by (apply nth_error_Some; congruence).
  set (m1 := upd m bp (upd pblk (Z.to_nat op) (VInt row))).
  destruct offp as [[[bo oo] oblk]|]; xstep; [|reflexivity].
  destruct Hoff as (Hbo & Hbop & Ho & Hoo).
  assert (Hb1 : nth_error m1 bl = Some blk) by (unfold m1; rewrite mem_upd_other by (try assumption; congruence); exact Hb).
  assert (Ho1 : nth_error m1 bo = Some oblk) by (unfold m1; rewrite mem_upd_other by (try assumption; congruence); exact Ho).
  replace (0 + 1 * 32 + 1 * k) with (Z.of_nat (M_OFF + Z.to_nat k)) by (unfold M_OFF; lia).
  rewrite (fld_load m1 bl blk (M_OFF + Z.to_nat k) _ _ Hb1 Hzc eq_refl). xstep. rewrite (wrap_I32_id _ Ic), (wrap_I32_id _ Ic).
  rewrite (store_ok m1 bo oblk oo _ Ho1 Hoo). xstep. rewrite Ec. reflexivity.
Qed.

(* the tie to ExDefs.lbuf_jump (rows only): the call fails exactly when the model answers None, and *pos receives the model's row *)
Lemma jump_model blk (lb : ExDefs.lbuf) cn : marks_rep blk (ExDefs.marks lb) -> (cn < 256)%N ->
  let k := CapDefs2.markidx (Z.of_N cn) in
  ExDefs.lbuf_jump lb cn = if (k <? 0) || (cellz blk (Z.to_nat k) <? 0) then None else Some (cellz blk (Z.to_nat k)).
Proof.
  intros [Hlen Hc] Hcn k. unfold k. rewrite (markidx_models cn Hcn).
  pose proof (markidx_range (Z.of_N cn) ltac:(lia)) as Hr. rewrite (markidx_models cn Hcn) in Hr.
  unfold midx in *. unfold ExDefs.lbuf_jump. destruct (ExDefs.markidx cn) as [j|]; [|reflexivity].
  destruct (Z.ltb_spec (Z.of_nat j) 0); [lia|]. cbn [orb]. rewrite Nat2Z.id. unfold cellz, ExDefs.mark_row.
  rewrite (Hc j) by lia. reflexivity.
Qed.

(* ------------------------------------------------------------------ the statements in terms of ExDefs *)
Theorem tr_markidx_model m (cn : N) d fuel : (cn < 256)%N ->
  callf cprog fuel (S d) F_markidx [VInt (Z.of_N cn)] m = Ok (VInt (midx cn), m)
  /\ CapDefs2.markidx (Z.of_N cn) = midx cn
  /\ match ExDefs.markidx cn with Some k => (k <= 30)%nat | None => True end.
Proof.
  intro H. split; [rewrite (tr_markidx m (Z.of_N cn) d fuel) by lia; rewrite (markidx_models cn H); reflexivity|].
  split; [apply markidx_models; exact H|].
  pose proof (markidx_range (Z.of_N cn) ltac:(lia)) as Hr. rewrite (markidx_models cn H) in Hr. unfold midx in Hr.
  destruct (ExDefs.markidx cn); [lia|exact I].
Qed.

Theorem tr_lbuf_jump_model m bl blk (lb : ExDefs.lbuf) cn bp op pblk (offp : option (nat * Z * block)) d fuel :
  nth_error m bl = Some blk -> marks_ints blk -> marks_rep blk (ExDefs.marks lb) -> (cn < 256)%N ->
  bp <> bl -> nth_error m bp = Some pblk -> 0 <= op < Z.of_nat (length pblk) ->
  match offp with Some (bo, oo, oblk) => bo <> bl /\ bo <> bp /\ nth_error m bo = Some oblk /\ 0 <= oo < Z.of_nat (length oblk) | None => True end ->
  let k := Z.to_nat (CapDefs2.markidx (Z.of_N cn)) in
  callf cprog fuel (S (S d)) F_lbuf_jump
    [VPtr bl 0; VInt (Z.of_N cn); VPtr bp op; match offp with Some (bo, oo, _) => VPtr bo oo | None => VInt 0 end] m
  = match ExDefs.lbuf_jump lb cn with
    | None => Ok (VInt 1, m)
    | Some row => Ok (VInt 0, let m1 := upd m bp (upd pblk (Z.to_nat op) (VInt row)) in
                              match offp with
                              | Some (bo, oo, oblk) => upd m1 bo (upd oblk (Z.to_nat oo) (VInt (cellz blk (M_OFF + k))))
                              | None => m1
                              end)
    end.
Proof.
  intros Hb Hi Hr Hcn Hbp Hp Hop Hoff k.
  rewrite (tr_lbuf_jump m bl blk (Z.of_N cn) bp op pblk offp d fuel Hb Hi ltac:(lia) Hbp Hp Hop Hoff).
  rewrite (jump_model blk lb cn Hr Hcn). cbv zeta.
  destruct ((CapDefs2.markidx (Z.of_N cn) <? 0) || (cellz blk (Z.to_nat (CapDefs2.markidx (Z.of_N cn))) <? 0)); reflexivity.
Qed.
