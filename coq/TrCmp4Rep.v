(* TrCmp4Rep.v -- tr_lbuf_replace_p: the theorem of TrSpliceAll.v (the translated lbuf_replace leaves the spliced line buffer) for a
   text argument that lies at the start of a block LONGER than the string (pstr_at, TrCmp4Str.v), with one more conclusion: the cells
   mark_off[] of the struct hold integers afterwards.  The proof is the one of TrSpliceAll.tr_lbuf_replace with linecount / the cut
   loop of TrCmp4Str.v; TrSpliceAll.v is unchanged. *)
From Coq Require Import List ZArith NArith Bool Lia.
From NV Require Import Bytes GenConsts GenCap CLite CLiteProps GenCFuncs CLiteTac TrLbufBase IoDefs TrLbufLines TrLbufMarks
  TrSplice TrSpliceMove TrSpliceCut TrSpliceMarks TrSpliceAll TrCmp4Str.
From NV Require CapDefs2.
Import ListNotations.
Local Open Scope Z_scope.

(* ------------------------------------------------------------------ the whole function *)
(* the argument s: NULL, or a pointer into a block (outside the buffer) that STARTS with a NUL-terminated text *)
Inductive s_textp (m : mem) (keep : list nat) : val -> bytes -> bool -> Prop :=
| stp_null : s_textp m keep (VInt 0) [] true
| stp_ptr bs o text : pstr_at m bs text -> nonul text -> (o <= length text)%nat -> Z.of_nat (length text) + 2 <= 2147483647 ->
    ~ In bs keep -> s_textp m keep (VPtr bs (Z.of_nat o)) (skipn o text) false.

Theorem tr_lbuf_replace_p (m : mem) lb blk bln bgl lbs lines globs mk cap sv t nul pos nd cap' d fuel :
  let n := length lines in let ni := linecount t in
  let need := Z.of_nat n + Z.of_nat ni - Z.of_nat nd in
  lbuf_at m lb blk bln bgl lbs lines globs mk cap ->
  s_textp m (lb :: bln :: bgl :: lbs) sv t nul ->
  (pos + nd <= n)%nat ->
  Z.of_nat n + Z.of_nat ni <= 2147483647 ->
  grow (grow_fuel need) need (Z.of_nat cap) = Some cap' -> cap' <= 2147483647 ->
  Forall (row_fits (Z.of_nat pos) (Z.of_nat nd) (Z.of_nat ni)) mk ->
  (splice_fuel n ni nd <= fuel)%nat ->
  exists m' blk' bln' bgl' base,
    callf cprog fuel (S (S (S d))) F_lbuf_replace [VPtr lb 0; sv; VInt (Z.of_nat pos); VInt (Z.of_nat nd)] m = Ok (VUndef, m')
    /\ lbuf_at m' lb blk' bln' bgl' (splice lbs (seq base ni) pos nd) (splice lines (split_lines t) pos nd)
         (splice_globs globs pos nd ni) (splice_marks nul pos nd ni mk) (Z.to_nat cap')
    /\ need < cap' /\ Z.of_nat cap <= cap'
    /\ (length m <= base)%nat /\ (length m <= length m')%nat
    /\ (forall c, (c < length m)%nat -> ~ In c (lb :: bln :: bgl :: lbs) -> nth_error m' c = nth_error m c)
    /\ (forall b, In b (firstn nd (skipn pos lbs)) -> nth_error m' b = Some [])
    /\ arr_kept m m' bln bln' /\ arr_kept m m' bgl bgl'
    /\ (forall j, (68 <= j)%nat -> nth_error blk' j = nth_error blk j)
    /\ (forall j, (32 <= j < 64)%nat -> (exists z, nth_error blk j = Some (VInt z)) -> exists z, nth_error blk' j = Some (VInt z)).
Proof.
  intros n ni need R St Hpos Hsz Hgrow Hcap' Hfit Hfuel.
  assert (Sc : (sv = VInt 0 /\ t = [] /\ nul = true) \/
               (exists bs o text, sv = VPtr bs (Z.of_nat o) /\ t = skipn o text /\ nul = false /\ pstr_at m bs text /\ nonul text /\
                  (o <= length text)%nat /\ Z.of_nat (length text) + 2 <= 2147483647 /\ ~ In bs (lb :: bln :: bgl :: lbs))).
  { destruct St as [|bs o text Hs Hnn Ho Hlen Hout]; [left; repeat split; reflexivity|right].
    exists bs, o, text. repeat split; assumption. }
  clear St.
  destruct R as [(lnblk & glblk & T & Cln & Cgl) Hlbs Hglobs Hstr Hnd [Hcap Hcap0] [Hmk Hmarks]]. fold n in T, Cln, Cgl, Hlbs, Hglobs, Hstr, Hcap.
  pose proof T as [Tb Tl Tln Tgl Tn Tsz Tlnb Tglb Tlnl Tgll (N1 & N2 & N3)].
  unfold splice_fuel in Hfuel.
  (* blocks of the representation are below length m, pairwise distinct *)
  assert (Llb : (lb < length m)%nat) by (apply (nth_lt _ _ _ Tb)).
  assert (Lbln : (bln < length m)%nat) by (apply (nth_lt _ _ _ Tlnb)).
  assert (Lbgl : (bgl < length m)%nat) by (apply (nth_lt _ _ _ Tglb)).
  assert (Llbs : forall b, In b lbs -> (b < length m)%nat).
  { intros b Hb. destruct (In_nth _ _ O Hb) as (i & Hi & <-). apply (nth_lt _ _ _ (Hstr i ltac:(nlia))). }
  assert (Dlbs : forall b, In b lbs -> b <> lb /\ b <> bln /\ b <> bgl).
  { intros b Hb. inversion Hnd as [|? ? X1 X2]; subst. inversion X2 as [|? ? X3 X4]; subst. inversion X4 as [|? ? X5 X6]; subst.
    repeat split; intros ->; [apply X1|apply X3|apply X5]; cbn [In]; tauto. }
  assert (Ndl : NoDup lbs) by (inversion Hnd as [|? ? X1 X2]; subst; inversion X2 as [|? ? X3 X4]; subst; inversion X4; assumption).
  assert (Inj : forall a b, (a < length lbs)%nat -> (b < length lbs)%nat -> nth a lbs O = nth b lbs O -> a = b) by (apply NoDup_nth; exact Ndl).
  (* the call *)
  rewrite callf_S. change (nth_error cprog F_lbuf_replace) with (Some cf_lbuf_replace).
  cbn [cf_lbuf_replace fn_nparams fn_nlocals length Nat.eqb Nat.sub repeat app]. fold cf_lbuf_replace.
  change (fn_body cf_lbuf_replace) with rp_body. rewrite rp_body_eq.
  set (call := callf cprog fuel (S (S d))).
  (* n_ins = linecount(s) *)
  assert (E0 : exec call fuel rp_count (mkst [VPtr lb 0; sv; VInt (Z.of_nat pos); VInt (Z.of_nat nd); VUndef; VUndef; VUndef; VUndef; VUndef; VUndef; VUndef; VUndef] m)
               = ONormal (mkst [VPtr lb 0; sv; VInt (Z.of_nat pos); VInt (Z.of_nat nd); VInt (Z.of_nat ni); VUndef; VUndef; VUndef; VUndef; VUndef; VUndef; VUndef] m)).
  { unfold rp_count, rp_body; cbn [fn_body cf_lbuf_replace]. unfold call.
    destruct Sc as [(Es & Et & En)|(bs & o & text & Es & Et & En & Hs & Hnn & Ho & Hlen & Hout)]; rewrite Es; xstep.
    - rewrite (tr_linecount_null m d fuel) by nlia. unfold ni. rewrite Et. reflexivity.
    - rewrite (tr_linecount_p m bs text o d fuel Hs Hnn Ho) by (rewrite <- ?Et; fold ni; nlia). unfold ni. rewrite Et. reflexivity. }
  assert (Sarg : s_arg sv nul).
  { destruct Sc as [(Es & Et & En)|(bs & o & text & Es & Et & En & _)]; [left; split; assumption|right; split; [assumption|eauto]]. }
  rewrite exec_seq, E0. clear E0.
  (* the growth loop *)
  destruct (grow_loop_ok call lb n ni nd sv (VInt (Z.of_nat pos)) VUndef VUndef VUndef VUndef Hsz ltac:(nlia)
              (grow_fuel need) fuel m blk bln bgl lnblk glblk cap cap' VUndef VUndef VUndef T Hcap Hcap0 Hgrow Hcap' ltac:(unfold grow_fuel, need; nlia))
    as (m1 & blk1 & bln1 & bgl1 & lnblk1 & glblk1 & w6 & w7 & w8 & E1 & T1 & C1 & C2 & L1 & K1 & A1 & A2 & P1 & P2 & Q1).
  rewrite exec_seq, E1. clear E1.
  set (c1 := Z.to_nat cap') in *.
  pose proof T1 as [Ub Ul Uln Ugl Un Usz Ulnb Uglb Ulnl Ugll (M1 & M2 & M3)].
  assert (Lbln1 : (bln1 < length m1)%nat) by (apply (nth_lt _ _ _ Ulnb)).
  assert (Lbgl1 : (bgl1 < length m1)%nat) by (apply (nth_lt _ _ _ Uglb)).
  assert (D1 : forall b, In b lbs -> b <> bln1 /\ b <> bgl1).
  { intros b Hb. pose proof (Llbs b Hb). destruct (Dlbs b Hb) as (X1 & X2 & X3).
    split; [destruct A1 as [->|[Y _]]|destruct A2 as [->|[Y _]]]; try assumption; nlia. }
  assert (Cln1 : forall i, (i < n)%nat -> nth_error lnblk1 i = Some (VPtr (nth i lbs O) 0)).
  { intros i Hi. rewrite <- (nth_error_firstn_lt lnblk1 n i Hi), P1, nth_error_firstn_lt by exact Hi. apply Cln. exact Hi. }
  assert (Cgl1 : forall i, (i < n)%nat -> nth_error glblk1 i = Some (VInt (nth i globs 0))).
  { intros i Hi. rewrite <- (nth_error_firstn_lt glblk1 n i Hi), P2, nth_error_firstn_lt by exact Hi. apply Cgl. exact Hi. }
  assert (Str1 : forall i, (i < n)%nat -> str_at m1 (nth i lbs O) (nth i lines [])).
  { intros i Hi. assert (Hin : In (nth i lbs O) lbs) by (apply nth_In; nlia). destruct (Dlbs _ Hin) as (X1 & X2 & X3).
    unfold str_at. rewrite K1 by (try assumption; apply Llbs; exact Hin). apply Hstr. exact Hi. }
  (* the deleted lines are freed *)
  set (dels := firstn nd (skipn pos lbs)).
  assert (Ldels : length dels = nd) by (unfold dels; rewrite firstn_length, skipn_length; nlia).
  assert (Idels : forall b, In b dels -> In b lbs) by (intros b Hb; apply (in_sub lbs pos nd b Hb)).
  rewrite exec_seq, rp_free_eq, exec_seq, exec_expr. xcbn.
  assert (E2 : exec call fuel rp_free_loop (mkst [VPtr lb 0; sv; VInt (Z.of_nat pos); VInt (Z.of_nat nd); VInt (Z.of_nat ni); VInt 0; w6; w7; w8; VUndef; VUndef; VUndef] m1)
     = ONormal (mkst [VPtr lb 0; sv; VInt (Z.of_nat pos); VInt (Z.of_nat nd); VInt (Z.of_nat ni); VInt (Z.of_nat nd); w6; w7; w8; VUndef; VUndef; VUndef] (free_blocks dels m1))).
  { apply (free_loop_ok call lb blk1 bln1 lnblk1 sv pos nd (VInt (Z.of_nat ni)) w6 w7 w8 VUndef VUndef VUndef Uln ltac:(nlia) nd O dels m1 fuel eq_refl Ldels).
    - intros j Hj. rewrite Nat.add_0_r. unfold dels. rewrite nth_sub by nlia. apply Cln1. nlia.
    - apply nodup_sub. exact Ndl.
    - intros b Hb. pose proof (Idels b Hb) as Hin. destruct (Dlbs b Hin) as (X1 & X2 & X3). destruct (D1 b Hin) as (X4 & X5).
      split; [exact X1|]. split; [exact X4|]. destruct (In_nth _ _ O Hin) as (i & Hi & Ei). pose proof (Str1 i ltac:(nlia)) as Y. rewrite Ei in Y.
      exists (cstr_block (zb (nth i lines []))). split; [exact Y|]. unfold cstr_block. intro E. apply (f_equal (@length val)) in E. rewrite app_length in E. cbn in E. nlia.
    - exact Ub.
    - exact Ulnb.
    - nlia. }
  rewrite E2. clear E2.
  set (m2 := free_blocks dels m1).
  assert (Bd : forall b, In b dels -> (b < length m1)%nat) by (intros b Hb; pose proof (Llbs b (Idels b Hb)); nlia).
  assert (L2 : length m2 = length m1) by (apply free_blocks_length; exact Bd).
  assert (K2 : forall c, ~ In c dels -> nth_error m2 c = nth_error m1 c) by (intros c Hc; apply free_blocks_other; assumption).
  assert (F2 : forall c, In c dels -> nth_error m2 c = Some []) by (intros c Hc; apply free_blocks_in; assumption).
  assert (T2 : tbl m2 lb blk1 bln1 bgl1 lnblk1 glblk1 n c1).
  { apply (tbl_same m1); [exact T1| | |]; apply K2; intro Hc; pose proof (Idels _ Hc) as Hin.
    - destruct (Dlbs _ Hin) as (X & _). congruence.
    - destruct (D1 _ Hin) as (X & _). congruence.
    - destruct (D1 _ Hin) as (_ & X). congruence. }
  (* the tails move, ln_n is updated *)
  assert (Zc1 : Z.of_nat c1 = cap') by (unfold c1; nlia).
  rewrite exec_seq_assoc, exec_seq.
  destruct (move_ok call fuel m2 lb blk1 bln1 bgl1 lnblk1 glblk1 n c1 sv pos nd ni (VInt (Z.of_nat nd)) w6 w7 w8 VUndef VUndef VUndef T2 Hpos ltac:(nlia) ltac:(nlia) ltac:(nlia) ltac:(nlia))
    as (m3 & E3 & T3 & L3 & K3).
  rewrite E3. clear E3.
  set (n' := (n + ni - nd)%nat) in T3 |- *. set (blk3 := setn_blk blk1 n') in T3 |- *.
  set (lnblk3 := move_arr lnblk1 pos nd ni n) in T3 |- *. set (glblk3 := move_arr glblk1 pos nd ni n) in T3 |- *.
  pose proof T3 as [Vb Vl Vln Vgl Vn Vsz Vlnb Vglb Vlnl Vgll _].
  (* blocks outside the old representation are still what they were *)
  assert (Fr3 : forall c, (c < length m)%nat -> ~ In c (lb :: bln :: bgl :: lbs) ->
                  c <> lb /\ c <> bln1 /\ c <> bgl1 /\ nth_error m3 c = nth_error m c).
  { intros c Hc Hout. cbn [In] in Hout.
    assert (X1 : c <> lb) by (intro E; rewrite E in Hout; tauto). assert (X2 : c <> bln) by (intro E; rewrite E in Hout; tauto). assert (X3 : c <> bgl) by (intro E; rewrite E in Hout; tauto).
    assert (X4 : ~ In c lbs) by tauto.
    assert (X5 : c <> bln1) by (destruct A1 as [->|[Y _]]; [exact X2|nlia]).
    assert (X6 : c <> bgl1) by (destruct A2 as [->|[Y _]]; [exact X3|nlia]).
    repeat split; try assumption. rewrite K3, K2, K1 by (try assumption; intro Hd; apply X4; apply Idels; exact Hd). reflexivity. }
  (* the lines of s are cut, allocated and stored *)
  set (m4 := upd (m3 ++ map line_blk (split_lines t)) bln1 (put_cells lnblk3 pos (new_ptrs (length m3) ni))).
  assert (E4 : exists sv' w9 w10 w11, s_arg sv' nul /\
     exec call fuel rp_cut (mkst [VPtr lb 0; sv; VInt (Z.of_nat pos); VInt (Z.of_nat nd); VInt (Z.of_nat ni); VInt (Z.of_nat nd); w6; w7; w8; VUndef; VUndef; VUndef] m3)
     = ONormal (mkst [VPtr lb 0; sv'; VInt (Z.of_nat pos); VInt (Z.of_nat nd); VInt (Z.of_nat ni); VInt (Z.of_nat ni); w6; w7; w8; w9; w10; w11] m4)).
  { unfold m4. clear m4. destruct Sc as [(Es & Et & En)|(bs & o & text & Es & Et & En & Hs & Hnn & Ho & Hlen & Hout)].
    - exists (VInt 0), VUndef, VUndef, VUndef. split; [left; split; [exact En|reflexivity]|].
      assert (Z0 : ni = 0%nat) by (unfold ni; rewrite Et; reflexivity). rewrite Es, Z0, Et. change (Z.of_nat 0) with 0. rewrite (cut_zero call fuel) by nlia.
      cbn [split_lines split_aux map new_ptrs seq]. rewrite app_nil_r, put_cells_nil, (upd_self m3 bln1 lnblk3 Vlnb). reflexivity.
    - assert (Lbs : (bs < length m)%nat) by (apply (pstr_lt _ _ _ Hs)).
      destruct (Fr3 bs Lbs Hout) as (X1 & X2 & X3 & X4).
      assert (Eni : linecount (skipn o text) = ni) by (unfold ni; rewrite Et; reflexivity).
      destruct (cut_ok_p fuel (S d) lb blk3 bln1 bs text o pos ni (VInt (Z.of_nat nd)) (VInt (Z.of_nat nd)) w6 w7 w8 VUndef VUndef VUndef m3 lnblk3
                  Vln Hnn Hlen ltac:(nlia) X2 X1 M1 Eni Ho Vb Vlnb) as (o' & w9 & w10 & w11 & E).
      + apply (pstr_same m); [exact Hs|exact X4].
      + rewrite Vlnl. nlia.
      + nlia.
      + exists (VPtr bs o'), w9, w10, w11. split; [right; split; [exact En|eauto]|]. rewrite Es, Et. exact E. }
  destruct E4 as (sv' & w9 & w10 & w11 & Sarg' & E4).
  rewrite exec_seq, E4. clear E4.
  set (NB := map line_blk (split_lines t)) in *. set (L4 := put_cells lnblk3 pos (new_ptrs (length m3) ni)) in *.
  assert (LNB : length NB = ni) by (unfold NB; rewrite map_length; apply split_len).
  assert (Llb3 : (lb < length m3)%nat) by (apply (nth_lt _ _ _ Vb)).
  assert (Lbln3 : (bln1 < length m3)%nat) by (apply (nth_lt _ _ _ Vlnb)).
  assert (Lbgl3 : (bgl1 < length m3)%nat) by (apply (nth_lt _ _ _ Vglb)).
  assert (Old4 : forall c, (c < length m3)%nat -> nth_error (m3 ++ NB) c = nth_error m3 c) by (intros c Hc; apply nth_error_app1; exact Hc).
  assert (Hbl4 : nth_error (m3 ++ NB) bln1 = Some lnblk3) by (rewrite Old4 by nlia; exact Vlnb).
  destruct (upd_frame (m3 ++ NB) bln1 lnblk3 L4 Hbl4) as (W1 & W2 & W3). fold m4 in W1, W2, W3.
  assert (B4 : nth_error m4 lb = Some blk3) by (rewrite W2, Old4 by (try nlia; congruence); exact Vb).
  assert (G4 : nth_error m4 bgl1 = Some glblk3) by (rewrite W2, Old4 by (try nlia; congruence); exact Vglb).
  (* ln_glob of the added lines is cleared *)
  rewrite exec_seq.
  rewrite (glob_ok call fuel lb blk3 bgl1 sv' pos nd ni (VInt (Z.of_nat ni)) w6 w7 w8 w9 w10 w11 m4 glblk3 Vgl ltac:(nlia) M2 B4 G4 ltac:(rewrite Vgll; nlia) ltac:(nlia)).
  set (G5 := glob_arr glblk3 pos nd ni).
  destruct (upd_frame m4 bgl1 glblk3 G5 G4) as (W4 & W5 & W6). set (m5 := upd m4 bgl1 G5) in *.
  assert (B5 : nth_error m5 lb = Some blk3) by (rewrite W5 by congruence; exact B4).
  (* the marks *)
  assert (Rows : forall j, (j < 32)%nat -> nth_error blk3 j = Some (VInt (nth j mk 0)) /\ row_fits (Z.of_nat pos) (Z.of_nat nd) (Z.of_nat ni) (nth j mk 0)).
  { intros j Hj. split.
    - unfold blk3, setn_blk. rewrite nth_error_upd_other by (rewrite ?Ul; unfold LBUF_CELLS, L_ln_n; nlia).
      rewrite Q1 by (unfold L_ln, L_ln_glob, L_ln_sz; nlia). apply Hmarks. exact Hj.
    - rewrite Forall_forall in Hfit. apply Hfit. apply nth_In. nlia. }
  rewrite exec_seq.
  rewrite (marks_ok call fuel lb sv' nul pos nd ni (VInt (Z.of_nat (Nat.max nd ni))) w6 w7 w8 w9 w10 w11 m5 blk3 Sarg' ltac:(nlia) ltac:(nlia) B5)
    by (first [nlia | rewrite Vl; unfold LBUF_CELLS; nlia | intros j Hj; exists (nth j mk 0); apply Rows; exact Hj]).
  set (f := shift_row nul (Z.of_nat pos) (Z.of_nat nd) (Z.of_nat ni)). set (blk6 := shift_cells f blk3 0 32).
  destruct (upd_frame m5 lb blk3 blk6 B5) as (W7 & W8 & W9). set (m6 := upd m5 lb blk6) in *.
  assert (Lb6 : length blk6 = LBUF_CELLS) by (unfold blk6; rewrite shift_cells_length by (rewrite Vl; unfold LBUF_CELLS; nlia); exact Vl).
  unfold call. rewrite (tail_ok fuel d fuel lb sv' pos (VInt (Z.of_nat nd)) ni (VInt 32) w6 w7 w8 w9 w10 w11 m6 blk6 W7 Lb6 ltac:(nlia)).
  set (blk7 := tail_blk blk6 pos ni).
  destruct (upd_frame m6 lb blk6 blk7 W7) as (W10 & W11 & W12). set (m7 := upd m6 lb blk7) in *.
  cbn [memm].
  (* every block of the final memory *)
  assert (V7 : forall c, c <> lb -> c <> bgl1 -> c <> bln1 -> nth_error m7 c = nth_error (m3 ++ NB) c).
  { intros c X1 X2 X3. rewrite W11, W8, W5, W2 by assumption. reflexivity. }
  assert (V7ln : nth_error m7 bln1 = Some L4) by (rewrite W11, W8, W5 by congruence; exact W1).
  assert (V7gl : nth_error m7 bgl1 = Some G5) by (rewrite W11, W8 by congruence; exact W4).
  assert (Len7 : length m7 = (length m3 + ni)%nat) by (rewrite W12, W9, W6, W3, app_length, LNB; reflexivity).
  exists m7, blk7, bln1, bgl1, (length m3). split; [reflexivity|].
  (* the cells of the struct above the marks *)
  assert (Lmb : length (mark_blk blk6 91 (Z.of_nat pos) 0) = LBUF_CELLS) by (apply mark_blk_len; [exact Lb6|nlia]).
  assert (Hi7 : forall j, (64 <= j)%nat -> nth_error blk7 j = nth_error blk3 j).
  { intros j Hj. unfold blk7, tail_blk. rewrite mark_blk_cell_hi by (try exact Lmb; nlia). rewrite mark_blk_cell_hi by (try exact Lb6; nlia).
    unfold blk6. rewrite shift_cells_nth by (rewrite Vl; unfold LBUF_CELLS; nlia).
    destruct (Nat.leb_spec 0 j); destruct (Nat.ltb_spec j (0 + 32)); try nlia; reflexivity. }
  assert (Lb7 : length blk7 = LBUF_CELLS) by (unfold blk7, tail_blk; apply mark_blk_len; [exact Lmb|nlia]).
  assert (Off7 : forall j, (32 <= j < 64)%nat -> (exists z, nth_error blk j = Some (VInt z)) -> exists z, nth_error blk7 j = Some (VInt z)).
  { intros j Hj [z Hz]. unfold blk7, tail_blk, mark_blk. change (CapDefs2.markidx 91) with 28. change (CapDefs2.markidx 93) with 29.
    change (0 <=? 28) with true. change (0 <=? 29) with true. cbv iota. change (Z.to_nat 28) with 28%nat. change (Z.to_nat 29) with 29%nat. unfold M_OFF.
    change (32 + 28)%nat with 60%nat. change (32 + 29)%nat with 61%nat.
    destruct (Nat.eq_dec j 61) as [->|N61].
    { exists 0. apply nth_error_upd_same. rewrite ?upd_length; rewrite ?upd_length; rewrite ?upd_length; rewrite ?Lb6; unfold LBUF_CELLS; nlia. }
    rewrite nth_error_upd_other by (first [congruence | rewrite ?upd_length; rewrite ?upd_length; rewrite ?upd_length; rewrite ?Lb6; unfold LBUF_CELLS; nlia]).
    rewrite nth_error_upd_other by (first [solve [clear - Hj; lia] | rewrite ?upd_length; rewrite ?upd_length; rewrite ?Lb6; unfold LBUF_CELLS; nlia]).
    destruct (Nat.eq_dec j 60) as [->|N60].
    { exists 0. apply nth_error_upd_same. rewrite ?upd_length; rewrite ?Lb6; unfold LBUF_CELLS; nlia. }
    rewrite nth_error_upd_other by (first [congruence | rewrite ?upd_length; rewrite ?Lb6; unfold LBUF_CELLS; nlia]).
    rewrite nth_error_upd_other by (first [solve [clear - Hj; lia] | rewrite ?Lb6; unfold LBUF_CELLS; nlia]).
    unfold blk6. rewrite shift_cells_nth by (rewrite Vl; unfold LBUF_CELLS; nlia).
    destruct (Nat.leb_spec 0 j); destruct (Nat.ltb_spec j (0 + 32)); try nlia. cbn [andb].
    unfold blk3, setn_blk. rewrite nth_error_upd_other by (rewrite ?Ul; unfold LBUF_CELLS, L_ln_n; nlia).
    rewrite Q1 by (unfold L_ln, L_ln_glob, L_ln_sz; nlia). exists z. exact Hz. }
  assert (X6 : forall j, (j < 32)%nat -> nth_error blk6 j = Some (VInt (f (nth j mk 0)))).
  { intros j Hj. unfold blk6. rewrite shift_cells_nth by (rewrite Vl; unfold LBUF_CELLS; nlia).
    destruct (Nat.leb_spec 0 j); [|nlia]. destruct (Nat.ltb_spec j (0 + 32)); [|nlia]. cbn [andb]. unfold cellz. rewrite (proj1 (Rows j Hj)). reflexivity. }
  clear W1 W2 W3 W4 W5 W6 W7 W8 W9 W11 W12 B4 G4 B5 Hbl4 Lmb. clearbody m7 m6 m5 m4 blk6. clear m6 m5 m4.
  assert (Hnc : (n <= c1)%nat) by nlia. assert (Hn'c : (n + ni < c1 + nd)%nat) by nlia. assert (Hc0 : (0 < c1)%nat) by nlia.
  assert (Hni : Z.of_nat pos + Z.of_nat ni <= 2147483647) by nlia.
  assert (PC2 := C2). assert (PC1 := C1).
  clear C1 C2 Zc1 Hsz Hcap' Hfuel Hgrow Hcap Hcap0 Hfit Rows Sarg Sarg' Sc. clearbody c1 call.
  clear T Cln Cgl Hstr Hnd Hmarks Tb Tl Tln Tgl Tn Tsz Tlnb Tglb Tlnl Tgll T1 P1 P2 Ub Uln Ugl Un Usz Ulnb Uglb Lbln1 Lbgl1 Bd T2 T3 Vb Vlnb Vglb K1 call w6 w7 w8 w9 w10 w11 sv'.
  assert (Hn' : length (splice lines (split_lines t) pos nd) = n') by (rewrite splice_length, split_len by exact Hpos; reflexivity).
  assert (LL4 : length L4 = c1).
  { unfold L4. rewrite put_cells_length; [exact Vlnl|]. unfold new_ptrs. rewrite map_length, seq_length, Vlnl. nlia. }
  assert (LG5 : length G5 = c1).
  { unfold G5, glob_arr. rewrite put_cells_length; [exact Vgll|]. rewrite repeat_length, Vgll. nlia. }
  split.
  { constructor.
    - exists L4, G5. rewrite Hn'. split; [|split].
      + constructor; try assumption; try (rewrite Hi7 by (unfold L_ln, L_ln_glob, L_ln_n, L_ln_sz; nlia); assumption).
        repeat split; assumption.
      + intros i Hi. unfold L4, lnblk3, new_ptrs.
        pose proof (ptr_cells (fun j => VPtr j 0) O lnblk1 lbs (seq (length m3) ni) pos nd n) as X. rewrite seq_length in X.
        apply X; try nlia; try exact Cln1; rewrite Ulnl; nlia.
      + intros i Hi. unfold G5, glblk3. apply (glob_cells glblk1 globs pos nd ni n); try nlia; try exact Cgl1; rewrite Ugll; nlia.
    - rewrite !splice_length, seq_length, split_len by nlia. rewrite Hlbs. reflexivity.
    - unfold splice_globs. rewrite !splice_length, new_globs_length, split_len by nlia. rewrite Hglobs. reflexivity.
    - rewrite Hn'. intros i Hi. rewrite !splice_nth by nlia. rewrite seq_length, split_len. fold ni. unfold str_at.
      destruct (Nat.ltb_spec i pos); [|destruct (Nat.ltb_spec i (pos + ni))].
      + assert (Hin : In (nth i lbs O) lbs) by (apply nth_In; nlia). destruct (Dlbs _ Hin) as (X1 & X2 & X3). destruct (D1 _ Hin) as (X4 & X5).
        pose proof (Llbs _ Hin).
        assert (Nd : ~ In (nth i lbs O) dels).
        { intro Hd. destruct (In_nth _ _ O Hd) as (j & Hj & Ej). rewrite Ldels in Hj. unfold dels in Ej. rewrite nth_sub in Ej by nlia.
          apply Inj in Ej; nlia. }
        rewrite V7, Old4, K3, K2 by (try assumption; nlia). apply Str1. nlia.
      + rewrite seq_nth by nlia. rewrite V7 by nlia. rewrite nth_error_app2 by nlia.
        replace (length m3 + (i - pos) - length m3)%nat with (i - pos)%nat by nlia. unfold NB.
        rewrite nth_error_map, (nth_error_nth' (split_lines t) []) by (rewrite split_len; fold ni; nlia). reflexivity.
      + assert (Hin : In (nth (i - ni + nd) lbs O) lbs) by (apply nth_In; nlia). destruct (Dlbs _ Hin) as (X1 & X2 & X3). destruct (D1 _ Hin) as (X4 & X5).
        pose proof (Llbs _ Hin).
        assert (Nd : ~ In (nth (i - ni + nd) lbs O) dels).
        { intro Hd. destruct (In_nth _ _ O Hd) as (j & Hj & Ej). rewrite Ldels in Hj. unfold dels in Ej. rewrite nth_sub in Ej by nlia.
          apply Inj in Ej; nlia. }
        rewrite V7, Old4, K3, K2 by (try assumption; nlia). apply Str1. nlia.
    - assert (Hs' : NoDup (splice lbs (seq (length m3) ni) pos nd)) by (apply splice_nodup; [exact Ndl|nlia|intros b Hb; pose proof (Llbs b Hb); nlia]).
      assert (Ho : forall c, In c (splice lbs (seq (length m3) ni) pos nd) -> c <> lb /\ c <> bln1 /\ c <> bgl1).
      { intros c Hc. destruct (splice_in_old lbs (length m3) ni pos nd c ltac:(nlia) Hc) as [Hin|Hge].
        - destruct (Dlbs _ Hin) as (X1 & _). destruct (D1 _ Hin) as (X4 & X5). repeat split; assumption.
        - repeat split; nlia. }
      constructor; [|constructor; [|constructor; [|exact Hs']]]; cbn [In].
      + intros [E|[E|Hc]]; [congruence|congruence|]. destruct (Ho _ Hc) as (X & _). congruence.
      + intros [E|Hc]; [congruence|]. destruct (Ho _ Hc) as (_ & X & _). congruence.
      + intro Hc. destruct (Ho _ Hc) as (_ & _ & X). congruence.
    - rewrite Hn'. split; nlia.
    - split.
      + unfold splice_marks. rewrite !upd_length; rewrite ?upd_length; rewrite ?map_length; nlia.
      + intros k Hk. unfold splice_marks, blk7, tail_blk, mark_blk. change (CapDefs2.markidx 91) with 28. change (CapDefs2.markidx 93) with 29.
        change (0 <=? 28) with true. change (0 <=? 29) with true. cbv iota. change (Z.to_nat 28) with 28%nat. change (Z.to_nat 29) with 29%nat. unfold M_OFF.
        rewrite (nth_upd _ 29 k) by (rewrite upd_length; rewrite ?map_length; nlia). rewrite (nth_upd _ 28 k) by (rewrite map_length; nlia).
        rewrite nth_error_upd_other by (rewrite ?upd_length; rewrite ?upd_length; rewrite ?upd_length; rewrite ?Lb6; unfold LBUF_CELLS; nlia).
        destruct (Nat.eqb_spec k 29) as [->|N29].
        { rewrite nth_error_upd_same by (rewrite ?upd_length; rewrite ?upd_length; rewrite ?Lb6; unfold LBUF_CELLS; nlia). reflexivity. }
        rewrite nth_error_upd_other by (try assumption; rewrite ?upd_length; rewrite ?upd_length; rewrite ?Lb6; unfold LBUF_CELLS; nlia).
        rewrite nth_error_upd_other by (rewrite ?upd_length; rewrite ?Lb6; unfold LBUF_CELLS; nlia).
        destruct (Nat.eqb_spec k 28) as [->|N28].
        { rewrite nth_error_upd_same by (rewrite ?Lb6; unfold LBUF_CELLS; nlia). reflexivity. }
        rewrite nth_error_upd_other by (try assumption; rewrite ?Lb6; unfold LBUF_CELLS; nlia). rewrite X6 by exact Hk.
        rewrite (nth_indep (map f mk) 0 (f 0)) by (rewrite map_length; nlia). rewrite map_nth. reflexivity. }
  split; [exact PC2|]. split; [exact PC1|]. split; [nlia|]. split; [nlia|].
  split.
  { intros c Hc Hout. destruct (Fr3 c Hc Hout) as (X1 & X2 & X3 & X4). rewrite V7, Old4 by (try assumption; nlia). exact X4. }
  split.
  { intros b Hb. pose proof (Idels b Hb) as Hin. destruct (Dlbs _ Hin) as (X1 & X2 & X3). destruct (D1 _ Hin) as (X4 & X5). pose proof (Llbs _ Hin).
    rewrite V7, Old4, K3 by (try assumption; nlia). apply F2. exact Hb. }
  assert (Nd_bln : ~ In bln dels) by (intro Hd; destruct (Dlbs _ (Idels _ Hd)) as (_ & X & _); congruence).
  assert (Nd_bgl : ~ In bgl dels) by (intro Hd; destruct (Dlbs _ (Idels _ Hd)) as (_ & _ & X); congruence).
  split.
  { destruct A1 as [E|[Y F]]; [left; exact E|right]. split; [exact Y|].
    assert (bln <> bgl1) by (destruct A2 as [->|[Y2 _]]; [exact N3|nlia]).
    rewrite V7, Old4, K3, K2 by (try assumption; try nlia; congruence). exact F. }
  split.
  { destruct A2 as [E|[Y F]]; [left; exact E|right]. split; [exact Y|].
    assert (bgl <> bln1) by (destruct A1 as [->|[Y2 _]]; [congruence|nlia]).
    rewrite V7, Old4, K3, K2 by (try assumption; try nlia; congruence). exact F. }
  split; [|exact Off7].
  intros j Hj. rewrite Hi7 by nlia. unfold blk3, setn_blk. rewrite nth_error_upd_other by (rewrite ?Ul; unfold LBUF_CELLS, L_ln_n; nlia).
  apply Q1; unfold L_ln, L_ln_glob, L_ln_sz; nlia.
Qed.
