(* TrSave.v -- lbuf_save of /repo/ex.c as C TEXT (property C03): the overwrite guard, open, lbuf_wr, close.

   tools/c2clite.py turns the function into cf_ex_lbuf_save (whitelist tools/c2clite.d/99zzzz_save.list); it calls the translated
   lbuf_len and lbuf_wr (coq/TrWrite.v) and the untranslated mtime, open, conf_mode, close, which an ORACLE answers (CLiteExt.callx).
   The oracle is the kernel of the model IoDefs.v, extended from TrWrite.v: besides the schedule block ks and the log block kl,
     block kt holds the time stamp stat(2) reports for the path (mtime(path); -1 = no such file), and
     block kf says whether the target descriptor (always 3) is open.
   open consumes one outcome of the schedule (an error = -1, anything else = descriptor 3), close of the OPEN descriptor consumes
   one (error = -1, else 0) and closes it in either case, close of a descriptor that is not open is -1 and consumes nothing (the
   second close(fd) of the error branch after a failed close) -- IoDefs.lbuf_save / save_opened read a schedule in exactly this way.

   tr_lbuf_save: for EVERY such oracle, schedule, buffer in memory, range, force flag and recorded time stamp the translated
   lbuf_save returns what save_run computes -- NULL, or one of the four message literals --, makes exactly its system calls in
   its order and leaves its schedule; save_run_model: that is IoDefs.lbuf_save: the same status (refused / failed / ok), the
   same schedule left over, for every file system whose time stamp for the path is the one in block kt. *)
From Coq Require Import List ZArith NArith Bool Lia.
From NV Require Import Bytes CLite CLiteProps GenCFuncs CLiteTac CLiteExt TrLbufBase TrWrite.
From NV Require IoDefs.
Import ListNotations.
Local Open Scope Z_scope.

(* ------------------------------------------------------------------ the kernel: open, close, mtime, conf_mode *)
Definition open_result (sblk : block) : Z := match sblk with VInt z :: _ => if z =? -1 then -1 else 3 | _ => 3 end.
Definition close_result (sblk : block) : Z := match sblk with VInt z :: _ => if z =? -1 then -1 else 0 | _ => 0 end.
Definition sys_open (ks kl kf : nat) (args : list val) (m : mem) : res (val * mem) :=
  match args with
  | [VPtr _ _; VInt _; VInt _] =>
      match nth_error m ks, nth_error m kl, nth_error m kf with
      | Some sblk, Some lblk, Some [VInt 0] =>
          let r := open_result sblk in
          Ok (VInt r, upd (upd (upd m ks (tl sblk)) kl (lblk ++ [VInt 3; VInt r])) kf [VInt (if r <? 0 then 0 else 1)])
      | _, _, _ => Err EOob
      end
  | _ => Err EShape
  end.
Definition sys_close (ks kl kf : nat) (args : list val) (m : mem) : res (val * mem) :=
  match args with
  | [VInt fd] =>
      match nth_error m ks, nth_error m kl, nth_error m kf with
      | Some sblk, Some lblk, Some [VInt live] =>
          if (live =? 1) && (fd =? 3) then
            let r := close_result sblk in
            Ok (VInt r, upd (upd (upd m ks (tl sblk)) kl (lblk ++ [VInt 4; VInt fd; VInt r])) kf [VInt 0])
          else Ok (VInt (-1), upd m kl (lblk ++ [VInt 4; VInt fd; VInt (-1)]))
      | _, _, _ => Err EOob
      end
  | _ => Err EShape
  end.
Definition sys_mtime (kt : nat) (args : list val) (m : mem) : res (val * mem) :=
  match args with
  | [VPtr _ _] => match nth_error m kt with Some [VInt mt] => Ok (VInt mt, m) | _ => Err EOob end
  | _ => Err EShape
  end.
Definition sys_mode (args : list val) (m : mem) : res (val * mem) :=
  match args with [] => Ok (VInt 384, m) | _ => Err EShape end.
(* the oracle of the whole save path *)
Definition sys_save (ks kl kt kf : nat) : nat -> list val -> mem -> res (val * mem) :=
  fun f args m =>
    if Nat.eqb f X_write then sys_write ks kl args m
    else if Nat.eqb f X_ftruncate then sys_trunc kl args m
    else if Nat.eqb f X_open then sys_open ks kl kf args m
    else if Nat.eqb f X_close then sys_close ks kl kf args m
    else if Nat.eqb f X_mtime then sys_mtime kt args m
    else if Nat.eqb f X_conf_mode then sys_mode args m
    else Err EShape.

Record save_oracle (ext : nat -> list val -> mem -> res (val * mem)) (ks kl kt kf : nat) : Prop := mk_save_oracle {
  so_kernel : kernel_oracle ext ks kl;
  so_open : forall args m, ext X_open args m = sys_open ks kl kf args m;
  so_close : forall args m, ext X_close args m = sys_close ks kl kf args m;
  so_mtime : forall args m, ext X_mtime args m = sys_mtime kt args m;
  so_mode : forall args m, ext X_conf_mode args m = sys_mode args m;
  so_sep : NoDup [ks; kl; kt; kf]
}.
Lemma sys_save_oracle ks kl kt kf : NoDup [ks; kl; kt; kf] -> save_oracle (sys_save ks kl kt kf) ks kl kt kf.
Proof.
  intro H. assert (ks <> kl) by (inversion H as [|? ? X _]; intro E; apply X; left; symmetry; exact E).
  constructor; try exact H.
  - split; [assumption|]. split; intros args m; unfold sys_save; rewrite ?Nat.eqb_refl; [reflexivity|].
    replace (Nat.eqb X_ftruncate X_write) with false by (vm_compute; reflexivity). reflexivity.
  - intros args m. unfold sys_save. replace (Nat.eqb X_open X_write) with false by (vm_compute; reflexivity).
    replace (Nat.eqb X_open X_ftruncate) with false by (vm_compute; reflexivity). rewrite Nat.eqb_refl. reflexivity.
  - intros args m. unfold sys_save. replace (Nat.eqb X_close X_write) with false by (vm_compute; reflexivity).
    replace (Nat.eqb X_close X_ftruncate) with false by (vm_compute; reflexivity).
    replace (Nat.eqb X_close X_open) with false by (vm_compute; reflexivity). rewrite Nat.eqb_refl. reflexivity.
  - intros args m. unfold sys_save. replace (Nat.eqb X_mtime X_write) with false by (vm_compute; reflexivity).
    replace (Nat.eqb X_mtime X_ftruncate) with false by (vm_compute; reflexivity).
    replace (Nat.eqb X_mtime X_open) with false by (vm_compute; reflexivity).
    replace (Nat.eqb X_mtime X_close) with false by (vm_compute; reflexivity). rewrite Nat.eqb_refl. reflexivity.
  - intros args m. unfold sys_save. replace (Nat.eqb X_conf_mode X_write) with false by (vm_compute; reflexivity).
    replace (Nat.eqb X_conf_mode X_ftruncate) with false by (vm_compute; reflexivity).
    replace (Nat.eqb X_conf_mode X_open) with false by (vm_compute; reflexivity).
    replace (Nat.eqb X_conf_mode X_close) with false by (vm_compute; reflexivity).
    replace (Nat.eqb X_conf_mode X_mtime) with false by (vm_compute; reflexivity). rewrite Nat.eqb_refl. reflexivity.
Qed.

Lemma x_open_none : nth_error cprog X_open = None. Proof. vm_compute. reflexivity. Qed.
Lemma x_close_none : nth_error cprog X_close = None. Proof. vm_compute. reflexivity. Qed.
Lemma x_mtime_none : nth_error cprog X_mtime = None. Proof. vm_compute. reflexivity. Qed.
Lemma x_conf_mode_none : nth_error cprog X_conf_mode = None. Proof. vm_compute. reflexivity. Qed.

(* the results read off the schedule itself *)
Definition open_res (s : sched) : Z := match s with IoDefs.OErr :: _ => -1 | _ => 3 end.
Definition close_res (s : sched) : Z := match s with IoDefs.OErr :: _ => -1 | _ => 0 end.
Lemma open_result_enc s : open_result (enc_sch s) = open_res s.
Proof.
  destruct s as [|[| |k] s]; try reflexivity. cbn [enc_sch map enc_out open_result open_res].
  destruct (Z.eqb_spec (Z.of_nat k) (-1)); [lia|reflexivity].
Qed.
Lemma close_result_enc s : close_result (enc_sch s) = close_res s.
Proof.
  destruct s as [|[| |k] s]; try reflexivity. cbn [enc_sch map enc_out close_result close_res].
  destruct (Z.eqb_spec (Z.of_nat k) (-1)); [lia|reflexivity].
Qed.

(* ------------------------------------------------------------------ lbuf_save, C-shaped, over a schedule *)
Definition L_changed : nat := G_lit_7772697465206661696c65643a2066696c652063_26.   (* "write failed: file changed" *)
Definition L_exists : nat := G_lit_7772697465206661696c65643a2066696c652065_25.    (* "write failed: file exists" *)
Definition L_create : nat := G_lit_7772697465206661696c65643a2063616e6e6f74_32.    (* "write failed: cannot create file" *)
Definition L_failed : nat := G_lit_7772697465206661696c6564_12.                    (* "write failed" *)

(* the value returned, the system calls made (mtime is not logged), the schedule left *)
(* ... once the target is open (descriptor 3): lbuf_wr, close *)
Definition opened_run (lines : list bytes) (b e : nat) (s1 : sched) : val * list event * sched :=
  let w := IoDefs.lbuf_wr lines b e in
  let '(ev, ok, r) := wa_run 3 (IoDefs.outp w) s1 in
  if ok then
    match r with
    | IoDefs.OErr :: r' =>
        (VPtr L_failed 0, EvOpen 3 :: ev ++ [EvTrunc 3 (Z.of_nat (IoDefs.wsz w)); EvClose 3 (-1); EvClose 3 (-1)], r')
    | _ => (VInt 0, EvOpen 3 :: ev ++ [EvTrunc 3 (Z.of_nat (IoDefs.wsz w)); EvClose 3 0], tl r)
    end
  else (VPtr L_failed 0, EvOpen 3 :: ev ++ [EvClose 3 (close_res r)], tl r).
(* ... behind the guards: open *)
Definition open_run (lines : list bytes) (b e : nat) (s : sched) : val * list event * sched :=
  match s with
  | IoDefs.OErr :: s' => (VPtr L_create 0, [EvOpen (-1)], s')
  | _ => opened_run lines b e (tl s)
  end.
Definition save_run (lines : list bytes) (b e : nat) (force : bool) (ts mt : Z) (s : sched) : val * list event * sched :=
  if negb force && (ts <? mt) then (VPtr L_changed 0, [], s)
  else if negb force && (ts <=? 0) && (0 <=? mt) then (VPtr L_exists 0, [], s)
  else open_run lines b e s.
Definition status_of (v : val) : IoDefs.status :=
  match v with
  | VInt _ => IoDefs.SOk
  | VPtr g _ => if Nat.eqb g L_changed || Nat.eqb g L_exists then IoDefs.SRefused else IoDefs.SFailed
  | VUndef => IoDefs.SFailed
  end.

(* save_run is IoDefs.lbuf_save: the same status, the same schedule left -- for every file system that reports mt for the path *)
Theorem save_run_model now lines b e path force ts fs s :
  let mt := IoDefs.fs_mtime fs path in
  let '(v, ev, r) := save_run lines b e force ts mt s in
  let '(st, fs', r') := IoDefs.lbuf_save now lines b e path force ts fs s in
  status_of v = st /\ r = r'.
Proof.
  cbv zeta. unfold save_run, IoDefs.lbuf_save, IoDefs.refuses.
  rewrite Z.gtb_ltb. rewrite Z.geb_leb.
  set (mt := IoDefs.fs_mtime fs path).
  assert (G : (if negb force && (ts <? mt) then true else if negb force && (ts <=? 0) && (0 <=? mt) then true else false)
              = negb force && ((ts <? mt) || (ts <=? 0) && (0 <=? mt))).
  { destruct force; cbn [negb andb]; [reflexivity|]. destruct (ts <? mt); [reflexivity|]. cbn [orb]. destruct ((ts <=? 0) && (0 <=? mt)); reflexivity. }
  rewrite <- G. clear G.
  destruct (negb force && (ts <? mt)); [split; reflexivity|].
  destruct (negb force && (ts <=? 0) && (0 <=? mt)); [split; reflexivity|].
  assert (Main : forall s1,
    let '(v, ev, r) := opened_run lines b e s1 in
    let '(st, fs', r') := IoDefs.save_opened now lines b e path fs s1 in status_of v = st /\ r = r').
  { intro s1. unfold opened_run. cbv zeta. unfold IoDefs.save_opened.
    pose proof (wa_run_model 3 (IoDefs.outp (IoDefs.lbuf_wr lines b e)) s1) as W.
    destruct (wa_run 3 (IoDefs.outp (IoDefs.lbuf_wr lines b e)) s1) as [[ev ok] r]. rewrite W.
    destruct ok; [|split; reflexivity]. destruct r as [|[| |k] r]; split; reflexivity. }
  unfold open_run.
  destruct s as [|[| |k] s]; try exact (Main _). split; reflexivity.
Qed.

(* ------------------------------------------------------------------ the memory: four kernel blocks *)
Section Save.
  Variable ext : nat -> list val -> mem -> res (val * mem).
  Variables ks kl kt kf : nat.
  Hypothesis Hext : save_oracle ext ks kl kt kf.

  Definition world4 (m : mem) (s : sched) (lg : list event) (mt live : Z) : Prop :=
    world_at ks kl m s lg /\ nth_error m kt = Some [VInt mt] /\ nth_error m kf = Some [VInt live].

  Lemma sep : ks <> kl /\ ks <> kt /\ ks <> kf /\ kl <> kt /\ kl <> kf /\ kt <> kf.
  Proof.
    destruct Hext as [_ _ _ _ _ H]. inversion H as [|? ? N1 H1]; subst. inversion H1 as [|? ? N2 H2]; subst.
    inversion H2 as [|? ? N3 H3]; subst. cbn in N1, N2, N3. intuition.
  Qed.

  Lemma world4_log_eq m s lg lg' mt live : lg = lg' -> world4 m s lg mt live -> world4 m s lg' mt live.
  Proof. intros <- H. exact H. Qed.

  (* the three kernel blocks rewritten *)
  Definition set3 (m : mem) (s : sched) (lg : list event) (live : Z) : mem :=
    upd (upd (upd m ks (enc_sch s)) kl (enc_log lg)) kf [VInt live].
  Lemma set3_nth m s lg live k : (ks < length m)%nat -> (kl < length m)%nat -> (kf < length m)%nat ->
    nth_error (set3 m s lg live) k =
    if Nat.eqb k kf then Some [VInt live] else if Nat.eqb k kl then Some (enc_log lg)
    else if Nat.eqb k ks then Some (enc_sch s) else nth_error m k.
  Proof.
    intros H1 H2 H3. unfold set3.
    assert (E1 : length (upd m ks (enc_sch s)) = length m) by (apply upd_length; exact H1).
    assert (E2 : length (upd (upd m ks (enc_sch s)) kl (enc_log lg)) = length m) by (rewrite upd_length by (rewrite E1; exact H2); exact E1).
    rewrite nth_error_upd_if by (rewrite E2; exact H3). destruct (Nat.eqb k kf); [reflexivity|].
    rewrite nth_error_upd_if by (rewrite E1; exact H2). destruct (Nat.eqb k kl); [reflexivity|].
    apply nth_error_upd_if. exact H1.
  Qed.
  Lemma set3_length m s lg live : (ks < length m)%nat -> (kl < length m)%nat -> (kf < length m)%nat ->
    length (set3 m s lg live) = length m.
  Proof.
    intros H1 H2 H3. unfold set3.
    assert (E1 : length (upd m ks (enc_sch s)) = length m) by (apply upd_length; exact H1).
    assert (E2 : length (upd (upd m ks (enc_sch s)) kl (enc_log lg)) = length m) by (rewrite upd_length by (rewrite E1; exact H2); exact E1).
    rewrite upd_length by (rewrite E2; exact H3). exact E2.
  Qed.
  Lemma world4_lt m s lg mt live : world4 m s lg mt live ->
    (ks < length m)%nat /\ (kl < length m)%nat /\ (kt < length m)%nat /\ (kf < length m)%nat.
  Proof. intros ([H1 H2] & H3 & H4). repeat split; apply nth_error_Some; congruence. Qed.
  Lemma set3_world4 m s lg mt live s' lg' live' : world4 m s lg mt live -> world4 (set3 m s' lg' live') s' lg' mt live'.
  Proof.
    intro H. destruct (world4_lt _ _ _ _ _ H) as (L1 & L2 & L3 & L4). destruct sep as (N1 & N2 & N3 & N4 & N5 & N6).
    destruct H as (_ & Ht & _). unfold world4, world_at. rewrite !set3_nth by assumption. rewrite !Nat.eqb_refl.
    destruct (Nat.eqb_spec ks kf); [contradiction|]. destruct (Nat.eqb_spec kl kf); [contradiction|].
    destruct (Nat.eqb_spec ks kl); [contradiction|]. destruct (Nat.eqb_spec kt kf); [contradiction|].
    destruct (Nat.eqb_spec kt kl); [congruence|]. destruct (Nat.eqb_spec kt ks); [congruence|]. repeat split; assumption.
  Qed.
  Lemma set3_other m s lg live k : (ks < length m)%nat -> (kl < length m)%nat -> (kf < length m)%nat ->
    k <> ks -> k <> kl -> k <> kf -> nth_error (set3 m s lg live) k = nth_error m k.
  Proof.
    intros H1 H2 H3 N1 N2 N3. rewrite set3_nth by assumption.
    destruct (Nat.eqb_spec k kf); [contradiction|]. destruct (Nat.eqb_spec k kl); [contradiction|].
    destruct (Nat.eqb_spec k ks); [contradiction|]. reflexivity.
  Qed.

  (* the four calls *)
  Lemma mtime_call m s lg mt live pb po d fuel : world4 m s lg mt live ->
    callx ext cprog fuel (S d) X_mtime [VPtr pb po] m = Ok (VInt mt, m).
  Proof. intros (_ & Ht & _). rewrite callx_S, x_mtime_none, (so_mtime _ _ _ _ _ Hext). unfold sys_mtime. rewrite Ht. reflexivity. Qed.
  Lemma mode_call m d fuel : callx ext cprog fuel (S d) X_conf_mode [] m = Ok (VInt 384, m).
  Proof. rewrite callx_S, x_conf_mode_none, (so_mode _ _ _ _ _ Hext). reflexivity. Qed.
  Lemma open_call m s lg mt pb po fl md d fuel : world4 m s lg mt 0 ->
    callx ext cprog fuel (S d) X_open [VPtr pb po; VInt fl; VInt md] m
    = Ok (VInt (open_res s), set3 m (tl s) (lg ++ [EvOpen (open_res s)]) (if open_res s <? 0 then 0 else 1)).
  Proof.
    intros ([Hs Hl] & _ & Hf). rewrite callx_S, x_open_none, (so_open _ _ _ _ _ Hext). unfold sys_open. rewrite Hs, Hl, Hf.
    rewrite open_result_enc, enc_sch_tl. unfold set3. rewrite enc_log_app. cbn [enc_log flat_map enc_ev]. rewrite app_nil_r. reflexivity.
  Qed.
  Lemma close_call_live m s lg mt d fuel : world4 m s lg mt 1 ->
    callx ext cprog fuel (S d) X_close [VInt 3] m = Ok (VInt (close_res s), set3 m (tl s) (lg ++ [EvClose 3 (close_res s)]) 0).
  Proof.
    intros ([Hs Hl] & _ & Hf). rewrite callx_S, x_close_none, (so_close _ _ _ _ _ Hext). unfold sys_close. rewrite Hs, Hl, Hf.
    cbn [Z.eqb Pos.eqb andb]. rewrite close_result_enc, enc_sch_tl. unfold set3. rewrite enc_log_app. cbn [enc_log flat_map enc_ev].
    rewrite app_nil_r. reflexivity.
  Qed.
  Lemma close_call_dead m s lg mt d fuel : world4 m s lg mt 0 ->
    callx ext cprog fuel (S d) X_close [VInt 3] m = Ok (VInt (-1), set3 m s (lg ++ [EvClose 3 (-1)]) 0).
  Proof.
    intros H. pose proof H as ([Hs Hl] & _ & Hf). destruct (world4_lt _ _ _ _ _ H) as (L1 & L2 & L3 & L4).
    rewrite callx_S, x_close_none, (so_close _ _ _ _ _ Hext). unfold sys_close. rewrite Hs, Hl, Hf.
    cbn [Z.eqb andb]. f_equal. f_equal. unfold set3. rewrite (upd_self m ks _ Hs).
    rewrite enc_log_app. cbn [enc_log flat_map enc_ev]. rewrite app_nil_r.
    symmetry. apply upd_self. rewrite nth_error_upd_other; [exact Hf|exact L2|]. destruct sep as (_ & _ & _ & _ & N & _). congruence.
  Qed.

  (* ---------------------------------------------------------------- lbuf_save *)
  Lemma lines_at_frame m m' lb bln lbs lines : lines_at ks kl m lb bln lbs lines ->
    (forall k, In k (lb :: bln :: lbs) -> nth_error m' k = nth_error m k) -> lines_at ks kl m' lb bln lbs lines.
  Proof.
    intros [Hb Hl Hn Hs Hz Hsep] Hk. constructor; try assumption.
    - destruct Hb as (blk & H1 & H2). exists blk. split; [|exact H2]. rewrite Hk by (left; reflexivity). exact H1.
    - destruct Hl as (lnblk & H1 & H2). exists lnblk. split; [|exact H2]. rewrite Hk by (right; left; reflexivity). exact H1.
    - intros i Hi. unfold str_at. rewrite Hk; [apply Hs; exact Hi|]. right; right. apply nth_In. lia.
  Qed.

  Lemma wmn m0 bufblk s lg k : (ks < length m0)%nat -> (kl < length m0)%nat ->
    nth_error (wm ks kl m0 bufblk s lg) k =
    if Nat.eqb k kl then Some (enc_log lg) else if Nat.eqb k ks then Some (enc_sch s)
    else if Nat.eqb k (length m0) then Some bufblk else nth_error m0 k.
  Proof.
    intros H1 H2. unfold wm. rewrite set_world_nth by (rewrite app_length; cbn [length]; lia).
    destruct (Nat.eqb k kl); [reflexivity|]. destruct (Nat.eqb k ks); [reflexivity|].
    destruct (Nat.eqb_spec k (length m0)) as [->|Hne]; [apply nth_error_app_new|].
    destruct (Nat.lt_ge_cases k (length m0)) as [L|L]; [apply nth_error_app_old; exact L|].
    transitivity (@None block); [|symmetry]; apply nth_error_None; [rewrite app_length; cbn [length]|]; lia.
  Qed.
  Lemma wm_world4 m0 s0 lg0 mt live bufblk s lg : world4 m0 s0 lg0 mt live -> world4 (wm ks kl m0 bufblk s lg) s lg mt live.
  Proof.
    intro H. destruct (world4_lt _ _ _ _ _ H) as (L1 & L2 & L3 & L4). destruct sep as (N1 & N2 & N3 & N4 & N5 & N6).
    destruct H as (_ & Ht & Hf). unfold world4, world_at. rewrite !wmn by assumption. rewrite !Nat.eqb_refl.
    destruct (Nat.eqb_spec ks kl); [contradiction|]. destruct (Nat.eqb_spec kt kl); [congruence|]. destruct (Nat.eqb_spec kt ks); [congruence|].
    destruct (Nat.eqb_spec kf kl); [congruence|]. destruct (Nat.eqb_spec kf ks); [congruence|].
    destruct (Nat.eqb_spec kt (length m0)); [lia|]. destruct (Nat.eqb_spec kf (length m0)); [lia|]. repeat split; assumption.
  Qed.
  Lemma wm_len m0 bufblk s lg : (ks < length m0)%nat -> (kl < length m0)%nat -> length (wm ks kl m0 bufblk s lg) = S (length m0).
  Proof. intros H1 H2. unfold wm. rewrite set_world_length; rewrite app_length; cbn [length]; lia. Qed.
  Lemma wm_other m0 bufblk s lg k : (ks < length m0)%nat -> (kl < length m0)%nat -> (k < length m0)%nat -> k <> ks -> k <> kl ->
    nth_error (wm ks kl m0 bufblk s lg) k = nth_error m0 k.
  Proof.
    intros H1 H2 L N1 N2. rewrite wmn by assumption. destruct (Nat.eqb_spec k kl); [contradiction|]. destruct (Nat.eqb_spec k ks); [contradiction|].
    destruct (Nat.eqb_spec k (length m0)); [lia|]. reflexivity.
  Qed.

  Definition ret_st (lb : nat) (beg e : Z) (pb : nat) (po force ts : Z) (v6 : val) (m : mem) : state :=
    mkst [VPtr lb 0; VInt beg; VInt e; VPtr pb po; VInt force; VInt ts; v6] m.

  Definition sv_rest : stmt := match fn_body cf_ex_lbuf_save with SSeq _ r => r | _ => SSkip end.
  Definition sv_open : stmt := match sv_rest with SSeq (SIf _ _ (SIf _ _ o)) _ => o | _ => SSkip end.
  Definition sv_ret0 : stmt := match sv_rest with SSeq _ r => r | _ => SSkip end.
  Definition post (m : mem) (v : val) (r : sched) (lg' : list event) (mt : Z) (o : outcome) : Prop :=
    exists st', o = OReturn v st' /\ world4 (memm st') r lg' mt 0 /\
      forall k, (k < length m)%nat -> k <> ks -> k <> kl -> k <> kf -> nth_error (memm st') k = nth_error m k.

  (* fd = open(path, O_WRONLY | O_CREAT, conf_mode()); lbuf_wr(lb, fd, beg, end); close(fd); return NULL *)
  Lemma sv_open_ok m lb bln lbs lines (beg e : nat) pb po force ts s lg mt d fuel :
    world4 m s lg mt 0 -> lines_at ks kl m lb bln lbs lines -> ~ In kt (lb :: bln :: lbs) -> ~ In kf (lb :: bln :: lbs) ->
    (e <= length lines)%nat -> Z.of_nat (length lines) <= 2147483647 -> Z.of_nat (length (concat lines)) <= 4611686018427387904 ->
    (length s + 2 <= fuel)%nat -> (e - beg + 2 <= fuel)%nat ->
    let '(v, ev, r) := open_run lines beg e s in
    post m v r (lg ++ ev) mt
      (match exec (callx ext cprog fuel (S (S (S d)))) fuel sv_open (ret_st lb (Z.of_nat beg) (Z.of_nat e) pb po force ts VUndef m) with
       | ONormal st1 => exec (callx ext cprog fuel (S (S (S d)))) fuel sv_ret0 st1
       | o => o
       end).
  Proof.
    intros Hw Hl Nt Nf He Hsmall Htotal Hf Hf'.
    destruct (world4_lt _ _ _ _ _ Hw) as (L1 & L2 & L3 & L4). destruct sep as (N1 & N2 & N3 & N4 & N5 & N6).
    pose proof Hext as [K _ _ _ _ _].
    unfold sv_open, sv_ret0, sv_rest, ret_st; cbn [fn_body cf_ex_lbuf_save]. xstep.
    rewrite mode_call. xstep. rewrite (open_call m s lg mt pb po _ _ _ fuel Hw). xstep.
    unfold open_run.
    assert (Hopen : open_res s = -1 \/ open_res s = 3) by (destruct s as [|[| |k] s']; cbn; auto).
    destruct Hopen as [Eo|Eo].
    - (* open failed *)
      destruct s as [|[| |k] s']; try discriminate Eo. cbn [open_res tl]. cbn [Z.ltb Z.compare]. xstep.
      eexists. split; [reflexivity|]. cbn [memm]. split; [eapply set3_world4; exact Hw|].
      intros k Lk Nk1 Nk2 Nk3. apply set3_other; assumption.
    - (* descriptor 3 *)
      assert (Es : open_run lines beg e s = opened_run lines beg e (tl s)) by (destruct s as [|[| |k] s']; try discriminate Eo; reflexivity).
      replace (match s with IoDefs.OErr :: s' => (VPtr L_create 0, [EvOpen (-1)], s') | _ => opened_run lines beg e (tl s) end)
        with (opened_run lines beg e (tl s)) by (destruct s as [|[| |k] s']; try discriminate Eo; reflexivity).
      rewrite Eo. cbn [Z.ltb Z.compare]. xstep.
      set (m1 := set3 m (tl s) (lg ++ [EvOpen 3]) 1).
      assert (Hw1 : world4 m1 (tl s) (lg ++ [EvOpen 3]) mt 1) by (eapply set3_world4; exact Hw).
      assert (Len1 : length m1 = length m) by (apply set3_length; assumption).
      assert (Hl1 : lines_at ks kl m1 lb bln lbs lines).
      { apply (lines_at_frame m); [exact Hl|]. intros k Hk. apply set3_other; try assumption.
        - destruct Hl as [_ _ _ _ _ [S1 _]]. intros ->. contradiction.
        - destruct Hl as [_ _ _ _ _ [_ S2]]. intros ->. contradiction.
        - intros ->. contradiction. }
      assert (Hf1 : (length (tl s) + 2 <= fuel)%nat) by (destruct s; cbn [tl length] in *; lia).
      pose proof (tr_lbuf_wr ext ks kl m1 lb bln lbs lines 3 beg e (tl s) (lg ++ [EvOpen 3]) d fuel K (proj1 Hw1) Hl1 He Hsmall Htotal Hf1 Hf') as X.
      cbv zeta in X. unfold opened_run. cbv zeta.
      destruct (wa_run 3 (IoDefs.outp (IoDefs.lbuf_wr lines beg e)) (tl s)) as [[ev ok] r]. destruct X as (bufblk' & X). rewrite X. xstep.
      destruct (world4_lt _ _ _ _ _ Hw1) as (M1 & M2 & M3 & M4).
      destruct ok.
      + (* lbuf_wr returned 0: close decides *)
        cbn [Z.eqb negb b2z]. xstep.
        set (lg2 := (lg ++ [EvOpen 3]) ++ ev ++ [EvTrunc 3 (Z.of_nat (IoDefs.wsz (IoDefs.lbuf_wr lines beg e)))]).
        set (m2 := wm ks kl m1 bufblk' r lg2).
        assert (Hw2 : world4 m2 r lg2 mt 1) by (eapply wm_world4; exact Hw1).
        assert (Len2 : length m2 = S (length m)) by (unfold m2; rewrite wm_len by assumption; lia).
        rewrite (close_call_live m2 r lg2 mt _ fuel Hw2). xstep.
        set (m3 := set3 m2 (tl r) (lg2 ++ [EvClose 3 (close_res r)]) 0).
        assert (Hw3 : world4 m3 (tl r) (lg2 ++ [EvClose 3 (close_res r)]) mt 0) by (eapply set3_world4; exact Hw2).
        assert (Fr3 : forall k, (k < length m)%nat -> k <> ks -> k <> kl -> k <> kf -> nth_error m3 k = nth_error m k).
        { intros k Lk Nk1 Nk2 Nk3. unfold m3. rewrite set3_other by (try assumption; rewrite Len2; lia).
          unfold m2. rewrite wm_other by (try assumption; lia). apply set3_other; assumption. }
        destruct r as [|[| |k] r']; cbn [close_res tl] in *; cbn [Z.eqb negb b2z]; xstep.
        * eexists. split; [reflexivity|]. cbn [memm]. unfold lg2 in Hw3. rewrite <- ?app_assoc in Hw3. cbn [app] in Hw3.
          rewrite <- ?app_assoc. cbn [app]. split; [exact Hw3|exact Fr3].
        * eexists. split; [reflexivity|]. cbn [memm]. unfold lg2 in Hw3. rewrite <- ?app_assoc in Hw3. cbn [app] in Hw3.
          rewrite <- ?app_assoc. cbn [app]. split; [exact Hw3|exact Fr3].
        * (* close failed: the second close is on a dead descriptor *)
          rewrite (close_call_dead m3 r' _ mt _ fuel Hw3). xstep.
          eexists. split; [reflexivity|]. cbn [memm].
          split.
          { apply (world4_log_eq _ _ ((lg2 ++ [EvClose 3 (-1)]) ++ [EvClose 3 (-1)]));
              [unfold lg2; rewrite <- ?app_assoc; cbn [app]; rewrite <- ?app_assoc; reflexivity|eapply set3_world4; exact Hw3]. }
          { intros k0 Lk Nk1 Nk2 Nk3. rewrite set3_other; [apply Fr3; assumption| | | |assumption|assumption|assumption];
            unfold m3; rewrite set3_length; rewrite ?Len2; lia. }
        * eexists. split; [reflexivity|]. cbn [memm]. unfold lg2 in Hw3. rewrite <- ?app_assoc in Hw3. cbn [app] in Hw3.
          rewrite <- ?app_assoc. cbn [app]. split; [exact Hw3|exact Fr3].
      + (* lbuf_wr returned 1: close(fd), "write failed" *)
        cbn [Z.eqb negb b2z]. xstep.
        set (lg2 := (lg ++ [EvOpen 3]) ++ ev ++ []).
        set (m2 := wm ks kl m1 bufblk' r lg2).
        assert (Hw2 : world4 m2 r lg2 mt 1) by (eapply wm_world4; exact Hw1).
        assert (Len2 : length m2 = S (length m)) by (unfold m2; rewrite wm_len by assumption; lia).
        rewrite (close_call_live m2 r lg2 mt _ fuel Hw2). xstep.
        eexists. split; [reflexivity|]. cbn [memm].
        split.
        { apply (world4_log_eq _ _ (lg2 ++ [EvClose 3 (close_res r)]));
            [unfold lg2; rewrite app_nil_r; rewrite <- ?app_assoc; cbn [app]; reflexivity|eapply set3_world4; exact Hw2]. }
        { intros k Lk Nk1 Nk2 Nk3. rewrite set3_other by (try assumption; rewrite Len2; lia).
          unfold m2. rewrite wm_other by (try assumption; lia). apply set3_other; assumption. }
  Qed.

  (* lbuf_save(lb, beg, end, path, force, ts) on the C text, under any schedule *)
  Theorem tr_lbuf_save m lb bln lbs lines (beg : nat) (enZ : Z) pb po force ts s lg mt d fuel :
    world4 m s lg mt 0 -> lines_at ks kl m lb bln lbs lines -> ~ In kt (lb :: bln :: lbs) -> ~ In kf (lb :: bln :: lbs) ->
    (exists blk, nth_error m lb = Some blk /\ nth_error blk L_ln_n = Some (VInt (Z.of_nat (length lines)))) ->
    let e := if enZ <? 0 then length lines else Z.to_nat enZ in
    (e <= length lines)%nat -> -2147483648 <= enZ <= 2147483647 ->
    Z.of_nat (length lines) <= 2147483647 -> Z.of_nat (length (concat lines)) <= 4611686018427387904 ->
    (length s + 2 <= fuel)%nat -> (e - beg + 2 <= fuel)%nat ->
    let '(v, ev, r) := save_run lines beg e (negb (force =? 0)) ts mt s in
    exists m',
      callx ext cprog fuel (S (S (S (S d)))) F_ex_lbuf_save
            [VPtr lb 0; VInt (Z.of_nat beg); VInt enZ; VPtr pb po; VInt force; VInt ts] m = Ok (v, m')
      /\ world4 m' r (lg ++ ev) mt 0
      /\ forall k, (k < length m)%nat -> k <> ks -> k <> kl -> k <> kf -> nth_error m' k = nth_error m k.
  Proof.
    intros Hw Hl Nt Nf (sblk & Hsb & Hlnn) e He Hen Hsmall Htotal Hf Hf'.
    pose proof (sv_open_ok m lb bln lbs lines beg e pb po force ts s lg mt d fuel Hw Hl Nt Nf He Hsmall Htotal Hf Hf') as Open.
    enterx F_ex_lbuf_save cf_ex_lbuf_save. rewrite exec_seq.
    (* if (end < 0) end = lbuf_len(lb); *)
    match goal with |- context [exec ?c ?f (SIf ?ce ?a ?b) ?st] =>
      assert (E0 : exec c f (SIf ce a b) st = ONormal (ret_st lb (Z.of_nat beg) (Z.of_nat e) pb po force ts VUndef m)) end.
    { unfold ret_st. xstep. unfold e. destruct (Z.ltb_spec enZ 0); xstep.
      - enterx F_lbuf_len cf_lbuf_len. xstep. rewrite (fld_load m lb sblk L_ln_n _ _ Hsb Hlnn) by reflexivity. xstep.
        rewrite wrap_I32_id by lia. reflexivity.
      - rewrite Z2Nat.id by lia. reflexivity. }
    rewrite E0. clear E0.
    unfold sv_open, sv_ret0, sv_rest in Open; cbn [fn_body cf_ex_lbuf_save] in Open.
    match goal with |- context [SIf ?c1 ?r1 (SIf ?c2 ?r2 ?o)] => remember o as OPEN eqn:EO end.
    remember (SReturn (Some (EConst 0))) as RET0 eqn:ER.
    assert (Stay : exists m', Ok (VPtr L_changed 0, m) = Ok (VPtr L_changed 0, m') /\ world4 m' s (lg ++ []) mt 0 /\
              (forall k, (k < length m)%nat -> k <> ks -> k <> kl -> k <> kf -> nth_error m' k = nth_error m k))
      by (exists m; rewrite app_nil_r; split; [reflexivity|split; [exact Hw|reflexivity]]).
    assert (Stay2 : exists m', Ok (VPtr L_exists 0, m) = Ok (VPtr L_exists 0, m') /\ world4 m' s (lg ++ []) mt 0 /\
              (forall k, (k < length m)%nat -> k <> ks -> k <> kl -> k <> kf -> nth_error m' k = nth_error m k))
      by (exists m; rewrite app_nil_r; split; [reflexivity|split; [exact Hw|reflexivity]]).
    (* the guards are passed: open *)
    assert (Go : forall st, st = ret_st lb (Z.of_nat beg) (Z.of_nat e) pb po force ts VUndef m ->
      let '(v, ev, r) := open_run lines beg e s in
      exists m',
        match match exec (callx ext cprog fuel (S (S (S d)))) fuel OPEN st with
              | ONormal st1 => exec (callx ext cprog fuel (S (S (S d)))) fuel RET0 st1
              | o => o
              end with
        | ONormal st0 => Ok (VUndef, memm st0)
        | OReturn v0 st0 => Ok (v0, memm st0)
        | OErr x => Err x
        | _ => Err EShape
        end = Ok (v, m') /\ world4 m' r (lg ++ ev) mt 0 /\
        (forall k, (k < length m)%nat -> k <> ks -> k <> kl -> k <> kf -> nth_error m' k = nth_error m k)).
    { intros st ->. subst OPEN RET0. destruct (open_run lines beg e s) as [[v ev] r].
      destruct Open as (st' & -> & W & F). exists (memm st'). split; [reflexivity|split; assumption]. }
    specialize (Go _ eq_refl).
    unfold save_run, ret_st in *. rewrite exec_seq.
    destruct (Z.eqb_spec force 0) as [Ef|Ef]; cbn [negb andb].
    - (* no !: the two guards *)
      subst force. xstep. rewrite (mtime_call m s lg mt 0 pb po _ fuel Hw). xstep.
      destruct (Z.ltb_spec ts mt) as [H1|H1]; xstep; [unfold L_changed in Stay; exact Stay|].
      change (wrap I64 0) with 0. destruct (Z.leb_spec ts 0) as [H2|H2]; xstep.
      + rewrite (mtime_call m s lg mt 0 pb po _ fuel Hw). xstep.
        destruct (Z.leb_spec 0 mt) as [H3|H3]; xstep; [unfold L_exists in Stay2; exact Stay2|].
        destruct (open_run lines beg e s) as [[v ev] r]. exact Go.
      + destruct (open_run lines beg e s) as [[v ev] r]. exact Go.
    - (* !: no guard *)
      assert (Efb : (force =? 0) = false) by (apply Z.eqb_neq; exact Ef).
      repeat (progress (xstep; rewrite ?Efb; cbn [negb andb b2z])). change (wrap I64 0) with 0.
      destruct (open_run lines beg e s) as [[v ev] r]. exact Go.
  Qed.
End Save.

Lemma st_changed : status_of (VPtr L_changed 0) <> IoDefs.SOk. Proof. vm_compute. discriminate. Qed.
Lemma st_exists : status_of (VPtr L_exists 0) <> IoDefs.SOk. Proof. vm_compute. discriminate. Qed.
Lemma st_create : status_of (VPtr L_create 0) <> IoDefs.SOk. Proof. vm_compute. discriminate. Qed.
Lemma st_failed : status_of (VPtr L_failed 0) <> IoDefs.SOk. Proof. vm_compute. discriminate. Qed.

(* ------------------------------------------------------------------ the statement in the model's own terms *)
(* the translated lbuf_save against IoDefs.lbuf_save: the same status, the same schedule left, for every file system that
   reports the time stamp of block kt for the path; NULL is returned exactly for status ok *)
Theorem tr_lbuf_save_model ext ks kl kt kf m lb bln lbs lines (beg : nat) (enZ : Z) pb po force ts s lg mt d fuel now path fs :
  save_oracle ext ks kl kt kf -> world4 ks kl kt kf m s lg mt 0 -> lines_at ks kl m lb bln lbs lines ->
  ~ In kt (lb :: bln :: lbs) -> ~ In kf (lb :: bln :: lbs) ->
  (exists blk, nth_error m lb = Some blk /\ nth_error blk L_ln_n = Some (VInt (Z.of_nat (length lines)))) ->
  let e := if enZ <? 0 then length lines else Z.to_nat enZ in
  (e <= length lines)%nat -> -2147483648 <= enZ <= 2147483647 ->
  Z.of_nat (length lines) <= 2147483647 -> Z.of_nat (length (concat lines)) <= 4611686018427387904 ->
  (length s + 2 <= fuel)%nat -> (e - beg + 2 <= fuel)%nat ->
  IoDefs.fs_mtime fs path = mt ->
  let '(st, fs', r) := IoDefs.lbuf_save now lines beg e path (negb (force =? 0)) ts fs s in
  exists v ev m',
    callx ext cprog fuel (S (S (S (S d)))) F_ex_lbuf_save
          [VPtr lb 0; VInt (Z.of_nat beg); VInt enZ; VPtr pb po; VInt force; VInt ts] m = Ok (v, m')
    /\ status_of v = st /\ (v = VInt 0 <-> st = IoDefs.SOk)
    /\ world4 ks kl kt kf m' r (lg ++ ev) mt 0
    /\ forall k, (k < length m)%nat -> k <> ks -> k <> kl -> k <> kf -> nth_error m' k = nth_error m k.
Proof.
  intros Hext Hw Hl Nt Nf Hn e He Hen Hsmall Htotal Hf Hf' Hmt.
  pose proof (tr_lbuf_save ext ks kl kt kf Hext m lb bln lbs lines beg enZ pb po force ts s lg mt d fuel Hw Hl Nt Nf Hn He Hen Hsmall Htotal Hf Hf') as X.
  cbv zeta in X. fold e in X.
  pose proof (save_run_model now lines beg e path (negb (force =? 0)) ts fs s) as Y. cbv zeta in Y. rewrite Hmt in Y.
  assert (V : forall v ev r, save_run lines beg e (negb (force =? 0)) ts mt s = (v, ev, r) -> (v = VInt 0 <-> status_of v = IoDefs.SOk)).
  { intros v ev r E. unfold save_run, open_run, opened_run in E. cbv zeta in E.
    assert (Fin : forall (x : val * list event * sched), (fst (fst x) = VInt 0 \/ exists g, fst (fst x) = VPtr g 0 /\ status_of (VPtr g 0) <> IoDefs.SOk) ->
                  x = (v, ev, r) -> (v = VInt 0 <-> status_of v = IoDefs.SOk)).
    { intros x Hx Ex. subst x. cbn [fst] in *. destruct Hx as [->|(g & -> & Hg)]; split; intro H; try reflexivity; [discriminate H|contradiction]. }
    destruct (negb (negb (force =? 0)) && (ts <? mt)); [(refine (Fin _ _ E); right; exists L_changed; split; [reflexivity|exact st_changed])|].
    destruct (negb (negb (force =? 0)) && (ts <=? 0) && (0 <=? mt)); [(refine (Fin _ _ E); right; exists L_exists; split; [reflexivity|exact st_exists])|].
    assert (Op : forall s1, match (let '(ev0, ok, r0) := wa_run 3 (IoDefs.outp (IoDefs.lbuf_wr lines beg e)) s1 in
                      if ok then match r0 with
                                 | IoDefs.OErr :: r' => (VPtr L_failed 0, EvOpen 3 :: ev0 ++ [EvTrunc 3 (Z.of_nat (IoDefs.wsz (IoDefs.lbuf_wr lines beg e))); EvClose 3 (-1); EvClose 3 (-1)], r')
                                 | _ => (VInt 0, EvOpen 3 :: ev0 ++ [EvTrunc 3 (Z.of_nat (IoDefs.wsz (IoDefs.lbuf_wr lines beg e))); EvClose 3 0], tl r0)
                                 end
                      else (VPtr L_failed 0, EvOpen 3 :: ev0 ++ [EvClose 3 (close_res r0)], tl r0)) with x =>
                    fst (fst x) = VInt 0 \/ exists g, fst (fst x) = VPtr g 0 /\ status_of (VPtr g 0) <> IoDefs.SOk end).
    { intro s1. destruct (wa_run 3 (IoDefs.outp (IoDefs.lbuf_wr lines beg e)) s1) as [[ev0 ok] r0].
      destruct ok; [destruct r0 as [|[| |k] r0]|]; cbn [fst]; first [left; reflexivity|right; exists L_failed; split; [reflexivity|exact st_failed]]. }
    destruct s as [|[| |k] s']; first [exact (Fin _ (Op _) E)|(refine (Fin _ _ E); right; exists L_create; split; [reflexivity|exact st_create])]. }
  destruct (save_run lines beg e (negb (force =? 0)) ts mt s) as [[v ev] r] eqn:E.
  destruct (IoDefs.lbuf_save now lines beg e path (negb (force =? 0)) ts fs s) as [[st fs'] r'].
  destruct Y as [Y1 Y2]. subst r'. destruct X as (m' & X1 & X2 & X3). exists v, ev, m'.
  split; [exact X1|]. split; [exact Y1|]. split; [rewrite <- Y1; exact (V v ev r eq_refl)|]. split; assumption.
Qed.

(* ------------------------------------------------------------------ a small memory for the examples *)
(* TrWrite.ex_lines in blocks 0..4 (struct lbuf with ln_n = 3), 5 the schedule, 6 the log, 7 the time stamp of the path,
   8 the descriptor state, 9 the path "f" *)
Definition ex_lbuf3 : block := repeat (VInt 0) 64 ++ [VPtr 1 0; VInt 0; VInt 3] ++ repeat (VInt 0) 8.
Definition ex_smem (s : sched) (mt : Z) : mem :=
  [ex_lbuf3; [VPtr 2 0; VPtr 3 0; VPtr 4 0]; cstr_block (zb [97; 98; 10]%N); cstr_block (zb [99; 10]%N);
   cstr_block (zb ex_long); enc_sch s; []; [VInt mt]; [VInt 0]; cstr_block [102]].
Lemma ex_slines_at s mt : lines_at 5 6 (ex_smem s mt) 0 1 [2; 3; 4]%nat ex_lines.
Proof.
  constructor.
  - exists ex_lbuf3. split; [reflexivity|vm_compute; reflexivity].
  - exists [VPtr 2 0; VPtr 3 0; VPtr 4 0]. split; [reflexivity|]. intros i Hi. change (length ex_lines) with 3%nat in Hi.
    destruct i as [|[|[|i]]]; [reflexivity|reflexivity|reflexivity|lia].
  - reflexivity.
  - intros i Hi. change (length ex_lines) with 3%nat in Hi.
    destruct i as [|[|[|i]]]; [reflexivity|reflexivity|reflexivity|lia].
  - constructor; [repeat constructor|constructor; [repeat constructor|constructor; [exact ex_long_nonul|constructor]]].
  - split; intros H; cbn in H; intuition discriminate.
Qed.
(* lbuf_save(lb, 0, en, "f", force, ts) run on that memory: the value returned, the log, the schedule left *)
Definition ex_save (s : sched) (mt en force ts : Z) : option (val * block * block) :=
  match callx (sys_save 5 6 7 8) cprog 10 5 F_ex_lbuf_save [VPtr 0 0; VInt 0; VInt en; VPtr 9 0; VInt force; VInt ts] (ex_smem s mt) with
  | Ok (v, m') => Some (v, log_of m' 6, log_of m' 5)
  | Err _ => None
  end.
