(* TrEx.v -- C05: the byte scanners of the ex command line (ex.c: ex_loc, ex_cmd, ex_arg, ex_plus) as
   translated by tools/c2clite.py (GenCFuncs.v) do what the capacity model of CapDefs.v says, for ALL
   inputs: when the model, writing into a buffer of [length blk] bytes, returns a value (no OobRd, OobWr,
   NoFuel), the CLite term of the C function, run on a memory whose block [bs] holds the source string
   and whose block [bd] is the destination array, returns Ok -- every load and store was inside its
   block --, the returned pointer is the model's position, and the destination block holds the bytes
   the model wrote (as chars) in front of its untouched rest.  Composed with CapProps.ex_parts_fit:
   for a line shorter than EXLEN and a destination of EXLEN cells the model always returns a value,
   so the C text never stores outside loc/cmd/arg[EXLEN]. *)
From Coq Require Import List ZArith NArith Bool Lia.
From NV Require Import Bytes GenConsts GenExCmds CLite CLiteProps GenCFuncs.
From NV Require CapDefs CapProps.
Import ListNotations.
Local Open Scope Z_scope.

Ltac enter f cf :=
  rewrite callf_S; cbn [nth_error cprog f cf fn_nparams fn_nlocals fn_body length Nat.eqb Nat.sub repeat app].

(* ------------------------------------------------------------------ chars *)
Definition sc (c : N) : Z := wrap I8 (Z.of_N c).              (* the char that holds byte c *)
Definition sx (c : N) : Z := wrap I32 (wrap I8 (Z.of_N c)).    (* ... promoted to int *)
Definition cell (c : N) : val := VInt (sc c).

Lemma sc_cases : forall c, (c < 256)%N -> sc c = if (c <? 128)%N then Z.of_N c else Z.of_N c - 256.
Proof.
  intros c Hc. apply Z.eqb_eq. revert c Hc.
  apply (byte_sweep (fun c => sc c =? (if (c <? 128)%N then Z.of_N c else Z.of_N c - 256))). vm_compute. reflexivity.
Qed.
Lemma wrap_I32_small z : -2147483648 <= z <= 2147483647 -> wrap I32 z = z.
Proof.
  intro H. unfold wrap. cbn [ity_bits ity_signed andb].
  change (2 ^ 32) with 4294967296. change (2 ^ (32 - 1)) with 2147483648.
  destruct (Z.leb_spec 2147483648 (z mod 4294967296)) as [L|L].
  - assert (z < 0) by (destruct (Z.lt_ge_cases z 0); [assumption|rewrite Z.mod_small in L by lia; lia]).
    rewrite <- (Z.mod_add z 1 4294967296) by lia. rewrite Z.mod_small by lia. lia.
  - assert (0 <= z) by (destruct (Z.lt_ge_cases z 0); [|assumption]; exfalso;
      rewrite <- (Z.mod_add z 1 4294967296) in L by lia; rewrite Z.mod_small in L by lia; lia).
    apply Z.mod_small. lia.
Qed.
Lemma sx_cases c : (c < 256)%N -> wrap I32 (wrap I8 (Z.of_N c)) = if (c <? 128)%N then Z.of_N c else Z.of_N c - 256.
Proof.
  intro Hc. change (wrap I8 (Z.of_N c)) with (sc c). rewrite (sc_cases c Hc).
  destruct (N.ltb_spec c 128); apply wrap_I32_small; lia.
Qed.
(* a char compared with a character constant *)
Lemma sx_eqb_pos c p : (c < 256)%N -> (p < 128)%positive ->
  (wrap I32 (wrap I8 (Z.of_N c)) =? Zpos p) = (c =? Npos p)%N.
Proof.
  intros Hc Hp. rewrite (sx_cases c Hc).
  destruct (N.ltb_spec c 128); cbv iota;
    match goal with |- (?x =? ?y) = _ => destruct (Z.eqb_spec x y) end;
    destruct (N.eqb_spec c (N.pos p)); try reflexivity; exfalso; lia.
Qed.
Lemma sx_eqb_0 c : (c < 256)%N -> (wrap I32 (wrap I8 (Z.of_N c)) =? 0) = (c =? 0)%N.
Proof.
  intros Hc. rewrite (sx_cases c Hc).
  destruct (N.ltb_spec c 128); cbv iota;
    match goal with |- (?x =? ?y) = _ => destruct (Z.eqb_spec x y) end;
    destruct (N.eqb_spec c 0); try reflexivity; exfalso; lia.
Qed.
Lemma sc_eqb_0 c : (c < 256)%N -> (wrap I8 (Z.of_N c) =? 0) = (c =? 0)%N.
Proof.
  intros Hc. change (wrap I8 (Z.of_N c)) with (sc c). rewrite (sc_cases c Hc).
  destruct (N.ltb_spec c 128); cbv iota;
    match goal with |- (?x =? ?y) = _ => destruct (Z.eqb_spec x y) end;
    destruct (N.eqb_spec c 0); try reflexivity; exfalso; lia.
Qed.
Lemma sx_eqb_sx a b : (a < 256)%N -> (b < 256)%N ->
  (wrap I32 (wrap I8 (Z.of_N a)) =? wrap I32 (wrap I8 (Z.of_N b))) = (a =? b)%N.
Proof.
  intros Ha Hb. rewrite (sx_cases a Ha), (sx_cases b Hb).
  destruct (N.ltb_spec a 128), (N.ltb_spec b 128); cbv iota;
    match goal with |- (?x =? ?y) = _ => destruct (Z.eqb_spec x y) end;
    destruct (N.eqb_spec a b); try reflexivity; exfalso; lia.
Qed.
Lemma sc_idem c : (c < 256)%N -> wrap I8 (wrap I8 (Z.of_N c)) = wrap I8 (Z.of_N c).
Proof.
  intro Hc. apply Z.eqb_eq. revert c Hc.
  apply (byte_sweep (fun c => wrap I8 (wrap I8 (Z.of_N c)) =? wrap I8 (Z.of_N c))). vm_compute. reflexivity.
Qed.
(* every char comparison left by the symbolic execution becomes the comparison of the model *)
Ltac chars H256 :=
  repeat match goal with
         | |- context [wrap I32 (wrap I8 (Z.of_N ?c)) =? Zpos ?p] =>
             rewrite (sx_eqb_pos c p) by (first [apply nthb_lt256; exact H256 | assumption | reflexivity])
         | |- context [wrap I32 (wrap I8 (Z.of_N ?c)) =? 0] =>
             rewrite (sx_eqb_0 c) by (first [apply nthb_lt256; exact H256 | assumption])
         | |- context [wrap I8 (Z.of_N ?c) =? 0] =>
             rewrite (sc_eqb_0 c) by (first [apply nthb_lt256; exact H256 | assumption])
         end.

Ltac xs := repeat (progress (xstep; cbn [b2z]; try change (0 =? 0) with true; try change (1 =? 0) with false; cbn [negb])).

(* a fact about one byte, decided by trying the 256 values *)
Definition resZ_eqb (a b : res Z) : bool := match a, b with Ok x, Ok y => x =? y | _, _ => false end.
Lemma resZ_eqb_eq a b : resZ_eqb a b = true -> a = b.
Proof. destruct a, b; cbn; try discriminate. intro H. apply Z.eqb_eq in H. now subst. Qed.
Ltac byte_fact :=
  match goal with
  | |- forall c, (c < 256)%N -> @eq (res Z) (@?L c) (@?R c) =>
      intros c Hc; apply resZ_eqb_eq; revert c Hc;
      apply (byte_sweep (fun c => resZ_eqb (L c) (R c))); vm_compute; reflexivity
  | |- forall c, (c < 256)%N -> @eq bool (@?L c) (@?R c) =>
      intros c Hc; apply eqb_prop; revert c Hc;
      apply (byte_sweep (fun c => Bool.eqb (L c) (R c))); vm_compute; reflexivity
  | |- forall c, (c < 256)%N -> @eq Z (@?L c) (@?R c) =>
      intros c Hc; apply Z.eqb_eq; revert c Hc;
      apply (byte_sweep (fun c => Z.eqb (L c) (R c))); vm_compute; reflexivity
  end.
Lemma ct_arg_byte c : (c < 256)%N -> ct_arg (Z.of_N c) = Ok (Z.of_N c).
Proof.
  intro H. unfold ct_arg. destruct (Z.leb_spec (-1) (Z.of_N c)); [|lia]. destruct (Z.leb_spec (Z.of_N c) 255); [|lia]. reflexivity.
Qed.
Lemma isalpha_byte : forall c, (c < 256)%N -> ct_isalpha (Z.of_N c) = CapDefs.c_isalpha c.
Proof. byte_fact. Qed.
Lemma builtin_isalpha c mm : (c < 256)%N ->
  do_builtin_m BIsalpha [VInt (Z.of_N c)] mm = Ok (VInt (b2z (CapDefs.c_isalpha c)), mm).
Proof. intro H. cbn [do_builtin_m do_builtin]. rewrite (ct_arg_byte c H). cbn [bind]. rewrite (isalpha_byte c H). reflexivity. Qed.

Lemma isspace_byte : forall c, (c < 256)%N -> ct_isspace (Z.of_N c) = CapDefs.c_isspace c.
Proof. byte_fact. Qed.
Lemma builtin_isspace c mm : (c < 256)%N ->
  do_builtin_m BIsspace [VInt (Z.of_N c)] mm = Ok (VInt (b2z (CapDefs.c_isspace c)), mm).
Proof. intro H. cbn [do_builtin_m do_builtin]. rewrite (ct_arg_byte c H). cbn [bind]. rewrite (isspace_byte c H). reflexivity. Qed.

(* strchr(".$0123456789'/?+-,;%", c) != NULL, for every byte c: the terminator or a member of the address set *)
Notation G_exloc := G_lit_2e2430313233343536373839272f3f2b2d2c3b25_20.
Notation gb_exloc := gb_lit_2e2430313233343536373839272f3f2b2d2c3b25_20.
Definition strchr_hit (c : N) : res Z :=
  do r <- scanc gb_exloc (wrap I8 (Z.of_N c)) O;
  ptr_cmp ONe (match r with Some n => VPtr G_exloc (0 + Z.of_nat n) | None => VInt 0 end) (VInt 0).
Lemma strchr_fact : forall c, (c < 256)%N -> strchr_hit c = Ok (b2z ((c =? 0)%N || CapDefs.mem c exloc_set)).
Proof. byte_fact. Qed.

(* ------------------------------------------------------------------ the model's checked memory *)
Lemma rd_nthb s i c : CapDefs.rd s i = CapDefs.Ok c -> (i <= length s)%nat /\ c = nthb s i.
Proof.
  unfold CapDefs.rd, nthb. destruct (nth_error s i) eqn:E.
  - intro H. injection H as <-. split; [apply Nat.lt_le_incl, nth_error_Some; congruence|].
    symmetry. apply nth_error_nth. exact E.
  - destruct (Nat.eqb_spec i (length s)); [|discriminate]. intro H. injection H as <-. subst i.
    split; [lia|]. rewrite nth_overflow by lia. reflexivity.
Qed.
Lemma wr_inv w c w' : CapDefs.wr w c = CapDefs.Ok w' ->
  fst w' = c :: fst w /\ CapDefs.wlen w' = S (CapDefs.wlen w) /\ CapDefs.wcap w' = CapDefs.wcap w /\
  (CapDefs.wlen w < CapDefs.wcap w)%nat.
Proof.
  destruct w as [l r]. unfold CapDefs.wr, CapDefs.wcap, CapDefs.wlen, CapDefs.wroom. cbn [fst snd].
  destruct r as [|r]; [discriminate|]. intro H. injection H as <-. cbn [fst snd length]. repeat split; lia.
Qed.

(* the destination array after the writes recorded in w: the chars written, then the rest of blk *)
Definition wcells (w : CapDefs.W) : list val := map cell (rev (fst w)).
Definition dblock (w : CapDefs.W) (blk : block) : block := wcells w ++ skipn (CapDefs.wlen w) blk.
Lemma wcells_length w : length (wcells w) = CapDefs.wlen w.
Proof. unfold wcells, CapDefs.wlen. rewrite map_length, rev_length. reflexivity. Qed.
Lemma dblock_length w blk : (CapDefs.wlen w <= length blk)%nat -> length (dblock w blk) = length blk.
Proof. intro H. unfold dblock. rewrite app_length, wcells_length, skipn_length. lia. Qed.
Lemma dblock_new cap blk : dblock (CapDefs.newbuf cap) blk = blk.
Proof. reflexivity. Qed.
Lemma dblock_wr w c w' blk : CapDefs.wr w c = CapDefs.Ok w' -> (CapDefs.wcap w <= length blk)%nat ->
  upd (dblock w blk) (CapDefs.wlen w) (cell c) = dblock w' blk.
Proof.
  intros H Hcap. destruct (wr_inv w c w' H) as (F & L & _ & Hlt).
  unfold dblock. rewrite L. pose proof (wcells_length w) as WL. rewrite <- WL.
  rewrite upd_prefix by (rewrite WL; lia).
  f_equal. unfold wcells. rewrite F. cbn [rev]. rewrite map_app. reflexivity.
Qed.

Section Scan.
  (* the memory: the source string in block bs, the destination array blk in block bd *)
  Variables (m : mem) (bs bd : nat) (s : bytes) (blk : block).
  Hypothesis Hs : str_at m bs s.
  Hypothesis H256 : bytes_lt256 s.
  Hypothesis Hd : nth_error m bd = Some blk.
  Hypothesis Hne : bs <> bd.

  Definition MM (w : CapDefs.W) : mem := upd m bd (dblock w blk).
  (* src at position i, dst behind the bytes written so far *)
  Local Notation ST i w rest :=
    (mkst (VPtr bs (Z.of_nat i) :: VPtr bd (Z.of_nat (CapDefs.wlen w)) :: rest) (MM w)).

  Lemma bd_lt : (bd < length m)%nat.
  Proof. apply nth_error_Some. congruence. Qed.
  Lemma MM_new cap : MM (CapDefs.newbuf cap) = m.
  Proof. unfold MM. rewrite dblock_new. apply upd_self. exact Hd. Qed.
  Lemma load_src w o : (o <= length s)%nat -> load (MM w) bs (Z.of_nat o) = Ok (VInt (Z.of_N (nthb s o))).
  Proof.
    intro Ho. unfold MM. rewrite load_upd_other_block by (auto using bd_lt).
    apply (load_str m bs s _ o Hs eq_refl Ho).
  Qed.
  Lemma load_rd w i c z : CapDefs.rd s i = CapDefs.Ok c -> z = Z.of_nat i -> load (MM w) bs z = Ok (VInt (Z.of_N c)).
  Proof. intros H ->. destruct (rd_nthb s i c H) as [Hi ->]. apply load_src. exact Hi. Qed.
  Lemma rd_lt256 i c : CapDefs.rd s i = CapDefs.Ok c -> (c < 256)%N.
  Proof. intro H. destruct (rd_nthb s i c H) as [_ ->]. apply nthb_lt256. exact H256. Qed.
  Lemma store_dst w c w' z : CapDefs.wr w c = CapDefs.Ok w' -> CapDefs.wcap w = length blk -> z = Z.of_nat (CapDefs.wlen w) ->
    store (MM w) bd z (cell c) = Ok (MM w').
  Proof.
    intros H Hcap ->. destruct (wr_inv w c w' H) as (_ & _ & _ & Hlt). unfold MM.
    rewrite (store_ok _ bd (dblock w blk)).
    - rewrite upd_upd by apply bd_lt. rewrite Nat2Z.id, (dblock_wr w c w' blk H) by lia. reflexivity.
    - apply mem_upd_same, bd_lt.
    - rewrite dblock_length by lia. lia.
  Qed.
  Lemma other_block w g b0 : g <> bd -> nth_error m g = Some b0 -> nth_error (MM w) g = Some b0.
  Proof. intros Hg H. unfold MM. rewrite mem_upd_other by (auto using bd_lt). exact H. Qed.

  Variable call : nat -> list val -> mem -> res (val * mem).

  (* ---- *dst++ = *src++ *)
  Definition E_copy1 : expr :=
    EStore (Some I8) (EIncLocal true 1 None 1) (ELoad (Some I8) (EIncLocal true 0 None 1)).
  Lemma eval_copy1 i w rest i1 w1 : CapDefs.copy1 s i w = CapDefs.Ok (i1, w1) -> CapDefs.wcap w = length blk ->
    eval call E_copy1 (ST i w rest) = Ok (cell (nthb s i), ST i1 w1 rest) /\ CapDefs.wcap w1 = length blk.
  Proof.
    intros H Hcap. unfold CapDefs.copy1 in H.
    destruct (CapDefs.rd s i) as [c| | |] eqn:Hc; cbn [CapDefs.bind] in H; try discriminate.
    destruct (CapDefs.wr w c) as [w'| | |] eqn:Hw; cbn [CapDefs.bind] in H; try discriminate.
    injection H as <- <-. destruct (wr_inv w c w' Hw) as (_ & L & C & _).
    split; [|congruence].
    unfold E_copy1. xcbn. rewrite (load_rd w i c _ Hc eq_refl). xcbn.
    rewrite (sc_idem c (rd_lt256 i c Hc)). change (VInt (wrap I8 (Z.of_N c))) with (cell c).
    rewrite (store_dst w c w' _ Hw Hcap eq_refl). xcbn.
    destruct (rd_nthb s i c Hc) as [_ <-]. rewrite L, !Nat2Z.inj_succ. reflexivity.
  Qed.

  (* ---- if ( *src == '\\' && src[1]) *dst++ = *src++; *)
  Definition S_esc : stmt :=
    SIf (EAndAlso (EBin OEq I32 (ECast I32 (ELoad (Some I8) (ELocal 0))) (EConst 92))
                  (ECast I32 (ELoad (Some I8) (EPtrAdd 1 (ELocal 0) (EConst 1)))))
        (SExpr E_copy1) SSkip.
  Lemma exec_esc fuel i w rest i1 w1 : CapDefs.esc s i w = CapDefs.Ok (i1, w1) -> CapDefs.wcap w = length blk ->
    exec call fuel S_esc (ST i w rest) = ONormal (ST i1 w1 rest) /\ CapDefs.wcap w1 = length blk.
  Proof.
    intros H Hcap. unfold CapDefs.esc in H.
    destruct (CapDefs.rd s i) as [c| | |] eqn:Hc; cbn [CapDefs.bind] in H; try discriminate.
    pose proof (rd_lt256 i c Hc) as Hc256.
    unfold S_esc. xs. rewrite (load_rd w i c _ Hc eq_refl). xs. chars H256.
    destruct (c =? 92)%N; xs.
    - destruct (CapDefs.rd s (S i)) as [c1| | |] eqn:Hc1; cbn [CapDefs.bind] in H; try discriminate.
      pose proof (rd_lt256 (S i) c1 Hc1) as Hc1256.
      rewrite (load_rd w (S i) c1 _ Hc1) by lia. xs. chars H256.
      destruct (c1 =? 0)%N; xs.
      + injection H as <- <-. split; [reflexivity|exact Hcap].
      + destruct (eval_copy1 i w rest i1 w1 H Hcap) as [E C]. rewrite E. split; [reflexivity|exact C].
    - injection H as <- <-. split; [reflexivity|exact Hcap].
  Qed.

  (* ---- while (pre( *src)) src++;   for any condition that evaluates to pre of the byte under src *)
  Definition S_inc : stmt := SExpr (EIncLocal true 0 None 1).
  Lemma skip_loop_ok cond pre rest mm :
    (forall i c, CapDefs.rd s i = CapDefs.Ok c ->
       eval call cond (mkst (VPtr bs (Z.of_nat i) :: rest) mm)
       = Ok (VInt (b2z (pre c)), mkst (VPtr bs (Z.of_nat i) :: rest) mm)) ->
    forall fm i i' fuel, CapDefs.skip_while fm pre s i = CapDefs.Ok i' -> (fm <= fuel)%nat ->
    exec call fuel (SWhile cond S_inc) (mkst (VPtr bs (Z.of_nat i) :: rest) mm)
    = ONormal (mkst (VPtr bs (Z.of_nat i') :: rest) mm).
  Proof.
    intros Hcond. induction fm as [|fm IH]; intros i i' fuel H Hf; [discriminate|].
    destruct fuel as [|fuel]; [lia|]. cbn [CapDefs.skip_while] in H.
    destruct (CapDefs.rd s i) as [c| | |] eqn:Hc; cbn [CapDefs.bind] in H; try discriminate.
    rewrite exec_while, (Hcond i c Hc). xcbn. rewrite nb2z.
    destruct (pre c).
    - unfold S_inc at 1. rewrite exec_expr. xcbn. replace (Z.of_nat i + 1) with (Z.of_nat (S i)) by lia.
      apply IH; [exact H|lia].
    - injection H as <-. reflexivity.
  Qed.

  (* ---- while ( *src && !stop( *src)) { esc; *dst++ = *src++; } *)
  Lemma copy_loop_ok cond stop rest :
    (forall i w c, CapDefs.rd s i = CapDefs.Ok c ->
       eval call cond (ST i w rest) = Ok (VInt (b2z (negb ((c =? 0)%N || stop c))), ST i w rest)) ->
    forall fm i w i' w' fuel, CapDefs.copy_until fm stop s i w = CapDefs.Ok (i', w') ->
    CapDefs.wcap w = length blk -> (fm <= fuel)%nat ->
    exec call fuel (SWhile cond (SSeq S_esc (SExpr E_copy1))) (ST i w rest) = ONormal (ST i' w' rest) /\
    CapDefs.wcap w' = length blk.
  Proof.
    intros Hcond. induction fm as [|fm IH]; intros i w i' w' fuel H Hcap Hf; [discriminate|].
    destruct fuel as [|fuel]; [lia|]. cbn [CapDefs.copy_until] in H.
    destruct (CapDefs.rd s i) as [c| | |] eqn:Hc; cbn [CapDefs.bind] in H; try discriminate.
    rewrite exec_while, (Hcond i w c Hc). xcbn. rewrite nb2z.
    destruct ((c =? 0)%N || stop c); cbn [negb].
    - injection H as <- <-. split; [reflexivity|exact Hcap].
    - destruct (CapDefs.esc s i w) as [[i1 w1]| | |] eqn:He; cbn [CapDefs.bind fst snd] in H; try discriminate.
      destruct (CapDefs.copy1 s i1 w1) as [[i2 w2]| | |] eqn:H1; cbn [CapDefs.bind fst snd] in H; try discriminate.
      destruct (exec_esc (S fuel) i w rest i1 w1 He Hcap) as [E1 C1].
      destruct (eval_copy1 i1 w1 rest i2 w2 H1 C1) as [E2 C2].
      rewrite exec_seq, E1, exec_expr, E2. apply IH; [exact H|exact C2|lia].
  Qed.

  (* ---- the conditions of the skip loops *)
  Ltac cond_tac Hc :=
    xs; repeat (rewrite (load_rd _ _ _ _ Hc) by lia; xs); chars H256;
    repeat (match goal with |- context [if ?b then _ else _] => destruct b eqn:? end; xs;
            repeat (rewrite (load_rd _ _ _ _ Hc) by lia; xs); chars H256);
    try reflexivity.

  Definition C_is (k : Z) : expr := EBin OEq I32 (ECast I32 (ELoad (Some I8) (ELocal 0))) (EConst k).
  Definition C_blank : expr := EOrElse (C_is 32) (C_is 9).
  Lemma eval_C_blank rest mm' w i c : mm' = MM w -> CapDefs.rd s i = CapDefs.Ok c ->
    eval call C_blank (mkst (VPtr bs (Z.of_nat i) :: rest) mm')
    = Ok (VInt (b2z (CapDefs.is_blank c)), mkst (VPtr bs (Z.of_nat i) :: rest) mm').
  Proof.
    intros -> Hc. pose proof (rd_lt256 i c Hc). unfold C_blank, C_is, CapDefs.is_blank. cond_tac Hc.
  Qed.

  (* ---- *dst = '\0' *)
  Definition E_term : expr := EStore (Some I8) (ELocal 1) (ECast I8 (EConst 0)).
  Lemma eval_term i w rest w1 : CapDefs.wr w 0%N = CapDefs.Ok w1 -> CapDefs.wcap w = length blk ->
    eval call E_term (ST i w rest)
    = Ok (VInt 0, mkst (VPtr bs (Z.of_nat i) :: VPtr bd (Z.of_nat (CapDefs.wlen w)) :: rest) (MM w1)).
  Proof.
    intros Hw Hcap. unfold E_term. xcbn. change (VInt (wrap I8 (wrap I8 0))) with (cell 0).
    rewrite (store_dst w 0%N w1 _ Hw Hcap eq_refl). reflexivity.
  Qed.

  (* ------------------------------------------------------------------ ex_cmd *)
  Definition cmd_cond : expr :=
    EAndAlso (EBuiltin BIsalpha [ECast I32 (ECast U8 (ELoad (Some I8) (ELocal 0)))])
             (EPtrCmp OLt (ELocal 1) (EPtrAdd 1 (ELocal 2) (EConst 16))).
  Definition cmd_body : stmt :=
    SIf (EAndAlso (EBin OEq I32 (ECast I32 E_copy1) (EConst 107))
                  (EPtrCmp OEq (ELocal 1) (EPtrAdd 1 (ELocal 2) (EConst 1)))) SBreak SSkip.

  Lemma cmd_loop_ok n0 : forall fm i w n i' w' fuel,
    CapDefs.cmd_loop fm s i w n = CapDefs.Ok (i', w') -> CapDefs.wcap w = length blk ->
    CapDefs.wlen w = (n0 + n)%nat -> (fm <= fuel)%nat ->
    exec call fuel (SWhile cmd_cond cmd_body) (ST i w [VPtr bd (Z.of_nat n0)])
    = ONormal (ST i' w' [VPtr bd (Z.of_nat n0)]) /\ CapDefs.wcap w' = length blk.
  Proof.
    induction fm as [|fm IH]; intros i w n i' w' fuel H Hcap Hn Hf; [discriminate|].
    destruct fuel as [|fuel]; [lia|]. cbn [CapDefs.cmd_loop] in H.
    destruct (CapDefs.rd s i) as [c| | |] eqn:Hc; cbn [CapDefs.bind] in H; try discriminate.
    pose proof (rd_lt256 i c Hc) as Hc256.
    rewrite exec_while. unfold cmd_cond at 1. xs. rewrite (load_rd w i c _ Hc eq_refl). xs.
    rewrite (wrap_byte_chain c Hc256), (builtin_isalpha c _ Hc256). xs.
    destruct (CapDefs.c_isalpha c); cbn [andb] in H; xs.
    2:{ injection H as <- <-. split; [reflexivity|exact Hcap]. }
    cbn [ptr_cmp]. rewrite Nat.eqb_refl. xs.
    replace (Z.of_nat (CapDefs.wlen w) <? Z.of_nat n0 + 1 * 16) with (n <? 16)%nat
      by (rewrite Hn; destruct (Nat.ltb_spec n 16), (Z.ltb_spec (Z.of_nat (n0 + n)) (Z.of_nat n0 + 1 * 16)); try reflexivity; lia).
    destruct (n <? 16)%nat; xs.
    2:{ injection H as <- <-. split; [reflexivity|exact Hcap]. }
    destruct (CapDefs.wr w c) as [w1| | |] eqn:Hw; cbn [CapDefs.bind] in H; try discriminate.
    assert (H1 : CapDefs.copy1 s i w = CapDefs.Ok (S i, w1)) by (unfold CapDefs.copy1; rewrite Hc; cbn [CapDefs.bind]; rewrite Hw; reflexivity).
    destruct (eval_copy1 i w [VPtr bd (Z.of_nat n0)] (S i) w1 H1 Hcap) as [E1 C1].
    destruct (wr_inv w c w1 Hw) as (_ & L1 & _ & _).
    unfold cmd_body at 1. xs. rewrite E1. destruct (rd_nthb s i c Hc) as [_ <-]. xs. unfold cell, sc. xs. chars H256.
    destruct (c =? 107)%N; cbn [andb] in H; xs.
    - cbn [ptr_cmp]. rewrite Nat.eqb_refl. xs.
      replace (Z.of_nat (CapDefs.wlen w1) =? Z.of_nat n0 + 1 * 1) with (S n =? 1)%nat
        by (rewrite L1, Hn; destruct (Nat.eqb_spec (S n) 1), (Z.eqb_spec (Z.of_nat (S (n0 + n))) (Z.of_nat n0 + 1 * 1)); try reflexivity; lia).
      destruct (S n =? 1)%nat; xs.
      + injection H as <- <-. split; [reflexivity|exact C1].
      + apply (IH (S i) w1 (S n)); [exact H|exact C1|lia|lia].
    - apply (IH (S i) w1 (S n)); [exact H|exact C1|lia|lia].
  Qed.

  Definition C_bang : expr := EOrElse (EOrElse (C_is 33) (C_is 61)) (C_is 64).
  Lemma ex_cmd_shape : fn_body cf_ex_cmd =
    SSeq (SExpr (ESetLocal 2 (ELocal 1))) (SSeq (SWhile C_blank S_inc) (SSeq (SWhile cmd_cond cmd_body)
    (SSeq (SIf C_bang (SExpr E_copy1) SSkip) (SSeq (SExpr E_term) (SReturn (Some (ELocal 0))))))).
  Proof. reflexivity. Qed.

  Lemma exec_bang fuel i w rest i3 w3 c : CapDefs.rd s i = CapDefs.Ok c ->
    (if (c =? 33)%N || (c =? 61)%N || (c =? 64)%N then CapDefs.copy1 s i w else CapDefs.Ok (i, w)) = CapDefs.Ok (i3, w3) ->
    CapDefs.wcap w = length blk ->
    exec call fuel (SIf C_bang (SExpr E_copy1) SSkip) (ST i w rest) = ONormal (ST i3 w3 rest) /\ CapDefs.wcap w3 = length blk.
  Proof.
    intros Hc H Hcap. pose proof (rd_lt256 i c Hc) as Hc256. rewrite exec_if. unfold C_bang, C_is. cond_tac Hc.
    all: cbn [orb] in H.
    all: try (injection H as <- <-; split; [reflexivity|exact Hcap]).
    all: destruct (eval_copy1 i w rest i3 w3 H Hcap) as [E3 C3]; rewrite E3; split; [reflexivity|exact C3].
  Qed.

  Lemma ex_cmd_body_ok fuel i w0 i' w' x : CapDefs.ex_cmd s i w0 = CapDefs.Ok (i', w') ->
    CapDefs.wcap w0 = length blk -> (S (length s) <= fuel)%nat ->
    exists st, exec call fuel (fn_body cf_ex_cmd) (ST i w0 [x]) = OReturn (VPtr bs (Z.of_nat i')) st /\ memm st = MM w'.
  Proof.
    intros H Hcap Hf. rewrite ex_cmd_shape. unfold CapDefs.ex_cmd in H.
    destruct (CapDefs.skip_while _ _ s i) as [i1| | |] eqn:H1; cbn [CapDefs.bind] in H; try discriminate.
    destruct (CapDefs.cmd_loop _ s i1 w0 0) as [[i2 w2]| | |] eqn:H2; cbn [CapDefs.bind fst snd] in H; try discriminate.
    destruct (CapDefs.rd s i2) as [c| | |] eqn:Hc; cbn [CapDefs.bind] in H; try discriminate.
    match type of H with CapDefs.bind ?e _ = _ => destruct e as [[i3 w3]| | |] eqn:H3 end; cbn [CapDefs.bind fst snd] in H; try discriminate.
    destruct (CapDefs.wr w3 0%N) as [w4| | |] eqn:H4; cbn [CapDefs.bind] in H; try discriminate. injection H as <- <-.
    rewrite exec_seq, exec_expr. xcbn.
    rewrite exec_seq, (skip_loop_ok C_blank CapDefs.is_blank _ _ (fun i c => eval_C_blank _ _ w0 i c eq_refl) _ i i1 fuel H1 Hf).
    destruct (cmd_loop_ok (CapDefs.wlen w0) _ i1 w0 0%nat i2 w2 fuel H2 Hcap ltac:(lia) Hf) as [E2 C2].
    rewrite exec_seq, E2.
    destruct (exec_bang fuel i2 w2 [VPtr bd (Z.of_nat (CapDefs.wlen w0))] i3 w3 c Hc H3 C2) as [E3 C3]. rewrite exec_seq, E3.
    rewrite exec_seq, exec_expr, (eval_term _ _ _ w4 H4 C3), exec_return. xcbn. eexists; split; reflexivity.
  Qed.

  (* ------------------------------------------------------------------ ex_loc *)
  Section Loc.
  Hypothesis Hlit : nth_error m G_exloc = Some gb_exloc.
  Hypothesis Hg : G_exloc <> bd.

  Definition C_colon_blank : expr := EOrElse (EOrElse (C_is 58) (C_is 32)) (C_is 9).
  Lemma eval_C_colon_blank rest mm' w i c : mm' = MM w -> CapDefs.rd s i = CapDefs.Ok c ->
    eval call C_colon_blank (mkst (VPtr bs (Z.of_nat i) :: rest) mm')
    = Ok (VInt (b2z (CapDefs.is_colon_blank c)), mkst (VPtr bs (Z.of_nat i) :: rest) mm').
  Proof.
    intros -> Hc. pose proof (rd_lt256 i c Hc). unfold C_colon_blank, C_is, CapDefs.is_colon_blank. cond_tac Hc.
  Qed.

  Definition loc_cond : expr :=
    EAndAlso (ECast I32 (ELoad (Some I8) (ELocal 0)))
             (EPtrCmp ONe (EBuiltin BStrchr [EGlob G_exloc; ECast I32 (ECast U8 (ELoad (Some I8) (ELocal 0)))]) (EConst 0)).
  Lemma blk_from_lit w : blk_from (MM w) G_exloc 0 = Ok gb_exloc.
  Proof. unfold blk_from. rewrite (other_block w _ _ Hg Hlit). reflexivity. Qed.
  Lemma eval_loc_cond i w rest c : CapDefs.rd s i = CapDefs.Ok c ->
    eval call loc_cond (ST i w rest)
    = Ok (VInt (b2z (negb ((c =? 0)%N || negb (CapDefs.mem c exloc_set)))), ST i w rest).
  Proof.
    intros Hc. pose proof (rd_lt256 i c Hc) as Hc256. unfold loc_cond. xs. rewrite (load_rd w i c _ Hc eq_refl). xs. chars H256.
    destruct (c =? 0)%N eqn:E0; xs; [reflexivity|].
    rewrite (load_rd w i c _ Hc eq_refl). xs. rewrite (wrap_byte_chain c Hc256).
    cbn [do_builtin_m do_builtin]. rewrite blk_from_lit. cbn [bind].
    pose proof (strchr_fact c Hc256) as F. unfold strchr_hit in F. rewrite E0 in F. cbn [orb] in F.
    destruct (scanc gb_exloc (wrap I8 (Z.of_N c)) 0) as [[n|]|e]; cbn [bind ptr_cmp] in F |- *; xs; cbn [ptr_cmp]; xs.
    - destruct (CapDefs.mem c exloc_set); cbn [b2z] in F |- *; [reflexivity|discriminate F].
    - destruct (CapDefs.mem c exloc_set); cbn [b2z] in F |- *; [discriminate F|reflexivity].
    - discriminate.
  Qed.

  Definition loc_dcond : expr :=
    EAndAlso (ECast I32 (ELoad (Some I8) (ELocal 0))) (EBin ONe I32 (ECast I32 (ELoad (Some I8) (ELocal 0))) (ELocal 2)).
  Lemma eval_loc_dcond c2 i w c : (c2 < 256)%N -> CapDefs.rd s i = CapDefs.Ok c ->
    eval call loc_dcond (ST i w [VInt (sx c2)])
    = Ok (VInt (b2z (negb ((c =? 0)%N || (c2 =? c)%N))), ST i w [VInt (sx c2)]).
  Proof.
    intros H2 Hc. pose proof (rd_lt256 i c Hc) as Hc256. unfold loc_dcond. xs. rewrite (load_rd w i c _ Hc eq_refl). xs. chars H256.
    destruct (c =? 0)%N eqn:E0; xs; [reflexivity|].
    rewrite (load_rd w i c _ Hc eq_refl). xs. unfold sx. rewrite (sx_eqb_sx c c2 Hc256 H2), (N.eqb_sym c2 c).
    destruct (c =? c2)%N; reflexivity.
  Qed.

  Definition loc_body : stmt :=
    SSeq (SIf (C_is 39) (SExpr E_copy1) SSkip)
   (SSeq (SIf (EOrElse (C_is 47) (C_is 63))
              (SSeq (SExpr (ESetLocal 2 (ECast I32 (ELoad (Some I8) (ELocal 0)))))
              (SSeq (SExpr E_copy1) (SWhile loc_dcond (SSeq S_esc (SExpr E_copy1))))) SSkip)
         (SIf (ELoad (Some I8) (ELocal 0)) (SExpr E_copy1) SSkip)).

  Lemma loc_main_ok : forall fm i w i' w' fuel dv,
    CapDefs.loc_main fm s i w = CapDefs.Ok (i', w') -> CapDefs.wcap w = length blk ->
    (fm + S (length s) <= fuel)%nat ->
    exists dv', exec call fuel (SWhile loc_cond loc_body) (ST i w [dv]) = ONormal (ST i' w' [dv']) /\
                CapDefs.wcap w' = length blk.
  Proof.
    induction fm as [|fm IH]; intros i w i' w' fuel dv H Hcap Hf; [discriminate|].
    destruct fuel as [|fuel]; [lia|]. cbn [CapDefs.loc_main] in H.
    destruct (CapDefs.rd s i) as [c| | |] eqn:Hc; cbn [CapDefs.bind] in H; try discriminate.
    pose proof (rd_lt256 i c Hc) as Hc256.
    rewrite exec_while, (eval_loc_cond i w [dv] c Hc). xcbn. rewrite nb2z.
    destruct ((c =? 0)%N || negb (CapDefs.mem c exloc_set)); cbn [negb].
    { injection H as <- <-. exists dv. split; [reflexivity|exact Hcap]. }
    (* the quote *)
    match type of H with CapDefs.bind ?e _ = _ => destruct e as [[i1 w1]| | |] eqn:H1 end; cbn [CapDefs.bind fst snd] in H; try discriminate.
    assert (exec call (S fuel) (SIf (C_is 39) (SExpr E_copy1) SSkip) (ST i w [dv]) = ONormal (ST i1 w1 [dv]) /\
            CapDefs.wcap w1 = length blk) as [E1 C1].
    { rewrite exec_if. unfold C_is. cond_tac Hc.
      - destruct (eval_copy1 i w [dv] i1 w1 H1 Hcap) as [E C]. rewrite E. split; [reflexivity|exact C].
      - injection H1 as <- <-. split; [reflexivity|exact Hcap]. }
    unfold loc_body at 1. rewrite exec_seq, E1.
    (* the search pattern *)
    destruct (CapDefs.rd s i1) as [c2| | |] eqn:Hc2; cbn [CapDefs.bind] in H; try discriminate.
    pose proof (rd_lt256 i1 c2 Hc2) as Hc2256.
    match type of H with CapDefs.bind ?e _ = _ => destruct e as [[i2 w2]| | |] eqn:H2 end; cbn [CapDefs.bind fst snd] in H; try discriminate.
    match goal with |- context [exec call (S fuel) (SSeq ?a ?b) (ST i1 w1 [dv])] =>
      assert (exists dv2, exec call (S fuel) a (ST i1 w1 [dv]) = ONormal (ST i2 w2 [dv2]) /\
              CapDefs.wcap w2 = length blk) as (dv2 & E2 & C2) end.
    { rewrite exec_if. unfold C_is. cond_tac Hc2.
      all: cbn [orb] in H2.
      3:{ injection H2 as <- <-. exists dv. split; [reflexivity|exact C1]. }
      all: destruct (CapDefs.copy1 s i1 w1) as [[i1' w1']| | |] eqn:H2a; cbn [CapDefs.bind fst snd] in H2; try discriminate.
      all: destruct (eval_copy1 i1 w1 [VInt (sx c2)] i1' w1' H2a C1) as [Ea Ca]; unfold sx in Ea; rewrite Ea.
      all: destruct (copy_loop_ok loc_dcond (N.eqb c2) [VInt (sx c2)] (fun i w c => eval_loc_dcond c2 i w c Hc2256)
                       _ i1' w1' i2 w2 (S fuel) H2 Ca ltac:(lia)) as [Eb Cb].
      all: unfold sx in Eb; rewrite Eb; eexists; split; [reflexivity|exact Cb]. }
    rewrite exec_seq, E2.
    (* the byte itself *)
    destruct (CapDefs.rd s i2) as [c3| | |] eqn:Hc3; cbn [CapDefs.bind] in H; try discriminate.
    pose proof (rd_lt256 i2 c3 Hc3) as Hc3256.
    match type of H with CapDefs.bind ?e _ = _ => destruct e as [[i3 w3]| | |] eqn:H3 end; cbn [CapDefs.bind fst snd] in H; try discriminate.
    assert (exec call (S fuel) (SIf (ELoad (Some I8) (ELocal 0)) (SExpr E_copy1) SSkip) (ST i2 w2 [dv2]) = ONormal (ST i3 w3 [dv2]) /\
            CapDefs.wcap w3 = length blk) as [E3 C3].
    { rewrite exec_if. destruct (c3 =? 0)%N eqn:E30; cond_tac Hc3; try (rewrite E30 in *; discriminate).
      - injection H3 as <- <-. split; [reflexivity|exact C2].
      - destruct (eval_copy1 i2 w2 [dv2] i3 w3 H3 C2) as [E C]. rewrite E. split; [reflexivity|exact C]. }
    rewrite E3. apply (IH i3 w3 i' w' fuel dv2 H C3). lia.
  Qed.

  Lemma ex_loc_shape : fn_body cf_ex_loc =
    SSeq (SWhile C_colon_blank S_inc) (SSeq (SWhile loc_cond loc_body) (SSeq (SExpr E_term) (SReturn (Some (ELocal 0))))).
  Proof. reflexivity. Qed.

  Lemma ex_loc_body_ok fuel i w0 i' w' x : CapDefs.ex_loc s i w0 = CapDefs.Ok (i', w') ->
    CapDefs.wcap w0 = length blk -> (2 * S (length s) <= fuel)%nat ->
    exists st, exec call fuel (fn_body cf_ex_loc) (ST i w0 [x]) = OReturn (VPtr bs (Z.of_nat i')) st /\ memm st = MM w'.
  Proof.
    intros H Hcap Hf. rewrite ex_loc_shape. unfold CapDefs.ex_loc in H.
    destruct (CapDefs.skip_while _ _ s i) as [i1| | |] eqn:H1; cbn [CapDefs.bind] in H; try discriminate.
    destruct (CapDefs.loc_main _ s i1 w0) as [[i2 w2]| | |] eqn:H2; cbn [CapDefs.bind fst snd] in H; try discriminate.
    destruct (CapDefs.wr w2 0%N) as [w3| | |] eqn:H3; cbn [CapDefs.bind] in H; try discriminate. injection H as <- <-.
    rewrite exec_seq, (skip_loop_ok C_colon_blank CapDefs.is_colon_blank _ _ (fun i c => eval_C_colon_blank _ _ w0 i c eq_refl) _ i i1 fuel H1 ltac:(lia)).
    destruct (loc_main_ok _ i1 w0 i2 w2 fuel x H2 Hcap ltac:(lia)) as (dv & E2 & C2).
    rewrite exec_seq, E2.
    rewrite exec_seq, exec_expr, (eval_term _ _ _ w3 H3 C2), exec_return. xcbn. eexists; split; reflexivity.
  Qed.
  End Loc.

  (* ------------------------------------------------------------------ ex_arg *)
  (* destruct the byte comparisons of the condition under evaluation, one at a time *)
  Ltac cond_tac2 Hc :=
    xs; repeat (rewrite (load_rd _ _ _ _ Hc) by lia; xs); unfold sx; chars H256;
    repeat (match goal with
            | |- context [if ?b then _ else _] =>
                match b with context [(?x =? ?y)%N] => destruct (x =? y)%N eqn:? end
            end; xs; repeat (rewrite (load_rd _ _ _ _ Hc) by lia; xs); chars H256);
    try reflexivity.

  Definition C_ne (k : Z) : expr := EBin ONe I32 (ECast I32 (ELoad (Some I8) (ELocal 0))) (EConst k).
  Definition C_nz : expr := ECast I32 (ELoad (Some I8) (ELocal 0)).
  Definition arg_nlcond : expr := EAndAlso C_nz (C_ne 10).
  Definition arg_tailcond : expr := EAndAlso (EAndAlso (EAndAlso C_nz (C_ne 10)) (C_ne 124)) (C_ne 34).
  Lemma eval_arg_nlcond rest i w c : CapDefs.rd s i = CapDefs.Ok c ->
    eval call arg_nlcond (ST i w rest) = Ok (VInt (b2z (negb ((c =? 0)%N || CapDefs.stop_nl c))), ST i w rest).
  Proof.
    intros Hc. pose proof (rd_lt256 i c Hc). unfold arg_nlcond, C_nz, C_ne, CapDefs.stop_nl. cond_tac2 Hc.
  Qed.
  Lemma eval_arg_tailcond rest i w c : CapDefs.rd s i = CapDefs.Ok c ->
    eval call arg_tailcond (ST i w rest) = Ok (VInt (b2z (negb ((c =? 0)%N || CapDefs.stop_tail c))), ST i w rest).
  Proof.
    intros Hc. pose proof (rd_lt256 i c Hc). unfold arg_tailcond, C_nz, C_ne, CapDefs.stop_tail. cond_tac2 Hc.
  Qed.
  Lemma eval_arg_nlcond_skip rest mm' w i c : mm' = MM w -> CapDefs.rd s i = CapDefs.Ok c ->
    eval call arg_nlcond (mkst (VPtr bs (Z.of_nat i) :: rest) mm')
    = Ok (VInt (b2z (CapDefs.not_nl c)), mkst (VPtr bs (Z.of_nat i) :: rest) mm').
  Proof.
    intros -> Hc. pose proof (rd_lt256 i c Hc). unfold arg_nlcond, C_nz, C_ne, CapDefs.not_nl. cond_tac2 Hc.
  Qed.

  Definition arg_subcond : expr := EAndAlso (EAndAlso C_nz (C_ne 10)) (EBin OGt I32 (ELocal 6) (EConst 0)).
  Definition arg_subbody : stmt :=
    SSeq (SIf (EBin OEq I32 (ECast I32 (ELoad (Some I8) (ELocal 0))) (ELocal 5)) (SExpr (EIncLocal true 6 (Some I32) (-1))) SSkip)
         (SSeq S_esc (SExpr E_copy1)).
  Lemma ltb0_nat n : (0 <? Z.of_nat n) = negb (n =? 0)%nat.
  Proof. destruct (Z.ltb_spec 0 (Z.of_nat n)), (Nat.eqb_spec n 0); try reflexivity; lia. Qed.

  Lemma arg_sub_ok cd pe v0 v1 : (cd < 256)%N -> forall fm i w cnt i' w' fuel,
    CapDefs.arg_sub fm s cd i w cnt = CapDefs.Ok (i', w') -> CapDefs.wcap w = length blk ->
    (cnt <= 2)%nat -> (fm <= fuel)%nat ->
    exists cnt', exec call fuel (SWhile arg_subcond arg_subbody) (ST i w [pe; v0; v1; VInt (sx cd); VInt (Z.of_nat cnt)])
                 = ONormal (ST i' w' [pe; v0; v1; VInt (sx cd); VInt (Z.of_nat cnt')]) /\
                 CapDefs.wcap w' = length blk.
  Proof.
    intros Hcd. induction fm as [|fm IH]; intros i w cnt i' w' fuel H Hcap Hcnt Hf; [discriminate|].
    destruct fuel as [|fuel]; [lia|]. cbn [CapDefs.arg_sub] in H.
    destruct (CapDefs.rd s i) as [c| | |] eqn:Hc; cbn [CapDefs.bind] in H; try discriminate.
    pose proof (rd_lt256 i c Hc) as Hc256.
    assert (Econd : eval call arg_subcond (ST i w [pe; v0; v1; VInt (sx cd); VInt (Z.of_nat cnt)])
                    = Ok (VInt (b2z (negb ((c =? 0)%N || (c =? 10)%N || (cnt =? 0)%nat))), ST i w [pe; v0; v1; VInt (sx cd); VInt (Z.of_nat cnt)])).
    { unfold arg_subcond, C_nz, C_ne. cond_tac2 Hc. rewrite ltb0_nat. destruct (cnt =? 0)%nat; reflexivity. }
    rewrite exec_while, Econd. xcbn. rewrite nb2z.
    destruct ((c =? 0)%N || (c =? 10)%N || (cnt =? 0)%nat) eqn:Estop; cbn [negb].
    { injection H as <- <-. exists cnt. split; [reflexivity|exact Hcap]. }
    assert (cnt <> 0)%nat as Hc0 by (destruct (Nat.eqb_spec cnt 0); [subst; rewrite !orb_true_r in Estop; discriminate|assumption]).
    destruct (CapDefs.esc s i w) as [[i1 w1]| | |] eqn:He; cbn [CapDefs.bind fst snd] in H; try discriminate.
    destruct (CapDefs.copy1 s i1 w1) as [[i2 w2]| | |] eqn:H1; cbn [CapDefs.bind fst snd] in H; try discriminate.
    set (cnt1 := if (c =? cd)%N then Nat.pred cnt else cnt) in *.
    unfold arg_subbody at 1. rewrite exec_seq.
    assert (E0 : exec call (S fuel) (SIf (EBin OEq I32 (ECast I32 (ELoad (Some I8) (ELocal 0))) (ELocal 5)) (SExpr (EIncLocal true 6 (Some I32) (-1))) SSkip)
                   (ST i w [pe; v0; v1; VInt (sx cd); VInt (Z.of_nat cnt)])
                 = ONormal (ST i w [pe; v0; v1; VInt (sx cd); VInt (Z.of_nat cnt1)])).
    { rewrite exec_if. xs. rewrite (load_rd w i c _ Hc eq_refl). xs. unfold sx. rewrite (sx_eqb_sx c cd Hc256 Hcd).
      unfold cnt1. destruct (c =? cd)%N; xs; [|reflexivity].
      rewrite (chk_I32 (Z.of_nat cnt + -1)) by lia. xs.
      replace (Z.of_nat cnt + -1) with (Z.of_nat (Nat.pred cnt)) by lia. reflexivity. }
    rewrite E0.
    destruct (exec_esc (S fuel) i w [pe; v0; v1; VInt (sx cd); VInt (Z.of_nat cnt1)] i1 w1 He Hcap) as [E1 C1].
    destruct (eval_copy1 i1 w1 [pe; v0; v1; VInt (sx cd); VInt (Z.of_nat cnt1)] i2 w2 H1 C1) as [E2 C2].
    rewrite exec_seq, E1, exec_expr, E2.
    apply (IH i2 w2 cnt1 i' w' fuel H C2); [unfold cnt1; destruct (c =? cd)%N; lia|lia].
  Qed.

  Definition L_is (x : nat) (k : Z) : expr := EBin OEq I32 (ELocal x) (EConst k).
  Definition L_ne (x : nat) (k : Z) : expr := EBin ONe I32 (ELocal x) (EConst k).
  Definition arg_c1 : expr :=
    EOrElse (EOrElse (EOrElse (L_is 3 33) (L_is 3 103)) (L_is 3 118))
            (EAndAlso (EAndAlso (EOrElse (L_is 3 114) (L_is 3 119)) (ELNot (ELocal 4)))
                      (EBin OEq I32 (ECast I32 (ELoad (Some I8) (EPtrAdd 1 (ELocal 0) (EConst 0)))) (EConst 33))).
  Definition arg_c2 : expr := EOrElse (EOrElse (EAndAlso (L_is 3 115) (L_ne 4 101)) (L_is 3 38)) (L_is 3 126).
  Definition arg_c3 : expr :=
    EAndAlso (EAndAlso (EAndAlso (EAndAlso (ELocal 5) (L_ne 5 10)) (L_ne 5 124)) (L_ne 5 92)) (L_ne 5 34).

  Section Arg.
    Variables (pe : val) (c0 c1 : N).
    Hypothesis Hc0 : (c0 < 256)%N.
    Hypothesis Hc1 : (c1 < 256)%N.
    Local Notation AL x5 x6 := [pe; VInt (sx c0); VInt (sx c1); x5; x6].

    Lemma eval_arg_c1 i w x5 x6 c : CapDefs.rd s i = CapDefs.Ok c ->
      eval call arg_c1 (ST i w (AL x5 x6))
      = Ok (VInt (b2z ((c0 =? 33)%N || (c0 =? 103)%N || (c0 =? 118)%N ||
                       (((c0 =? 114)%N || (c0 =? 119)%N) && (c1 =? 0)%N && (c =? 33)%N))), ST i w (AL x5 x6)).
    Proof.
      intros Hc. pose proof (rd_lt256 i c Hc). unfold arg_c1, L_is. cond_tac2 Hc.
    Qed.
    Lemma eval_arg_c2 i w x5 x6 :
      eval call arg_c2 (ST i w (AL x5 x6))
      = Ok (VInt (b2z (((c0 =? 115)%N && negb (c1 =? 101)%N) || (c0 =? 38)%N || (c0 =? 126)%N)), ST i w (AL x5 x6)).
    Proof.
      unfold arg_c2, L_is, L_ne. xs. unfold sx. chars H256.
      repeat (match goal with
              | |- context [if ?b then _ else _] =>
                  match b with context [(?x =? ?y)%N] => destruct (x =? y)%N eqn:? end
              end; xs; chars H256); reflexivity.
    Qed.
    Lemma eval_arg_c3 i w c x6 : (c < 256)%N ->
      eval call arg_c3 (ST i w (AL (VInt (sx c)) x6))
      = Ok (VInt (b2z (negb (c =? 0)%N && negb (c =? 10)%N && negb (c =? 124)%N && negb (c =? 92)%N && negb (c =? 34)%N)),
            ST i w (AL (VInt (sx c)) x6)).
    Proof.
      intro Hc. unfold arg_c3, L_ne. xs. unfold sx. chars H256.
      repeat (match goal with
              | |- context [if ?b then _ else _] =>
                  match b with context [(?x =? ?y)%N] => destruct (x =? y)%N eqn:? end
              end; xs; chars H256); reflexivity.
    Qed.

    Definition arg_mid : stmt :=
      SIf arg_c1 (SWhile arg_nlcond (SSeq S_esc (SExpr E_copy1)))
     (SIf arg_c2 (SSeq (SExpr (ESetLocal 5 (ECast I32 (ELoad (Some I8) (ELocal 0)))))
                 (SSeq (SExpr (ESetLocal 6 (EConst 2)))
                       (SIf arg_c3 (SSeq (SExpr E_copy1) (SWhile arg_subcond arg_subbody)) SSkip))) SSkip).

    Lemma arg_mid_ok fuel i w x5 x6 c i2 w2 : CapDefs.rd s i = CapDefs.Ok c ->
      (if (c0 =? 33)%N || (c0 =? 103)%N || (c0 =? 118)%N || (((c0 =? 114)%N || (c0 =? 119)%N) && (c1 =? 0)%N && (c =? 33)%N)
       then CapDefs.copy_until (S (length s)) CapDefs.stop_nl s i w
       else if ((c0 =? 115)%N && negb (c1 =? 101)%N) || (c0 =? 38)%N || (c0 =? 126)%N
       then (if negb (c =? 0)%N && negb (c =? 10)%N && negb (c =? 124)%N && negb (c =? 92)%N && negb (c =? 34)%N
             then CapDefs.bind (CapDefs.copy1 s i w) (fun iw0 => CapDefs.arg_sub (S (length s)) s c (fst iw0) (snd iw0) 2)
             else CapDefs.Ok (i, w))
       else CapDefs.Ok (i, w)) = CapDefs.Ok (i2, w2) ->
      CapDefs.wcap w = length blk -> (S (length s) <= fuel)%nat ->
      exists y5 y6, exec call fuel arg_mid (ST i w (AL x5 x6)) = ONormal (ST i2 w2 (AL y5 y6)) /\
                    CapDefs.wcap w2 = length blk.
    Proof.
      intros Hc H Hcap Hf. pose proof (rd_lt256 i c Hc) as Hc256.
      unfold arg_mid. rewrite exec_if, (eval_arg_c1 i w x5 x6 c Hc). xcbn. rewrite nb2z.
      match type of H with (if ?b then _ else _) = _ => destruct b end.
      { destruct (copy_loop_ok arg_nlcond CapDefs.stop_nl (AL x5 x6) (eval_arg_nlcond _) _ i w i2 w2 fuel H Hcap Hf) as [E C].
        rewrite E. exists x5, x6. split; [reflexivity|exact C]. }
      rewrite exec_if, (eval_arg_c2 i w x5 x6). xcbn. rewrite nb2z.
      match type of H with (if ?b then _ else _) = _ => destruct b end.
      2:{ injection H as <- <-. rewrite exec_skip. exists x5, x6. split; [reflexivity|exact Hcap]. }
      rewrite exec_seq, exec_expr. xcbn. rewrite (load_rd w i c _ Hc eq_refl). xcbn.
      rewrite exec_seq, exec_expr. xcbn.
      change (VInt (wrap I32 (wrap I8 (Z.of_N c)))) with (VInt (sx c)).
      rewrite exec_if, (eval_arg_c3 i w c (VInt 2) Hc256). xcbn. rewrite nb2z.
      match type of H with (if ?b then _ else _) = _ => destruct b end.
      2:{ injection H as <- <-. rewrite exec_skip. exists (VInt (sx c)), (VInt 2). split; [reflexivity|exact Hcap]. }
      destruct (CapDefs.copy1 s i w) as [[i1 w1]| | |] eqn:H1; cbn [CapDefs.bind fst snd] in H; try discriminate.
      destruct (eval_copy1 i w (AL (VInt (sx c)) (VInt 2)) i1 w1 H1 Hcap) as [E1 C1].
      rewrite exec_seq, exec_expr, E1. change (VInt 2) with (VInt (Z.of_nat 2)).
      destruct (arg_sub_ok c pe (VInt (sx c0)) (VInt (sx c1)) Hc256 _ i1 w1 2%nat i2 w2 fuel H C1 ltac:(lia) Hf) as (cnt' & E2 & C2).
      rewrite E2. eexists _, _. split; [reflexivity|exact C2].
    Qed.

    Definition arg_rest : stmt :=
      SSeq (SWhile C_blank S_inc) (SSeq arg_mid
     (SSeq (SWhile arg_tailcond (SSeq S_esc (SExpr E_copy1)))
     (SSeq (SIf (C_is 34) (SWhile arg_nlcond S_inc) SSkip)
     (SSeq (SIf (EOrElse (C_is 10) (C_is 124)) S_inc SSkip)
     (SSeq (SExpr E_term) (SReturn (Some (ELocal 0)))))))).

    Lemma arg_rest_ok fuel i w0 x5 x6 i' w' : CapDefs.ex_arg s i w0 c0 c1 = CapDefs.Ok (i', w') ->
      CapDefs.wcap w0 = length blk -> (S (length s) <= fuel)%nat ->
      exists st, exec call fuel arg_rest (ST i w0 (AL x5 x6)) = OReturn (VPtr bs (Z.of_nat i')) st /\ memm st = MM w'.
    Proof.
      intros H Hcap Hf. unfold CapDefs.ex_arg in H. cbv zeta in H.
      destruct (CapDefs.skip_while _ _ s i) as [i1| | |] eqn:H1; cbn [CapDefs.bind] in H; try discriminate.
      destruct (CapDefs.rd s i1) as [c| | |] eqn:Hc; cbn [CapDefs.bind] in H; try discriminate.
      match type of H with CapDefs.bind ?e _ = _ => destruct e as [[i2 w2]| | |] eqn:H2 end; cbn [CapDefs.bind fst snd] in H; try discriminate.
      destruct (CapDefs.copy_until _ _ s i2 w2) as [[i3 w3]| | |] eqn:H3; cbn [CapDefs.bind fst snd] in H; try discriminate.
      destruct (CapDefs.rd s i3) as [c2| | |] eqn:Hc2; cbn [CapDefs.bind] in H; try discriminate.
      match type of H with CapDefs.bind ?e _ = _ => destruct e as [i4| | |] eqn:H4 end; cbn [CapDefs.bind] in H; try discriminate.
      destruct (CapDefs.rd s i4) as [c3| | |] eqn:Hc3; cbn [CapDefs.bind] in H; try discriminate.
      destruct (CapDefs.wr w3 0%N) as [w4| | |] eqn:H5; cbn [CapDefs.bind] in H; try discriminate. injection H as <- <-.
      unfold arg_rest.
      rewrite exec_seq, (skip_loop_ok C_blank CapDefs.is_blank _ _ (fun i c => eval_C_blank _ _ w0 i c eq_refl) _ i i1 fuel H1 Hf).
      destruct (arg_mid_ok fuel i1 w0 x5 x6 c i2 w2 Hc H2 Hcap Hf) as (y5 & y6 & E2 & C2).
      rewrite exec_seq, E2.
      destruct (copy_loop_ok arg_tailcond CapDefs.stop_tail (AL y5 y6) (eval_arg_tailcond _) _ i2 w2 i3 w3 fuel H3 C2 Hf) as [E3 C3].
      rewrite exec_seq, E3.
      (* the comment *)
      assert (E4 : exec call fuel (SIf (C_is 34) (SWhile arg_nlcond S_inc) SSkip) (ST i3 w3 (AL y5 y6)) = ONormal (ST i4 w3 (AL y5 y6))).
      { pose proof (rd_lt256 i3 c2 Hc2). rewrite exec_if. unfold C_is. cond_tac Hc2.
        - apply (skip_loop_ok arg_nlcond CapDefs.not_nl _ _ (fun i c => eval_arg_nlcond_skip _ _ w3 i c eq_refl) _ i3 i4 fuel H4 Hf).
        - injection H4 as <-. reflexivity. }
      rewrite exec_seq, E4.
      (* the separator *)
      assert (E5 : exec call fuel (SIf (EOrElse (C_is 10) (C_is 124)) S_inc SSkip) (ST i4 w3 (AL y5 y6))
                   = ONormal (ST (if (c3 =? 10)%N || (c3 =? 124)%N then S i4 else i4) w3 (AL y5 y6))).
      { pose proof (rd_lt256 i4 c3 Hc3). rewrite exec_if. unfold C_is, S_inc. cond_tac Hc3; cbn [orb];
          replace (Z.of_nat i4 + 1) with (Z.of_nat (S i4)) by lia; reflexivity. }
      rewrite exec_seq, E5.
      rewrite exec_seq, exec_expr, (eval_term _ _ _ w4 H5 C3), exec_return. xcbn. eexists; split; reflexivity.
    Qed.
  End Arg.

  (* the command name handed to ex_arg: a C string in a third block *)
  Section ArgTop.
  Variables (be : nat) (e : bytes).
  Hypothesis He : str_at m be e.
  Hypothesis He256 : bytes_lt256 e.
  Hypothesis Hbe : be <> bd.
  Lemma load_e w o z : z = Z.of_nat o -> (o <= length e)%nat -> load (MM w) be z = Ok (VInt (Z.of_N (nthb e o))).
  Proof.
    intros -> Ho. unfold MM. rewrite load_upd_other_block by (auto using bd_lt). apply (load_str m be e _ o He eq_refl Ho).
  Qed.

  Lemma ex_arg_shape : fn_body cf_ex_arg =
    SSeq (SExpr (ESetLocal 3 (ECast I32 (ELoad (Some I8) (EPtrAdd 1 (ELocal 2) (EConst 0))))))
   (SSeq (SExpr (ESetLocal 4 (ECond (ELocal 3) (ECast I32 (ELoad (Some I8) (EPtrAdd 1 (ELocal 2) (EConst 1)))) (EConst 0))))
         arg_rest).
  Proof. reflexivity. Qed.

  Lemma ex_arg_body_ok fuel i w0 i' w' :
    CapDefs.ex_arg s i w0 (CapDefs.ch0 e) (CapDefs.ch1 e) = CapDefs.Ok (i', w') ->
    CapDefs.wcap w0 = length blk -> (S (length s) <= fuel)%nat ->
    exists st, exec call fuel (fn_body cf_ex_arg) (ST i w0 [VPtr be 0; VUndef; VUndef; VUndef; VUndef])
               = OReturn (VPtr bs (Z.of_nat i')) st /\ memm st = MM w'.
  Proof.
    intros H Hcap Hf. rewrite ex_arg_shape. unfold CapDefs.ch1, CapDefs.ch0 in H.
    pose proof (nthb_lt256 e 0 He256) as H0. pose proof (nthb_lt256 e 1 He256) as H1.
    rewrite exec_seq, exec_expr. xcbn. rewrite (load_e w0 0%nat) by (reflexivity || lia). xcbn.
    rewrite exec_seq, exec_expr. xcbn. chars H256.
    destruct (nthb e 0 =? 0)%N eqn:E0; cbn [negb]; xcbn.
    - apply (arg_rest_ok (VPtr be 0) (nthb e 0) 0%N H0 ltac:(reflexivity) fuel i w0 VUndef VUndef i' w' H Hcap Hf).
    - assert (1 <= length e)%nat.
      { destruct e as [|x r]; [discriminate E0|cbn; lia]. }
      rewrite (load_e w0 1%nat) by (reflexivity || lia). xcbn.
      apply (arg_rest_ok (VPtr be 0) (nthb e 0) (nthb e 1) H0 H1 fuel i w0 VUndef VUndef i' w' H Hcap Hf).
  Qed.
  End ArgTop.

  (* ------------------------------------------------------------------ ex_plus (after its first store) *)
  Definition plus_cond : expr := EAndAlso C_nz (C_ne 32).
  Definition plus_body : stmt :=
    SSeq (SIf (EAndAlso (EBin OEq I32 (ECast I32 (ELoad (Some I8) (EPtrAdd 1 (ELocal 0) (EConst 0)))) (EConst 92))
                        (ECast I32 (ELoad (Some I8) (EPtrAdd 1 (ELocal 0) (EConst 1))))) S_inc SSkip)
         (SExpr E_copy1).
  Lemma eval_plus_cond rest i w c : CapDefs.rd s i = CapDefs.Ok c ->
    eval call plus_cond (ST i w rest) = Ok (VInt (b2z (negb ((c =? 0)%N || (c =? 32)%N))), ST i w rest).
  Proof.
    intros Hc. pose proof (rd_lt256 i c Hc). unfold plus_cond, C_nz, C_ne. cond_tac2 Hc.
  Qed.
  Lemma plus_loop_ok rest : forall fm i w i' w' fuel,
    CapDefs.plus_loop fm s i w = CapDefs.Ok (i', w') -> CapDefs.wcap w = length blk -> (fm <= fuel)%nat ->
    exec call fuel (SWhile plus_cond plus_body) (ST i w rest) = ONormal (ST i' w' rest) /\ CapDefs.wcap w' = length blk.
  Proof.
    induction fm as [|fm IH]; intros i w i' w' fuel H Hcap Hf; [discriminate|].
    destruct fuel as [|fuel]; [lia|]. cbn [CapDefs.plus_loop] in H.
    destruct (CapDefs.rd s i) as [c| | |] eqn:Hc; cbn [CapDefs.bind] in H; try discriminate.
    pose proof (rd_lt256 i c Hc) as Hc256.
    rewrite exec_while, (eval_plus_cond rest i w c Hc). xcbn. rewrite nb2z.
    destruct ((c =? 0)%N || (c =? 32)%N); cbn [negb].
    { injection H as <- <-. split; [reflexivity|exact Hcap]. }
    match type of H with CapDefs.bind ?e _ = _ => destruct e as [i1| | |] eqn:H1 end; cbn [CapDefs.bind] in H; try discriminate.
    destruct (CapDefs.copy1 s i1 w) as [[i2 w2]| | |] eqn:H2; cbn [CapDefs.bind fst snd] in H; try discriminate.
    unfold plus_body at 1. rewrite exec_seq.
    match goal with |- context [exec call (S fuel) (SIf ?c ?a ?b) ?st] =>
      assert (E1 : exec call (S fuel) (SIf c a b) st = ONormal (ST i1 w rest)) end.
    { rewrite exec_if. xs. rewrite (load_rd w i c _ Hc) by lia. xs. chars H256.
      destruct (c =? 92)%N; xs.
      - destruct (CapDefs.rd s (S i)) as [b| | |] eqn:Hb; cbn [CapDefs.bind] in H1; try discriminate.
        pose proof (rd_lt256 (S i) b Hb). rewrite (load_rd w (S i) b _ Hb) by lia. xs. chars H256.
        injection H1 as <-. destruct (b =? 0)%N; xs; [reflexivity|].
        unfold S_inc. xs. replace (Z.of_nat i + 1) with (Z.of_nat (S i)) by lia. reflexivity.
      - injection H1 as <-. reflexivity. }
    rewrite E1. destruct (eval_copy1 i1 w rest i2 w2 H2 Hcap) as [E2 C2]. rewrite exec_expr, E2.
    apply (IH i2 w2 i' w' fuel H C2). lia.
  Qed.

  Definition plus_tail : stmt :=
    SSeq (SIf (C_ne 43) (SReturn (Some (ELocal 0))) SSkip)
   (SSeq (SWhile plus_cond plus_body) (SSeq (SExpr E_term) (SSeq (SWhile C_blank S_inc) (SReturn (Some (ELocal 0)))))).
  Lemma plus_tail_ok fuel i1 w i' w' : 
    CapDefs.bind (CapDefs.rd s i1) (fun c => if negb (c =? 43)%N then CapDefs.Ok (i1, w) else
      CapDefs.bind (CapDefs.plus_loop (S (length s)) s i1 w) (fun iw =>
      CapDefs.bind (CapDefs.wr (snd iw) 0%N) (fun w' =>
      CapDefs.bind (CapDefs.skip_while (S (length s)) CapDefs.is_blank s (fst iw)) (fun i2 => CapDefs.Ok (i2, w')))))
    = CapDefs.Ok (i', w') ->
    CapDefs.wcap w = length blk -> (S (length s) <= fuel)%nat ->
    exists st, exec call fuel plus_tail (ST i1 w []) = OReturn (VPtr bs (Z.of_nat i')) st /\ memm st = MM w'.
  Proof.
    intros H Hcap Hf.
    destruct (CapDefs.rd s i1) as [c| | |] eqn:Hc; cbn [CapDefs.bind] in H; try discriminate.
    pose proof (rd_lt256 i1 c Hc) as Hc256.
    unfold plus_tail. rewrite exec_seq, exec_if. unfold C_ne at 1. xs. rewrite (load_rd w i1 c _ Hc eq_refl). xs. chars H256.
    destruct (c =? 43)%N; cbn [negb] in H |- *; xs.
    2:{ injection H as <- <-. eexists; split; reflexivity. }
    destruct (CapDefs.plus_loop _ s i1 w) as [[i2 w2]| | |] eqn:H2; cbn [CapDefs.bind fst snd] in H; try discriminate.
    destruct (CapDefs.wr w2 0%N) as [w3| | |] eqn:H3; cbn [CapDefs.bind] in H; try discriminate.
    destruct (CapDefs.skip_while _ _ s i2) as [i3| | |] eqn:H4; cbn [CapDefs.bind] in H; try discriminate. injection H as <- <-.
    destruct (plus_loop_ok [] _ i1 w i2 w2 fuel H2 Hcap Hf) as [E2 C2].
    rewrite E2. xs. rewrite (eval_term _ _ _ w3 H3 C2). xs.
    rewrite (skip_loop_ok C_blank CapDefs.is_blank _ _ (fun i c => eval_C_blank _ _ w3 i c eq_refl) _ i2 i3 fuel H4 Hf).
    xs. eexists; split; reflexivity.
  Qed.
  Lemma ex_plus_shape : fn_body cf_ex_plus = SSeq (SWhile (C_is 32) S_inc) (SSeq (SExpr E_term) plus_tail).
  Proof. reflexivity. Qed.
  Lemma eval_C_sp rest mm' w i c : mm' = MM w -> CapDefs.rd s i = CapDefs.Ok c ->
    eval call (C_is 32) (mkst (VPtr bs (Z.of_nat i) :: rest) mm')
    = Ok (VInt (b2z (c =? 32)%N), mkst (VPtr bs (Z.of_nat i) :: rest) mm').
  Proof.
    intros -> Hc. pose proof (rd_lt256 i c Hc). unfold C_is. cond_tac Hc.
  Qed.

  (* ------------------------------------------------------------------ cutword (ec_set) *)
  (* cutword calls isspace( *s) on a plain char: for a byte above 127 the argument is negative, which
     <ctype.h> does not define (CLite: ECtype).  The theorem is therefore about ASCII strings. *)
  Section Cut.
  Hypothesis Hascii : Forall (fun c => (c < 128)%N) s.
  Lemma rd_ascii i c : CapDefs.rd s i = CapDefs.Ok c -> (c < 128)%N.
  Proof.
    intro H. destruct (rd_nthb s i c H) as [Hi ->]. unfold nthb.
    destruct (Nat.lt_ge_cases i (length s)) as [L|L].
    - rewrite Forall_forall in Hascii. apply Hascii. apply nth_In. exact L.
    - rewrite nth_overflow by exact L. reflexivity.
  Qed.
  Definition C_space : expr := EBuiltin BIsspace [ECast I32 (ELoad (Some I8) (ELocal 0))].
  Lemma eval_C_space rest mm' w i c : mm' = MM w -> CapDefs.rd s i = CapDefs.Ok c ->
    eval call C_space (mkst (VPtr bs (Z.of_nat i) :: rest) mm')
    = Ok (VInt (b2z (CapDefs.c_isspace c)), mkst (VPtr bs (Z.of_nat i) :: rest) mm').
  Proof.
    intros -> Hc. pose proof (rd_lt256 i c Hc) as H1. pose proof (rd_ascii i c Hc) as H2.
    unfold C_space. xs. rewrite (load_rd w i c _ Hc eq_refl). xs. rewrite (sx_cases c H1).
    destruct (N.ltb_spec c 128); [|lia]. rewrite (builtin_isspace c _ H1). reflexivity.
  Qed.
  Definition cut_cond : expr := EAndAlso C_nz (ELNot C_space).
  Lemma eval_cut_cond rest i w c : CapDefs.rd s i = CapDefs.Ok c ->
    eval call cut_cond (ST i w rest) = Ok (VInt (b2z (negb ((c =? 0)%N || CapDefs.c_isspace c))), ST i w rest).
  Proof.
    intros Hc. pose proof (rd_lt256 i c Hc) as H1. unfold cut_cond, C_nz. xs. rewrite (load_rd w i c _ Hc eq_refl). xs. chars H256.
    destruct (c =? 0)%N; xs; [reflexivity|].
    rewrite (eval_C_space _ _ w i c eq_refl Hc). xs. destruct (CapDefs.c_isspace c); reflexivity.
  Qed.
  Lemma cut_copy_ok rest : forall fm i w i' w' fuel,
    CapDefs.cut_copy fm s i w = CapDefs.Ok (i', w') -> CapDefs.wcap w = length blk -> (fm <= fuel)%nat ->
    exec call fuel (SWhile cut_cond (SExpr E_copy1)) (ST i w rest) = ONormal (ST i' w' rest) /\ CapDefs.wcap w' = length blk.
  Proof.
    induction fm as [|fm IH]; intros i w i' w' fuel H Hcap Hf; [discriminate|].
    destruct fuel as [|fuel]; [lia|]. cbn [CapDefs.cut_copy] in H.
    destruct (CapDefs.rd s i) as [c| | |] eqn:Hc; cbn [CapDefs.bind] in H; try discriminate.
    rewrite exec_while, (eval_cut_cond rest i w c Hc). xcbn. rewrite nb2z.
    destruct ((c =? 0)%N || CapDefs.c_isspace c); cbn [negb].
    { injection H as <- <-. split; [reflexivity|exact Hcap]. }
    destruct (CapDefs.copy1 s i w) as [[i2 w2]| | |] eqn:H2; cbn [CapDefs.bind fst snd] in H; try discriminate.
    destruct (eval_copy1 i w rest i2 w2 H2 Hcap) as [E2 C2]. rewrite exec_expr, E2.
    apply (IH i2 w2 i' w' fuel H C2). lia.
  Qed.
  Lemma cutword_shape : fn_body cf_cutword =
    SSeq (SWhile C_space S_inc) (SSeq (SWhile cut_cond (SExpr E_copy1)) (SSeq (SWhile C_space S_inc)
    (SSeq (SExpr E_term) (SReturn (Some (ELocal 0)))))).
  Proof. reflexivity. Qed.
  Lemma cutword_body_ok fuel i w0 i' w' : CapDefs.cutword s i w0 = CapDefs.Ok (i', w') ->
    CapDefs.wcap w0 = length blk -> (S (length s) <= fuel)%nat ->
    exists st, exec call fuel (fn_body cf_cutword) (ST i w0 []) = OReturn (VPtr bs (Z.of_nat i')) st /\ memm st = MM w'.
  Proof.
    intros H Hcap Hf. rewrite cutword_shape. unfold CapDefs.cutword in H. cbv zeta in H.
    destruct (CapDefs.skip_while _ _ s i) as [i1| | |] eqn:H1; cbn [CapDefs.bind] in H; try discriminate.
    destruct (CapDefs.cut_copy _ s i1 w0) as [[i2 w2]| | |] eqn:H2; cbn [CapDefs.bind fst snd] in H; try discriminate.
    destruct (CapDefs.skip_while _ _ s i2) as [i3| | |] eqn:H3; cbn [CapDefs.bind] in H; try discriminate.
    destruct (CapDefs.wr w2 0%N) as [w3| | |] eqn:H4; cbn [CapDefs.bind] in H; try discriminate. injection H as <- <-.
    rewrite exec_seq, (skip_loop_ok C_space CapDefs.c_isspace _ _ (fun i c => eval_C_space _ _ w0 i c eq_refl) _ i i1 fuel H1 Hf).
    destruct (cut_copy_ok [] _ i1 w0 i2 w2 fuel H2 Hcap Hf) as [E2 C2].
    rewrite exec_seq, E2.
    rewrite exec_seq, (skip_loop_ok C_space CapDefs.c_isspace _ _ (fun i c => eval_C_space _ _ w2 i c eq_refl) _ i2 i3 fuel H3 Hf).
    rewrite exec_seq, exec_expr, (eval_term _ _ _ w3 H4 C2), exec_return. xcbn. eexists; split; reflexivity.
  Qed.
  End Cut.
End Scan.

(* ------------------------------------------------------------------ the calls *)
Lemma newbuf_cap n : CapDefs.wcap (CapDefs.newbuf n) = n.
Proof. reflexivity. Qed.

(* ex_cmd(src, cmd): when the model, writing into a buffer as large as the block cmd points to, returns
   (i', w), the translated C function returns src + i' and has stored the bytes of w -- and nothing else *)
Theorem tr_ex_cmd m bs bd s blk i i' w d fuel :
  str_at m bs s -> bytes_lt256 s -> nth_error m bd = Some blk -> bs <> bd ->
  CapDefs.ex_cmd s i (CapDefs.newbuf (length blk)) = CapDefs.Ok (i', w) ->
  (S (length s) <= fuel)%nat ->
  callf cprog fuel (S d) F_ex_cmd [VPtr bs (Z.of_nat i); VPtr bd 0] m
  = Ok (VPtr bs (Z.of_nat i'), upd m bd (dblock w blk)).
Proof.
  intros Hs H256 Hd Hne H Hf.
  destruct (ex_cmd_body_ok m bs bd s blk Hs H256 Hd Hne (callf cprog fuel d) fuel i _ i' w VUndef H (newbuf_cap _) Hf) as (st & E & M).
  rewrite (MM_new m bd blk Hd) in E. rewrite callf_S. cbn [nth_error cprog F_ex_cmd].
  change (fn_nparams cf_ex_cmd) with 2%nat. change (fn_nlocals cf_ex_cmd) with 3%nat.
  cbn [length Nat.eqb Nat.sub repeat app]. cbn [CapDefs.wlen CapDefs.newbuf fst length Z.of_nat] in E.
  rewrite E, M. reflexivity.
Qed.

Theorem tr_ex_loc m bs bd s blk i i' w d fuel :
  str_at m bs s -> bytes_lt256 s -> nth_error m bd = Some blk -> bs <> bd ->
  nth_error m G_exloc = Some gb_exloc -> G_exloc <> bd ->
  CapDefs.ex_loc s i (CapDefs.newbuf (length blk)) = CapDefs.Ok (i', w) ->
  (2 * S (length s) <= fuel)%nat ->
  callf cprog fuel (S d) F_ex_loc [VPtr bs (Z.of_nat i); VPtr bd 0] m
  = Ok (VPtr bs (Z.of_nat i'), upd m bd (dblock w blk)).
Proof.
  intros Hs H256 Hd Hne Hlit Hg H Hf.
  destruct (ex_loc_body_ok m bs bd s blk Hs H256 Hd Hne (callf cprog fuel d) Hlit Hg fuel i _ i' w VUndef H (newbuf_cap _) Hf) as (st & E & M).
  rewrite (MM_new m bd blk Hd) in E. rewrite callf_S. cbn [nth_error cprog F_ex_loc].
  change (fn_nparams cf_ex_loc) with 2%nat. change (fn_nlocals cf_ex_loc) with 3%nat.
  cbn [length Nat.eqb Nat.sub repeat app]. cbn [CapDefs.wlen CapDefs.newbuf fst length Z.of_nat] in E.
  rewrite E, M. reflexivity.
Qed.

(* ex_arg(src, dst, excmd): c0, c1 are the first bytes of the command name (CapDefs.ch0, ch1) *)
Theorem tr_ex_arg m bs bd be s e blk i i' w d fuel :
  str_at m bs s -> bytes_lt256 s -> nth_error m bd = Some blk -> bs <> bd ->
  str_at m be e -> bytes_lt256 e -> be <> bd ->
  CapDefs.ex_arg s i (CapDefs.newbuf (length blk)) (CapDefs.ch0 e) (CapDefs.ch1 e) = CapDefs.Ok (i', w) ->
  (S (length s) <= fuel)%nat ->
  callf cprog fuel (S d) F_ex_arg [VPtr bs (Z.of_nat i); VPtr bd 0; VPtr be 0] m
  = Ok (VPtr bs (Z.of_nat i'), upd m bd (dblock w blk)).
Proof.
  intros Hs H256 Hd Hne He He256 Hbe H Hf.
  destruct (ex_arg_body_ok m bs bd s blk Hs H256 Hd Hne (callf cprog fuel d) be e He He256 Hbe fuel i _ i' w H (newbuf_cap _) Hf) as (st & E & M).
  rewrite (MM_new m bd blk Hd) in E. rewrite callf_S. cbn [nth_error cprog F_ex_arg].
  change (fn_nparams cf_ex_arg) with 3%nat. change (fn_nlocals cf_ex_arg) with 7%nat.
  cbn [length Nat.eqb Nat.sub repeat app]. cbn [CapDefs.wlen CapDefs.newbuf fst length Z.of_nat] in E.
  rewrite E, M. reflexivity.
Qed.

(* ex_plus(src, pls): the C text stores a terminator at pls[0] before it looks for the '+' (the model only
   checks that there is room for it), so the destination is described over blk with cell 0 set to 0 *)
Theorem tr_ex_plus m bs bd s blk i i' w d fuel :
  str_at m bs s -> bytes_lt256 s -> nth_error m bd = Some blk -> bs <> bd ->
  CapDefs.ex_plus s i (CapDefs.newbuf (length blk)) = CapDefs.Ok (i', w) ->
  (S (length s) <= fuel)%nat ->
  callf cprog fuel (S d) F_ex_plus [VPtr bs (Z.of_nat i); VPtr bd 0] m
  = Ok (VPtr bs (Z.of_nat i'), upd m bd (dblock w (upd blk 0 (VInt 0)))).
Proof.
  intros Hs H256 Hd Hne H Hf. unfold CapDefs.ex_plus in H. cbv zeta in H.
  destruct (CapDefs.skip_while _ _ s i) as [i1| | |] eqn:H1; cbn [CapDefs.bind] in H; try discriminate.
  change (CapDefs.wroom (CapDefs.newbuf (length blk))) with (length blk) in H.
  destruct (Nat.eqb_spec (length blk) 0) as [|Hn0]; [discriminate|].
  pose (blk' := upd blk 0 (VInt 0)). pose (m' := upd m bd blk').
  assert (Hbd : (bd < length m)%nat) by (apply nth_error_Some; congruence).
  assert (Hs' : str_at m' bs s) by (apply str_at_upd_other; auto).
  assert (Hd' : nth_error m' bd = Some blk') by (apply mem_upd_same; exact Hbd).
  assert (Hl' : length blk' = length blk) by (apply upd_length; lia).
  rewrite <- Hl' in H.
  destruct (plus_tail_ok m' bs bd s blk' Hs' H256 Hd' Hne (callf cprog fuel d) fuel i1 _ i' w H (newbuf_cap _) Hf) as (st & E & M).
  rewrite (MM_new m' bd blk' Hd') in E. cbn [CapDefs.wlen CapDefs.newbuf fst length Z.of_nat] in E.
  rewrite callf_S. cbn [nth_error cprog F_ex_plus].
  change (fn_nparams cf_ex_plus) with 2%nat. change (fn_nlocals cf_ex_plus) with 2%nat.
  cbn [length Nat.eqb Nat.sub repeat app]. rewrite ex_plus_shape.
  rewrite exec_seq.
  rewrite (skip_loop_ok bs bd s Hne (callf cprog fuel d) (C_is 32) (fun c => (c =? 32)%N) [VPtr bd 0] m
             (fun i c => eval_C_sp m bs bd s blk Hs H256 Hd Hne _ _ m (CapDefs.newbuf (length blk)) i c (eq_sym (MM_new m bd blk Hd _))) _ i i1 fuel H1 Hf).
  rewrite exec_seq, exec_expr. unfold E_term at 1. xcbn.
  rewrite (store_ok m bd blk 0 _ Hd) by lia. xcbn.
  change (upd m bd (upd blk (Z.to_nat 0) (VInt (wrap I8 (wrap I8 0))))) with m'.
  rewrite E, M. unfold MM, m'. rewrite upd_upd by exact Hbd. reflexivity.
Qed.

(* cutword(s, tok) of ec_set, for ASCII strings (see the note at Section Cut) *)
Theorem tr_cutword m bs bd s blk i i' w d fuel :
  str_at m bs s -> Forall (fun c => (c < 128)%N) s -> nth_error m bd = Some blk -> bs <> bd ->
  CapDefs.cutword s i (CapDefs.newbuf (length blk)) = CapDefs.Ok (i', w) ->
  (S (length s) <= fuel)%nat ->
  callf cprog fuel (S d) F_cutword [VPtr bs (Z.of_nat i); VPtr bd 0] m
  = Ok (VPtr bs (Z.of_nat i'), upd m bd (dblock w blk)).
Proof.
  intros Hs Hascii Hd Hne H Hf.
  assert (H256 : bytes_lt256 s) by (eapply Forall_impl; [|exact Hascii]; cbv beta; intros; lia).
  destruct (cutword_body_ok m bs bd s blk Hs H256 Hd Hne (callf cprog fuel d) Hascii fuel i _ i' w H (newbuf_cap _) Hf) as (st & E & M).
  rewrite (MM_new m bd blk Hd) in E. rewrite callf_S. cbn [nth_error cprog F_cutword].
  change (fn_nparams cf_cutword) with 2%nat. change (fn_nlocals cf_cutword) with 2%nat.
  cbn [length Nat.eqb Nat.sub repeat app]. cbn [CapDefs.wlen CapDefs.newbuf fst length Z.of_nat] in E.
  rewrite E, M. reflexivity.
Qed.

(* ------------------------------------------------------------------ composed with the capacity theorem *)
(* a C string as chars, with its terminator *)
Definition cstr_cells (out : bytes) : list val := map cell out ++ [VInt 0].

Lemma bind_Ok {A B} (e : CapDefs.res A) (f : A -> CapDefs.res B) r :
  CapDefs.bind e f = CapDefs.Ok r -> exists a, e = CapDefs.Ok a /\ f a = CapDefs.Ok r.
Proof. destruct e; cbn; try discriminate. eauto. Qed.
Ltac binv H := repeat (apply bind_Ok in H; let a := fresh "a" in let E := fresh "E" in destruct H as (a & E & H)).

Lemma ex_loc_term s i w0 i' w : CapDefs.ex_loc s i w0 = CapDefs.Ok (i', w) -> exists r, fst w = 0%N :: r.
Proof.
  unfold CapDefs.ex_loc. intro H. binv H. injection H as _ <-.
  match goal with E : CapDefs.wr _ _ = _ |- _ => destruct (wr_inv _ _ _ E) as (F & _) end. eauto.
Qed.
Lemma ex_cmd_term s i w0 i' w : CapDefs.ex_cmd s i w0 = CapDefs.Ok (i', w) -> exists r, fst w = 0%N :: r.
Proof.
  unfold CapDefs.ex_cmd. intro H. binv H. injection H as _ <-.
  match goal with E : CapDefs.wr _ _ = _ |- _ => destruct (wr_inv _ _ _ E) as (F & _) end. eauto.
Qed.
Lemma ex_arg_term s i w0 c0 c1 i' w : CapDefs.ex_arg s i w0 c0 c1 = CapDefs.Ok (i', w) -> exists r, fst w = 0%N :: r.
Proof.
  unfold CapDefs.ex_arg. cbv zeta. intro H. binv H. injection H as _ <-.
  match goal with E : CapDefs.wr _ _ = _ |- _ => destruct (wr_inv _ _ _ E) as (F & _) end. eauto.
Qed.

Lemma dblock_wstr w blk : (exists r, fst w = 0%N :: r) ->
  dblock w blk = cstr_cells (CapDefs.wstr w) ++ skipn (S (length (CapDefs.wstr w))) blk.
Proof.
  intros (r & F). unfold dblock, wcells, cstr_cells, CapDefs.wstr, CapDefs.wlen. rewrite F. cbn [rev length].
  rewrite map_app, rev_length. reflexivity.
Qed.

Lemma len_excap (blk : block) : Z.of_nat (length blk) = EXLEN -> length blk = CapDefs.excap.
Proof. intro H. apply Nat2Z.inj. rewrite H. symmetry. apply CapProps.excap_EXLEN. Qed.

(* for every command line shorter than EXLEN in one block, from any position, and a destination block of
   exactly EXLEN cells: the call returns (so every load was inside the line and its terminator, every
   store inside the destination), the pointer returned is src + the model's count, and the destination
   holds the model's output as a C string in front of its untouched rest *)
Theorem ex_loc_safe m bs bd s blk i d fuel :
  str_at m bs s -> bytes_lt256 s -> nth_error m bd = Some blk -> Z.of_nat (length blk) = EXLEN -> bs <> bd ->
  nth_error m G_exloc = Some gb_exloc -> G_exloc <> bd ->
  Z.of_nat (length s) < EXLEN -> (i <= length s)%nat -> (2 * S (length s) <= fuel)%nat ->
  exists i' w, CapDefs.ex_loc s i (CapDefs.newbuf CapDefs.excap) = CapDefs.Ok (i', w) /\
    callf cprog fuel (S d) F_ex_loc [VPtr bs (Z.of_nat i); VPtr bd 0] m
    = Ok (VPtr bs (Z.of_nat i'), upd m bd (cstr_cells (CapDefs.wstr w) ++ skipn (S (length (CapDefs.wstr w))) blk)) /\
    (i <= i')%nat /\ (i' <= length s)%nat /\ (length (CapDefs.wstr w) <= i' - i)%nat /\
    (length (CapDefs.wstr w) < length blk)%nat.
Proof.
  intros Hs H256 Hd Hlen Hne Hlit Hg Hln Hi Hf. pose proof (len_excap blk Hlen) as Hcap.
  destruct (CapProps.ex_parts_fit s i 0%N 0%N Hln Hi) as ((i' & w & E & L1 & L2 & L3 & L4) & _).
  exists i', w. split; [exact E|]. rewrite <- Hcap in E.
  rewrite (tr_ex_loc m bs bd s blk i i' w d fuel Hs H256 Hd Hne Hlit Hg E Hf).
  rewrite (dblock_wstr w blk (ex_loc_term _ _ _ _ _ E)).
  pose proof (CapProps.wstr_length w) as WL. destruct (ex_loc_term _ _ _ _ _ E) as (r & F).
  assert (CapDefs.wlen w = S (length r)) as WL2 by (unfold CapDefs.wlen; rewrite F; reflexivity).
  repeat split; try assumption; lia.
Qed.

Theorem ex_cmd_safe m bs bd s blk i d fuel :
  str_at m bs s -> bytes_lt256 s -> nth_error m bd = Some blk -> Z.of_nat (length blk) = EXLEN -> bs <> bd ->
  Z.of_nat (length s) < EXLEN -> (i <= length s)%nat -> (S (length s) <= fuel)%nat ->
  exists i' w, CapDefs.ex_cmd s i (CapDefs.newbuf CapDefs.excap) = CapDefs.Ok (i', w) /\
    callf cprog fuel (S d) F_ex_cmd [VPtr bs (Z.of_nat i); VPtr bd 0] m
    = Ok (VPtr bs (Z.of_nat i'), upd m bd (cstr_cells (CapDefs.wstr w) ++ skipn (S (length (CapDefs.wstr w))) blk)) /\
    (i <= i')%nat /\ (i' <= length s)%nat /\ (length (CapDefs.wstr w) <= i' - i)%nat /\
    (length (CapDefs.wstr w) <= 17)%nat.
Proof.
  intros Hs H256 Hd Hlen Hne Hln Hi Hf. pose proof (len_excap blk Hlen) as Hcap.
  destruct (CapProps.ex_parts_fit s i 0%N 0%N Hln Hi) as (_ & (i' & w & E & L1 & L2 & L3 & L4 & L5) & _).
  exists i', w. split; [exact E|]. rewrite <- Hcap in E.
  rewrite (tr_ex_cmd m bs bd s blk i i' w d fuel Hs H256 Hd Hne E Hf).
  rewrite (dblock_wstr w blk (ex_cmd_term _ _ _ _ _ E)).
  pose proof (CapProps.wstr_length w) as WL. destruct (ex_cmd_term _ _ _ _ _ E) as (r & F).
  assert (CapDefs.wlen w = S (length r)) as WL2 by (unfold CapDefs.wlen; rewrite F; reflexivity).
  repeat split; try assumption; lia.
Qed.

Theorem ex_arg_safe m bs bd be s e blk i d fuel :
  str_at m bs s -> bytes_lt256 s -> nth_error m bd = Some blk -> Z.of_nat (length blk) = EXLEN -> bs <> bd ->
  str_at m be e -> bytes_lt256 e -> be <> bd ->
  Z.of_nat (length s) < EXLEN -> (i <= length s)%nat -> (S (length s) <= fuel)%nat ->
  exists i' w, CapDefs.ex_arg s i (CapDefs.newbuf CapDefs.excap) (CapDefs.ch0 e) (CapDefs.ch1 e) = CapDefs.Ok (i', w) /\
    callf cprog fuel (S d) F_ex_arg [VPtr bs (Z.of_nat i); VPtr bd 0; VPtr be 0] m
    = Ok (VPtr bs (Z.of_nat i'), upd m bd (cstr_cells (CapDefs.wstr w) ++ skipn (S (length (CapDefs.wstr w))) blk)) /\
    (i <= i')%nat /\ (i' <= length s)%nat /\ (length (CapDefs.wstr w) <= i' - i)%nat /\
    (length (CapDefs.wstr w) < length blk)%nat.
Proof.
  intros Hs H256 Hd Hlen Hne He He256 Hbe Hln Hi Hf. pose proof (len_excap blk Hlen) as Hcap.
  destruct (CapProps.ex_parts_fit s i (CapDefs.ch0 e) (CapDefs.ch1 e) Hln Hi) as (_ & _ & (i' & w & E & L1 & L2 & L3 & L4)).
  exists i', w. split; [exact E|]. rewrite <- Hcap in E.
  rewrite (tr_ex_arg m bs bd be s e blk i i' w d fuel Hs H256 Hd Hne He He256 Hbe E Hf).
  rewrite (dblock_wstr w blk (ex_arg_term _ _ _ _ _ _ _ E)).
  pose proof (CapProps.wstr_length w) as WL. destruct (ex_arg_term _ _ _ _ _ _ _ E) as (r & F).
  assert (CapDefs.wlen w = S (length r)) as WL2 by (unfold CapDefs.wlen; rewrite F; reflexivity).
  repeat split; try assumption; lia.
Qed.

(* ex_plus(arg, pls) in ec_edit: pls[EXLEN], arg a piece of the command line *)
Theorem ex_plus_safe m bs bd s blk i d fuel :
  str_at m bs s -> bytes_lt256 s -> nth_error m bd = Some blk -> Z.of_nat (length blk) = EXLEN -> bs <> bd ->
  Z.of_nat (length s) < EXLEN -> (i <= length s)%nat -> (S (length s) <= fuel)%nat ->
  exists i' w, CapDefs.ex_plus s i (CapDefs.newbuf CapDefs.excap) = CapDefs.Ok (i', w) /\
    callf cprog fuel (S d) F_ex_plus [VPtr bs (Z.of_nat i); VPtr bd 0] m
    = Ok (VPtr bs (Z.of_nat i'), upd m bd (dblock w (upd blk 0 (VInt 0)))) /\
    (i <= i')%nat /\ (i' <= length s)%nat /\ (CapDefs.wlen w <= i' - i + 1)%nat /\ (CapDefs.wlen w <= length blk)%nat.
Proof.
  intros Hs H256 Hd Hlen Hne Hln Hi Hf. pose proof (len_excap blk Hlen) as Hcap.
  pose proof CapProps.excap_EXLEN as HE.
  destruct (CapProps.ex_plus_spec s i (CapDefs.newbuf CapDefs.excap) Hi) as (i' & w & E & L1 & L2 & L3).
  { change (CapDefs.wroom (CapDefs.newbuf CapDefs.excap)) with CapDefs.excap. lia. }
  exists i', w. split; [exact E|]. rewrite <- Hcap in E.
  rewrite (tr_ex_plus m bs bd s blk i i' w d fuel Hs H256 Hd Hne E Hf).
  change (CapDefs.wlen (CapDefs.newbuf CapDefs.excap)) with 0%nat in L3.
  repeat split; try assumption; lia.
Qed.

Lemma cutword_term s i w0 i' w : CapDefs.cutword s i w0 = CapDefs.Ok (i', w) -> exists r, fst w = 0%N :: r.
Proof.
  unfold CapDefs.cutword. cbv zeta. intro H. binv H. injection H as _ <-.
  match goal with E : CapDefs.wr _ _ = _ |- _ => destruct (wr_inv _ _ _ E) as (F & _) end. eauto.
Qed.
(* cutword(arg, tok) in ec_set: tok[EXLEN], arg shorter than EXLEN and ASCII *)
Theorem cutword_safe m bs bd s blk i d fuel :
  str_at m bs s -> Forall (fun c => (c < 128)%N) s -> nth_error m bd = Some blk -> Z.of_nat (length blk) = EXLEN -> bs <> bd ->
  Z.of_nat (length s) < EXLEN -> (i <= length s)%nat -> (S (length s) <= fuel)%nat ->
  exists i' w, CapDefs.cutword s i (CapDefs.newbuf CapDefs.excap) = CapDefs.Ok (i', w) /\
    callf cprog fuel (S d) F_cutword [VPtr bs (Z.of_nat i); VPtr bd 0] m
    = Ok (VPtr bs (Z.of_nat i'), upd m bd (cstr_cells (CapDefs.wstr w) ++ skipn (S (length (CapDefs.wstr w))) blk)) /\
    (i <= i')%nat /\ (i' <= length s)%nat /\ (length (CapDefs.wstr w) <= i' - i)%nat /\
    (length (CapDefs.wstr w) < length blk)%nat.
Proof.
  intros Hs Hascii Hd Hlen Hne Hln Hi Hf. pose proof (len_excap blk Hlen) as Hcap.
  pose proof CapProps.excap_EXLEN as HE.
  destruct (CapProps.cutword_spec s i (CapDefs.newbuf CapDefs.excap) Hi) as (i' & w & E & L1 & L2 & L3 & _).
  { change (CapDefs.wroom (CapDefs.newbuf CapDefs.excap)) with CapDefs.excap. lia. }
  exists i', w. split; [exact E|]. rewrite <- Hcap in E.
  rewrite (tr_cutword m bs bd s blk i i' w d fuel Hs Hascii Hd Hne E Hf).
  rewrite (dblock_wstr w blk (cutword_term _ _ _ _ _ E)).
  change (CapDefs.wlen (CapDefs.newbuf CapDefs.excap)) with 0%nat in L3.
  pose proof (CapProps.wstr_length w) as WL. destruct (cutword_term _ _ _ _ _ E) as (r & F).
  assert (CapDefs.wlen w = S (length r)) as WL2 by (unfold CapDefs.wlen; rewrite F; reflexivity).
  repeat split; try assumption; lia.
Qed.

(* reading a C string back from a block (for the examples that RUN the translated functions) *)
Fixpoint cells_to_nul (l : list val) : list Z :=
  match l with VInt 0 :: _ => [] | VInt z :: r => z :: cells_to_nul r | _ => [] end.
Definition str_of (m : mem) (b : nat) : list Z :=
  match nth_error m b with Some l => cells_to_nul l | None => [] end.
