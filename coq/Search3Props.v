(* Search3Props.v -- C13, third part: the delimiter parser of the search prompt (rset.c re_read as modelled by
   SearchDefs.re_read) on patterns that end in backslashes: it is the same function as the one the :s model uses
   (SubstDefs.re_read_loop), a backslash is consumed TOGETHER with the byte after it, so the closing delimiter after an
   even run of backslashes closes the pattern and the line offset behind it is read; after an odd run it is a byte of
   the pattern. *)
From Coq Require Import List NArith ZArith Bool Arith Lia.
From NV Require Import Bytes UcDefs GenConsts SearchDefs Search2Defs.
From NV Require SubstDefs SubstArgDefs SubstArgProps.
Import ListNotations.
Local Open Scope nat_scope.

Lemma re_read_f_loop : forall fuel d s acc, length s < fuel ->
  re_read_f fuel d s acc = (rev acc ++ fst (SubstDefs.re_read_loop d s), snd (SubstDefs.re_read_loop d s)).
Proof.
  induction fuel as [|f IH]; intros d s acc Hl; [lia|].
  destruct s as [|c s1]; cbn [re_read_f SubstDefs.re_read_loop].
  - cbn [fst snd]. now rewrite app_nil_r.
  - cbn [length] in Hl. destruct (c =? d)%N.
    + cbn [fst snd]. now rewrite app_nil_r.
    + destruct (c =? 92)%N.
      * destruct s1 as [|x s2].
        -- rewrite (IH d [] (c :: acc)) by (cbn; lia). cbn [SubstDefs.re_read_loop fst snd rev]. now rewrite <- app_assoc.
        -- cbn [length] in Hl. destruct (x =? d)%N.
           ++ rewrite (IH d s2 (x :: acc)) by lia. destruct (SubstDefs.re_read_loop d s2) as [t r].
              cbn [fst snd rev]. now rewrite <- app_assoc.
           ++ rewrite (IH d s2 (x :: 92%N :: acc)) by lia. destruct (SubstDefs.re_read_loop d s2) as [t r].
              cbn [fst snd rev]. now rewrite <- !app_assoc.
      * rewrite (IH d s1 (c :: acc)) by lia. destruct (SubstDefs.re_read_loop d s1) as [t r].
        cbn [fst snd rev]. now rewrite <- app_assoc.
Qed.

(* one parser for the search prompt and for :s *)
Theorem re_read_same d s : re_read d s = SubstDefs.re_read_loop d s.
Proof.
  unfold re_read. rewrite re_read_f_loop by lia. cbn [rev app]. now destruct (SubstDefs.re_read_loop d s).
Qed.

Import SubstArgDefs.

Theorem re_read_units d u rest : d <> 92%N -> units d u -> re_read d (u ++ d :: rest) = (unesc d u, rest).
Proof. intros Hd Hu. rewrite re_read_same. now apply SubstArgProps.re_read_loop_units. Qed.

Theorem re_read_open d u : d <> 92%N -> units d u ->
  re_read d u = (unesc d u, []) /\ re_read d (u ++ [92%N]) = (unesc d u ++ [92%N], []).
Proof.
  intros Hd Hu. rewrite !re_read_same. split.
  - now apply SubstArgProps.re_read_loop_open.
  - now apply SubstArgProps.re_read_loop_open_bs.
Qed.

Theorem re_read_even_run d u k rest : d <> 92%N -> units d u ->
  re_read d (u ++ bs (2 * k) ++ d :: rest) = (unesc d u ++ bs (2 * k), rest).
Proof. intros Hd Hu. rewrite re_read_same. now apply SubstArgProps.even_run_closes. Qed.

Theorem re_read_odd_run d u k rest : d <> 92%N -> units d u ->
  re_read d (u ++ bs (2 * k + 1) ++ d :: rest) =
  (unesc d u ++ bs (2 * k) ++ d :: fst (re_read d rest), snd (re_read d rest)).
Proof.
  intros Hd Hu. rewrite !re_read_same. rewrite (SubstArgProps.odd_run_escapes d u k (d :: rest) Hd Hu).
  rewrite N.eqb_refl. destruct (SubstDefs.re_read_loop d rest) as [t r]. reflexivity.
Qed.

(* the line offset is taken from the text after the closing delimiter: after units (in particular after a pattern
   that ends in an even run of backslashes) followed by the delimiter, from what follows that delimiter *)
Theorem prompt_off_units d u rest : d <> 92%N -> units d u ->
  prompt_off d (u ++ d :: rest) =
  (match skip_spaces rest with [] => false | _ => true end, c_atoi (skip_spaces rest)).
Proof. intros Hd Hu. unfold prompt_off. now rewrite (re_read_units d u rest Hd Hu). Qed.

Theorem prompt_off_open d u : d <> 92%N -> units d u ->
  prompt_off d u = (false, 0%Z) /\ prompt_off d (u ++ [92%N]) = (false, 0%Z).
Proof.
  intros Hd Hu. destruct (re_read_open d u Hd Hu) as [E1 E2]. unfold prompt_off. rewrite E1, E2. split; reflexivity.
Qed.

(* what the prompt leaves in the search state: the pattern (when not empty and shorter than EXLEN), the direction of
   the delimiter, the offset *)
Theorem prompt_search_units st d u rest : d <> 92%N -> units d u -> unesc d u <> [] ->
  length (unesc d u) < Z.to_nat EXLEN ->
  let st' := prompt_search st d (u ++ d :: rest) in
  kwd st' = unesc d u /\ kdir st' = (if (d =? 47)%N then 1%Z else (-1)%Z) /\
  off_of st' = (match skip_spaces rest with [] => false | _ => true end, c_atoi (skip_spaces rest)).
Proof.
  intros Hd Hu Hne Hlen. cbn zeta. unfold prompt_search, off_of. rewrite (re_read_units d u rest Hd Hu).
  destruct (unesc d u) as [|c t] eqn:E; [contradiction|]. cbn [kwdset kwd kdir soset so].
  rewrite <- E in *. split; [|split; reflexivity]. apply firstn_all2. lia.
Qed.
