(* TrTerm.v -- the input queue of term.c (term_push, term_cmd, term_read) as C TEXT.
   tools/c2clite.py turns the three functions and the file-level statics
       static char ibuf[4096];  static int ibuf_pos, ibuf_cnt;  static char icmd[4096];  static int icmd_pos;
   into CLite terms over the global blocks G_ibuf, G_ibuf_pos, G_ibuf_cnt, G_icmd, G_icmd_pos (GenCFuncs.v).
   Proved here, for EVERY memory in which those blocks satisfy 0 <= ibuf_pos <= ibuf_cnt <= sizeof(ibuf):
     tr_term_push   term_push(s, n), s = n cells of any other block, n >= 0: returns, and the memory afterwards is
                    given explicitly (push_block): min(n, sizeof(ibuf) - ibuf_cnt) cells of s stand in front of the unread
                    keys, the read part ibuf[0 .. ibuf_pos) and the cells behind the queue are untouched, ibuf_cnt grew
                    by the clipped count, ibuf_pos is unchanged.  Returning a value means: the memmove and the
                    memcpy stayed inside ibuf and inside s (every cell access of CLite is checked).
     tr_term_cmd    term_cmd(&n): *n = icmd_pos, icmd_pos = 0, returns icmd.
     tr_term_read_queued   term_read() while the queue holds an unread key: the key (as unsigned char), ibuf_pos + 1,
                    the key recorded in icmd[icmd_pos++] when icmd_pos < sizeof(icmd).  (The other path of term_read
                    calls poll() and read(): outside the translated subset, a call is the error EShape.)
   and the abstractions: the queue read off the memory (queue_of) moves as InputQueue.term_push / term_read /
   term_cmd say (C09), the three counters as CapDefs.t_step says (C05). *)
From Coq Require Import List ZArith NArith Bool Lia.
From NV Require Import Bytes GenConsts CLite CLiteProps GenCFuncs CLiteTac.
From NV Require InputQueue CapDefs.
Import ListNotations.
Local Open Scope Z_scope.

(* ------------------------------------------------------------------ the block ibuf after a push *)
(* read part ++ pushed cells ++ the unread keys ++ what was behind them, minus the cells that fell off the end *)
Definition push_block (blk : block) (pos cnt : Z) (src : list val) : block :=
  firstn (Z.to_nat pos) blk ++ src ++ firstn (Z.to_nat (cnt - pos)) (skipn (Z.to_nat pos) blk)
  ++ skipn (Z.to_nat cnt + length src) blk.

(* memmove(ibuf + pos + k, ibuf + pos, cnt - pos) followed by memcpy(ibuf + pos, src, k) *)
Lemma push_block_put (blk : block) pos cnt (src : list val) :
  0 <= pos <= cnt -> (Z.to_nat cnt + length src <= length blk)%nat ->
  put_cells (put_cells blk (Z.to_nat pos + length src) (firstn (Z.to_nat (cnt - pos)) (skipn (Z.to_nat pos) blk))) (Z.to_nat pos) src
  = push_block blk pos cnt src.
Proof.
  intros Hp Hl. set (U := firstn (Z.to_nat (cnt - pos)) (skipn (Z.to_nat pos) blk)).
  assert (HU : length U = Z.to_nat (cnt - pos)) by (unfold U; rewrite firstn_length, skipn_length; lia).
  unfold put_cells at 1. rewrite firstn_put_cells by lia. rewrite skipn_put_cells by lia.
  unfold push_block. fold U. rewrite HU. do 4 f_equal. lia.
Qed.
Lemma push_block_length (blk : block) pos cnt (src : list val) :
  0 <= pos <= cnt -> (Z.to_nat cnt + length src <= length blk)%nat -> length (push_block blk pos cnt src) = length blk.
Proof.
  intros Hp Hl. unfold push_block. rewrite !app_length, !firstn_length, !skipn_length. lia.
Qed.

(* ------------------------------------------------------------------ term_push *)
Theorem tr_term_push m pos cnt blk bs os sblk n d fuel :
  cell_at m G_ibuf_pos pos -> cell_at m G_ibuf_cnt cnt -> nth_error m G_ibuf = Some blk ->
  Z.of_nat (length blk) = IBUFSZ -> 0 <= pos <= cnt -> cnt <= IBUFSZ ->
  nth_error m bs = Some sblk -> bs <> G_ibuf ->
  0 <= n <= 2147483647 -> 0 <= os -> os + n <= Z.of_nat (length sblk) ->
  callf cprog fuel (S d) F_term_push [VPtr bs os; VInt n] m
  = Ok (VUndef,
        upd (upd m G_ibuf (push_block blk pos cnt (firstn (Z.to_nat (Z.min n (IBUFSZ - cnt))) (skipn (Z.to_nat os) sblk))))
            G_ibuf_cnt [VInt (cnt + Z.min n (IBUFSZ - cnt))]).
Proof.
  intros Hpos Hcnt Hblk Hlen Hpc Hc Hsrc Hne Hn Hos Hsl.
  unfold IBUFSZ in *.
  assert (Hb : (G_ibuf < length m)%nat) by (apply nth_error_Some; congruence).
  enter F_term_push cf_term_push. xstep.
  (* n = MIN(n, sizeof(ibuf) - ibuf_cnt), computed in unsigned long *)
  rewrite (load_cell m G_ibuf_cnt cnt Hcnt). xstep.
  rewrite (wrap_I32_id cnt), (wrap_U64_id cnt), (wrap_U64_id n) by lia.
  rewrite chk_U64 by lia. xstep.
  set (n' := Z.min n _).
  assert (Hn' : 0 <= n' <= n /\ cnt + n' <= Z.of_nat (length blk)) by (unfold n'; lia).
  match goal with |- match match match ?X with _ => _ end with _ => _ end with _ => _ end = _ =>
    assert (E1 : X = Ok (VInt n', mkst [VPtr bs os; VInt n'] m)) end.
  { match goal with |- context [?a <? ?b] => destruct (Z.ltb_spec a b) end; xstep.
    - rewrite (wrap_U64_id n) by lia. rewrite wrap_I32_id by lia. unfold n'. rewrite Z.min_l by lia. reflexivity.
    - rewrite (load_cell m G_ibuf_cnt cnt Hcnt). xstep.
      rewrite (wrap_I32_id cnt), (wrap_U64_id cnt) by lia. rewrite chk_U64 by lia. xstep.
      rewrite wrap_I32_id by lia. unfold n'. rewrite Z.min_r by lia. reflexivity. }
  rewrite E1. clear E1. xstep.
  (* memmove(ibuf + ibuf_pos + n, ibuf + ibuf_pos, ibuf_cnt - ibuf_pos) *)
  repeat (progress (rewrite ?(load_cell m G_ibuf_pos pos Hpos), ?(load_cell m G_ibuf_cnt cnt Hcnt); xstep;
                    rewrite ?(wrap_I32_id pos), ?(wrap_I32_id cnt) by lia)).
  rewrite (chk_I32 (cnt - pos)) by lia. xstep. rewrite (wrap_U64_id (cnt - pos)) by lia.
  replace (0 + 1 * pos + 1 * n') with (pos + n') by lia. replace (0 + 1 * pos) with pos by lia.
  rewrite (memmove_ok m G_ibuf _ G_ibuf _ _ blk blk Hblk Hblk) by lia. xstep.
  set (src := firstn (Z.to_nat n') (skipn (Z.to_nat os) sblk)).
  assert (Hsrc_len : length src = Z.to_nat n') by (unfold src; rewrite firstn_length, skipn_length; lia).
  set (blk1 := put_cells blk _ _). set (m1 := upd m G_ibuf blk1).
  assert (Hlen1 : length blk1 = length blk)
    by (unfold blk1; apply put_cells_length; rewrite firstn_length, skipn_length; lia).
  assert (Hpos1 : cell_at m1 G_ibuf_pos pos) by (apply cell_at_upd_other; [exact Hb|discriminate|exact Hpos]).
  assert (Hblk1 : nth_error m1 G_ibuf = Some blk1) by (apply mem_upd_same; exact Hb).
  assert (Hsrc1 : nth_error m1 bs = Some sblk) by (unfold m1; rewrite mem_upd_other; assumption).
  (* memcpy(ibuf + ibuf_pos, s, n) *)
  rewrite (load_cell m1 G_ibuf_pos pos Hpos1). xstep. rewrite (wrap_I32_id pos), (wrap_U64_id n') by lia.
  replace (0 + 1 * pos) with pos by lia.
  rewrite (memcpy_ok m1 G_ibuf _ bs _ _ blk1 sblk Hblk1 Hsrc1) by lia. xstep. fold src.
  unfold m1. rewrite !upd_upd by exact Hb.
  assert (Hpb : put_cells blk1 (Z.to_nat pos) src = push_block blk pos cnt src).
  { unfold blk1. replace (Z.to_nat (pos + n')) with (Z.to_nat pos + length src)%nat by lia.
    apply push_block_put; lia. }
  rewrite Hpb. set (m2 := upd m G_ibuf (push_block blk pos cnt src)).
  (* ibuf_cnt += n *)
  assert (Hcnt2 : cell_at m2 G_ibuf_cnt cnt) by (apply cell_at_upd_other; [exact Hb|discriminate|exact Hcnt]).
  rewrite (load_cell m2 G_ibuf_cnt cnt Hcnt2). xstep. rewrite (wrap_I32_id cnt) by lia.
  rewrite (chk_I32 (cnt + n')) by lia. xstep. rewrite (wrap_I32_id (cnt + n')) by lia.
  rewrite (store_cell m2 G_ibuf_cnt cnt _ Hcnt2). xstep. reflexivity.
Qed.

(* ------------------------------------------------------------------ term_cmd *)
Theorem tr_term_cmd m ip bn on nblk d fuel :
  cell_at m G_icmd_pos ip -> -2147483648 <= ip <= 2147483647 ->
  nth_error m bn = Some nblk -> bn <> G_icmd_pos -> 0 <= on < Z.of_nat (length nblk) ->
  callf cprog fuel (S d) F_term_cmd [VPtr bn on] m
  = Ok (VPtr G_icmd 0, upd (upd m bn (upd nblk (Z.to_nat on) (VInt ip))) G_icmd_pos [VInt 0]).
Proof.
  intros Hip Hr Hn Hne Hon.
  assert (Hb : (bn < length m)%nat) by (apply nth_error_Some; congruence).
  enter F_term_cmd cf_term_cmd. xstep.
  rewrite (load_cell m G_icmd_pos ip Hip). xstep. rewrite !(wrap_I32_id ip) by lia.
  rewrite (store_ok m bn nblk) by (try exact Hn; lia). xstep.
  set (m1 := upd m bn _).
  assert (Hip1 : cell_at m1 G_icmd_pos ip) by (apply cell_at_upd_other; [exact Hb|congruence|exact Hip]).
  rewrite (store_cell m1 G_icmd_pos ip _ Hip1). xstep. reflexivity.
Qed.

(* ------------------------------------------------------------------ term_read, the queued path *)
Ltac Zify.zify_post_hook ::= Z.div_mod_to_equations.
Lemma char_as_uchar z : -128 <= z <= 127 -> wrap I32 (wrap U8 (wrap I8 z)) = z mod 256.
Proof.
  intro H. assert (E : wrap I8 z = z).
  { unfold wrap. cbn [ity_bits ity_signed andb]. change (2 ^ 8) with 256. change (2 ^ (8 - 1)) with 128.
    destruct (Z.leb_spec 128 (z mod 256)); lia. }
  rewrite E. unfold wrap at 2. cbn [ity_bits ity_signed andb]. change (2 ^ 8) with 256.
  apply wrap_I32_id. lia.
Qed.
Lemma uchar_as_char z : -128 <= z <= 127 -> wrap I8 (wrap I8 (z mod 256)) = z.
Proof.
  intro H. assert (E : wrap I8 (z mod 256) = z).
  { unfold wrap. cbn [ity_bits ity_signed andb]. change (2 ^ 8) with 256. change (2 ^ (8 - 1)) with 128.
    rewrite Z.mod_mod by lia. destruct (Z.leb_spec 128 (z mod 256)); lia. }
  rewrite E. unfold wrap. cbn [ity_bits ity_signed andb]. change (2 ^ 8) with 256. change (2 ^ (8 - 1)) with 128.
  destruct (Z.leb_spec 128 (z mod 256)); lia.
Qed.
Ltac Zify.zify_post_hook ::= idtac.

(* the memory after term_read() took the key z from ibuf[pos]: the block of the local `struct pollfd ufds[1]`
   (three cells, never initialised on this path) is appended, ibuf_pos = pos + 1, the key is recorded *)
Definition read_mem (m : mem) (pos ip : Z) (ic : block) (z : Z) : mem :=
  let m1 := upd (m ++ [repeat VUndef 3]) G_ibuf_pos [VInt (pos + 1)] in
  if ip <? ICMDSZ then upd (upd m1 G_icmd_pos [VInt (ip + 1)]) G_icmd (upd ic (Z.to_nat ip) (VInt z)) else m1.

Theorem tr_term_read_queued m pos cnt ib ip ic z d fuel :
  cell_at m G_ibuf_pos pos -> cell_at m G_ibuf_cnt cnt -> nth_error m G_ibuf = Some ib ->
  0 <= pos < cnt -> cnt <= 2147483647 ->
  nth_error ib (Z.to_nat pos) = Some (VInt z) -> -128 <= z <= 127 ->
  cell_at m G_icmd_pos ip -> nth_error m G_icmd = Some ic -> Z.of_nat (length ic) = ICMDSZ -> 0 <= ip <= ICMDSZ ->
  callf cprog fuel (S d) F_term_read [] m = Ok (VInt (z mod 256), read_mem m pos ip ic z).
Proof.
  intros Hpos Hcnt Hib Hpc Hc Hz Hzr Hip Hic Hicl Hipr.
  unfold read_mem, ICMDSZ in *.
  assert (Lpos : (G_ibuf_pos < length m)%nat) by (apply nth_error_Some; unfold cell_at in Hpos; congruence).
  assert (Lip : (G_icmd_pos < length m)%nat) by (apply nth_error_Some; unfold cell_at in Hip; congruence).
  assert (Lic : (G_icmd < length m)%nat) by (apply nth_error_Some; congruence).
  assert (Lib : (G_ibuf < length m)%nat) by (apply nth_error_Some; congruence).
  assert (Lcnt : (G_ibuf_cnt < length m)%nat) by (apply nth_error_Some; unfold cell_at in Hcnt; congruence).
  enter F_term_read cf_term_read. xstep.
  (* struct pollfd ufds[1]: a fresh block *)
  cbn [do_builtin_m Z.ltb Z.compare]. change (Z.to_nat 3) with 3%nat. xstep.
  set (m0 := m ++ [repeat VUndef 3]).
  assert (G0 : forall g blk, nth_error m g = Some blk -> nth_error m0 g = Some blk).
  { intros g blk H. unfold m0. rewrite nth_error_app1; [exact H|]. apply nth_error_Some. congruence. }
  assert (L0 : forall g, (g < length m)%nat -> (g < length m0)%nat) by (intros g H; unfold m0; rewrite app_length; lia).
  pose proof (G0 _ _ Hpos) as Hpos0. pose proof (G0 _ _ Hcnt) as Hcnt0. pose proof (G0 _ _ Hib) as Hib0.
  pose proof (G0 _ _ Hip) as Hip0. pose proof (G0 _ _ Hic) as Hic0.
  (* if (ibuf_pos >= ibuf_cnt): not taken *)
  rewrite (load_cell m0 G_ibuf_pos pos Hpos0). xstep. rewrite (wrap_I32_id pos) by lia.
  rewrite (load_cell m0 G_ibuf_cnt cnt Hcnt0). xstep. rewrite (wrap_I32_id cnt) by lia.
  destruct (Z.leb_spec cnt pos); [lia|]. xstep.
  (* c = ibuf_pos < ibuf_cnt ? (unsigned char) ibuf[ibuf_pos++] : -1 *)
  rewrite (load_cell m0 G_ibuf_pos pos Hpos0). xstep. rewrite (wrap_I32_id pos) by lia.
  rewrite (load_cell m0 G_ibuf_cnt cnt Hcnt0). xstep. rewrite (wrap_I32_id cnt) by lia.
  destruct (Z.ltb_spec pos cnt); [|lia]. xstep.
  rewrite (load_cell m0 G_ibuf_pos pos Hpos0). xstep. rewrite (wrap_I32_id pos) by lia.
  rewrite (chk_I32 (pos + 1)) by lia. xstep. cbn [fst snd].
  rewrite (store_cell m0 G_ibuf_pos pos _ Hpos0). xstep.
  set (m1 := upd m0 G_ibuf_pos [VInt (pos + 1)]).
  assert (Hib1 : nth_error m1 G_ibuf = Some ib) by (unfold m1; rewrite mem_upd_other; [exact Hib0|apply L0; exact Lpos|discriminate]).
  assert (Hip1 : cell_at m1 G_icmd_pos ip) by (apply cell_at_upd_other; [apply L0; exact Lpos|discriminate|exact Hip0]).
  assert (Hic1 : nth_error m1 G_icmd = Some ic) by (unfold m1; rewrite mem_upd_other; [exact Hic0|apply L0; exact Lpos|discriminate]).
  assert (Hld : load m1 G_ibuf (0 + 1 * pos) = Ok (VInt z)).
  { unfold load. rewrite Hib1. replace (0 + 1 * pos) with pos by lia. destruct (Z.ltb_spec pos 0); [lia|]. rewrite Hz. reflexivity. }
  rewrite Hld. xstep. rewrite (char_as_uchar z Hzr).
  (* if (icmd_pos < sizeof(icmd)) icmd[icmd_pos++] = c *)
  rewrite (load_cell m1 G_icmd_pos ip Hip1). xstep. rewrite (wrap_I32_id ip), (wrap_U64_id ip) by lia.
  destruct (Z.ltb_spec ip 4096) as [Hlt|Hge]; xstep; [|reflexivity].
  rewrite (load_cell m1 G_icmd_pos ip Hip1). xstep. rewrite (wrap_I32_id ip) by lia.
  rewrite (chk_I32 (ip + 1)) by lia. xstep. cbn [fst snd].
  rewrite (store_cell m1 G_icmd_pos ip _ Hip1). xstep.
  set (m2 := upd m1 G_icmd_pos [VInt (ip + 1)]).
  assert (L1 : (G_icmd_pos < length m1)%nat) by (unfold m1; rewrite upd_length; apply L0; assumption).
  assert (Hic2 : nth_error m2 G_icmd = Some ic) by (unfold m2; rewrite mem_upd_other; [exact Hic1|exact L1|discriminate]).
  rewrite (uchar_as_char z Hzr). replace (0 + 1 * ip) with ip by lia.
  rewrite (store_ok m2 G_icmd ic) by (try exact Hic2; lia). xstep. reflexivity.
Qed.

(* ------------------------------------------------------------------ the queue read off the memory *)
(* the unread keys ibuf[ibuf_pos .. ibuf_cnt) *)
Definition unread (pos cnt : Z) (ib : block) : list val := firstn (Z.to_nat (cnt - pos)) (skipn (Z.to_nat pos) ib).
(* the model's queue (keys = memory cells): used = ibuf_pos, the unread keys, the record icmd[0 .. icmd_pos) *)
Definition queue_of (pos cnt : Z) (ib : block) (ip : Z) (ic : block) (tin : list val) : InputQueue.tq val :=
  InputQueue.Build_tq (Z.to_nat pos) (unread pos cnt ib) tin (firstn (Z.to_nat ip) ic).
(* the statics of term.c in memory m, with the invariant of the capacity model *)
Definition term_at (m : mem) (pos cnt : Z) (ib : block) (ip : Z) (ic : block) : Prop :=
  cell_at m G_ibuf_pos pos /\ cell_at m G_ibuf_cnt cnt /\ nth_error m G_ibuf = Some ib /\ Z.of_nat (length ib) = IBUFSZ /\
  0 <= pos <= cnt /\ cnt <= IBUFSZ /\
  cell_at m G_icmd_pos ip /\ nth_error m G_icmd = Some ic /\ Z.of_nat (length ic) = ICMDSZ /\ 0 <= ip <= ICMDSZ.

Lemma unread_push_block (blk : block) pos cnt (src : list val) :
  0 <= pos <= cnt -> (Z.to_nat cnt + length src <= length blk)%nat ->
  unread pos (cnt + Z.of_nat (length src)) (push_block blk pos cnt src) = src ++ unread pos cnt blk.
Proof.
  intros Hp Hl. unfold unread, push_block.
  rewrite skipn_app, firstn_length, Nat.min_l, Nat.sub_diag by lia.
  rewrite (skipn_all2 (firstn _ blk)) by (rewrite firstn_length; lia). cbn [skipn app].
  set (U := firstn (Z.to_nat (cnt - pos)) (skipn (Z.to_nat pos) blk)).
  assert (HU : length U = Z.to_nat (cnt - pos)) by (unfold U; rewrite firstn_length, skipn_length; lia).
  rewrite app_assoc. rewrite firstn_app. rewrite app_length, HU.
  replace (Z.to_nat (cnt + Z.of_nat (length src) - pos)) with (length src + Z.to_nat (cnt - pos))%nat by lia.
  rewrite Nat.sub_diag. cbn [firstn]. rewrite app_nil_r. apply firstn_all2. rewrite app_length. lia.
Qed.
Lemma firstn_push_block (blk : block) pos cnt (src : list val) :
  0 <= pos <= cnt -> (Z.to_nat cnt <= length blk)%nat -> firstn (Z.to_nat pos) (push_block blk pos cnt src) = firstn (Z.to_nat pos) blk.
Proof.
  intros Hp Hl. unfold push_block. rewrite firstn_app, firstn_firstn, Nat.min_id, firstn_length, Nat.min_l, Nat.sub_diag by lia.
  cbn [firstn]. apply app_nil_r.
Qed.
Lemma skipn_push_block (blk : block) pos cnt (src : list val) :
  0 <= pos <= cnt -> (Z.to_nat cnt + length src <= length blk)%nat ->
  skipn (Z.to_nat cnt + length src) (push_block blk pos cnt src) = skipn (Z.to_nat cnt + length src) blk.
Proof.
  intros Hp Hl. unfold push_block.
  set (U := firstn (Z.to_nat (cnt - pos)) (skipn (Z.to_nat pos) blk)).
  assert (HU : length U = Z.to_nat (cnt - pos)) by (unfold U; rewrite firstn_length, skipn_length; lia).
  rewrite !app_assoc. rewrite skipn_app.
  rewrite skipn_all2 by (rewrite !app_length, firstn_length; lia).
  rewrite !app_length, firstn_length, HU, Nat.min_l by lia.
  replace (Z.to_nat cnt + length src - (Z.to_nat pos + length src + Z.to_nat (cnt - pos)))%nat with 0%nat by lia. reflexivity.
Qed.

(* term_push on the C text moves the queue as the model InputQueue.term_push does and the counters as
   CapDefs.t_step does; everything but ibuf and ibuf_cnt is unchanged *)
Theorem term_push_refines m pos cnt ib ip ic bs os sblk n d fuel tin :
  term_at m pos cnt ib ip ic -> nth_error m bs = Some sblk -> bs <> G_ibuf ->
  0 <= n <= 2147483647 -> 0 <= os -> os + n <= Z.of_nat (length sblk) ->
  let k := Z.min n (IBUFSZ - cnt) in
  let s := firstn (Z.to_nat n) (skipn (Z.to_nat os) sblk) in
  exists m' ib',
    callf cprog fuel (S d) F_term_push [VPtr bs os; VInt n] m = Ok (VUndef, m') /\
    term_at m' pos (cnt + k) ib' ip ic /\
    queue_of pos (cnt + k) ib' ip ic tin = InputQueue.term_push (queue_of pos cnt ib ip ic tin) s /\
    unread pos (cnt + k) ib' = firstn (Z.to_nat k) s ++ unread pos cnt ib /\
    firstn (Z.to_nat pos) ib' = firstn (Z.to_nat pos) ib /\
    skipn (Z.to_nat (cnt + k)) ib' = skipn (Z.to_nat (cnt + k)) ib /\
    length m' = length m /\ (forall b, b <> G_ibuf -> b <> G_ibuf_cnt -> nth_error m' b = nth_error m b) /\
    CapDefs.t_step (CapDefs.mkT pos cnt ip) (CapDefs.TPush n) = CapDefs.Ok (CapDefs.mkT pos (cnt + k) ip).
Proof.
  intros (Hpos & Hcnt & Hib & Hlen & Hpc & Hc & Hip & Hic & Hicl & Hipr) Hsrc Hne Hn Hos Hsl k s.
  assert (Hk : 0 <= k <= n /\ cnt + k <= IBUFSZ) by (unfold k; lia).
  set (src := firstn (Z.to_nat k) (skipn (Z.to_nat os) sblk)).
  assert (Hsl' : length src = Z.to_nat k) by (unfold src; rewrite firstn_length, skipn_length; lia).
  assert (Hs : firstn (Z.to_nat k) s = src) by (unfold s, src; rewrite firstn_firstn; f_equal; lia).
  assert (Hslen : length s = Z.to_nat n) by (unfold s; rewrite firstn_length, skipn_length; lia).
  assert (Lib : (G_ibuf < length m)%nat) by (apply nth_error_Some; congruence).
  assert (Lcnt : (G_ibuf_cnt < length m)%nat) by (apply nth_error_Some; unfold cell_at in Hcnt; congruence).
  assert (Hur : unread pos (cnt + k) (push_block ib pos cnt src) = src ++ unread pos cnt ib).
  { replace k with (Z.of_nat (length src)) by lia. apply unread_push_block; lia. }
  exists (upd (upd m G_ibuf (push_block ib pos cnt src)) G_ibuf_cnt [VInt (cnt + k)]), (push_block ib pos cnt src).
  split; [exact (tr_term_push m pos cnt ib bs os sblk n d fuel Hpos Hcnt Hib Hlen Hpc Hc Hsrc Hne Hn Hos Hsl)|].
  assert (L1 : (G_ibuf_cnt < length (upd m G_ibuf (push_block ib pos cnt src)))%nat) by (rewrite upd_length; assumption).
  split.
  { unfold term_at. repeat split; try lia.
    - apply cell_at_upd_other; [exact L1|discriminate|]. apply cell_at_upd_other; [exact Lib|discriminate|exact Hpos].
    - apply cell_at_upd_same. exact L1.
    - rewrite mem_upd_other; [|exact L1|discriminate]. apply mem_upd_same. exact Lib.
    - rewrite push_block_length by lia. exact Hlen.
    - apply cell_at_upd_other; [exact L1|discriminate|]. apply cell_at_upd_other; [exact Lib|discriminate|exact Hip].
    - rewrite mem_upd_other; [|exact L1|discriminate]. rewrite mem_upd_other; [exact Hic|exact Lib|discriminate]. }
  split.
  { unfold queue_of, InputQueue.term_push, InputQueue.filled. cbn [InputQueue.used InputQueue.ibuf InputQueue.tin InputQueue.icmd].
    f_equal. rewrite Hur. f_equal. rewrite <- Hs. f_equal.
    unfold unread. rewrite firstn_length, skipn_length, Hslen. unfold InputQueue.IBUF. lia. }
  split; [rewrite Hs; exact Hur|].
  split; [apply firstn_push_block; lia|].
  split; [replace (Z.to_nat (cnt + k)) with (Z.to_nat cnt + length src)%nat by lia; apply skipn_push_block; lia|].
  split; [rewrite !upd_length; [reflexivity|exact Lib|exact L1]|].
  split; [intros b Hb1 Hb2; rewrite mem_upd_other; [|exact L1|exact Hb2]; apply mem_upd_other; [exact Lib|exact Hb1]|].
  unfold CapDefs.t_step. cbn [CapDefs.ibuf_pos CapDefs.ibuf_cnt CapDefs.icmd_pos]. fold k.
  destruct (Z.ltb_spec k 0); [lia|]. destruct (Z.ltb_spec (cnt - pos) 0); [lia|]. destruct (Z.ltb_spec pos 0); [lia|].
  destruct (Z.ltb_spec IBUFSZ (pos + (cnt - pos))); [lia|]. cbn [orb].
  destruct (Z.ltb_spec IBUFSZ (pos + k + (cnt - pos))); [lia|]. reflexivity.
Qed.

(* term_read on the C text, while a key is queued: the key at the head of the model's queue is returned (as
   unsigned char), the queue moves as InputQueue.term_read says, the counters as CapDefs.t_step says *)
Theorem term_read_refines m pos cnt ib ip ic z d fuel tin refill :
  term_at m pos cnt ib ip ic -> pos < cnt -> nth_error ib (Z.to_nat pos) = Some (VInt z) -> -128 <= z <= 127 ->
  let ip' := if ip <? ICMDSZ then ip + 1 else ip in
  let ic' := if ip <? ICMDSZ then upd ic (Z.to_nat ip) (VInt z) else ic in
  exists m',
    callf cprog fuel (S d) F_term_read [] m = Ok (VInt (z mod 256), m') /\
    term_at m' (pos + 1) cnt ib ip' ic' /\
    InputQueue.term_read (queue_of pos cnt ib ip ic tin) = Some (VInt z, queue_of (pos + 1) cnt ib ip' ic' tin) /\
    CapDefs.t_step (CapDefs.mkT pos cnt ip) (CapDefs.TRead refill) = CapDefs.Ok (CapDefs.mkT (pos + 1) cnt ip').
Proof.
  intros (Hpos & Hcnt & Hib & Hlen & Hpc & Hc & Hip & Hic & Hicl & Hipr) Hlt Hz Hzr ip' ic'.
  assert (Lpos : (G_ibuf_pos < length m)%nat) by (apply nth_error_Some; unfold cell_at in Hpos; congruence).
  assert (Lip : (G_icmd_pos < length m)%nat) by (apply nth_error_Some; unfold cell_at in Hip; congruence).
  assert (Lic : (G_icmd < length m)%nat) by (apply nth_error_Some; congruence).
  assert (G0 : forall g blk, nth_error m g = Some blk -> nth_error (m ++ [repeat VUndef 3]) g = Some blk).
  { intros g blk H. rewrite nth_error_app1; [exact H|]. apply nth_error_Some. congruence. }
  assert (L0 : forall g, (g < length m)%nat -> (g < length (m ++ [repeat VUndef 3]))%nat) by (intros g H; rewrite app_length; lia).
  exists (read_mem m pos ip ic z).
  split; [apply (tr_term_read_queued m pos cnt ib ip ic z d fuel); try assumption; unfold IBUFSZ in *; lia|].
  split.
  { unfold term_at, read_mem, ip', ic'. set (m1 := upd (m ++ [repeat VUndef 3]) G_ibuf_pos [VInt (pos + 1)]).
    assert (L1 : forall g, (g < length m)%nat -> (g < length m1)%nat) by (intros g H; unfold m1; rewrite upd_length; apply L0; assumption).
    assert (A1 : cell_at m1 G_ibuf_pos (pos + 1)) by (apply cell_at_upd_same; apply L0; exact Lpos).
    assert (A2 : cell_at m1 G_ibuf_cnt cnt) by (apply cell_at_upd_other; [apply L0; exact Lpos|discriminate|apply G0; exact Hcnt]).
    assert (A3 : nth_error m1 G_ibuf = Some ib) by (unfold m1; rewrite mem_upd_other; [apply G0; exact Hib|apply L0; exact Lpos|discriminate]).
    assert (A4 : cell_at m1 G_icmd_pos ip) by (apply cell_at_upd_other; [apply L0; exact Lpos|discriminate|apply G0; exact Hip]).
    assert (A5 : nth_error m1 G_icmd = Some ic) by (unfold m1; rewrite mem_upd_other; [apply G0; exact Hic|apply L0; exact Lpos|discriminate]).
    destruct (Z.ltb_spec ip ICMDSZ) as [Hl|Hl].
    - set (m2 := upd m1 G_icmd_pos [VInt (ip + 1)]).
      assert (L2 : forall g, (g < length m)%nat -> (g < length m2)%nat) by (intros g H; unfold m2; rewrite upd_length; apply L1; assumption).
      assert (Hul : Z.of_nat (length (upd ic (Z.to_nat ip) (VInt z))) = ICMDSZ) by (rewrite upd_length by lia; exact Hicl).
      repeat split; try lia.
      + apply cell_at_upd_other; [apply L2; exact Lic|discriminate|]. apply cell_at_upd_other; [apply L1; exact Lip|discriminate|exact A1].
      + apply cell_at_upd_other; [apply L2; exact Lic|discriminate|]. apply cell_at_upd_other; [apply L1; exact Lip|discriminate|exact A2].
      + rewrite mem_upd_other; [|apply L2; exact Lic|discriminate]. unfold m2. rewrite mem_upd_other; [exact A3|apply L1; exact Lip|discriminate].
      + apply cell_at_upd_other; [apply L2; exact Lic|discriminate|]. apply cell_at_upd_same. apply L1; exact Lip.
      + apply mem_upd_same. apply L2; exact Lic.
    - repeat split; try assumption; lia. }
  assert (Hur : unread pos cnt ib = VInt z :: unread (pos + 1) cnt ib).
  { unfold unread. rewrite (skipn_cons_nth_error ib _ _ Hz).
    replace (Z.to_nat (cnt - pos)) with (S (Z.to_nat (cnt - (pos + 1)))) by lia. cbn [firstn].
    replace (Z.to_nat (pos + 1)) with (S (Z.to_nat pos)) by lia. reflexivity. }
  split.
  { unfold queue_of, InputQueue.term_read. cbn [InputQueue.used InputQueue.ibuf InputQueue.tin InputQueue.icmd].
    rewrite Hur. f_equal. f_equal. replace (Z.to_nat (pos + 1)) with (S (Z.to_nat pos)) by lia. f_equal.
    rewrite firstn_length, Nat.min_l by lia. unfold InputQueue.ICMD, ip', ic'.
    destruct (Z.ltb_spec ip ICMDSZ) as [Hl|Hl].
    - destruct (Nat.ltb_spec (Z.to_nat ip) (Z.to_nat ICMDSZ)); [|lia].
      replace (Z.to_nat (ip + 1)) with (S (Z.to_nat ip)) by lia. unfold upd.
      rewrite firstn_app, firstn_firstn, firstn_length.
      rewrite (Nat.min_r (S (Z.to_nat ip))), (Nat.min_l (Z.to_nat ip)) by lia.
      replace (S (Z.to_nat ip) - Z.to_nat ip)%nat with 1%nat by lia. reflexivity.
    - destruct (Nat.ltb_spec (Z.to_nat ip) (Z.to_nat ICMDSZ)); [lia|]. reflexivity. }
  unfold CapDefs.t_step. cbn [CapDefs.ibuf_pos CapDefs.ibuf_cnt CapDefs.icmd_pos].
  destruct (Z.leb_spec cnt pos); [lia|]. cbn [CapDefs.ibuf_pos CapDefs.ibuf_cnt CapDefs.icmd_pos].
  destruct (Z.ltb_spec pos cnt); [|lia]. destruct (Z.ltb_spec pos 0); [lia|].
  destruct (Z.leb_spec IBUFSZ pos); [lia|]. cbn [andb orb CapDefs.ibuf_pos CapDefs.ibuf_cnt CapDefs.icmd_pos].
  unfold ip'. destruct (Z.ltb_spec ip ICMDSZ); [|reflexivity]. destruct (Z.ltb_spec ip 0); [lia|]. reflexivity.
Qed.

(* term_cmd on the C text: *n = the length of the model's record, the buffer returned holds the record in its
   first *n cells, the record restarts empty *)
Theorem term_cmd_refines m pos cnt ib ip ic bn on nblk d fuel tin :
  term_at m pos cnt ib ip ic -> nth_error m bn = Some nblk ->
  bn <> G_ibuf -> bn <> G_ibuf_pos -> bn <> G_ibuf_cnt -> bn <> G_icmd -> bn <> G_icmd_pos ->
  0 <= on < Z.of_nat (length nblk) ->
  exists m',
    callf cprog fuel (S d) F_term_cmd [VPtr bn on] m = Ok (VPtr G_icmd 0, m') /\
    term_at m' pos cnt ib 0 ic /\ load m' bn on = Ok (VInt ip) /\
    InputQueue.term_cmd (queue_of pos cnt ib ip ic tin) = (firstn (Z.to_nat ip) ic, queue_of pos cnt ib 0 ic tin) /\
    CapDefs.t_step (CapDefs.mkT pos cnt ip) CapDefs.TCmd = CapDefs.Ok (CapDefs.mkT pos cnt 0).
Proof.
  intros (Hpos & Hcnt & Hib & Hlen & Hpc & Hc & Hip & Hic & Hicl & Hipr) Hn N1 N2 N3 N4 N5 Hon.
  assert (Lb : (bn < length m)%nat) by (apply nth_error_Some; congruence).
  assert (Lip : (G_icmd_pos < length m)%nat) by (apply nth_error_Some; unfold cell_at in Hip; congruence).
  set (m1 := upd m bn (upd nblk (Z.to_nat on) (VInt ip))).
  assert (L1 : (G_icmd_pos < length m1)%nat) by (unfold m1; rewrite upd_length; assumption).
  exists (upd m1 G_icmd_pos [VInt 0]).
  split; [apply tr_term_cmd; try assumption; unfold ICMDSZ in *; lia|].
  split.
  { unfold term_at. repeat split; try lia; try assumption.
    - apply cell_at_upd_other; [exact L1|discriminate|]. apply cell_at_upd_other; [exact Lb|congruence|exact Hpos].
    - apply cell_at_upd_other; [exact L1|discriminate|]. apply cell_at_upd_other; [exact Lb|congruence|exact Hcnt].
    - rewrite mem_upd_other; [|exact L1|discriminate]. unfold m1. rewrite mem_upd_other; [exact Hib|exact Lb|congruence].
    - apply cell_at_upd_same. exact L1.
    - rewrite mem_upd_other; [|exact L1|discriminate]. unfold m1. rewrite mem_upd_other; [exact Hic|exact Lb|congruence]. }
  split.
  { rewrite load_upd_other_block; [|exact L1|exact N5]. apply load_upd_same; [exact Hn|exact Hon]. }
  split; reflexivity.
Qed.

(* ------------------------------------------------------------------ the start of the program, and helpers for examples *)
(* the zero-initialised statics satisfy the invariant: an empty queue and an empty record *)
Lemma term_at_start (extra : mem) : term_at (cglobals ++ extra) 0 0 gb_ibuf 0 gb_icmd.
Proof. unfold term_at, cell_at. repeat split; try reflexivity; vm_compute; discriminate. Qed.
(* the first k cells of global block g; the value of a scalar global *)
Definition peek (m : mem) (g : nat) (k : nat) : list val := match nth_error m g with Some b => firstn k b | None => [] end.
Definition peek1 (m : mem) (g : nat) : option Z := match nth_error m g with Some [VInt v] => Some v | _ => None end.
