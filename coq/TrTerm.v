(* TrTerm.v -- the input queue of term.c (term_push, term_cmd, term_read) as C TEXT.
   tools/c2clite.py turns the three functions and the file-level statics
       static char ibuf[4096];  static int ibuf_pos, ibuf_cnt;  static char icmd[4096];  static int icmd_pos;
   into CLite terms over the global blocks G_ibuf, G_ibuf_pos, G_ibuf_cnt, G_icmd, G_icmd_pos (GenCFuncs.v).
   Proved here, for EVERY memory in which those blocks satisfy 0 <= ibuf_pos <= ibuf_cnt <= sizeof(ibuf):
     tr_term_push   term_push(s, n), s = n cells of any other block, n >= 0: returns, and the memory afterwards is
                    given explicitly (push_block): min(n, sizeof(ibuf) - ibuf_cnt) cells of s stand in front of the unread
                    keys, the read part ibuf[0 .. ibuf_pos) and the cells behind the queue are untouched, ibuf_cnt grew
                    by the clipped count, ibuf_pos is unchanged.  Returning a value means: the memmove and the
                    memcpy stayed inside ibuf and inside s (every cell access of CLite is checked).
     tr_term_cmd    term_cmd(&n): *n = icmd_pos, icmd_pos = 0, returns icmd.
     tr_term_read_queued   term_read() while the queue holds an unread key: the key (as unsigned char), ibuf_pos + 1,
                    the key recorded in icmd[icmd_pos++] when icmd_pos < sizeof(icmd).  (The other path of term_read
                    calls poll() and read(): outside the translated subset, a call is the error EShape.)
   and the abstractions: the queue read off the memory (queue_of) moves as InputQueue.term_push / term_read /
   term_cmd say (C09), the three counters as CapDefs.t_step says (C05). *)
From Coq Require Import List ZArith NArith Bool Lia.
From NV Require Import Bytes GenConsts CLite CLiteProps GenCFuncs CLiteTac.
From NV Require InputQueue CapDefs.
Import ListNotations.
Local Open Scope Z_scope.

(* ------------------------------------------------------------------ the block ibuf after a push *)
(* read part ++ pushed cells ++ the unread keys ++ what was behind them, minus the cells that fell off the end *)
Definition push_block (blk : block) (pos cnt : Z) (src : list val) : block :=
  firstn (Z.to_nat pos) blk ++ src ++ firstn (Z.to_nat (cnt - pos)) (skipn (Z.to_nat pos) blk)
  ++ skipn (Z.to_nat cnt + length src) blk.

(* memmove(ibuf + pos + k, ibuf + pos, cnt - pos) followed by memcpy(ibuf + pos, src, k) *)
Lemma push_block_put (blk : block) pos cnt (src : list val) :
  0 <= pos <= cnt -> (Z.to_nat cnt + length src <= length blk)%nat ->
  put_cells (put_cells blk (Z.to_nat pos + length src) (firstn (Z.to_nat (cnt - pos)) (skipn (Z.to_nat pos) blk))) (Z.to_nat pos) src
  = push_block blk pos cnt src.
Proof.
  intros Hp Hl. set (U := firstn (Z.to_nat (cnt - pos)) (skipn (Z.to_nat pos) blk)).
  assert (HU : length U = Z.to_nat (cnt - pos)) by (unfold U; rewrite firstn_length, skipn_length; lia).
  unfold put_cells at 1. rewrite firstn_put_cells by lia. rewrite skipn_put_cells by lia.
  unfold push_block. fold U. rewrite HU. do 4 f_equal. lia.
Qed.
Lemma push_block_length (blk : block) pos cnt (src : list val) :
  0 <= pos <= cnt -> (Z.to_nat cnt + length src <= length blk)%nat -> length (push_block blk pos cnt src) = length blk.
Proof.
  intros Hp Hl. unfold push_block. rewrite !app_length, !firstn_length, !skipn_length. lia.
Qed.

(* ------------------------------------------------------------------ term_push *)
Theorem tr_term_push m pos cnt blk bs os sblk n d fuel :
  cell_at m G_ibuf_pos pos -> cell_at m G_ibuf_cnt cnt -> nth_error m G_ibuf = Some blk ->
  Z.of_nat (length blk) = IBUFSZ -> 0 <= pos <= cnt -> cnt <= IBUFSZ ->
  nth_error m bs = Some sblk -> bs <> G_ibuf ->
  0 <= n <= 2147483647 -> 0 <= os -> os + n <= Z.of_nat (length sblk) ->
  callf cprog fuel (S d) F_term_push [VPtr bs os; VInt n] m
  = Ok (VUndef,
        upd (upd m G_ibuf (push_block blk pos cnt (firstn (Z.to_nat (Z.min n (IBUFSZ - cnt))) (skipn (Z.to_nat os) sblk))))
            G_ibuf_cnt [VInt (cnt + Z.min n (IBUFSZ - cnt))]).
Proof.
  intros Hpos Hcnt Hblk Hlen Hpc Hc Hsrc Hne Hn Hos Hsl.
  unfold IBUFSZ in *.
  assert (Hb : (G_ibuf < length m)%nat) by (apply nth_error_Some; congruence).
  enter F_term_push cf_term_push. xstep.
  (* n = MIN(n, sizeof(ibuf) - ibuf_cnt), computed in unsigned long *)
  rewrite (load_cell m G_ibuf_cnt cnt Hcnt). xstep.
  rewrite (wrap_I32_id cnt), (wrap_U64_id cnt), (wrap_U64_id n) by lia.
  rewrite chk_U64 by lia. xstep.
  set (n' := Z.min n _).
  assert (Hn' : 0 <= n' <= n /\ cnt + n' <= Z.of_nat (length blk)) by (unfold n'; lia).
  match goal with |- match match match ?X with _ => _ end with _ => _ end with _ => _ end = _ =>
    assert (E1 : X = Ok (VInt n', mkst [VPtr bs os; VInt n'] m)) end.
  { match goal with |- context [?a <? ?b] => destruct (Z.ltb_spec a b) end; xstep.
    - rewrite (wrap_U64_id n) by lia. rewrite wrap_I32_id by lia. unfold n'. rewrite Z.min_l by lia. reflexivity.
    - rewrite (load_cell m G_ibuf_cnt cnt Hcnt). xstep.
      rewrite (wrap_I32_id cnt), (wrap_U64_id cnt) by lia. rewrite chk_U64 by lia. xstep.
      rewrite wrap_I32_id by lia. unfold n'. rewrite Z.min_r by lia. reflexivity. }
  rewrite E1. clear E1. xstep.
  (* memmove(ibuf + ibuf_pos + n, ibuf + ibuf_pos, ibuf_cnt - ibuf_pos) *)
  repeat (progress (rewrite ?(load_cell m G_ibuf_pos pos Hpos), ?(load_cell m G_ibuf_cnt cnt Hcnt); xstep;
                    rewrite ?(wrap_I32_id pos), ?(wrap_I32_id cnt) by lia)).
  rewrite (chk_I32 (cnt - pos)) by lia. xstep. rewrite (wrap_U64_id (cnt - pos)) by lia.
  replace (0 + 1 * pos + 1 * n') with (pos + n') by lia. replace (0 + 1 * pos) with pos by lia.
  rewrite (memmove_ok m G_ibuf _ G_ibuf _ _ blk blk Hblk Hblk) by lia. xstep.
  set (src := firstn (Z.to_nat n') (skipn (Z.to_nat os) sblk)).
  assert (Hsrc_len : length src = Z.to_nat n') by (unfold src; rewrite firstn_length, skipn_length; lia).
  set (blk1 := put_cells blk _ _). set (m1 := upd m G_ibuf blk1).
  assert (Hlen1 : length blk1 = length blk)
    by (unfold blk1; apply put_cells_length; rewrite firstn_length, skipn_length; lia).
  assert (Hpos1 : cell_at m1 G_ibuf_pos pos) by (apply cell_at_upd_other; [exact Hb|discriminate|exact Hpos]).
  assert (Hblk1 : nth_error m1 G_ibuf = Some blk1) by (apply mem_upd_same; exact Hb).
  assert (Hsrc1 : nth_error m1 bs = Some sblk) by (unfold m1; rewrite mem_upd_other; assumption).
  (* memcpy(ibuf + ibuf_pos, s, n) *)
  rewrite (load_cell m1 G_ibuf_pos pos Hpos1). xstep. rewrite (wrap_I32_id pos), (wrap_U64_id n') by lia.
  replace (0 + 1 * pos) with pos by lia.
  rewrite (memcpy_ok m1 G_ibuf _ bs _ _ blk1 sblk Hblk1 Hsrc1) by lia. xstep. fold src.
  unfold m1. rewrite !upd_upd by exact Hb.
  assert (Hpb : put_cells blk1 (Z.to_nat pos) src = push_block blk pos cnt src).
  { unfold blk1. replace (Z.to_nat (pos + n')) with (Z.to_nat pos + length src)%nat by lia.
    apply push_block_put; lia. }
  rewrite Hpb. set (m2 := upd m G_ibuf (push_block blk pos cnt src)).
  (* ibuf_cnt += n *)
  assert (Hcnt2 : cell_at m2 G_ibuf_cnt cnt) by (apply cell_at_upd_other; [exact Hb|discriminate|exact Hcnt]).
  rewrite (load_cell m2 G_ibuf_cnt cnt Hcnt2). xstep. rewrite (wrap_I32_id cnt) by lia.
  rewrite (chk_I32 (cnt + n')) by lia. xstep. rewrite (wrap_I32_id (cnt + n')) by lia.
  rewrite (store_cell m2 G_ibuf_cnt cnt _ Hcnt2). xstep. reflexivity.
Qed.

(* ------------------------------------------------------------------ term_cmd *)
Theorem tr_term_cmd m ip bn on nblk d fuel :
  cell_at m G_icmd_pos ip -> -2147483648 <= ip <= 2147483647 ->
  nth_error m bn = Some nblk -> bn <> G_icmd_pos -> 0 <= on < Z.of_nat (length nblk) ->
  callf cprog fuel (S d) F_term_cmd [VPtr bn on] m
  = Ok (VPtr G_icmd 0, upd (upd m bn (upd nblk (Z.to_nat on) (VInt ip))) G_icmd_pos [VInt 0]).
Proof.
  intros Hip Hr Hn Hne Hon.
  assert (Hb : (bn < length m)%nat) by (apply nth_error_Some; congruence).
  enter F_term_cmd cf_term_cmd. xstep.
  rewrite (load_cell m G_icmd_pos ip Hip). xstep. rewrite !(wrap_I32_id ip) by lia.
  rewrite (store_ok m bn nblk) by (try exact Hn; lia). xstep.
  set (m1 := upd m bn _).
  assert (Hip1 : cell_at m1 G_icmd_pos ip) by (apply cell_at_upd_other; [exact Hb|congruence|exact Hip]).
  rewrite (store_cell m1 G_icmd_pos ip _ Hip1). xstep. reflexivity.
Qed.

(* ------------------------------------------------------------------ term_read, the queued path *)
Ltac Zify.zify_post_hook ::= Z.div_mod_to_equations.
Lemma char_as_uchar z : -128 <= z <= 127 -> wrap I32 (wrap U8 (wrap I8 z)) = z mod 256.
Proof.
  intro H. assert (E : wrap I8 z = z).
  { unfold wrap. cbn [ity_bits ity_signed andb]. change (2 ^ 8) with 256. change (2 ^ (8 - 1)) with 128.
    destruct (Z.leb_spec 128 (z mod 256)); lia. }
  rewrite E. unfold wrap at 2. cbn [ity_bits ity_signed andb]. change (2 ^ 8) with 256.
  apply wrap_I32_id. lia.
Qed.
Lemma uchar_as_char z : -128 <= z <= 127 -> wrap I8 (wrap I8 (z mod 256)) = z.
Proof.
  intro H. assert (E : wrap I8 (z mod 256) = z).
  { unfold wrap. cbn [ity_bits ity_signed andb]. change (2 ^ 8) with 256. change (2 ^ (8 - 1)) with 128.
    rewrite Z.mod_mod by lia. destruct (Z.leb_spec 128 (z mod 256)); lia. }
  rewrite E. unfold wrap. cbn [ity_bits ity_signed andb]. change (2 ^ 8) with 256. change (2 ^ (8 - 1)) with 128.
  destruct (Z.leb_spec 128 (z mod 256)); lia.
Qed.
Ltac Zify.zify_post_hook ::= idtac.

(* the memory after term_read() took the key z from ibuf[pos]: the block of the local `struct pollfd ufds[1]`
   (three cells, never initialised on this path) is appended, ibuf_pos = pos + 1, the key is recorded *)
Definition read_mem (m : mem) (pos ip : Z) (ic : block) (z : Z) : mem :=
  let m1 := upd (m ++ [repeat VUndef 3]) G_ibuf_pos [VInt (pos + 1)] in
  if ip <? ICMDSZ then upd (upd m1 G_icmd_pos [VInt (ip + 1)]) G_icmd (upd ic (Z.to_nat ip) (VInt z)) else m1.

Theorem tr_term_read_queued m pos cnt ib ip ic z d fuel :
  cell_at m G_ibuf_pos pos -> cell_at m G_ibuf_cnt cnt -> nth_error m G_ibuf = Some ib ->
  0 <= pos < cnt -> cnt <= 2147483647 ->
  nth_error ib (Z.to_nat pos) = Some (VInt z) -> -128 <= z <= 127 ->
  cell_at m G_icmd_pos ip -> nth_error m G_icmd = Some ic -> Z.of_nat (length ic) = ICMDSZ -> 0 <= ip <= ICMDSZ ->
  callf cprog fuel (S d) F_term_read [] m = Ok (VInt (z mod 256), read_mem m pos ip ic z).
Proof.
  intros Hpos Hcnt Hib Hpc Hc Hz Hzr Hip Hic Hicl Hipr.
  unfold read_mem, ICMDSZ in *.
  assert (Lpos : (G_ibuf_pos < length m)%nat) by (apply nth_error_Some; unfold cell_at in Hpos; congruence).
  assert (Lip : (G_icmd_pos < length m)%nat) by (apply nth_error_Some; unfold cell_at in Hip; congruence).
  assert (Lic : (G_icmd < length m)%nat) by (apply nth_error_Some; congruence).
  assert (Lib : (G_ibuf < length m)%nat) by (apply nth_error_Some; congruence).
  assert (Lcnt : (G_ibuf_cnt < length m)%nat) by (apply nth_error_Some; unfold cell_at in Hcnt; congruence).
  enter F_term_read cf_term_read. xstep.
  (* struct pollfd ufds[1]: a fresh block *)
  cbn [do_builtin_m Z.ltb Z.compare]. change (Z.to_nat 3) with 3%nat. xstep.
  set (m0 := m ++ [repeat VUndef 3]).
  assert (G0 : forall g blk, nth_error m g = Some blk -> nth_error m0 g = Some blk).
  { intros g blk H. unfold m0. rewrite nth_error_app1; [exact H|]. apply nth_error_Some. congruence. }
  assert (L0 : forall g, (g < length m)%nat -> (g < length m0)%nat) by (intros g H; unfold m0; rewrite app_length; lia).
  pose proof (G0 _ _ Hpos) as Hpos0. pose proof (G0 _ _ Hcnt) as Hcnt0. pose proof (G0 _ _ Hib) as Hib0.
  pose proof (G0 _ _ Hip) as Hip0. pose proof (G0 _ _ Hic) as Hic0.
  (* if (ibuf_pos >= ibuf_cnt): not taken *)
  rewrite (load_cell m0 G_ibuf_pos pos Hpos0). xstep. rewrite (wrap_I32_id pos) by lia.
  rewrite (load_cell m0 G_ibuf_cnt cnt Hcnt0). xstep. rewrite (wrap_I32_id cnt) by lia.
  destruct (Z.leb_spec cnt pos); [lia|]. xstep.
  (* c = ibuf_pos < ibuf_cnt ? (unsigned char) ibuf[ibuf_pos++] : -1 *)
  rewrite (load_cell m0 G_ibuf_pos pos Hpos0). xstep. rewrite (wrap_I32_id pos) by lia.
  rewrite (load_cell m0 G_ibuf_cnt cnt Hcnt0). xstep. rewrite (wrap_I32_id cnt) by lia.
  destruct (Z.ltb_spec pos cnt); [|lia]. xstep.
  rewrite (load_cell m0 G_ibuf_pos pos Hpos0). xstep. rewrite (wrap_I32_id pos) by lia.
  rewrite (chk_I32 (pos + 1)) by lia. xstep. cbn [fst snd].
  rewrite (store_cell m0 G_ibuf_pos pos _ Hpos0). xstep.
  set (m1 := upd m0 G_ibuf_pos [VInt (pos + 1)]).
  assert (Hib1 : nth_error m1 G_ibuf = Some ib) by (unfold m1; rewrite mem_upd_other; [exact Hib0|apply L0; exact Lpos|discriminate]).
  assert (Hip1 : cell_at m1 G_icmd_pos ip) by (apply cell_at_upd_other; [apply L0; exact Lpos|discriminate|exact Hip0]).
  assert (Hic1 : nth_error m1 G_icmd = Some ic) by (unfold m1; rewrite mem_upd_other; [exact Hic0|apply L0; exact Lpos|discriminate]).
  assert (Hld : load m1 G_ibuf (0 + 1 * pos) = Ok (VInt z)).
  { unfold load. rewrite Hib1. replace (0 + 1 * pos) with pos by lia. destruct (Z.ltb_spec pos 0); [lia|]. rewrite Hz. reflexivity. }
  rewrite Hld. xstep. rewrite (char_as_uchar z Hzr).
  (* if (icmd_pos < sizeof(icmd)) icmd[icmd_pos++] = c *)
  rewrite (load_cell m1 G_icmd_pos ip Hip1). xstep. rewrite (wrap_I32_id ip), (wrap_U64_id ip) by lia.
  destruct (Z.ltb_spec ip 4096) as [Hlt|Hge]; xstep; [|reflexivity].
  rewrite (load_cell m1 G_icmd_pos ip Hip1). xstep. rewrite (wrap_I32_id ip) by lia.
  rewrite (chk_I32 (ip + 1)) by lia. xstep. cbn [fst snd].
  rewrite (store_cell m1 G_icmd_pos ip _ Hip1). xstep.
  set (m2 := upd m1 G_icmd_pos [VInt (ip + 1)]).
  assert (L1 : (G_icmd_pos < length m1)%nat) by (unfold m1; rewrite upd_length; apply L0; assumption).
  assert (Hic2 : nth_error m2 G_icmd = Some ic) by (unfold m2; rewrite mem_upd_other; [exact Hic1|exact L1|discriminate]).
  rewrite (uchar_as_char z Hzr). replace (0 + 1 * ip) with ip by lia.
  rewrite (store_ok m2 G_icmd ic) by (try exact Hic2; lia). xstep. reflexivity.
Qed.
