(* CLiteProps.v -- unfolding lemmas of the CLite interpreter, C strings in memory, integer
   conversion facts and the symbolic-execution tactic used by the Tr*.v files. *)
From Coq Require Import List ZArith NArith Bool Lia.
From NV Require Import Bytes CLite.
Import ListNotations.
Local Open Scope Z_scope.

Section ExecLemmas.
  Variable call : nat -> list val -> mem -> res (val * mem).
  Lemma exec_skip f st : exec call f SSkip st = ONormal st.
  Proof. destruct f; reflexivity. Qed.
  Lemma exec_expr f e st :
    exec call f (SExpr e) st = match eval call e st with Ok (_, st1) => ONormal st1 | Err x => OErr x end.
  Proof. destruct f; reflexivity. Qed.
  Lemma exec_seq f a b st :
    exec call f (SSeq a b) st = match exec call f a st with ONormal st1 => exec call f b st1 | o => o end.
  Proof. destruct f; reflexivity. Qed.
  Lemma exec_if f c a b st :
    exec call f (SIf c a b) st =
    match eval call c st with
    | Ok (v, st1) => match truth v with
                     | Ok true => exec call f a st1 | Ok false => exec call f b st1 | Err x => OErr x end
    | Err x => OErr x
    end.
  Proof. destruct f; reflexivity. Qed.
  Lemma exec_return f e st :
    exec call f (SReturn (Some e)) st = match eval call e st with Ok (v, st1) => OReturn v st1 | Err x => OErr x end.
  Proof. destruct f; reflexivity. Qed.
  Lemma exec_return_none f st : exec call f (SReturn None) st = OReturn VUndef st.
  Proof. destruct f; reflexivity. Qed.
  Lemma exec_break f st : exec call f SBreak st = OBreak st.
  Proof. destruct f; reflexivity. Qed.
  Lemma exec_continue f st : exec call f SContinue st = OContinue st.
  Proof. destruct f; reflexivity. Qed.
  Lemma exec_while f c b st :
    exec call (S f) (SWhile c b) st =
    match eval call c st with
    | Ok (v, st1) =>
        match truth v with
        | Ok true => match exec call (S f) b st1 with
                     | ONormal st2 | OContinue st2 => exec call f (SWhile c b) st2
                     | OBreak st2 => ONormal st2
                     | o => o
                     end
        | Ok false => ONormal st1
        | Err x => OErr x
        end
    | Err x => OErr x
    end.
  Proof. reflexivity. Qed.
  Lemma exec_for f c step b st :
    exec call (S f) (SFor c step b) st =
    match eval_opt call c st with
    | Ok (v, st1) =>
        match truth v with
        | Ok true =>
            match exec call (S f) b st1 with
            | ONormal st2 | OContinue st2 =>
                match step with
                | Some e => match eval call e st2 with
                            | Ok (_, st3) => exec call f (SFor c step b) st3
                            | Err x => OErr x
                            end
                | None => exec call f (SFor c step b) st2
                end
            | OBreak st2 => ONormal st2
            | o => o
            end
        | Ok false => ONormal st1
        | Err x => OErr x
        end
    | Err x => OErr x
    end.
  Proof. reflexivity. Qed.
End ExecLemmas.

(* ---- C strings in memory *)
Definition zb (s : bytes) : list Z := map Z.of_N s.
(* block b of m holds the C string s (bytes 1..255) followed by its terminator *)
Definition str_at (m : mem) (b : nat) (s : bytes) : Prop := nth_error m b = Some (cstr_block (zb s)).
Definition bytes_lt256 (s : bytes) : Prop := Forall (fun c => (c < 256)%N) s.

Lemma nthb_lt256 s o : bytes_lt256 s -> (nthb s o < 256)%N.
Proof.
  intro H. unfold nthb. destruct (Nat.lt_ge_cases o (length s)) as [Hl|Hl].
  - unfold bytes_lt256 in H. rewrite Forall_forall in H. apply H. apply nth_In. exact Hl.
  - rewrite nth_overflow by exact Hl. reflexivity.
Qed.
Lemma nonul_lt256 s : nonul s -> bytes_lt256 s.
Proof. apply Forall_impl. intros a [_ H]. exact H. Qed.

Lemma load_str m b s z (o : nat) : str_at m b s -> z = Z.of_nat o -> (o <= length s)%nat ->
  load m b z = Ok (VInt (Z.of_N (nthb s o))).
Proof.
  intros H -> Ho. unfold load. rewrite H.
  destruct (Z.ltb_spec (Z.of_nat o) 0); [lia|]. rewrite Nat2Z.id.
  unfold cstr_block, zb, nthb.
  destruct (Nat.eq_dec o (length s)) as [->|Hne].
  - rewrite nth_error_app2 by (rewrite !map_length; lia). rewrite !map_length, Nat.sub_diag. cbn.
    rewrite nth_overflow by lia. reflexivity.
  - rewrite nth_error_app1 by (rewrite !map_length; lia).
    rewrite !nth_error_map. rewrite (nth_error_nth' s 0%N) by lia. reflexivity.
Qed.
Lemma load_str_oob m b s z : str_at m b s -> (z < 0 \/ Z.of_nat (length s) < z) -> load m b z = Err EOob.
Proof.
  intros H Hz. unfold load. rewrite H. destruct (Z.ltb_spec z 0); [reflexivity|].
  destruct Hz as [Hz|Hz]; [lia|].
  replace (nth_error _ _) with (@None val); [reflexivity|]. symmetry. apply nth_error_None.
  unfold cstr_block, zb. rewrite app_length, !map_length. cbn. lia.
Qed.
Lemma nthb_skipn s o k : nthb (skipn o s) k = nthb s (o + k).
Proof.
  unfold nthb. revert s; induction o as [|o IH]; intro s; [reflexivity|].
  destruct s as [|x s]; [destruct k; reflexivity|]. cbn [skipn plus nth]. apply IH.
Qed.

(* ---- integer conversions on byte values *)
Lemma wrap_byte_chain c : (c < 256)%N -> wrap I32 (wrap U8 (wrap I8 (Z.of_N c))) = Z.of_N c.
Proof.
  intro H. apply Z.eqb_eq. revert c H.
  apply (byte_sweep (fun c => wrap I32 (wrap U8 (wrap I8 (Z.of_N c))) =? Z.of_N c)). vm_compute. reflexivity.
Qed.

(* every byte value is one of the 256 *)
Lemma byte_cases (P : N -> Prop) : Forall P bytes256 -> forall c, (c < 256)%N -> P c.
Proof. intros H c Hc. rewrite Forall_forall in H. apply H. apply in_bytes256. exact Hc. Qed.

(* ---- tactics *)
Ltac xrw := rewrite ?exec_seq, ?exec_expr, ?exec_if, ?exec_return, ?exec_return_none, ?exec_skip, ?exec_break, ?exec_continue.
Ltac xcbn := cbn [eval eval_opt bind get_local set_local locals memm nth_error set_nth as_int truth
                  arith arith1 ity_signed ity_bits andb negb orb Z.leb Z.ltb Z.compare Pos.compare Pos.compare_cont].


(* ---- Z bit operations on images of N *)
Lemma of_N_land a b : Z.land (Z.of_N a) (Z.of_N b) = Z.of_N (N.land a b).
Proof. destruct a, b; reflexivity. Qed.
Lemma of_N_lor a b : Z.lor (Z.of_N a) (Z.of_N b) = Z.of_N (N.lor a b).
Proof. destruct a, b; reflexivity. Qed.
Lemma of_N_shiftl a k : Z.shiftl (Z.of_N a) (Z.of_N k) = Z.of_N (N.shiftl a k).
Proof.
  rewrite Z.shiftl_mul_pow2 by lia. rewrite N.shiftl_mul_pow2. rewrite N2Z.inj_mul, N2Z.inj_pow. reflexivity.
Qed.
Lemma of_N_shiftr a k : Z.shiftr (Z.of_N a) (Z.of_N k) = Z.of_N (N.shiftr a k).
Proof.
  rewrite Z.shiftr_div_pow2 by lia. rewrite N.shiftr_div_pow2. rewrite N2Z.inj_div, N2Z.inj_pow. reflexivity.
Qed.

(* a signed 32-bit result that is in range is returned as it is *)
Lemma chk_I32 z : - 2147483648 <= z <= 2147483647 -> chk I32 z = Ok z.
Proof.
  intro H. unfold chk, in_range, ity_min, ity_max, ity_signed, ity_bits.
  change (- 2 ^ (32 - 1)) with (-2147483648). change (2 ^ (32 - 1) - 1) with 2147483647.
  destruct (Z.leb_spec (-2147483648) z); [|lia]. destruct (Z.leb_spec z 2147483647); [|lia]. reflexivity.
Qed.
(* x << k in int, for a non-negative x small enough *)
Lemma shl_I32 (x k : N) : (k < 32)%N -> (x * 2 ^ k <= 2147483647)%N ->
  arith OShl I32 (Z.of_N x) (Z.of_N k) = Ok (Z.of_N (N.shiftl x k)).
Proof.
  intros Hk Hx. unfold arith. cbn [ity_bits ity_signed].
  destruct (Z.leb_spec 0 (Z.of_N k)); [|lia]. destruct (Z.ltb_spec (Z.of_N k) 32); [|lia]. cbn [andb].
  destruct (Z.ltb_spec (Z.of_N x) 0); [lia|]. rewrite of_N_shiftl. apply chk_I32.
  rewrite N.shiftl_mul_pow2. lia.
Qed.

Lemma truth_b2z x : truth (VInt (b2z x)) = Ok x.
Proof. destruct x; reflexivity. Qed.
Lemma skipn_cons_nthb (s : bytes) p : (p < length s)%nat -> skipn p s = nthb s p :: skipn (S p) s.
Proof.
  revert s; induction p as [|p IH]; intros [|x s] H; cbn in H; try lia; [reflexivity|].
  cbn [skipn]. rewrite IH by lia. reflexivity.
Qed.
Lemma nthb_end (s : bytes) p : (length s <= p)%nat -> nthb s p = 0%N.
Proof. intro H. unfold nthb. apply nth_overflow. exact H. Qed.
Lemma skipn_end {A} (s : list A) p : (length s <= p)%nat -> skipn p s = [].
Proof. intro H. apply skipn_all2. exact H. Qed.
Lemma nb2z x : negb (b2z x =? 0) = x.
Proof. destruct x; reflexivity. Qed.
Lemma callf_S prog fuel d f args m :
  callf prog fuel (S d) f args m =
  match nth_error prog f with
  | None => Err EShape
  | Some fn =>
      if Nat.eqb (length args) (fn_nparams fn) then
        match exec (callf prog fuel d) fuel (fn_body fn)
                   (mkst (args ++ repeat VUndef (fn_nlocals fn - fn_nparams fn)) m) with
        | OReturn v st => Ok (v, memm st)
        | ONormal st => Ok (VUndef, memm st)
        | OErr x => Err x
        | _ => Err EShape
        end
      else Err EShape
  end.
Proof. reflexivity. Qed.

Ltac xstep := repeat (progress (xrw; xcbn; rewrite ?nb2z; try change (0 =? 0) with true; try change (1 =? 0) with false)).

(* ---- stores: the memory after a store, loads after a store, other blocks untouched *)
Definition upd {A} (l : list A) (n : nat) (x : A) : list A := firstn n l ++ x :: skipn (S n) l.
Lemma set_nth_upd {A} (l : list A) n x : (n < length l)%nat -> set_nth l n x = Some (upd l n x).
Proof.
  revert n; induction l as [|a l IH]; intros n H; cbn in H; [lia|].
  destruct n as [|n]; [reflexivity|]. cbn [set_nth]. rewrite IH by lia. reflexivity.
Qed.
Lemma set_nth_none {A} (l : list A) n x : (length l <= n)%nat -> set_nth l n x = None.
Proof.
  revert n; induction l as [|a l IH]; intros n H; [destruct n; reflexivity|].
  cbn in H. destruct n as [|n]; [lia|]. cbn [set_nth]. rewrite IH by lia. reflexivity.
Qed.
Lemma upd_length {A} (l : list A) n x : (n < length l)%nat -> length (upd l n x) = length l.
Proof. intro H. unfold upd. rewrite app_length, firstn_length, Nat.min_l by lia. cbn [length]. rewrite skipn_length. lia. Qed.
Lemma nth_error_upd_same {A} (l : list A) n x : (n < length l)%nat -> nth_error (upd l n x) n = Some x.
Proof.
  intro H. unfold upd. rewrite nth_error_app2 by (rewrite firstn_length; lia).
  rewrite firstn_length, Nat.min_l, Nat.sub_diag by lia. reflexivity.
Qed.
Lemma nth_error_firstn_lt {A} (l : list A) n k : (k < n)%nat -> nth_error (firstn n l) k = nth_error l k.
Proof.
  revert n k; induction l as [|a l IH]; intros n k H; [rewrite firstn_nil; reflexivity|].
  destruct n as [|n]; [lia|]. destruct k as [|k]; [reflexivity|]. cbn [firstn nth_error]. apply IH. lia.
Qed.
Lemma nth_error_skipn_add {A} (l : list A) n k : nth_error (skipn n l) k = nth_error l (n + k).
Proof.
  revert l; induction n as [|n IH]; intro l; [reflexivity|]. destruct l as [|a l]; [destruct k; reflexivity|]. apply IH.
Qed.
Lemma nth_error_upd_other {A} (l : list A) n k x : (n < length l)%nat -> k <> n -> nth_error (upd l n x) k = nth_error l k.
Proof.
  intros H Hk. unfold upd. destruct (Nat.lt_ge_cases k n) as [L|L].
  - rewrite nth_error_app1 by (rewrite firstn_length; lia). apply nth_error_firstn_lt. exact L.
  - rewrite nth_error_app2 by (rewrite firstn_length; lia). rewrite firstn_length, Nat.min_l by lia.
    destruct (k - n)%nat as [|j] eqn:E; [lia|]. cbn [nth_error]. rewrite nth_error_skipn_add. f_equal. lia.
Qed.

Lemma store_ok (m : mem) b (blk : block) o v : nth_error m b = Some blk -> 0 <= o < Z.of_nat (length blk) ->
  store m b o v = Ok (upd m b (upd blk (Z.to_nat o) v)).
Proof.
  intros Hm Ho. unfold store. rewrite Hm. destruct (Z.ltb_spec o 0); [lia|].
  rewrite set_nth_upd by lia. rewrite set_nth_upd; [reflexivity|]. apply nth_error_Some. congruence.
Qed.
Lemma store_oob (m : mem) b (blk : block) o v : nth_error m b = Some blk -> (o < 0 \/ Z.of_nat (length blk) <= o) -> store m b o v = Err EOob.
Proof.
  intros Hm Ho. unfold store. rewrite Hm. destruct (Z.ltb_spec o 0); [reflexivity|].
  rewrite set_nth_none by lia. reflexivity.
Qed.
(* the blocks of the memory after a store *)
Lemma mem_upd_same (m : mem) b (blk' : block) : (b < length m)%nat -> nth_error (upd m b blk') b = Some blk'.
Proof. apply nth_error_upd_same. Qed.
Lemma mem_upd_other (m : mem) b b' (blk' : block) : (b < length m)%nat -> b' <> b -> nth_error (upd m b blk') b' = nth_error m b'.
Proof. apply nth_error_upd_other. Qed.
Lemma str_at_upd_other (m : mem) b (blk' : block) b' s : (b < length m)%nat -> b' <> b -> str_at m b' s -> str_at (upd m b blk') b' s.
Proof. intros H Hne Hs. unfold str_at in *. rewrite mem_upd_other; assumption. Qed.
Lemma load_upd_same (m : mem) b (blk : block) o v : nth_error m b = Some blk -> 0 <= o < Z.of_nat (length blk) ->
  load (upd m b (upd blk (Z.to_nat o) v)) b o = Ok v.
Proof.
  intros Hm Ho. unfold load. rewrite mem_upd_same by (apply nth_error_Some; congruence).
  destruct (Z.ltb_spec o 0); [lia|]. rewrite nth_error_upd_same by lia. reflexivity.
Qed.
Lemma load_upd_other_cell (m : mem) b (blk : block) o o' v : nth_error m b = Some blk -> 0 <= o < Z.of_nat (length blk) -> o' <> o -> 0 <= o' ->
  load (upd m b (upd blk (Z.to_nat o) v)) b o' = load m b o'.
Proof.
  intros Hm Ho Hne Ho'. unfold load. rewrite mem_upd_same by (apply nth_error_Some; congruence). rewrite Hm.
  destruct (Z.ltb_spec o' 0); [lia|]. rewrite nth_error_upd_other by lia. reflexivity.
Qed.
Lemma load_upd_other_block (m : mem) b (blk' : block) b' o : (b < length m)%nat -> b' <> b -> load (upd m b blk') b' o = load m b' o.
Proof. intros H Hne. unfold load. rewrite mem_upd_other by assumption. reflexivity. Qed.

(* ---- a block described as prefix ++ rest (a char array filled front to back) *)
Lemma upd_upd {A} (l : list A) n x y : (n < length l)%nat -> upd (upd l n x) n y = upd l n y.
Proof.
  intro H. unfold upd.
  rewrite firstn_app, firstn_firstn, Nat.min_id, firstn_length, Nat.min_l, Nat.sub_diag by lia. cbn [firstn].
  rewrite app_nil_r. f_equal. f_equal.
  rewrite skipn_app, firstn_length, Nat.min_l by lia.
  rewrite (skipn_all2 (firstn n l)) by (rewrite firstn_length; lia).
  replace (S n - n)%nat with 1%nat by lia. reflexivity.
Qed.
Lemma upd_self {A} (l : list A) n x : nth_error l n = Some x -> upd l n x = l.
Proof.
  revert n; induction l as [|a l IH]; intros n H; [destruct n; discriminate|].
  destruct n as [|n]; [cbn in H; injection H as ->; reflexivity|].
  unfold upd in *. cbn [firstn skipn app]. f_equal. apply IH. exact H.
Qed.
(* storing just behind the prefix extends the prefix by one cell *)
Lemma upd_prefix {A} (pre l : list A) x : (length pre < length l)%nat ->
  upd (pre ++ skipn (length pre) l) (length pre) x = (pre ++ [x]) ++ skipn (S (length pre)) l.
Proof.
  intro H. unfold upd. rewrite firstn_app, Nat.sub_diag, firstn_all. cbn [firstn]. rewrite app_nil_r, <- app_assoc.
  f_equal. cbn [app]. f_equal.
  rewrite skipn_app, (skipn_all2 pre) by lia. replace (S (length pre) - length pre)%nat with 1%nat by lia.
  rewrite skipn_skipn. cbn [app]. f_equal. lia.
Qed.
Lemma load_prefix (m : mem) b (pre rest : block) o v : nth_error m b = Some (pre ++ rest) ->
  nth_error pre o = Some v -> load m b (Z.of_nat o) = Ok v.
Proof.
  intros Hm Ho. unfold load. rewrite Hm. destruct (Z.ltb_spec (Z.of_nat o) 0); [lia|]. rewrite Nat2Z.id.
  rewrite nth_error_app1 by (apply nth_error_Some; congruence). rewrite Ho. reflexivity.
Qed.

(* ---- int arrays in memory: block b holds the ints l (each inside int), one per cell *)
Definition int_arr_at (m : mem) (b : nat) (l : list Z) : Prop := nth_error m b = Some (map VInt l).
Definition ints_ok (l : list Z) : Prop := Forall (fun z => -2147483648 <= z <= 2147483647) l.
Definition nthz (l : list Z) (i : Z) : Z := nth (Z.to_nat i) l 0.

Lemma wrap_I32_id z : -2147483648 <= z <= 2147483647 -> wrap I32 z = z.
Proof.
  intro H. unfold wrap. cbn [ity_bits ity_signed andb].
  change (2 ^ 32) with 4294967296. change (2 ^ (32 - 1)) with 2147483648.
  destruct (Z.leb_spec 2147483648 (z mod 4294967296)) as [L|L].
  - assert (z < 0) by (destruct (Z.lt_ge_cases z 0); [assumption|rewrite Z.mod_small in L by lia; lia]).
    rewrite <- (Z.mod_add z 1 4294967296) by lia. rewrite Z.mod_small by lia. lia.
  - assert (0 <= z) by (destruct (Z.lt_ge_cases z 0); [|assumption]; exfalso;
      rewrite <- (Z.mod_add z 1 4294967296) in L by lia; rewrite Z.mod_small in L by lia; lia).
    apply Z.mod_small. lia.
Qed.
(* a load of cell i of the array: inside the block, the value is the i-th int *)
Lemma load_int_arr m b l i : int_arr_at m b l -> 0 <= i < Z.of_nat (length l) -> load m b i = Ok (VInt (nthz l i)).
Proof.
  intros Hm Hi. unfold load. rewrite Hm. destruct (Z.ltb_spec i 0); [lia|].
  rewrite nth_error_map, (nth_error_nth' l 0) by lia. reflexivity.
Qed.
Lemma load_int_arr_oob m b l i : int_arr_at m b l -> (i < 0 \/ Z.of_nat (length l) <= i) -> load m b i = Err EOob.
Proof.
  intros Hm Hi. unfold load. rewrite Hm. destruct (Z.ltb_spec i 0); [reflexivity|].
  replace (nth_error _ _) with (@None val); [reflexivity|]. symmetry. apply nth_error_None. rewrite map_length. lia.
Qed.
Lemma nthz_ok l i : ints_ok l -> -2147483648 <= nthz l i <= 2147483647.
Proof.
  intro H. unfold nthz. destruct (Nat.lt_ge_cases (Z.to_nat i) (length l)) as [L|L].
  - unfold ints_ok in H. rewrite Forall_forall in H. apply H. apply nth_In. exact L.
  - rewrite nth_overflow by exact L. lia.
Qed.
Lemma skipn_cons_nthz (l : list Z) i : (i < length l)%nat -> skipn i l = nthz l (Z.of_nat i) :: skipn (S i) l.
Proof.
  unfold nthz. rewrite Nat2Z.id. revert l; induction i as [|i IH]; intros [|x l] H; cbn in H; try lia; [reflexivity|].
  cbn [skipn nth]. rewrite IH by lia. reflexivity.
Qed.
Lemma nthz_firstn (l : list Z) n i : 0 <= i < Z.of_nat n -> nthz (firstn n l) i = nthz l i.
Proof.
  intro H. unfold nthz. destruct (Nat.lt_ge_cases (Z.to_nat i) (length l)) as [L|L].
  - rewrite <- (firstn_skipn n l) at 2. rewrite app_nth1 by (rewrite firstn_length; lia). reflexivity.
  - rewrite !nth_overflow; [reflexivity|lia|rewrite firstn_length; lia].
Qed.
(* a store into cell i replaces the i-th int; the block is again an int array *)
Lemma map_upd {A B} (f : A -> B) (l : list A) n x : map f (upd l n x) = upd (map f l) n (f x).
Proof. unfold upd. rewrite map_app, firstn_map. cbn [map]. rewrite skipn_map. reflexivity. Qed.
Lemma store_int_arr m b l i v : int_arr_at m b l -> 0 <= i < Z.of_nat (length l) ->
  store m b i (VInt v) = Ok (upd m b (map VInt (upd l (Z.to_nat i) v))).
Proof. intros Hm Hi. rewrite map_upd. apply store_ok; [exact Hm|rewrite map_length; exact Hi]. Qed.
Lemma store_int_arr_oob m b l i v : int_arr_at m b l -> (i < 0 \/ Z.of_nat (length l) <= i) -> store m b i v = Err EOob.
Proof. intros Hm Hi. apply (store_oob m b (map VInt l)); [exact Hm|rewrite map_length; exact Hi]. Qed.
Lemma int_arr_at_upd m b l l' : int_arr_at m b l -> int_arr_at (upd m b (map VInt l')) b l'.
Proof. intro H. unfold int_arr_at. apply mem_upd_same. apply nth_error_Some. unfold int_arr_at in H. congruence. Qed.
Lemma int_arr_upd_upd m b l l1 l2 : int_arr_at m b l -> upd (upd m b (map VInt l1)) b (map VInt l2) = upd m b (map VInt l2).
Proof. intro H. apply upd_upd. apply nth_error_Some. unfold int_arr_at in H. congruence. Qed.
Lemma int_arr_upd_self m b l : int_arr_at m b l -> upd m b (map VInt l) = m.
Proof. apply upd_self. Qed.
Lemma nth_upd {A} (l : list A) n i x d : (n < length l)%nat -> nth i (upd l n x) d = if Nat.eqb i n then x else nth i l d.
Proof.
  intro H. destruct (Nat.eqb_spec i n) as [->|Hne].
  - apply nth_error_nth. apply nth_error_upd_same. exact H.
  - destruct (Nat.lt_ge_cases i (length l)) as [L|L].
    + apply nth_error_nth. rewrite nth_error_upd_other by assumption. apply nth_error_nth'. exact L.
    + rewrite !nth_overflow; [reflexivity|exact L|rewrite upd_length; assumption].
Qed.
Lemma ints_ok_upd l n x : ints_ok l -> -2147483648 <= x <= 2147483647 -> ints_ok (upd l n x).
Proof.
  intros H Hx. unfold ints_ok, upd in *. apply Forall_app. split; [apply Forall_firstn'; exact H|].
  apply Forall_cons; [exact Hx|apply Forall_skipn'; exact H].
Qed.

(* ---- memcpy / memmove / memset: a run of cells read from a block, a run of cells written into a block *)
(* the block with the cells vs written over its cells o .. o + length vs *)
Definition put_cells {A} (l : list A) (o : nat) (vs : list A) : list A := firstn o l ++ vs ++ skipn (o + length vs) l.
Lemma put_cells_length {A} (l : list A) o vs : (o + length vs <= length l)%nat -> length (put_cells l o vs) = length l.
Proof. intro H. unfold put_cells. rewrite !app_length, firstn_length, skipn_length. lia. Qed.
Lemma put_cells_nil {A} (l : list A) o : put_cells l o [] = l.
Proof. unfold put_cells. cbn [length app]. rewrite Nat.add_0_r. apply firstn_skipn. Qed.
Lemma put_cells_cons {A} (l : list A) o v vs : (o < length l)%nat -> put_cells (upd l o v) (S o) vs = put_cells l o (v :: vs).
Proof.
  revert o; induction l as [|a l IH]; intros o H; cbn [length] in H; [lia|].
  destruct o as [|o]; [reflexivity|].
  change (upd (a :: l) (S o) v) with (a :: upd l o v).
  change (put_cells (a :: upd l o v) (S (S o)) vs) with (a :: put_cells (upd l o v) (S o) vs).
  change (put_cells (a :: l) (S o) (v :: vs)) with (a :: put_cells l o (v :: vs)).
  rewrite IH by lia. reflexivity.
Qed.
(* the cells of the block after put_cells: before, inside and behind the written run *)
Lemma firstn_put_cells {A} (l : list A) o o' vs : (o' <= o)%nat -> (o <= length l)%nat -> firstn o' (put_cells l o vs) = firstn o' l.
Proof.
  intros H H'. unfold put_cells. rewrite firstn_app, firstn_firstn, firstn_length, !Nat.min_l by lia.
  replace (o' - o)%nat with 0%nat by lia. cbn [firstn]. apply app_nil_r.
Qed.
Lemma skipn_put_cells {A} (l : list A) o vs : (o <= length l)%nat -> skipn o (put_cells l o vs) = vs ++ skipn (o + length vs) l.
Proof. intro H. unfold put_cells. rewrite skipn_app, firstn_length, Nat.min_l, Nat.sub_diag by lia. rewrite skipn_all2 by (rewrite firstn_length; lia). reflexivity. Qed.

Lemma skipn_cons_nth_error {A} (l : list A) o v : nth_error l o = Some v -> skipn o l = v :: skipn (S o) l.
Proof.
  revert l; induction o as [|o IH]; intros [|a l] H; try discriminate; [cbn in H; injection H as ->; reflexivity|].
  cbn [skipn]. apply IH. exact H.
Qed.
Lemma read_cells_ok (blk : block) o n : (o + n <= length blk)%nat -> read_cells blk o n = Ok (firstn n (skipn o blk)).
Proof.
  revert o; induction n as [|n IH]; intros o H; [reflexivity|]. cbn [read_cells].
  destruct (nth_error blk o) as [v|] eqn:E; [|apply nth_error_None in E; lia].
  rewrite IH by lia. cbn [bind]. rewrite (skipn_cons_nth_error blk o v E). reflexivity.
Qed.
Lemma read_cells_oob (blk : block) o n : (0 < n)%nat -> (length blk < o + n)%nat -> read_cells blk o n = Err EOob.
Proof.
  revert o; induction n as [|n IH]; intros o Hn H; [lia|]. cbn [read_cells].
  destruct (nth_error blk o) as [v|] eqn:E; [|reflexivity].
  assert (o < length blk)%nat by (apply nth_error_Some; congruence).
  rewrite IH; [reflexivity|lia|lia].
Qed.
Lemma write_cells_ok (m : mem) b (blk : block) o vs : nth_error m b = Some blk -> 0 <= o ->
  (Z.to_nat o + length vs <= length blk)%nat -> write_cells m b o vs = Ok (upd m b (put_cells blk (Z.to_nat o) vs)).
Proof.
  revert m blk o; induction vs as [|v vs IH]; intros m blk o Hm Ho Hl.
  - cbn [write_cells]. rewrite put_cells_nil, upd_self by exact Hm. reflexivity.
  - cbn [write_cells length] in *. rewrite (store_ok m b blk) by (try exact Hm; lia). cbn [bind].
    assert (b < length m)%nat as Hb by (apply nth_error_Some; congruence).
    rewrite (IH _ (upd blk (Z.to_nat o) v)); [| apply mem_upd_same; exact Hb | lia | rewrite upd_length by lia; lia].
    rewrite upd_upd by exact Hb. replace (Z.to_nat (o + 1)) with (S (Z.to_nat o)) by lia.
    rewrite put_cells_cons by lia. reflexivity.
Qed.
Lemma write_cells_oob (m : mem) b (blk : block) o vs : nth_error m b = Some blk -> 0 <= o -> vs <> [] ->
  (length blk < Z.to_nat o + length vs)%nat -> write_cells m b o vs = Err EOob.
Proof.
  revert m blk o; induction vs as [|v vs IH]; intros m blk o Hm Ho Hne Hl; [congruence|].
  cbn [write_cells length] in *. destruct (Z_lt_ge_dec o (Z.of_nat (length blk))) as [L|L].
  - rewrite (store_ok m b blk) by (try exact Hm; lia). cbn [bind].
    assert (b < length m)%nat as Hb by (apply nth_error_Some; congruence).
    destruct vs as [|w vs]; [cbn [length] in Hl; lia|].
    apply (IH _ (upd blk (Z.to_nat o) v)); [apply mem_upd_same; exact Hb|lia|discriminate|rewrite upd_length by lia; lia].
  - rewrite (store_oob m b blk) by (try exact Hm; lia). reflexivity.
Qed.
(* memmove(bd + od, bs + os, n) / memcpy: n cells of the source block, read inside it, land inside the
   destination block (the same block or another one); nothing else changes *)
Lemma memmove_ok (m : mem) bd od bs os n (dblk sblk : block) :
  nth_error m bd = Some dblk -> nth_error m bs = Some sblk -> 0 <= n -> 0 <= os -> 0 <= od ->
  os + n <= Z.of_nat (length sblk) -> od + n <= Z.of_nat (length dblk) ->
  do_builtin_m BMemmove [VPtr bd od; VPtr bs os; VInt n] m
  = Ok (VPtr bd od, upd m bd (put_cells dblk (Z.to_nat od) (firstn (Z.to_nat n) (skipn (Z.to_nat os) sblk)))).
Proof.
  intros Hd Hs Hn Hos Hod Hsl Hdl. cbn [do_builtin_m].
  destruct (Z.ltb_spec n 0); [lia|]. destruct (Z.ltb_spec os 0); [lia|]. cbn [orb]. rewrite Hs.
  rewrite read_cells_ok by lia. cbn [bind].
  rewrite (write_cells_ok m bd dblk); [reflexivity|exact Hd|exact Hod|].
  rewrite firstn_length, skipn_length. lia.
Qed.
Lemma memcpy_ok (m : mem) bd od bs os n (dblk sblk : block) :
  nth_error m bd = Some dblk -> nth_error m bs = Some sblk -> 0 <= n -> 0 <= os -> 0 <= od ->
  os + n <= Z.of_nat (length sblk) -> od + n <= Z.of_nat (length dblk) ->
  do_builtin_m BMemcpy [VPtr bd od; VPtr bs os; VInt n] m
  = Ok (VPtr bd od, upd m bd (put_cells dblk (Z.to_nat od) (firstn (Z.to_nat n) (skipn (Z.to_nat os) sblk)))).
Proof. exact (memmove_ok m bd od bs os n dblk sblk). Qed.
(* a copy that would leave the source or the destination block is the error EOob *)
Lemma memmove_oob (m : mem) bd od bs os n (dblk sblk : block) :
  nth_error m bd = Some dblk -> nth_error m bs = Some sblk -> 0 < n -> 0 <= os -> 0 <= od ->
  (Z.of_nat (length sblk) < os + n \/ Z.of_nat (length dblk) < od + n) ->
  do_builtin_m BMemmove [VPtr bd od; VPtr bs os; VInt n] m = Err EOob.
Proof.
  intros Hd Hs Hn Hos Hod Hl. cbn [do_builtin_m].
  destruct (Z.ltb_spec n 0); [lia|]. destruct (Z.ltb_spec os 0); [lia|]. cbn [orb]. rewrite Hs.
  destruct (Z_lt_ge_dec (Z.of_nat (length sblk)) (os + n)) as [L|L].
  - rewrite read_cells_oob by lia. reflexivity.
  - rewrite read_cells_ok by lia. cbn [bind].
    rewrite (write_cells_oob m bd dblk); [reflexivity|exact Hd|exact Hod| |].
    + intro E. apply (f_equal (@length val)) in E. rewrite firstn_length, skipn_length in E. cbn in E. lia.
    + rewrite firstn_length, skipn_length. lia.
Qed.

(* ---- a scalar global (static int x;): a block of one cell *)
Definition cell_at (m : mem) (g : nat) (v : Z) : Prop := nth_error m g = Some [VInt v].
Lemma load_cell m g v : cell_at m g v -> load m g 0 = Ok (VInt v).
Proof. intro H. unfold load. rewrite H. reflexivity. Qed.
Lemma store_cell m g v w : cell_at m g v -> store m g 0 (VInt w) = Ok (upd m g [VInt w]).
Proof. intro H. rewrite (store_ok m g [VInt v]); [reflexivity|exact H|cbn; lia]. Qed.
Lemma cell_at_upd_same (m : mem) g v : (g < length m)%nat -> cell_at (upd m g [VInt v]) g v.
Proof. intro H. unfold cell_at. apply mem_upd_same. exact H. Qed.
Lemma cell_at_upd_other (m : mem) b (blk' : block) g v : (b < length m)%nat -> g <> b -> cell_at m g v -> cell_at (upd m b blk') g v.
Proof. intros H Hne Hc. unfold cell_at in *. rewrite mem_upd_other; assumption. Qed.
Lemma wrap_U64_id z : 0 <= z < 18446744073709551616 -> wrap U64 z = z.
Proof. intro H. unfold wrap. cbn [ity_bits ity_signed andb]. apply Z.mod_small. exact H. Qed.
Lemma chk_U64 z : 0 <= z < 18446744073709551616 -> chk U64 z = Ok z.
Proof. intro H. unfold chk. cbn [ity_signed]. rewrite wrap_U64_id by exact H. reflexivity. Qed.

(* ---- strlen / strchr on a C string in memory (the builtins BStrlen, BStrchr of CLite.v) *)
Lemma skipn_cstr_block (s : bytes) o : (o <= length s)%nat -> skipn o (cstr_block (zb s)) = cstr_block (zb (skipn o s)).
Proof. intro H. unfold cstr_block, zb. rewrite skipn_app, !map_length, !skipn_map. replace (o - length s)%nat with 0%nat by lia. reflexivity. Qed.
Lemma blk_from_str m b s (o : nat) : str_at m b s -> (o <= length s)%nat ->
  blk_from m b (Z.of_nat o) = Ok (cstr_block (zb (skipn o s))).
Proof.
  intros H Ho. unfold blk_from. rewrite H.
  assert (L : length (cstr_block (zb s)) = S (length s)) by (unfold cstr_block, zb; rewrite app_length, !map_length; cbn; lia).
  rewrite L. destruct (Z.ltb_spec (Z.of_nat o) 0); [lia|]. destruct (Z.ltb_spec (Z.of_nat (S (length s))) (Z.of_nat o)); [lia|].
  cbn [orb]. rewrite Nat2Z.id, skipn_cstr_block by exact Ho. reflexivity.
Qed.
Lemma scan0_cstr (t : bytes) n : nonul t -> scan0 (cstr_block (zb t)) n = Ok (n + length t)%nat.
Proof.
  revert n; induction t as [|x t IH]; intros n H; [cbn; f_equal; lia|].
  inversion H as [|? ? Hx Ht]; subst. unfold cstr_block, zb in *. cbn [map app scan0].
  destruct x as [|p]; [destruct Hx; lia|]. cbn [Z.of_N]. rewrite IH by exact Ht. f_equal. cbn [length]. lia.
Qed.
Lemma builtin_strlen m b s (o : nat) : str_at m b s -> nonul s -> (o <= length s)%nat ->
  do_builtin_m BStrlen [VPtr b (Z.of_nat o)] m = Ok (VInt (Z.of_nat (length s - o)), m).
Proof.
  intros H Hn Ho. cbn [do_builtin_m do_builtin bind]. rewrite (blk_from_str m b s o H Ho). cbn [bind].
  rewrite scan0_cstr by (apply Forall_skipn'; exact Hn). cbn [bind]. rewrite skipn_length. reflexivity.
Qed.
(* index of the first byte c *)
Fixpoint find_byte (c : N) (s : bytes) : option nat :=
  match s with
  | [] => None
  | x :: r => if (x =? c)%N then Some O else match find_byte c r with Some n => Some (S n) | None => None end
  end.
Lemma wrap_I8_inj x c : (x < 256)%N -> (c < 256)%N -> (wrap I8 (Z.of_N x) =? wrap I8 (Z.of_N c)) = (x =? c)%N.
Proof.
  intros Hx Hc. unfold wrap. cbn [ity_bits ity_signed andb]. change (2 ^ 8) with 256. change (2 ^ (8 - 1)) with 128.
  rewrite !Z.mod_small by lia.
  destruct (Z.leb_spec 128 (Z.of_N x)); destruct (Z.leb_spec 128 (Z.of_N c)); destruct (N.eqb_spec x c);
    match goal with |- (?a =? ?b) = _ => destruct (Z.eqb_spec a b) end; try reflexivity; try lia.
Qed.
Lemma scanc_cstr (t : bytes) c n : nonul t -> (c < 256)%N -> c <> 0%N ->
  scanc (cstr_block (zb t)) (wrap I8 (Z.of_N c)) n = Ok (match find_byte c t with Some k => Some (n + k)%nat | None => None end).
Proof.
  intros Ht Hc Hc0. revert n; induction t as [|x t IH]; intro n.
  - unfold cstr_block, zb. cbn [map app scanc find_byte]. change (wrap I8 0) with (wrap I8 (Z.of_N 0)).
    rewrite wrap_I8_inj by lia. destruct (N.eqb_spec 0 c); [congruence|]. reflexivity.
  - inversion Ht as [|? ? Hx Ht']; subst. unfold cstr_block, zb in *. cbn [map app scanc find_byte].
    destruct Hx as [Hx0 Hx]. rewrite wrap_I8_inj by lia. destruct (N.eqb_spec x c); [do 2 f_equal; lia|].
    destruct (Z.eqb_spec (Z.of_N x) 0); [lia|]. rewrite (IH Ht'). destruct (find_byte c t); [do 2 f_equal; lia|reflexivity].
Qed.
Lemma builtin_strchr m b s (o : nat) c : str_at m b s -> nonul s -> (o <= length s)%nat -> (c < 256)%N -> c <> 0%N ->
  do_builtin_m BStrchr [VPtr b (Z.of_nat o); VInt (Z.of_N c)] m
  = Ok (match find_byte c (skipn o s) with Some k => VPtr b (Z.of_nat o + Z.of_nat k) | None => VInt 0 end, m).
Proof.
  intros H Hn Ho Hc Hc0. cbn [do_builtin_m do_builtin bind]. rewrite (blk_from_str m b s o H Ho). cbn [bind].
  rewrite scanc_cstr by (try assumption; apply Forall_skipn'; exact Hn). cbn [bind].
  destruct (find_byte c (skipn o s)); reflexivity.
Qed.
Lemma find_byte_lt c s k : find_byte c s = Some k -> (k < length s)%nat /\ nthb s k = c.
Proof.
  revert k; induction s as [|x s IH]; intros k H; [discriminate|]. cbn [find_byte] in H.
  destruct (N.eqb_spec x c).
  - injection H as <-. cbn. split; [lia|assumption].
  - destruct (find_byte c s) as [j|]; [|discriminate]. injection H as <-. destruct (IH j eq_refl). cbn [length]. split; [lia|assumption].
Qed.

(* ---- malloc / free / memset (the heap builtins of CLite.v): the fresh block is appended, a freed block is emptied *)
Lemma malloc_ok (m : mem) n : 0 <= n ->
  do_builtin_m BMalloc [VInt n] m = Ok (VPtr (length m) 0, m ++ [repeat VUndef (Z.to_nat n)]).
Proof. intro H. cbn [do_builtin_m]. destruct (Z.ltb_spec n 0); [lia|reflexivity]. Qed.
Lemma nth_error_app_new {A} (m : list A) x : nth_error (m ++ [x]) (length m) = Some x.
Proof. rewrite nth_error_app2 by lia. rewrite Nat.sub_diag. reflexivity. Qed.
Lemma nth_error_app_old {A} (m : list A) x b : (b < length m)%nat -> nth_error (m ++ [x]) b = nth_error m b.
Proof. intro H. apply nth_error_app1. exact H. Qed.
Lemma upd_app_old {A} (m : list A) x b y : (b < length m)%nat -> upd (m ++ [x]) b y = upd m b y ++ [x].
Proof.
  intro H. unfold upd. rewrite firstn_app, skipn_app. replace (b - length m)%nat with 0%nat by lia.
  replace (S b - length m)%nat with 0%nat by lia. cbn [firstn skipn]. rewrite app_nil_r, <- app_assoc. reflexivity.
Qed.
Lemma upd_app_new {A} (m : list A) x y : upd (m ++ [x]) (length m) y = m ++ [y].
Proof.
  unfold upd. rewrite firstn_app, Nat.sub_diag, firstn_all. cbn [firstn]. rewrite app_nil_r. f_equal.
  rewrite skipn_app, skipn_all2 by lia. replace (S (length m) - length m)%nat with 1%nat by lia. reflexivity.
Qed.
Lemma free_ok (m : mem) b (blk : block) : nth_error m b = Some blk -> blk <> [] ->
  do_builtin_m BFree [VPtr b 0] m = Ok (VUndef, upd m b []).
Proof.
  intros Hm Hne. cbn [do_builtin_m]. rewrite Hm. destruct blk as [|v blk]; [congruence|].
  rewrite set_nth_upd by (apply nth_error_Some; congruence). reflexivity.
Qed.
Lemma free_null (m : mem) : do_builtin_m BFree [VInt 0] m = Ok (VUndef, m).
Proof. reflexivity. Qed.
(* freeing twice, or freeing a block that was never allocated, is an error of the semantics *)
Lemma free_freed (m : mem) b : nth_error m b = Some [] -> do_builtin_m BFree [VPtr b 0] m = Err EOob.
Proof. intro Hm. cbn [do_builtin_m]. rewrite Hm. reflexivity. Qed.
Lemma load_freed (m : mem) b o : nth_error m b = Some [] -> load m b o = Err EOob.
Proof. intro Hm. unfold load. rewrite Hm. destruct (o <? 0); [reflexivity|]. destruct (Z.to_nat o); reflexivity. Qed.
Lemma memset_ok (m : mem) bd od c n (dblk : block) : nth_error m bd = Some dblk -> 0 <= n -> 0 <= od ->
  od + n <= Z.of_nat (length dblk) ->
  do_builtin_m BMemset [VPtr bd od; VInt c; VInt n] m
  = Ok (VPtr bd od, upd m bd (put_cells dblk (Z.to_nat od) (repeat (VInt (wrap U8 c)) (Z.to_nat n)))).
Proof.
  intros Hd Hn Hod Hl. cbn [do_builtin_m]. destruct (Z.ltb_spec n 0); [lia|].
  rewrite (write_cells_ok m bd dblk); [reflexivity|exact Hd|exact Hod|]. rewrite repeat_length. lia.
Qed.
Lemma put_cells_0 {A} (l vs : list A) : put_cells l 0 vs = vs ++ skipn (length vs) l.
Proof. reflexivity. Qed.
Lemma put_cells_app {A} (pre rest vs : list A) : (length vs <= length rest)%nat ->
  put_cells (pre ++ rest) (length pre) vs = (pre ++ vs) ++ skipn (length vs) rest.
Proof.
  intro H. unfold put_cells. rewrite firstn_app, Nat.sub_diag, firstn_all. cbn [firstn]. rewrite app_nil_r, <- app_assoc.
  f_equal. f_equal. rewrite skipn_app, skipn_all2 by lia. replace (length pre + length vs - length pre)%nat with (length vs) by lia. reflexivity.
Qed.

(* ---- switch: the segment control jumps to, fall-through, break *)
Definition sw_has (z : Z) (segs : list (list (option Z) * stmt)) : bool :=
  existsb (fun seg => existsb (fun l => match l with Some k => k =? z | None => false end) (fst seg)) segs.
Definition sw_hit (has : bool) (z : Z) (labs : list (option Z)) : bool :=
  existsb (fun l => match l with Some k => has && (k =? z) | None => negb has end) labs.
Fixpoint sw_run (call : nat -> list val -> mem -> res (val * mem)) (f : nat) (has : bool) (z : Z)
    (l : list (list (option Z) * stmt)) (started : bool) (st : state) : outcome :=
  match l with
  | [] => ONormal st
  | (labs, s0) :: r =>
      if started || sw_hit has z labs then
        match exec call f s0 st with
        | ONormal st2 => sw_run call f has z r true st2
        | OBreak st2 => ONormal st2
        | o => o
        end
      else sw_run call f has z r false st
  end.
Lemma sw_run_eq call f (go : stmt -> state -> outcome) has z : (forall s st, go s st = exec call f s st) ->
  forall l started st,
  (fix run (l : list (list (option Z) * stmt)) (started : bool) (st : state) {struct l} : outcome :=
     match l with
     | [] => ONormal st
     | (labs, s0) :: r =>
         if started || existsb (fun l => match l with Some k => has && (k =? z) | None => negb has end) labs then
           match go s0 st with
           | ONormal st2 => run r true st2
           | OBreak st2 => ONormal st2
           | o => o
           end
         else run r false st
     end) l started st = sw_run call f has z l started st.
Proof.
  intro G. induction l as [|[labs s0] r IH]; intros started st; [reflexivity|].
  cbn [sw_run]. unfold sw_hit. destruct (started || existsb _ labs); [|apply IH].
  rewrite G. destruct (exec call f s0 st); try reflexivity. apply IH.
Qed.
Lemma exec_switch call f e segs st :
  exec call f (SSwitch e segs) st =
  match eval call e st with
  | Ok (v, st1) => match as_int v with Ok z => sw_run call f (sw_has z segs) z segs false st1 | Err x => OErr x end
  | Err x => OErr x
  end.
Proof.
  destruct f; cbn [exec]; (destruct (eval call e st) as [[v st1]|x]; [|reflexivity]); (destruct (as_int v) as [z|x]; [|reflexivity]);
  apply sw_run_eq; intros; reflexivity.
Qed.
