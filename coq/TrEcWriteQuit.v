(* TrEcWriteQuit.v -- wq / x: ec_quit (TrQuit.v, stated relative to an oracle for ec_write) linked with the translated ec_write: when the
   oracle's answer on the one call ec_quit makes IS the run of the translated ec_write and that run reports failure, ec_quit returns 1 and
   leaves the memory ec_write left -- xquit is not stored, the scan of the buffers is not started. *)
From Coq Require Import List ZArith NArith Bool Lia.
From NV Require Import Bytes CLite CLiteProps GenCFuncs CLiteTac CLiteExt TrBufs TrQuit.
Import ListNotations.
Local Open Scope Z_scope.

Theorem tr_ec_quit_write_linked ext m cb cmd loc arg txt r mw d fuel D : str_at m cb cmd -> nonul cmd -> ptr_val arg -> is_wx cmd = true ->
  ext X_ec_write [VPtr G_lit__0 0; VPtr cb 0; arg; VInt 0] m = callx ext cprog fuel D F_ec_write [VPtr G_lit__0 0; VPtr cb 0; arg; VInt 0] m ->
  callx ext cprog fuel D F_ec_write [VPtr G_lit__0 0; VPtr cb 0; arg; VInt 0] m = Ok (VInt r, mw) -> r <> 0 ->
  callx ext cprog fuel (S (S (S (S d)))) F_ec_quit [loc; VPtr cb 0; arg; txt] m = Ok (VInt 1, mw).
Proof.
  intros Hcmd Ncmd Harg Hwx Hlink Hrun Hr. apply (tr_ec_quit_write_fails ext m cb cmd loc arg txt r mw d fuel Hcmd Ncmd Harg Hwx); [|exact Hr].
  rewrite Hlink. exact Hrun.
Qed.
