(* TrDrawFix.v -- C19: vi_drawfix(r1, r2, n, 0) of vi.c on the translated C text, relative to the terminal kernel of TrDrawBase.v: the
   calls it makes (term_record, term_pos, term_room, the two runs of vi_drawrow, term_commit) for all r1 / r2 / n >= 0 / tops / heights. *)
From Coq Require Import List ZArith NArith Bool Lia ZifyBool.
From NV Require Import Bytes CLite CLiteProps GenCFuncs CLiteTac CLiteExt TrLbufBase DrawWinDefs DrawWinProps TrDrawBase TrDrawWin TrDrawRow.
Import ListNotations.
Local Open Scope Z_scope.

Fixpoint seq_tl (k : nat) (s : stmt) : stmt := match k with O => s | S k' => match s with SSeq _ b => seq_tl k' b | _ => SSkip end end.
Definition seq_hd (s : stmt) : stmt := match s with SSeq a _ => a | _ => s end.
Definition fx_ifdis : stmt := seq_hd (seq_tl 8 (fn_body cf_vi_drawfix)).
Definition fx_loopA : stmt := match fx_ifdis with SIf _ (SSeq _ (SSeq (SSeq _ l) _)) _ => l | _ => SSkip end.
Definition fx_loopB : stmt := match seq_hd (seq_tl 9 (fn_body cf_vi_drawfix)) with SSeq _ l => l | _ => SSkip end.

(* for (i = a; i < a + cnt; i++) if (i < lim) vi_drawrow(i) *)
Fixpoint gd_evs (evs_of : Z -> list tev) (lim a : Z) (cnt : nat) : list tev :=
  match cnt with O => [] | S c => (if a <? lim then evs_of a else []) ++ gd_evs evs_of lim (a + 1) c end.

Definition fix_evs (evs_of : Z -> list tev) (h xtop r1 r2 n : Z) : list tev :=
  let dis := n - (r2 - r1 + 1) in
  let n1 := if r1 <? xtop then Z.max 0 (n - (xtop - r1)) else n in
  let r1c := Z.min (Z.max r1 xtop) (xtop + h - 1) in
  let r2c := Z.min (Z.max r2 xtop) (xtop + h - 1) in
  [TRecord; TPos (r1c - xtop) 0; TRoom (r1c - r2c - 1 + n1)] ++
  (if (dis <? 0) && (r1c + n1 <? xtop + h) then range_evs evs_of (r1c + n1) (Z.to_nat (xtop + h - (r1c + n1))) else []) ++
  gd_evs evs_of (r1c + n1) r1c (Z.to_nat (xtop + h - r1c)) ++ [TCommit].

Section Fix.
  Variable ext : nat -> list val -> mem -> res (val * mem).
  Variables (kl : nat) (h cols hl : Z).
  Hypothesis Hk : kernel_ok ext kl h cols hl.
  Variables (v : vst) (bl bln : nat) (lbs : list nat) (lines : list bytes) (ft : bytes) (d fuel : nat).
  Hypothesis Hv : v_ok v.
  Variable m : mem.
  Hypothesis Hm : draw_mem m kl v bl bln lbs lines ft.
  Hypothesis Hh : 1 <= h.
  Hypothesis Ht : 0 <= v_xtop v.
  Hypothesis Hth : v_xtop v + h <= 2147483647.
  Notation evs_of := (drawrow_evs lines ft (v_xtop v) (v_xrow v) (v_xleft v) (v_xhll v) (v_xhl v) hl).
  Notation call := (callx ext cprog fuel (S (S (S d)))).
  Notation dcall := (drawrow_call ext kl h cols hl Hk v bl bln lbs lines ft d fuel Hv m Hm).

  Lemma fx_loopA_ok l0 l1 l2 l3 l4 : forall cnt i lg fuel', i = v_xtop v + h - Z.of_nat cnt -> v_xtop v <= i -> (cnt < fuel')%nat ->
    exec call fuel' fx_loopA (mkst [l0; l1; l2; l3; l4; VInt i] (mlog m kl lg)) =
    ONormal (mkst [l0; l1; l2; l3; l4; VInt (v_xtop v + h)] (mlog m kl (lg ++ range_evs evs_of i cnt))).
  Proof.
    pose proof Hv as (V1 & V2 & V3 & V4 & V5 & V6).
    induction cnt as [|c IH]; intros i lg fuel' Ei Hi Hf; (destruct fuel' as [|fuel']; [lia|]);
      pose proof (draw_mem_mlog _ _ _ _ _ _ _ _ lg Hm) as [H1 H2 H3 H4 H5 H6 Hb _ _ _ _ _ _];
      unfold fx_loopA, fx_ifdis; cbn [seq_tl seq_hd fn_body cf_vi_drawfix]; rewrite exec_for; xauto Hk.
    - destruct (Z.ltb_spec i (v_xtop v + h)); [lia|]. xstep. cbn [range_evs]. rewrite app_nil_r. repeat f_equal. lia.
    - destruct (Z.ltb_spec i (v_xtop v + h)); [|lia]. xstep.
      specialize (IH (i + 1)). unfold fx_loopA, fx_ifdis in IH; cbn [seq_tl seq_hd fn_body cf_vi_drawfix] in IH. cbn [range_evs].
      rewrite dcall by (unfold i32b in *; lia). xauto Hk. rewrite IH by lia. rewrite <- app_assoc. reflexivity.
  Qed.
  Lemma fx_loopB_ok r1c l1 n1 l3 l4 : i32b (r1c + n1) -> forall cnt i lg fuel', i = v_xtop v + h - Z.of_nat cnt -> v_xtop v <= i -> (cnt < fuel')%nat ->
    exec call fuel' fx_loopB (mkst [VInt r1c; l1; VInt n1; l3; l4; VInt i] (mlog m kl lg)) =
    ONormal (mkst [VInt r1c; l1; VInt n1; l3; l4; VInt (v_xtop v + h)] (mlog m kl (lg ++ gd_evs evs_of (r1c + n1) i cnt))).
  Proof.
    intro Hrn. pose proof Hv as (V1 & V2 & V3 & V4 & V5 & V6).
    induction cnt as [|c IH]; intros i lg fuel' Ei Hi Hf; (destruct fuel' as [|fuel']; [lia|]);
      pose proof (draw_mem_mlog _ _ _ _ _ _ _ _ lg Hm) as [H1 H2 H3 H4 H5 H6 Hb _ _ _ _ _ _];
      unfold fx_loopB; cbn [seq_tl seq_hd fn_body cf_vi_drawfix]; rewrite exec_for; xauto Hk.
    - destruct (Z.ltb_spec i (v_xtop v + h)); [lia|]. xstep. cbn [gd_evs]. rewrite app_nil_r. repeat f_equal. lia.
    - destruct (Z.ltb_spec i (v_xtop v + h)); [|lia]. xauto Hk.
      specialize (IH (i + 1)). unfold fx_loopB in IH; cbn [seq_tl seq_hd fn_body cf_vi_drawfix] in IH. cbn [gd_evs].
      destruct (Z.ltb_spec i (r1c + n1)); xauto Hk.
      + rewrite dcall by (unfold i32b in *; lia). xauto Hk. rewrite IH by lia. rewrite <- app_assoc. reflexivity.
      + rewrite IH by lia. reflexivity.
  Qed.

  Lemma klog_call X e lg : nth_error cprog X = None -> (forall mm, ext X [] mm = klog kl e mm) ->
    callx ext cprog fuel (S (S (S d))) X [] (mlog m kl lg) = Ok (VInt 0, mlog m kl (lg ++ [e])).
  Proof.
    intros Hn He. pose proof (dm_kl _ _ _ _ _ _ _ _ Hm) as Hkl.
    rewrite callx_S, Hn, He, (klog_ok _ _ lg _ (log_at_mlog _ _ _ Hkl)). rewrite mlog_mlog by exact Hkl. reflexivity.
  Qed.

  (* vi_drawfix(r1, r2, n, 0): lines r1..r2 were replaced by n lines *)
  Theorem tr_vi_drawfix lg r1 r2 n : log_at m kl lg -> (Z.to_nat h < fuel)%nat ->
    i32b r1 -> i32b r2 -> 0 <= n -> i32b (r2 - r1) -> i32b (r2 - r1 + 1) -> i32b (n - (r2 - r1 + 1)) -> i32b (v_xtop v - r1) -> i32b (n - (v_xtop v - r1)) ->
    v_xtop v + h + n <= 2147483647 ->
    callx ext cprog fuel (S (S (S (S d)))) F_vi_drawfix [VInt r1; VInt r2; VInt n; VInt 0] m
    = Ok (VUndef, mlog m kl (lg ++ fix_evs evs_of h (v_xtop v) r1 r2 n)).
  Proof.
    intros Hl Hf I1 I2 Hn I3 I4 I5 I6 I7 I8. pose proof Hv as (V1 & V2 & V3 & V4 & V5 & V6). pose proof (dm_kl _ _ _ _ _ _ _ _ Hm) as Hkl.
    rewrite <- (mlog_self _ _ _ Hl) at 1.
    pose proof (draw_mem_mlog _ _ _ _ _ _ _ _ lg Hm) as [H1 H2 H3 H4 H5 H6 Hb _ _ _ _ _ _].
    enterx F_vi_drawfix cf_vi_drawfix. unfold fix_evs. cbv zeta.
    set (dis := n - (r2 - r1 + 1)).
    set (n1 := if r1 <? v_xtop v then Z.max 0 (n - (v_xtop v - r1)) else n).
    set (r1c := Z.min (Z.max r1 (v_xtop v)) (v_xtop v + h - 1)).
    set (r2c := Z.min (Z.max r2 (v_xtop v)) (v_xtop v + h - 1)).
    assert (Hn1 : 0 <= n1 <= n) by (unfold n1; zeq).
    assert (Hr1c : v_xtop v <= r1c <= v_xtop v + h - 1) by (unfold r1c; lia).
    assert (Hr2c : v_xtop v <= r2c <= v_xtop v + h - 1) by (unfold r2c; lia).
    xauto Hk. fold dis.
    match goal with |- context [if r1 <? v_xtop v then ONormal ?A else ONormal ?B] =>
      replace (if r1 <? v_xtop v then ONormal A else ONormal B) with (ONormal (mkst [VInt r1; VInt r2; VInt n1; VInt 0; VInt dis; VUndef] (mlog m kl lg)))
        by (unfold n1; destruct (r1 <? v_xtop v); [do 4 f_equal; f_equal; f_equal; f_equal; zeq|reflexivity]) end.
    xauto Hk.
    match goal with |- context [VInt ?a :: VInt ?b :: VInt n1 :: _] =>
      replace a with r1c by (unfold r1c; destruct (Z.ltb_spec r1 (v_xtop v)); zeq); replace b with r2c by (unfold r2c; destruct (Z.ltb_spec r2 (v_xtop v)); zeq) end.
    rewrite (klog_call X_term_record TRecord lg x_term_record_none (k_record _ _ _ _ _ Hk)). xauto Hk.
    clear H1 H2 H3 H4 H5 H6 Hb. pose proof (draw_mem_mlog _ _ _ _ _ _ _ _ (lg ++ [TRecord]) Hm) as [H1 H2 H3 H4 H5 H6 Hb _ _ _ _ _ _]. xauto Hk.
    rewrite (pos_call ext kl h cols hl Hk v bl bln lbs lines ft d fuel m Hm). xauto Hk.
    rewrite (room_call ext kl h cols hl Hk v bl bln lbs lines ft d fuel m Hm). xauto Hk.
    set (lg3 := ((lg ++ [TRecord]) ++ [TPos (r1c - v_xtop v) 0]) ++ [TRoom (r1c - r2c - 1 + n1)]).
    clear H1 H2 H3 H4 H5 H6 Hb.
    assert (Hst : forall lgx, store (mlog m kl lgx) G_xtop 0 (VInt (v_xtop v)) = Ok (mlog m kl lgx)).
    { intro lgx. pose proof (draw_mem_mlog _ _ _ _ _ _ _ _ lgx Hm) as [_ K2 _ _ _ _ _ _ _ _ _ _ _].
      rewrite (store_cell _ _ _ _ K2). f_equal. apply upd_self. exact K2. }
    assert (Htail : forall l5 lgx, exec call fuel (seq_tl 9 (fn_body cf_vi_drawfix)) (mkst [VInt r1c; VInt r2c; VInt n1; VInt 0; VInt dis; l5] (mlog m kl lgx))
       = ONormal (mkst [VInt r1c; VInt r2c; VInt n1; VInt 0; VInt dis; VInt (v_xtop v + h)]
                       (mlog m kl (lgx ++ gd_evs evs_of (r1c + n1) r1c (Z.to_nat (v_xtop v + h - r1c)) ++ [TCommit])))).
    { intros l5 lgx. cbn [seq_tl fn_body cf_vi_drawfix]. xstep.
      match goal with |- context [exec ?c ?f (SFor ?a ?b ?s) ?st] => change (SFor a b s) with fx_loopB end.
      rewrite (fx_loopB_ok r1c (VInt r2c) n1 (VInt 0) (VInt dis) ltac:(unfold i32b; lia) (Z.to_nat (v_xtop v + h - r1c)) r1c lgx fuel) by lia.
      xstep. rewrite (klog_call X_term_commit TCommit _ x_term_commit_none (k_commit _ _ _ _ _ Hk)). xstep. rewrite <- app_assoc. reflexivity. }
    pose proof (draw_mem_mlog _ _ _ _ _ _ _ _ lg3 Hm) as [H1 H2 H3 H4 H5 H6 Hb _ _ _ _ _ _]. xauto Hk.
    change (seq_tl 9 (fn_body cf_vi_drawfix)) with
      (match fn_body cf_vi_drawfix with SSeq _ (SSeq _ (SSeq _ (SSeq _ (SSeq _ (SSeq _ (SSeq _ (SSeq _ (SSeq _ t)))))))) => t | _ => SSkip end) in Htail.
    cbn [fn_body cf_vi_drawfix] in Htail.
    destruct (Z.ltb_spec dis 0) as [Ld|Ld]; cbn [andb].
    2:{ change (0 =? 0) with true. cbn [negb]. rewrite Htail. unfold lg3. rewrite <- !app_assoc. reflexivity. }
    destruct (Z.ltb_spec (r1c + n1) (v_xtop v + h)) as [Lr|Lr]; cbn [b2z].
    2:{ change (0 =? 0) with true. cbn [negb]. rewrite Htail. unfold lg3. rewrite <- !app_assoc. reflexivity. }
    change (1 =? 0) with false. cbn [negb].
    rewrite Z.add_0_r, Hst. xauto Hk. rewrite Z.add_0_r.
    match goal with |- context [exec ?c ?f (SFor ?a ?b ?s) ?st] => change (SFor a b s) with fx_loopA end.
    rewrite (fx_loopA_ok (VInt r1c) (VInt r2c) (VInt n1) (VInt 0) (VInt dis) (Z.to_nat (v_xtop v + h - (r1c + n1))) (r1c + n1) lg3 fuel) by lia.
    clear H1 H2 H3 H4 H5 H6 Hb.
    pose proof (draw_mem_mlog _ _ _ _ _ _ _ _ (lg3 ++ range_evs evs_of (r1c + n1) (Z.to_nat (v_xtop v + h - (r1c + n1)))) Hm) as [H1 H2 H3 H4 H5 H6 Hb _ _ _ _ _ _].
    xauto Hk. rewrite Z.sub_0_r, Hst. cbn [bind]. rewrite Htail. unfold lg3. rewrite <- !app_assoc. reflexivity.
  Qed.
End Fix.
