(* TermOutDefs.v -- the OUTPUT side of term.c that owns the terminal's scroll region: term_window, term_pos,
   term_kill, term_done, term_init, as the byte strings they write (sprintf("%d") included), and the editor's
   copy of the region (win_beg, win_rows).  The strings are interpreted by the emulator of TermEmu.v; the
   theorems (TermOutProps.v, Properties_C19.v) say when the emulator's region equals the editor's copy.
   Executable; extracted with the emulator (request `reinit` of ocaml/drv_term.ml).  No proofs here. *)
From Coq Require Import List NArith ZArith Bool Arith.
From NV Require Import Bytes TermEmu.
Import ListNotations.

(* sprintf("%d", n) for n >= 0: decimal digits, most significant first *)
Fixpoint dec_aux (fuel n : nat) : list N :=
  match fuel with
  | 0 => []
  | S f => if n <? 10 then [N.of_nat (48 + n)]
           else dec_aux f (n / 10) ++ [N.of_nat (48 + n mod 10)]
  end.
Definition dec (n : nat) : list N := dec_aux (S n) n.

Definition CSI : list N := [27; 91]%N.                     (* "\33[" *)

(* term_window(row, cnt) on a terminal of `rows` rows:
     if (row == 0 && win_rows == rows) term_str("\33[r");
     else { sprintf(cmd, "\33[%d;%dr", win_beg + 1, win_beg + win_rows); term_str(cmd); } *)
Definition term_window_out (rows beg cnt : nat) : list N :=
  if (beg =? 0) && (cnt =? rows) then CSI ++ [114]%N
  else CSI ++ dec (beg + 1) ++ [59]%N ++ dec (beg + cnt) ++ [114]%N.

(* term_pos(r, c) for r >= 0 and c inside the line: sprintf(buf, "\33[%d;%dH", win_beg + r + 1, c + 1) *)
Definition term_pos_out (beg r c : nat) : list N :=
  CSI ++ dec (beg + r + 1) ++ [59]%N ++ dec (c + 1) ++ [72]%N.
Definition term_kill_out : list N := CSI ++ [75]%N.        (* "\33[K" *)
Definition term_sgr0_out : list N := CSI ++ [109]%N.       (* "\33[m" *)
Definition term_region_reset_out : list N := CSI ++ [114]%N.   (* "\33[r" *)

(* the editor's copy of the region: static int win_beg, win_rows *)
Record twin := mkTwin { win_beg : nat; win_rows : nat }.

(* term_window: stores the copy and ALWAYS writes the sequence *)
Definition term_window (rows : nat) (w : twin) (row cnt : nat) : twin * list N :=
  (mkTwin row cnt, term_window_out rows row cnt).
(* the variant that trusts the copy ("the scroll region is already set"): nothing is written when the request
   equals the copy.  This is NOT term.c; it is here because the theorems say exactly where it goes wrong. *)
Definition term_window_cached (rows : nat) (w : twin) (row cnt : nat) : twin * list N :=
  if (row =? win_beg w) && (cnt =? win_rows w) then (w, []) else term_window rows w row cnt.

(* term_done: term_str("\33[r"); term_pos(rows - 1, 0); term_kill(); -- the copy is NOT touched *)
Definition term_done (rows : nat) (w : twin) : list N :=
  term_region_reset_out ++ term_pos_out (win_beg w) (rows - 1) 0 ++ term_kill_out.
(* term_init: term_str("\33[m"); term_window(win_beg, win_rows > 0 ? win_rows : rows);
   parametrised by the term_window it calls *)
Definition term_init_with (tw : nat -> twin -> nat -> nat -> twin * list N) (rows : nat) (w : twin) : twin * list N :=
  let '(w', o) := tw rows w (win_beg w) (if 0 <? win_rows w then win_rows w else rows) in
  (w', term_sgr0_out ++ o).
Definition term_init := term_init_with term_window.
Definition term_init_cached := term_init_with term_window_cached.

(* what ^L (vi.c: term_done(); term_init();) and cmd_pipe() around a child that owns the terminal write *)
Definition reinit_out (cached : bool) (rows : nat) (w : twin) : twin * list N :=
  let '(w', o) := (if cached then term_init_cached else term_init) rows w in
  (w', term_done rows w ++ o).

(* the emulator's region equals the editor's copy *)
Definition region_agrees (t : term) (w : twin) : bool :=
  (t_top t =? win_beg w) && (t_bot t =? win_beg w + win_rows w).

(* vi_nextline() on the bottom row of the window: term_chr('\n'); term_pos(++xrow - ++xtop, 0) -- the row
   number sent is the same bottom row h - 1 *)
Definition nextline_bottom_out (w : twin) : list N := [10]%N ++ term_pos_out (win_beg w) (win_rows w - 1) 0.
