(* TrRegexComp.v -- the COMPILER side of /repo/regex.c on the translated C text (tools/c2clite.d/72_regex_comp.list), part 1:
   the representation of the parse tree in memory and the leaf functions of the compiler
     rnode_make, rnode_free, ratom_copy, ratom_readbrk, ratom_read.
   struct rnode = 8 cells (ra.ra, ra.s, c1, c2, mincnt, maxcnt, grp, rn) as tools/c2clite.py lays structs out; an atom's string is
   a C string in a malloc'd block of its own.
   tree_in m t lo hi p: the pointer p is the tree t of the model (ReSyntax.node), built out of the blocks lo .. hi-1 of m in
   the order in which the parser allocates them, and EVERY other block of that range is freed (empty): the description is
   exact, so that "rnode_free leaves the whole range freed" and "a rejected pattern leaves nothing allocated" can be stated.
   Every theorem is an equation callf ... = Ok ...: every load / store / memcpy / free the C text makes is inside a live
   block (an access outside is Err EOob in CLite), no int operation overflows, no fuel runs out. *)
From Coq Require Import List ZArith NArith Bool Lia.
From NV Require Import Bytes GenConsts ReSyntax ReParse ReEmit CLite CLiteProps GenCFuncs CLiteTac CLiteExt TrRegex TrRegexAtom.
From NV Require ReProps11.
Import ListNotations.
Local Open Scope Z_scope.

(* ------------------------------------------------------------------ call depth: more depth never hurts *)
Lemma callf_depth_S prog fuel : forall d f args m r, callf prog fuel d f args m = Ok r -> callf prog fuel (S d) f args m = Ok r.
Proof.
  induction d as [|d IH]; intros f args m r H; [discriminate H|].
  rewrite callf_S in H. rewrite callf_S. destruct (nth_error prog f) as [fn|]; [|discriminate H].
  destruct (Nat.eqb (length args) (fn_nparams fn)); [|discriminate H].
  destruct (exec (callf prog fuel d) fuel (fn_body fn) (mkst (args ++ repeat VUndef (fn_nlocals fn - fn_nparams fn)) m)) eqn:E;
    try discriminate H; rewrite (exec_mono _ _ IH _ _ _ _ E I); exact H.
Qed.
Lemma callf_depth_le prog fuel d d' f args m r : (d <= d')%nat -> callf prog fuel d f args m = Ok r -> callf prog fuel d' f args m = Ok r.
Proof. intros L H. induction L as [|d' L IH]; [exact H|]. apply callf_depth_S. exact IH. Qed.

(* ------------------------------------------------------------------ memory bookkeeping *)
Ltac mlen := repeat first [rewrite upd_length by mlen | rewrite app_length]; cbn [length]; lia.
Ltac mnth := repeat first [ rewrite mem_upd_same by mlen | rewrite mem_upd_other by (first [mlen | lia | congruence])
                          | rewrite nth_error_app_new | rewrite nth_error_app_old by mlen ].

Lemma upd_cons_0 {A} (a : A) l v : upd (a :: l) 0 v = v :: l.
Proof. reflexivity. Qed.
Lemma upd_cons_S {A} (a : A) l n v : upd (a :: l) (S n) v = a :: upd l n v.
Proof. reflexivity. Qed.
Lemma nth_lt {A} (m : list A) b x : nth_error m b = Some x -> (b < length m)%nat.
Proof. intro H. apply nth_error_Some. congruence. Qed.

(* a closed offset 0 + 1 * k *)
Ltac has_var z := match z with context [?x] => is_var x end.
Ltac zclosed :=
  repeat match goal with
         | |- context [Z.to_nat ?o] => tryif has_var o then fail else
             (let n := eval vm_compute in (Z.to_nat o) in progress change (Z.to_nat o) with n)
         end.
(* load / store of one cell of a block whose cells are known *)
Ltac xld H :=
  match type of H with
  | nth_error ?m ?b = Some ?blk =>
      match goal with |- context [load m b ?o] => rewrite (load_cell m b blk o _ H eq_refl ltac:(lia)) end
  end.
Ltac xst H := rewrite (store_ok _ _ _ _ _ H) by (cbn [length]; lia); zclosed; rewrite ?upd_cons_S, ?upd_cons_0.
Ltac xclosed :=
  repeat match goal with
         | |- context [chk ?t ?z] =>
             tryif has_var z then fail else
             (let v := eval vm_compute in (chk t z) in
              match v with Ok _ => change (chk t z) with v end)
         | |- context [if ?a =? 0 then Err EDivZero else ?x] =>
             tryif has_var a then fail else
             (let v := eval vm_compute in (a =? 0) in
              match v with false => change (if a =? 0 then Err EDivZero else x) with x end)
         | |- context [wrap ?t ?z] =>
             tryif has_var z then fail else
             (let v := eval vm_compute in (wrap t z) in progress change (wrap t z) with v)
         | |- context [Z.quot ?a ?b] =>
             tryif has_var a then fail else tryif has_var b then fail else
             (let v := eval vm_compute in (Z.quot a b) in progress change (Z.quot a b) with v)
         end.
Ltac xs := repeat (progress (xstep; xclosed)).

(* freed blocks *)
Definition dead (m : mem) (lo hi : nat) : Prop := forall i, (lo <= i < hi)%nat -> nth_error m i = Some [].
Lemma dead_empty m lo hi : (hi <= lo)%nat -> dead m lo hi.
Proof. intros H i Hi. lia. Qed.
Lemma dead_app m lo k hi : dead m lo k -> dead m k hi -> dead m lo hi.
Proof. intros A B i Hi. destruct (Nat.lt_ge_cases i k); [apply A|apply B]; lia. Qed.
Lemma dead_sub m lo hi lo' hi' : dead m lo hi -> (lo <= lo')%nat -> (hi' <= hi)%nat -> dead m lo' hi'.
Proof. intros A B C i Hi. apply A. lia. Qed.
Lemma dead_same m m' lo hi : dead m lo hi -> (forall i, (lo <= i < hi)%nat -> nth_error m' i = nth_error m i) -> dead m' lo hi.
Proof. intros A B i Hi. rewrite B by exact Hi. apply A. exact Hi. Qed.
Lemma dead_one m b : nth_error m b = Some [] -> dead m b (S b).
Proof. intros H i Hi. assert (i = b) as -> by lia. exact H. Qed.

(* ------------------------------------------------------------------ struct rnode and the tree in memory *)
Definition node_cells (ra : Z) (s c1 c2 : val) (mn mx grp rn : Z) : block :=
  [VInt ra; s; c1; c2; VInt mn; VInt mx; VInt grp; VInt rn].
Definition i32 (z : Z) : Prop := -2147483648 <= z <= 2147483647.

Fixpoint tree_in (m : mem) (t : node) (lo hi : nat) (p : val) : Prop :=
  match t with
  | NNil => p = VInt 0 /\ (lo <= hi)%nat /\ dead m lo hi
  | NAtom a mn mx =>
      p = VPtr lo 0 /\ i32 mn /\ i32 mx /\
      match ra_str a with
      | Some s => nth_error m lo = Some (node_cells (ra_code a) (VPtr (S lo) 0) (VInt 0) (VInt 0) mn mx 0 0) /\
                  (S lo < hi)%nat /\ str_at m (S lo) s /\ dead m (S (S lo)) hi
      | None => nth_error m lo = Some (node_cells (ra_code a) (VInt 0) (VInt 0) (VInt 0) mn mx 0 0) /\
                (lo < hi)%nat /\ dead m (S lo) hi
      end
  | NGrp x g mn mx =>
      exists b px, p = VPtr b 0 /\ i32 mn /\ i32 mx /\ Z.of_nat g <= 2147483647 /\ tree_in m x lo b px /\ (b < hi)%nat /\
        nth_error m b = Some (node_cells 0 (VInt 0) px (VInt 0) mn mx (Z.of_nat g) 40) /\ dead m (S b) hi
  | NCat x y =>
      exists k b px py, p = VPtr b 0 /\ tree_in m x lo k px /\ tree_in m y k b py /\ (b < hi)%nat /\
        nth_error m b = Some (node_cells 0 (VInt 0) px py 1 1 0 99) /\ dead m (S b) hi
  | NAlt x y =>
      exists k b px py, p = VPtr b 0 /\ tree_in m x lo k px /\ tree_in m y k b py /\ (b < hi)%nat /\
        nth_error m b = Some (node_cells 0 (VInt 0) px py 1 1 0 124) /\ dead m (S b) hi
  end.

Lemma tree_in_le m t : forall lo hi p, tree_in m t lo hi p -> (lo <= hi)%nat.
Proof.
  induction t as [|a mn mx|x IHx g mn mx|x IHx y IHy|x IHx y IHy]; intros lo hi p H; cbn [tree_in] in H.
  - apply H.
  - destruct H as [_ [_ [_ H]]]. destruct (ra_str a); destruct H as [_ [H _]]; lia.
  - destruct H as [b [px [_ [_ [_ [_ [Hx [Hb _]]]]]]]]. specialize (IHx _ _ _ Hx). lia.
  - destruct H as [k [b [px [py [_ [Hx [Hy [Hb _]]]]]]]]. specialize (IHx _ _ _ Hx). specialize (IHy _ _ _ Hy). lia.
  - destruct H as [k [b [px [py [_ [Hx [Hy [Hb _]]]]]]]]. specialize (IHx _ _ _ Hx). specialize (IHy _ _ _ Hy). lia.
Qed.
(* the tree only depends on the blocks of its range *)
Lemma tree_in_same m m' t : forall lo hi p, tree_in m t lo hi p ->
  (forall i, (lo <= i < hi)%nat -> nth_error m' i = nth_error m i) -> tree_in m' t lo hi p.
Proof.
  induction t as [|a mn mx|x IHx g mn mx|x IHx y IHy|x IHx y IHy]; intros lo hi p H S; cbn [tree_in] in *.
  - destruct H as [A [B C]]. split; [exact A|]. split; [exact B|]. apply (dead_same m); assumption.
  - destruct H as [A [B [C H]]]. split; [exact A|]. split; [exact B|]. split; [exact C|].
    destruct (ra_str a) as [s|].
    + destruct H as [H1 [H2 [H3 H4]]]. split; [rewrite S by lia; exact H1|]. split; [exact H2|].
      split; [unfold str_at in *; rewrite S by lia; exact H3|]. apply (dead_same m); [exact H4|]. intros i Hi. apply S. lia.
    + destruct H as [H1 [H2 H3]]. split; [rewrite S by lia; exact H1|]. split; [exact H2|].
      apply (dead_same m); [exact H3|]. intros i Hi. apply S. lia.
  - destruct H as [b [px [A [B [C [D [Hx [Hb [Hn Hd]]]]]]]]]. pose proof (tree_in_le _ _ _ _ _ Hx) as L.
    exists b, px. repeat (split; [assumption|]). split; [apply IHx; [exact Hx|intros i Hi; apply S; lia]|].
    split; [exact Hb|]. split; [rewrite S by lia; exact Hn|]. apply (dead_same m); [exact Hd|]. intros i Hi. apply S. lia.
  - destruct H as [k [b [px [py [A [Hx [Hy [Hb [Hn Hd]]]]]]]]].
    pose proof (tree_in_le _ _ _ _ _ Hx) as L1. pose proof (tree_in_le _ _ _ _ _ Hy) as L2.
    exists k, b, px, py. split; [exact A|]. split; [apply IHx; [exact Hx|intros i Hi; apply S; lia]|].
    split; [apply IHy; [exact Hy|intros i Hi; apply S; lia]|].
    split; [exact Hb|]. split; [rewrite S by lia; exact Hn|]. apply (dead_same m); [exact Hd|]. intros i Hi. apply S. lia.
  - destruct H as [k [b [px [py [A [Hx [Hy [Hb [Hn Hd]]]]]]]]].
    pose proof (tree_in_le _ _ _ _ _ Hx) as L1. pose proof (tree_in_le _ _ _ _ _ Hy) as L2.
    exists k, b, px, py. split; [exact A|]. split; [apply IHx; [exact Hx|intros i Hi; apply S; lia]|].
    split; [apply IHy; [exact Hy|intros i Hi; apply S; lia]|].
    split; [exact Hb|]. split; [rewrite S by lia; exact Hn|]. apply (dead_same m); [exact Hd|]. intros i Hi. apply S. lia.
Qed.
(* freed blocks behind the tree *)
Lemma tree_in_widen m t lo hi hi' p : tree_in m t lo hi p -> dead m hi hi' -> (hi <= hi')%nat -> tree_in m t lo hi' p.
Proof.
  intros H D L. destruct t as [|a mn mx|x g mn mx|x y|x y]; cbn [tree_in] in *.
  - destruct H as [A [B C]]. split; [exact A|]. split; [lia|]. apply (dead_app m lo hi); assumption.
  - destruct H as [A [B [C H]]]. split; [exact A|]. split; [exact B|]. split; [exact C|]. destruct (ra_str a) as [s|].
    + destruct H as [H1 [H2 [H3 H4]]]. split; [exact H1|]. split; [lia|]. split; [exact H3|]. apply (dead_app m _ hi); assumption.
    + destruct H as [H1 [H2 H3]]. split; [exact H1|]. split; [lia|]. apply (dead_app m _ hi); assumption.
  - destruct H as [b [px [A [B [C [E [Hx [Hb [Hn Hd]]]]]]]]]. exists b, px. repeat (split; [assumption|]). split; [lia|].
    split; [exact Hn|]. apply (dead_app m _ hi); assumption.
  - destruct H as [k [b [px [py [A [Hx [Hy [Hb [Hn Hd]]]]]]]]]. exists k, b, px, py. repeat (split; [assumption|]). split; [lia|].
    split; [exact Hn|]. apply (dead_app m _ hi); assumption.
  - destruct H as [k [b [px [py [A [Hx [Hy [Hb [Hn Hd]]]]]]]]]. exists k, b, px, py. repeat (split; [assumption|]). split; [lia|].
    split; [exact Hn|]. apply (dead_app m _ hi); assumption.
Qed.
(* a pointer to a tree is NULL or the start of a block *)
Definition ptr0 (v : val) : Prop := match v with VPtr _ 0 => True | VInt 0 => True | _ => False end.
Lemma tree_in_ptr0 m t lo hi p : tree_in m t lo hi p -> ptr0 p.
Proof.
  destruct t; cbn [tree_in]; intro H.
  - destruct H as [-> _]. exact I.
  - destruct H as [-> _]. exact I.
  - destruct H as [b [px [-> _]]]. exact I.
  - destruct H as [k [b [px [py [-> _]]]]]. exact I.
  - destruct H as [k [b [px [py [-> _]]]]]. exact I.
Qed.
Lemma tree_in_null m t lo hi : tree_in m t lo hi (VInt 0) -> t = NNil.
Proof.
  destruct t; cbn [tree_in]; intro H; [reflexivity| | | |].
  - destruct H as [H _]. discriminate.
  - destruct H as [b [px [H _]]]. discriminate.
  - destruct H as [k [b [px [py [H _]]]]]. discriminate.
  - destruct H as [k [b [px [py [H _]]]]]. discriminate.
Qed.

(* ------------------------------------------------------------------ rnode_make *)
Theorem tr_rnode_make m rn c1 c2 d fuel : i32 rn -> ptr0 c1 -> ptr0 c2 ->
  callf cprog fuel (S d) F_rnode_make [VInt rn; c1; c2] m
  = Ok (VPtr (length m) 0, m ++ [node_cells 0 (VInt 0) c1 c2 1 1 0 rn]).
Proof.
  intros Hrn H1 H2. enter F_rnode_make cf_rnode_make. xs.
  rewrite malloc_ok by lia. xs.
  rewrite (memset_ok _ (length m) 0 0 8 (repeat VUndef (Z.to_nat 8))) by (try apply nth_error_app_new; rewrite ?repeat_length; lia).
  xs. rewrite upd_app_new.
  change (put_cells (repeat VUndef (Z.to_nat 8)) (Z.to_nat 0) (repeat (VInt 0) (Z.to_nat 8)))
    with [VInt 0; VInt 0; VInt 0; VInt 0; VInt 0; VInt 0; VInt 0; VInt 0].
  xst (nth_error_app_new m [VInt 0; VInt 0; VInt 0; VInt 0; VInt 0; VInt 0; VInt 0; VInt 0]). xs. rewrite upd_app_new.
  rewrite (wrap_I32_id rn Hrn).
  destruct c1 as [|z1|b1 o1]; try destruct H1; [destruct z1; try destruct H1|destruct o1; try destruct H1];
  (destruct c2 as [|z2|b2 o2]; try destruct H2; [destruct z2; try destruct H2|destruct o2; try destruct H2]); xs;
  repeat (match goal with |- context [store (?mm ++ [?blk]) (length ?mm) _ _] => xst (nth_error_app_new mm blk); xs; rewrite upd_app_new end);
  reflexivity.
Qed.

(* ------------------------------------------------------------------ rnode_free *)
Fixpoint height (t : node) : nat :=
  match t with
  | NNil => 0%nat
  | NAtom _ _ _ => 1%nat
  | NGrp x _ _ _ => S (height x)
  | NCat x y | NAlt x y => S (Nat.max (height x) (height y))
  end.
(* the range is freed, nothing else changes *)
Definition freed (m m' : mem) (lo hi : nat) : Prop :=
  dead m' lo hi /\ length m' = length m /\ forall b, (b < lo \/ hi <= b)%nat -> nth_error m' b = nth_error m b.
Definition free_spec (fuel : nat) (t : node) : Prop := forall m lo hi p d, tree_in m t lo hi p -> t <> NNil -> (height t <= d)%nat ->
  exists m', callf cprog fuel d F_rnode_free [p] m = Ok (VUndef, m') /\ freed m m' lo hi.

Lemma cstr_block_ne s : cstr_block s <> [].
Proof. unfold cstr_block. intro E. apply app_eq_nil in E. destruct E; discriminate. Qed.

Lemma free_child fuel x m lo k px d : free_spec fuel x -> tree_in m x lo k px -> (height x <= d)%nat ->
  exists m1, freed m m1 lo k /\
    ((px = VInt 0 /\ m1 = m) \/ (exists b, px = VPtr b 0) /\ callf cprog fuel d F_rnode_free [px] m = Ok (VUndef, m1)).
Proof.
  intros IH Hx Hd. pose proof (tree_in_ptr0 _ _ _ _ _ Hx) as P.
  destruct px as [|z|b o]; [destruct P|destruct z; try destruct P|destruct o; try destruct P].
  - exists m. pose proof (tree_in_null _ _ _ _ Hx) as ->. cbn [tree_in] in Hx. destruct Hx as [_ [L D]].
    split; [|left; auto]. split; [exact D|]. split; reflexivity.
  - assert (x <> NNil) as Hne by (intros ->; cbn [tree_in] in Hx; destruct Hx as [E _]; discriminate).
    destruct (IH m lo k _ d Hx Hne Hd) as [m1 [C F]]. exists m1. split; [exact F|]. right. split; [exists b; reflexivity|exact C].
Qed.

(* the two frees at the end of rnode_free: the atom's string (or NULL) and the node itself *)
Definition free_tl : stmt :=
  SSeq (SExpr (EBuiltin BFree [(ELoad None (EPtrAdd 1 (ELocal 0) (EConst 1)))])) (SExpr (EBuiltin BFree [(ELocal 0)])).
Lemma free_tail call fuel (m : mem) b c0 sv c2 c3 c4 c5 c6 c7 :
  nth_error m b = Some [c0; sv; c2; c3; c4; c5; c6; c7] ->
  (sv = VInt 0 \/ exists bs blk, sv = VPtr bs 0 /\ bs <> b /\ nth_error m bs = Some blk /\ blk <> []) ->
  exec call fuel free_tl (mkst [VPtr b 0] m)
  = ONormal (mkst [VPtr b 0] (upd (match sv with VPtr bs _ => upd m bs [] | _ => m end) b [])).
Proof.
  intros Hb Hs. unfold free_tl. xs. xld Hb. xs. destruct Hs as [->|[bs [blk [-> [Hne [Hbs Hblk]]]]]].
  - xs. rewrite free_null. xs. rewrite (free_ok m b _ Hb) by discriminate. reflexivity.
  - xs. rewrite (free_ok m bs _ Hbs Hblk). xs.
    rewrite (free_ok (upd m bs []) b [c0; VPtr bs 0; c2; c3; c4; c5; c6; c7]) by (try discriminate; rewrite mem_upd_other by (try congruence; eapply nth_lt; eassumption); exact Hb).
    reflexivity.
Qed.
(* keep the symbolic execution from running into the tail: it becomes a variable *)
Tactic Notation "hold_free_tl" ident(tl) ident(Etl) :=
  change (SSeq (SExpr (EBuiltin BFree [(ELoad None (EPtrAdd 1 (ELocal 0) (EConst 1)))])) (SExpr (EBuiltin BFree [(ELocal 0)]))) with free_tl;
  remember free_tl as tl eqn:Etl.

Theorem tr_rnode_free fuel : forall t, free_spec fuel t.
Proof.
  induction t as [|a mn mx|x IHx g mn mx|x IHx y IHy|x IHx y IHy]; intros m lo hi p d H Hne Hd; [congruence| | | |];
    cbn [tree_in height] in *; (destruct d as [|d]; [lia|]).
  - (* an atom *)
    destruct H as [-> [_ [_ H]]]. enter F_rnode_free cf_rnode_free. hold_free_tl tl Etl.
    destruct (ra_str a) as [s|].
    + destruct H as [Hn [Hl [Hs Hdd]]]. xs. xld Hn. xs. xld Hn. xs. subst tl.
      rewrite (free_tail _ _ m lo _ _ _ _ _ _ _ _ Hn) by (right; exists (S lo), (cstr_block (zb s)); split; [reflexivity|]; split; [lia|]; split; [exact Hs|apply cstr_block_ne]).
      assert (L : (S lo < length m)%nat) by (eapply nth_lt; exact Hs).
      eexists. split; [reflexivity|]. cbn [memm]. split; [|split].
      * intros i Hi. destruct (Nat.eq_dec i lo) as [->|N1]; [mnth; reflexivity|].
        destruct (Nat.eq_dec i (S lo)) as [->|N2]; [mnth; reflexivity|]. mnth. apply Hdd. lia.
      * mlen.
      * intros b0 Hb0. mnth. reflexivity.
    + destruct H as [Hn [Hl Hdd]]. xs. xld Hn. xs. xld Hn. xs. subst tl.
      rewrite (free_tail _ _ m lo _ _ _ _ _ _ _ _ Hn) by (left; reflexivity).
      assert (L : (lo < length m)%nat) by (eapply nth_lt; exact Hn).
      eexists. split; [reflexivity|]. cbn [memm]. split; [|split].
      * intros i Hi. destruct (Nat.eq_dec i lo) as [->|N1]; [mnth; reflexivity|]. mnth. apply Hdd. lia.
      * mlen.
      * intros b0 Hb0. mnth. reflexivity.
  - (* a group *)
    destruct H as [b [px [-> [_ [_ [_ [Hx [Hb [Hn Hdd]]]]]]]]]. pose proof (tree_in_le _ _ _ _ _ Hx) as Lx.
    destruct (free_child fuel x m lo b px d IHx Hx ltac:(lia)) as [m1 [[D1 [L1 F1]] C1]].
    assert (Hn1 : nth_error m1 b = Some (node_cells 0 (VInt 0) px (VInt 0) mn mx (Z.of_nat g) 40)) by (rewrite F1 by lia; exact Hn).
    assert (Lb : (b < length m)%nat) by (eapply nth_lt; exact Hn).
    exists (upd m1 b []). split.
    + enter F_rnode_free cf_rnode_free. hold_free_tl tl Etl. xs. xld Hn.
      destruct C1 as [[-> ->]|[[bx ->] C1]]; xs; [|xld Hn; xs; rewrite C1; xs]; xld Hn1; xs; subst tl;
        rewrite (free_tail _ _ _ b _ _ _ _ _ _ _ _ Hn1) by (left; reflexivity); reflexivity.
    + split; [|split].
      * intros i Hi. destruct (Nat.eq_dec i b) as [->|N1]; [mnth; reflexivity|]. mnth.
        destruct (Nat.lt_ge_cases i b); [apply D1; lia|]. rewrite F1 by lia. apply Hdd. lia.
      * rewrite upd_length by lia. exact L1.
      * intros b0 Hb0. mnth. apply F1. lia.
  - (* a concatenation *)
    destruct H as [k [b [px [py [-> [Hx [Hy [Hb [Hn Hdd]]]]]]]]].
    pose proof (tree_in_le _ _ _ _ _ Hx) as Lx. pose proof (tree_in_le _ _ _ _ _ Hy) as Ly.
    destruct (free_child fuel x m lo k px d IHx Hx ltac:(lia)) as [m1 [[D1 [L1 F1]] C1]].
    assert (Hy1 : tree_in m1 y k b py) by (apply (tree_in_same m); [exact Hy|intros i Hi; apply F1; lia]).
    destruct (free_child fuel y m1 k b py d IHy Hy1 ltac:(lia)) as [m2 [[D2 [L2 F2]] C2]].
    assert (Hn1 : nth_error m1 b = Some (node_cells 0 (VInt 0) px py 1 1 0 99)) by (rewrite F1 by lia; exact Hn).
    assert (Hn2 : nth_error m2 b = Some (node_cells 0 (VInt 0) px py 1 1 0 99)) by (rewrite F2 by lia; exact Hn1).
    assert (Lb : (b < length m)%nat) by (eapply nth_lt; exact Hn).
    exists (upd m2 b []). split.
    + enter F_rnode_free cf_rnode_free. hold_free_tl tl Etl. xs. xld Hn.
      destruct C1 as [[-> ->]|[[bx ->] C1]]; xs; [|xld Hn; xs; rewrite C1; xs]; xld Hn1;
        (destruct C2 as [[-> ->]|[[bz ->] C2]]; xs; [|xld Hn1; xs; rewrite C2; xs]); subst tl;
        rewrite (free_tail _ _ _ b _ _ _ _ _ _ _ _ Hn2) by (left; reflexivity); reflexivity.
    + split; [|split].
      * intros i Hi. destruct (Nat.eq_dec i b) as [->|N1]; [mnth; reflexivity|]. mnth.
        destruct (Nat.lt_ge_cases i k); [rewrite F2 by lia; apply D1; lia|].
        destruct (Nat.lt_ge_cases i b); [apply D2; lia|]. rewrite F2, F1 by lia. apply Hdd. lia.
      * rewrite upd_length by lia. lia.
      * intros b0 Hb0. mnth. rewrite F2, F1 by lia. reflexivity.
  - (* an alternation *)
    destruct H as [k [b [px [py [-> [Hx [Hy [Hb [Hn Hdd]]]]]]]]].
    pose proof (tree_in_le _ _ _ _ _ Hx) as Lx. pose proof (tree_in_le _ _ _ _ _ Hy) as Ly.
    destruct (free_child fuel x m lo k px d IHx Hx ltac:(lia)) as [m1 [[D1 [L1 F1]] C1]].
    assert (Hy1 : tree_in m1 y k b py) by (apply (tree_in_same m); [exact Hy|intros i Hi; apply F1; lia]).
    destruct (free_child fuel y m1 k b py d IHy Hy1 ltac:(lia)) as [m2 [[D2 [L2 F2]] C2]].
    assert (Hn1 : nth_error m1 b = Some (node_cells 0 (VInt 0) px py 1 1 0 124)) by (rewrite F1 by lia; exact Hn).
    assert (Hn2 : nth_error m2 b = Some (node_cells 0 (VInt 0) px py 1 1 0 124)) by (rewrite F2 by lia; exact Hn1).
    assert (Lb : (b < length m)%nat) by (eapply nth_lt; exact Hn).
    exists (upd m2 b []). split.
    + enter F_rnode_free cf_rnode_free. hold_free_tl tl Etl. xs. xld Hn.
      destruct C1 as [[-> ->]|[[bx ->] C1]]; xs; [|xld Hn; xs; rewrite C1; xs]; xld Hn1;
        (destruct C2 as [[-> ->]|[[bz ->] C2]]; xs; [|xld Hn1; xs; rewrite C2; xs]); subst tl;
        rewrite (free_tail _ _ _ b _ _ _ _ _ _ _ _ Hn2) by (left; reflexivity); reflexivity.
    + split; [|split].
      * intros i Hi. destruct (Nat.eq_dec i b) as [->|N1]; [mnth; reflexivity|]. mnth.
        destruct (Nat.lt_ge_cases i k); [rewrite F2 by lia; apply D1; lia|].
        destruct (Nat.lt_ge_cases i b); [apply D2; lia|]. rewrite F2, F1 by lia. apply Hdd. lia.
      * rewrite upd_length by lia. lia.
      * intros b0 Hb0. mnth. rewrite F2, F1 by lia. reflexivity.
Qed.

(* ------------------------------------------------------------------ copying a piece of the pattern into a fresh block *)
Lemma sub_cells (pat : bytes) o n : (o + n <= length pat)%nat ->
  firstn n (skipn o (cstr_block (zb pat))) = map VInt (zb (firstn n (skipn o pat))).
Proof.
  intro H. unfold cstr_block, zb. rewrite skipn_app, !map_length. replace (o - length pat)%nat with 0%nat by lia. cbn [skipn].
  rewrite firstn_app, !skipn_map, !map_length, skipn_length. replace (n - (length pat - o))%nat with 0%nat by lia. cbn [firstn].
  rewrite app_nil_r, !firstn_map. reflexivity.
Qed.
Lemma skipn_repeat_last {A} (x : A) n : skipn n (repeat x (S n)) = [x].
Proof. induction n as [|n IH]; [reflexivity|]. exact IH. Qed.
Lemma copy_sub (m : mem) bl pat bn o n : str_at m bl pat -> (o + n <= length pat)%nat ->
  nth_error m bn = Some (repeat VUndef (S n)) ->
  do_builtin_m BMemcpy [VPtr bn 0; VPtr bl (Z.of_nat o); VInt (Z.of_nat n)] m
  = Ok (VPtr bn 0, upd m bn (map VInt (zb (firstn n (skipn o pat))) ++ [VUndef])).
Proof.
  intros Hs Hn Hb.
  assert (L : length (cstr_block (zb pat)) = S (length pat)) by (unfold cstr_block, zb; rewrite app_length, !map_length; cbn; lia).
  rewrite (memcpy_ok m bn 0 bl (Z.of_nat o) (Z.of_nat n) _ _ Hb Hs) by (rewrite ?repeat_length, ?L; lia).
  rewrite !Nat2Z.id. change (Z.to_nat 0) with 0%nat. rewrite sub_cells by exact Hn. rewrite put_cells_0.
  rewrite map_length. unfold zb at 2. rewrite map_length, firstn_length, skipn_length, Nat.min_l by lia.
  rewrite skipn_repeat_last. reflexivity.
Qed.
Lemma term_sub (m : mem) bn (l : list Z) : nth_error m bn = Some (map VInt l ++ [VUndef]) ->
  store m bn (Z.of_nat (length l)) (VInt 0) = Ok (upd m bn (cstr_block l)).
Proof.
  intro H. rewrite (store_ok m bn _ _ _ H) by (rewrite app_length, map_length; cbn [length]; lia).
  rewrite Nat2Z.id. unfold cstr_block. f_equal. f_equal.
  unfold upd. rewrite firstn_app, map_length, Nat.sub_diag, <- (map_length VInt l), firstn_all. cbn [firstn]. rewrite app_nil_r.
  rewrite skipn_app, skipn_all2 by (rewrite !map_length; lia). rewrite !map_length. replace (S (length l) - length l)%nat with 1%nat by lia. reflexivity.
Qed.

(* the pattern (a C string in block bl) and the caller's `char *pat` (one cell in block bpp) *)
Definition pat_at (m : mem) (bl : nat) (pat : bytes) (bpp : nat) (o : nat) : Prop :=
  str_at m bl pat /\ nth_error m bpp = Some [VPtr bl (Z.of_nat o)] /\ (o <= length pat)%nat.
(* m' differs from m (apart from appended blocks) at most in the blocks l *)
Definition same_but (m m' : mem) (l : list nat) : Prop :=
  forall i, (i < length m)%nat -> ~ In i l -> nth_error m' i = nth_error m i.

Lemma nonul_firstn (s : bytes) n : nonul s -> nonul (firstn n s).
Proof. apply Forall_firstn'. Qed.
Lemma nonul_skipn (s : bytes) n : nonul s -> nonul (skipn n s).
Proof. apply Forall_skipn'. Qed.
Lemma brk_len_in (s : bytes) : s <> [] -> (brk_len s <= length s)%nat.
Proof. intro H. pose proof (ReProps11.brk_len_le s). destruct s; [congruence|]. cbn [length] in *. lia. Qed.

(* ------------------------------------------------------------------ ratom_readbrk *)
(* the atom struct is the first two cells of block b (a struct rnode); the text of the bracket expression, brk_len bytes of the
   pattern, goes into a fresh block; *pat moves behind it *)
Theorem tr_ratom_readbrk (m : mem) b c0 c1 rest bl pat bpp o d fuel :
  nth_error m b = Some (c0 :: c1 :: rest) -> pat_at m bl pat bpp o -> nonul pat -> (o < length pat)%nat ->
  b <> bpp -> b <> bl -> bl <> bpp -> (length pat < fuel)%nat -> Z.of_nat (length pat) < 2147483647 ->
  let n := brk_len (skipn o pat) in
  (o + n <= length pat)%nat /\
  exists m', callf cprog fuel (S (S d)) F_ratom_readbrk [VPtr b 0; VPtr bpp 0] m = Ok (VUndef, m') /\
    length m' = S (length m) /\ same_but m m' [b; bpp] /\
    nth_error m' b = Some (VInt 91 :: VPtr (length m) 0 :: rest) /\
    nth_error m' bpp = Some [VPtr bl (Z.of_nat (o + n))] /\
    nth_error m' (length m) = Some (cstr_block (zb (firstn n (skipn o pat)))).
Proof.
  intros Hb [Hs [Hp Ho]] Hnn Hlt N1 N2 N3 Hf Hmax n.
  assert (Hn : (o + n <= length pat)%nat).
  { unfold n. pose proof (brk_len_in (skipn o pat)) as X. rewrite skipn_length in X.
    assert (skipn o pat <> []) by (intro E; apply (f_equal (@length N)) in E; rewrite skipn_length in E; cbn in E; lia). specialize (X H). lia. }
  split; [exact Hn|].
  assert (Lb : (b < length m)%nat) by (eapply nth_lt; exact Hb).
  assert (Lp : (bpp < length m)%nat) by (eapply nth_lt; exact Hp).
  assert (Ll : (bl < length m)%nat) by (eapply nth_lt; exact Hs).
  enter F_ratom_readbrk cf_ratom_readbrk. xs. xld Hp. xs.
  rewrite (tr_brk_len m bl pat o d fuel Hs Hnn Hlt Hf Hmax). fold n. xs.
  xst Hb. xs. rewrite (chk_I32 (Z.of_nat n + 1)) by lia. xs.
  rewrite wrap_U64_id by lia. rewrite malloc_ok by lia. xs. rewrite upd_length by exact Lb.
  replace (Z.to_nat (Z.of_nat n + 1)) with (S n) by lia.
  set (m1 := upd m b (VInt 91 :: c1 :: rest)).
  assert (Hb1 : nth_error (m1 ++ [repeat VUndef (S n)]) b = Some (VInt 91 :: c1 :: rest)) by (unfold m1; mnth; reflexivity).
  xst Hb1. xs.
  set (m2 := upd (m1 ++ [repeat VUndef (S n)]) b (VInt 91 :: VPtr (length m) 0 :: rest)).
  assert (Hb2 : nth_error m2 b = Some (VInt 91 :: VPtr (length m) 0 :: rest)) by (unfold m2, m1; mnth; reflexivity).
  assert (Hp2 : nth_error m2 bpp = Some [VPtr bl (Z.of_nat o)]) by (unfold m2, m1; mnth; exact Hp).
  assert (Hs2 : str_at m2 bl pat) by (unfold str_at, m2, m1; mnth; exact Hs).
  assert (Hn2 : nth_error m2 (length m) = Some (repeat VUndef (S n))).
  { unfold m2. rewrite mem_upd_other by (unfold m1; mlen). replace (length m) with (length m1) by (unfold m1; mlen). apply nth_error_app_new. }
  xld Hb2. xs. xld Hp2. xs. rewrite wrap_U64_id by lia.
  rewrite (copy_sub m2 bl pat (length m) o n Hs2 Hn Hn2). xs.
  set (sub := zb (firstn n (skipn o pat))).
  set (m3 := upd m2 (length m) (map VInt sub ++ [VUndef])).
  assert (Ls : length sub = n) by (unfold sub, zb; rewrite map_length, firstn_length, skipn_length; lia).
  assert (L2 : length m2 = S (length m)) by (unfold m2, m1; mlen).
  assert (Hb3 : nth_error m3 b = Some (VInt 91 :: VPtr (length m) 0 :: rest)) by (unfold m3; mnth; exact Hb2).
  assert (Hn3 : nth_error m3 (length m) = Some (map VInt sub ++ [VUndef])) by (unfold m3; mnth; reflexivity).
  xld Hb3. xs. replace (0 + 1 * Z.of_nat n) with (Z.of_nat (length sub)) by lia.
  rewrite (term_sub m3 (length m) sub Hn3). xs.
  set (m4 := upd m3 (length m) (cstr_block sub)).
  assert (Hp4 : nth_error m4 bpp = Some [VPtr bl (Z.of_nat o)]) by (unfold m4, m3; mnth; exact Hp2).
  xld Hp4. xs. xst Hp4. xs.
  eexists. split; [reflexivity|]. cbn [memm].
  split; [unfold m4, m3; mlen|]. split.
  { intros i Hi Hin. cbn [In] in Hin. unfold m4, m3, m2, m1. mnth. reflexivity. }
  split; [unfold m4, m3; mnth; exact Hb2|].
  split; [unfold m4, m3; mnth; repeat f_equal; lia|].
  unfold m4, m3. mnth. reflexivity.
Qed.

(* ------------------------------------------------------------------ ratom_read: the literal run of the default case *)
Notation G_meta := G_lit_2e5e245b287c292a3f2b7b5c_12.
Notation G_rep := G_lit_2a3f2b7b_4.
Notation gb_meta := gb_lit_2e5e245b287c292a3f2b7b5c_12.
Notation gb_rep := gb_lit_2a3f2b7b_4.
(* the two string literals of ratom_read are where the translator put them *)
Definition lits_at (m : mem) : Prop := nth_error m G_meta = Some gb_meta /\ nth_error m G_rep = Some gb_rep.
Lemma G_meta_lt : (G_meta < length cglobals)%nat.  Proof. apply Nat.ltb_lt. vm_compute. reflexivity. Qed.
Lemma G_rep_lt : (G_rep < length cglobals)%nat.  Proof. apply Nat.ltb_lt. vm_compute. reflexivity. Qed.
Lemma G_re_bad_lt : (G_re_bad < length cglobals)%nat.  Proof. apply Nat.ltb_lt. vm_compute. reflexivity. Qed.
(* a store into a block that is not a global block keeps the literals *)
Lemma lits_at_upd (m : mem) b blk : lits_at m -> (length cglobals <= b)%nat -> (b < length m)%nat -> lits_at (upd m b blk).
Proof.
  intros [A B] Hg Hb. pose proof G_meta_lt. pose proof G_rep_lt. split; rewrite mem_upd_other by (try exact Hb; lia); assumption.
Qed.
Lemma lits_at_upd2 (m : mem) b blk : lits_at m -> (b <> G_meta /\ b <> G_rep) -> (b < length m)%nat -> lits_at (upd m b blk).
Proof. intros [A B] [N1 N2] Hb. split; rewrite mem_upd_other by (try exact Hb; congruence); assumption. Qed.
Lemma lits_at_same (m m' : mem) l : lits_at m -> same_but m m' l -> (forall i, In i l -> (length cglobals <= i)%nat) -> lits_at m'.
Proof.
  intros [A B] S Hl. pose proof G_meta_lt. pose proof G_rep_lt.
  split; (rewrite S; [assumption|eapply nth_lt; eassumption|intro Hin; specialize (Hl _ Hin); lia]).
Qed.

Definition scan_some (blk : block) (c : N) : bool := match scanc blk (wrap I8 (Z.of_N c)) 0 with Ok (Some _) => true | _ => false end.
Definition scan_err (blk : block) (c : N) : bool := match scanc blk (wrap I8 (Z.of_N c)) 0 with Err _ => true | _ => false end.
Lemma scan_meta_some : forall c, (c < 256)%N -> scan_some gb_meta c = ((c =? 0)%N || memb c re_meta).  Proof. byte_fact. Qed.
Lemma scan_meta_err : forall c, (c < 256)%N -> scan_err gb_meta c = false.  Proof. byte_fact. Qed.
Lemma scan_rep_some : forall c, (c < 256)%N -> scan_some gb_rep c = ((c =? 0)%N || memb c re_rep).  Proof. byte_fact. Qed.
Lemma scan_rep_err : forall c, (c < 256)%N -> scan_err gb_rep c = false.  Proof. byte_fact. Qed.

Lemma strchr_lit (m : mem) g (blk : block) c expected : nth_error m g = Some blk -> scan_some blk c = expected -> scan_err blk c = false ->
  exists v, do_builtin_m BStrchr [VPtr g 0; VInt (Z.of_N c)] m = Ok (v, m) /\ truth v = Ok expected.
Proof.
  intros Hg Hs He. cbn [do_builtin_m do_builtin]. unfold blk_from. rewrite Hg.
  change (0 <? 0) with false. destruct (Z.ltb_spec (Z.of_nat (length blk)) 0) as [L|L]; [lia|]. cbn [orb bind skipn Z.to_nat].
  unfold scan_some in Hs. unfold scan_err in He.
  destruct (scanc blk (wrap I8 (Z.of_N c)) 0) as [[k|]|e]; try discriminate He; cbn [bind]; eexists; (split; [reflexivity|]); subst expected; reflexivity.
Qed.
Lemma strchr_meta (m : mem) c : lits_at m -> (c < 256)%N ->
  exists v, do_builtin_m BStrchr [VPtr G_meta 0; VInt (Z.of_N c)] m = Ok (v, m) /\ truth v = Ok ((c =? 0)%N || memb c re_meta).
Proof. intros [H _] Hc. apply (strchr_lit m G_meta gb_meta c _ H (scan_meta_some c Hc) (scan_meta_err c Hc)). Qed.
Lemma strchr_rep (m : mem) c : lits_at m -> (c < 256)%N ->
  exists v, do_builtin_m BStrchr [VPtr G_rep 0; VInt (Z.of_N c)] m = Ok (v, m) /\ truth v = Ok ((c =? 0)%N || memb c re_rep).
Proof. intros [_ H] Hc. apply (strchr_lit m G_rep gb_rep c _ H (scan_rep_some c Hc) (scan_rep_err c Hc)). Qed.

Definition rr_segs : list (list (option Z) * stmt) := match fn_body cf_ratom_read with SSwitch _ segs => segs | _ => [] end.
Definition rr_default : stmt := match nth_error rr_segs 5 with Some (_, s) => s | None => SSkip end.
Definition rr_loop : stmt := match rr_default with SSeq _ (SSeq _ (SSeq w _)) => w | _ => SSkip end.
Definition rr_after : stmt := match rr_default with SSeq _ (SSeq _ (SSeq _ t)) => t | _ => SSkip end.

Lemma adv_in w (s : bytes) k : (k <= length s)%nat -> adv w s k = ReSyntax.Ok (skipn k s).
Proof. intro H. unfold adv. destruct (Nat.leb_spec k (length s)); [reflexivity|lia]. Qed.

Section ChrLoop.
  Variables (m : mem) (b bpp bl : nat) (pat : bytes) (o0 : nat) (d fuel : nat).
  Hypothesis Hs : str_at m bl pat.
  Hypothesis H256 : bytes_lt256 pat.
  Hypothesis Hp : nth_error m bpp = Some [VPtr bl (Z.of_nat o0)].
  Hypothesis Hl : lits_at m.
  Hypothesis Hf4 : (4 <= fuel)%nat.
  Notation call := (callf cprog fuel (S d)).

  Lemma rr_loop_ok : forall k n first N v3 v4 lf,
    chr_run k first (skipn (o0 + n) pat) n = ReSyntax.Ok N -> first = Nat.eqb n 0 -> (o0 + n <= length pat)%nat -> (k <= lf)%nat ->
    exists v4', exec call lf rr_loop (mkst [VPtr b 0; VPtr bpp 0; VPtr bl (Z.of_nat (o0 + n)); v3; v4] m)
                = ONormal (mkst [VPtr b 0; VPtr bpp 0; VPtr bl (Z.of_nat (o0 + N)); v3; v4'] m) /\
      (o0 + N <= length pat)%nat /\ (n <= N)%nat /\ (first = true -> (0 < N)%nat).
  Proof.
    induction k as [|k IH]; intros n first N v3 v4 lf Hr Hfirst Hn Hk; [discriminate Hr|].
    destruct lf as [|lf]; [lia|]. cbn [chr_run] in Hr. rewrite hd0_skipn in Hr.
    pose proof (nthb_lt256 pat (o0 + n) H256) as Hc. set (c := nthb pat (o0 + n)) in *.
    pose proof (re_uclen_at_in pat (o0 + n) Hn) as Hin. unfold re_uclen_at in Hin. set (l := re_uclen (skipn (o0 + n) pat)) in *.
    assert (Hul : callf cprog fuel (S d) F_re_uc_len [VPtr bl (Z.of_nat (o0 + n))] m = Ok (VInt (Z.of_nat l), m))
      by (exact (tr_re_uc_len m bl pat (o0 + n) d fuel Hs H256 Hn Hf4)).
    unfold rr_loop, rr_default, rr_segs. cbn [fn_body cf_ratom_read nth_error]. rewrite exec_while. xs. xld Hp. xs. cbn [ptr_cmp]. rewrite Nat.eqb_refl. xs.
    destruct (strchr_meta m c Hl Hc) as [vm [Em Tm]].
    destruct (strchr_rep m (nthb pat (o0 + n + l)) Hl (nthb_lt256 _ _ H256)) as [vr [Er Tr]].
    (* the rest of an iteration, once the break test is over: s += uc_len(s) and the loop again *)
    assert (Step : forall N', chr_run k false (skipn (o0 + (n + l)) pat) (n + l) = ReSyntax.Ok N' -> (0 < l)%nat ->
      exists v4',
        match exec call (S lf) (SExpr (ESetLocal 2 (EPtrAdd 1 (ELocal 2) (ECall F_re_uc_len [(ELocal 2)]))))
                (mkst [VPtr b 0; VPtr bpp 0; VPtr bl (Z.of_nat (o0 + n)); v3; VInt (Z.of_nat l)] m) with
        | ONormal st2 | OContinue st2 => exec call lf rr_loop st2
        | OBreak st2 => ONormal st2
        | o => o
        end = ONormal (mkst [VPtr b 0; VPtr bpp 0; VPtr bl (Z.of_nat (o0 + N')); v3; v4'] m) /\
        (o0 + N' <= length pat)%nat /\ (n <= N')%nat /\ (0 < N')%nat).
    { intros N' Hr' Hl0. xs. rewrite Hul. xs.
      replace (Z.of_nat (o0 + n) + 1 * Z.of_nat l) with (Z.of_nat (o0 + (n + l))) by lia.
      destruct (IH (n + l)%nat false N' v3 (VInt (Z.of_nat l)) lf Hr') as [v4' [X [Y [Z0 _]]]];
        [symmetry; apply Nat.eqb_neq; lia|lia|lia|].
      exists v4'. split; [exact X|]. split; [exact Y|]. split; lia. }
    unfold rr_loop, rr_default, rr_segs in Step. cbn [fn_body cf_ratom_read nth_error] in Step.
    destruct (Nat.eqb_spec n 0) as [En|En]; subst first; cbn [orb] in Hr.
    - (* the first character of the literal is always taken *)
      subst n. rewrite !Nat.add_0_r in *. destruct (Z.eqb_spec (Z.of_nat o0) (Z.of_nat o0)) as [_|X]; [|lia]. xs.
      rewrite Hul. xs. xld Hp. xs. cbn [ptr_cmp]. rewrite Nat.eqb_refl. xs.
      destruct (Z.eqb_spec (Z.of_nat o0) (Z.of_nat o0)) as [_|X]; [|lia]. cbn [negb b2z]. xs.
      destruct (Nat.eqb_spec l 0) as [El|El]; [discriminate Hr|].
      rewrite adv_in in Hr by (rewrite skipn_length; lia). cbn [ReSyntax.bind] in Hr. rewrite skipn_skipn in Hr. cbn [Nat.add] in Hr.
      cbn [Nat.add] in Step. destruct (Step N) as [v4' [X [Y [Z0 W]]]]; [exact Hr|lia|].
      exists v4'. split; [exact X|]. split; [exact Y|]. split; [lia|]. intros _. exact W.
    - destruct (Z.eqb_spec (Z.of_nat (o0 + n)) (Z.of_nat o0)) as [X|_]; [lia|]. xs.
      replace (Z.of_nat (o0 + n) + 1 * 0) with (Z.of_nat (o0 + n)) by lia.
      rewrite (load_str m bl pat _ (o0 + n)%nat Hs) by lia. xs. fold c. rewrite (wrap_byte_chain c Hc). rewrite Em. xs. rewrite Tm. xs.
      destruct ((c =? 0)%N || memb c re_meta) eqn:Emeta; cbn [negb] in Hr; xs.
      + (* a metacharacter or the terminator ends the literal *)
        injection Hr as <-. exists v4. split; [reflexivity|]. split; [lia|]. split; [lia|discriminate].
      + rewrite Hul. xs. xld Hp. xs. cbn [ptr_cmp]. rewrite Nat.eqb_refl. xs.
        destruct (Z.eqb_spec (Z.of_nat (o0 + n)) (Z.of_nat o0)) as [X|_]; [lia|]. cbn [negb b2z]. xs.
        rewrite rdk_in in Hr by (rewrite skipn_length; lia). cbn [ReSyntax.bind] in Hr. rewrite nthb_skipn in Hr.
        replace (Z.of_nat (o0 + n) + 1 * Z.of_nat l) with (Z.of_nat (o0 + n + l)) by lia.
        rewrite (load_str m bl pat _ (o0 + n + l)%nat Hs) by lia. xs. fold_sx.
        pose proof (nthb_lt256 pat (o0 + n + l) H256) as Hd. set (dd := nthb pat (o0 + n + l)) in *.
        rewrite (sx_eq_0 dd Hd). 
        assert (Hl0 : (0 < l)%nat).
        { pose proof (re_uclen_at_pos pat (o0 + n)) as X. unfold re_uclen_at in X. fold l c in X. apply X.
          intro Z0. rewrite Z0 in Emeta. discriminate. }
        destruct (dd =? 0)%N eqn:Ed0; cbn [negb andb b2z] in *; xs.
        * rewrite adv_in in Hr by (rewrite skipn_length; lia). cbn [ReSyntax.bind] in Hr. rewrite skipn_skipn in Hr.
          destruct (Step N) as [v4' [X [Y [Z0 W]]]]; [rewrite Nat.add_assoc; exact Hr|exact Hl0|].
          exists v4'. split; [exact X|]. split; [exact Y|]. split; [lia|discriminate].
        * rewrite (load_str m bl pat _ (o0 + n + l)%nat Hs) by lia. xs. fold dd. rewrite (wrap_byte_chain dd Hd). rewrite Er. xs. rewrite Tr.
          cbn [orb] in *.
          destruct (memb dd re_rep) eqn:Erep; xs.
          -- injection Hr as <-. exists (VInt (Z.of_nat l)). split; [reflexivity|]. split; [lia|]. split; [lia|discriminate].
          -- rewrite adv_in in Hr by (rewrite skipn_length; lia). cbn [ReSyntax.bind] in Hr. rewrite skipn_skipn in Hr.
             destruct (Step N) as [v4' [X [Y [Z0 W]]]]; [rewrite Nat.add_assoc; exact Hr|exact Hl0|].
             exists v4'. split; [exact X|]. split; [exact Y|]. split; [lia|discriminate].
  Qed.
End ChrLoop.

(* the default case of ratom_read as a whole: ra->ra = RA_CHR, the run, the copy of the run into a fresh block, *pat += len *)
Lemma rr_default_ok (m : mem) b c0 c1 rest bl pat bpp o0 d fuel v2 v3 v4 a s' :
  nth_error m b = Some (c0 :: c1 :: rest) -> pat_at m bl pat bpp o0 -> nonul pat -> lits_at m ->
  b <> bpp -> b <> bl -> bl <> bpp -> (b <> G_meta /\ b <> G_rep) ->
  (length pat + 2 <= fuel)%nat -> (4 <= fuel)%nat -> Z.of_nat (length pat) < 2147483647 ->
  chr_lit (skipn o0 pat) = ReSyntax.Ok (a, s') ->
  exists N st', exec (callf cprog fuel (S d)) fuel rr_default (mkst [VPtr b 0; VPtr bpp 0; v2; v3; v4] m) = ONormal st' /\
    (0 < N)%nat /\ (o0 + N <= length pat)%nat /\ a = AChr (firstn N (skipn o0 pat)) /\ s' = skipn (o0 + N) pat /\
    length (memm st') = S (length m) /\ same_but m (memm st') [b; bpp] /\
    nth_error (memm st') b = Some (VInt 0 :: VPtr (length m) 0 :: rest) /\
    nth_error (memm st') bpp = Some [VPtr bl (Z.of_nat (o0 + N))] /\
    nth_error (memm st') (length m) = Some (cstr_block (zb (firstn N (skipn o0 pat)))).
Proof.
  intros Hb [Hs [Hp Ho]] Hnn Hl N1 N2 N3 Hgb Hf Hf4 Hmax Hlit.
  pose proof (nonul_lt256 pat Hnn) as H256.
  unfold chr_lit in Hlit. destruct (chr_run (S (length (skipn o0 pat))) true (skipn o0 pat) 0) as [N| |] eqn:Erun; try discriminate Hlit.
  cbn [ReSyntax.bind] in Hlit. injection Hlit as <- <-.
  assert (Lb : (b < length m)%nat) by (eapply nth_lt; exact Hb).
  assert (Lp : (bpp < length m)%nat) by (eapply nth_lt; exact Hp).
  assert (Ll : (bl < length m)%nat) by (eapply nth_lt; exact Hs).
  set (m1 := upd m b (VInt 0 :: c1 :: rest)).
  assert (Hs1 : str_at m1 bl pat) by (unfold str_at, m1; mnth; exact Hs).
  assert (Hp1 : nth_error m1 bpp = Some [VPtr bl (Z.of_nat o0)]) by (unfold m1; mnth; exact Hp).
  assert (Hl1 : lits_at m1) by (apply lits_at_upd2; assumption).
  assert (Hb1 : nth_error m1 b = Some (VInt 0 :: c1 :: rest)) by (unfold m1; mnth; reflexivity).
  rewrite <- (Nat.add_0_r o0) in Erun at 2.
  destruct (rr_loop_ok m1 b bpp bl pat o0 d fuel Hs1 H256 Hp1 Hl1 Hf4 _ 0%nat true N v3 v4 fuel Erun eq_refl ltac:(lia) ltac:(rewrite skipn_length; lia))
    as [v4' [X [Y [_ W]]]].
  specialize (W eq_refl). rewrite Nat.add_0_r in X.
  exists N. unfold rr_default, rr_segs. cbn [fn_body cf_ratom_read nth_error].
  unfold rr_loop, rr_default, rr_segs in X. cbn [fn_body cf_ratom_read nth_error] in X.
  xs. xst Hb. xs. fold m1. xld Hp1. xs. rewrite X. clear X. xs. xld Hp1. xs. rewrite Nat.eqb_refl. xs.
  replace (Z.of_nat (o0 + N) - Z.of_nat o0) with (Z.of_nat N) by lia. rewrite Z.quot_1_r. rewrite (wrap_I32_id (Z.of_nat N)) by lia.
  rewrite (chk_I32 (Z.of_nat N + 1)) by lia. xs.
  rewrite wrap_U64_id by lia. rewrite malloc_ok by lia. xs. replace (length m1) with (length m) by (unfold m1; mlen).
  replace (Z.to_nat (Z.of_nat N + 1)) with (S N) by lia.
  assert (Hb1' : nth_error (m1 ++ [repeat VUndef (S N)]) b = Some (VInt 0 :: c1 :: rest)) by (unfold m1; mnth; reflexivity).
  xst Hb1'. xs.
  set (m2 := upd (m1 ++ [repeat VUndef (S N)]) b (VInt 0 :: VPtr (length m) 0 :: rest)).
  assert (Hb2 : nth_error m2 b = Some (VInt 0 :: VPtr (length m) 0 :: rest)) by (unfold m2, m1; mnth; reflexivity).
  assert (Hp2 : nth_error m2 bpp = Some [VPtr bl (Z.of_nat o0)]) by (unfold m2, m1; mnth; exact Hp).
  assert (Hs2 : str_at m2 bl pat) by (unfold str_at, m2, m1; mnth; exact Hs).
  assert (Hn2 : nth_error m2 (length m) = Some (repeat VUndef (S N))).
  { unfold m2. rewrite mem_upd_other by (unfold m1; mlen). replace (length m) with (length m1) by (unfold m1; mlen). apply nth_error_app_new. }
  xld Hb2. xs. xld Hp2. xs. rewrite wrap_U64_id by lia.
  rewrite (copy_sub m2 bl pat (length m) o0 N Hs2 Y Hn2). xs.
  set (sub := zb (firstn N (skipn o0 pat))).
  set (m3 := upd m2 (length m) (map VInt sub ++ [VUndef])).
  assert (Ls : length sub = N) by (unfold sub, zb; rewrite map_length, firstn_length, skipn_length; lia).
  assert (L2 : length m2 = S (length m)) by (unfold m2, m1; mlen).
  assert (Hb3 : nth_error m3 b = Some (VInt 0 :: VPtr (length m) 0 :: rest)) by (unfold m3; mnth; exact Hb2).
  assert (Hn3 : nth_error m3 (length m) = Some (map VInt sub ++ [VUndef])) by (unfold m3; mnth; reflexivity).
  xld Hb3. xs. replace (0 + 1 * Z.of_nat N) with (Z.of_nat (length sub)) by lia.
  rewrite (term_sub m3 (length m) sub Hn3). xs.
  set (m4 := upd m3 (length m) (cstr_block sub)).
  assert (Hp4 : nth_error m4 bpp = Some [VPtr bl (Z.of_nat o0)]) by (unfold m4, m3; mnth; exact Hp2).
  xld Hp4. xs. xst Hp4. xs.
  eexists. split; [reflexivity|]. cbn [memm].
  split; [exact W|]. split; [exact Y|]. split; [reflexivity|]. split; [rewrite skipn_skipn; reflexivity|].
  split; [unfold m4, m3; mlen|]. split.
  { intros i Hi Hin. cbn [In] in Hin. unfold m4, m3, m2, m1. mnth. reflexivity. }
  split; [unfold m4, m3; mnth; exact Hb2|].
  split; [unfold m4, m3; mnth; repeat f_equal; lia|].
  unfold m4, m3. mnth. reflexivity.
Qed.

(* ------------------------------------------------------------------ ratom_read: the switch *)
Lemma rr_has z : sw_has z rr_segs = ((46 =? z) || (94 =? z) || (36 =? z) || (91 =? z) || (92 =? z)).
Proof.
  unfold sw_has, rr_segs. cbn [fn_body cf_ratom_read existsb fst].
  destruct (46 =? z), (94 =? z), (36 =? z), (91 =? z), (92 =? z); reflexivity.
Qed.
Lemma of_N_eqb k c : (Z.of_N k =? Z.of_N c) = (c =? k)%N.
Proof. destruct (Z.eqb_spec (Z.of_N k) (Z.of_N c)), (N.eqb_spec c k); try reflexivity; lia. Qed.

Lemma sx_eq_60 : forall c, (c < 256)%N -> (sx c =? 60) = (c =? 60)%N.  Proof. byte_fact. Qed.
Lemma sx_eq_62 : forall c, (c < 256)%N -> (sx c =? 62) = (c =? 62)%N.  Proof. byte_fact. Qed.

Theorem tr_ratom_read (m : mem) b c0 rest bl pat bpp o d fuel a s' :
  nth_error m b = Some (c0 :: VInt 0 :: rest) -> pat_at m bl pat bpp o -> nonul pat -> lits_at m ->
  b <> bpp -> b <> bl -> bl <> bpp -> (b <> G_meta /\ b <> G_rep) -> (length cglobals <= bpp)%nat ->
  (length pat + 2 <= fuel)%nat -> (4 <= fuel)%nat -> Z.of_nat (length pat) < 2147483647 ->
  ReParse.ratom_read (skipn o pat) = ReSyntax.Ok (a, s') ->
  exists o' m', callf cprog fuel (S (S (S d))) F_ratom_read [VPtr b 0; VPtr bpp 0] m = Ok (VUndef, m') /\
    (o < o' <= length pat)%nat /\ s' = skipn o' pat /\
    same_but m m' [b; bpp] /\ nth_error m' bpp = Some [VPtr bl (Z.of_nat o')] /\
    match ra_str a with
    | Some s => length m' = S (length m) /\ nth_error m' b = Some (VInt (ra_code a) :: VPtr (length m) 0 :: rest) /\
                nth_error m' (length m) = Some (cstr_block (zb s)) /\ nonul s /\ (length s <= length pat)%nat /\
                (forall sb, a = ABrk sb -> sb <> [])
    | None => length m' = length m /\ nth_error m' b = Some (VInt (ra_code a) :: VInt 0 :: rest)
    end.
Proof.
  intros Hb [Hs [Hp Ho]] Hnn Hl N1 N2 N3 Hgb Hgp Hf Hf4 Hmax Hr.
  pose proof (nonul_lt256 pat Hnn) as H256.
  assert (Lb : (b < length m)%nat) by (eapply nth_lt; exact Hb).
  assert (Lp : (bpp < length m)%nat) by (eapply nth_lt; exact Hp).
  assert (Ll : (bl < length m)%nat) by (eapply nth_lt; exact Hs).
  (* the pattern is not at its end: the model would spin *)
  assert (Hlt : (o < length pat)%nat).
  { destruct (Nat.eq_dec o (length pat)) as [E|E]; [|lia]. exfalso. rewrite skipn_end in Hr by lia. cbn in Hr. discriminate Hr. }
  pose proof (skipn_cons_nthb pat o Hlt) as Es. remember (skipn (S o) pat) as r eqn:Er.
  rewrite Es in Hr. cbn [ReParse.ratom_read] in Hr.
  pose proof (nthb_lt256 pat o H256) as Hc. set (c := nthb pat o) in *.
  enter F_ratom_read cf_ratom_read. rewrite exec_switch. xs. xld Hp. xs.
  rewrite (load_str m bl pat _ o Hs) by lia. xs. fold c. rewrite (wrap_byte_chain c Hc). xs.
  change (match fn_body cf_ratom_read with SSwitch _ segs => segs | _ => [] end) with rr_segs in *.
  fold rr_segs. rewrite rr_has.
  change 46 with (Z.of_N 46) at 1. change 94 with (Z.of_N 94) at 1. change 36 with (Z.of_N 36) at 1.
  change 91 with (Z.of_N 91) at 1. change 92 with (Z.of_N 92) at 1. rewrite !of_N_eqb.
  (* one-cell stores into the node and into *pat *)
  destruct (N.eqb_spec c 46) as [E46|E46].
  { injection Hr as <- <-. rewrite E46. unfold rr_segs. cbn [fn_body cf_ratom_read sw_run sw_hit existsb orb andb Z.eqb Pos.eqb Z.of_N fst snd]. xs.
    xst Hb. xs.
    assert (Hp1 : nth_error (upd m b (VInt 46 :: VInt 0 :: rest)) bpp = Some [VPtr bl (Z.of_nat o)]) by (mnth; exact Hp).
    xld Hp1. xs. xst Hp1. xs. cbn [fst snd].
    exists (S o). eexists. split; [reflexivity|]. split; [lia|]. split; [exact Er|].
    split; [intros i Hi Hin; cbn [In] in Hin; mnth; reflexivity|]. split; [mnth; repeat f_equal; lia|].
    cbn [ra_str ra_code]. split; [mlen|]. mnth. reflexivity. }
  destruct (N.eqb_spec c 94) as [E94|E94].
  { injection Hr as <- <-. rewrite E94. unfold rr_segs. cbn [fn_body cf_ratom_read sw_run sw_hit existsb orb andb Z.eqb Pos.eqb Z.of_N fst snd]. xs.
    xst Hb. xs.
    assert (Hp1 : nth_error (upd m b (VInt 94 :: VInt 0 :: rest)) bpp = Some [VPtr bl (Z.of_nat o)]) by (mnth; exact Hp).
    xld Hp1. xs. xst Hp1. xs. cbn [fst snd].
    exists (S o). eexists. split; [reflexivity|]. split; [lia|]. split; [exact Er|].
    split; [intros i Hi Hin; cbn [In] in Hin; mnth; reflexivity|]. split; [mnth; repeat f_equal; lia|].
    cbn [ra_str ra_code]. split; [mlen|]. mnth. reflexivity. }
  destruct (N.eqb_spec c 36) as [E36|E36].
  { injection Hr as <- <-. rewrite E36. unfold rr_segs. cbn [fn_body cf_ratom_read sw_run sw_hit existsb orb andb Z.eqb Pos.eqb Z.of_N fst snd]. xs.
    xst Hb. xs.
    assert (Hp1 : nth_error (upd m b (VInt 36 :: VInt 0 :: rest)) bpp = Some [VPtr bl (Z.of_nat o)]) by (mnth; exact Hp).
    xld Hp1. xs. xst Hp1. xs. cbn [fst snd].
    exists (S o). eexists. split; [reflexivity|]. split; [lia|]. split; [exact Er|].
    split; [intros i Hi Hin; cbn [In] in Hin; mnth; reflexivity|]. split; [mnth; repeat f_equal; lia|].
    cbn [ra_str ra_code]. split; [mlen|]. mnth. reflexivity. }
  destruct (N.eqb_spec c 91) as [E91|E91].
  { (* a bracket expression *)
    injection Hr as <- <-. rewrite E91. unfold rr_segs. cbn [fn_body cf_ratom_read sw_run sw_hit existsb orb andb Z.eqb Pos.eqb Z.of_N fst snd]. xs.
    destruct (tr_ratom_readbrk m b c0 (VInt 0) rest bl pat bpp o d fuel Hb (conj Hs (conj Hp Ho)) Hnn Hlt N1 N2 N3 ltac:(lia) Hmax)
      as [Hn [m' [C [L' [S' [Hb' [Hp' Hn']]]]]]].
    rewrite <- E91, <- Es. set (n := brk_len (skipn o pat)) in *.
    rewrite C. xs.
    assert (Hn0 : (0 < n)%nat).
    { unfold n, brk_len. destruct (nthb (skipn o pat) 1 =? 94)%N; destruct (nthb (skipn o pat) _ =? 93)%N; destruct (nthb (skipn o pat) _ =? 93)%N; lia. }
    exists (o + n)%nat, m'. split; [reflexivity|]. split; [lia|]. split; [rewrite skipn_skipn; reflexivity|].
    split; [exact S'|]. split; [exact Hp'|]. cbn [ra_str ra_code].
    split; [exact L'|]. split; [exact Hb'|]. split; [exact Hn'|].
    split; [apply nonul_firstn, nonul_skipn; exact Hnn|].
    split; [rewrite firstn_length, skipn_length; lia|].
    intros sb E. injection E as <-. intro E. apply (f_equal (@length N)) in E. rewrite firstn_length, skipn_length in E. cbn [length] in E. lia. }
  (* the literal of the default case, reached directly or after a backslash *)
  assert (Lit : forall (m0 : mem) o0 st0, (o <= o0 <= length pat)%nat ->
    nth_error m0 b = Some (c0 :: VInt 0 :: rest) -> pat_at m0 bl pat bpp o0 -> lits_at m0 -> length m0 = length m -> same_but m m0 [b; bpp] ->
    chr_lit (skipn o0 pat) = ReSyntax.Ok (a, s') -> st0 = mkst [VPtr b 0; VPtr bpp 0; VUndef; VUndef; VUndef] m0 ->
    exists o' m',
      match match exec (callf cprog fuel (S (S d))) fuel rr_default st0 with
            | ONormal st2 => ONormal st2 | OBreak st2 => ONormal st2 | o1 => o1 end with
      | OReturn v st => Ok (v, memm st) | ONormal st => Ok (VUndef, memm st) | OErr x => Err x | _ => Err EShape end = Ok (VUndef, m') /\
      (o < o' <= length pat)%nat /\ s' = skipn o' pat /\ same_but m m' [b; bpp] /\ nth_error m' bpp = Some [VPtr bl (Z.of_nat o')] /\
      match ra_str a with
      | Some s => length m' = S (length m) /\ nth_error m' b = Some (VInt (ra_code a) :: VPtr (length m) 0 :: rest) /\
                  nth_error m' (length m) = Some (cstr_block (zb s)) /\ nonul s /\ (length s <= length pat)%nat /\ (forall sb, a = ABrk sb -> sb <> [])
      | None => length m' = length m /\ nth_error m' b = Some (VInt (ra_code a) :: VInt 0 :: rest)
      end).
  { intros m0 o0 st0 Ho0 Hb0 Hpat0 Hl0 Len0 Sm0 Hlit ->.
    destruct (rr_default_ok m0 b c0 (VInt 0) rest bl pat bpp o0 (S d) fuel VUndef VUndef VUndef a s' Hb0 Hpat0 Hnn Hl0 N1 N2 N3 Hgb Hf Hf4 Hmax Hlit)
      as [N [st' [X [HN [HoN [-> [-> [L' [S' [Hb' [Hp' Hn']]]]]]]]]]].
    rewrite X. exists (o0 + N)%nat, (memm st'). split; [reflexivity|]. split; [lia|]. split; [reflexivity|].
    split; [intros i Hi Hin; rewrite S' by (try lia; exact Hin); apply Sm0; assumption|]. split; [exact Hp'|].
    cbn [ra_str ra_code]. rewrite <- Len0. split; [exact L'|]. split; [exact Hb'|]. split; [exact Hn'|].
    split; [apply nonul_firstn, nonul_skipn; exact Hnn|]. split; [rewrite firstn_length, skipn_length; lia|]. intros sb E. discriminate E. }
  destruct (N.eqb_spec c 92) as [E92|E92].
  - (* a backslash: \< \> or an escaped literal *)
    rewrite E92. unfold rr_segs. cbn [fn_body cf_ratom_read sw_run sw_hit existsb orb andb Z.eqb Pos.eqb Z.of_N fst snd].
    change (SSeq (SExpr (EStore (Some I32) (ELocal 0) (EConst 0))) _) with rr_default. remember rr_default as dflt eqn:Edflt. xs.
    xld Hp. xs. replace (Z.of_nat o + 1 * 1) with (Z.of_nat (S o)) by lia.
    rewrite (load_str m bl pat _ (S o) Hs) by lia. xs. fold_sx.
    pose proof (nthb_lt256 pat (S o) H256) as Hd. set (dd := nthb pat (S o)) in *.
    subst r.
    assert (Hr' : (if (dd =? 60)%N then ReSyntax.Ok (AWBeg, skipn (S (S o)) pat)
                   else if (dd =? 62)%N then ReSyntax.Ok (AWEnd, skipn (S (S o)) pat) else chr_lit (skipn (S o) pat)) = ReSyntax.Ok (a, s')).
    { destruct (Nat.eq_dec (S o) (length pat)) as [E|E].
      - rewrite (skipn_end pat (S o)) in Hr by lia. unfold dd. rewrite nthb_end by lia. cbn [N.eqb]. rewrite (skipn_end pat (S o)) by lia. exact Hr.
      - rewrite (skipn_cons_nthb pat (S o)) in Hr by lia. fold dd in Hr. rewrite (skipn_cons_nthb pat (S o)) by lia. fold dd. exact Hr. }
    clear Hr.
    pose proof (sx_eq_60 dd Hd) as e60. pose proof (sx_eq_62 dd Hd) as e62.
    rewrite e60.
    destruct (dd =? 60)%N eqn:D60; xs.
    { injection Hr' as <- <-. xld Hp. xs. replace (Z.of_nat o + 1 * 1) with (Z.of_nat (S o)) by lia.
      rewrite (load_str m bl pat _ (S o) Hs) by lia. xs. fold_sx. fold dd. rewrite e60. xs.
      xst Hb. xs.
      assert (Hp1 : nth_error (upd m b (VInt 60 :: VInt 0 :: rest)) bpp = Some [VPtr bl (Z.of_nat o)]) by (mnth; exact Hp).
      xld Hp1. xs. xst Hp1. xs. cbn [fst snd].
      assert (dd <> 0%N) by (intro Z0; rewrite Z0 in D60; discriminate). pose proof (nthb_nz_lt pat (S o) H).
      exists (S (S o)). eexists. split; [reflexivity|]. split; [lia|]. split; [reflexivity|].
      split; [intros i Hi Hin; cbn [In] in Hin; mnth; reflexivity|]. split; [mnth; repeat f_equal; lia|].
      cbn [ra_str ra_code]. split; [mlen|]. mnth. reflexivity. }
    xld Hp. xs. replace (Z.of_nat o + 1 * 1) with (Z.of_nat (S o)) by lia.
    rewrite (load_str m bl pat _ (S o) Hs) by lia. xs. fold_sx. fold dd. rewrite e62.
    destruct (dd =? 62)%N eqn:D62; xs.
    { injection Hr' as <- <-. xld Hp. xs. replace (Z.of_nat o + 1 * 1) with (Z.of_nat (S o)) by lia.
      rewrite (load_str m bl pat _ (S o) Hs) by lia. xs. fold_sx. fold dd. rewrite e60. xs.
      xst Hb. xs.
      assert (Hp1 : nth_error (upd m b (VInt 62 :: VInt 0 :: rest)) bpp = Some [VPtr bl (Z.of_nat o)]) by (mnth; exact Hp).
      xld Hp1. xs. xst Hp1. xs. cbn [fst snd].
      assert (dd <> 0%N) by (intro Z0; rewrite Z0 in D62; discriminate). pose proof (nthb_nz_lt pat (S o) H).
      exists (S (S o)). eexists. split; [reflexivity|]. split; [lia|]. split; [reflexivity|].
      split; [intros i Hi Hin; cbn [In] in Hin; mnth; reflexivity|]. split; [mnth; repeat f_equal; lia|].
      cbn [ra_str ra_code]. split; [mlen|]. mnth. reflexivity. }
    (* step over the backslash and on into the default case *)
    xld Hp. xs. xst Hp. xs. cbn [fst snd]. replace (Z.of_nat o + 1) with (Z.of_nat (S o)) by lia.
    subst dflt.
    apply (Lit (upd m bpp [VPtr bl (Z.of_nat (S o))]) (S o)); try reflexivity; try lia.
    + mnth. exact Hb.
    + split; [unfold str_at; mnth; exact Hs|]. split; [mnth; reflexivity|lia].
    + apply lits_at_upd; assumption.
    + mlen.
    + intros i Hi Hin. cbn [In] in Hin. mnth. reflexivity.
    + exact Hr'.
  - (* any other byte starts a literal *)
    cbn [orb].
    cbn [sw_run sw_hit existsb orb andb negb fst snd].
    change (SSeq (SExpr (EStore (Some I32) (ELocal 0) (EConst 0))) _) with rr_default.
    rewrite <- Es in Hr.
    apply (Lit m o); try reflexivity; try lia; try assumption.
    + split; [exact Hs|]. split; [exact Hp|exact Ho].
    + intros i Hi Hin. reflexivity.
Qed.
