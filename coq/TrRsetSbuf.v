(* TrRsetSbuf.v -- re_read of /repo/rset.c on the heap: the interface TrRset.sbuf_iface that the scan of re_read was proved
   against (coq/TrRset.v, Section ReReadAbs) is INSTANTIATED with the theorems about the translated sbuf.c (coq/TrSbuf.v:
   tr_sbuf_make, tr_sbuf_chr, tr_sbuf_done, rep_upd_other).  Result: a theorem about the call of the translated re_read
   itself, with the real malloc / memcpy / free under it -- the memory grows by fresh blocks, every block that existed at
   the call other than the one holding *src is unchanged.
   (Kept apart from TrRset.v so that a change of sbuf.c does not disturb the theorem about re_groupcount.) *)
From Coq Require Import List ZArith NArith Bool Lia.
From NV Require Import Bytes GenConsts IoDefs CLite CLiteProps GenCFuncs CLiteTac TrSbuf TrRset.
From NV Require SubstDefs.
Import ListNotations.
Local Open Scope Z_scope.

(* so many cells fit before NEXTSZ could leave int *)
Definition RR_BOUND : nat := Z.to_nat 500000000.
Lemma RR_BOUND_Z : Z.of_nat RR_BOUND = 500000000.
Proof. unfold RR_BOUND. apply Z2Nat.id. lia. Qed.

Lemma chr_sz_keeps_bound n sz : 0 <= n -> 0 <= sz -> sz <= 2 * n + 256 -> chr_sz n sz <= 2 * (n + 1) + 256.
Proof.
  intros Hn Hsz Hb. unfold chr_sz. destruct (Z.leb_spec sz (n + 2)); [|lia].
  pose proof (NEXTSZ_le sz 1 Hsz ltac:(lia)) as L. change SBUFSZ with 128 in L.
  generalize dependent (NEXTSZ sz 1). intros z L.
  destruct (Z.max_spec (sz * 2) (sz + 1)) as [[_ E]|[_ E]]; rewrite E in L; lia.
Qed.
Lemma bound_fits n sz : 0 <= sz -> sz <= 2 * n + 256 -> n < Z.of_nat RR_BOUND -> sbuf_fits sz 1.
Proof.
  intros Hsz Hb Hn. unfold sbuf_fits. change SBUFSZ with 128. rewrite RR_BOUND_Z in Hn.
  destruct (Z.max_spec (sz * 2) (sz + 1)) as [[_ E]|[_ E]]; rewrite E; lia.
Qed.

(* the buffer of re_read: struct block p = the first block allocated after the call; its data block is newer than the call *)
Definition rr_rep (m0 : mem) (m : mem) (cs : list Z) : Prop :=
  exists sz, sbuf_rep m (length m0) cs sz /\ sz <= 2 * Z.of_nat (length cs) + 256 /\
    match sbuf_datab m (length m0) with Some bd => (length m0 <= bd)%nat | None => True end.

Lemma rr_iface m0 d fuel : sbuf_iface (callf cprog fuel (S (S (S d)))) m0 (length m0) (rr_rep m0) RR_BOUND.
Proof.
  split; [|split; [|split]].
  - (* sbuf_make *)
    exists (m0 ++ [[VInt 0; VInt 0; VInt 0]]). split; [apply tr_sbuf_make|]. split.
    + exists 0. split; [apply rep_make|]. split; [cbn [length]; lia|].
      rewrite (datab_null _ _ (VInt 0) (VInt 0)) by (apply nth_error_app_new). exact I.
    + intros b' Hb'. apply nth_error_app_old. exact Hb'.
  - (* sbuf_chr *)
    intros m cs c (sz & R & Hb & Hd) F Hc Hl.
    pose proof (rep_sz _ _ _ _ R) as Hsz. pose proof (rep_p_lt _ _ _ _ R) as Hpl.
    destruct (tr_sbuf_chr m (length m0) cs sz c (S d) fuel R) as (m' & E & R' & _ & S').
    { apply (bound_fits (Z.of_nat (length cs))); lia. }
    exists m'. split; [exact E|].
    destruct S' as (L' & D' & F').
    assert (Hd' : match sbuf_datab m' (length m0) with Some bd => (length m0 <= bd)%nat | None => True end).
    { destruct D' as [D'|(bn & D' & Hbn)]; [rewrite D'; exact Hd|]. rewrite D'. lia. }
    split.
    + exists (sb_sz (IoDefs.sbuf_chr (sb_model cs sz) (byte_of c))). split; [exact R'|]. split; [|exact Hd'].
      rewrite chr_sz_model, app_length. cbn [length]. rewrite Nat2Z.inj_add. apply chr_sz_keeps_bound; lia.
    + intros b' Hb'. rewrite F'; [apply F; exact Hb'|lia|lia|].
      intro E'. rewrite E' in Hd. lia.
  - (* a store into an older block *)
    intros m cs bb blk (sz & R & Hb & Hd) Hbb.
    pose proof (rep_p_lt _ _ _ _ R) as Hpl.
    destruct (rep_upd_other m (length m0) cs sz bb blk R) as (R' & D'); [lia| |lia|].
    { intro E'. rewrite E' in Hd. lia. }
    exists sz. split; [exact R'|]. split; [exact Hb|]. rewrite D'. exact Hd.
  - (* sbuf_done *)
    intros m cs (sz & R & Hb & Hd).
    pose proof (rep_p_lt _ _ _ _ R) as Hpl.
    destruct (tr_sbuf_done m (length m0) cs sz d fuel R) as (bo & m' & rest & E & Hbo & _ & _ & Hwhere & _ & F').
    exists bo, m', rest. split; [exact E|]. split; [exact Hbo|]. split.
    + destruct Hwhere as [W|W]; [rewrite W in Hd; exact Hd|lia].
    + intros b' Hb'. apply F'; [lia|lia|].
      intro E'. rewrite E' in Hd. lia.
Qed.

(* THE THEOREM about the call of the translated re_read.  m: any memory; block b holds the NUL-free string s; cell op of
   block bp (the object `char *s` whose address the caller passes) points to offset o of the string; the delimiter s[o] is
   below 128; |s| <= RR_BOUND.  Then
   - the model says None (s[o] is the terminator): the call returns NULL and the memory is unchanged;
   - the model says Some (txt, rest): the call returns a pointer to the start of a FRESH block (index >= length m) that
     begins with the cells of txt and the terminator; cell op of block bp now points to the offset o' with skipn o' s = rest;
     every other block that existed at the call is unchanged (the memory only grew: the struct sbuf and the outgrown
     buffers were freed, i.e. emptied). *)
Theorem tr_re_read m b (s : bytes) bp op (blk : block) o d fuel :
  str_at m b s -> nonul s ->
  nth_error m bp = Some blk -> 0 <= op -> nth_error blk (Z.to_nat op) = Some (VPtr b (Z.of_nat o)) ->
  (o <= length s)%nat -> (nthb s o < 128)%N -> (length s <= RR_BOUND)%nat -> (length s < fuel)%nat ->
  match SubstDefs.re_read (skipn o s) with
  | None => callf cprog fuel (S (S (S (S d)))) F_re_read [VPtr bp op] m = Ok (VInt 0, m)
  | Some (txt, rest) =>
      exists bo m' tail o',
      callf cprog fuel (S (S (S (S d)))) F_re_read [VPtr bp op] m = Ok (VPtr bo 0, m') /\
      nth_error m' bo = Some (map cell txt ++ VInt 0 :: tail) /\ (length m <= bo)%nat /\
      nth_error m' bp = Some (upd blk (Z.to_nat op) (VPtr b (Z.of_nat o'))) /\ (o' <= length s)%nat /\ skipn o' s = rest /\
      forall b', (b' < length m)%nat -> b' <> bp -> nth_error m' b' = nth_error m b'
  end.
Proof.
  intros Hs Hnn Hbp Hop Hcell Ho Hd Hb Hf.
  pose proof (re_read_scan _ m (length m) (rr_rep m) RR_BOUND (rr_iface m d fuel) b s bp op blk o fuel Hs Hnn Hbp Hop Hcell Ho Hd Hb Hf) as T.
  rewrite callf_S. change (nth_error cprog F_re_read) with (Some cf_re_read). cbv iota beta.
  change (fn_nparams cf_re_read) with 1%nat. change (fn_nlocals cf_re_read) with 4%nat.
  cbn [length Nat.eqb Nat.sub repeat app].
  destruct (SubstDefs.re_read (skipn o s)) as [[txt rest]|].
  - destruct T as (bo & m' & tail & o' & st' & E & Em & X1 & X2 & X3 & X4 & X5 & X6).
    exists bo, m', tail, o'. rewrite E, Em. repeat split; assumption.
  - rewrite T. reflexivity.
Qed.
