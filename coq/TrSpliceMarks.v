(* TrSpliceMarks.v -- lbuf_replace of /repo/lbuf.c on the translated C text, part 4: the loop that clears ln_glob for the added
   lines, the 32 passes of the mark update loop (one pass proved generically, then iterated), and the two closing lbuf_mark calls. *)
From Coq Require Import List ZArith NArith Bool Lia.
From NV Require Import Bytes GenConsts GenCap CLite CLiteProps GenCFuncs CLiteTac TrLbufBase TrLbufMarks TrSplice TrSpliceMove TrSpliceCut.
From NV Require CapDefs2.
Import ListNotations.
Local Open Scope Z_scope.

Definition rp_glob : stmt := match rp_rest5 with SSeq a _ => a | _ => SSkip end.
Definition rp_glob_loop : stmt := match rp_glob with SSeq _ l => l | _ => SSkip end.
Definition rp_rest6 : stmt := match rp_rest5 with SSeq _ r => r | _ => SSkip end.
Definition rp_marks : stmt := match rp_rest6 with SSeq a _ => a | _ => SSkip end.
Definition rp_marks_loop : stmt := match rp_marks with SSeq _ l => l | _ => SSkip end.
Definition rp_rest7 : stmt := match rp_rest6 with SSeq _ r => r | _ => SSkip end.

(* ---- for (i = n_del; i < n_ins; i++) lb->ln_glob[pos + i] = 0; *)
Lemma glob_loop_ok call lb blk bgl sv pos vnd ni v6 v7 v8 v9 v10 v11 :
  nth_error blk L_ln_glob = Some (VPtr bgl 0) -> Z.of_nat pos + Z.of_nat ni <= 2147483647 -> lb <> bgl ->
  forall k i (m : mem) (glblk : block) fuel, (i + k = ni)%nat -> nth_error m lb = Some blk -> nth_error m bgl = Some glblk ->
  (pos + ni <= length glblk)%nat -> (k < fuel)%nat ->
  exec call fuel rp_glob_loop (mkst [VPtr lb 0; sv; VInt (Z.of_nat pos); vnd; VInt (Z.of_nat ni); VInt (Z.of_nat i); v6; v7; v8; v9; v10; v11] m)
  = ONormal (mkst [VPtr lb 0; sv; VInt (Z.of_nat pos); vnd; VInt (Z.of_nat ni); VInt (Z.of_nat ni); v6; v7; v8; v9; v10; v11]
       (upd m bgl (put_cells glblk (pos + i) (repeat (VInt 0) k)))).
Proof.
  intros Hgl Hmax Nbg. induction k as [|k IH]; intros i m glblk fuel Hik Hb Hg Hcap Hf; (destruct fuel as [|fuel]; [lia|]);
    unfold rp_glob_loop, rp_glob, rp_rest5, rp_rest4, rp_rest3, rp_rest2, rp_rest1, rp_body; cbn [fn_body cf_lbuf_replace]; rewrite exec_for; xstep.
  - assert (i = ni) by lia. subst i. destruct (Z.ltb_spec (Z.of_nat ni) (Z.of_nat ni)); [lia|]. xstep.
    cbn [repeat]. rewrite put_cells_nil, (upd_self m bgl glblk Hg). reflexivity.
  - destruct (Z.ltb_spec (Z.of_nat i) (Z.of_nat ni)); [|lia]. xstep. xfld Hb Hgl. rewrite chk_I32 by lia. xstep.
    change (wrap I8 (wrap I8 0)) with 0. rewrite (store_ok m bgl glblk _ _ Hg) by lia. xstep. rewrite chk_I32 by lia. xstep.
    replace (Z.to_nat (0 + 1 * (Z.of_nat pos + Z.of_nat i))) with (pos + i)%nat by lia. replace (Z.of_nat i + 1) with (Z.of_nat (S i)) by lia.
    destruct (upd_frame m bgl glblk (upd glblk (pos + i) (VInt 0)) Hg) as (F1 & F2 & F3).
    specialize (IH (S i) (upd m bgl (upd glblk (pos + i) (VInt 0))) (upd glblk (pos + i) (VInt 0)) fuel ltac:(lia)).
    unfold rp_glob_loop, rp_glob, rp_rest5, rp_rest4, rp_rest3, rp_rest2, rp_rest1, rp_body in IH; cbn [fn_body cf_lbuf_replace] in IH.
    rewrite IH; [|rewrite F2 by congruence; exact Hb|exact F1|rewrite upd_length by lia; exact Hcap|lia].
    f_equal. f_equal. rewrite upd_upd by (apply (nth_lt _ _ _ Hg)). f_equal.
    replace (pos + S i)%nat with (S (pos + i)) by lia. rewrite put_cells_cons by lia. reflexivity.
Qed.
(* the whole statement: i runs from n_del; nothing happens when n_del >= n_ins *)
Definition glob_arr (glblk : block) (pos nd ni : nat) : block := put_cells glblk (pos + nd) (repeat (VInt 0) (ni - nd)).
Lemma glob_ok call fuel lb blk bgl sv pos nd ni vi v6 v7 v8 v9 v10 v11 (m : mem) (glblk : block) :
  nth_error blk L_ln_glob = Some (VPtr bgl 0) -> Z.of_nat pos + Z.of_nat ni <= 2147483647 -> lb <> bgl ->
  nth_error m lb = Some blk -> nth_error m bgl = Some glblk -> (pos + ni <= length glblk)%nat -> (ni < fuel)%nat ->
  exec call fuel rp_glob (mkst [VPtr lb 0; sv; VInt (Z.of_nat pos); VInt (Z.of_nat nd); VInt (Z.of_nat ni); vi; v6; v7; v8; v9; v10; v11] m)
  = ONormal (mkst [VPtr lb 0; sv; VInt (Z.of_nat pos); VInt (Z.of_nat nd); VInt (Z.of_nat ni); VInt (Z.of_nat (Nat.max nd ni)); v6; v7; v8; v9; v10; v11]
       (upd m bgl (glob_arr glblk pos nd ni))).
Proof.
  intros Hgl Hmax Nbg Hb Hg Hcap Hf. unfold glob_arr.
  destruct (Nat.le_gt_cases nd ni) as [L|L].
  - pose proof (glob_loop_ok call lb blk bgl sv pos (VInt (Z.of_nat nd)) ni v6 v7 v8 v9 v10 v11 Hgl Hmax Nbg (ni - nd)%nat nd m glblk fuel ltac:(lia) Hb Hg Hcap ltac:(lia)) as E.
    unfold rp_glob_loop in E. unfold rp_glob, rp_rest5, rp_rest4, rp_rest3, rp_rest2, rp_rest1, rp_body in *; cbn [fn_body cf_lbuf_replace] in *.
    rewrite exec_seq. xstep. rewrite E. replace (Nat.max nd ni) with ni by lia. reflexivity.
  - destruct fuel as [|fuel]; [lia|].
    unfold rp_glob, rp_rest5, rp_rest4, rp_rest3, rp_rest2, rp_rest1, rp_body; cbn [fn_body cf_lbuf_replace].
    rewrite exec_seq. xstep. rewrite exec_for. xstep. destruct (Z.ltb_spec (Z.of_nat nd) (Z.of_nat ni)); [lia|]. xstep.
    replace (ni - nd)%nat with 0%nat by lia. cbn [repeat]. rewrite put_cells_nil, (upd_self m bgl glblk Hg).
    replace (Nat.max nd ni) with nd by lia. reflexivity.
Qed.

(* ---- the mark update loop *)
Definition rp_marks_body : stmt := match rp_marks_loop with SFor _ _ b => b | _ => SSkip end.
(* the new row of a mark at row r (the first component of ExDefs.shift_mark) *)
Definition shift_row (nul : bool) (pos nd ni r : Z) : Z :=
  if nul && (pos <=? r) && (r <? pos + nd) then -1
  else if pos + nd <=? r then r + (ni - nd)
  else if pos + ni <=? r then pos + ni - 1
  else r.
(* the exact no-overflow condition of  lb->mark[i] += n_ins - n_del *)
Definition row_fits (pos nd ni r : Z) : Prop := i32 r /\ (pos + nd <= r -> i32 (r + (ni - nd))).
Definition s_arg (sv : val) (nul : bool) : Prop := (nul = true /\ sv = VInt 0) \/ (nul = false /\ exists b o, sv = VPtr b o).

Lemma marks_body_ok call fuel lb sv nul pos nd ni i r (m : mem) (blk : block) v6 v7 v8 v9 v10 v11 :
  s_arg sv nul -> nth_error m lb = Some blk -> nth_error blk i = Some (VInt r) -> row_fits (Z.of_nat pos) (Z.of_nat nd) (Z.of_nat ni) r ->
  Z.of_nat pos + Z.of_nat nd <= 2147483647 -> Z.of_nat pos + Z.of_nat ni <= 2147483647 ->
  exec call fuel rp_marks_body
    (mkst [VPtr lb 0; sv; VInt (Z.of_nat pos); VInt (Z.of_nat nd); VInt (Z.of_nat ni); VInt (Z.of_nat i); v6; v7; v8; v9; v10; v11] m)
  = ONormal (mkst [VPtr lb 0; sv; VInt (Z.of_nat pos); VInt (Z.of_nat nd); VInt (Z.of_nat ni); VInt (Z.of_nat i); v6; v7; v8; v9; v10; v11]
       (upd m lb (upd blk i (VInt (shift_row nul (Z.of_nat pos) (Z.of_nat nd) (Z.of_nat ni) r))))).
Proof.
  intros Hs Hb Hc [Hr Hfit] H1 H2. unfold i32 in *.
  assert (Li : (i < length blk)%nat) by (apply (nth_lt _ _ _ Hc)).
  assert (Same : upd m lb (upd blk i (VInt r)) = m) by (rewrite (upd_self blk i _ Hc); apply upd_self; exact Hb).
  unfold rp_marks_body, rp_marks_loop, rp_marks, rp_rest6, rp_rest5, rp_rest4, rp_rest3, rp_rest2, rp_rest1, rp_body; cbn [fn_body cf_lbuf_replace].
  unfold shift_row.
  destruct Hs as [[-> ->]|[-> (b & o & ->)]]; cbn [andb]; rewrite ?exec_if; xstep.
  - rewrite (fld_load m lb blk i _ _ Hb Hc) by lia. xstep. rewrite (wrap_I32_id r) by lia.
    destruct (Z.leb_spec (Z.of_nat pos) r) as [A|A]; cbn [b2z andb]; xstep.
    + rewrite (fld_load m lb blk i _ _ Hb Hc) by lia. xstep. rewrite (wrap_I32_id r) by lia. rewrite chk_I32 by lia. xstep.
      destruct (Z.ltb_spec r (Z.of_nat pos + Z.of_nat nd)) as [B|B]; cbn [b2z]; xstep.
      * change (chk I32 (- (1))) with (@Ok Z (-1)). xstep. change (wrap I32 (-1)) with (-1).
        rewrite (store_ok m lb blk _ _ Hb) by lia. xstep. replace (Z.to_nat (0 + 1 * Z.of_nat i)) with i by lia. reflexivity.
      * rewrite ?exec_if; xstep. rewrite (fld_load m lb blk i _ _ Hb Hc) by lia. xstep. rewrite (wrap_I32_id r) by lia. rewrite chk_I32 by lia. xstep.
        destruct (Z.leb_spec (Z.of_nat pos + Z.of_nat nd) r); [|lia]. cbn [b2z]. xstep.
        rewrite (fld_load m lb blk i _ _ Hb Hc) by lia. xstep. rewrite (wrap_I32_id r) by lia. rewrite chk_I32 by lia. xstep. rewrite chk_I32 by lia. xstep.
        rewrite wrap_I32_id by lia.
        rewrite (store_ok m lb blk _ _ Hb) by lia. xstep. replace (Z.to_nat (0 + 1 * Z.of_nat i)) with i by lia. reflexivity.
    + rewrite ?exec_if; xstep. rewrite (fld_load m lb blk i _ _ Hb Hc) by lia. xstep. rewrite (wrap_I32_id r) by lia. rewrite chk_I32 by lia. xstep.
      destruct (Z.leb_spec (Z.of_nat pos + Z.of_nat nd) r); [lia|]. cbn [b2z]. xstep.
      rewrite ?exec_if; xstep. rewrite (fld_load m lb blk i _ _ Hb Hc) by lia. xstep. rewrite (wrap_I32_id r) by lia. rewrite chk_I32 by lia. xstep.
      destruct (Z.leb_spec (Z.of_nat pos + Z.of_nat ni) r); [lia|]. cbn [b2z]. xstep. rewrite Same. reflexivity.
  - rewrite ?exec_if; xstep. rewrite (fld_load m lb blk i _ _ Hb Hc) by lia. xstep. rewrite (wrap_I32_id r) by lia. rewrite chk_I32 by lia. xstep.
    destruct (Z.leb_spec (Z.of_nat pos + Z.of_nat nd) r) as [A|A]; cbn [b2z]; xstep.
    + rewrite (fld_load m lb blk i _ _ Hb Hc) by lia. xstep. rewrite (wrap_I32_id r) by lia. rewrite chk_I32 by lia. xstep. rewrite chk_I32 by lia. xstep.
      rewrite wrap_I32_id by lia.
      rewrite (store_ok m lb blk _ _ Hb) by lia. xstep. replace (Z.to_nat (0 + 1 * Z.of_nat i)) with i by lia. reflexivity.
    + rewrite ?exec_if; xstep. rewrite (fld_load m lb blk i _ _ Hb Hc) by lia. xstep. rewrite (wrap_I32_id r) by lia. rewrite chk_I32 by lia. xstep.
      destruct (Z.leb_spec (Z.of_nat pos + Z.of_nat ni) r) as [B|B]; cbn [b2z]; xstep.
      * rewrite chk_I32 by lia. xstep. rewrite chk_I32 by lia. xstep. rewrite wrap_I32_id by lia.
        rewrite (store_ok m lb blk _ _ Hb) by lia. xstep. replace (Z.to_nat (0 + 1 * Z.of_nat i)) with i by lia. reflexivity.
      * rewrite Same. reflexivity.
Qed.

(* the struct after the passes i .. i + k *)
Fixpoint shift_cells (f : Z -> Z) (blk : block) (i k : nat) : block :=
  match k with
  | O => blk
  | S k' => shift_cells f (upd blk i (VInt (f (cellz blk i)))) (S i) k'
  end.
Lemma shift_cells_length f : forall k blk i, (i + k <= length blk)%nat -> length (shift_cells f blk i k) = length blk.
Proof.
  induction k as [|k IH]; intros blk i H; [reflexivity|]. cbn [shift_cells]. rewrite IH by (rewrite upd_length by lia; lia). apply upd_length. lia.
Qed.
Lemma shift_cells_nth f : forall k blk i j, (i + k <= length blk)%nat ->
  nth_error (shift_cells f blk i k) j = if (i <=? j)%nat && (j <? i + k)%nat then Some (VInt (f (cellz blk j))) else nth_error blk j.
Proof.
  induction k as [|k IH]; intros blk i j H.
  - cbn [shift_cells]. destruct (Nat.leb_spec i j); destruct (Nat.ltb_spec j (i + 0)); cbn [andb]; try reflexivity. lia.
  - cbn [shift_cells]. rewrite IH by (rewrite upd_length by lia; lia).
    destruct (Nat.eq_dec j i) as [->|Hne].
    + destruct (Nat.leb_spec (S i) i); [lia|]. cbn [andb]. rewrite nth_error_upd_same by lia.
      destruct (Nat.leb_spec i i); [|lia]. destruct (Nat.ltb_spec i (i + S k)); [|lia]. reflexivity.
    + unfold cellz. rewrite nth_error_upd_other by (try lia; exact Hne).
      destruct (Nat.leb_spec (S i) j); destruct (Nat.leb_spec i j); try lia; destruct (Nat.ltb_spec j (S i + k)); destruct (Nat.ltb_spec j (i + S k)); try lia; reflexivity.
Qed.

Lemma marks_loop_ok call lb sv nul pos nd ni v6 v7 v8 v9 v10 v11 :
  s_arg sv nul -> Z.of_nat pos + Z.of_nat nd <= 2147483647 -> Z.of_nat pos + Z.of_nat ni <= 2147483647 ->
  let f := shift_row nul (Z.of_nat pos) (Z.of_nat nd) (Z.of_nat ni) in
  forall k i (m : mem) (blk : block) fuel, (i + k = 32)%nat -> nth_error m lb = Some blk -> (32 <= length blk)%nat ->
  (forall j, (i <= j < 32)%nat -> exists r, nth_error blk j = Some (VInt r) /\ row_fits (Z.of_nat pos) (Z.of_nat nd) (Z.of_nat ni) r) -> (k < fuel)%nat ->
  exec call fuel rp_marks_loop (mkst [VPtr lb 0; sv; VInt (Z.of_nat pos); VInt (Z.of_nat nd); VInt (Z.of_nat ni); VInt (Z.of_nat i); v6; v7; v8; v9; v10; v11] m)
  = ONormal (mkst [VPtr lb 0; sv; VInt (Z.of_nat pos); VInt (Z.of_nat nd); VInt (Z.of_nat ni); VInt 32; v6; v7; v8; v9; v10; v11]
       (upd m lb (shift_cells f blk i k))).
Proof.
  intros Hs H1 H2 f. assert (Em : rp_marks_loop = match rp_marks_loop with SFor c s _ => SFor c s rp_marks_body | _ => SSkip end) by reflexivity.
  induction k as [|k IH]; intros i m blk fuel Hik Hb Hlen Hrows Hf; (destruct fuel as [|fuel]; [lia|]).
  - rewrite Em. unfold rp_marks_loop at 1, rp_marks, rp_rest6, rp_rest5, rp_rest4, rp_rest3, rp_rest2, rp_rest1, rp_body; cbn [fn_body cf_lbuf_replace].
    rewrite exec_for. remember rp_marks_body as B. xstep. change (128 ÷ 4) with 32. change (4 =? 0) with false. cbv iota. rewrite chk_U64 by lia. xstep.
    rewrite wrap_U64_id by lia. assert (i = 32)%nat by lia. subst i. change (Z.of_nat 32 <? 32) with false. xstep.
    cbn [shift_cells]. rewrite (upd_self m lb blk Hb). reflexivity.
  - rewrite Em. unfold rp_marks_loop at 1, rp_marks, rp_rest6, rp_rest5, rp_rest4, rp_rest3, rp_rest2, rp_rest1, rp_body; cbn [fn_body cf_lbuf_replace].
    rewrite exec_for. remember rp_marks_body as B. xstep. change (128 ÷ 4) with 32. change (4 =? 0) with false. cbv iota. rewrite chk_U64 by lia. xstep.
    rewrite wrap_U64_id by lia. destruct (Z.ltb_spec (Z.of_nat i) 32); [|lia]. xstep.
    destruct (Hrows i ltac:(lia)) as (r & Hc & Hfit). subst B.
    rewrite (marks_body_ok call (S fuel) lb sv nul pos nd ni i r m blk v6 v7 v8 v9 v10 v11 Hs Hb Hc Hfit H1 H2). xstep.
    rewrite chk_I32 by lia. xstep. replace (Z.of_nat i + 1) with (Z.of_nat (S i)) by lia.
    fold f. set (blk1 := upd blk i (VInt (f r))).
    destruct (upd_frame m lb blk blk1 Hb) as (F1 & F2 & F3).
    specialize (IH (S i) (upd m lb blk1) blk1 fuel ltac:(lia) F1).
    rewrite Em in IH. unfold rp_marks_loop at 1, rp_marks, rp_rest6, rp_rest5, rp_rest4, rp_rest3, rp_rest2, rp_rest1, rp_body in IH; cbn [fn_body cf_lbuf_replace] in IH.
    rewrite IH.
    + rewrite upd_upd by (apply (nth_lt _ _ _ Hb)). cbn [shift_cells]. unfold cellz. rewrite Hc. reflexivity.
    + unfold blk1. rewrite upd_length by lia. exact Hlen.
    + intros j Hj. unfold blk1. rewrite nth_error_upd_other by lia. apply Hrows. lia.
    + lia.
Qed.

(* the statement  for (i = 0; i < LEN(lb->mark); i++) ...  *)
Lemma marks_ok call fuel lb sv nul pos nd ni vi v6 v7 v8 v9 v10 v11 (m : mem) (blk : block) :
  s_arg sv nul -> Z.of_nat pos + Z.of_nat nd <= 2147483647 -> Z.of_nat pos + Z.of_nat ni <= 2147483647 ->
  nth_error m lb = Some blk -> (32 <= length blk)%nat ->
  (forall j, (j < 32)%nat -> exists r, nth_error blk j = Some (VInt r) /\ row_fits (Z.of_nat pos) (Z.of_nat nd) (Z.of_nat ni) r) -> (32 < fuel)%nat ->
  exec call fuel rp_marks (mkst [VPtr lb 0; sv; VInt (Z.of_nat pos); VInt (Z.of_nat nd); VInt (Z.of_nat ni); vi; v6; v7; v8; v9; v10; v11] m)
  = ONormal (mkst [VPtr lb 0; sv; VInt (Z.of_nat pos); VInt (Z.of_nat nd); VInt (Z.of_nat ni); VInt 32; v6; v7; v8; v9; v10; v11]
       (upd m lb (shift_cells (shift_row nul (Z.of_nat pos) (Z.of_nat nd) (Z.of_nat ni)) blk 0 32))).
Proof.
  intros Hs H1 H2 Hb Hlen Hrows Hf.
  pose proof (marks_loop_ok call lb sv nul pos nd ni v6 v7 v8 v9 v10 v11 Hs H1 H2 32%nat O m blk fuel eq_refl Hb Hlen (fun j Hj => Hrows j (proj2 Hj)) Hf) as E.
  assert (Em : rp_marks = SSeq (match rp_marks with SSeq a _ => a | _ => SSkip end) rp_marks_loop) by reflexivity.
  rewrite Em, exec_seq. unfold rp_marks, rp_rest6, rp_rest5, rp_rest4, rp_rest3, rp_rest2, rp_rest1, rp_body; cbn [fn_body cf_lbuf_replace].
  xstep. exact E.
Qed.

(* ---- lbuf_mark(lb, '[', pos, 0); lbuf_mark(lb, ']', pos + (n_ins ? n_ins - 1 : 0), 0); *)
Definition last_row (pos ni : nat) : Z := Z.of_nat pos + (if (ni =? 0)%nat then 0 else Z.of_nat ni - 1).
Definition tail_blk (blk : block) (pos ni : nat) : block := mark_blk (mark_blk blk 91 (Z.of_nat pos) 0) 93 (last_row pos ni) 0.
Lemma mark_blk_len blk c p o : length blk = LBUF_CELLS -> -1 <= c <= 255 -> length (mark_blk blk c p o) = LBUF_CELLS.
Proof.
  intros H Hc. unfold mark_blk. pose proof (markidx_range c Hc) as Hk. destruct (Z.leb_spec 0 (CapDefs2.markidx c)); [|exact H].
  rewrite !upd_length; rewrite ?upd_length; rewrite ?H; unfold LBUF_CELLS, M_OFF; lia.
Qed.
Lemma tail_ok fuel d fuel' lb sv pos vnd ni vi v6 v7 v8 v9 v10 v11 (m : mem) (blk : block) :
  nth_error m lb = Some blk -> length blk = LBUF_CELLS -> Z.of_nat pos + Z.of_nat ni <= 2147483647 ->
  exec (callf cprog fuel (S (S d))) fuel' rp_rest7 (mkst [VPtr lb 0; sv; VInt (Z.of_nat pos); vnd; VInt (Z.of_nat ni); vi; v6; v7; v8; v9; v10; v11] m)
  = ONormal (mkst [VPtr lb 0; sv; VInt (Z.of_nat pos); vnd; VInt (Z.of_nat ni); vi; v6; v7; v8; v9; v10; v11] (upd m lb (tail_blk blk pos ni))).
Proof.
  intros Hb Hl Hmax. unfold rp_rest7, rp_rest6, rp_rest5, rp_rest4, rp_rest3, rp_rest2, rp_rest1, rp_body; cbn [fn_body cf_lbuf_replace].
  rewrite exec_seq. xstep.
  rewrite (tr_lbuf_mark m lb blk 91 (Z.of_nat pos) 0 d fuel Hb Hl) by (unfold i32; lia).
  change (CapDefs2.markidx 91) with 28. change (0 <=? 28) with true. cbv iota. xstep.
  set (blk1 := upd (upd blk (Z.to_nat 28) (VInt (Z.of_nat pos))) (M_OFF + Z.to_nat 28) (VInt 0)).
  assert (E1 : blk1 = mark_blk blk 91 (Z.of_nat pos) 0) by reflexivity.
  destruct (upd_frame m lb blk blk1 Hb) as (F1 & F2 & F3).
  assert (L1 : length blk1 = LBUF_CELLS) by (rewrite E1; apply mark_blk_len; [exact Hl|lia]).
  destruct (Z.eqb_spec (Z.of_nat ni) 0) as [Z0|Z0]; cbn [negb]; xstep.
  - assert (ni = 0)%nat by lia. subst ni. rewrite chk_I32 by lia. xstep.
    change (@upd (list val)) with (@upd block).
    rewrite (tr_lbuf_mark _ lb blk1 93 (Z.of_nat pos + 0) 0 d fuel F1 L1) by (unfold i32; lia).
    change (CapDefs2.markidx 93) with 29. change (0 <=? 29) with true. cbv iota. xstep. rewrite upd_upd by (apply (nth_lt _ _ _ Hb)). reflexivity.
  - rewrite chk_I32 by lia. xstep. rewrite chk_I32 by lia. xstep.
    change (@upd (list val)) with (@upd block).
    rewrite (tr_lbuf_mark _ lb blk1 93 (Z.of_nat pos + (Z.of_nat ni - 1)) 0 d fuel F1 L1) by (unfold i32; lia).
    change (CapDefs2.markidx 93) with 29. change (0 <=? 29) with true. cbv iota. xstep. rewrite upd_upd by (apply (nth_lt _ _ _ Hb)).
    unfold tail_blk, last_row. destruct (Nat.eqb_spec ni 0); [lia|]. reflexivity.
Qed.
