(* TrExParse.v -- C06 / C05: ex_exec and ex_command of /repo/ex.c as translated by tools/c2clite.py (cf_ex_exec, cf_ex_command of
   GenCFuncs.v, whitelist tools/c2clite.d/99zzzzz_exparse.list), BY PROOF, for every command line and every oracle.

   ex_exec(ln):  char loc[EXLEN], cmd[EXLEN], arg[EXLEN]  (three fresh blocks of 512 cells: bl, bc, ba)
                 strlen(ln) >= EXLEN -> ex_show("command too long"), 1
                 while ( *ln) { txt = NULL (a fresh one-cell block bt: its address is taken);
                   ln = ex_loc(ln, loc); ln = ex_cmd(ln, cmd); idx = ex_idx(cmd);                  translated, proved: TrEx.v, TrExIdx.v
                   ln = ex_arg(ln, arg, idx >= 0 ? excmds[idx].abbr : "unknown");                  translated, proved: TrEx.v
                   ln = ex_txt(ln, &txt, ...same...);                                              ORACLE X_ex_txt
                   if (idx >= 0) ret = excmds[idx].ec(loc, cmd, arg, txt);                         ORACLE X_indirect (first argument: &excmds[idx].ec)
                   else ex_show("unknown command");                                                ORACLE X_ex_show
                   free(txt); }
                 return ret;

   `runs n i ret m ret' m'` is the run the MODEL prescribes from position i of the line with the oracle `ext`: at each step the pieces
   CapDefs.ex_loc / ex_cmd / ex_idx / ex_arg compute (the capacity model of C05, tied to ExDefs' parser by ExCapParse.v) are written to
   loc / cmd / arg, then the oracle calls happen on exactly those memories with exactly those arguments, in that order.  Theorem
   tr_ex_exec: whenever the model's run exists, the translated C text performs it (same calls, same memories, same return value) -- for
   every oracle.  What is assumed of the oracles is what the premises of `runs` say: after each call the line, the three arrays, the
   command table and the literals are still there (`frame_ok`), the txt cell holds NULL or a pointer, and free(txt) succeeds. *)
From Coq Require Import List ZArith NArith Bool Lia.
From NV Require Import Bytes GenConsts GenExCmds CLite CLiteProps GenCFuncs CLiteTac CLiteExt TrLbufBase TrEx TrExIdx.
From NV Require CapDefs CapProps.
Import ListNotations.
Local Open Scope Z_scope.

Ltac enterx f cf :=
  rewrite callx_S; cbn [nth_error cprog f cf fn_nparams fn_nlocals fn_body length Nat.eqb Nat.sub repeat app].

Notation G_unknown := G_lit_756e6b6e6f776e_7.
Definition unknown_s : bytes := [117; 110; 107; 110; 111; 119; 110]%N.

Lemma x_ex_txt_none : nth_error cprog X_ex_txt = None. Proof. vm_compute. reflexivity. Qed.
Lemma x_indirect_none : nth_error cprog X_indirect = None. Proof. vm_compute. reflexivity. Qed.
Lemma x_ex_show_none : nth_error cprog X_ex_show = None. Proof. vm_compute. reflexivity. Qed.
Lemma x_ex_exec_none : nth_error cprog X_ex_exec = None. Proof. vm_compute. reflexivity. Qed.

(* ------------------------------------------------------------------ the command name is ASCII: cmd[] holds a string str_at-style *)
Definition ascii (c : N) : Prop := (0 < c < 128)%N.
Lemma cmd_loop_ascii : forall fuel s i w n i' w', CapDefs.cmd_loop fuel s i w n = CapDefs.Ok (i', w') ->
  Forall ascii (fst w) -> Forall ascii (fst w').
Proof.
  induction fuel as [|fuel IH]; intros s i w n i' w' H Hw; [discriminate|]. cbn [CapDefs.cmd_loop] in H.
  destruct (CapDefs.rd s i) as [c| | |]; cbn [CapDefs.bind] in H; try discriminate.
  destruct (CapDefs.c_isalpha c && (n <? 16)%nat) eqn:E; [|injection H as _ <-; exact Hw].
  apply andb_true_iff in E as [Ea _].
  destruct (CapDefs.wr w c) as [w1| | |] eqn:Ew; cbn [CapDefs.bind] in H; try discriminate.
  assert (Hw1 : Forall ascii (fst w1)).
  { unfold CapDefs.wr in Ew. destruct (snd w); [discriminate|]. injection Ew as <-. cbn [fst]. constructor; [|exact Hw].
    unfold CapDefs.c_isalpha in Ea. unfold ascii. lia. }
  destruct ((c =? 107)%N && (S n =? 1)%nat); [injection H as _ <-; exact Hw1|]. exact (IH _ _ _ _ _ _ H Hw1).
Qed.
Lemma ex_cmd_ascii s i cap i' w : CapDefs.ex_cmd s i (CapDefs.newbuf cap) = CapDefs.Ok (i', w) -> Forall ascii (CapDefs.wstr w).
Proof.
  unfold CapDefs.ex_cmd. intro H.
  destruct (CapDefs.skip_while _ _ s i) as [i1| | |]; cbn [CapDefs.bind] in H; try discriminate.
  destruct (CapDefs.cmd_loop _ s i1 _ 0) as [iw| | |] eqn:E1; cbn [CapDefs.bind] in H; try discriminate.
  destruct iw as [i2 w2]. pose proof (cmd_loop_ascii _ _ _ _ _ _ _ E1 (Forall_nil _)) as HA. cbn [fst snd] in H.
  destruct (CapDefs.rd s i2) as [c| | |] eqn:Ec; cbn [CapDefs.bind] in H; try discriminate.
  assert (HB : forall iw2, (if ((c =? 33) || (c =? 61) || (c =? 64))%N then CapDefs.copy1 s i2 w2 else CapDefs.Ok (i2, w2)) = CapDefs.Ok iw2 ->
               Forall ascii (fst (snd iw2))).
  { intros iw2 E2. destruct ((c =? 33) || (c =? 61) || (c =? 64))%N eqn:Eb; [|injection E2 as <-; exact HA].
    unfold CapDefs.copy1 in E2. rewrite Ec in E2. cbn [CapDefs.bind] in E2.
    destruct (CapDefs.wr w2 c) as [w3| | |] eqn:E3; cbn [CapDefs.bind] in E2; try discriminate. injection E2 as <-. cbn [snd].
    destruct (wr_inv _ _ _ E3) as (F2 & _). rewrite F2. constructor; [|exact HA]. unfold ascii. lia. }
  destruct (if ((c =? 33) || (c =? 61) || (c =? 64))%N then _ else _) as [iw2| | |] eqn:E2; cbn [CapDefs.bind] in H; try discriminate.
  specialize (HB iw2 eq_refl).
  destruct (CapDefs.wr (snd iw2) 0) as [w'| | |] eqn:E4; cbn [CapDefs.bind] in H; try discriminate. injection H as _ <-.
  destruct (wr_inv _ _ _ E4) as (F & _). unfold CapDefs.wstr. rewrite F. apply Forall_rev. exact HB.
Qed.
Lemma cell_ascii c : ascii c -> cell c = VInt (Z.of_N c).
Proof. intros [H0 H]. unfold cell. rewrite sc_cases by lia. destruct (N.ltb_spec c 128); [reflexivity|lia]. Qed.
Lemma cstr_cells_ascii out : Forall ascii out -> cstr_cells out = cstr_block (zb out).
Proof.
  intro H. unfold cstr_cells, cstr_block, zb. f_equal. induction H as [|c out Hc _ IH]; [reflexivity|].
  cbn [map]. rewrite (cell_ascii c Hc), IH. reflexivity.
Qed.
Lemma ascii_nonul out : Forall ascii out -> nonul out.
Proof. intro H. eapply Forall_impl; [|exact H]. intros c [H0 H1]. unfold byte_ok. lia. Qed.

(* ------------------------------------------------------------------ the C text, piece by piece *)
Definition ex_while : stmt := match fn_body cf_ex_exec with SSeq _ (SSeq _ (SSeq _ (SSeq w _))) => w | _ => SSkip end.
Definition exec_guard : stmt := match fn_body cf_ex_exec with SSeq _ (SSeq _ (SSeq g _)) => g | _ => SSkip end.
Definition exec_frame : stmt := match fn_body cf_ex_exec with SSeq f _ => f | _ => SSkip end.
(* the messages are whatever string literals the C text passes to ex_show (a reworded message does not disturb the proofs) *)
Definition G_msg_long : nat := match exec_guard with SIf _ (SSeq (SExpr (ECall _ [EGlob g])) _) _ => g | _ => O end.
Definition G_msg_unknown : nat :=
  match ex_while with
  | SWhile _ (SSeq _ (SSeq _ (SSeq _ (SSeq _ (SSeq _ (SSeq _ (SSeq (SIf _ _ (SExpr (ECall _ [EGlob g]))) _))))))) => g
  | _ => O
  end.
Lemma ex_exec_shape : fn_body cf_ex_exec =
  SSeq exec_frame (SSeq (SExpr (ESetLocal 4 (EConst 0))) (SSeq exec_guard (SSeq ex_while (SReturn (Some (ELocal 4)))))).
Proof. reflexivity. Qed.

Section Exec.
  Variable ext : nat -> list val -> mem -> res (val * mem).
  Variables (fuel d : nat).
  Variables (bs : nat) (s : bytes).            (* the command line: block bs holds exactly s and its terminator *)
  Variables (bl bc ba : nat).                  (* loc[EXLEN], cmd[EXLEN], arg[EXLEN] *)
  Hypothesis Hnn : nonul s.
  Let Hs256 : bytes_lt256 s := nonul_lt256 s Hnn.
  Hypothesis Hfuel : (2 * S (length s) <= fuel)%nat.
  Hypothesis Hfuel2 : (S NCMDS < fuel)%nat.
  Hypothesis Hdist : bs <> bl /\ bs <> bc /\ bs <> ba /\ bl <> bc /\ bl <> ba /\ bc <> ba.
  Hypothesis Hglob : (length cglobals <= bl)%nat /\ (length cglobals <= bc)%nat /\ (length cglobals <= ba)%nat.

  Let call := callx ext cprog fuel (S d).

  Record frame_ok (m : mem) : Prop := mk_frame {
    f_line : str_at m bs s;
    f_loc : exists blk, nth_error m bl = Some blk /\ Z.of_nat (length blk) = EXLEN;
    f_cmd : exists blk, nth_error m bc = Some blk /\ Z.of_nat (length blk) = EXLEN;
    f_arg : exists blk, nth_error m ba = Some blk /\ Z.of_nat (length blk) = EXLEN;
    f_tab : excmds_at m;
    f_exloc : nth_error m G_exloc = Some gb_exloc;
    f_unk : str_at m G_unknown unknown_s
  }.

  (* the string handed to ex_arg / ex_txt and the block that holds it *)
  Definition abbr_ptr (m : mem) (cmd : bytes) (g : nat) : Prop :=
    match CapDefs.ex_idx cmd with
    | Some (k, ab) => exists gblk, nth_error m G_excmds = Some gblk /\ nth_error gblk (3 * k) = Some (VPtr g 0)
    | None => g = G_unknown
    end.

  (* one command: the memory after the three scanners, the two or three oracle calls, free(txt) *)
  Definition step_rec : Type := (bytes * bytes * Z * bytes)%type.       (* loc, cmd, idx, arg *)
  Inductive runs : nat -> list step_rec -> nat -> Z -> mem -> Z -> mem -> Prop :=
  | runs_done i ret m : frame_ok m -> i = length s -> runs 0 [] i ret m ret m
  | runs_step n tr i ret m Lb Cb Ab i1 w1 i2 w2 i3 w3 g j m5 vt u6 m6 vt' u7 m7 ret' m' :
      frame_ok m -> (i < length s)%nat ->
      nth_error m bl = Some Lb -> nth_error m bc = Some Cb -> nth_error m ba = Some Ab ->
      CapDefs.ex_loc s i (CapDefs.newbuf CapDefs.excap) = CapDefs.Ok (i1, w1) ->
      CapDefs.ex_cmd s i1 (CapDefs.newbuf CapDefs.excap) = CapDefs.Ok (i2, w2) ->
      let cmd := CapDefs.wstr w2 in
      let e := CapDefs.excmd_of cmd in
      CapDefs.ex_arg s i2 (CapDefs.newbuf CapDefs.excap) (CapDefs.ch0 e) (CapDefs.ch1 e) = CapDefs.Ok (i3, w3) ->
      let bt := length m in
      let m4 := upd (upd (upd (m ++ [[VInt 0]]) bl (dblock w1 Lb)) bc (dblock w2 Cb)) ba (dblock w3 Ab) in
      abbr_ptr m cmd g ->
      (* ln = ex_txt(ln, &txt, abbr): the oracle returns the position the model computes *)
      CapDefs.ex_txt_src s i3 (CapDefs.ch0 e) (CapDefs.ch1 e) = CapDefs.Ok j ->
      ext X_ex_txt [VPtr bs (Z.of_nat i3); VPtr bt 0; VPtr g 0] m4 = Ok (VPtr bs (Z.of_nat j), m5) ->
      nth_error m5 bt = Some [vt] -> (vt = VInt 0 \/ exists b o, vt = VPtr b o) ->
      (* ret = excmds[idx].ec(loc, cmd, arg, txt)  /  ex_show("unknown command") *)
      match CapDefs.ex_idx cmd with
      | Some (k, _) => ext X_indirect [VPtr G_excmds (Z.of_nat (3 * k + 2)); VPtr bl 0; VPtr bc 0; VPtr ba 0; vt] m5 = Ok (VInt ret', m6) /\ u6 = VInt ret'
      | None => ext X_ex_show [VPtr G_msg_unknown 0] m5 = Ok (u6, m6) /\ ret' = ret
      end ->
      (* free(txt) *)
      nth_error m6 bt = Some [vt'] -> do_builtin_m BFree [vt'] m6 = Ok (u7, m7) ->
      forall ret'', runs n tr j ret' m7 ret'' m' ->
      runs (S n) ((CapDefs.wstr w1, cmd, idx_res (CapDefs.ex_idx cmd), CapDefs.wstr w3) :: tr) i ret m ret'' m'.

  Lemma nthb_nz i : (i < length s)%nat -> nthb s i <> 0%N.
  Proof.
    intro H. unfold nthb. pose proof Hnn as Hn. unfold nonul in Hn. rewrite Forall_forall in Hn.
    specialize (Hn (nth i s 0%N) (nth_In s 0%N H)). unfold byte_ok in Hn. lia.
  Qed.

  Lemma frame_lt m : frame_ok m -> (bs < length m)%nat /\ (bl < length m)%nat /\ (bc < length m)%nat /\ (ba < length m)%nat.
  Proof.
    intros [F1 (x & F2 & _) (y & F3 & _) (z & F4 & _) _ _ _]. unfold str_at in F1.
    repeat split; apply nth_error_Some; congruence.
  Qed.

  Definition abbr_e : expr :=
    ECond (EBin OGe I32 (ELocal 6) (EConst 0)) (ELoad None (EPtrAdd 3 (EGlob G_excmds) (ELocal 6))) (EGlob G_unknown).
  Lemma abbr_info m cmd g : frame_ok m -> abbr_ptr m cmd g ->
    str_at m g (CapDefs.excmd_of cmd) /\ (g < length cglobals)%nat /\ nonul (CapDefs.excmd_of cmd) /\
    (0 <= idx_res (CapDefs.ex_idx cmd) + 1 <= Z.of_nat NCMDS).
  Proof.
    intros F Hg. unfold abbr_ptr, CapDefs.excmd_of in *. destruct (CapDefs.ex_idx cmd) as [[k ab]|] eqn:E.
    - destruct Hg as (gblk & Hb & Hk). destruct (ex_idx_nth cmd k ab E) as (nm & Hn).
      destruct (f_tab m F) as (gblk' & Hb' & Htab). rewrite Hb in Hb'. injection Hb' as <-.
      destruct (Htab k ab nm Hn) as (ga & gn & H1 & _ & Sa & _ & La & _). rewrite Hk in H1. injection H1 as <-.
      split; [exact Sa|]. split; [exact La|]. split.
      + pose proof excmds_nonul as Hnn'. unfold names_nonul in Hnn'. rewrite Forall_forall in Hnn'.
        exact (proj1 (Hnn' (ab, nm) (nth_error_In _ _ Hn))).
      + cbn [idx_res]. assert (k < NCMDS)%nat by (apply nth_error_Some; unfold NCMDS; congruence). lia.
    - subst g. split; [exact (f_unk m F)|]. split; [vm_compute; lia|]. split.
      + repeat (apply Forall_cons; [unfold byte_ok; lia|]). apply Forall_nil.
      + cbn [idx_res]. pose proof NCMDS_52. lia.
  Qed.
  Lemma abbr_eval c m mm cmd g l0 l1 l2 l3 l4 l5 : frame_ok m -> abbr_ptr m cmd g -> nth_error mm G_excmds = nth_error m G_excmds ->
    let L := [l0; l1; l2; l3; l4; l5; VInt (idx_res (CapDefs.ex_idx cmd))] in
    eval c abbr_e (mkst L mm) = Ok (VPtr g 0, mkst L mm).
  Proof.
    intros F Hg Hmm L. pose proof (abbr_info m cmd g F Hg) as (_ & _ & _ & Hr). unfold abbr_e, L.
    unfold abbr_ptr in Hg. destruct (CapDefs.ex_idx cmd) as [[k ab]|] eqn:E; cbn [idx_res] in *.
    - destruct Hg as (gblk & Hb & Hk). xstep. destruct (Z.leb_spec 0 (Z.of_nat k)); [|lia]. xstep.
      replace (0 + 3 * Z.of_nat k) with (Z.of_nat (3 * k)) by lia.
      rewrite (fld_load mm G_excmds gblk (3 * k) _ _ (eq_trans Hmm Hb) Hk) by reflexivity. reflexivity.
    - subst g. xstep. reflexivity.
  Qed.
  Lemma G_small : (G_exloc < length cglobals)%nat /\ (G_excmds < length cglobals)%nat /\ (G_unknown < length cglobals)%nat.
  Proof. vm_compute. repeat split; lia. Qed.
  Lemma excmds_at_ext m mm : excmds_at m -> (forall g, (g < length cglobals)%nat -> nth_error mm g = nth_error m g) -> excmds_at mm.
  Proof.
    intros (gblk & Hb & Htab) Hext. exists gblk. split; [rewrite Hext by apply G_small; exact Hb|].
    intros k ab nm Hk. destruct (Htab k ab nm Hk) as (ga & gn & H1 & H2 & Sa & Sn & La & Ln). exists ga, gn.
    repeat split; try assumption; unfold str_at; rewrite Hext; assumption.
  Qed.

  Lemma exec_while_ok : forall n tr i ret m ret' m', runs n tr i ret m ret' m' -> forall v5 v6 fl, (n < fl)%nat -> exists v5' v6',
    exec call fl ex_while (mkst [VPtr bs (Z.of_nat i); VPtr bl 0; VPtr bc 0; VPtr ba 0; VInt ret; v5; v6] m) =
    ONormal (mkst [VPtr bs (Z.of_nat (length s)); VPtr bl 0; VPtr bc 0; VPtr ba 0; VInt ret'; v5'; v6'] m').
  Proof.
    induction 1 as [i ret m F Hi|n tr i ret m Lb Cb Ab i1 w1 i2 w2 i3 w3 g j m5 vt u6 m6 vt' u7 m7 ret' m' F Hi HL HC HA E1 E2 cmd e E3 bt m4 Hg Etxt X1 Ht Hvt X2 Ht' Hfree ret'' Hrun IH];
      intros v5 v6 fl Hfl; (destruct fl as [|fl]; [lia|]); unfold ex_while; cbn [fn_body cf_ex_exec]; rewrite exec_while; xstep.
    - subst i. rewrite (load_str m bs s _ (length s) (f_line m F)) by lia. xstep. rewrite nthb_end by lia.
      change (negb (wrap I8 (Z.of_N 0) =? 0)) with false. cbv iota. eauto.
    - rewrite (load_str m bs s _ i (f_line m F)) by lia. xstep.
      rewrite (sc_eqb_0 (nthb s i)) by (apply nthb_lt256; exact Hs256).
      destruct (N.eqb_spec (nthb s i) 0) as [Hz|_]; [exfalso; exact (nthb_nz i Hi Hz)|]. cbn [negb].
      destruct (frame_lt m F) as (Lbs & Lbl & Lbc & Lba). destruct Hdist as (D1 & D2 & D3 & D4 & D5 & D6). destruct Hglob as (G1 & G2 & G3).
      (* char *txt = NULL *)
      rewrite (malloc_ok m 1) by lia. xstep. change (Z.to_nat 1) with 1%nat. cbn [repeat].
      rewrite (store_ok (m ++ [[VUndef]]) (length m) [VUndef] 0 (VInt 0) (nth_error_app_new m _)) by (cbn [length]; lia). xstep.
      change (upd [VUndef] (Z.to_nat 0) (VInt 0)) with [VInt 0].
      assert (Em1 : upd (m ++ [[VUndef]]) (length m) [VInt 0] = m ++ [[VInt 0]]).
      { unfold upd. rewrite firstn_app, Nat.sub_diag, firstn_all, skipn_all2 by (rewrite app_length; cbn [length]; lia). cbn [firstn]. rewrite app_nil_r. reflexivity. }
      rewrite Em1. set (m1 := m ++ [[VInt 0]]).
      destruct (f_loc m F) as (xl & Hxl & LL). rewrite HL in Hxl. injection Hxl as <-.
      destruct (f_cmd m F) as (xc & Hxc & LC). rewrite HC in Hxc. injection Hxc as <-.
      destruct (f_arg m F) as (xa & Hxa & LA). rewrite HA in Hxa. injection Hxa as <-.
      rewrite <- (len_excap Lb LL) in E1. rewrite <- (len_excap Cb LC) in E2. rewrite <- (len_excap Ab LA) in E3.
      destruct G_small as (Gs1 & Gs2 & Gs3).
      destruct (abbr_info m cmd g F Hg) as (Sg & Lg & Ne & Ridx). fold e in Sg, Ne.
      assert (Hold1 : forall b, (b < length m)%nat -> nth_error m1 b = nth_error m b) by (intros b Hb; unfold m1; apply nth_error_app_old; exact Hb).
      assert (Lm1 : length m1 = S (length m)) by (unfold m1; rewrite app_length; cbn [length]; lia).
      (* ln = ex_loc(ln, loc) *)
      assert (Hs1 : str_at m1 bs s) by (unfold str_at; rewrite Hold1 by exact Lbs; exact (f_line m F)).
      assert (HL1 : nth_error m1 bl = Some Lb) by (rewrite Hold1 by exact Lbl; exact HL).
      assert (Hx1 : nth_error m1 G_exloc = Some gb_exloc) by (rewrite Hold1 by lia; exact (f_exloc m F)).
      unfold call at 1.
      rewrite (callx_mono ext cprog fuel (S d) F_ex_loc _ _ _ (tr_ex_loc m1 bs bl s Lb i i1 w1 d fuel Hs1 Hs256 HL1 D1 Hx1 ltac:(lia) E1 Hfuel)).
      xstep. set (m2 := upd m1 bl (dblock w1 Lb)).
      assert (Hold2 : forall b, b <> bl -> nth_error m2 b = nth_error m1 b) by (intros b Hb; unfold m2; apply mem_upd_other; [lia|exact Hb]).
      assert (Lm2 : length m2 = length m1) by (unfold m2; apply upd_length; lia).
      (* ln = ex_cmd(ln, cmd) *)
      assert (Hs2 : str_at m2 bs s) by (unfold str_at; rewrite Hold2 by exact D1; exact Hs1).
      assert (HC2 : nth_error m2 bc = Some Cb) by (rewrite Hold2 by congruence; rewrite Hold1 by exact Lbc; exact HC).
      unfold call at 1.
      rewrite (callx_mono ext cprog fuel (S d) F_ex_cmd _ _ _ (tr_ex_cmd m2 bs bc s Cb i1 i2 w2 d fuel Hs2 Hs256 HC2 D2 E2 ltac:(lia))).
      xstep. set (m3 := upd m2 bc (dblock w2 Cb)).
      assert (Hold3 : forall b, b <> bc -> nth_error m3 b = nth_error m2 b) by (intros b Hb; unfold m3; apply mem_upd_other; [lia|exact Hb]).
      assert (Lm3 : length m3 = length m2) by (unfold m3; apply upd_length; lia).
      assert (Hg3 : forall b, (b < length cglobals)%nat -> nth_error m3 b = nth_error m b).
      { intros b Hb. rewrite Hold3, Hold2, Hold1 by lia. reflexivity. }
      (* idx = ex_idx(cmd) *)
      pose proof (ex_cmd_ascii _ _ _ _ _ E2) as Hasc. fold cmd in Hasc.
      assert (Hp3 : pstr_at m3 bc cmd).
      { exists (skipn (S (length cmd)) Cb). unfold m3. rewrite mem_upd_same by lia.
        rewrite (dblock_wstr w2 Cb (ex_cmd_term _ _ _ _ _ E2)). fold cmd. rewrite (cstr_cells_ascii cmd Hasc). reflexivity. }
      unfold call at 1.
      rewrite (callx_mono ext cprog fuel (S d) F_ex_idx _ _ _ (tr_ex_idx m3 bc cmd d fuel (excmds_at_ext m m3 (f_tab m F) Hg3) Hp3 (ascii_nonul cmd Hasc) Hfuel2)).
      xstep.
      (* ln = ex_arg(ln, arg, idx >= 0 ? excmds[idx].abbr : "unknown") *)
      assert (Hgx : match CapDefs.ex_idx cmd with Some (k, _) => load m G_excmds (Z.of_nat (3 * k)) = Ok (VPtr g 0) | None => g = G_unknown end).
      { unfold abbr_ptr in Hg. destruct (CapDefs.ex_idx cmd) as [[k ab]|]; [|exact Hg]. destruct Hg as (gblk & Hb & Hk).
        exact (fld_load m G_excmds gblk (3 * k) _ _ Hb Hk eq_refl). }
      match goal with |- context [if 0 <=? ?z then ?A else ?B] =>
        assert (Habbr : (if 0 <=? z then A else B) = Ok (VPtr g 0, mkst [VPtr bs (Z.of_nat i2); VPtr bl 0; VPtr bc 0; VPtr ba 0; VInt ret; VPtr (length m) 0; VInt z] m3)) end.
      { destruct (CapDefs.ex_idx cmd) as [[k ab]|]; cbn [idx_res] in *.
        - destruct (Z.leb_spec 0 (Z.of_nat k)); [|lia]. replace (0 + 3 * Z.of_nat k) with (Z.of_nat (3 * k)) by lia.
          unfold load in *. rewrite (Hg3 _ Gs2). rewrite Hgx. reflexivity.
        - subst g. reflexivity. }
      rewrite Habbr. clear Habbr. xstep.
      assert (Hs3 : str_at m3 bs s) by (unfold str_at; rewrite Hold3 by exact D2; exact Hs2).
      assert (HA3 : nth_error m3 ba = Some Ab) by (rewrite Hold3, Hold2 by congruence; rewrite Hold1 by exact Lba; exact HA).
      assert (Sg3 : str_at m3 g e) by (unfold str_at; rewrite Hg3 by exact Lg; exact Sg).
      unfold call at 1.
      rewrite (callx_mono ext cprog fuel (S d) F_ex_arg _ _ _
                 (tr_ex_arg m3 bs ba g s e Ab i2 i3 w3 d fuel Hs3 Hs256 HA3 D3 Sg3 (nonul_lt256 e Ne) ltac:(lia) E3 ltac:(lia))).
      xstep. change (upd m3 ba (dblock w3 Ab)) with m4.
      assert (Hg4 : forall b, (b < length cglobals)%nat -> nth_error m4 b = nth_error m b).
      { intros b Hb. unfold m4. fold m1. fold m2. fold m3. rewrite mem_upd_other by lia. apply Hg3. exact Hb. }
      (* ln = ex_txt(ln, &txt, ...) *)
      match goal with |- context [if 0 <=? ?z then ?A else ?B] =>
        assert (Habbr : (if 0 <=? z then A else B) = Ok (VPtr g 0, mkst [VPtr bs (Z.of_nat i3); VPtr bl 0; VPtr bc 0; VPtr ba 0; VInt ret; VPtr (length m) 0; VInt z] m4)) end.
      { destruct (CapDefs.ex_idx cmd) as [[k ab]|]; cbn [idx_res] in *.
        - destruct (Z.leb_spec 0 (Z.of_nat k)); [|lia]. replace (0 + 3 * Z.of_nat k) with (Z.of_nat (3 * k)) by lia.
          unfold load in *. rewrite (Hg4 _ Gs2). rewrite Hgx. reflexivity.
        - subst g. reflexivity. }
      rewrite Habbr. clear Habbr. xstep.
      unfold call at 1. rewrite callx_S, x_ex_txt_none. fold bt. rewrite X1. xstep.
      (* the dispatch *)
      assert (Hld : load m5 bt 0 = Ok vt) by (exact (fld_load m5 bt [vt] 0 vt 0 Ht eq_refl eq_refl)).
      assert (Hld' : load m6 bt 0 = Ok vt') by (exact (fld_load m6 bt [vt'] 0 vt' 0 Ht' eq_refl eq_refl)).
      assert (Hvt' : vt' = VInt 0 \/ exists b, vt' = VPtr b 0).
      { destruct vt' as [|z|b o]; cbn [do_builtin_m] in Hfree; try discriminate.
        - destruct z; try discriminate. left; reflexivity.
        - destruct o; try discriminate. right; eauto. }
      match goal with |- context [if 0 <=? ?z then ?A else ?B] =>
        assert (Hdisp : (if 0 <=? z then A else B) = ONormal (mkst [VPtr bs (Z.of_nat j); VPtr bl 0; VPtr bc 0; VPtr ba 0; VInt ret'; VPtr bt 0; VInt z] m6)) end.
      { destruct (CapDefs.ex_idx cmd) as [[k ab]|]; cbn [idx_res] in *.
        - destruct (Z.leb_spec 0 (Z.of_nat k)); [|lia]. destruct X2 as [X2 _]. rewrite Hld.
          replace (0 + 3 * Z.of_nat k + 1 * 2) with (Z.of_nat (3 * k + 2)) by lia.
          destruct Hvt as [->|(b & o & ->)]; xstep; unfold call at 1; rewrite callx_S, x_indirect_none, X2; xstep; reflexivity.
        - change (0 <=? -1) with false. cbv iota. destruct X2 as [X2 ->]. unfold call at 1. rewrite callx_S, x_ex_show_none.
          match goal with |- context [ext X_ex_show ?a ?mm] => change (ext X_ex_show a mm) with (ext X_ex_show [VPtr G_msg_unknown 0] mm) end.
          rewrite X2. reflexivity. }
      rewrite Hdisp. clear Hdisp. xstep. rewrite Hld'.
      destruct (IH (VPtr bt 0) (VInt (idx_res (CapDefs.ex_idx cmd))) fl ltac:(lia)) as (v5' & v6' & IH').
      unfold ex_while in IH'; cbn [fn_body cf_ex_exec] in IH'.
      exists v5', v6'.
      destruct Hvt' as [->|(b & ->)]; xstep; rewrite Hfree; xstep; exact IH'.
  Qed.

End Exec.

Lemma nthb_nz0 s : nonul s -> forall i, (i < length s)%nat -> nthb s i <> 0%N.
Proof.
  intros Hn i H. unfold nthb. unfold nonul in Hn. rewrite Forall_forall in Hn.
  specialize (Hn (nth i s 0%N) (nth_In s 0%N H)). unfold byte_ok in Hn. lia.
Qed.
  (* the steps of a run are the records of the capacity model's parse loop (CapDefs.exec_loop), in order *)
  Definition rec_of (p : CapDefs.parsed) : step_rec := (CapDefs.p_loc p, CapDefs.p_cmd p, CapDefs.p_idx p, CapDefs.p_arg p).
  Lemma idx_res_eq cmd : idx_res (CapDefs.ex_idx cmd) = match CapDefs.ex_idx cmd with Some (k, _) => Z.of_nat k | None => -1 end.
  Proof. unfold idx_res. destruct (CapDefs.ex_idx cmd) as [[k ab]|]; reflexivity. Qed.
  Lemma runs_exec_loop ext bs s bl bc ba : nonul s -> forall n tr i ret m ret' m', runs ext bs s bl bc ba n tr i ret m ret' m' ->
    exists ps, CapDefs.exec_loop (S n) s i = CapDefs.Ok ps /\ tr = map rec_of ps.
  Proof.
    intro Hnn. induction 1 as [i ret m F Hi|n tr i ret m Lb Cb Ab i1 w1 i2 w2 i3 w3 g j m5 vt u6 m6 vt' u7 m7 ret' m' F Hi HL HC HA E1 E2 cmd e E3 bt m4 Hg Etxt X1 Ht Hvt X2 Ht' Hfree ret'' Hrun IH].
    - exists []. split; [|reflexivity]. subst i. cbn [CapDefs.exec_loop]. unfold CapDefs.rd.
      rewrite (proj2 (nth_error_None s (length s))) by lia. rewrite Nat.eqb_refl. reflexivity.
    - destruct IH as (ps & IH & ->).
      assert (P : CapDefs.parse_one s i = CapDefs.Ok (CapDefs.mkParsed (CapDefs.wstr w1) cmd (idx_res (CapDefs.ex_idx cmd)) (CapDefs.wstr w3) j)).
      { unfold CapDefs.parse_one. rewrite E1. cbn [CapDefs.bind fst snd]. rewrite E2. cbn [CapDefs.bind fst snd]. fold cmd. fold e.
        rewrite E3. cbn [CapDefs.bind fst snd]. rewrite Etxt. cbn [CapDefs.bind]. rewrite idx_res_eq. reflexivity. }
      exists (CapDefs.mkParsed (CapDefs.wstr w1) cmd (idx_res (CapDefs.ex_idx cmd)) (CapDefs.wstr w3) j :: ps). split; [|reflexivity].
      change (CapDefs.exec_loop (S (S n)) s i) with
        (CapDefs.bind (CapDefs.rd s i) (fun c => if (c =? 0)%N then CapDefs.Ok [] else
           CapDefs.bind (CapDefs.parse_one s i) (fun p => CapDefs.bind (CapDefs.exec_loop (S n) s (CapDefs.p_next p)) (fun r => CapDefs.Ok (p :: r))))).
      unfold CapDefs.rd. destruct (nth_error s i) as [c|] eqn:Ec; [|apply nth_error_None in Ec; lia]. cbn [CapDefs.bind].
      assert (c = nthb s i) as -> by (unfold nthb; symmetry; apply nth_error_nth; exact Ec).
      destruct (N.eqb_spec (nthb s i) 0) as [Hz|_]; [exfalso; exact (nthb_nz0 s Hnn i Hi Hz)|].
      rewrite P. cbn [CapDefs.bind CapDefs.p_next]. rewrite IH. cbn [CapDefs.bind]. reflexivity.
  Qed.


(* ------------------------------------------------------------------ ex_exec *)
Lemma frame3 call f v0 m :
  exec call f exec_frame (mkst [v0; VUndef; VUndef; VUndef; VUndef; VUndef; VUndef] m) =
  ONormal (mkst [v0; VPtr (length m) 0; VPtr (S (length m)) 0; VPtr (S (S (length m))) 0; VUndef; VUndef; VUndef]
                (((m ++ [repeat VUndef 512]) ++ [repeat VUndef 512]) ++ [repeat VUndef 512])).
Proof.
  unfold exec_frame; cbn [fn_body cf_ex_exec]. xstep. rewrite (malloc_ok m 512) by lia. xstep.
  rewrite (malloc_ok (m ++ _) 512) by lia. xstep. rewrite (malloc_ok ((m ++ _) ++ _) 512) by lia. xstep.
  rewrite !app_length. cbn [length]. change (Z.to_nat 512) with 512%nat.
  replace (length m + 1)%nat with (S (length m)) by lia. replace (S (length m) + 1)%nat with (S (S (length m))) by lia. reflexivity.
Qed.

(* the memory at loop entry: the three arrays behind everything else *)
Definition exec_mem (m : mem) : mem := ((m ++ [repeat VUndef 512]) ++ [repeat VUndef 512]) ++ [repeat VUndef 512].

(* strlen(ln) >= EXLEN: the message, 1; nothing is parsed (C05: the guard in front of the three fixed buffers) *)
Theorem tr_ex_exec_long ext m bs s d fuel u m' : str_at m bs s -> nonul s -> EXLEN <= Z.of_nat (length s) -> Z.of_nat (length s) < 4294967296 ->
  ext X_ex_show [VPtr G_msg_long 0] (exec_mem m) = Ok (u, m') ->
  callx ext cprog fuel (S (S d)) F_ex_exec [VPtr bs 0] m = Ok (VInt 1, m').
Proof.
  intros Hs Hn Hlen Hmax Hx. rewrite callx_S. cbn [nth_error cprog F_ex_exec].
  change (fn_nparams cf_ex_exec) with 1%nat. change (fn_nlocals cf_ex_exec) with 7%nat. cbn [length Nat.eqb Nat.sub repeat app].
  rewrite ex_exec_shape, exec_seq, frame3. fold (exec_mem m).
  rewrite exec_seq, exec_expr. xcbn. rewrite exec_seq. unfold exec_guard; cbn [fn_body cf_ex_exec]. xstep.
  assert (Hs' : str_at (exec_mem m) bs s).
  { unfold str_at, exec_mem. assert (bs < length m)%nat by (apply nth_error_Some; unfold str_at in Hs; congruence).
    rewrite !nth_error_app1 by (rewrite ?app_length; cbn [length]; lia). exact Hs. }
  change 0 with (Z.of_nat 0). rewrite (builtin_strlen (exec_mem m) bs s 0 Hs' Hn) by lia. xstep.
  rewrite Nat.sub_0_r. rewrite wrap_U64_id by lia. change (wrap U64 512) with 512. change EXLEN with 512 in Hlen.
  destruct (Z.leb_spec 512 (Z.of_nat (length s))); [|lia]. xstep.
  rewrite callx_S, x_ex_show_none.
  match goal with |- context [ext X_ex_show ?a ?mm] => change (ext X_ex_show a mm) with (ext X_ex_show [VPtr G_msg_long 0] mm) end.
  rewrite Hx. xstep. reflexivity.
Qed.

(* a line shorter than EXLEN: the run the model prescribes *)
Theorem tr_ex_exec ext m bs s d fuel n tr ret m' : str_at m bs s -> nonul s -> Z.of_nat (length s) < EXLEN ->
  (length cglobals <= length m)%nat -> (2 * S (length s) <= fuel)%nat -> (S NCMDS < fuel)%nat -> (n < fuel)%nat ->
  runs ext bs s (length m) (S (length m)) (S (S (length m))) n tr 0 0 (exec_mem m) ret m' ->
  callx ext cprog fuel (S (S d)) F_ex_exec [VPtr bs 0] m = Ok (VInt ret, m').
Proof.
  intros Hs Hn Hlen Hg Hf1 Hf2 Hf3 Hrun. rewrite callx_S. cbn [nth_error cprog F_ex_exec].
  change (fn_nparams cf_ex_exec) with 1%nat. change (fn_nlocals cf_ex_exec) with 7%nat. cbn [length Nat.eqb Nat.sub repeat app].
  rewrite ex_exec_shape, exec_seq, frame3. fold (exec_mem m).
  rewrite exec_seq, exec_expr. xcbn. rewrite exec_seq. unfold exec_guard; cbn [fn_body cf_ex_exec]. xstep.
  assert (Hbs : (bs < length m)%nat) by (apply nth_error_Some; unfold str_at in Hs; congruence).
  assert (Hs' : str_at (exec_mem m) bs s).
  { unfold str_at, exec_mem. rewrite !nth_error_app1 by (rewrite ?app_length; cbn [length]; lia). exact Hs. }
  change 0 with (Z.of_nat 0) at 1. rewrite (builtin_strlen (exec_mem m) bs s 0 Hs' Hn) by lia. xstep.
  rewrite Nat.sub_0_r. change EXLEN with 512 in Hlen. rewrite wrap_U64_id by lia. change (wrap U64 512) with 512.
  destruct (Z.leb_spec 512 (Z.of_nat (length s))); [lia|]. xstep.
  destruct (exec_while_ok ext fuel d bs s (length m) (S (length m)) (S (S (length m))) Hn Hf1 Hf2 ltac:(lia) ltac:(lia)
              n tr 0%nat 0 (exec_mem m) ret m' Hrun VUndef VUndef fuel Hf3) as (v5 & v6 & E).
  change (Z.of_nat 0) with 0 in E. rewrite E. xstep. reflexivity.
Qed.

(* ------------------------------------------------------------------ the steps seen by the oracles are ExDefs' parse of the line *)
From NV Require ExDefs ExCapParse.

(* ------------------------------------------------------------------ the three scanners against ExDefs (the reference line editor's parser):
   TrEx.ex_*_safe (C text = CapDefs, every line shorter than EXLEN, destination of EXLEN cells: no store leaves it) composed with
   ExCapParse.ex_*_bridge (CapDefs = ExDefs on NUL-free lines) *)
Theorem tr_ex_loc_model m bs bd s blk i d fuel :
  str_at m bs s -> nonul s -> nth_error m bd = Some blk -> Z.of_nat (length blk) = EXLEN -> bs <> bd ->
  nth_error m G_exloc = Some gb_exloc -> G_exloc <> bd ->
  Z.of_nat (length s) < EXLEN -> (i <= length s)%nat -> (2 * S (length s) <= fuel)%nat ->
  let rest := fst (ExDefs.ex_loc (skipn i s)) in
  let loc := snd (ExDefs.ex_loc (skipn i s)) in
  exists i', rest = skipn i' s /\ (i <= i' <= length s)%nat /\ (length loc < length blk)%nat /\
    callf cprog fuel (S d) F_ex_loc [VPtr bs (Z.of_nat i); VPtr bd 0] m
    = Ok (VPtr bs (Z.of_nat i'), upd m bd (cstr_cells loc ++ skipn (S (length loc)) blk)).
Proof.
  intros Hs Hn Hd Hlen Hne Hlit Hg Hln Hi Hf rest loc.
  destruct (ex_loc_safe m bs bd s blk i d fuel Hs (nonul_lt256 s Hn) Hd Hlen Hne Hlit Hg Hln Hi Hf) as (i' & w & E & C & L1 & L2 & L3 & L4).
  destruct (ExCapParse.ex_loc_bridge CapDefs.excap s i i' w Hn Hi E) as (B & _ & _).
  exists i'. unfold rest, loc. rewrite B. cbn [fst snd]. repeat split; try assumption; lia.
Qed.
Theorem tr_ex_cmd_model m bs bd s blk i d fuel :
  str_at m bs s -> nonul s -> nth_error m bd = Some blk -> Z.of_nat (length blk) = EXLEN -> bs <> bd ->
  Z.of_nat (length s) < EXLEN -> (i <= length s)%nat -> (S (length s) <= fuel)%nat ->
  let rest := fst (ExDefs.ex_cmd (skipn i s)) in
  let cmd := snd (ExDefs.ex_cmd (skipn i s)) in
  exists i', rest = skipn i' s /\ (i <= i' <= length s)%nat /\ (length cmd <= 17)%nat /\
    callf cprog fuel (S d) F_ex_cmd [VPtr bs (Z.of_nat i); VPtr bd 0] m
    = Ok (VPtr bs (Z.of_nat i'), upd m bd (cstr_cells cmd ++ skipn (S (length cmd)) blk)).
Proof.
  intros Hs Hn Hd Hlen Hne Hln Hi Hf rest cmd.
  destruct (ex_cmd_safe m bs bd s blk i d fuel Hs (nonul_lt256 s Hn) Hd Hlen Hne Hln Hi Hf) as (i' & w & E & C & L1 & L2 & L3 & L4).
  destruct (ExCapParse.ex_cmd_bridge CapDefs.excap s i i' w Hn Hi E) as (B & _ & _).
  exists i'. unfold rest, cmd. rewrite B. cbn [fst snd]. repeat split; try assumption; lia.
Qed.
Theorem tr_ex_arg_model m bs bd be s e blk i d fuel :
  str_at m bs s -> nonul s -> nth_error m bd = Some blk -> Z.of_nat (length blk) = EXLEN -> bs <> bd ->
  str_at m be e -> nonul e -> be <> bd ->
  Z.of_nat (length s) < EXLEN -> (i <= length s)%nat -> (S (length s) <= fuel)%nat ->
  let rest := fst (ExDefs.ex_arg (skipn i s) e) in
  let arg := snd (ExDefs.ex_arg (skipn i s) e) in
  exists i', rest = skipn i' s /\ (i <= i' <= length s)%nat /\ (length arg < length blk)%nat /\
    callf cprog fuel (S d) F_ex_arg [VPtr bs (Z.of_nat i); VPtr bd 0; VPtr be 0] m
    = Ok (VPtr bs (Z.of_nat i'), upd m bd (cstr_cells arg ++ skipn (S (length arg)) blk)).
Proof.
  intros Hs Hn Hd Hlen Hne He Hne' Hbe Hln Hi Hf rest arg.
  destruct (ex_arg_safe m bs bd be s e blk i d fuel Hs (nonul_lt256 s Hn) Hd Hlen Hne He (nonul_lt256 e Hne') Hbe Hln Hi Hf) as (i' & w & E & C & L1 & L2 & L3 & L4).
  destruct (ExCapParse.ex_arg_bridge CapDefs.excap s i i' w e Hn Hne' Hi E) as (B & _ & _).
  exists i'. unfold rest, arg. rewrite B. cbn [fst snd]. repeat split; try assumption; lia.
Qed.
Definition triple_of (r : bytes * bytes * Z * bytes) : bytes * bytes * bytes := let '(l, c, _, a) := r in (l, c, a).
Definition rec_cmd (r : bytes * bytes * Z * bytes) : bytes := let '(_, c, _, _) := r in c.
Theorem runs_parse_line ext bs s bl bc ba n tr ret m ret' m' : nonul s ->
  runs ext bs s bl bc ba n tr 0 ret m ret' m' -> Forall (fun r => ExCapParse.supported (rec_cmd r) = true) tr ->
  map triple_of tr = ExCapParse.parse_line (S (length s)) s.
Proof.
  intros Hn Hrun Hsup. destruct (runs_exec_loop ext bs s bl bc ba Hn n tr 0%nat ret m ret' m' Hrun) as (ps & E & ->).
  change s with (skipn 0 s) at 2.
  rewrite (ExCapParse.exec_loop_bridge s (S n) (S (length s)) 0 ps Hn ltac:(lia) E) by (try lia; rewrite Forall_map in Hsup; exact Hsup).
  rewrite map_map. reflexivity.
Qed.

(* ------------------------------------------------------------------ ex_command: the nesting guard around ex_exec, then lbuf_modified(xb) *)
From NV Require Import TrLbuf.
Notation G_depth := G_ex_command__depth.
Definition BUFS_LB : nat := 33.
Lemma tr_ex_lbuf m gbufs bl d fuel : nth_error m G_bufs = Some gbufs -> nth_error gbufs BUFS_LB = Some (VPtr bl 0) ->
  callf cprog fuel (S d) F_ex_lbuf [] m = Ok (VPtr bl 0, m).
Proof.
  intros Hb Hc. enter F_ex_lbuf cf_ex_lbuf. xstep. rewrite (fld_load m G_bufs gbufs BUFS_LB _ _ Hb Hc) by reflexivity. reflexivity.
Qed.

Theorem tr_ex_command ext m v dep r m1 dep1 gbufs bl blk lb d fuel :
  nth_error m G_depth = Some [VInt dep] -> 0 <= dep < 16 ->
  ext X_ex_exec [v] (upd m G_depth [VInt (dep + 1)]) = Ok (VInt r, m1) ->
  nth_error m1 G_depth = Some [VInt dep1] -> i32 dep1 -> i32 (dep1 - 1) ->
  let m2 := upd m1 G_depth [VInt (dep1 - 1)] in
  nth_error m2 G_bufs = Some gbufs -> nth_error gbufs BUFS_LB = Some (VPtr bl 0) ->
  lbuf_rep m2 bl blk lb -> lbuf_ints lb -> UndoDefs.useq lb < 2147483647 -> v <> VUndef ->
  callx ext cprog fuel (S (S (S d))) F_ex_command [v] m
  = Ok (VInt r, upd m2 bl (upd blk L_useq (VInt (UndoDefs.useq lb + 1)))).
Proof.
  intros Hd Hdep Hx Hd1 Hi1 Hi1' m2 Hb Hlb R Hints Hmax Hv.
  enterx F_ex_command cf_ex_command. xstep.
  rewrite (fld_load m G_depth [VInt dep] 0 _ _ Hd eq_refl) by reflexivity. xstep.
  rewrite wrap_I32_id by (unfold i32; lia). destruct (Z.ltb_spec dep 16); [|lia]. xstep.
  rewrite (fld_load m G_depth [VInt dep] 0 _ _ Hd eq_refl) by reflexivity. xstep.
  rewrite wrap_I32_id by (unfold i32; lia). rewrite chk_I32 by lia. xstep.
  rewrite (fld_store m G_depth [VInt dep] 0 _ _ Hd) by (cbn [length]; try reflexivity; lia). xstep.
  cbn [snd fst]. change (upd [VInt dep] 0 (VInt (dep + 1))) with [VInt (dep + 1)].
  assert (Hgl : match v with VUndef => @Err val EUndef | _ => Ok v end = Ok v) by (destruct v; congruence).
  rewrite Hgl. xstep. rewrite callx_S, x_ex_exec_none.
  match goal with |- context [ext X_ex_exec ?a ?mm] => replace (ext X_ex_exec a mm) with (@Ok (val * mem) (VInt r, m1)) by (symmetry; exact Hx) end.
  xstep. rewrite (fld_load m1 G_depth [VInt dep1] 0 _ _ Hd1 eq_refl) by reflexivity. xstep.
  rewrite wrap_I32_id by exact Hi1. rewrite chk_I32 by (unfold i32 in Hi1'; lia). xstep.
  rewrite (fld_store m1 G_depth [VInt dep1] 0 _ _ Hd1) by (cbn [length]; try reflexivity; lia). xstep.
  cbn [snd fst]. change (upd [VInt dep1] 0 (VInt (dep1 + -1))) with [VInt (dep1 + -1)]. replace (dep1 + -1) with (dep1 - 1) by lia.
  match goal with |- context [callx ext cprog fuel (S (S d)) F_ex_lbuf [] ?mm] => change mm with m2 end.
  rewrite (callx_mono ext cprog fuel (S (S d)) F_ex_lbuf _ _ _ (tr_ex_lbuf m2 gbufs bl (S d) fuel Hb Hlb)). xstep.
  rewrite (callx_mono ext cprog fuel (S (S d)) F_lbuf_modified _ _ _ (proj1 (tr_lbuf_modified m2 bl blk lb d fuel R Hints Hmax))). xstep.
  reflexivity.
Qed.

(* the seventeenth level: the message, 1, then lbuf_modified(xb) as always *)
Definition G_msg_deep : nat :=
  match fn_body cf_ex_command with SSeq _ (SSeq (SIf _ _ (SExpr (ECall _ [EGlob g]))) _) => g | _ => O end.
Theorem tr_ex_command_deep ext m v dep u m1 gbufs bl blk lb d fuel :
  nth_error m G_depth = Some [VInt dep] -> 16 <= dep -> i32 dep ->
  ext X_ex_show [VPtr G_msg_deep 0] m = Ok (u, m1) ->
  nth_error m1 G_bufs = Some gbufs -> nth_error gbufs BUFS_LB = Some (VPtr bl 0) ->
  lbuf_rep m1 bl blk lb -> lbuf_ints lb -> UndoDefs.useq lb < 2147483647 ->
  callx ext cprog fuel (S (S (S d))) F_ex_command [v] m
  = Ok (VInt 1, upd m1 bl (upd blk L_useq (VInt (UndoDefs.useq lb + 1)))).
Proof.
  intros Hd Hdep Hi Hx Hb Hlb R Hints Hmax.
  enterx F_ex_command cf_ex_command. xstep.
  rewrite (fld_load m G_depth [VInt dep] 0 _ _ Hd eq_refl) by reflexivity. xstep.
  rewrite wrap_I32_id by exact Hi. destruct (Z.ltb_spec dep 16); [lia|]. xstep.
  rewrite callx_S, x_ex_show_none.
  match goal with |- context [ext X_ex_show ?a ?mm] => change (ext X_ex_show a mm) with (ext X_ex_show [VPtr G_msg_deep 0] mm) end.
  rewrite Hx. xstep.
  rewrite (callx_mono ext cprog fuel (S (S d)) F_ex_lbuf _ _ _ (tr_ex_lbuf m1 gbufs bl (S d) fuel Hb Hlb)). xstep.
  rewrite (callx_mono ext cprog fuel (S (S d)) F_lbuf_modified _ _ _ (proj1 (tr_lbuf_modified m1 bl blk lb d fuel R Hints Hmax))). xstep. reflexivity.
Qed.

Print Assumptions tr_ex_loc_model. Print Assumptions tr_ex_cmd_model. Print Assumptions tr_ex_arg_model.
Print Assumptions tr_ex_exec. Print Assumptions tr_ex_exec_long. Print Assumptions runs_parse_line. Print Assumptions tr_ex_command. Print Assumptions tr_ex_command_deep.
