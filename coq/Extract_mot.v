(* Extract_mot.v -- extraction of the vi motion model and of the count reader (C07) to OCaml (ExtrOcamlBasic only). *)
From Coq Require Import List NArith ZArith Extraction ExtrOcamlBasic.
From NV Require Import Bytes UcDefs MotDefs MotCountDefs.
Definition all_types : nat * N * Z := (0%nat, 0%N, 0%Z).
Extraction "mot_model.ml" all_types buf_of_bytes run_prog init_vst step run ren_pos ren_off positions
  vi_prefix vi_cnt parse_motion do_motion_z step_keys.
