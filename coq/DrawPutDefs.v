(* DrawPutDefs.v -- executable model of vc_put() of vi.c as far as the screen is concerned: the text it hands to
   lbuf_edit(), the lines lbuf_replace() cuts that text into, and the (r1, r2, n) it passes to vi_drawfix().
   Bytes are `list N`, a newline is 10.  A buffer line is the list of its bytes without the newline (lbuf.c stores
   every line with exactly one newline at its end).  No proofs here (DrawPutProps.v). *)
From Coq Require Import List NArith ZArith Bool.
From NV Require Import TermEmu DrawDefs.
Import ListNotations.

Definition is_nl (c : N) : bool := N.eqb c 10.

(* vi.c linecount(s):  for (n = 0; s; n++) if ((s = strchr(s, '\n'))) s++;  return n;   -- newlines + 1 *)
Fixpoint vi_linecount (s : list N) : nat :=
  match s with
  | [] => 1
  | c :: s' => if is_nl c then S (vi_linecount s') else vi_linecount s'
  end.

Fixpoint count_nl (s : list N) : nat :=
  match s with
  | [] => 0
  | c :: s' => if is_nl c then S (count_nl s') else count_nl s'
  end.

(* for (i = 0; i < cnt; i++) sbuf_str(sb, buf); *)
Fixpoint rep_text (reg : list N) (cnt : nat) : list N :=
  match cnt with
  | O => []
  | S c => reg ++ rep_text reg c
  end.

(* lbuf_replace(): the text is cut after every newline (lbuf.c linelength / linecount); a last piece without a
   newline is a line too.  The lines are returned without their newline. *)
Fixpoint text_lines (s : list N) : list (list N) :=
  match s with
  | [] => []
  | c :: s' =>
    if is_nl c then [] :: text_lines s'
    else match text_lines s' with
         | [] => [[c]]
         | l :: ls => (c :: l) :: ls
         end
  end.

(* what vc_put does to the buffer and what it tells vi_drawfix: lbuf_edit(xb, p_text, p_beg, p_end);
   vi_drawfix(p_r1, p_r2, p_n, 0) *)
Record put_call := mkPut { p_text : list N; p_beg : nat; p_end : nat; p_r1 : Z; p_r2 : Z; p_n : Z }.

(* the character-wise branch.  pref = uc_sub(ln, 0, off), post = uc_sub(ln, off, -1) are the two parts of the cursor
   line ln = lbuf_get(xb, xrow) (post keeps the line's newline); reg is the register, cnt = MAX(1, vi_arg1):
     sbuf_str(sb, pref); for (i = 0; i < cnt; i++) sbuf_str(sb, buf); sbuf_str(sb, post);
     lbuf_edit(xb, sbuf_buf(sb), xrow, xrow + 1);
     lncnt = linecount(sbuf_buf(sb)) - 1;
     vi_drawfix(xrow, xrow, lncnt, 0); *)
Definition vc_put_chars (xrow : nat) (pref post reg : list N) (cnt : nat) : put_call :=
  let text := pref ++ rep_text reg cnt ++ post in
  mkPut text xrow (S xrow) (Z.of_nat xrow) (Z.of_nat xrow) (Z.of_nat (vi_linecount text) - 1).

(* the line-wise branch (xrow: after `p` incremented it):
     for (i = 0; i < cnt; i++) sbuf_str(sb, buf);
     lbuf_edit(xb, sbuf_buf(sb), xrow, xrow);
     lncnt = linecount(sbuf_buf(sb));
     vi_drawfix(xrow, xrow, lncnt, 0); *)
Definition vc_put_lines (xrow : nat) (reg : list N) (cnt : nat) : put_call :=
  let text := rep_text reg cnt in
  mkPut text xrow xrow (Z.of_nat xrow) (Z.of_nat xrow) (Z.of_nat (vi_linecount text)).

(* the screen after the put: vi_drawfix with the arguments of the call on the rows that were shown *)
Definition put_screen (R : Type) (blank : R) (f : nat -> R) (xtop h : nat) (c : put_call) (rows : list R) : list R :=
  drawfix R blank f xtop h (p_r1 c) (p_r2 c) (p_n c) rows.
