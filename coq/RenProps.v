(* RenProps.v -- proofs about the model of ren.c and of the width classes of uc.c (C17). *)
From Coq Require Import List NArith ZArith Lia Bool Arith Permutation Sorted ZifyBool ZifyNat ZifyN.
From NV Require Import Bytes UcDefs UcSpec UcProps UcSegProps GenUcTables GenConf GenConsts DirDefs RenDefs.
Import ListNotations.
Local Open Scope Z_scope.
Ltac Zify.zify_post_hook ::= Z.div_mod_to_equations.

(* ============ A. find(): bisection over a sorted range table is membership ================= *)
Definition sorted (tab : list (Z * Z)) : Prop :=
  forall i j, 0 <= i -> i < j -> j < Z.of_nat (length tab) ->
    fst (nthp tab i) <= snd (nthp tab i) /\ snd (nthp tab i) < fst (nthp tab j).

(* executable check: every row is an interval and lies strictly below every later row *)
Fixpoint sorted_b (tab : list (Z * Z)) : bool :=
  match tab with
  | [] => true
  | (a, b) :: r => (a <=? b) && forallb (fun cd => b <? fst cd) r && sorted_b r
  end.

Lemma sorted_b_nat tab : sorted_b tab = true ->
  forall i j, (i < j)%nat -> (j < length tab)%nat ->
    fst (nth i tab (0,0)) <= snd (nth i tab (0,0)) /\ snd (nth i tab (0,0)) < fst (nth j tab (0,0)).
Proof.
  induction tab as [|[a b] r IH]; intros H i j Hij Hj; [cbn in Hj; lia|].
  cbn [sorted_b] in H. apply andb_prop in H. destruct H as [H H3]. apply andb_prop in H. destruct H as [H1 H2].
  destruct i as [|i].
  - destruct j as [|j]; [lia|]. cbn [nth fst snd]. split; [lia|].
    rewrite forallb_forall in H2. assert (Hin : In (nth j r (0,0)) r) by (apply nth_In; cbn in Hj; lia).
    specialize (H2 _ Hin). lia.
  - destruct j as [|j]; [lia|]. cbn [nth]. apply IH; [exact H3 | lia | cbn in Hj; lia].
Qed.

Lemma sorted_b_sound tab : sorted_b tab = true -> sorted tab.
Proof.
  intros H i j Hi Hij Hj. unfold nthp. apply sorted_b_nat; [exact H | lia | lia].
Qed.

Lemma mem_spec tab c : mem tab c = true <->
  exists i, 0 <= i < Z.of_nat (length tab) /\ fst (nthp tab i) <= c <= snd (nthp tab i).
Proof.
  unfold mem. rewrite existsb_exists. split.
  - intros [[a b] [Hin H]]. apply In_nth with (d:=(0,0)) in Hin. destruct Hin as [n [Hn E]].
    exists (Z.of_nat n). split; [lia|]. unfold nthp. rewrite Nat2Z.id, E. cbn [fst snd]. lia.
  - intros [i [Hi H]]. exists (nthp tab i). split.
    + unfold nthp. apply nth_In. lia.
    + destruct (nthp tab i) as [a b]. cbn [fst snd] in H. lia.
Qed.

Lemma bis_correct tab c : sorted tab ->
  forall fuel l h, 0 <= l -> h < Z.of_nat (length tab) -> (Z.to_nat (h - l + 1) < fuel)%nat ->
  (forall i, 0 <= i < l -> snd (nthp tab i) < c) ->
  (forall i, h < i < Z.of_nat (length tab) -> c < fst (nthp tab i)) ->
  bis fuel tab c l h = Some (mem tab c).
Proof.
  intros S. induction fuel as [|f IH]; intros l h Hl Hh Hf Lo Hi; [lia|].
  cbn [bis]. destruct (h <? l) eqn:E.
  - apply Z.ltb_lt in E. f_equal. symmetry. apply not_true_is_false. rewrite mem_spec.
    intros [i [Hi' H]]. destruct (Z_lt_le_dec i l).
    + specialize (Lo i). lia.
    + specialize (Hi i). lia.
  - apply Z.ltb_ge in E. set (m := (h + l) / 2).
    assert (Hm : l <= m <= h) by (unfold m; lia).
    destruct (nthp tab m) as [a b] eqn:Em.
    destruct ((a <=? c) && (c <=? b)) eqn:Ein.
    + f_equal. symmetry. rewrite mem_spec. exists m. rewrite Em. cbn [fst snd]. lia.
    + destruct (c <? a) eqn:Ec.
      * apply Z.ltb_lt in Ec. apply IH; try lia.
        -- exact Lo.
        -- intros i Hi'. destruct (Z.eq_dec i m) as [->|]. { rewrite Em. cbn [fst]. lia. }
           pose proof (S m i ltac:(lia) ltac:(lia) ltac:(lia)) as [H1 H2]. rewrite Em in H1, H2. cbn [fst snd] in H1, H2. lia.
      * apply Z.ltb_ge in Ec. assert (b < c) by lia. apply IH; try lia.
        -- intros i Hi'. destruct (Z.eq_dec i m) as [->|]. { rewrite Em. cbn [snd]. lia. }
           destruct (Z_lt_le_dec i l). { apply Lo. lia. }
           pose proof (S i m ltac:(lia) ltac:(lia) ltac:(lia)) as [H1 H2]. rewrite Em in H2. cbn [fst] in H2. lia.
        -- exact Hi.
Qed.

(* below the first row nothing is listed *)
Lemma below_first tab c : sorted tab -> c < fst (nthp tab 0) -> mem tab c = false.
Proof.
  intros S Hc. apply not_true_is_false. rewrite mem_spec. intros [i [Hi H]].
  destruct (Z.eq_dec i 0) as [->|]; [lia|].
  pose proof (S 0 i ltac:(lia) ltac:(lia) ltac:(lia)) as [H1 H2]. lia.
Qed.

Theorem tfind_is_membership tab c : sorted tab -> tfind c tab = Some (mem tab c).
Proof.
  intro S. unfold tfind. destruct (c <? fst (nthp tab 0)) eqn:E.
  - apply Z.ltb_lt in E. rewrite below_first by assumption. reflexivity.
  - apply bis_correct; try lia; try exact S.
Qed.

Corollary find_b_is_membership tab c : sorted tab -> find_b c tab = mem tab c.
Proof. intro S. unfold find_b. rewrite tfind_is_membership by exact S. reflexivity. Qed.

(* the generated tables are sorted: re-checked by computation on what the code says now *)
Lemma dwchars_sorted : sorted_b dwchars = true. Proof. vm_compute. reflexivity. Qed.
Lemma zwchars_sorted : sorted_b zwchars = true. Proof. vm_compute. reflexivity. Qed.
Lemma bchars_sorted : sorted_b bchars = true. Proof. vm_compute. reflexivity. Qed.
Lemma dw_min_first : dw_min <=? fst (nthp dwchars 0) = true. Proof. vm_compute. reflexivity. Qed.
Lemma zw_min_first : zw_min <=? fst (nthp zwchars 0) = true. Proof. vm_compute. reflexivity. Qed.

Lemma min_shortcut tab lo c : sorted tab -> lo <=? fst (nthp tab 0) = true ->
  (lo <=? c) && find_b c tab = mem tab c.
Proof.
  intros S H. rewrite find_b_is_membership by exact S. destruct (lo <=? c) eqn:E; [reflexivity|].
  cbn [andb]. symmetry. apply below_first; [exact S|lia].
Qed.

(* the width class of every code point is the one its tables list *)
Theorem uc_isdw_table c : uc_isdw c = mem dwchars c.
Proof. apply min_shortcut; [apply sorted_b_sound, dwchars_sorted | apply dw_min_first]. Qed.
Theorem uc_iszw_table c : uc_iszw c = mem zwchars c.
Proof. apply min_shortcut; [apply sorted_b_sound, zwchars_sorted | apply zw_min_first]. Qed.
Theorem uc_wid_table s : uc_wid s =
  let c := Z.of_N (uc_code s) in if mem zwchars c then 0 else if mem dwchars c then 2 else 1.
Proof. unfold uc_wid. cbv zeta. rewrite uc_iszw_table, uc_isdw_table. reflexivity. Qed.
Theorem uc_isbell_table s : uc_isbell s =
  if plain_ascii (hd0 s) then false else let c := Z.of_N (uc_code s) in mem zwchars c || mem bchars c.
Proof.
  unfold uc_isbell. destruct (plain_ascii (hd0 s)); [reflexivity|]. cbv zeta.
  rewrite uc_iszw_table, find_b_is_membership by (apply sorted_b_sound, bchars_sorted). reflexivity.
Qed.

(* ============ B. cell widths ================================================================== *)
Lemma tab_consts : TABSTOP = 8 /\ TABMASK = Z.ones 3. Proof. vm_compute. split; reflexivity. Qed.

Lemma tab_width p : 0 <= p -> let w := TABSTOP - Z.land p TABMASK in 1 <= w <= 8 /\ (p + w) mod 8 = 0.
Proof.
  intro Hp. destruct tab_consts as [-> ->]. rewrite Z.land_ones by lia. change (2 ^ 3) with 8. cbv zeta. lia.
Qed.

Lemma placeholders_wid : forallb (fun p : bytes * bytes * Z => (1 <=? snd p) && (snd p <=? 8)) placeholders = true.
Proof. vm_compute. reflexivity. Qed.

Lemma ph_lookup_in ps s d w : ph_lookup ps s = Some (d, w) -> exists src, In (src, d, w) ps.
Proof.
  induction ps as [|[[src d'] w'] r IH]; cbn [ph_lookup]; [discriminate|].
  destruct ((hd0 src =? hd0 s)%N && (uc_code src =? uc_code s)%N).
  - intro H. inversion H; subst. exists src. left. reflexivity.
  - intro H. destruct (IH H) as [x Hx]. exists x. right. exact Hx.
Qed.

Lemma ascii_code : forallb (fun c => if (c <? 128)%N then negb (bit c 128 && bit c 64) else true) bytes256 = true.
Proof. vm_compute. reflexivity. Qed.
Lemma uc_code_ascii s : (hd0 s < 128)%N -> uc_code s = hd0 s.
Proof.
  intro H. unfold uc_code. replace (nthb s 0) with (hd0 s) by (destruct s; reflexivity).
  pose proof (byte_sweep _ ascii_code (hd0 s) ltac:(lia)) as K. cbv beta in K.
  destruct (hd0 s <? 128)%N eqn:E; [|lia]. rewrite K. reflexivity.
Qed.
Lemma zw_min_big : 127 <? zw_min = true. Proof. vm_compute. reflexivity. Qed.

Lemma notbell_notzw s : uc_isbell s = false -> uc_iszw (Z.of_N (uc_code s)) = false.
Proof.
  unfold uc_isbell. destruct (plain_ascii (hd0 s)) eqn:P.
  - intros _. unfold plain_ascii in P. assert (hd0 s < 128)%N by lia.
    rewrite uc_code_ascii by assumption. unfold uc_iszw. pose proof zw_min_big.
    destruct (zw_min <=? Z.of_N (hd0 s)) eqn:E; [lia|reflexivity].
  - intro H. apply orb_false_iff in H. apply H.
Qed.

Theorem ren_cwid_range s p : 0 <= p -> 1 <= ren_cwid s p <= 8.
Proof.
  intro Hp. unfold ren_cwid. destruct (hd0 s =? 9)%N.
  - apply (tab_width p Hp).
  - unfold ren_placeholder.
    destruct (if (N.land (hd0 s) ph_bits =? ph_bits)%N then ph_lookup placeholders s else None) as [[d w]|] eqn:E.
    + destruct (N.land (hd0 s) ph_bits =? ph_bits)%N; [|discriminate].
      apply ph_lookup_in in E. destruct E as [src Hin].
      pose proof placeholders_wid as K. rewrite forallb_forall in K. specialize (K _ Hin). cbn [snd] in K. lia.
    + destruct (uc_isbell s) eqn:B; [lia|].
      unfold uc_wid. rewrite notbell_notzw by exact B. destruct (uc_isdw _); lia.
Qed.

(* a tab reaches the next multiple of 8 *)
Theorem ren_cwid_tab s p : 0 <= p -> hd0 s = 9%N -> (p + ren_cwid s p) mod 8 = 0 /\ 1 <= ren_cwid s p <= 8.
Proof.
  intros Hp H. unfold ren_cwid. rewrite H. change (9 =? 9)%N with true. cbv iota.
  pose proof (tab_width p Hp) as K. cbv zeta in K. lia.
Qed.

(* any other character: the declared width of its placeholder, one cell for an unprintable or
   zero-width one (drawn as U+FFFD), else two cells if the tables list it as wide, else one *)
Theorem ren_cwid_class s p : hd0 s <> 9%N ->
  ren_cwid s p = match ren_placeholder s with
                 | (Some _, w) => w
                 | (None, _) => if mem dwchars (Z.of_N (uc_code s)) then 2 else 1
                 end
  /\ (fst (ren_placeholder s) = None -> uc_isbell s = false).
Proof.
  intro H. unfold ren_cwid. destruct (hd0 s =? 9)%N eqn:E; [apply N.eqb_eq in E; contradiction|].
  unfold ren_placeholder.
  destruct (if (N.land (hd0 s) ph_bits =? ph_bits)%N then ph_lookup placeholders s else None) as [[d w]|].
  - split; [reflexivity|discriminate].
  - destruct (uc_isbell s) eqn:B; cbn [fst]; [split; [reflexivity|discriminate]|].
    split; [|reflexivity]. unfold uc_wid. rewrite notbell_notzw by exact B. rewrite uc_isdw_table. reflexivity.
Qed.

(* ============ C. the column table is a gap-free tiling in visual order ========================== *)
(* characters taken in the order vis: each starts where the previous one ended; the last ends at total *)
Fixpoint tiles (cw : nat -> Z -> Z) (pos : list Z) (vis : list nat) (c total : Z) : Prop :=
  match vis with
  | [] => c = total
  | j :: r => nth j pos 0 = c /\ tiles cw pos r (c + cw j c) total
  end.

Lemma tiles_ext cw cw' pos vis c t : (forall j c, cw j c = cw' j c) -> tiles cw pos vis c t -> tiles cw' pos vis c t.
Proof.
  intro E. revert c. induction vis as [|j r IH]; intros c H; cbn [tiles] in *; [exact H|].
  destruct H as [H1 H2]. split; [exact H1|]. rewrite <- E. apply IH. exact H2.
Qed.

Lemma tiles_shift cw x pos vis c t :
  tiles (fun j => cw (S j)) pos vis c t -> tiles cw (x :: pos) (map S vis) c t.
Proof.
  revert c. induction vis as [|j r IH]; intros c H; cbn [tiles map] in *; [exact H|].
  destruct H as [H1 H2]. split; [exact H1|]. apply IH. exact H2.
Qed.

(* -- fast path: the j-th character is reached by j steps of uc_len *)
Fixpoint fast_suf (j : nat) (s : bytes) : bytes :=
  match j with O => s | S k => fast_suf k (skipn (uc_len s) s) end.

Lemma ren_fast_length n : forall s c, length (ren_fast n s c) = S n.
Proof. induction n as [|n IH]; intros s c; cbn [ren_fast length]; [reflexivity|]. rewrite IH. reflexivity. Qed.

Lemma ren_fast_tiles n : forall s c,
  tiles (fun j c => ren_cwid (fast_suf j s) c) (ren_fast n s c) (seq 0 n) c (nth n (ren_fast n s c) 0).
Proof.
  induction n as [|n IH]; intros s c; cbn [ren_fast seq tiles nth]; [reflexivity|].
  split; [reflexivity|]. rewrite <- seq_shift. apply tiles_shift. cbn [fast_suf]. apply IH.
Qed.

(* -- reordering path *)
Lemma upd_length {A} (l : list A) i v : length (upd l i v) = length l.
Proof. revert i. induction l as [|x l IH]; intros [|i]; cbn [upd length]; try reflexivity. rewrite IH. reflexivity. Qed.
Lemma upd_nth_eq {A} (l : list A) i v d : (i < length l)%nat -> nth i (upd l i v) d = v.
Proof. revert i. induction l as [|x l IH]; intros [|i] H; cbn [upd nth length] in *; try lia; [reflexivity|]. apply IH. lia. Qed.
Lemma upd_nth_neq {A} (l : list A) i j v d : i <> j -> nth j (upd l i v) d = nth j l d.
Proof.
  revert i j. induction l as [|x l IH]; intros [|i] [|j] H; cbn [upd nth]; try reflexivity; try lia.
  apply IH. lia.
Qed.

Lemma scatter_length {A} idx : forall (vals acc : list A), length (scatter idx vals acc) = length acc.
Proof.
  induction idx as [|i ir IH]; intros [|v vr] acc; cbn [scatter]; try reflexivity. rewrite IH. apply upd_length.
Qed.
Lemma scatter_notin {A} idx : forall (vals acc : list A) j d, ~ In j idx -> nth j (scatter idx vals acc) d = nth j acc d.
Proof.
  induction idx as [|i ir IH]; intros [|v vr] acc j d H; cbn [scatter]; try reflexivity.
  rewrite IH by (intro K; apply H; right; exact K). apply upd_nth_neq. intro E. apply H. left. exact E.
Qed.
Lemma scatter_nth {A} idx : forall (vals acc : list A) k d d',
  NoDup idx -> length idx = length vals -> (forall x, In x idx -> (x < length acc)%nat) -> (k < length idx)%nat ->
  nth (nth k idx d') (scatter idx vals acc) d = nth k vals d.
Proof.
  induction idx as [|i ir IH]; intros vals acc k d d' Hn Hl Hb Hk; [cbn in Hk; lia|].
  destruct vals as [|v vr]; [cbn in Hl; lia|]. inversion Hn as [|? ? Hi Hr]; subst. cbn [scatter].
  destruct k as [|k]; cbn [nth].
  - rewrite scatter_notin by exact Hi. apply upd_nth_eq. apply Hb. left. reflexivity.
  - apply IH; [exact Hr | cbn in Hl; lia | | cbn in Hk; lia].
    intros x Hx. rewrite upd_length. apply Hb. right. exact Hx.
Qed.

Lemma vcols_length cw vis : forall c, length (fst (vcols cw vis c)) = length vis.
Proof.
  induction vis as [|j r IH]; intro c; cbn [vcols]; [reflexivity|].
  specialize (IH (c + cw j c)). destruct (vcols cw r (c + cw j c)) as [l t]. cbn [fst length] in *. lia.
Qed.

Lemma scatter_tiles cw n vis : forall c init,
  NoDup vis -> (forall x, In x vis -> (x < n)%nat) -> length init = S n ->
  let '(cols, t) := vcols cw vis c in
  let pos := upd (scatter vis cols init) n t in
  tiles cw pos vis c t /\ nth n pos 0 = t /\ length pos = S n.
Proof.
  induction vis as [|j r IH]; intros c init Hn Hb Hl; cbn [vcols].
  - cbn [scatter tiles]. split; [reflexivity|]. split; [apply upd_nth_eq; lia | rewrite upd_length; exact Hl].
  - inversion Hn as [|? ? Hj Hr]; subst.
    specialize (IH (c + cw j c) (upd init j c) Hr (fun x Hx => Hb x (or_intror Hx))).
    rewrite upd_length in IH. specialize (IH Hl).
    destruct (vcols cw r (c + cw j c)) as [cols t]. cbn [scatter tiles].
    destruct IH as [T [Tn Tl]]. split; [|split; assumption]. split; [|exact T].
    assert (j < n)%nat by (apply Hb; left; reflexivity).
    rewrite upd_nth_neq by lia. rewrite scatter_notin by exact Hj. apply upd_nth_eq. lia.
Qed.

(* the inverse of a permutation, as built by the second loop of ren_position_reorder *)
Definition inverse (ord : list nat) (n : nat) : list nat := scatter ord (seq 0 n) (repeat 0%nat n).

Lemma inverse_spec ord n : Permutation ord (seq 0 n) ->
  length (inverse ord n) = n /\ Permutation (inverse ord n) (seq 0 n) /\
  (forall i, (i < n)%nat -> nth (nth i ord 0%nat) (inverse ord n) 0%nat = i).
Proof.
  intro P. unfold inverse.
  assert (Ln : length ord = n) by (rewrite (Permutation_length P); apply seq_length).
  assert (Nd : NoDup ord) by (apply (Permutation_NoDup (Permutation_sym P)), seq_NoDup).
  assert (Bd : forall x, In x ord -> (x < n)%nat).
  { intros x Hx. apply (Permutation_in _ P) in Hx. apply in_seq in Hx. lia. }
  set (off := scatter ord (seq 0 n) (repeat 0%nat n)).
  assert (Lo : length off = n) by (unfold off; rewrite scatter_length; apply repeat_length).
  assert (Hnth : forall i, (i < n)%nat -> nth (nth i ord 0%nat) off 0%nat = i).
  { intros i Hi. unfold off. rewrite (scatter_nth ord (seq 0 n) (repeat 0%nat n) i 0%nat 0%nat); try assumption.
    - rewrite seq_nth by lia. reflexivity.
    - rewrite seq_length. exact Ln.
    - intros x Hx. rewrite repeat_length. apply Bd. exact Hx.
    - lia. }
  split; [exact Lo|]. split; [|exact Hnth].
  assert (E1 : map (fun j => nth j off 0%nat) ord = seq 0 n).
  { apply (nth_ext _ _ 0%nat 0%nat); [rewrite map_length, seq_length; exact Ln|].
    intros k Hk. rewrite map_length in Hk.
    rewrite (nth_indep _ 0%nat (nth 0%nat off 0%nat)) by (rewrite map_length; exact Hk).
    rewrite (map_nth (fun j => nth j off 0%nat)). rewrite Hnth by lia. rewrite seq_nth by lia. reflexivity. }
  assert (E2 : map (fun j => nth j off 0%nat) (seq 0 n) = off).
  { apply (nth_ext _ _ 0%nat 0%nat); [rewrite map_length, seq_length; lia|].
    intros k Hk. rewrite map_length, seq_length in Hk.
    rewrite (nth_indep _ 0%nat (nth 0%nat off 0%nat)) by (rewrite map_length, seq_length; exact Hk).
    rewrite (map_nth (fun j => nth j off 0%nat)). rewrite seq_nth by lia. reflexivity. }
  rewrite <- E2. rewrite <- E1 at 2. apply Permutation_map. apply Permutation_sym. exact P.
Qed.


(* ============ D. nearest-start searches and the column <-> offset round trip =================== *)
Definition dcur (cur : bool) : Z := if cur then 0 else 1.

Lemma pos_prev_f_spec : forall l p cur ret,
  match ret with Some y => y + dcur cur <= p | None => True end ->
  match pos_prev_f l p cur ret with
  | None => ret = None /\ forall x, In x l -> p < x + dcur cur
  | Some v => v + dcur cur <= p /\ (ret = Some v \/ In v l) /\
              (forall x, In x l -> x + dcur cur <= p -> x <= v) /\ (forall y, ret = Some y -> y <= v)
  end.
Proof.
  induction l as [|x r IH]; intros p cur ret Hret; cbn [pos_prev_f].
  - destruct ret as [y|].
    + split; [exact Hret|]. split; [left; reflexivity|]. split; [intros ? []|]. intros z E. inversion E. lia.
    + split; [reflexivity|intros ? []].
  - fold (dcur cur).
    set (ret' := if (x + dcur cur <=? p) && match ret with None => true | Some y => y <? x end then Some x else ret).
    assert (Hret' : match ret' with Some y => y + dcur cur <= p | None => True end).
    { unfold ret'. destruct (x + dcur cur <=? p) eqn:E; cbn [andb]; [|exact Hret].
      destruct ret as [y|]; [destruct (y <? x); [lia|exact Hret] | lia]. }
    specialize (IH p cur ret' Hret').
    destruct (pos_prev_f r p cur ret') as [v|].
    + destruct IH as [H1 [H2 [H3 H4]]]. split; [exact H1|].
      assert (Hx : x + dcur cur <= p -> x <= v).
      { intro E. unfold ret' in H4. destruct (x + dcur cur <=? p) eqn:E'; [|lia]. cbn [andb] in H4.
        destruct ret as [y|].
        - destruct (y <? x) eqn:F; [apply H4; reflexivity|]. specialize (H4 y eq_refl). lia.
        - apply H4. reflexivity. }
      split; [|split].
      * unfold ret' in H2. destruct H2 as [H2|H2]; [|right; right; exact H2].
        destruct ((x + dcur cur <=? p) && match ret with None => true | Some y => y <? x end);
          [inversion H2; right; left; reflexivity | left; exact H2].
      * intros z [<-|Hz] E; [apply Hx; exact E | apply H3; assumption].
      * intros y ->. unfold ret' in H4. destruct (x + dcur cur <=? p) eqn:E'; cbn [andb] in H4.
        -- destruct (y <? x) eqn:F; [specialize (H4 x eq_refl); lia | apply H4; reflexivity].
        -- apply H4. reflexivity.
    + destruct IH as [H1 H2]. unfold ret' in H1.
      destruct (x + dcur cur <=? p) eqn:E; cbn [andb] in H1.
      * destruct ret as [y|]; [destruct (y <? x); discriminate | discriminate].
      * split; [exact H1|]. intros z [<-|Hz]; [lia | apply H2; exact Hz].
Qed.

Lemma pos_next_f_spec : forall l p cur ret,
  match ret with Some y => p <= y - dcur cur | None => True end ->
  match pos_next_f l p cur ret with
  | None => ret = None /\ forall x, In x l -> x - dcur cur < p
  | Some v => p <= v - dcur cur /\ (ret = Some v \/ In v l) /\
              (forall x, In x l -> p <= x - dcur cur -> v <= x) /\ (forall y, ret = Some y -> v <= y)
  end.
Proof.
  induction l as [|x r IH]; intros p cur ret Hret; cbn [pos_next_f].
  - destruct ret as [y|].
    + split; [exact Hret|]. split; [left; reflexivity|]. split; [intros ? []|]. intros z E. inversion E. lia.
    + split; [reflexivity|intros ? []].
  - fold (dcur cur).
    set (ret' := if (p <=? x - dcur cur) && match ret with None => true | Some y => x <? y end then Some x else ret).
    assert (Hret' : match ret' with Some y => p <= y - dcur cur | None => True end).
    { unfold ret'. destruct (p <=? x - dcur cur) eqn:E; cbn [andb]; [|exact Hret].
      destruct ret as [y|]; [destruct (x <? y); [lia|exact Hret] | lia]. }
    specialize (IH p cur ret' Hret').
    destruct (pos_next_f r p cur ret') as [v|].
    + destruct IH as [H1 [H2 [H3 H4]]]. split; [exact H1|].
      assert (Hx : p <= x - dcur cur -> v <= x).
      { intro E. unfold ret' in H4. destruct (p <=? x - dcur cur) eqn:E'; [|lia]. cbn [andb] in H4.
        destruct ret as [y|].
        - destruct (x <? y) eqn:F; [apply H4; reflexivity|]. specialize (H4 y eq_refl). lia.
        - apply H4. reflexivity. }
      split; [|split].
      * unfold ret' in H2. destruct H2 as [H2|H2]; [|right; right; exact H2].
        destruct ((p <=? x - dcur cur) && match ret with None => true | Some y => x <? y end);
          [inversion H2; right; left; reflexivity | left; exact H2].
      * intros z [<-|Hz] E; [apply Hx; exact E | apply H3; assumption].
      * intros y ->. unfold ret' in H4. destruct (p <=? x - dcur cur) eqn:E'; cbn [andb] in H4.
        -- destruct (x <? y) eqn:F; [specialize (H4 x eq_refl); lia | apply H4; reflexivity].
        -- apply H4. reflexivity.
    + destruct IH as [H1 H2]. unfold ret' in H1.
      destruct (p <=? x - dcur cur) eqn:E; cbn [andb] in H1.
      * destruct ret as [y|]; [destruct (x <? y); discriminate | discriminate].
      * split; [exact H1|]. intros z [<-|Hz]; [lia | apply H2; exact Hz].
Qed.

Lemma last_idx_notin : forall l v i off, ~ In v l -> last_idx l v i off = off.
Proof.
  induction l as [|y l IH]; intros v i off H; [reflexivity|]. cbn [last_idx].
  destruct (y =? v) eqn:E; [apply Z.eqb_eq in E; subst; exfalso; apply H; left; reflexivity|].
  apply IH. intro K. apply H. right. exact K.
Qed.
Lemma last_idx_nodup : forall l v k i off, NoDup l -> nth_error l k = Some v -> last_idx l v i off = Some (i + k)%nat.
Proof.
  induction l as [|x r IH]; intros v k i off Hn Hk; [destruct k; discriminate|].
  inversion Hn as [|? ? Hx Hr]; subst. cbn [last_idx]. destruct k as [|k]; cbn [nth_error] in Hk.
  - inversion Hk; subst. rewrite Z.eqb_refl. rewrite last_idx_notin by exact Hx. f_equal. lia.
  - destruct (x =? v) eqn:E.
    + apply Z.eqb_eq in E. subst. exfalso. apply Hx. eapply nth_error_In. exact Hk.
    + rewrite (IH v k (S i) off Hr Hk). f_equal. lia.
Qed.

Lemma firstn_map_nth (pos : list Z) n : (n <= length pos)%nat -> firstn n pos = map (fun j => nth j pos 0) (seq 0 n).
Proof.
  intro H. apply (nth_ext _ _ 0 0).
  - rewrite firstn_length, map_length, seq_length. lia.
  - intros k Hk. rewrite firstn_length in Hk.
    rewrite (nth_indep (map _ _) 0 ((fun j => nth j pos 0) 0%nat)) by (rewrite map_length, seq_length; lia).
    rewrite (map_nth (fun j => nth j pos 0)). rewrite seq_nth by lia. cbn [plus].
    rewrite <- (firstn_skipn n pos) at 2. rewrite app_nth1 by (rewrite firstn_length; lia). reflexivity.
Qed.

Definition stp (pos : list Z) (j : nat) : Z := nth j pos 0.
(* what a tiling with positive widths implies *)
Section Tiling.
Variable cw : nat -> Z -> Z.
Variable pos : list Z.
Hypothesis cw_pos : forall j c, 0 <= c -> 1 <= cw j c.
Notation st := (stp pos).

Lemma tiles_sorted vis : forall c t, 0 <= c -> tiles cw pos vis c t ->
  StronglySorted Z.lt (map st vis) /\ Forall (fun x => c <= x) (map st vis) /\ c <= t /\
  Forall (fun j => st j + cw j (st j) <= t) vis.
Proof.
  induction vis as [|j r IH]; intros c t Hc T; cbn [tiles map] in *.
  - subst. split; [constructor|]. split; [constructor|]. split; [lia|constructor].
  - destruct T as [E T]. pose proof (cw_pos j c Hc) as W.
    assert (Hc' : 0 <= c + cw j c) by lia. destruct (IH _ _ Hc' T) as [S [F [L G]]]. change (nth j pos 0) with (st j) in E.
    repeat split.
    + constructor; [exact S|]. eapply Forall_impl; [|exact F]. cbv beta. intros. lia.
    + constructor; [lia|]. eapply Forall_impl; [|exact F]. cbv beta. intros. lia.
    + lia.
    + constructor; [rewrite E; lia | exact G].
Qed.

(* each character is followed, in the table, by the start of another one or by the total *)
Lemma tiles_succ vis : forall c t j, tiles cw pos vis c t -> In j vis ->
  st j + cw j (st j) = t \/ exists j', In j' vis /\ st j' = st j + cw j (st j).
Proof.
  induction vis as [|j0 r IH]; intros c t j T Hin; [destruct Hin|]. cbn [tiles] in T. destruct T as [E T].
  change (nth j0 pos 0) with (st j0) in E. destruct Hin as [<-|Hin].
  - rewrite E. destruct r as [|j1 r]; cbn [tiles] in T.
    + left. exact T.
    + right. exists j1. split; [right; left; reflexivity|]. apply T.
  - destruct (IH _ _ _ T Hin) as [H|[j' [H1 H2]]]; [left; exact H | right; exists j'; split; [right; exact H1 | exact H2]].
Qed.

Variable n : nat.
Variable vis : list nat.
Variable total : Z.
Hypothesis Hlen : length pos = S n.
Hypothesis Hperm : Permutation vis (seq 0 n).
Hypothesis Htiles : tiles cw pos vis 0 total.

Lemma starts_perm : Permutation (map st vis) (firstn n pos).
Proof. rewrite firstn_map_nth by lia. apply Permutation_map. exact Hperm. Qed.

Lemma starts_nodup : NoDup (firstn n pos).
Proof.
  apply (Permutation_NoDup starts_perm).
  destruct (tiles_sorted vis 0 total ltac:(lia) Htiles) as [S _].
  apply StronglySorted_Sorted in S. apply Sorted_StronglySorted in S; [|intros x y z; lia].
  clear -S. induction S as [|a l S IH F]; constructor; [|exact IH].
  intro K. rewrite Forall_forall in F. specialize (F _ K). lia.
Qed.

Lemma in_firstn_iff x : In x (firstn n pos) <-> exists j, (j < n)%nat /\ st j = x.
Proof.
  rewrite firstn_map_nth by lia. rewrite in_map_iff. split.
  - intros [j [E H]]. apply in_seq in H. exists j. split; [lia | exact E].
  - intros [j [H E]]. exists j. split; [exact E | apply in_seq; lia].
Qed.

Lemma in_vis_iff j : In j vis <-> (j < n)%nat.
Proof.
  split; intro H.
  - apply (Permutation_in _ Hperm) in H. apply in_seq in H. lia.
  - apply (Permutation_in _ (Permutation_sym Hperm)). apply in_seq. lia.
Qed.

Lemma starts_bounds j : (j < n)%nat -> 0 <= st j /\ st j + cw j (st j) <= total.
Proof.
  intro H. destruct (tiles_sorted vis 0 total ltac:(lia) Htiles) as [_ [F [_ G]]].
  rewrite Forall_forall in F, G. split.
  - apply F. apply in_map. apply in_vis_iff. exact H.
  - apply G. apply in_vis_iff. exact H.
Qed.

Lemma nth_firstn_lt (l : list Z) k m : (k < m)%nat -> nth k (firstn m l) 0 = nth k l 0.
Proof.
  revert k l. induction m as [|m IH]; intros k l H; [lia|]. destruct l as [|x l]; [destruct k; reflexivity|].
  destruct k as [|k]; cbn [firstn nth]; [reflexivity|]. apply IH. lia.
Qed.

Lemma first_start : (0 < n)%nat -> exists j0, In j0 vis /\ st j0 = 0.
Proof.
  intro Hn. pose proof Htiles as T. pose proof (Permutation_length Hperm) as L. rewrite seq_length in L.
  revert T L. generalize vis. intros v T L. destruct v as [|j0 r]; [cbn in L; lia|].
  cbn [tiles] in T. exists j0. split; [left; reflexivity | apply T].
Qed.

(* pos_prev(pos, n, p, 1): the greatest start <= p *)
Lemma pos_prev_cur p : 0 <= p -> (0 < n)%nat ->
  exists k, (k < n)%nat /\ pos_prev pos n p true = st k /\ st k <= p /\ (forall j, (j < n)%nat -> st j <= p -> st j <= st k).
Proof.
  intros Hp Hn. unfold pos_prev.
  pose proof (pos_prev_f_spec (firstn n pos) p true None I) as S. cbn [dcur] in S.
  destruct (pos_prev_f (firstn n pos) p true None) as [v|].
  - destruct S as [H1 [[H2|H2] [H3 _]]]; [discriminate|]. apply in_firstn_iff in H2. destruct H2 as [k [Hk E]].
    exists k. cbn [optz]. split; [exact Hk|]. split; [symmetry; exact E|]. split; [lia|].
    intros j Hj Hle. rewrite E. apply H3; [apply in_firstn_iff; exists j; split; [exact Hj|reflexivity] | lia].
  - exfalso. destruct S as [_ S]. destruct first_start as [j0 [Hj0 E]]; [exact Hn|].
    apply in_vis_iff in Hj0.
    specialize (S (st j0) ltac:(apply in_firstn_iff; exists j0; split; [exact Hj0|reflexivity])). lia.
Qed.

(* offset -> column -> offset *)
Theorem off_of_pos k : (k < n)%nat -> ren_off_pos pos n (st k) = k.
Proof.
  intro Hk. unfold ren_off_pos.
  destruct (pos_prev_cur (st k) (proj1 (starts_bounds k Hk)) ltac:(lia)) as [k' [Hk' [E [Hle Hmax]]]].
  rewrite E. assert (st k' = st k) by (specialize (Hmax k Hk); lia).
  rewrite H. rewrite (last_idx_nodup _ (st k) k 0%nat None starts_nodup); [reflexivity|].
  rewrite (nth_error_nth' _ 0) by (rewrite firstn_length; lia). rewrite nth_firstn_lt by exact Hk. reflexivity.
Qed.

Lemma st_inj j k : (j < n)%nat -> (k < n)%nat -> st j = st k -> j = k.
Proof. intros Hj Hk E. rewrite <- (off_of_pos j Hj), <- (off_of_pos k Hk), E. reflexivity. Qed.

(* column -> offset: the character whose cells contain the column *)
Theorem pos_of_off p : 0 <= p -> (0 < n)%nat ->
  let k := ren_off_pos pos n p in
  (k < n)%nat /\ pos_prev pos n p true = st k /\ st k <= p /\ (p < total -> p < st k + cw k (st k)).
Proof.
  intros Hp Hn. cbv zeta.
  destruct (pos_prev_cur p Hp Hn) as [k [Hk [E [Hle Hmax]]]].
  assert (Ek : ren_off_pos pos n p = k).
  { unfold ren_off_pos. rewrite E. fold (ren_off_pos pos n (st k)). 
    pose proof (off_of_pos k Hk) as K. unfold ren_off_pos in K.
    destruct (pos_prev_cur (st k) (proj1 (starts_bounds k Hk)) Hn) as [k' [Hk' [E' [Hle' Hmax']]]].
    rewrite E' in K. assert (st k' = st k) by (specialize (Hmax' k Hk); lia). rewrite H in K. exact K. }
  rewrite Ek. split; [exact Hk|]. split; [exact E|]. split; [exact Hle|].
  intro Ht. destruct (tiles_succ vis 0 total k Htiles (proj2 (in_vis_iff k) Hk)) as [H|[j' [H1 H2]]]; [lia|].
  apply in_vis_iff in H1. pose proof (cw_pos k (st k) (proj1 (starts_bounds k Hk))).
  destruct (Z_lt_le_dec p (st k + cw k (st k))) as [L|L]; [exact L|].
  specialize (Hmax j' H1 ltac:(lia)). lia.
Qed.

(* neighbours in visual order *)
Lemma tiles_adjacent l1 k l2 : forall c t, tiles cw pos (l1 ++ k :: l2) c t ->
  match l2 with [] => st k + cw k (st k) = t | j2 :: _ => st j2 = st k + cw k (st k) end.
Proof.
  induction l1 as [|a l1 IH]; intros c t T; cbn [app tiles] in T.
  - destruct T as [E T]. change (nth k pos 0) with (st k) in E. rewrite E.
    destruct l2 as [|j2 l2]; cbn [tiles] in T; [exact T | apply T].
  - destruct T as [_ T]. eapply IH. exact T.
Qed.

Lemma sorted_app_inv (a : list Z) x b : StronglySorted Z.lt (a ++ x :: b) ->
  Forall (fun y => y < x) a /\ Forall (fun y => x < y) b /\ StronglySorted Z.lt b /\ StronglySorted Z.lt a.
Proof.
  induction a as [|y a IH]; cbn [app]; intro S.
  - inversion S; subst. repeat split; [constructor | assumption | assumption | constructor].
  - inversion S as [|? ? S' F]; subst. destruct (IH S') as [H1 [H2 [H3 H4]]].
    rewrite Forall_app in F. destruct F as [Fa Fx]. inversion Fx; subst.
    repeat split; [constructor; assumption | exact H2 | exact H3 | constructor; assumption].
Qed.

Lemma vis_split_facts l1 k l2 : vis = l1 ++ k :: l2 ->
  Forall (fun j => st j < st k) l1 /\ Forall (fun j => st k < st j) l2 /\
  StronglySorted Z.lt (map st l2) /\ StronglySorted Z.lt (map st l1).
Proof.
  intro V. destruct (tiles_sorted vis 0 total ltac:(lia) Htiles) as [S _]. rewrite V in S.
  rewrite map_app in S. cbn [map] in S. apply sorted_app_inv in S. destruct S as [H1 [H2 [H3 H4]]].
  rewrite Forall_map in H1, H2. repeat split; assumption.
Qed.

Lemma start_cases l1 k l2 x : vis = l1 ++ k :: l2 -> In x (firstn n pos) ->
  (exists j, In j l1 /\ st j = x) \/ x = st k \/ (exists j, In j l2 /\ st j = x).
Proof.
  intros V H. apply in_firstn_iff in H. destruct H as [j [Hj E]]. apply in_vis_iff in Hj. rewrite V in Hj.
  apply in_app_or in Hj. destruct Hj as [Hj|[<-|Hj]]; [left; exists j; auto | right; left; auto | right; right; exists j; auto].
Qed.

Theorem right_neighbour l1 k l2 : vis = l1 ++ k :: l2 ->
  pos_next pos n (st k) false = match l2 with [] => -1 | j2 :: _ => st j2 end.
Proof.
  intro V. destruct (vis_split_facts l1 k l2 V) as [F1 [F2 [S2 _]]]. rewrite Forall_forall in F1, F2.
  unfold pos_next. pose proof (pos_next_f_spec (firstn n pos) (st k) false None I) as S. cbn [dcur] in S.
  destruct (pos_next_f (firstn n pos) (st k) false None) as [v|]; cbn [optz].
  - destruct S as [H1 [[H2|H2] [H3 _]]]; [discriminate|].
    destruct (start_cases l1 k l2 v V H2) as [[j [Hj E]]|[E|[j [Hj E]]]].
    + specialize (F1 j Hj). lia.
    + lia.
    + destruct l2 as [|j2 l2]; [destruct Hj|].
      assert (Hin2 : In (st j2) (firstn n pos)).
      { apply in_firstn_iff. exists j2. split; [|reflexivity]. apply in_vis_iff. rewrite V. apply in_or_app. right. right. left. reflexivity. }
      pose proof (F2 j2 (or_introl eq_refl)). specialize (H3 _ Hin2 ltac:(lia)).
      destruct Hj as [<-|Hj]; [lia|]. cbn [map] in S2. inversion S2 as [|? ? _ Fl]; subst.
      rewrite Forall_map, Forall_forall in Fl. specialize (Fl j Hj). lia.
  - destruct S as [_ S]. destruct l2 as [|j2 l2]; [reflexivity|]. exfalso.
    assert (Hin2 : In (st j2) (firstn n pos)).
    { apply in_firstn_iff. exists j2. split; [|reflexivity]. apply in_vis_iff. rewrite V. apply in_or_app. right. right. left. reflexivity. }
    pose proof (F2 j2 (or_introl eq_refl)). specialize (S _ Hin2). lia.
Qed.

Lemma sorted_last_max (l : list Z) x : StronglySorted Z.lt (l ++ [x]) -> Forall (fun y => y < x) l.
Proof. intro S. apply sorted_app_inv in S. apply S. Qed.

Theorem left_neighbour l1 k l2 : vis = l1 ++ k :: l2 ->
  pos_prev pos n (st k) false = match rev l1 with [] => -1 | j1 :: _ => st j1 end.
Proof.
  intro V. destruct (vis_split_facts l1 k l2 V) as [F1 [F2 [_ S1]]]. rewrite Forall_forall in F1, F2.
  unfold pos_prev. pose proof (pos_prev_f_spec (firstn n pos) (st k) false None I) as S. cbn [dcur] in S.
  destruct (rev l1) as [|j1 r1] eqn:R.
  - assert (l1 = []) by (apply (f_equal (@rev nat)) in R; rewrite rev_involutive in R; exact R). subst l1.
    destruct (pos_prev_f (firstn n pos) (st k) false None) as [v|]; cbn [optz]; [|reflexivity]. exfalso.
    destruct S as [H1 [[H2|H2] _]]; [discriminate|].
    destruct (start_cases [] k l2 v V H2) as [[j [[] _]]|[E|[j [Hj E]]]]; [lia|]. specialize (F2 j Hj). lia.
  - assert (L1 : l1 = rev r1 ++ [j1]) by (apply (f_equal (@rev nat)) in R; rewrite rev_involutive in R; exact R).
    assert (Hj1 : In j1 l1) by (rewrite L1; apply in_or_app; right; left; reflexivity).
    assert (Hin1 : In (st j1) (firstn n pos)).
    { apply in_firstn_iff. exists j1. split; [|reflexivity]. apply in_vis_iff. rewrite V. apply in_or_app. left. exact Hj1. }
    pose proof (F1 j1 Hj1).
    destruct (pos_prev_f (firstn n pos) (st k) false None) as [v|]; cbn [optz].
    + destruct S as [H1 [[H2|H2] [H3 _]]]; [discriminate|]. specialize (H3 _ Hin1 ltac:(lia)).
      destruct (start_cases l1 k l2 v V H2) as [[j [Hj E]]|[E|[j [Hj E]]]].
      * rewrite L1 in Hj. apply in_app_or in Hj. destruct Hj as [Hj|[<-|[]]]; [|lia].
        rewrite L1, map_app in S1. cbn [map] in S1. apply sorted_last_max in S1.
        rewrite Forall_map, Forall_forall in S1. specialize (S1 j Hj). lia.
      * lia.
      * specialize (F2 j Hj). lia.
    + exfalso. destruct S as [_ S]. specialize (S _ Hin1). lia.
Qed.
End Tiling.
Section RenProps.
Variable dr : bytes -> list nat -> list nat.
Variable o : ropts.
(* "given that ord is a permutation" (C18_permutation) *)
Hypothesis dr_perm : forall s, Permutation (dr s (seq 0 (uc_slen s))) (seq 0 (uc_slen s)).

Definition the_ord (s : bytes) : list nat :=
  if xorder o =? 0 then seq 0 (uc_slen s) else dr s (seq 0 (uc_slen s)).
(* logical indices in visual order *)
Definition vis_order (s : bytes) : list nat :=
  if use_reorder o s then inverse (the_ord s) (uc_slen s) else seq 0 (uc_slen s).
(* the bytes of the j-th character as each path finds it *)
Definition chr_of (s : bytes) (j : nat) : bytes :=
  if use_reorder o s then chr_at s (uc_chop s) j else fast_suf j s.

Lemma the_ord_perm s : Permutation (the_ord s) (seq 0 (uc_slen s)).
Proof. unfold the_ord. destruct (xorder o =? 0); [reflexivity | apply dr_perm]. Qed.

Lemma vis_order_perm s : Permutation (vis_order s) (seq 0 (uc_slen s)).
Proof.
  unfold vis_order. destruct (use_reorder o s); [|reflexivity].
  apply (inverse_spec _ _ (the_ord_perm s)).
Qed.

Theorem ren_tiling s :
  let n := uc_slen s in
  let pos := ren_position dr o s in
  length pos = S n /\
  Permutation (vis_order s) (seq 0 n) /\
  tiles (fun j c => ren_cwid (chr_of s j) c) pos (vis_order s) 0 (nth n pos 0) /\
  (use_reorder o s = false -> vis_order s = seq 0 n) /\
  (use_reorder o s = true -> forall i, (i < n)%nat -> nth (nth i (the_ord s) 0%nat) (vis_order s) 0%nat = i).
Proof.
  cbv zeta. split; [|split; [apply vis_order_perm|]].
  - unfold ren_position. destruct (use_reorder o s).
    + unfold ren_position_reorder. fold (the_ord s). fold (inverse (the_ord s) (uc_slen s)).
      pose proof (inverse_spec _ _ (the_ord_perm s)) as [_ [P _]].
      pose proof (scatter_tiles (fun j c => ren_cwid (chr_at s (uc_chop s) j) c) (uc_slen s) (inverse (the_ord s) (uc_slen s)) 0
                    (repeat 0 (S (uc_slen s)))) as K.
      destruct (vcols _ _ 0) as [cols t]. apply K.
      * apply (Permutation_NoDup (Permutation_sym P)), seq_NoDup.
      * intros x Hx. apply (Permutation_in _ P) in Hx. apply in_seq in Hx. lia.
      * apply repeat_length.
    + apply ren_fast_length.
  - unfold ren_position, vis_order, chr_of. destruct (use_reorder o s) eqn:U.
    + split; [|split; [discriminate|]].
      * unfold ren_position_reorder. fold (the_ord s). fold (inverse (the_ord s) (uc_slen s)).
        pose proof (inverse_spec _ _ (the_ord_perm s)) as [_ [P _]].
        pose proof (scatter_tiles (fun j c => ren_cwid (chr_at s (uc_chop s) j) c) (uc_slen s) (inverse (the_ord s) (uc_slen s)) 0
                      (repeat 0 (S (uc_slen s)))) as K.
        destruct (vcols _ _ 0) as [cols t].
        destruct K as [T [Tn _]].
        -- apply (Permutation_NoDup (Permutation_sym P)), seq_NoDup.
        -- intros x Hx. apply (Permutation_in _ P) in Hx. apply in_seq in Hx. lia.
        -- apply repeat_length.
        -- rewrite Tn. exact T.
      * intros _ i Hi. apply (inverse_spec _ _ (the_ord_perm s)). exact Hi.
    + split; [apply ren_fast_tiles|]. split; [reflexivity|discriminate].
Qed.

(* ---- the model functions of ren.c, for every line and option setting ---- *)
Definition cwf (s : bytes) : nat -> Z -> Z := fun j c => ren_cwid (chr_of s j) c.
Lemma cwf_pos s : forall j c, 0 <= c -> 1 <= cwf s j c.
Proof. intros j c H. unfold cwf. pose proof (ren_cwid_range (chr_of s j) c H). lia. Qed.

Lemma til s : length (ren_position dr o s) = S (uc_slen s) /\ Permutation (vis_order s) (seq 0 (uc_slen s)) /\
  tiles (cwf s) (ren_position dr o s) (vis_order s) 0 (nth (uc_slen s) (ren_position dr o s) 0).
Proof. pose proof (ren_tiling s) as K. cbv zeta in K. destruct K as [A [B [C _]]]. auto. Qed.

(* offset -> column -> offset, for every character *)
Theorem ren_roundtrip s off : 0 <= off < Z.of_nat (uc_slen s) ->
  Z.of_nat (ren_off dr o s (ren_pos dr o s off)) = off.
Proof.
  intro H. destruct (til s) as [A [B C]]. unfold ren_off, ren_pos.
  destruct (off <? Z.of_nat (uc_slen s)) eqn:E; [|lia].
  change (nth (Z.to_nat off) (ren_position dr o s) 0) with (stp (ren_position dr o s) (Z.to_nat off)).
  rewrite (off_of_pos (cwf s) _ (cwf_pos s) (uc_slen s) (vis_order s) _ A B C) by lia. lia.
Qed.

(* column -> offset -> column: the start of the character whose cells contain the column *)
Theorem ren_covering s p : 0 <= p -> (0 < uc_slen s)%nat ->
  let k := ren_off dr o s p in
  (k < uc_slen s)%nat /\ ren_pos dr o s (Z.of_nat k) <= p /\
  (p < ren_wid dr o s -> p < ren_pos dr o s (Z.of_nat k) + ren_cwid (chr_of s k) (ren_pos dr o s (Z.of_nat k))).
Proof.
  intros Hp Hn. destruct (til s) as [A [B C]]. cbv zeta.
  pose proof (pos_of_off (cwf s) _ (cwf_pos s) (uc_slen s) (vis_order s) _ A B C p Hp Hn) as K. cbv zeta in K.
  fold (ren_off dr o s p) in K. destruct K as [K1 [_ [K3 K4]]].
  unfold ren_pos, ren_wid. destruct (Z.of_nat (ren_off dr o s p) <? Z.of_nat (uc_slen s)) eqn:E; [|lia].
  rewrite Nat2Z.id. split; [exact K1|]. split; [exact K3|exact K4].
Qed.

Definition is_nl (s : bytes) (j : nat) : bool := (hd0 (chr_suffix s j) =? 10)%N.

(* moving right / left from column p: the start of the character displayed immediately to the right /
   left of the character at p; -1 at the line ends and before the terminator *)
Theorem ren_next_spec s p l1 l2 : 0 <= p -> (0 < uc_slen s)%nat ->
  vis_order s = l1 ++ ren_off dr o s p :: l2 ->
  ren_next dr o s p 1 = match l2 with
                        | [] => -1
                        | j2 :: _ => if is_nl s j2 then -1 else ren_pos dr o s (Z.of_nat j2)
                        end /\
  ren_next dr o s p (-1) = match rev l1 with
                           | [] => -1
                           | j1 :: _ => if is_nl s j1 then -1 else ren_pos dr o s (Z.of_nat j1)
                           end.
Proof.
  intros Hp Hn V. destruct (til s) as [A [B C]].
  pose proof (pos_of_off (cwf s) _ (cwf_pos s) (uc_slen s) (vis_order s) _ A B C p Hp Hn) as K. cbv zeta in K.
  fold (ren_off dr o s p) in K. destruct K as [K1 [K2 _]].
  assert (Hin : forall j, In j (vis_order s) -> (j < uc_slen s)%nat).
  { intros j Hj. apply (Permutation_in _ B) in Hj. apply in_seq in Hj. lia. }
  assert (Hpos : forall j, (j < uc_slen s)%nat -> ren_pos dr o s (Z.of_nat j) = stp (ren_position dr o s) j).
  { intros j Hj. unfold ren_pos. destruct (Z.of_nat j <? Z.of_nat (uc_slen s)) eqn:E; [|lia]. rewrite Nat2Z.id. reflexivity. }
  unfold ren_next. rewrite K2. split.
  - change (0 <=? 1) with true. cbv iota.
    rewrite (right_neighbour (cwf s) _ (cwf_pos s) (uc_slen s) (vis_order s) _ A B C l1 _ l2 V).
    destruct l2 as [|j2 l2].
    + destruct (negb _); reflexivity.
    + assert (Hj2 : (j2 < uc_slen s)%nat) by (apply Hin; rewrite V; apply in_or_app; right; right; left; reflexivity).
      unfold ren_off at 1. rewrite (off_of_pos (cwf s) _ (cwf_pos s) (uc_slen s) (vis_order s) _ A B C j2 Hj2).
      rewrite Hpos by exact Hj2. unfold is_nl. destruct (hd0 (chr_suffix s j2) =? 10)%N; reflexivity.
  - change (0 <=? -1) with false. cbv iota.
    rewrite (left_neighbour (cwf s) _ (cwf_pos s) (uc_slen s) (vis_order s) _ A B C l1 _ l2 V).
    destruct (rev l1) as [|j1 r1] eqn:R.
    + destruct (negb _); reflexivity.
    + assert (Hj1 : (j1 < uc_slen s)%nat).
      { apply Hin. rewrite V. apply in_or_app. left. apply in_rev. rewrite R. left. reflexivity. }
      unfold ren_off at 1. rewrite (off_of_pos (cwf s) _ (cwf_pos s) (uc_slen s) (vis_order s) _ A B C j1 Hj1).
      rewrite Hpos by exact Hj1. unfold is_nl. destruct (hd0 (chr_suffix s j1) =? 10)%N; reflexivity.
Qed.

(* the cursor column of the character at p (not the terminator): its last cell *)
Theorem ren_cursor_spec s p : 0 <= p -> (0 < uc_slen s)%nat ->
  let k := ren_off dr o s p in
  (uc_code (chr_suffix s k) =? 10)%N = false ->
  ren_cursor dr o s p = ren_pos dr o s (Z.of_nat k) + ren_cwid (chr_of s k) (ren_pos dr o s (Z.of_nat k)) - 1.
Proof.
  intros Hp Hn. cbv zeta. intro Hnl. destruct (til s) as [A [B C]].
  pose proof (pos_of_off (cwf s) _ (cwf_pos s) (uc_slen s) (vis_order s) _ A B C p Hp Hn) as K. cbv zeta in K.
  fold (ren_off dr o s p) in K. destruct K as [K1 [K2 _]].
  set (k := ren_off dr o s p) in *.
  assert (Hk : In k (vis_order s)) by (apply (Permutation_in _ (Permutation_sym B)); apply in_seq; lia).
  apply in_split in Hk. destruct Hk as [l1 [l2 V]].
  unfold ren_cursor. rewrite K2.
  replace (ren_off dr o s (stp (ren_position dr o s) k)) with k
    by (unfold ren_off; rewrite (off_of_pos (cwf s) _ (cwf_pos s) (uc_slen s) (vis_order s) _ A B C k K1); reflexivity).
  rewrite Hnl.
  rewrite (right_neighbour (cwf s) _ (cwf_pos s) (uc_slen s) (vis_order s) _ A B C l1 k l2 V).
  pose proof (tiles_adjacent (cwf s) (ren_position dr o s) l1 k l2 0 _ ltac:(rewrite <- V; exact C)) as Adj.
  pose proof (starts_bounds (cwf s) _ (cwf_pos s) (uc_slen s) (vis_order s) _ A B C k K1) as [Bk _].
  pose proof (cwf_pos s k _ Bk) as W.
  assert (Hpos : ren_pos dr o s (Z.of_nat k) = stp (ren_position dr o s) k).
  { unfold ren_pos. destruct (Z.of_nat k <? Z.of_nat (uc_slen s)) eqn:E; [|lia]. rewrite Nat2Z.id. reflexivity. }
  rewrite Hpos. fold (cwf s k (stp (ren_position dr o s) k)).
  destruct l2 as [|j2 l2].
  - change (0 <=? -1) with false. cbv iota. rewrite <- Adj.
    destruct (0 <=? stp (ren_position dr o s) k + cwf s k (stp (ren_position dr o s) k) - 1) eqn:E; lia.
  - assert (Hj2 : (j2 < uc_slen s)%nat).
    { assert (In j2 (vis_order s)) by (rewrite V; apply in_or_app; right; right; left; reflexivity).
      apply (Permutation_in _ B) in H. apply in_seq in H. lia. }
    pose proof (starts_bounds (cwf s) _ (cwf_pos s) (uc_slen s) (vis_order s) _ A B C j2 Hj2) as [B2 _].
    destruct (0 <=? stp (ren_position dr o s) j2) eqn:E; [|lia]. rewrite Adj.
    destruct (0 <=? stp (ren_position dr o s) k + cwf s k (stp (ren_position dr o s) k) - 1) eqn:E'; lia.
Qed.

Theorem ren_wid_total s : ren_wid dr o s = nth (uc_slen s) (ren_position dr o s) 0.
Proof. reflexivity. Qed.
End RenProps.

(* ---- packaged statements cited by Properties_C17.v ---- *)
Theorem tables_sorted : sorted dwchars /\ sorted zwchars /\ sorted bchars /\
  dw_min <= fst (nthp dwchars 0) /\ zw_min <= fst (nthp zwchars 0).
Proof.
  split; [apply sorted_b_sound, dwchars_sorted|]. split; [apply sorted_b_sound, zwchars_sorted|].
  split; [apply sorted_b_sound, bchars_sorted|]. pose proof dw_min_first. pose proof zw_min_first. lia.
Qed.
Theorem width_class : forall s,
  (forall c, uc_isdw c = mem dwchars c) /\ (forall c, uc_iszw c = mem zwchars c) /\
  uc_wid s = (let c := Z.of_N (uc_code s) in if mem zwchars c then 0 else if mem dwchars c then 2 else 1) /\
  uc_isbell s = (if plain_ascii (hd0 s) then false else let c := Z.of_N (uc_code s) in mem zwchars c || mem bchars c).
Proof.
  intro s. split; [exact uc_isdw_table|]. split; [exact uc_iszw_table|]. split; [apply uc_wid_table | apply uc_isbell_table].
Qed.
(* membership in a range table cannot change between two consecutive bounds of the table *)
Lemma mem_const tab : forall c c', c <= c' ->
  (forall x, In x (bounds_of tab) -> ~ (c < x <= c')) -> mem tab c = mem tab c'.
Proof.
  induction tab as [|[a b] tab IH]; intros c c' L H; [reflexivity|].
  unfold mem in *. cbn [existsb].
  rewrite (IH c c' L) by (intros x Hx; apply H; cbn [bounds_of flat_map]; apply in_or_app; right; exact Hx).
  f_equal.
  assert (Ha : ~ (c < a <= c')) by (apply H; cbn; auto).
  assert (Hb : ~ (c < b + 1 <= c')) by (apply H; cbn; auto).
  destruct (a <=? c) eqn:E1, (c <=? b) eqn:E2, (a <=? c') eqn:E3, (c' <=? b) eqn:E4; try reflexivity;
    rewrite ?Z.leb_le, ?Z.leb_gt in *; lia.
Qed.

Theorem width_class_const : forall c c', c <= c' ->
  (forall x, In x class_bounds -> ~ (c < x <= c')) ->
  uc_isdw c = uc_isdw c' /\ uc_iszw c = uc_iszw c' /\ tfind c bchars = tfind c' bchars /\ uc_acomb c = uc_acomb c' /\
  forall s s', Z.of_N (uc_code s) = c -> Z.of_N (uc_code s') = c' -> plain_ascii (hd0 s) = plain_ascii (hd0 s') ->
    uc_wid s = uc_wid s' /\ uc_isbell s = uc_isbell s'.
Proof.
  intros c c' L H.
  assert (D : mem dwchars c = mem dwchars c') by (apply mem_const; [exact L|intros x Hx; apply H; unfold class_bounds; rewrite !in_app_iff; auto]).
  assert (Zw : mem zwchars c = mem zwchars c') by (apply mem_const; [exact L|intros x Hx; apply H; unfold class_bounds; rewrite !in_app_iff; auto]).
  assert (B : mem bchars c = mem bchars c') by (apply mem_const; [exact L|intros x Hx; apply H; unfold class_bounds; rewrite !in_app_iff; auto]).
  assert (A : mem acomb_ranges c = mem acomb_ranges c') by (apply mem_const; [exact L|intros x Hx; apply H; unfold class_bounds; rewrite !in_app_iff; auto]).
  destruct tables_sorted as [_ [_ [SB _]]].
  split; [rewrite !uc_isdw_table; exact D|].
  split; [rewrite !uc_iszw_table; exact Zw|].
  split; [rewrite !tfind_is_membership by exact SB; rewrite B; reflexivity|].
  split; [exact A|].
  intros s s' Hs Hs' Hp. split.
  - rewrite !uc_wid_table. cbv zeta. rewrite Hs, Hs', D, Zw. reflexivity.
  - rewrite !uc_isbell_table. cbv zeta. rewrite Hs, Hs', Hp, Zw, B. reflexivity.
Qed.

Theorem cwid_class : forall s p,
  (0 <= p -> hd0 s = 9%N -> (p + ren_cwid s p) mod 8 = 0 /\ 1 <= ren_cwid s p <= 8) /\
  (hd0 s <> 9%N ->
     ren_cwid s p = match ren_placeholder s with
                    | (Some _, w) => w
                    | (None, _) => if mem dwchars (Z.of_N (uc_code s)) then 2 else 1
                    end
     /\ (fst (ren_placeholder s) = None -> uc_isbell s = false)).
Proof. intros s p. split; [apply ren_cwid_tab | apply ren_cwid_class]. Qed.
Theorem roundtrip : forall dr o,
  (forall s, Permutation (dr s (seq 0 (uc_slen s))) (seq 0 (uc_slen s))) ->
  forall s,
  (forall off, 0 <= off < Z.of_nat (uc_slen s) -> Z.of_nat (ren_off dr o s (ren_pos dr o s off)) = off) /\
  (forall p, 0 <= p -> (0 < uc_slen s)%nat ->
     let k := ren_off dr o s p in
     (k < uc_slen s)%nat /\ ren_pos dr o s (Z.of_nat k) <= p /\
     (p < ren_wid dr o s -> p < ren_pos dr o s (Z.of_nat k) + ren_cwid (chr_of o s k) (ren_pos dr o s (Z.of_nat k)))).
Proof. intros dr o H s. split; [apply ren_roundtrip; exact H | apply ren_covering; exact H]. Qed.

(* ---- valid UTF-8: both paths see the code-point segmentation (ties C17_tiling to C16) ---- *)
Lemma nth_bounds cs : forall base j, (j <= length cs)%nat -> nth j (bounds cs base) 0%nat = (base + off_of cs j)%nat.
Proof.
  induction cs as [|c r IH]; intros base j Hj.
  - cbn in Hj. assert (j = 0)%nat by lia. subst. cbn. unfold off_of. cbn. lia.
  - destruct j as [|j]; cbn [bounds nth].
    + rewrite off_of_0. lia.
    + rewrite IH by (cbn in Hj; lia). rewrite off_of_S. lia.
Qed.

Lemma fast_suf_chars : forall j cs, Forall scalar cs -> (j <= length cs)%nat -> fast_suf j (chars cs) = chars (skipn j cs).
Proof.
  induction j as [|j IH]; intros cs Hs Hj; [reflexivity|].
  destruct cs as [|c r]; [cbn in Hj; lia|]. inversion Hs; subst.
  cbn [fast_suf skipn]. rewrite chars_cons.
  rewrite (proj1 (uc_len_code_encode c (chars r) H1)). rewrite skipn_app_exact. apply IH; [assumption | cbn in Hj; lia].
Qed.

(* on valid UTF-8 both paths of ren_position see the same characters: the code-point segmentation *)
Theorem chr_of_valid o cs j : Forall scalar cs -> (j <= length cs)%nat -> chr_of o (chars cs) j = chars (skipn j cs).
Proof.
  intros Hs Hj. unfold chr_of. destruct (use_reorder o (chars cs)).
  - unfold chr_at. rewrite uc_chop_chars by exact Hs. rewrite nth_bounds by exact Hj. cbn [plus]. apply skipn_off_of.
  - apply fast_suf_chars; assumption.
Qed.
