(* Search4Defs.v -- C13, round i/j: (a) what "the literal with its \< / \> qualifies at byte r" means for the fast path of
   rstr.c, so that "the scan examines EVERY start offset" can be stated: the answer is the LEAST qualifying offset of the
   window, also when occurrences overlap; (b) the state a search can inherit from earlier ones: the search state of ex.c / vi.c
   (sstate: last pattern, direction, line offset) and the file-static flag re_bad of regex.c, threaded through every
   compilation a session of search commands performs (lbuf_search compiles its pattern on every call).
   No proofs in this file. *)
From Coq Require Import List NArith ZArith Bool Arith.
From NV Require Import Bytes UcDefs GenConsts SearchDefs Search2Defs.
From NV Require ReSyntax RsetDefs ReStateDefs.
Import ListNotations.
Local Open Scope nat_scope.

(* ---------------------------------------------------------------------------------------------- *)
(* (a) a boundary-qualified occurrence *)

(* the byte in front of byte r of the subject; prev = the byte in front of the subject itself (None: nothing is seen) *)
Definition before (prev : option N) (s : bytes) (r : nat) : option N :=
  match r with O => prev | S q => Some (nthb s q) end.

(* \< holds at byte r: no word byte in front, a word byte at r *)
Definition wbeg_ok (prev : option N) (s : bytes) (r : nat) : bool :=
  negb (prev_word (before prev s r)) && isword_b (nthb s r).

(* \> holds at byte e (the end of the occurrence): a word byte in front, none at e; rstr_find does not test it
   when the subject ends at e (r[len] == 0 -- never the case inside a newline-terminated line) *)
Definition wend_ok (prev : option N) (s : bytes) (e : nat) : bool :=
  (nthb s e =? 0)%N || (prev_word (before prev s e) && negb (isword_b (nthb s e))).

(* the literal of sp occurs at byte r and the word anchors sp carries hold there *)
Definition qualifies (ic : bool) (sp : simple) (prev : option N) (s : bytes) (r : nat) : Prop :=
  occurs_at ic (lit sp) s r /\
  (wbeg sp = true -> wbeg_ok prev s r = true) /\
  (wend sp = true -> wend_ok prev s (r + length (lit sp)) = true).

Definition qualifiesb (ic : bool) (sp : simple) (prev : option N) (s : bytes) (r : nat) : bool :=
  occurs_atb ic (lit sp) s r && implb (wbeg sp) (wbeg_ok prev s r) && implb (wend sp) (wend_ok prev s (r + length (lit sp))).

(* the start offsets rstr_find considers: the occurrence ends before the last byte of the subject (the newline);
   with ^ only offset 0 and only where ^ holds, with $ only the offset whose occurrence ends right there *)
Definition candidate (sp : simple) (prev : option N) (notbol : bool) (s : bytes) (q : nat) : Prop :=
  q + length (lit sp) < length s /\
  (lbeg sp = true -> q = 0 /\ bol_ok prev notbol s = true) /\
  (lend sp = true -> q + length (lit sp) + 1 = length s).

(* ---------------------------------------------------------------------------------------------- *)
(* (b) sessions *)

(* a / or ? command that brings its own pattern (a non-empty text before the closing delimiter) *)
Definition carries_pattern (c : scmd) : bool :=
  match c with
  | CSlash t => match fst (re_read 47%N t) with [] => false | _ => true end
  | CQuest t => match fst (re_read 63%N t) with [] => false | _ => true end
  | _ => false
  end.

Section After.
Variable fmk : bytes -> bytes -> nat -> option (nat * nat).
Variable rcomp : bytes -> bool.

(* the search state and the cursor after a command sequence *)
Fixpoint state_after (st : sstate) (lb : list bytes) (cmds : list (scmd * nat)) (xrow xoff : nat) : sstate * (nat * nat) :=
  match cmds with
  | [] => (st, (xrow, xoff))
  | (c, n) :: rest =>
    let '(st1, _, (r, o)) := search_cmd fmk rcomp st lb c n xrow xoff in state_after st1 lb rest r o
  end.
End After.

(* the flag.  rcomp_st kw fl = (rstr_make(kw, ...) != NULL, re_bad afterwards) when re_bad is fl before the call *)
Section Flag.
Variable fmk : bytes -> bytes -> nat -> option (nat * nat).
Variable rcomp_st : bytes -> bool -> bool * bool.

Definition lbuf_search_st (kw : bytes) (lb : list bytes) (fwd : bool) (r0 o0 : nat) (fl : bool) : sres * bool :=
  let '(c, fl1) := rcomp_st kw fl in
  (if c then lbuf_search_g (fmk kw) lb fwd r0 o0 else SNotFound, fl1).

Fixpoint search_iter_st (cnt : nat) (kw : bytes) (lb : list bytes) (fwd : bool) (r o : nat) (fl : bool) : sres * bool :=
  match cnt with
  | O => (SFound r o 0, fl)
  | S c => match lbuf_search_st kw lb fwd r o fl with
           | (SFound r1 o1 _, fl1) => search_iter_st c kw lb fwd r1 o1 fl1
           | (x, fl1) => (x, fl1)
           end
  end.

(* vi.c vi_search, statement by statement as SearchDefs.vi_search *)
Definition vi_search_st (st : sstate) (lb : list bytes) (cmd : scmd) (cnt : nat) (row off : nat) (fl : bool)
  : sstate * option (nat * option nat) * bool :=
  let st1 := match cmd with
             | CSlash t => prompt_search st 47%N t
             | CQuest t => prompt_search st 63%N t
             | _ => st
             end in
  match lb with
  | [] => (st1, None, fl)
  | _ =>
    if (kdir st1 =? 0)%Z then (st1, None, fl)
    else
      let d := match cmd with CPrev => (- kdir st1)%Z | _ => kdir st1 end in
      match search_iter_st cnt (kwd st1) lb (0 <? d)%Z row off fl with
      | (SFound r o _, fl1) =>
        if soset st1 then
          let r' := (Z.of_nat r + so st1)%Z in
          if (r' <? 0)%Z || (Z.of_nat (length lb) <=? r')%Z then (st1, None, fl1)
          else (st1, Some (Z.to_nat r', None), fl1)
        else (st1, Some (r, Some o), fl1)
      | (_, fl1) => (st1, None, fl1)
      end
  end.

Definition search_cmd_st (st : sstate) (lb : list bytes) (cmd : scmd) (cnt : nat) (xrow xoff : nat) (fl : bool)
  : sstate * bool * (nat * nat) * bool :=
  let ln := nth xrow lb [] in
  let noff := ren_noeol ln xoff in
  let '(st0, ok0) :=
    match cmd with
    | CWord => match vi_curword ln noff with
               | Some w => ({| kwd := firstn (Z.to_nat EXLEN - 1) ([92; 60]%N ++ w ++ [92; 62]%N);
                               kdir := 1%Z; soset := false; so := so st |}, true)
               | None => (st, false)
               end
    | _ => (st, true)
    end in
  if negb ok0 then (st0, false, (xrow, xoff), fl)
  else
    let '(st1, res, fl1) := vi_search_st st0 lb (match cmd with CWord => CNext | c => c end) cnt xrow noff fl in
    match res with
    | None => (st1, false, (xrow, xoff), fl1)
    | Some (r, oo) =>
      let s := nth r lb [] in
      let o := match oo with Some o => o | None => lbuf_indents s end in
      (st1, true, (r, ren_noeol s o), fl1)
    end.

Fixpoint run_cmds_st (st : sstate) (lb : list bytes) (cmds : list (scmd * nat)) (xrow xoff : nat) (fl : bool)
  : list (bool * (nat * nat)) * bool :=
  match cmds with
  | [] => ([], fl)
  | (c, n) :: rest =>
    let '(st1, ok, (r, o), fl1) := search_cmd_st st lb c n xrow xoff fl in
    let '(out, fl2) := run_cmds_st st1 lb rest r o fl1 in
    ((ok, (r, o)) :: out, fl2)
  end.
End Flag.

(* the compile chain of the code: rstr_make takes the fast path for  ^? \<? literal \>? $?  (rset_make is not called, the flag is
   not touched), otherwise rset_make(1, &kw, flg) -> regcomp("((kw))") of the C10 model with the flag threaded
   (ReStateDefs.rset_make_gen; entry_reset = the statement "re_bad = 0;" at the top of regcomp is present) *)
Definition code_rcomp_gen (entry_reset ic : bool) (kw : bytes) (fl : bool) : bool * bool :=
  match rstr_simple kw with
  | Some _ => (true, fl)
  | None =>
    match ReStateDefs.rset_make_gen entry_reset ([Some kw], if ic then RE_ICASE else 0%Z) fl with
    | (ReSyntax.Ok (Some _), fl1) => (true, fl1)
    | (_, fl1) => (false, fl1)
    end
  end.
Definition code_rcomp_st : bool -> bytes -> bool -> bool * bool := code_rcomp_gen true.

(* the same decision from the pure functions: rstr_make(kw, xic ? RE_ICASE : 0) != NULL *)
Definition code_rcomp (ic : bool) (kw : bytes) : bool :=
  match rstr_simple kw with
  | Some _ => true
  | None => match RsetDefs.rset_make [Some kw] (if ic then RE_ICASE else 0%Z) with ReSyntax.Ok (Some _) => true | _ => false end
  end.

(* an ex command (:s :g) that read a non-empty pattern: ex_kwdset(pat, +1) *)
Definition ex_kwdset_fwd (st : sstate) (pat : bytes) : sstate := kwdset st (Some pat) 1%Z.
