(* ReBoundary2.v -- C11/C10: on a valid UTF-8 line every start position regexec tries is a character boundary,
   WHATEVER bytes the pattern consists of (no hypothesis on the pattern: stray continuation bytes, truncated lead
   bytes ...).  Hence every reported match is a derivation that starts at a character start of the line: a search that
   looks for candidate starts byte-wise (strstr for a literal prefix) is outside the model. *)
From Coq Require Import List Arith Lia Bool ZArith NArith.
From NV Require Import Bytes GenConsts UcDefs UcSpec UcProps UcSegProps ReSyntax ReParse ReEmit ReVM ReSem ReProps ReProps2 ReProps3 ReProps4 ReProps5 ReBoundary.
Import ListNotations.

Lemma tried_B cs : Forall scalar cs -> forall k o s p, B cs s -> In p (tried (chars cs) k o s) -> B cs p.
Proof.
  intros Hs. induction k as [|k IH]; intros o s p Hb H; cbn [tried] in H; [destruct H|].
  destruct (rdk SUcLen (chars cs) o) as [co| |]; try destruct H.
  destruct (co =? 0)%N; [destruct H|]. destruct H as [<-|H]; [exact Hb|].
  eapply IH; [|exact H]. apply B_next; assumption.
Qed.

Theorem regexec_starts_on_boundary pat p cflg nsub eflg d subs c cs :
  Forall scalar cs -> regcomp pat = Ok (Some p) ->
  regexec_d d p cflg (chars cs) nsub eflg = (Ok (Some subs), c) ->
  exists k s1, k <= length cs /\
    M st (atom_step (Z.lor cflg eflg) (chars cs)) mark_step (tr (tree p)) (mark_step 0 (init (off_of cs k))) s1 /\
    subs = psub_of (snd (mark_step 1 s1)) nsub.
Proof.
  intros Hs Hc H. unfold regexec_d in H.
  destruct (re_loop d (code p) (Z.lor cflg eflg) (chars cs) (length (chars cs) + 2) 0 0) as [[[r|]| |] c0] eqn:L; inversion H; subst subs c0; clear H.
  pose proof (regcomp_layout _ _ Hc) as Lay.
  assert (C : code_at (code p) 0 ([IMark 0] ++ emit (tr (tree p)) 1 ++ [IMark 1; IMatch])) by (rewrite <- Lay; apply code_at_self).
  destruct (re_loop_sound d (code p) (Z.lor cflg eflg) (chars cs) (tr (tree p)) C _ _ _ _ _ L) as (p0 & s1 & I & M1 & E).
  destruct (tried_B cs Hs _ _ _ _ (B_0 cs) I) as (k & Hk & ->).
  exists k, s1. split; [exact Hk|]. split; [exact M1|]. rewrite E. reflexivity.
Qed.

(* ... and the reported start offset of the whole match IS that boundary: the groups of the tree are numbered from 1
   (rnode_grpnum(rnode, 1)), so no derivation of the pattern rewrites mark 0 *)
From NV Require Import RsetDefs ReProps8 ReGroups ReGroups2.

Lemma regcomp_tree pat p : regcomp pat = Ok (Some p) -> exists t, tree p = fst (grpnum t 1).
Proof.
  unfold regcomp. destruct (parse_pat pat) as [[[t|] rest]|w|]; cbn [bind fst snd]; try discriminate.
  destruct (parse_bad pat || negb match rest with [] => true | _ :: _ => false end); [discriminate|].
  destruct ((0 <=? NINST)%Z && (NINST <=? count t + 3)%Z); [discriminate|].
  intro H. inversion H; subst. exists t. reflexivity.
Qed.

Theorem regexec_start_offset pat p cflg nsub eflg d subs c cs :
  Forall scalar cs -> regcomp pat = Ok (Some p) -> 1 <= nsub ->
  regexec_d d p cflg (chars cs) nsub eflg = (Ok (Some subs), c) ->
  exists k, k <= length cs /\ fst (nth 0 subs ((-1)%Z, (-1)%Z)) = Z.of_nat (off_of cs k).
Proof.
  intros Hs Hc Hn H.
  destruct (regexec_starts_on_boundary _ _ _ _ _ _ _ _ _ Hs Hc H) as (k & s1 & Hk & M1 & ->).
  exists k. split; [exact Hk|].
  unfold psub_of. rewrite nth_map_seq by lia. cbn [Nat.mul].
  assert (L0 : Nat.ltb 0 nmarks = true) by reflexivity. rewrite L0. cbn [fst].
  change (nth 0 (snd (mark_step 1 s1)) (-1)%Z) with (mk (mark_step 1 s1) 0).
  rewrite (mk_mark_other) by lia.
  destruct (regcomp_tree _ _ Hc) as (t & Et).
  rewrite (M_frame _ _ _ _ _ M1 0).
  - unfold mk, mark_step, init. assert (Z0 : (Z.of_nat 0 <? NGRPS)%Z = true) by reflexivity. rewrite Z0. cbn [fst snd].
    apply nth_upd_same. rewrite repeat_length. apply Nat.ltb_lt. exact L0.
  - intros g Hg. apply rgroups_tr in Hg. rewrite Et in Hg. apply tgroups_grpnum in Hg. lia.
Qed.
