(* TrViOp4.v -- C08: vi_case of /repo/vi.c (g~ gu gU) on the translated C text (whitelist tools/c2clite.d/99zzzzz_viops.list), with the vocabulary of
   coq/TrViOp.v.  The loop that converts the region text in place (the block lbuf_region returned), then the line-wise edit. *)
From Coq Require Import List ZArith NArith Bool Lia.
From NV Require Import Bytes UcDefs CLite CLiteProps GenCFuncs CLiteTac CLiteExt TrLbufBase MotDefs TrUc TrMot TrViOpPure TrViOp.
Import ListNotations.
Local Open Scope Z_scope.
Ltac xc := repeat (progress (xcbn; cbn [b2z fst snd]; try change (0 =? 0) with true; try change (1 =? 0) with false; cbn [negb])).

(* ------------------------------------------------------------------ the case conversion of one byte, as <ctype.h> does it in the C locale *)
Definition lowz (c : Z) : Z := if ct_isupper c then c + 32 else c.
Definition upz (c : Z) : Z := if ct_islower c then c - 32 else c.
(* vi_case on the first byte c of a character: only ASCII is converted; cmd = 'u' 'U' '~' *)
Definition case_z (cmd c : Z) : Z :=
  if c <=? 127 then (if cmd =? 117 then lowz c else if cmd =? 85 then upz c else if cmd =? 126 then (if ct_islower c then upz c else lowz c) else c) else c.
Definition case_byte (cmd : Z) (c : N) : N := Z.to_N (case_z cmd (Z.of_N c)).
Lemma case_z_range cmd c : 0 < c < 256 -> 0 < case_z cmd c < 256 /\ (c <= 127 -> case_z cmd c <= 127).
Proof.
  intro H. unfold case_z, lowz, upz, ct_isupper, ct_islower.
  destruct (Z.leb_spec c 127); [|lia]. destruct (cmd =? 117); [destruct (Z.leb_spec 65 c); destruct (Z.leb_spec c 90); cbn [andb]; lia|].
  destruct (cmd =? 85); [destruct (Z.leb_spec 97 c); destruct (Z.leb_spec c 122); cbn [andb]; lia|].
  destruct (cmd =? 126); [|lia]. destruct (Z.leb_spec 97 c); destruct (Z.leb_spec c 122); cbn [andb]; destruct (Z.leb_spec 65 c); destruct (Z.leb_spec c 90); cbn [andb]; lia.
Qed.
(* the text after the loop: every character's first byte converted, the characters found with uc_next on the converted text *)
Fixpoint case_f (k : nat) (cmd : Z) (t : bytes) : bytes :=
  match k with
  | O => t
  | S k' => match t with
            | [] => []
            | c :: r => let c' := case_byte cmd c in let n := uc_next (c' :: r) in c' :: firstn (n - 1) r ++ case_f k' cmd (skipn (n - 1) r)
            end
  end.
Definition case_b (cmd : Z) (t : bytes) : bytes := case_f (length t) cmd t.

(* storing one byte into a string *)
Lemma upd_cstr (s : bytes) o c : (o < length s)%nat ->
  upd (cstr_block (zb s)) o (VInt (Z.of_N c)) = cstr_block (zb (firstn o s ++ c :: skipn (S o) s)).
Proof.
  intro H. unfold cstr_block, zb. rewrite upd_app_old by (rewrite !map_length; exact H). f_equal.
  unfold upd. rewrite !firstn_map, !skipn_map, !map_app. cbn [map]. reflexivity.
Qed.

Lemma ct_arg_ok c : 0 <= c < 256 -> ct_arg c = Ok c.
Proof. intro H. unfold ct_arg. destruct (Z.leb_spec (-1) c); [|lia]. destruct (Z.leb_spec c 255); [|lia]. reflexivity. Qed.
Lemma b_tolower m c : 0 <= c < 256 -> do_builtin_m BTolower [VInt c] m = Ok (VInt (lowz c), m).
Proof. intro H. cbn [do_builtin_m do_builtin]. rewrite ct_arg_ok by exact H. reflexivity. Qed.
Lemma b_toupper m c : 0 <= c < 256 -> do_builtin_m BToupper [VInt c] m = Ok (VInt (upz c), m).
Proof. intro H. cbn [do_builtin_m do_builtin]. rewrite ct_arg_ok by exact H. reflexivity. Qed.
Lemma b_islower m c : 0 <= c < 256 -> do_builtin_m BIslower [VInt c] m = Ok (VInt (b2z (ct_islower c)), m).
Proof. intro H. cbn [do_builtin_m do_builtin]. rewrite ct_arg_ok by exact H. reflexivity. Qed.
Lemma wrap_I8_small z : 0 <= z <= 127 -> wrap I8 z = z.
Proof.
  intro H. unfold wrap. cbn [ity_bits ity_signed andb]. change (2 ^ 8) with 256. change (2 ^ (8 - 1)) with 128.
  rewrite Z.mod_small by lia. destruct (Z.leb_spec 128 z); [lia|reflexivity].
Qed.

Definition vcase_loop : stmt := match fn_body cf_vi_case with SSeq _ (SSeq _ (SSeq w _)) => w | _ => SSkip end.
Definition vcase_if : stmt := match vcase_loop with SWhile _ (SSeq _ (SSeq i _)) => i | _ => SSkip end.

Section Case.
  Variable ext : nat -> list val -> mem -> res (val * mem).
  Variable fuel : nat.
  Local Notation cx D := (callx ext cprog fuel D).

  Lemma upd_at0 (m0 : mem) x tl y : upd (m0 ++ x :: tl) (length m0) y = m0 ++ y :: tl.
  Proof. rewrite <- (Nat.add_0_r (length m0)) at 1. rewrite upd_app_at. reflexivity. Qed.
  Lemma str_at0 (m0 : mem) s tl : str_at (m0 ++ cstr_block (zb s) :: tl) (length m0) s.
  Proof. unfold str_at. rewrite <- (Nat.add_0_r (length m0)), nth_app_at. reflexivity. Qed.

  (* if (c <= 0x7f) { the three conditional stores }: the byte at o becomes case_byte cmd c *)
  Lemma vcase_if_ok call F m0 tl cur o cmd l0 l1 l2 l3 l4 l6 l7 l8 l11 : (o < length cur)%nat -> nonul cur ->
    let c := nthb cur o in
    exec call F vcase_if (mkst [l0; l1; l2; l3; l4; VInt cmd; l6; l7; l8; VPtr (length m0) (Z.of_nat o); VInt (Z.of_N c); l11] (m0 ++ cstr_block (zb cur) :: tl))
    = ONormal (mkst [l0; l1; l2; l3; l4; VInt cmd; l6; l7; l8; VPtr (length m0) (Z.of_nat o); VInt (Z.of_N c); l11]
                    (m0 ++ cstr_block (zb (firstn o cur ++ case_byte cmd c :: skipn (S o) cur)) :: tl)).
  Proof.
    intros Ho Hn c. pose proof (nonul_lt256 cur Hn) as H256. pose proof (nthb_lt256 cur o H256) as Hc. fold c in Hc.
    assert (Hc0 : (0 < c)%N).
    { unfold c, nthb. unfold nonul in Hn. rewrite Forall_forall in Hn. destruct (Hn (nth o cur 0%N) (nth_In _ _ Ho)) as [H1 _]. lia. }
    assert (Hself : firstn o cur ++ c :: skipn (S o) cur = cur).
    { unfold c. rewrite <- (skipn_cons_nthb cur o Ho). apply firstn_skipn. }
    assert (Hblk : nth_error (m0 ++ cstr_block (zb cur) :: tl) (length m0) = Some (cstr_block (zb cur))) by apply str_at0.
    assert (Hlenb : Z.of_nat o < Z.of_nat (length (cstr_block (zb cur)))).
    { unfold cstr_block, zb. rewrite app_length, !map_length. cbn [length]. lia. }
    assert (Hst : forall z, 0 < z < 256 -> z <= 127 ->
       store (m0 ++ cstr_block (zb cur) :: tl) (length m0) (Z.of_nat o + 1 * 0) (VInt (wrap I8 (wrap I8 z)))
       = Ok (m0 ++ cstr_block (zb (firstn o cur ++ Z.to_N z :: skipn (S o) cur)) :: tl)).
    { intros z Hz Hz7. replace (Z.of_nat o + 1 * 0) with (Z.of_nat o) by lia.
      rewrite (store_ok _ _ _ _ _ Hblk) by lia. rewrite Nat2Z.id, upd_at0, !wrap_I8_small by (rewrite ?wrap_I8_small by lia; lia).
      rewrite <- (Z2N.id z) at 1 by lia. rewrite upd_cstr by exact Ho. reflexivity. }
    unfold vcase_if. cbn [vcase_loop fn_body cf_vi_case]. xs. unfold case_byte, case_z.
    destruct (Z.leb_spec (Z.of_N c) 127) as [L7|L7]; xs; [|rewrite N2Z.id, Hself; reflexivity].
    assert (Rl : 0 < lowz (Z.of_N c) < 256 /\ lowz (Z.of_N c) <= 127).
    { pose proof (case_z_range 117 (Z.of_N c) ltac:(lia)) as [A B]. unfold case_z in A, B. destruct (Z.leb_spec (Z.of_N c) 127); [|lia]. cbn in A, B. split; [exact A|apply B; lia]. }
    assert (Ru : 0 < upz (Z.of_N c) < 256 /\ upz (Z.of_N c) <= 127).
    { pose proof (case_z_range 85 (Z.of_N c) ltac:(lia)) as [A B]. unfold case_z in A, B. destruct (Z.leb_spec (Z.of_N c) 127); [|lia]. cbn in A, B. split; [exact A|apply B; lia]. }
    destruct (Z.eqb_spec cmd 117) as [E1|E1]; xs.
    - rewrite b_tolower by lia. xs. rewrite (Hst _ (proj1 Rl) (proj2 Rl)). xs.
      destruct (Z.eqb_spec cmd 85); [lia|]. xs. destruct (Z.eqb_spec cmd 126); [lia|]. xs. reflexivity.
    - destruct (Z.eqb_spec cmd 85) as [E2|E2]; xs.
      + rewrite b_toupper by lia. xs. rewrite (Hst _ (proj1 Ru) (proj2 Ru)). xs. destruct (Z.eqb_spec cmd 126); [lia|]. xs. reflexivity.
      + destruct (Z.eqb_spec cmd 126) as [E3|E3]; xs; [|rewrite N2Z.id, Hself; reflexivity].
        rewrite b_islower by lia. xs. rewrite ?nb2z. destruct (ct_islower (Z.of_N c)) eqn:El; xs.
        * rewrite b_toupper by lia. xs. rewrite (Hst _ (proj1 Ru) (proj2 Ru)). reflexivity.
        * rewrite b_tolower by lia. xs. rewrite (Hst _ (proj1 Rl) (proj2 Rl)). reflexivity.
  Qed.

  Lemma case_byte_ok cmd c : (0 < c < 256)%N -> byte_ok (case_byte cmd c).
  Proof. intro H. unfold case_byte, byte_ok. pose proof (case_z_range cmd (Z.of_N c) ltac:(lia)) as [A _]. lia. Qed.
  Lemma uc_next_le'' t : (uc_next t <= length t)%nat.
  Proof.
    unfold uc_next. pose proof (uc_end_in t) as H.
    destruct (N.eqb_spec (nthb t (uc_end t)) 0) as [E|E]; [exact H|].
    destruct (Nat.eq_dec (uc_end t) (length t)) as [E2|E2]; [|lia]. rewrite E2, nthb_end in E by lia. congruence.
  Qed.

  (* the loop: the bytes in front of the pointer are final, the rest is still the region text *)
  Lemma vcase_loop_ok D m0 tl cmd l0 l1 l2 l3 l4 l6 l7 l8 l11 : forall k cur o F (l10 : val), nonul cur -> (length cur - o <= k)%nat -> (o <= length cur)%nat ->
    (k < F)%nat -> (length cur < fuel)%nat ->
    exists o' l10',
    exec (cx (S (S (S D)))) F vcase_loop (mkst [l0; l1; l2; l3; l4; VInt cmd; l6; l7; l8; VPtr (length m0) (Z.of_nat o); l10; l11] (m0 ++ cstr_block (zb cur) :: tl))
    = ONormal (mkst [l0; l1; l2; l3; l4; VInt cmd; l6; l7; l8; VPtr (length m0) o'; l10'; l11]
                    (m0 ++ cstr_block (zb (firstn o cur ++ case_f k cmd (skipn o cur))) :: tl)).
  Proof.
    induction k as [|k IH]; intros cur o F l10 Hn Hk Ho HF Hfu; (destruct F as [|F]; [lia|]); pose proof (nonul_lt256 cur Hn) as H256;
      unfold vcase_loop; cbn [fn_body cf_vi_case]; rewrite exec_while; xc;
      rewrite (load_str _ (length m0) cur _ o (str_at0 m0 cur tl)) by lia; xc; rewrite (sx_i8_nz _ (nthb_lt256 cur o H256)).
    - assert (o = length cur) by lia. subst o. rewrite nthb_end by lia. change (0 =? 0)%N with true. xc.
      exists (Z.of_nat (length cur)), l10. rewrite skipn_all. cbn [case_f]. rewrite firstn_all, app_nil_r. reflexivity.
    - destruct (Nat.eq_dec o (length cur)) as [->|Hne].
      + rewrite nthb_end by lia. change (0 =? 0)%N with true. xc. exists (Z.of_nat (length cur)), l10. rewrite skipn_all. cbn [case_f]. rewrite firstn_all, app_nil_r. reflexivity.
      + assert (Hlt : (o < length cur)%nat) by lia. set (c := nthb cur o).
        assert (Hc : (0 < c < 256)%N).
        { unfold c, nthb. unfold nonul in Hn. rewrite Forall_forall in Hn. destruct (Hn (nth o cur 0%N) (nth_In _ _ Hlt)). lia. }
        destruct (N.eqb_spec c 0); [lia|]. xc.
        match goal with |- context [SSeq (SIf (EBin OLe I32 (ELocal 10) (EConst 127)) ?a ?b) ?r] => change (SIf (EBin OLe I32 (ELocal 10) (EConst 127)) a b) with vcase_if end.
        rewrite exec_seq, exec_expr. xc. rewrite (load_str _ (length m0) cur _ o (str_at0 m0 cur tl)) by lia. xc.
        rewrite (wrap_byte_chain _ (nthb_lt256 cur o H256)). fold c. xc.
        rewrite exec_seq, (vcase_if_ok _ (S F) m0 tl cur o cmd l0 l1 l2 l3 l4 l6 l7 l8 l11 Hlt Hn). fold c.
        set (c' := case_byte cmd c). set (r := skipn (S o) cur). set (cur' := firstn o cur ++ c' :: r).
        assert (Hn' : nonul cur').
        { unfold cur'. apply nonul_app; [apply nonul_firstn; exact Hn|]. constructor; [apply case_byte_ok; exact Hc|apply nonul_skipn'; exact Hn]. }
        assert (Hl' : length cur' = length cur).
        { unfold cur', r. rewrite app_length, firstn_length, Nat.min_l by lia. cbn [length]. rewrite skipn_length. lia. }
        assert (Hsk : skipn o cur' = c' :: r).
        { unfold cur'. rewrite skipn_app, firstn_length, Nat.min_l by lia. rewrite skipn_all2 by (rewrite firstn_length; lia). rewrite Nat.sub_diag. reflexivity. }
        rewrite exec_expr. xc.
        rewrite (callx_mono ext _ _ _ _ _ _ _ (tr_uc_next _ (length m0) cur' o (S D) fuel (str_at0 m0 cur' tl) (nonul_lt256 cur' Hn') ltac:(lia) ltac:(lia))). xc.
        rewrite Hsk. set (nn := uc_next (c' :: r)).
        assert (Hnr : (1 <= nn <= S (length r))%nat).
        { destruct (TrMot.nonul_next (c' :: r)) as (_ & H2 & _); [rewrite <- Hsk; apply nonul_skipn'; exact Hn'|discriminate|]. cbn [length] in H2. exact H2. }
        assert (Hlr : length r = (length cur - S o)%nat) by (unfold r; apply skipn_length).
        destruct (IH cur' (o + nn)%nat F (VInt (Z.of_N c)) Hn' ltac:(lia) ltac:(lia) ltac:(lia) ltac:(lia)) as (o' & l10' & X).
        unfold vcase_loop in X; cbn [fn_body cf_vi_case] in X.
        match type of X with context [SSeq (SIf (EBin OLe I32 (ELocal 10) (EConst 127)) ?a ?b) ?r0] => change (SIf (EBin OLe I32 (ELocal 10) (EConst 127)) a b) with vcase_if in X end.
        replace (Z.of_nat o + Z.of_nat nn) with (Z.of_nat (o + nn)) by lia.
        rewrite X. exists o', l10'. do 4 f_equal.
        rewrite (skipn_cons_nthb cur o Hlt). fold c. fold r. cbn [case_f]. fold c'. fold nn.
        assert (F1 : firstn (o + nn) cur' = firstn o cur ++ c' :: firstn (nn - 1) r).
        { unfold cur'. rewrite firstn_app, firstn_length, Nat.min_l by lia. rewrite firstn_all2 by (rewrite firstn_length; lia).
          replace (o + nn - o)%nat with (S (nn - 1)) by lia. reflexivity. }
        assert (F2 : skipn (o + nn) cur' = skipn (nn - 1) r).
        { unfold cur'. rewrite skipn_app, firstn_length, Nat.min_l by lia. rewrite skipn_all2 by (rewrite firstn_length; lia).
          replace (o + nn - o)%nat with (S (nn - 1)) by lia. reflexivity. }
        rewrite F1, F2, <- app_assoc. reflexivity.
  Qed.

  (* ================================================================ vi_case, line-wise (g~~ guu gUU and line motions) *)
  Hypothesis OR : oracles ext.
  Variable lown : nat -> Prop.
  Definition vcase_rest : stmt := match fn_body cf_vi_case with SSeq _ (SSeq _ (SSeq _ r)) => r | _ => SSkip end.
  Definition case_text (lines : list bytes) (r1 o1 r2 o2 ln cmd : Z) : bytes := let t := op_text lines r1 o1 r2 o2 ln in case_f (length t) cmd t.
  (* the memory in which lbuf_edit is called: the converted region text, the freed temporaries of lbuf_region, pref = "" and post = "\n" *)
  Definition case_mem7 (m : mem) (lines : list bytes) (r1 o1 r2 o2 ln cmd : Z) : mem :=
    (m ++ cstr_block (zb (case_text lines r1 o1 r2 o2 ln cmd)) :: rg_tail r1 r2) ++ [cstr_block (zb []); cstr_block (zb [10%N])].
  Definition case_mem8 (m m6 : mem) (r1 r2 v : Z) : mem :=
    let p6 := (length m + 1 + length (rg_tail r1 r2))%nat in
    upd (upd (upd (upd (upd m6 G_xrow [VInt r2]) G_xoff [VInt v]) (length m) []) p6 []) (p6 + 1) [].
  Theorem tr_vi_case_lines D m lb bln lbs lines r1 o1 r2 o2 ln cmd xr xo u' m6 bln' lbs' lines' ud m9 :
    ed_at m lb bln lbs lines -> 0 <= r1 + 1 <= 2147483647 -> int_ok r2 -> int_ok (r2 + 1) -> int_ok (r2 - r1) -> int_ok (r2 - r1 + 1) ->
    region_in lines r1 (op_o1 ln o1) r2 (op_o2 ln o2) -> lnb ln = true ->
    cell_at m G_xrow xr -> cell_at m G_xoff xo -> str_at m G_lit__0 [] -> str_at m G_lit_0a_1 [10%N] ->
    (length (op_text lines r1 o1 r2 o2 ln) < fuel)%nat -> (maxlen lines' < fuel)%nat ->
    (forall b, lown b -> (b < length m)%nat) -> ~ lown G_xrow -> ~ lown G_xoff ->
    ext X_lbuf_edit [VPtr lb 0; VPtr (length m) 0; VInt r1; VInt (r2 + 1)] (case_mem7 m lines r1 o1 r2 o2 ln cmd) = Ok (u', m6) ->
    eframe lown (case_mem7 m lines r1 o1 r2 o2 ln cmd) m6 -> ed_cur m6 lb bln' lbs' lines' ->
    let v := lbuf_indents (map chop lines') r2 in
    ext X_vi_drawfix [VInt r1; VInt r2; VInt (r2 - r1 + 1); VInt 0] (case_mem8 m m6 r1 r2 v) = Ok (ud, m9) ->
    callx ext cprog fuel (S (S (S (S D)))) F_vi_case [VInt r1; VInt o1; VInt r2; VInt o2; VInt ln; VInt cmd] m = Ok (VInt 16, m9).
  Proof.
    intros E Hr Ir2 Ir21 Id Id1 Hin Eln Hx Ho Hl0 Hl1 Hft Hfl Hlown Nlx Nlo Hedit [Hlen6 Hfr6] Ec v Hdraw.
    pose proof Ec as (E6 & N61 & N62 & N63).
    assert (Lx : (G_xrow < length m)%nat) by (apply nth_error_Some; unfold cell_at in Hx; congruence).
    assert (Lo : (G_xoff < length m)%nat) by (apply nth_error_Some; unfold cell_at in Ho; congruence).
    pose proof (la_nonul _ _ _ _ _ (ed_lb _ _ _ _ _ E)) as Hnn.
    set (txt := op_text lines r1 o1 r2 o2 ln) in *.
    assert (Ntxt : nonul txt) by (unfold txt, op_text; apply region_b_nonul; exact Hnn).
    rewrite callx_S. change (nth_error cprog F_vi_case) with (Some cf_vi_case).
    cbn [fn_nparams cf_vi_case length Nat.eqb fn_nlocals Nat.sub repeat app].
    change (fn_body cf_vi_case) with
      (SSeq (SExpr (ESetLocal 8 (ECall F_lbuf_region [ECall F_ex_lbuf []; ELocal 0; ECond (ELocal 4) (EConst 0) (ELocal 1); ELocal 2; ECond (ELocal 4) (EUn ONeg I32 (EConst 1)) (ELocal 3)])))
         (SSeq (SExpr (ESetLocal 9 (ELocal 8))) (SSeq vcase_loop vcase_rest))).
    rewrite exec_seq, (exec_setlocal _ _ _ _ _ _ _ (cx_region_op ext fuel OR D m lb bln lbs lines r1 o1 r2 o2 ln [VInt cmd; VUndef; VUndef; VUndef; VUndef; VUndef; VUndef] E Hr Hin)).
    unfold put_mem. fold txt. xc. rewrite exec_seq, exec_expr. xc. rewrite exec_seq.
    destruct (vcase_loop_ok D m (rg_tail r1 r2) cmd (VInt r1) (VInt o1) (VInt r2) (VInt o2) (VInt ln) VUndef VUndef (VPtr (length m) 0) VUndef
                (length txt) txt O fuel VUndef Ntxt ltac:(lia) ltac:(lia) Hft Hft) as (o' & l10' & X).
    change (Z.of_nat 0) with 0 in X. rewrite X. clear X. cbn [firstn skipn app]. fold (case_text lines r1 o1 r2 o2 ln cmd).
    change (case_f (length txt) cmd txt) with (case_text lines r1 o1 r2 o2 ln cmd). set (ct := case_text lines r1 o1 r2 o2 ln cmd) in *.
    set (M := m ++ cstr_block (zb ct) :: rg_tail r1 r2).
    assert (LM : length M = (length m + 1 + length (rg_tail r1 r2))%nat) by (unfold M; rewrite app_length; cbn [length]; lia).
    assert (EM : ed_at M lb bln lbs lines) by (apply ed_at_app; exact E).
    assert (H0 : str_at M G_lit__0 []) by (apply str_at_app; exact Hl0).
    assert (H1 : str_at M G_lit_0a_1 [10%N]) by (apply str_at_app; exact Hl1).
    unfold vcase_rest. cbn [fn_body cf_vi_case]. unfold lnb in Eln. xs. rewrite Eln. xs.
    rewrite (cx_ext ext fuel (S (S D)) _ _ _ x_uc_dup_none), (o_dup ext OR M G_lit__0 [] H0 ltac:(constructor)). unfold fresh. xs. rewrite Eln. xs.
    rewrite (cx_ext ext fuel (S (S D)) _ _ _ x_uc_dup_none), (o_dup ext OR _ G_lit_0a_1 [10%N] (str_at_app M _ _ _ H1) ltac:(repeat constructor; lia)).
    unfold fresh. xs. rewrite app_tail. cbn [app]. rewrite Eln. xs.
    change (M ++ [cstr_block (zb []); cstr_block (zb [10%N])]) with (case_mem7 m lines r1 o1 r2 o2 ln cmd). set (M7 := case_mem7 m lines r1 o1 r2 o2 ln cmd) in *.
    assert (EM7 : M7 = M ++ [cstr_block (zb []); cstr_block (zb [10%N])]) by reflexivity.
    assert (E7 : ed_at M7 lb bln lbs lines) by (rewrite EM7; apply ed_at_app; exact EM).
    assert (L7 : length M7 = (length M + 2)%nat) by (rewrite EM7, app_length; reflexivity).
    rewrite (cx_xb ext fuel (S (S D)) M7 lb bln lbs lines E7). xs. rewrite chk_I32 by (unfold int_ok in Ir21; lia). xs.
    rewrite (cx_ext ext fuel (S (S D)) _ _ _ x_lbuf_edit_none), Hedit. xs.
    (* xrow = r2; xoff = lbuf_indents(xb, r2) *)
    assert (Nl : forall k, (length m <= k)%nat -> ~ lown k) by (intros k Hk Hl; specialize (Hlown _ Hl); lia).
    assert (Old6 : forall g z, (g < length m)%nat -> ~ lown g -> cell_at m g z -> cell_at m6 g z).
    { intros g z Hg Nlg Hc. unfold cell_at. rewrite Hfr6 by (try exact Nlg; lia). rewrite EM7. unfold M. rewrite !nth_app_lt by (rewrite ?app_length; cbn [length]; lia). exact Hc. }
    pose proof (Old6 _ _ Lx Nlx Hx) as Hx6. pose proof (Old6 _ _ Lo Nlo Ho) as Ho6.
    rewrite (wrap_int_ok r2 Ir2), (store_cell m6 G_xrow xr r2 Hx6). xs. rewrite Eln. xs.
    assert (Lx6 : (G_xrow < length m6)%nat) by lia.
    assert (E8 : ed_at (upd m6 G_xrow [VInt r2]) lb bln' lbs' lines').
    { apply ed_at_upd; [exact E6|exact Lx6|]. intros [Hb|Hb]; [vm_compute in Hb; discriminate Hb|contradiction]. }
    rewrite (cx_xb ext fuel (S (S D)) _ lb bln' lbs' lines' E8). xs.
    rewrite (callx_mono ext _ _ _ _ _ _ _ (tr_lbuf_indents _ lb bln' lbs' lines' r2 D fuel (ed_lb _ _ _ _ _ E8) (ed_small _ _ _ _ _ E8) Hfl)). xs. fold v.
    assert (Iv : int_ok v).
    { unfold v, lbuf_indents. rewrite getl_rowidx. destruct (rowidx lines' r2) as [i|]; cbn [option_map]; [|unfold int_ok; lia].
      pose proof (count_space_le (chop (nthl lines' i))). pose proof (slen_small lines' i (ed_small _ _ _ _ _ E8) (la_nonul _ _ _ _ _ (ed_lb _ _ _ _ _ E8))). unfold int_ok. lia. }
    assert (Ho7 : cell_at (upd m6 G_xrow [VInt r2]) G_xoff xo).
    { unfold cell_at. rewrite mem_upd_other; [exact Ho6|exact Lx6|vm_compute; discriminate]. }
    rewrite (wrap_int_ok v Iv), (store_cell _ G_xoff xo v Ho7). xs.
    set (m7 := upd (upd m6 G_xrow [VInt r2]) G_xoff [VInt v]).
    assert (L7' : length m7 = length m6) by (unfold m7; rewrite !upd_length by (rewrite ?upd_length by lia; lia); reflexivity).
    assert (Old7 : forall b, (length m <= b)%nat -> (b < length M7)%nat -> nth_error m7 b = nth_error M7 b).
    { intros b Hb1 Hb2. unfold m7. rewrite !mem_upd_other by (rewrite ?upd_length by lia; lia). apply Hfr6; [exact Hb2|apply Nl; exact Hb1]. }
    (* free(region); free(pref); free(post); vi_drawfix *)
    rewrite (free_ok m7 (length m) (cstr_block (zb ct))) by (try apply cstr_ne; rewrite Old7 by lia; rewrite EM7; unfold M; rewrite nth_app_lt by (rewrite app_length; cbn [length]; lia); apply str_at0).
    xs.
    assert (P6 : nth_error m7 (length M) = Some (cstr_block (zb []))).
    { rewrite Old7 by lia. rewrite EM7, <- (Nat.add_0_r (length M)), nth_app_at. reflexivity. }
    assert (P7 : nth_error m7 (length M + 1) = Some (cstr_block (zb [10%N]))).
    { rewrite Old7 by lia. rewrite EM7, nth_app_at. reflexivity. }
    rewrite (free_ok _ (length M) (cstr_block (zb []))) by (try apply cstr_ne; rewrite mem_upd_other by lia; exact P6). xs.
    rewrite app_length. cbn [length].
    rewrite (free_ok _ (length M + 1) (cstr_block (zb [10%N]))) by (try apply cstr_ne; rewrite !mem_upd_other by (rewrite ?upd_length by lia; lia); exact P7). xs.
    rewrite chk_I32 by (unfold int_ok in Id; lia). xs. rewrite chk_I32 by (unfold int_ok in Id1; lia). xs.
    rewrite (cx_ext ext fuel (S (S D)) _ _ _ x_vi_drawfix_none).
    unfold case_mem8 in Hdraw. rewrite <- LM in Hdraw. fold m7 in Hdraw. rewrite Hdraw. xs. reflexivity.
  Qed.

  Lemma case_f_nonul cmd : forall k t, nonul t -> nonul (case_f k cmd t).
  Proof.
    induction k as [|k IH]; intros t H; cbn [case_f]; [exact H|]. destruct t as [|c r]; [constructor|].
    inversion H as [|? ? Hc Hr]; subst. constructor; [apply case_byte_ok; unfold byte_ok in Hc; lia|].
    apply nonul_app; [apply nonul_firstn; exact Hr|apply IH, nonul_skipn'; exact Hr].
  Qed.
  (* ================================================================ vi_case, character-wise *)
  Definition case_pref (lines : list bytes) (r1 o1 : Z) : bytes := sub_b (getb lines r1) 0 o1.
  Definition case_post (lines : list bytes) (r2 o2 : Z) : bytes := sub_b (getb lines r2) o2 (-1).
  Definition case_line (lines : list bytes) (r1 o1 r2 o2 ln cmd : Z) : bytes :=
    case_pref lines r1 o1 ++ case_text lines r1 o1 r2 o2 ln cmd ++ case_post lines r2 o2.
  Definition case_mem7c (m : mem) (lines : list bytes) (r1 o1 r2 o2 ln cmd : Z) : mem :=
    (m ++ cstr_block (zb (case_text lines r1 o1 r2 o2 ln cmd)) :: rg_tail r1 r2)
    ++ [cstr_block (zb (case_pref lines r1 o1)); cstr_block (zb (case_post lines r2 o2)); cstr_block (zb (case_line lines r1 o1 r2 o2 ln cmd))].
  Definition case_mem8c (m m6 : mem) (r1 r2 o2 : Z) : mem :=
    let p6 := (length m + 1 + length (rg_tail r1 r2))%nat in
    upd (upd (upd (upd (upd (upd m6 (p6 + 2) []) G_xrow [VInt r2]) G_xoff [VInt o2]) (length m) []) p6 []) (p6 + 1) [].
  Theorem tr_vi_case_chars D m lb bln lbs lines r1 o1 r2 o2 ln cmd xr xo u' m6 ud m9 :
    ed_at m lb bln lbs lines -> 0 <= r1 + 1 <= 2147483647 -> int_ok r2 -> int_ok (r2 + 1) -> int_ok (r2 - r1) -> int_ok (r2 - r1 + 1) -> int_ok o2 ->
    region_in lines r1 (op_o1 ln o1) r2 (op_o2 ln o2) -> lnb ln = false -> sub_in (getb lines r1) 0 o1 -> sub_in (getb lines r2) o2 (-1) ->
    cell_at m G_xrow xr -> cell_at m G_xoff xo ->
    (length (op_text lines r1 o1 r2 o2 ln) < fuel)%nat ->
    (forall b, lown b -> (b < length m)%nat) -> ~ lown G_xrow -> ~ lown G_xoff ->
    let p6 := (length m + 1 + length (rg_tail r1 r2))%nat in
    ext X_lbuf_edit [VPtr lb 0; VPtr (p6 + 2) 0; VInt r1; VInt (r2 + 1)] (case_mem7c m lines r1 o1 r2 o2 ln cmd) = Ok (u', m6) ->
    eframe lown (case_mem7c m lines r1 o1 r2 o2 ln cmd) m6 ->
    ext X_vi_drawfix [VInt r1; VInt r2; VInt (r2 - r1 + 1); VInt 0] (case_mem8c m m6 r1 r2 o2) = Ok (ud, m9) ->
    callx ext cprog fuel (S (S (S (S D)))) F_vi_case [VInt r1; VInt o1; VInt r2; VInt o2; VInt ln; VInt cmd] m = Ok (VInt 16, m9).
  Proof.
    intros E Hr Ir2 Ir21 Id Id1 Io2 Hin Eln Hin5 Hin6 Hx Ho Hft Hlown Nlx Nlo p6 Hedit [Hlen6 Hfr6] Hdraw.
    assert (Lx : (G_xrow < length m)%nat) by (apply nth_error_Some; unfold cell_at in Hx; congruence).
    assert (Lo : (G_xoff < length m)%nat) by (apply nth_error_Some; unfold cell_at in Ho; congruence).
    pose proof (la_nonul _ _ _ _ _ (ed_lb _ _ _ _ _ E)) as Hnn.
    set (txt := op_text lines r1 o1 r2 o2 ln) in *.
    assert (Ntxt : nonul txt) by (unfold txt, op_text; apply region_b_nonul; exact Hnn).
    rewrite callx_S. change (nth_error cprog F_vi_case) with (Some cf_vi_case).
    cbn [fn_nparams cf_vi_case length Nat.eqb fn_nlocals Nat.sub repeat app].
    change (fn_body cf_vi_case) with
      (SSeq (SExpr (ESetLocal 8 (ECall F_lbuf_region [ECall F_ex_lbuf []; ELocal 0; ECond (ELocal 4) (EConst 0) (ELocal 1); ELocal 2; ECond (ELocal 4) (EUn ONeg I32 (EConst 1)) (ELocal 3)])))
         (SSeq (SExpr (ESetLocal 9 (ELocal 8))) (SSeq vcase_loop vcase_rest))).
    rewrite exec_seq, (exec_setlocal _ _ _ _ _ _ _ (cx_region_op ext fuel OR D m lb bln lbs lines r1 o1 r2 o2 ln [VInt cmd; VUndef; VUndef; VUndef; VUndef; VUndef; VUndef] E Hr Hin)).
    unfold put_mem. fold txt. xc. rewrite exec_seq, exec_expr. xc. rewrite exec_seq.
    destruct (vcase_loop_ok D m (rg_tail r1 r2) cmd (VInt r1) (VInt o1) (VInt r2) (VInt o2) (VInt ln) VUndef VUndef (VPtr (length m) 0) VUndef
                (length txt) txt O fuel VUndef Ntxt ltac:(lia) ltac:(lia) Hft Hft) as (o' & l10' & X).
    change (Z.of_nat 0) with 0 in X. rewrite X. clear X. cbn [firstn skipn app].
    change (case_f (length txt) cmd txt) with (case_text lines r1 o1 r2 o2 ln cmd). set (ct := case_text lines r1 o1 r2 o2 ln cmd) in *.
    set (pref := case_pref lines r1 o1) in *. set (post := case_post lines r2 o2) in *.
    assert (Nct : nonul ct) by (unfold ct, case_text; apply case_f_nonul; exact Ntxt).
    assert (Npre : nonul pref) by (apply sub_b_nonul; intros s0 Es; eapply getb_nonul; eassumption).
    assert (Npost : nonul post) by (apply sub_b_nonul; intros s0 Es; eapply getb_nonul; eassumption).
    set (M := m ++ cstr_block (zb ct) :: rg_tail r1 r2).
    assert (LM : length M = p6) by (unfold M, p6; rewrite app_length; cbn [length]; lia).
    assert (EMt : forall t, ed_at (M ++ t) lb bln lbs lines) by (intro t; unfold M; apply ed_at_app, ed_at_app; exact E).
    assert (Q : forall (t : list block) k x, nth_error t k = Some x -> nth_error (M ++ t) (p6 + k) = Some x) by (intros t k x HQ; rewrite <- LM, nth_app_at; exact HQ).
    assert (U : forall (t : list block) k x, upd (M ++ t) (p6 + k) x = M ++ upd t k x) by (intros t k x; rewrite <- LM; apply upd_app_at).
    assert (SR : forall t, str_at (M ++ t) (length m) ct) by (intro t; unfold M; apply str_at_app, str_at0).
    unfold vcase_rest. cbn [fn_body cf_vi_case]. unfold lnb in Eln. xs. rewrite Eln. xs.
    (* pref, post *)
    pose proof (EMt []) as EM0. rewrite app_nil_r in EM0.
    rewrite (cx_xb ext fuel (S (S D)) M lb bln lbs lines EM0). xs. rewrite (cx_get ext fuel (S (S D)) M lb bln lbs lines r1 EM0). xs.
    rewrite (cx_ext ext fuel (S (S D)) _ _ _ x_uc_sub_none), (o_sub ext OR M _ _ 0 o1 (sarg_line M lb bln lbs lines r1 (ed_lb _ _ _ _ _ EM0)) Hin5).
    unfold fresh. fold (case_pref lines r1 o1). fold pref. xs. rewrite Eln. xs.
    rewrite (cx_xb ext fuel (S (S D)) _ lb bln lbs lines (EMt _)). xs. rewrite (cx_get ext fuel (S (S D)) _ lb bln lbs lines r2 (EMt _)). xs.
    change (chk I32 (- (1))) with (@Ok Z (-1)). xs.
    rewrite (cx_ext ext fuel (S (S D)) _ _ _ x_uc_sub_none), (o_sub ext OR _ _ _ o2 (-1) (sarg_line _ lb bln lbs lines r2 (ed_lb _ _ _ _ _ (EMt _))) Hin6).
    unfold fresh. fold (case_post lines r2 o2). fold post. xs. rewrite app_tail. cbn [app]. rewrite Eln. xs.
    rewrite !app_length. cbn [length]. rewrite LM.
    (* sb = sbuf_make(); sbuf_str(sb, pref); sbuf_str(sb, region); sbuf_str(sb, post) *)
    rewrite (cx_ext ext fuel (S (S D)) _ _ _ x_sbuf_make_none), (o_make ext OR _). unfold fresh. xs. rewrite app_tail. cbn [app]. rewrite !app_length. cbn [length]. rewrite LM.
    replace (p6 + 1 + 1)%nat with (p6 + 2)%nat by lia.
    rewrite (cx_ext ext fuel (S (S D)) _ _ _ x_sbuf_str_none).
    match goal with |- context [ext X_sbuf_str _ ?mm] =>
      pose proof (o_str ext OR mm (p6 + 2) [] p6 pref O ltac:(unfold str_at; apply Q; reflexivity) ltac:(unfold str_at; rewrite <- (Nat.add_0_r p6); apply Q; reflexivity) ltac:(lia) Npre ltac:(lia)) as X end.
    change (Z.of_nat 0) with 0 in X. rewrite X. clear X. xs. cbn [skipn app]. rewrite U. cbn [upd firstn skipn app].
    rewrite (cx_ext ext fuel (S (S D)) _ _ _ x_sbuf_str_none).
    match goal with |- context [ext X_sbuf_str _ ?mm] =>
      pose proof (o_str ext OR mm (p6 + 2) pref (length m) ct O ltac:(unfold str_at; apply Q; reflexivity) ltac:(apply SR) ltac:(unfold p6; lia) Nct ltac:(lia)) as X end.
    change (Z.of_nat 0) with 0 in X. rewrite X. clear X. xs. cbn [skipn]. rewrite U. cbn [upd firstn skipn app].
    rewrite (cx_ext ext fuel (S (S D)) _ _ _ x_sbuf_str_none).
    match goal with |- context [ext X_sbuf_str _ ?mm] =>
      pose proof (o_str ext OR mm (p6 + 2) (pref ++ ct) (p6 + 1) post O ltac:(unfold str_at; apply Q; reflexivity) ltac:(unfold str_at; apply Q; reflexivity) ltac:(lia) Npost ltac:(lia)) as X end.
    change (Z.of_nat 0) with 0 in X. rewrite X. clear X. xs. cbn [skipn]. rewrite U. cbn [upd firstn skipn app]. rewrite <- app_assoc.
    match goal with |- context [callx ext cprog fuel _ F_ex_lbuf [] ?mm] => change mm with (case_mem7c m lines r1 o1 r2 o2 ln cmd) end.
    set (M7 := case_mem7c m lines r1 o1 r2 o2 ln cmd) in *. set (line := pref ++ ct ++ post).
    assert (EM7 : M7 = M ++ [cstr_block (zb pref); cstr_block (zb post); cstr_block (zb line)]) by reflexivity.
    assert (E7 : ed_at M7 lb bln lbs lines) by (rewrite EM7; apply EMt).
    assert (L7 : length M7 = (p6 + 3)%nat) by (rewrite EM7, app_length, LM; reflexivity).
    assert (S7 : str_at M7 (p6 + 2) line) by (rewrite EM7; unfold str_at; apply Q; reflexivity).
    rewrite (cx_xb ext fuel (S (S D)) M7 lb bln lbs lines E7). xs.
    rewrite (cx_ext ext fuel (S (S D)) _ _ _ x_sbuf_buf_none), (o_buf ext OR M7 _ line S7). xs. rewrite chk_I32 by (unfold int_ok in Ir21; lia). xs.
    rewrite (cx_ext ext fuel (S (S D)) _ _ _ x_lbuf_edit_none), Hedit. xs.
    assert (Nl : forall k, (length m <= k)%nat -> ~ lown k) by (intros k Hk Hl; specialize (Hlown _ Hl); lia).
    assert (Hp6 : (length m < p6)%nat) by (unfold p6; lia).
    assert (S6 : str_at m6 (p6 + 2) line) by (unfold str_at; rewrite Hfr6 by (try apply Nl; lia); exact S7).
    rewrite (cx_ext ext fuel (S (S D)) _ _ _ x_sbuf_free_none), (o_free ext OR m6 _ line S6). xs.
    set (m6' := upd m6 (p6 + 2) []).
    assert (L6' : length m6' = length m6) by (unfold m6'; apply upd_length; lia).
    assert (Old6 : forall g z, (g < length m)%nat -> ~ lown g -> cell_at m g z -> cell_at m6' g z).
    { intros g z Hg Nlg Hc. unfold cell_at, m6'. rewrite mem_upd_other by lia. rewrite Hfr6 by (try exact Nlg; lia). rewrite EM7. unfold M.
      rewrite !nth_app_lt by (rewrite ?app_length; cbn [length]; lia). exact Hc. }
    pose proof (Old6 _ _ Lx Nlx Hx) as Hx6. pose proof (Old6 _ _ Lo Nlo Ho) as Ho6.
    rewrite (wrap_int_ok r2 Ir2), (store_cell m6' G_xrow xr r2 Hx6). xs. rewrite Eln. xs. rewrite (wrap_int_ok o2 Io2).
    assert (Ho7 : cell_at (upd m6' G_xrow [VInt r2]) G_xoff xo).
    { unfold cell_at. rewrite mem_upd_other; [exact Ho6|lia|vm_compute; discriminate]. }
    rewrite (store_cell _ G_xoff xo o2 Ho7). xs.
    set (m7 := upd (upd m6' G_xrow [VInt r2]) G_xoff [VInt o2]).
    assert (L7' : length m7 = length m6) by (unfold m7; rewrite !upd_length by (rewrite ?upd_length by lia; lia); exact L6').
    assert (Old7 : forall b, (length m <= b)%nat -> (b < p6 + 2)%nat -> nth_error m7 b = nth_error M7 b).
    { intros b Hb1 Hb2. unfold m7, m6'. rewrite !mem_upd_other by (rewrite ?upd_length by (rewrite ?upd_length by lia; lia); lia). apply Hfr6; [lia|apply Nl; exact Hb1]. }
    rewrite (free_ok m7 (length m) (cstr_block (zb ct))) by (try apply cstr_ne; rewrite Old7 by lia; rewrite EM7; apply SR). xs.
    assert (P6 : nth_error m7 p6 = Some (cstr_block (zb pref))) by (rewrite Old7 by lia; rewrite EM7, <- (Nat.add_0_r p6); apply Q; reflexivity).
    assert (P7 : nth_error m7 (p6 + 1) = Some (cstr_block (zb post))) by (rewrite Old7 by lia; rewrite EM7; apply Q; reflexivity).
    rewrite (free_ok _ p6 (cstr_block (zb pref))) by (try apply cstr_ne; rewrite mem_upd_other by lia; exact P6). xs.
    rewrite (free_ok _ (p6 + 1) (cstr_block (zb post))) by (try apply cstr_ne; rewrite !mem_upd_other by (rewrite ?upd_length by lia; lia); exact P7). xs.
    rewrite chk_I32 by (unfold int_ok in Id; lia). xs. rewrite chk_I32 by (unfold int_ok in Id1; lia). xs.
    rewrite (cx_ext ext fuel (S (S D)) _ _ _ x_vi_drawfix_none).
    unfold case_mem8c in Hdraw. fold p6 in Hdraw. fold m6' in Hdraw. fold m7 in Hdraw. rewrite Hdraw. xs. reflexivity.
  Qed.
End Case.

(* ------------------------------------------------------------------ the translated vi_case RUNS (oracle TrViOp.ideal_ext, memory TrViOp.op_mem) *)
(* g~~ on row 1 ("cde\n"): lbuf_edit(xb, "CDE\n", 1, 2), xrow = 1, vi_drawfix(1, 1, 1, 0); gUU over rows 0..1: "AB\nCDE\n", (0, 2), xrow = 1; character-wise g~ from (0,1) to (1,2): "aB\nCDe\n", xoff = 2;
   guu leaves lower case alone; a multi-byte character keeps its bytes: case_b on "aé" = "Aé" *)
Lemma case_run_examples :
  let run args xr xo := op_show (callx ideal_ext cprog 50 8 F_vi_case (map VInt args) (op_mem xr xo)) in
  run [1; 0; 1; 0; 1; 126] 1 2 = Some (VInt 16, Some [VInt 1], Some [VInt 0], [map VInt [2; 1; 2; 67; 68; 69; 10]; map VInt [3; 1; 1; 1; 0]]) /\
  run [0; 0; 1; 0; 1; 85] 0 0 = Some (VInt 16, Some [VInt 1], Some [VInt 0], [map VInt [2; 0; 2; 65; 66; 10; 67; 68; 69; 10]; map VInt [3; 0; 1; 2; 0]]) /\
  run [2; 0; 2; 0; 1; 117] 2 0 = Some (VInt 16, Some [VInt 2], Some [VInt 0], [map VInt [2; 2; 3; 102; 10]; map VInt [3; 2; 2; 1; 0]]) /\
  case_b 126 [97; 195; 169]%N = [65; 195; 169]%N.
Proof. vm_compute. repeat split; reflexivity. Qed.
(* character-wise g~ from (0,1) to (1,2) on "ab\n" "cde\n": lbuf_edit(xb, "aB\nCDe\n", 0, 2), xrow = 1, xoff = 2, vi_drawfix(0, 1, 2, 0) *)
Lemma case_run_chars :
  op_show (callx ideal_ext cprog 50 8 F_vi_case (map VInt [0; 1; 1; 2; 0; 126]) (op_mem 0 1))
  = Some (VInt 16, Some [VInt 1], Some [VInt 2], [map VInt [2; 0; 2; 97; 66; 10; 67; 68; 101; 10]; map VInt [3; 0; 1; 2; 0]]).
Proof. vm_compute. reflexivity. Qed.
