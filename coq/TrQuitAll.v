(* TrQuitAll.v -- C02: the `a` forms of ec_quit (xa, xa!) on the translated C text (GenCFuncs.cf_ec_quit, /repo 37c81b2), continuing TrQuit.v,
   which proves the forms without `a`.  With `a` in the command the loop asks no buffer whether it is modified: for EVERY slot i = 0 .. 15
   whose lb is not NULL it calls  lbuf_save(bufs[i].lb, 0, -1, bufs[i].path, !!strchr(cmd, '!'), bufs[i].mtime)  -- the oracle X_lbuf_save, one
   call per occupied slot, in slot order, with exactly these arguments, whatever the path is (also the empty path of the buffer without a
   name: there is no test of the path in the C text).  A message ends the command: bufs_switch(i), ex_show(message), return 0, xquit
   untouched.  NULL (since fix 37c81b2): lbuf_saved(bufs[i].lb, 0) -- the translated function -- and bufs[i].mtime = mtime(bufs[i].path)
   -- the oracle X_mtime, stored into the last cell of the slot --, then the next slot.  Only when all 16 slots are done xquit = 1 is stored.
   The run of the loop against an environment is `arun`: which calls are made on which memory, and what the environment may assume
   nothing about except that its calls leave the table and the command string in place. *)
From Coq Require Import List ZArith NArith Bool Lia.
From NV Require Import Bytes UndoDefs BufsDefs.
From NV Require Import CLite CLiteProps GenCFuncs CLiteTac CLiteExt TrLbufBase TrLbuf TrBufs TrBufsLbuf TrQuit.
Import ListNotations.

(* the arguments of the lbuf_save call for slot i *)
Definition save_args (t : list cslot) (cmd : bytes) (i : nat) : list val :=
  [cs_lb (nths t i); VInt 0; VInt (-1); cs_path (nths t i); VInt (b2z (has_byte 33 cmd)); VInt (wrap I64 (cs_mtime (nths t i)))].
(* an occupied slot has a path string (possibly the empty one) *)
Definition path_ok (s : cslot) : Prop := is_null (cs_lb s) = false -> exists pb po, cs_path s = VPtr pb po.
Definition paths_ok (t : list cslot) : Prop := Forall path_ok t.

Lemma Forall_upd {A} (P : A -> Prop) l i x : Forall P l -> P x -> Forall P (upd l i x).
Proof. intros H Hx. unfold upd. apply Forall_app. split; [apply Forall_firstn'; exact H|constructor; [exact Hx|apply Forall_skipn'; exact H]]. Qed.
Lemma Forall_nths (P : cslot -> Prop) t i : Forall P t -> (i < length t)%nat -> P (nths t i).
Proof. intros H Hi. rewrite Forall_forall in H. apply H. apply nth_In. exact Hi. Qed.

(* how the loop ends: all 16 slots done (the table and memory then, the slots saved in call order), or slot j's save answered a message *)
Inductive aout :=
| ADone (t : list cslot) (m : mem) (saved : list nat)
| AFail (j : nat) (msg : val) (t : list cslot) (m : mem) (saved : list nat).

Section QuitAll.
  Variable ext : nat -> list val -> mem -> res (val * mem).
  Variables (cb : nat) (cmd : bytes) (loc arg txt : val) (d fuel : nat).
  Hypothesis Ncmd : nonul cmd.
  Variable ka : nat.
  Hypothesis Ha : find_byte 97 cmd = Some ka.
  Let call := callx ext cprog fuel (S (S (S d))).

  (* the run of the loop from slot i (n slots left) on table t and memory m *)
  Fixpoint arun (n i : nat) (t : list cslot) (m : mem) (acc : list nat) (o : aout) : Prop :=
    match n with
    | O => o = ADone t m (rev acc)
    | S n' =>
      if is_null (cs_lb (nths t i)) then arun n' (S i) t m acc o
      else exists r m2, ext X_lbuf_save (save_args t cmd i) m = Ok (r, m2) /\ ptr_val r /\
           if is_null r
           then exists u3 m3 ts m4, tab_at m2 t /\
                  call F_lbuf_saved [cs_lb (nths t i); VInt 0] m2 = Ok (u3, m3) /\ tab_at m3 t /\
                  ext X_mtime [cs_path (nths t i)] m3 = Ok (VInt ts, m4) /\ tab_at m4 t /\
                  let t' := upd t i (set_cs_mtime (nths t i) (wrap I64 ts)) in
                  let m5 := upd m4 G_bufs (tab_cells t') in
                  str_at m5 cb cmd /\ arun n' (S i) t' m5 (i :: acc) o
           else o = AFail i r t m2 (rev acc)
    end.

  Lemma quit_all_ok : forall n i t m acc o fuel' l5 l6, (i + n = 16)%nat -> (n < fuel')%nat ->
    tab_ok t -> lbs_ok t -> paths_ok t -> tab_at m t -> str_at m cb cmd -> arun n i t m acc o ->
    match o with
    | ADone t' m' _ => exists l5' l6', exec call fuel' quit_loop (mkst [loc; VPtr cb 0; arg; txt; VInt (Z.of_nat i); l5; l6] m)
                    = ONormal (mkst [loc; VPtr cb 0; arg; txt; VInt 16; l5'; l6'] m')
    | AFail j r t' m2 _ => forall u2 m3 u1 m', call F_bufs_switch [VInt (Z.of_nat j)] m2 = Ok (u2, m3) ->
                    ext X_ex_show [r] m3 = Ok (u1, m') ->
                    exec call fuel' quit_loop (mkst [loc; VPtr cb 0; arg; txt; VInt (Z.of_nat i); l5; l6] m)
                    = OReturn (VInt 0) (mkst [loc; VPtr cb 0; arg; txt; VInt (Z.of_nat j); VPtr G_bufs (0 + 41 * Z.of_nat j); r] m')
    end.
  Proof.
    unfold call.
    induction n as [|n IH]; intros i t m acc o fuel' l5 l6 Hik Hf Ht Hlbs Hpaths Hm Hcmd Hrun; pose proof Ht as [Hl Hs];
      (destruct fuel' as [|fuel']; [lia|]); cbn [arun] in Hrun;
      unfold quit_loop; cbn [fn_body cf_ec_quit].
    - subst o. rewrite exec_for; xstep; len16; xstep. rewrite (wrap_U64_id (Z.of_nat i)) by lia; change (wrap U64 16) with 16.
      assert (i = 16%nat) by lia. subst i. change (Z.of_nat 16 <? 16) with false. xstep. eexists; eexists; reflexivity.
    - pose proof (fun t' m' acc' l5' l6' Ht' Hlbs' Hp' Hm' Hc' Hr' => IH (S i) t' m' acc' o fuel' l5' l6' ltac:(lia) ltac:(lia) Ht' Hlbs' Hp' Hm' Hc' Hr') as IH'.
      unfold quit_loop in IH'; cbn [fn_body cf_ec_quit] in IH'.
      destruct (lbs_nth t i Hlbs ltac:(lia)) as [E|[b [o0 E]]].
      + (* an empty slot *)
        rewrite E in Hrun. cbn [is_null] in Hrun. specialize (IH' t m acc l5 l6 Ht Hlbs Hpaths Hm Hcmd Hrun).
        assert (Hstep : forall K,
          K (exec (callx ext cprog fuel (S (S (S d)))) (S fuel') quit_loop (mkst [loc; VPtr cb 0; arg; txt; VInt (Z.of_nat i); l5; l6] m)) ->
          K (exec (callx ext cprog fuel (S (S (S d)))) (S fuel') quit_loop (mkst [loc; VPtr cb 0; arg; txt; VInt (Z.of_nat i); l5; l6] m))) by auto.
        clear Hstep.
        destruct o as [t' m' sv|j r t' m2 sv].
        * destruct IH' as (l5' & l6' & IH'). exists l5', l6'. rewrite <- IH'.
          rewrite exec_for; xstep; len16; xstep. rewrite (wrap_U64_id (Z.of_nat i)) by lia; change (wrap U64 16) with 16.
          destruct (Z.ltb_spec (Z.of_nat i) 16); [|lia]. xstep.
          slot_off i 1%nat. rewrite (tab_load m t i 1 (VInt 0) _ Hm Hs) by (try lia; cbn [cs_tail nth_error]; congruence). xstep.
          rewrite chk_I32 by lia. xstep. replace (Z.of_nat i + 1) with (Z.of_nat (S i)) by lia. reflexivity.
        * intros u2 m3 u1 m' Hsw Hshow. rewrite <- (IH' u2 m3 u1 m' Hsw Hshow).
          rewrite exec_for; xstep; len16; xstep. rewrite (wrap_U64_id (Z.of_nat i)) by lia; change (wrap U64 16) with 16.
          destruct (Z.ltb_spec (Z.of_nat i) 16); [|lia]. xstep.
          slot_off i 1%nat. rewrite (tab_load m t i 1 (VInt 0) _ Hm Hs) by (try lia; cbn [cs_tail nth_error]; congruence). xstep.
          rewrite chk_I32 by lia. xstep. replace (Z.of_nat i + 1) with (Z.of_nat (S i)) by lia. reflexivity.
      + (* an occupied slot: no question, lbuf_save *)
        assert (Hnn : is_null (cs_lb (nths t i)) = false) by (rewrite E; reflexivity).
        rewrite Hnn in Hrun. destruct Hrun as (r & m2 & Hsv & Hp & Hrun). unfold save_args in Hsv.
        destruct (Forall_nths path_ok t i Hpaths ltac:(lia) Hnn) as (pb & po & Epath). rewrite Epath, E in Hsv.
        assert (Hsv' : forall bz, bz = b2z (has_byte 33 cmd) ->
                  ext X_lbuf_save [VPtr b o0; VInt 0; VInt (-1); VPtr pb po; VInt bz; VInt (wrap I64 (cs_mtime (nths t i)))] m = Ok (r, m2))
          by (intros bz ->; exact Hsv).
        unfold has_byte in Hsv'.
        (* the common prefix of the iteration up to the answer of lbuf_save *)
        destruct Hp as [E6|[b6 [o6 E6]]]; rewrite E6 in *; cbn [is_null] in Hrun.
        * (* NULL: lbuf_saved, mtime, next slot *)
          destruct Hrun as (u3 & m3 & ts & m4 & Hm2 & Hsaved & Hm3 & Hmt & Hm4 & Hc5 & Hrun). rewrite E in Hsaved. rewrite Epath in Hmt. unfold call in Hsaved.
          set (t' := upd t i (set_cs_mtime (nths t i) (wrap I64 ts))) in *.
          set (m5 := upd m4 G_bufs (tab_cells t')) in *.
          assert (Ht' : tab_ok t') by (apply tab_ok_upd; [exact Ht|exact (Forall_nths slot_ok t i Hs ltac:(lia))|lia]).
          assert (Hlbs' : lbs_ok t') by (apply lbs_ok_upd; [exact Hlbs|cbn [set_cs_mtime cs_lb]; rewrite E; right; eauto]).
          assert (Hp' : paths_ok t') by (apply Forall_upd; [exact Hpaths|intros _; cbn [set_cs_mtime cs_path]; eauto]).
          assert (Hm5 : tab_at m5 t') by (apply (tab_at_upd m4 t t' Hm4)).
          specialize (IH' t' m5 (i :: acc) (VPtr G_bufs (0 + 41 * Z.of_nat i)) (VInt 0) Ht' Hlbs' Hp' Hm5 Hc5 Hrun).
          assert (Hiter : forall rest,
            rest = exec (callx ext cprog fuel (S (S (S d)))) fuel' quit_loop
                     (mkst [loc; VPtr cb 0; arg; txt; VInt (Z.of_nat (S i)); VPtr G_bufs (0 + 41 * Z.of_nat i); VInt 0] m5) ->
            exec (callx ext cprog fuel (S (S (S d)))) (S fuel') quit_loop (mkst [loc; VPtr cb 0; arg; txt; VInt (Z.of_nat i); l5; l6] m) = rest).
          { intros rest ->. unfold quit_loop; cbn [fn_body cf_ec_quit].
            rewrite exec_for; xstep; len16; xstep. rewrite (wrap_U64_id (Z.of_nat i)) by lia; change (wrap U64 16) with 16.
            destruct (Z.ltb_spec (Z.of_nat i) 16); [|lia]. xstep.
            slot_off i 1%nat. rewrite (tab_load m t i 1 (VPtr b o0) _ Hm Hs) by (try lia; cbn [cs_tail nth_error]; congruence). xstep.
            rewrite (strchr0 m cb cmd 97 97 eq_refl Hcmd Ncmd) by lia. rewrite Ha. xstep.
            rewrite (strchr0 m cb cmd 97 97 eq_refl Hcmd Ncmd) by lia. rewrite Ha. xstep.
            slot_off i 1%nat. rewrite (tab_load m t i 1 (VPtr b o0) _ Hm Hs) by (try lia; cbn [cs_tail nth_error]; congruence). xstep.
            change (chk I32 (- (1))) with (@Ok Z (-1)). xstep.
            slot_off i 0%nat. rewrite (tab_load m t i 0 (VPtr pb po) _ Hm Hs) by (try lia; cbn [cs_tail nth_error]; congruence). xstep.
            rewrite (strchr0 m cb cmd 33 33 eq_refl Hcmd Ncmd) by lia.
            destruct (find_byte 33 cmd) as [kb|] eqn:Hb; xstep;
              (slot_off i 8%nat; rewrite (tab_load m t i 8 (VInt (cs_mtime (nths t i))) _ Hm Hs) by (try lia; reflexivity); xstep;
               rewrite callx_S, x_lbuf_save_none, (Hsv' _ eq_refl); xstep;
               slot_off i 1%nat; rewrite (tab_load m2 t i 1 (VPtr b o0) _ Hm2 Hs) by (try lia; cbn [cs_tail nth_error]; congruence); xstep;
               rewrite Hsaved; xstep;
               slot_off i 0%nat; rewrite (tab_load m3 t i 0 (VPtr pb po) _ Hm3 Hs) by (try lia; cbn [cs_tail nth_error]; congruence); xstep;
               rewrite callx_S, x_mtime_none, Hmt; xstep;
               rewrite (tab_store_fld m4 t i 8 (VInt (wrap I64 ts)) _ (set_cs_mtime (nths t i) (wrap I64 ts)) Hm4 Ht ltac:(lia)) by (try lia; reflexivity);
               xstep; rewrite chk_I32 by lia; xstep; replace (Z.of_nat i + 1) with (Z.of_nat (S i)) by lia; reflexivity). }
          pose proof (Hiter _ eq_refl) as Hit. unfold quit_loop in Hit; cbn [fn_body cf_ec_quit] in Hit.
          destruct o as [t'' m'' sv|j r' t'' m2' sv].
          -- destruct IH' as (l5' & l6' & IH'). exists l5', l6'. rewrite Hit. exact IH'.
          -- intros u2 m3' u1 m' Hsw Hshow. rewrite Hit. exact (IH' u2 m3' u1 m' Hsw Hshow).
        * (* a message: bufs_switch(i), ex_show, return 0 *)
          subst o. intros u2 m3 u1 m' Hsw Hshow.
          rewrite exec_for; xstep; len16; xstep. rewrite (wrap_U64_id (Z.of_nat i)) by lia; change (wrap U64 16) with 16.
          destruct (Z.ltb_spec (Z.of_nat i) 16); [|lia]. xstep.
          slot_off i 1%nat. rewrite (tab_load m t i 1 (VPtr b o0) _ Hm Hs) by (try lia; cbn [cs_tail nth_error]; congruence). xstep.
          rewrite (strchr0 m cb cmd 97 97 eq_refl Hcmd Ncmd) by lia. rewrite Ha. xstep.
          rewrite (strchr0 m cb cmd 97 97 eq_refl Hcmd Ncmd) by lia. rewrite Ha. xstep.
          slot_off i 1%nat. rewrite (tab_load m t i 1 (VPtr b o0) _ Hm Hs) by (try lia; cbn [cs_tail nth_error]; congruence). xstep.
          change (chk I32 (- (1))) with (@Ok Z (-1)). xstep.
          slot_off i 0%nat. rewrite (tab_load m t i 0 (VPtr pb po) _ Hm Hs) by (try lia; cbn [cs_tail nth_error]; congruence). xstep.
          rewrite (strchr0 m cb cmd 33 33 eq_refl Hcmd Ncmd) by lia.
          destruct (find_byte 33 cmd) as [kb|] eqn:Hb; xstep;
            (slot_off i 8%nat; rewrite (tab_load m t i 8 (VInt (cs_mtime (nths t i))) _ Hm Hs) by (try lia; reflexivity); xstep;
             rewrite callx_S, x_lbuf_save_none, (Hsv' _ eq_refl); xstep;
             rewrite Hsw; xstep; rewrite callx_S, x_ex_show_none, Hshow; xstep; reflexivity).
  Qed.
End QuitAll.

(* ------------------------------------------------------------------ what a run says: no slot is skipped *)
Definition occ (t : list cslot) (k : nat) : bool := negb (is_null (cs_lb (nths t k))).

Lemma occ_upd_mtime t i x k : (i < length t)%nat -> occ (upd t i (set_cs_mtime (nths t i) x)) k = occ t k.
Proof.
  intro Hi. unfold occ, nths. rewrite nth_upd by exact Hi. destruct (Nat.eqb_spec k i) as [->|_]; reflexivity.
Qed.

(* the slots handed to lbuf_save with a NULL answer are, in order, ALL the occupied slots of the range (the loop ended normally), or all
   the occupied slots in front of the one whose save answered a message *)
Lemma arun_saved ext cb cmd d fuel : forall n i t m acc o, (i + n = 16)%nat -> length t = 16%nat ->
  arun ext cb cmd d fuel n i t m acc o ->
  let occs := filter (occ t) (List.seq i n) in
  match o with
  | ADone t' _ sv => sv = rev acc ++ occs /\ (forall k, occ t' k = occ t k)
  | AFail j r _ _ sv => exists pre post, occs = pre ++ j :: post /\ sv = rev acc ++ pre /\ is_null r = false
  end.
Proof.
  induction n as [|n IH]; intros i t m acc o Hin Hl Hrun; cbn [arun] in Hrun; cbn [List.seq filter].
  - subst o. rewrite app_nil_r. auto.
  - destruct (occ t i) eqn:Eo; cbv iota; unfold occ in Eo; destruct (is_null (cs_lb (nths t i))) eqn:En; try discriminate Eo.
    2: { apply (IH (S i) t m acc o); [lia|exact Hl|exact Hrun]. }
    + destruct Hrun as (r & m2 & _ & _ & Hrun). destruct (is_null r) eqn:Er.
      * destruct Hrun as (u3 & m3 & ts & m4 & _ & _ & _ & _ & _ & _ & Hrun).
        assert (Hocc : forall k, occ (upd t i (set_cs_mtime (nths t i) (wrap I64 ts))) k = occ t k) by (intro k; apply occ_upd_mtime; lia).
        assert (Hl' : length (upd t i (set_cs_mtime (nths t i) (wrap I64 ts))) = 16%nat) by (rewrite upd_length; lia).
        pose proof (IH (S i) _ _ (i :: acc) o ltac:(lia) Hl' Hrun) as H. cbv zeta in H.
        rewrite (filter_ext _ _ Hocc) in H. cbn [rev] in H.
        destruct o as [t' m' sv|j r' t' m2' sv].
        -- destruct H as [-> H2]. split; [rewrite <- app_assoc; reflexivity|]. intro k. rewrite H2. apply Hocc.
        -- destruct H as (pre & post & -> & -> & Hr). exists (i :: pre), post. repeat split; [rewrite <- app_assoc; reflexivity|exact Hr].
      * subst o. exists [], (filter (occ t) (List.seq (S i) n)). repeat split; [rewrite app_nil_r; reflexivity|exact Er].
Qed.

(* ------------------------------------------------------------------ ec_quit(loc, cmd, arg, txt) for xa / xa! *)
(* for EVERY table and EVERY environment (what lbuf_save, mtime, ex_show answer and what they and lbuf_saved leave in memory, provided the
   table and the command string stay): after the write part (TrQuit.write_part) the run of the loop is `arun 16 0`.  All slots done: xquit = 1
   is stored and 0 returned.  Slot j's save answered a message: bufs_switch(j), ex_show(message), 0 returned, xquit NOT stored *)
Theorem tr_ec_quit_all ext m mw t cb cmd loc arg txt q0 ka o d fuel : str_at m cb cmd -> nonul cmd -> ptr_val arg ->
  write_part ext cb cmd arg m 0 mw ->
  tab_at mw t -> tab_ok t -> lbs_ok t -> paths_ok t -> str_at mw cb cmd ->
  find_byte 97 cmd = Some ka -> (16 < fuel)%nat ->
  arun ext cb cmd d fuel 16 0 t mw [] o ->
  match o with
  | ADone t' m' _ => cell_at m' G_xquit q0 ->
      callx ext cprog fuel (S (S (S (S d)))) F_ec_quit [loc; VPtr cb 0; arg; txt] m = Ok (VInt 0, upd m' G_xquit [VInt 1])
  | AFail j r t' m2 _ => forall u2 m3 u1 m', callx ext cprog fuel (S (S (S d))) F_bufs_switch [VInt (Z.of_nat j)] m2 = Ok (u2, m3) ->
      ext X_ex_show [r] m3 = Ok (u1, m') ->
      callx ext cprog fuel (S (S (S (S d)))) F_ec_quit [loc; VPtr cb 0; arg; txt] m = Ok (VInt 0, m')
  end.
Proof.
  intros Hcmd Ncmd Harg Hw Hm Ht Hlbs Hpaths Hcmdw Ha Hf Hrun.
  pose proof (quit_all_ok ext cb cmd loc arg txt d fuel Ncmd ka Ha 16 0 t mw [] o fuel VUndef VUndef eq_refl Hf Ht Hlbs Hpaths Hm Hcmdw Hrun) as Hloop.
  destruct o as [t' m' sv|j r t' m2 sv].
  - intros Hq. destruct Hloop as (l5' & l6' & Hloop).
    apply (quit_head ext m cb cmd loc arg txt 0 mw d fuel _ Hcmd Ncmd Harg Hw). cbn [Z.eqb].
    unfold quit_rest. cbn [fn_body cf_ec_quit]. rewrite exec_seq, exec_seq, exec_expr. xcbn.
    unfold quit_loop in Hloop; cbn [fn_body cf_ec_quit] in Hloop. change (Z.of_nat 0) with 0 in Hloop. rewrite Hloop. xstep.
    change (wrap I32 1) with 1. rewrite (store_cell m' G_xquit q0 1 Hq). xstep. reflexivity.
  - intros u2 m3 u1 m' Hsw Hshow. specialize (Hloop u2 m3 u1 m' Hsw Hshow).
    apply (quit_head ext m cb cmd loc arg txt 0 mw d fuel _ Hcmd Ncmd Harg Hw). cbn [Z.eqb].
    unfold quit_rest. cbn [fn_body cf_ec_quit]. rewrite exec_seq, exec_seq, exec_expr. xcbn.
    unfold quit_loop in Hloop; cbn [fn_body cf_ec_quit] in Hloop. change (Z.of_nat 0) with 0 in Hloop. rewrite Hloop. reflexivity.
Qed.

(* ------------------------------------------------------------------ the C loop against the model DirtyAllDefs.quit_n *)
(* `bad` = the paths the environment can never save to (the empty path of a buffer without a name: open("") fails).  If the loop of the C
   text ends normally, no occupied slot has such a path *)
Lemma nths_upd_other t i s k : (i < length t)%nat -> k <> i -> nths (upd t i s) k = nths t k.
Proof. intros Hi Hk. unfold nths. rewrite nth_upd by exact Hi. destruct (Nat.eqb_spec k i); [contradiction|reflexivity]. Qed.

Lemma arun_done_named ext cb cmd d fuel (bad : val -> Prop) :
  (forall args mm r m2, bad (nth 3 args VUndef) -> ext X_lbuf_save args mm = Ok (r, m2) -> is_null r = false) ->
  forall n i t m acc t' m' sv, (i + n = 16)%nat -> length t = 16%nat ->
  arun ext cb cmd d fuel n i t m acc (ADone t' m' sv) ->
  forall k, (i <= k < i + n)%nat -> occ t k = true -> ~ bad (cs_path (nths t k)).
Proof.
  intros Hbad. induction n as [|n IH]; intros i t m acc t' m' sv Hin Hl Hrun k Hk Ho; [lia|]. cbn [arun] in Hrun.
  destruct (is_null (cs_lb (nths t i))) eqn:En.
  - destruct (Nat.eq_dec k i) as [->|Ne]; [unfold occ in Ho; rewrite En in Ho; discriminate|].
    apply (IH (S i) t m acc t' m' sv ltac:(lia) Hl Hrun k ltac:(lia) Ho).
  - destruct Hrun as (r & m2 & Hsv & _ & Hrun). destruct (is_null r) eqn:Er; [|discriminate].
    destruct (Nat.eq_dec k i) as [->|Ne].
    + intro Hb. assert (X : is_null r = false) by (apply (Hbad (save_args t cmd i) m r m2); [exact Hb|exact Hsv]). congruence.
    + destruct Hrun as (u3 & m3 & ts & m4 & _ & _ & _ & _ & _ & _ & Hrun).
      assert (Hl' : length (upd t i (set_cs_mtime (nths t i) (wrap I64 ts))) = 16%nat) by (rewrite upd_length; lia).
      pose proof (IH (S i) _ _ _ t' m' sv ltac:(lia) Hl' Hrun k ltac:(lia)) as H.
      rewrite occ_upd_mtime in H by lia. rewrite nths_upd_other in H by (try lia; exact Ne). exact (H Ho).
Qed.

From NV Require DirtyDefs DirtyAllDefs DirtyProps DirtyAllProps.

(* a table of the model describes the C table: the same slots occupied; a buffer without a name sits in a slot whose path is `bad` *)
Fixpoint tab_rel (bad : val -> Prop) (t : list cslot) (i : nat) (tab : DirtyAllDefs.ntable) : Prop :=
  match tab with
  | [] => True
  | None :: r => occ t i = false /\ tab_rel bad t (S i) r
  | Some f :: r => occ t i = true /\ (DirtyDefs.nname f = None -> bad (cs_path (nths t i))) /\ tab_rel bad t (S i) r
  end.

(* with every slot named and every save answered NULL the model's loop exits *)
Lemma quit_n_named_exits bang : forall l pre calls, Forall (fun f => DirtyDefs.nname f <> None) (DirtyAllDefs.noccupied l) ->
  snd (fst (fst (DirtyAllDefs.quit_n true bang pre l [] calls))) = true.
Proof.
  induction l as [|[f|] r IH]; intros pre calls H; cbn [DirtyAllDefs.quit_n negb andb]; [reflexivity| |apply IH; exact H].
  cbn [DirtyAllDefs.noccupied flat_map app] in H. inversion H as [|? ? Hf Hr]; subst.
  destruct (DirtyDefs.nname f) as [p|] eqn:Nm; [|contradiction]. cbn [DirtyAllDefs.next_ok]. apply IH. exact Hr.
Qed.

Lemma tab_rel_named bad t : forall tab i, tab_rel bad t i tab ->
  (forall k, (i <= k < i + length tab)%nat -> occ t k = true -> ~ bad (cs_path (nths t k))) ->
  Forall (fun f => DirtyDefs.nname f <> None) (DirtyAllDefs.noccupied tab).
Proof.
  induction tab as [|[f|] r IH]; intros i R H; cbn [DirtyAllDefs.noccupied flat_map app]; [constructor| |].
  - destruct R as (O & U & R). constructor.
    + intro N. apply (H i); [cbn [length]; lia|exact O|exact (U N)].
    + apply (IH (S i) R). intros k Hk. apply H. cbn [length]. lia.
  - destruct R as (O & R). apply (IH (S i) R). intros k Hk. apply H. cbn [length]. lia.
Qed.

(* for the C text: if the `a` loop of ec_quit ends normally (xquit is then stored) in an environment that cannot save to the paths `bad`,
   and the model table describes the C table, then every buffer of the model table has a name, the model's loop exits too (every save
   answered NULL), and (DirtyAllProps.xa_every_slot_saved) every buffer's file holds its text, the texts being the ones before *)
Theorem tr_quit_all_exit_sound ext cb cmd d fuel (bad : val -> Prop) t m t' m' sv bang tab :
  (forall args mm r m2, bad (nth 3 args VUndef) -> ext X_lbuf_save args mm = Ok (r, m2) -> is_null r = false) ->
  length t = 16%nat -> length tab = 16%nat -> tab_rel bad t 0 tab -> Forall DirtyProps.NInv (DirtyAllDefs.noccupied tab) ->
  arun ext cb cmd d fuel 16 0 t m [] (ADone t' m' sv) ->
  Forall (fun f => DirtyDefs.nname f <> None) (DirtyAllDefs.noccupied tab) /\
  snd (fst (fst (DirtyAllDefs.quit_n true bang [] tab [] []))) = true /\
  let tm := fst (fst (fst (DirtyAllDefs.quit_n true bang [] tab [] []))) in
  Forall DirtyAllProps.good (DirtyAllDefs.noccupied tm) /\
  map DirtyAllProps.ntext (DirtyAllDefs.noccupied tm) = map DirtyAllProps.ntext (DirtyAllDefs.noccupied tab).
Proof.
  intros Hbad Hl Hlt R Inv Hrun.
  assert (Hn : Forall (fun f => DirtyDefs.nname f <> None) (DirtyAllDefs.noccupied tab)).
  { apply (tab_rel_named bad t tab 0%nat R). rewrite Hlt. intros k Hk. exact (arun_done_named ext cb cmd d fuel bad Hbad 16 0 t m [] t' m' sv eq_refl Hl Hrun k Hk). }
  pose proof (quit_n_named_exits bang tab [] [] Hn) as Hq.
  split; [exact Hn|]. split; [exact Hq|].
  destruct (DirtyAllDefs.quit_n true bang [] tab [] []) as [[[tm q] cl] s'] eqn:E. cbn [fst snd] in *. subst q.
  destruct (DirtyAllProps.xa_every_slot_saved bang tab [] tm cl s' Inv E) as (_ & _ & G & T & _). auto.
Qed.
