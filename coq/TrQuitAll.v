(* TrQuitAll.v -- C02: the `a` forms of ec_quit (xa, xa!) on the translated C text (GenCFuncs.cf_ec_quit), continuing TrQuit.v, which
   proves the forms without `a`.  With `a` in the command the loop asks no buffer whether it is modified: for EVERY slot i = 0 .. 15 whose
   lb is not NULL it calls  lbuf_save(bufs[i].lb, 0, -1, bufs[i].path, !!strchr(cmd, '!'), bufs[i].mtime)  -- the oracle X_lbuf_save, one
   call per occupied slot, in slot order, with exactly these arguments, whatever the path is (also the empty path of the buffer without a
   name: there is no test of the path in the C text) -- and the first non-NULL answer ends the command with bufs_switch(i), ex_show(err),
   return 0, xquit untouched.  Only when all 16 slots are done, xquit = 1 is stored.
   lbuf_save reads the buffer and writes a file: its oracle leaves the memory as it is (hypothesis of every statement here). *)
From Coq Require Import List ZArith NArith Bool Lia.
From NV Require Import Bytes UndoDefs BufsDefs.
From NV Require Import CLite CLiteProps GenCFuncs CLiteTac CLiteExt TrLbufBase TrLbuf TrBufs TrBufsLbuf TrQuit.
Import ListNotations.

(* the arguments of the call for slot i *)
Definition save_args (t : list cslot) (cmd : bytes) (i : nat) : list val :=
  [cs_lb (nths t i); VInt 0; VInt (-1); cs_path (nths t i); VInt (b2z (has_byte 33 cmd)); VInt (wrap I64 (cs_mtime (nths t i)))].

(* the first slot from i on (n slots left) that is occupied and whose save reports an error *)
Fixpoint qa (t : list cslot) (sv : nat -> val) (n i : nat) : option nat :=
  match n with
  | O => None
  | S n' => if negb (is_null (cs_lb (nths t i))) && negb (is_null (sv i)) then Some i else qa t sv n' (S i)
  end.
Section QuitAll.
  Variable ext : nat -> list val -> mem -> res (val * mem).
  Variables (t : list cslot) (cb : nat) (cmd : bytes) (loc arg txt : val) (d fuel : nat).
  Variable m : mem.
  Variable sv : nat -> val.
  Hypothesis Ht : tab_ok t.
  Hypothesis Hlbs : lbs_ok t.
  Hypothesis Ncmd : nonul cmd.
  Hypothesis Hm : tab_at m t.
  Hypothesis Hcmd : str_at m cb cmd.
  Variable ka : nat.
  Hypothesis Ha : find_byte 97 cmd = Some ka.
  (* the oracle: for every occupied slot the call with THESE arguments answers sv i (NULL or a message) and leaves the memory *)
  Hypothesis Hsave : forall i, (i < 16)%nat -> is_null (cs_lb (nths t i)) = false ->
    ext X_lbuf_save (save_args t cmd i) m = Ok (sv i, m) /\ ptr_val (sv i).
  (* an occupied slot has a path string (possibly the empty one) *)
  Hypothesis Hpath : forall i, (i < 16)%nat -> is_null (cs_lb (nths t i)) = false -> exists pb po, cs_path (nths t i) = VPtr pb po.
  Let call := callx ext cprog fuel (S (S (S d))).

  Lemma quit_all_ok : forall n i fuel' l5 l6, (i + n = 16)%nat -> (n < fuel')%nat ->
    match qa t sv n i with
    | None => exists l5' l6', exec call fuel' quit_loop (mkst [loc; VPtr cb 0; arg; txt; VInt (Z.of_nat i); l5; l6] m)
                    = ONormal (mkst [loc; VPtr cb 0; arg; txt; VInt 16; l5'; l6'] m)
    | Some j => forall u2 m2 u1 m', call F_bufs_switch [VInt (Z.of_nat j)] m = Ok (u2, m2) ->
                    ext X_ex_show [sv j] m2 = Ok (u1, m') ->
                    exec call fuel' quit_loop (mkst [loc; VPtr cb 0; arg; txt; VInt (Z.of_nat i); l5; l6] m)
                    = OReturn (VInt 0) (mkst [loc; VPtr cb 0; arg; txt; VInt (Z.of_nat j); VPtr G_bufs (0 + 41 * Z.of_nat j); sv j] m')
    end.
  Proof.
    pose proof Ht as [Hl Hs]. unfold call.
    induction n as [|n IH]; intros i fuel' l5 l6 Hik Hf; (destruct fuel' as [|fuel']; [lia|]); cbn [qa];
      unfold quit_loop; cbn [fn_body cf_ec_quit]; rewrite exec_for; xstep; len16; xstep;
      rewrite (wrap_U64_id (Z.of_nat i)) by lia; change (wrap U64 16) with 16.
    - assert (i = 16%nat) by lia. subst i. change (Z.of_nat 16 <? 16) with false. xstep. eexists; eexists; reflexivity.
    - destruct (Z.ltb_spec (Z.of_nat i) 16); [|lia]. xstep.
      pose proof (fun l5' l6' => IH (S i) fuel' l5' l6' ltac:(lia) ltac:(lia)) as IH'. unfold quit_loop in IH'; cbn [fn_body cf_ec_quit] in IH'.
      slot_off i 1%nat. destruct (lbs_nth t i Hlbs ltac:(lia)) as [E|[b [o E]]].
      + (* an empty slot *)
        rewrite E. cbn [is_null negb andb].
        rewrite (tab_load m t i 1 (VInt 0) _ Hm Hs) by (try lia; cbn [cs_tail nth_error]; congruence). xstep.
        rewrite chk_I32 by lia. xstep. replace (Z.of_nat i + 1) with (Z.of_nat (S i)) by lia. exact (IH' l5 l6).
      + (* an occupied slot: no question, lbuf_save *)
        assert (Hnn : is_null (cs_lb (nths t i)) = false) by (rewrite E; reflexivity).
        destruct (Hsave i ltac:(lia) Hnn) as [Hsv Hp]. unfold save_args in Hsv.
        rewrite Hnn. cbn [negb andb].
        rewrite (tab_load m t i 1 (VPtr b o) _ Hm Hs) by (try lia; cbn [cs_tail nth_error]; congruence). xstep.
        rewrite (strchr0 m cb cmd 97 97 eq_refl Hcmd Ncmd) by lia. rewrite Ha. xstep.
        rewrite (strchr0 m cb cmd 97 97 eq_refl Hcmd Ncmd) by lia. rewrite Ha. xstep.
        slot_off i 1%nat. rewrite (tab_load m t i 1 (VPtr b o) _ Hm Hs) by (try lia; cbn [cs_tail nth_error]; congruence). xstep.
        change (chk I32 (- (1))) with (@Ok Z (-1)). xstep.
        destruct (Hpath i ltac:(lia) Hnn) as (pb & po & Epath). rewrite Epath in Hsv.
        slot_off i 0%nat. rewrite (tab_load m t i 0 (VPtr pb po) _ Hm Hs) by (try lia; cbn [cs_tail nth_error]; congruence). xstep.
        rewrite (strchr0 m cb cmd 33 33 eq_refl Hcmd Ncmd) by lia.
        assert (Hsv' : forall bz, bz = b2z (has_byte 33 cmd) ->
                  ext X_lbuf_save [VPtr b o; VInt 0; VInt (-1); VPtr pb po; VInt bz; VInt (wrap I64 (cs_mtime (nths t i)))] m = Ok (sv i, m))
          by (intros bz ->; rewrite <- E; exact Hsv).
        unfold has_byte in Hsv'.
        destruct (find_byte 33 cmd) as [kb|] eqn:Hb; xstep;
          (slot_off i 8%nat; rewrite (tab_load m t i 8 (VInt (cs_mtime (nths t i))) _ Hm Hs) by (try lia; reflexivity); xstep;
           rewrite callx_S, x_lbuf_save_none, (Hsv' _ eq_refl); xstep;
           destruct Hp as [E6|[b6 [o6 E6]]]; rewrite E6 in *; cbn [is_null negb]; xstep;
           [ rewrite chk_I32 by lia; xstep; replace (Z.of_nat i + 1) with (Z.of_nat (S i)) by lia; apply IH'
           | intros u2 m2 u1 m' Hsw Hshow; rewrite ?E6 in Hshow; rewrite Hsw; xstep; rewrite callx_S, x_ex_show_none, Hshow; xstep; rewrite ?E6; reflexivity ]).
  Qed.
End QuitAll.

(* ------------------------------------------------------------------ what qa says *)
Definition occ (t : list cslot) (k : nat) : bool := negb (is_null (cs_lb (nths t k))).

(* no failing slot <-> the save of EVERY occupied slot in the range answered NULL: no slot is exempt *)
Lemma qa_none t sv : forall n i, qa t sv n i = None <-> (forall k, (i <= k < i + n)%nat -> occ t k = true -> is_null (sv k) = true).
Proof.
  induction n as [|n IH]; intros i; cbn [qa]; [split; [intros _ k Hk; lia|reflexivity]|].
  fold (occ t i). split.
  - intros H k Hk Ho. destruct (occ t i) eqn:Oi; cbn [andb] in H.
    + destruct (is_null (sv i)) eqn:Ni; cbn [negb] in H; [|discriminate].
      destruct (Nat.eq_dec k i) as [->|Ne]; [exact Ni|]. apply (proj1 (IH (S i)) H k); [lia|exact Ho].
    + destruct (Nat.eq_dec k i) as [->|Ne]; [congruence|]. apply (proj1 (IH (S i)) H k); [lia|exact Ho].
  - intros H. destruct (occ t i) eqn:Oi; cbn [andb].
    + rewrite (H i ltac:(lia) Oi). cbn [negb]. apply IH. intros k Hk. apply H. lia.
    + apply IH. intros k Hk. apply H. lia.
Qed.

(* the failing slot found is occupied, its save answered a message, and every occupied slot in front of it was saved *)
Lemma qa_some t sv : forall n i j, qa t sv n i = Some j ->
  (i <= j < i + n)%nat /\ occ t j = true /\ is_null (sv j) = false /\
  (forall k, (i <= k < j)%nat -> occ t k = true -> is_null (sv k) = true).
Proof.
  induction n as [|n IH]; intros i j H; cbn [qa] in H; [discriminate|]. fold (occ t i) in H.
  destruct (occ t i) eqn:Oi; cbn [andb] in H.
  - destruct (is_null (sv i)) eqn:Ni; cbn [negb] in H.
    + destruct (IH (S i) j H) as (R & O & N & P). repeat split; try assumption; try lia.
      intros k Hk Ho. destruct (Nat.eq_dec k i) as [->|Ne]; [exact Ni|]. apply P; [lia|exact Ho].
    + inversion H; subst j. repeat split; try assumption; try lia.
  - destruct (IH (S i) j H) as (R & O & N & P). repeat split; try assumption; try lia.
    intros k Hk Ho. destruct (Nat.eq_dec k i) as [->|Ne]; [congruence|]. apply P; [lia|exact Ho].
Qed.

(* ------------------------------------------------------------------ ec_quit(loc, cmd, arg, txt) for xa / xa! *)
(* for EVERY table and whatever the save of each occupied slot answers (sv; the oracle leaves the memory): the write part first
   (TrQuit.write_part; a failure is tr_ec_quit_write_fails); then the 16 slots in order, every occupied one handed to lbuf_save with
   (lb, 0, -1, path, !!strchr(cmd, '!'), mtime) -- also a slot whose path is the empty string, the C text has no test of the path --;
   if every save answered NULL xquit = 1 is stored and 0 returned; if slot j is the first whose save answered a message: bufs_switch(j),
   ex_show(that message), 0 returned and xquit NOT stored: the memory is exactly what bufs_switch and ex_show left *)
Theorem tr_ec_quit_all ext m mw t cb cmd loc arg txt q0 ka sv d fuel : str_at m cb cmd -> nonul cmd -> ptr_val arg ->
  write_part ext cb cmd arg m 0 mw ->
  tab_at mw t -> tab_ok t -> lbs_ok t -> cell_at mw G_xquit q0 -> str_at mw cb cmd ->
  find_byte 97 cmd = Some ka -> (16 < fuel)%nat ->
  (forall i, (i < 16)%nat -> is_null (cs_lb (nths t i)) = false ->
     ext X_lbuf_save (save_args t cmd i) mw = Ok (sv i, mw) /\ ptr_val (sv i)) ->
  (forall i, (i < 16)%nat -> is_null (cs_lb (nths t i)) = false -> exists pb po, cs_path (nths t i) = VPtr pb po) ->
  match qa t sv 16 0 with
  | None => callx ext cprog fuel (S (S (S (S d)))) F_ec_quit [loc; VPtr cb 0; arg; txt] m = Ok (VInt 0, upd mw G_xquit [VInt 1])
  | Some j => forall u2 m2 u1 m', callx ext cprog fuel (S (S (S d))) F_bufs_switch [VInt (Z.of_nat j)] mw = Ok (u2, m2) ->
      ext X_ex_show [sv j] m2 = Ok (u1, m') ->
      callx ext cprog fuel (S (S (S (S d)))) F_ec_quit [loc; VPtr cb 0; arg; txt] m = Ok (VInt 0, m')
  end.
Proof.
  intros Hcmd Ncmd Harg Hw Hm Ht Hlbs Hq Hcmdw Ha Hf Hsave Hpath.
  pose proof (quit_all_ok ext t cb cmd loc arg txt d fuel mw sv Ht Hlbs Ncmd Hm Hcmdw ka Ha Hsave Hpath 16 0 fuel VUndef VUndef eq_refl Hf) as Hloop.
  destruct (qa t sv 16 0) as [j|].
  - intros u2 m2 u1 m' Hsw Hshow. specialize (Hloop u2 m2 u1 m' Hsw Hshow).
    apply (quit_head ext m cb cmd loc arg txt 0 mw d fuel _ Hcmd Ncmd Harg Hw). cbn [Z.eqb].
    unfold quit_rest. cbn [fn_body cf_ec_quit]. rewrite exec_seq, exec_seq, exec_expr. xcbn.
    unfold quit_loop in Hloop; cbn [fn_body cf_ec_quit] in Hloop. change (Z.of_nat 0) with 0 in Hloop. rewrite Hloop. reflexivity.
  - destruct Hloop as (l5' & l6' & Hloop).
    apply (quit_head ext m cb cmd loc arg txt 0 mw d fuel _ Hcmd Ncmd Harg Hw). cbn [Z.eqb].
    unfold quit_rest. cbn [fn_body cf_ec_quit]. rewrite exec_seq, exec_seq, exec_expr. xcbn.
    unfold quit_loop in Hloop; cbn [fn_body cf_ec_quit] in Hloop. change (Z.of_nat 0) with 0 in Hloop. rewrite Hloop. xstep.
    change (wrap I32 1) with 1. rewrite (store_cell mw G_xquit q0 1 Hq). xstep. reflexivity.
Qed.

(* one occupied slot whose save answers a message -- for instance the slot of the buffer without a name, whose empty path cannot be
   created -- and xquit is not stored, whatever the other slots hold and whatever their saves answer *)
Theorem tr_ec_quit_all_refused t sv k : (k < 16)%nat -> is_null (cs_lb (nths t k)) = false -> is_null (sv k) = false ->
  exists j, qa t sv 16 0 = Some j /\ (j <= k)%nat.
Proof.
  intros Hk Ho Hn. destruct (qa t sv 16 0) as [j|] eqn:Q.
  - exists j. split; [reflexivity|]. destruct (qa_some t sv 16 0 j Q) as (_ & _ & _ & P).
    destruct (le_lt_dec j k) as [L|L]; [exact L|]. exfalso.
    assert (X : is_null (sv k) = true) by (apply P; [lia|unfold occ; rewrite Ho; reflexivity]). congruence.
  - exfalso. assert (X : is_null (sv k) = true) by (apply (proj1 (qa_none t sv 16 0) Q k); [lia|unfold occ; rewrite Ho; reflexivity]). congruence.
Qed.

Lemma qa_none16 t sv : qa t sv 16 0 = None <->
  (forall k, (k < 16)%nat -> is_null (cs_lb (nths t k)) = false -> is_null (sv k) = true).
Proof.
  split.
  - intros H k Hk Ho. apply (proj1 (qa_none t sv 16 0) H k); [lia|unfold occ; rewrite Ho; reflexivity].
  - intros H. apply (proj2 (qa_none t sv 16 0)). intros k Hk Ho. apply H; [lia|]. unfold occ in Ho. destruct (is_null (cs_lb (nths t k))); [discriminate|reflexivity].
Qed.
Lemma qa_some16 t sv j : qa t sv 16 0 = Some j ->
  (j < 16)%nat /\ is_null (cs_lb (nths t j)) = false /\ is_null (sv j) = false /\
  (forall k, (k < j)%nat -> is_null (cs_lb (nths t k)) = false -> is_null (sv k) = true).
Proof.
  intros H. destruct (qa_some t sv 16 0 j H) as (R & O & N & P). unfold occ in O.
  repeat split; try assumption; try lia.
  - destruct (is_null (cs_lb (nths t j))); [discriminate|reflexivity].
  - intros k Hk Ho. apply P; [lia|unfold occ; rewrite Ho; reflexivity].
Qed.

(* ------------------------------------------------------------------ the C loop against the model DirtyAllDefs.quit_n *)
(* A table of the model (DirtyAllDefs.ntable: Some nbuf / None per slot) describes the C table t from slot i on when the occupied slots
   are the same, and the answers sv are those of an environment in which a buffer WITHOUT a name cannot be saved (open("") fails).
   The environment's answers for the slots that have a name, in slot order, are the schedule the model consumes. *)
From NV Require DirtyDefs DirtyAllDefs.

Fixpoint tab_rel (t : list cslot) (sv : nat -> val) (i : nat) (tab : DirtyAllDefs.ntable) : Prop :=
  match tab with
  | [] => True
  | None :: r => is_null (cs_lb (nths t i)) = true /\ tab_rel t sv (S i) r
  | Some f :: r => is_null (cs_lb (nths t i)) = false /\ (DirtyDefs.nname f = None -> is_null (sv i) = false) /\ tab_rel t sv (S i) r
  end.
Fixpoint sch_of (sv : nat -> val) (i : nat) (tab : DirtyAllDefs.ntable) : list bool :=
  match tab with
  | [] => []
  | None :: r => sch_of sv (S i) r
  | Some f :: r => match DirtyDefs.nname f with
                   | None => sch_of sv (S i) r
                   | Some _ => is_null (sv i) :: sch_of sv (S i) r
                   end
  end.

(* the loop of the C text stores xquit (qa = None) exactly when the model's loop exits; and the slot at which the C loop stops is the
   number of slots the model's loop has put behind it *)
Lemma qa_is_model t sv bang : forall tab i pre calls, tab_rel t sv i tab ->
  match qa t sv (length tab) i with
  | None => snd (fst (fst (DirtyAllDefs.quit_n true bang pre tab (sch_of sv i tab) calls))) = true
  | Some j => snd (fst (fst (DirtyAllDefs.quit_n true bang pre tab (sch_of sv i tab) calls))) = false
  end.
Proof.
  induction tab as [|[f|] r IH]; intros i pre calls R; cbn [length qa DirtyAllDefs.quit_n sch_of negb andb].
  - reflexivity.
  - destruct R as (O & U & R). rewrite O. cbn [negb andb].
    destruct (DirtyDefs.nname f) as [p|] eqn:Nm.
    + cbn [DirtyAllDefs.next_ok]. destruct (is_null (sv i)) eqn:Ns; cbn [negb].
      * apply IH. exact R.
      * reflexivity.
    + rewrite (U eq_refl). cbn [negb]. reflexivity.
  - destruct R as (O & R). rewrite O. cbn [negb andb]. apply IH. exact R.
Qed.

Theorem tr_quit_all_is_model t sv bang tab : length tab = 16%nat -> tab_rel t sv 0 tab ->
  (qa t sv 16 0 = None <-> snd (fst (fst (DirtyAllDefs.quit_n true bang [] tab (sch_of sv 0 tab) []))) = true).
Proof.
  intros L R. pose proof (qa_is_model t sv bang tab 0%nat [] [] R) as H. rewrite L in H.
  destruct (qa t sv 16 0) as [j|]; split; intro X; try reflexivity; try exact H; congruence.
Qed.

(* so, for the C text: if the `a` loop of ec_quit stores xquit -- every lbuf_save answered NULL -- in an environment that cannot save a
   buffer without a name, then (DirtyAllProps.xa_every_slot_saved) every buffer of the table has a name and its file holds its text *)
From NV Require DirtyProps DirtyAllProps.
Theorem tr_quit_all_exit_sound t sv bang tab : length tab = 16%nat -> tab_rel t sv 0 tab ->
  Forall DirtyProps.NInv (DirtyAllDefs.noccupied tab) -> qa t sv 16 0 = None ->
  Forall (fun f => DirtyDefs.nname f <> None) (DirtyAllDefs.noccupied tab) /\
  let t' := fst (fst (fst (DirtyAllDefs.quit_n true bang [] tab (sch_of sv 0 tab) []))) in
  Forall DirtyAllProps.good (DirtyAllDefs.noccupied t') /\
  map DirtyAllProps.ntext (DirtyAllDefs.noccupied t') = map DirtyAllProps.ntext (DirtyAllDefs.noccupied tab).
Proof.
  intros L R Inv Q. apply (proj1 (tr_quit_all_is_model t sv bang tab L R)) in Q.
  destruct (DirtyAllDefs.quit_n true bang [] tab (sch_of sv 0 tab) []) as [[[t' q] cl] s'] eqn:E. cbn [fst snd] in *. subst q.
  destruct (DirtyAllProps.xa_every_slot_saved bang tab _ t' cl s' Inv E) as (_ & F & G & T & _). auto.
Qed.
