(* RegDefs.v -- C08: mirror of reg.c (256 register slots, the double-quote name reads slot 0,
   numbered-register rotation, upper-case append).  The pseudo-registers ; # ^ of reg_get are
   not modelled. *)
From Coq Require Import List NArith ZArith Bool.
From NV Require Import Bytes UcDefs.
Import ListNotations.
Local Open Scope N_scope.

Definition regval := (bytes * bool)%type.           (* contents, line-wise flag *)
Definition regs := N -> option regval.              (* bufs[c] / lnmode[c]; None = NULL *)
Definition regs0 : regs := fun _ => None.
Definition upd (R : regs) (c : N) (v : option regval) : regs := fun d => if N.eqb d c then v else R d.

(* reg_get (the double quote, 34, reads slot 0) *)
Definition reg_get (R : regs) (c : N) : option regval := R (if N.eqb c 34 then 0 else c).

(* reg_putraw *)
Definition reg_putraw (R : regs) (c : N) (s : bytes) (ln : bool) : regs :=
  let lc := c_tolower c in
  let pre := if c_isupper c then match R lc with Some (b, _) => b | None => [] end else [] in
  upd R lc (Some (pre ++ s, ln)).

Definition has_nl (s : bytes) : bool := existsb (N.eqb 10) s.

(* for (i = 8; i > 0; i--) if ((i_s = reg_get(48 + i, &i_ln))) reg_putraw(48 + i + 1, i_s, i_ln); *)
Definition rot_digits : list N := [56; 55; 54; 53; 52; 51; 50; 49].
Definition rot_step (R : regs) (d : N) : regs :=
  match reg_get R d with Some (s, l) => reg_putraw R (d + 1) s l | None => R end.
Definition rotate (R : regs) : regs := fold_left rot_step rot_digits R.

(* reg_put *)
Definition reg_put (R : regs) (c : N) (s : bytes) (ln : bool) : regs :=
  let R := if (ln || has_nl s) && (N.eqb c 0 || c_isalpha c)
           then reg_putraw (rotate R) 49 s ln else R in
  reg_putraw R c s ln.
