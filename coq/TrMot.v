(* TrMot.v -- the motion scanners of /repo/mot.c (and lbuf_get / lbuf_len of lbuf.c): the hand-written model
   MotDefs.v (property C07) is what the C text says.  For each function, running the CLite term tools/c2clite.py
   generated from /repo (GenCFuncs.v) on a memory that holds the buffer

     block lb   : a struct lbuf (75 cells; cell 64 = ln, cell 66 = ln_n),
     block bln  : the array lb->ln of pointer cells (ln_sz of them; the first ln_n point, at offset 0, to
     blocks lbs : pairwise distinct blocks, each holding one line as a NUL-terminated C string,

   and the two int cells the out-parameters int *row, int *off point to, gives for ALL buffers, ALL rows / offsets
   the value of the model and the memory the model predicts (the two int cells rewritten, nothing else) -- every
   load and store checked inside its block, no signed overflow, no fuel exhausted.
   The model works on a character view of a line (MotDefs.chop = cut by uc_next); the C text works on byte
   pointers: the bridge is the section "chop" below together with the theorems of TrUc.v about uc_slen / uc_chr /
   uc_next and of TrUcTab.v about uc_isspace / uc_kind. *)
From Coq Require Import List ZArith NArith Bool Lia.
From NV Require Import Bytes UcDefs CLite CLiteProps GenCFuncs CLiteTac TrLbufBase TrUcCode TrUc TrUcClass MotDefs.
Import ListNotations.
Local Open Scope Z_scope.

(* ------------------------------------------------------------------ lists: extensionality of upd *)
Lemma nth_error_ext' {A} (l1 l2 : list A) : (forall i, nth_error l1 i = nth_error l2 i) -> l1 = l2.
Proof.
  revert l2; induction l1 as [|a l1 IH]; intros [|b l2] H; try reflexivity.
  - specialize (H O). discriminate.
  - specialize (H O). discriminate.
  - pose proof (H O) as H0. cbn in H0. injection H0 as ->. f_equal. apply IH. intro i. exact (H (S i)).
Qed.
Lemma nth_error_upd {A} (l : list A) n k x : (n < length l)%nat ->
  nth_error (upd l n x) k = if Nat.eqb k n then Some x else nth_error l k.
Proof.
  intro H. destruct (Nat.eqb_spec k n) as [->|Hne]; [apply nth_error_upd_same; exact H|apply nth_error_upd_other; assumption].
Qed.

(* ------------------------------------------------------------------ the two int cells *row, *off *)
(* the memory in which the cell of block br holds r and the cell of block bo holds o *)
Definition set_pos (m : mem) (br bo : nat) (r o : Z) : mem := upd (upd m br [VInt r]) bo [VInt o].

Lemma set_pos_nth m br bo r o k : (br < length m)%nat -> (bo < length m)%nat -> br <> bo ->
  nth_error (set_pos m br bo r o) k = if Nat.eqb k bo then Some [VInt o] else if Nat.eqb k br then Some [VInt r] else nth_error m k.
Proof.
  intros Hr Ho Hne. unfold set_pos. rewrite nth_error_upd by (rewrite upd_length by exact Hr; exact Ho).
  destruct (Nat.eqb k bo); [reflexivity|]. apply nth_error_upd. exact Hr.
Qed.
Lemma set_pos_length m br bo r o : (br < length m)%nat -> (bo < length m)%nat -> length (set_pos m br bo r o) = length m.
Proof. intros Hr Ho. unfold set_pos. rewrite upd_length by (rewrite upd_length by exact Hr; exact Ho). apply upd_length. exact Hr. Qed.
Lemma set_pos_set_pos m br bo r o r' o' : (br < length m)%nat -> (bo < length m)%nat -> br <> bo ->
  set_pos (set_pos m br bo r o) br bo r' o' = set_pos m br bo r' o'.
Proof.
  intros Hr Ho Hne. apply nth_error_ext'. intro k.
  rewrite !set_pos_nth; try assumption; try (rewrite set_pos_length by assumption; assumption).
  destruct (Nat.eqb k bo), (Nat.eqb k br); reflexivity.
Qed.
Lemma set_pos_self m br bo r o : cell_at m br r -> cell_at m bo o -> set_pos m br bo r o = m.
Proof.
  intros Hr Ho. unfold set_pos. unfold cell_at in *. rewrite (upd_self m br _ Hr). apply upd_self. exact Ho.
Qed.
Lemma set_pos_cells m br bo r o : (br < length m)%nat -> (bo < length m)%nat -> br <> bo ->
  cell_at (set_pos m br bo r o) br r /\ cell_at (set_pos m br bo r o) bo o.
Proof.
  intros Hr Ho Hne. unfold cell_at. rewrite !set_pos_nth by assumption. rewrite Nat.eqb_refl.
  destruct (Nat.eqb_spec br bo); [contradiction|]. rewrite Nat.eqb_refl. split; reflexivity.
Qed.
Lemma set_pos_other m br bo r o k : (br < length m)%nat -> (bo < length m)%nat -> k <> br -> k <> bo ->
  nth_error (set_pos m br bo r o) k = nth_error m k.
Proof.
  intros Hr Ho H1 H2. unfold set_pos. rewrite mem_upd_other; [|rewrite upd_length by exact Hr; exact Ho|exact H2].
  apply mem_upd_other; assumption.
Qed.
Lemma cell_lt m b v : cell_at m b v -> (b < length m)%nat.
Proof. intro H. apply nth_error_Some. unfold cell_at in H. congruence. Qed.

(* ------------------------------------------------------------------ the buffer in memory *)
Definition nthl (lines : list bytes) (i : nat) : bytes := nth i lines [].
(* block lb is a struct lbuf whose ln field points to block bln, an array of pointer cells; its first ln_n = length lines
   cells point (offset 0) to the blocks lbs, pairwise distinct and distinct from lb and bln; block (nth i lbs) holds
   line i as a C string (bytes 1..255, then the terminator) *)
Record lbuf_at (m : mem) (lb bln : nat) (lbs : list nat) (lines : list bytes) : Prop := mk_lbuf_at {
  la_blk : exists blk, nth_error m lb = Some blk /\ length blk = LBUF_CELLS /\
           nth_error blk L_ln = Some (VPtr bln 0) /\ nth_error blk L_ln_n = Some (VInt (Z.of_nat (length lines)));
  la_ln : exists lnblk, nth_error m bln = Some lnblk /\ (length lines <= length lnblk)%nat /\
          forall i, (i < length lines)%nat -> nth_error lnblk i = Some (VPtr (nth i lbs O) 0);
  la_lbs : length lbs = length lines;
  la_str : forall i, (i < length lines)%nat -> str_at m (nth i lbs O) (nthl lines i);
  la_nodup : NoDup (lb :: bln :: lbs);
  la_nonul : Forall nonul lines
}.
Definition lbuf_rep (m : mem) (lb : nat) (lines : list bytes) : Prop := exists bln lbs, lbuf_at m lb bln lbs lines.
(* every line ends in "\n" (what lbuf.c guarantees; the theorems below do not need it) *)
Definition lines_nl (lines : list bytes) : Prop := Forall (fun s => exists body, s = body ++ [10%N]) lines.
(* the C ints: the number of lines and the length of every line fit an int *)
Definition lines_small (lines : list bytes) : Prop :=
  Z.of_nat (length lines) <= 2147483647 /\ Forall (fun s => Z.of_nat (length s) <= 2147483647) lines.
(* the loops of uc.c over one line need fuel beyond the length of the longest line *)
Definition maxlen (lines : list bytes) : nat := fold_right (fun s a => Nat.max (length s) a) O lines.
Lemma maxlen_ge lines i : (length (nthl lines i) <= maxlen lines)%nat.
Proof.
  unfold nthl. revert i; induction lines as [|s l IH]; intro i; [destruct i; cbn; lia|].
  destruct i as [|i]; cbn [nth maxlen fold_right]; [lia|]. specialize (IH i). unfold maxlen in IH. lia.
Qed.
Lemma nthl_nonul lines i : Forall nonul lines -> nonul (nthl lines i).
Proof.
  intro H. unfold nthl. destruct (Nat.lt_ge_cases i (length lines)) as [L|L].
  - rewrite Forall_forall in H. apply H. apply nth_In. exact L.
  - rewrite nth_overflow by exact L. constructor.
Qed.
Lemma nthl_small lines i : lines_small lines -> Z.of_nat (length (nthl lines i)) <= 2147483647.
Proof.
  intros [_ H]. unfold nthl. destruct (Nat.lt_ge_cases i (length lines)) as [L|L].
  - rewrite Forall_forall in H. apply H. apply nth_In. exact L.
  - rewrite nth_overflow by exact L. cbn. lia.
Qed.

(* a change of a block outside the representation keeps it *)
Lemma lbuf_at_other m m' lb bln lbs lines : lbuf_at m lb bln lbs lines ->
  (forall k, In k (lb :: bln :: lbs) -> nth_error m' k = nth_error m k) -> lbuf_at m' lb bln lbs lines.
Proof.
  intros [Hb Hl Hn Hs Hd Hz] Hk. constructor; try assumption.
  - destruct Hb as (blk & H1 & H2). exists blk. split; [|exact H2]. rewrite Hk by (left; reflexivity). exact H1.
  - destruct Hl as (lnblk & H1 & H2). exists lnblk. split; [|exact H2]. rewrite Hk by (right; left; reflexivity). exact H1.
  - intros i Hi. unfold str_at. rewrite Hk; [apply Hs; exact Hi|]. right; right. apply nth_In. lia.
Qed.
Lemma lbuf_at_set_pos m lb bln lbs lines br bo r o : lbuf_at m lb bln lbs lines ->
  (br < length m)%nat -> (bo < length m)%nat -> ~ In br (lb :: bln :: lbs) -> ~ In bo (lb :: bln :: lbs) ->
  lbuf_at (set_pos m br bo r o) lb bln lbs lines.
Proof.
  intros R Hr Ho Nr No. apply (lbuf_at_other m); [exact R|]. intros k Hk.
  apply set_pos_other; try assumption; intros ->; contradiction.
Qed.

(* ------------------------------------------------------------------ lbuf_get, lbuf_len *)
(* the row as an index: Some i = line i exists *)
Definition rowidx (lines : list bytes) (r : Z) : option nat :=
  if (0 <=? r) && (r <? Z.of_nat (length lines)) then Some (Z.to_nat r) else None.
Definition line_ptr (lbs : list nat) (lines : list bytes) (r : Z) : val :=
  match rowidx lines r with Some i => VPtr (nth i lbs O) 0 | None => VInt 0 end.

Lemma getl_rowidx lines r : getl (map chop lines) r = option_map (fun i => chop (nthl lines i)) (rowidx lines r).
Proof.
  unfold getl, rowidx. destruct (Z.ltb_spec r 0); [destruct (Z.leb_spec 0 r); [lia|reflexivity]|].
  destruct (Z.leb_spec 0 r); [|lia]. cbn [andb].
  destruct (Z.ltb_spec r (Z.of_nat (length lines))).
  - cbn [option_map]. rewrite nth_error_map. unfold nthl. rewrite (nth_error_nth' lines []) by lia. reflexivity.
  - replace (nth_error _ _) with (@None line); [reflexivity|]. symmetry. apply nth_error_None. rewrite map_length. lia.
Qed.

Theorem tr_lbuf_get m lb bln lbs lines r d fuel : lbuf_at m lb bln lbs lines -> lines_small lines ->
  callf cprog fuel (S d) F_lbuf_get [VPtr lb 0; VInt r] m = Ok (line_ptr lbs lines r, m).
Proof.
  intros [(blk & Hb & Hlen & Hln & Hn) (lnblk & Hl & Hsz & Hcells) Hlbs _ _ _] [Hsm _].
  enter F_lbuf_get cf_lbuf_get. xstep. unfold line_ptr, rowidx.
  destruct (Z.leb_spec 0 r) as [H0|H0]; xstep; [|reflexivity].
  rewrite (fld_load m lb blk L_ln_n _ _ Hb Hn) by reflexivity. xstep. rewrite wrap_I32_id by lia.
  destruct (Z.ltb_spec r (Z.of_nat (length lines))) as [H1|H1]; xstep; [|reflexivity].
  rewrite (fld_load m lb blk L_ln _ _ Hb Hln) by reflexivity. xstep.
  rewrite (fld_load m bln lnblk (Z.to_nat r) _ _ Hl (Hcells (Z.to_nat r) ltac:(lia))) by lia. reflexivity.
Qed.

Theorem tr_lbuf_len m lb bln lbs lines d fuel : lbuf_at m lb bln lbs lines -> lines_small lines ->
  callf cprog fuel (S d) F_lbuf_len [VPtr lb 0] m = Ok (VInt (blen (map chop lines)), m).
Proof.
  intros [(blk & Hb & Hlen & Hln & Hn) _ _ _ _ _] [Hsm _].
  enter F_lbuf_len cf_lbuf_len. xstep.
  rewrite (fld_load m lb blk L_ln_n _ _ Hb Hn) by reflexivity. xstep. rewrite wrap_I32_id by lia.
  unfold blen. rewrite map_length. reflexivity.
Qed.

(* ------------------------------------------------------------------ chop: the character view of a line *)
(* the first character of a string, as MotDefs.chop cuts it ("" for the empty string) *)
Definition hd_chr (t : bytes) : chr := match t with [] => [] | _ => firstn (Nat.max 1 (uc_next t)) t end.

Lemma nonul_next t : nonul t -> t <> [] -> Nat.max 1 (uc_next t) = uc_next t /\ (1 <= uc_next t <= length t)%nat /\ uc_next t = S (uc_end t).
Proof.
  intros Hn Ht. pose proof (uc_next_nonul t Hn Ht) as E. pose proof (uc_end_lt t Ht). lia.
Qed.
Lemma chop_f_fuel : forall f1 f2 t, (length t <= f1)%nat -> (length t <= f2)%nat -> chop_f f1 t = chop_f f2 t.
Proof.
  induction f1 as [|f1 IH]; intros f2 t H1 H2.
  - destruct t; [|cbn in H1; lia]. destruct f2; reflexivity.
  - destruct t as [|x t]; [destruct f2; reflexivity|]. destruct f2 as [|f2]; [cbn in H2; lia|].
    cbn [chop_f]. f_equal. apply IH; rewrite skipn_length; cbn [length] in *; lia.
Qed.
Lemma chop_cons t : t <> [] -> chop t = hd_chr t :: chop (skipn (Nat.max 1 (uc_next t)) t).
Proof.
  intro Ht. destruct t as [|x t]; [congruence|]. unfold chop at 1. cbn [length chop_f hd_chr]. f_equal.
  unfold chop. apply chop_f_fuel; rewrite skipn_length; cbn [length]; lia.
Qed.
Lemma chop_nil : chop [] = [].
Proof. reflexivity. Qed.
Lemma hd0_firstn k (t : bytes) : (1 <= k)%nat -> hd0 (firstn k t) = hd0 t.
Proof. intro H. destruct k; [lia|]. destruct t; reflexivity. Qed.
Lemma hd0_hd_chr t : hd0 (hd_chr t) = hd0 t.
Proof. destruct t as [|x t]; [reflexivity|]. unfold hd_chr. apply hd0_firstn. lia. Qed.

(* uc_slen counts the characters of chop *)
Lemma uc_slen_f_chop : forall k t, nonul t -> uc_slen_f k t = length (chop_f k t).
Proof.
  induction k as [|k IH]; intros t Hn; [reflexivity|]. destruct t as [|x t]; [reflexivity|].
  cbn [uc_slen_f chop_f length]. f_equal.
  destruct (nonul_next (x :: t) Hn ltac:(discriminate)) as (E1 & _ & E2). rewrite E1, E2.
  apply IH. apply nonul_skipn. exact Hn.
Qed.
Lemma uc_slen_chop t : nonul t -> uc_slen t = length (chop t).
Proof. intro H. apply uc_slen_f_chop. exact H. Qed.

(* uc_chr(s, off) points at the character chop s has at index off: the pointed suffix starts with it
   (the terminator = the empty character, also for off < 0 and off = the number of characters); the static ""
   is returned exactly when the model reads the empty character beyond the line *)
Lemma uc_chr_f_chop : forall k t i off base, nonul t -> (length t <= k)%nat ->
  match uc_chr_f k t i off base with
  | Some q => (base <= q <= base + length t)%nat /\ hd_chr (skipn (q - base) t) = chr_at (chop t) (off - i)
  | None => chr_at (chop t) (off - i) = []
  end.
Proof.
  induction k as [|k IH]; intros t i off base Hn Hk.
  - destruct t; [|cbn in Hk; lia]. cbn [uc_chr_f]. unfold chr_at. rewrite chop_nil.
    destruct ((off <? 0) || (i =? off)); [split; [cbn; lia|]; rewrite Nat.sub_diag|];
      destruct (off - i <? 0); try reflexivity; destruct (Z.to_nat (off - i)); reflexivity.
  - destruct t as [|x t].
    + cbn [uc_chr_f]. unfold chr_at. rewrite chop_nil.
      destruct ((off <? 0) || (i =? off)); [split; [cbn; lia|]; rewrite Nat.sub_diag|];
        destruct (off - i <? 0); try reflexivity; destruct (Z.to_nat (off - i)); reflexivity.
    + cbn [uc_chr_f]. destruct (nonul_next (x :: t) Hn ltac:(discriminate)) as (E1 & E3 & E2).
      rewrite (chop_cons (x :: t)) by discriminate. rewrite E1.
      destruct (Z.eqb_spec i off) as [->|Hne].
      * split; [lia|]. rewrite Nat.sub_diag, Z.sub_diag. reflexivity.
      * set (n := uc_next (x :: t)) in *.
        specialize (IH (skipn n (x :: t)) (i + 1) off (base + n)%nat (nonul_skipn _ n Hn)).
        rewrite skipn_length in IH. specialize (IH ltac:(cbn [length] in *; lia)).
        assert (Hc : chr_at (hd_chr (x :: t) :: chop (skipn n (x :: t))) (off - i) = chr_at (chop (skipn n (x :: t))) (off - (i + 1))).
        { unfold chr_at. destruct (Z.ltb_spec (off - i) 0); destruct (Z.ltb_spec (off - (i + 1)) 0); try lia; try reflexivity.
          replace (Z.to_nat (off - i)) with (S (Z.to_nat (off - (i + 1)))) by lia. reflexivity. }
        rewrite Hc. destruct (uc_chr_f k (skipn n (x :: t)) (i + 1) off (base + n)) as [q|]; [|exact IH].
        destruct IH as [Hq IH]. split; [cbn [length] in *; lia|]. rewrite <- IH. rewrite skipn_skipn. f_equal. f_equal. lia.
Qed.
Lemma uc_chr_chop s off : nonul s ->
  match uc_chr s off with
  | Some q => (q <= length s)%nat /\ hd_chr (skipn q s) = chr_at (chop s) off
  | None => chr_at (chop s) off = []
  end.
Proof.
  intro Hn. pose proof (uc_chr_f_chop (length s) s 0 off 0 Hn ltac:(lia)) as H. unfold uc_chr.
  rewrite Z.sub_0_r in H. destruct (uc_chr_f (length s) s 0 off 0) as [q|]; [|exact H].
  rewrite Nat.sub_0_r in H. destruct H as [H1 H2]. split; [lia|exact H2].
Qed.

(* the leading white space of a line, counted on the bytes *)
Lemma uc_isspace_hd t : uc_isspace (hd_chr t) = uc_isspace t.
Proof. unfold uc_isspace. rewrite hd0_hd_chr. reflexivity. Qed.
Lemma uc_kind_hd t : uc_kind (hd_chr t) = uc_kind t.
Proof. unfold uc_kind, uc_isspace, uc_isalpha, uc_isdigit. rewrite hd0_hd_chr. reflexivity. Qed.
Lemma count_space_cons t : t <> [] ->
  count_space (chop t) = if uc_isspace t then 1 + count_space (chop (skipn (Nat.max 1 (uc_next t)) t)) else 0.
Proof. intro Ht. rewrite chop_cons by exact Ht. cbn [count_space]. rewrite uc_isspace_hd. reflexivity. Qed.
Lemma count_space_le l : 0 <= count_space l <= slen l.
Proof.
  unfold slen. induction l as [|c l IH]; cbn [count_space length]; [lia|]. destruct (uc_isspace c); lia.
Qed.
Lemma chop_f_length_le : forall k t, nonul t -> (length (chop_f k t) <= length t)%nat.
Proof.
  induction k as [|k IH]; intros t Hn; [cbn; lia|]. destruct t as [|x t]; [cbn; lia|].
  cbn [chop_f length]. destruct (nonul_next (x :: t) Hn ltac:(discriminate)) as (E1 & E3 & E2). rewrite E1.
  specialize (IH (skipn (uc_next (x :: t)) (x :: t)) (nonul_skipn _ _ Hn)). rewrite skipn_length in IH. cbn [length] in *. lia.
Qed.
Lemma chop_length_le t : nonul t -> (length (chop t) <= length t)%nat.
Proof. apply chop_f_length_le. Qed.

(* ------------------------------------------------------------------ lbuf_indents *)
Definition indents_loop : stmt :=
  match fn_body cf_lbuf_indents with SSeq _ (SSeq _ (SSeq (SSeq _ w) _)) => w | _ => SSkip end.

Lemma indents_loop_ok F d m b s v0 v1 : str_at m b s -> nonul s -> (length s < F)%nat ->
  forall k p n fuel, (length s - p <= k)%nat -> (p <= length s)%nat -> (k < fuel)%nat ->
  0 <= n -> n + Z.of_nat (length s - p) <= 2147483647 ->
  exists p', exec (callf cprog F (S (S d))) fuel indents_loop (mkst [v0; v1; VPtr b (Z.of_nat p); VInt n] m)
             = ONormal (mkst [v0; v1; VPtr b p'; VInt (n + count_space (chop (skipn p s)))] m).
Proof.
  intros Hs Hnn HF. pose proof (nonul_lt256 s Hnn) as H256.
  induction k as [|k IH]; intros p n fuel Hk Hp Hf Hn Hmax; (destruct fuel as [|fuel]; [lia|]);
    unfold indents_loop; cbn [fn_body cf_lbuf_indents]; rewrite exec_for; xstep;
    rewrite (tr_uc_isspace m b s p (S d) F Hs H256 Hp); xstep.
  - assert (p = length s) as -> by lia. rewrite skipn_end by lia. cbn. rewrite Z.add_0_r. eexists; reflexivity.
  - destruct (Nat.eq_dec p (length s)) as [->|Hne].
    + rewrite skipn_end by lia. cbn. rewrite Z.add_0_r. eexists; reflexivity.
    + pose proof (skipn_ne s p ltac:(lia)) as Ht.
      rewrite (count_space_cons _ Ht).
      destruct (nonul_next _ (nonul_skipn s p Hnn) Ht) as (E1 & E3 & E2). rewrite skipn_length in E3.
      destruct (uc_isspace (skipn p s)); xstep; [|rewrite Z.add_0_r; eexists; reflexivity].
      rewrite (tr_uc_next m b s p d F Hs H256) by lia. xstep.
      rewrite chk_I32 by lia. xstep. change (SFor _ _ _) with indents_loop.
      destruct (IH (p + uc_next (skipn p s))%nat (n + 1) fuel) as [p' Hp']; try lia.
      rewrite Hp'. exists p'. rewrite E1, skipn_skipn. rewrite Z.add_assoc. reflexivity.
Qed.

Theorem tr_lbuf_indents m lb bln lbs lines r d fuel : lbuf_at m lb bln lbs lines -> lines_small lines ->
  (maxlen lines < fuel)%nat ->
  callf cprog fuel (S (S (S d))) F_lbuf_indents [VPtr lb 0; VInt r] m = Ok (VInt (lbuf_indents (map chop lines) r), m).
Proof.
  intros R Hsm Hf. enter F_lbuf_indents cf_lbuf_indents. xstep.
  rewrite (tr_lbuf_get m lb bln lbs lines r (S d) fuel R Hsm). xstep.
  unfold lbuf_indents. rewrite getl_rowidx. unfold line_ptr. destruct (rowidx lines r) as [i|] eqn:Ei; xstep; [|reflexivity].
  assert (Hi : (i < length lines)%nat).
  { unfold rowidx in Ei. destruct (Z.leb_spec 0 r); [|discriminate]. destruct (Z.ltb_spec r (Z.of_nat (length lines))); [|discriminate].
    injection Ei as <-. lia. }
  pose proof (la_str _ _ _ _ _ R i Hi) as Hs. pose proof (nthl_nonul lines i (la_nonul _ _ _ _ _ R)) as Hnn.
  pose proof (maxlen_ge lines i) as Hml. pose proof (nthl_small lines i Hsm) as Hsmall.
  change (SFor _ _ _) with indents_loop. change (VPtr (nth i lbs O) 0) with (VPtr (nth i lbs O) (Z.of_nat 0)).
  destruct (indents_loop_ok fuel d m _ _ (VPtr lb 0) (VInt r) Hs Hnn ltac:(lia) (length (nthl lines i)) O 0 fuel) as [p' Hp']; try lia.
  rewrite Hp'. xstep. cbn [skipn option_map]. reflexivity.
Qed.

(* ------------------------------------------------------------------ lbuf_eol, lbuf_lnnext *)
Lemma rowidx_lt lines r i : rowidx lines r = Some i -> (i < length lines)%nat /\ r = Z.of_nat i.
Proof.
  unfold rowidx. destruct (Z.leb_spec 0 r); [|discriminate]. destruct (Z.ltb_spec r (Z.of_nat (length lines))); [|discriminate].
  intro E. injection E as <-. lia.
Qed.
(* uc_slen of the line a row index names *)
Lemma slen_line m lb bln lbs lines i d fuel : lbuf_at m lb bln lbs lines -> lines_small lines -> (maxlen lines < fuel)%nat ->
  (i < length lines)%nat ->
  callf cprog fuel (S (S d)) F_uc_slen [VPtr (nth i lbs O) 0] m = Ok (VInt (slen (chop (nthl lines i))), m).
Proof.
  intros R Hsm Hf Hi. pose proof (la_str _ _ _ _ _ R i Hi) as Hs. pose proof (nthl_nonul lines i (la_nonul _ _ _ _ _ R)) as Hnn.
  pose proof (maxlen_ge lines i) as Hml. pose proof (nthl_small lines i Hsm) as Hsmall.
  change (VPtr (nth i lbs O) 0) with (VPtr (nth i lbs O) (Z.of_nat 0)).
  rewrite (tr_uc_slen m _ _ O d fuel Hs Hnn) by lia. cbn [skipn]. rewrite uc_slen_chop by exact Hnn. reflexivity.
Qed.
Lemma slen_small lines i : lines_small lines -> Forall nonul lines -> 0 <= slen (chop (nthl lines i)) <= 2147483647.
Proof.
  intros Hsm Hn. pose proof (chop_length_le _ (nthl_nonul lines i Hn)). pose proof (nthl_small lines i Hsm). unfold slen. lia.
Qed.

Theorem tr_lbuf_eol m lb bln lbs lines r d fuel : lbuf_at m lb bln lbs lines -> lines_small lines ->
  (maxlen lines < fuel)%nat ->
  callf cprog fuel (S (S (S d))) F_lbuf_eol [VPtr lb 0; VInt r] m = Ok (VInt (lbuf_eol (map chop lines) r), m).
Proof.
  intros R Hsm Hf. enter F_lbuf_eol cf_lbuf_eol. xstep.
  rewrite (tr_lbuf_get m lb bln lbs lines r (S d) fuel R Hsm). xstep.
  unfold lbuf_eol. rewrite getl_rowidx. unfold line_ptr. destruct (rowidx lines r) as [i|] eqn:Ei; xstep; [|reflexivity].
  destruct (rowidx_lt _ _ _ Ei) as [Hi _].
  rewrite (tr_lbuf_get m lb bln lbs lines r (S d) fuel R Hsm). unfold line_ptr. rewrite Ei. xstep.
  rewrite (slen_line m lb bln lbs lines i d fuel R Hsm Hf Hi). xstep. cbn [option_map].
  pose proof (slen_small lines i Hsm (la_nonul _ _ _ _ _ R)) as Hl.
  destruct (Z.eqb_spec (slen (chop (nthl lines i))) 0); xstep; [reflexivity|].
  rewrite chk_I32 by lia. reflexivity.
Qed.

Theorem tr_lbuf_lnnext m lb bln lbs lines br bo r o dir d fuel : lbuf_at m lb bln lbs lines -> lines_small lines ->
  (maxlen lines < fuel)%nat -> cell_at m br r -> cell_at m bo o -> i32 r -> i32 o -> i32 (o + dir) ->
  callf cprog fuel (S (S (S d))) F_lbuf_lnnext [VPtr lb 0; VInt dir; VPtr br 0; VPtr bo 0] m
  = Ok (match lbuf_lnnext (map chop lines) dir r o with
        | Some o' => (VInt 0, upd m bo [VInt o'])
        | None => (VInt 1, m)
        end).
Proof.
  intros R Hsm Hf Hr Ho Ir Io Iod. enter F_lbuf_lnnext cf_lbuf_lnnext. xstep.
  rewrite (load_cell m bo o Ho). xstep. rewrite wrap_I32_id by exact Io. rewrite chk_I32 by exact Iod. xstep.
  unfold lbuf_lnnext. rewrite getl_rowidx.
  destruct (Z.ltb_spec (o + dir) 0) as [L|L]; xstep.
  { destruct (rowidx lines r); reflexivity. }
  rewrite (load_cell m br r Hr). xstep. rewrite wrap_I32_id by exact Ir.
  rewrite (tr_lbuf_get m lb bln lbs lines r (S d) fuel R Hsm). unfold line_ptr.
  destruct (rowidx lines r) as [i|] eqn:Ei; xstep; [|reflexivity].
  destruct (rowidx_lt _ _ _ Ei) as [Hi _].
  rewrite (load_cell m br r Hr). xstep. rewrite wrap_I32_id by exact Ir.
  rewrite (tr_lbuf_get m lb bln lbs lines r (S d) fuel R Hsm). unfold line_ptr. rewrite Ei. xstep.
  rewrite (slen_line m lb bln lbs lines i d fuel R Hsm Hf Hi). xstep. cbn [option_map orb].
  rewrite Z.geb_leb. destruct (Z.leb_spec (slen (chop (nthl lines i))) (o + dir)); xstep; [reflexivity|].
  rewrite wrap_I32_id by exact Iod. rewrite (store_cell m bo o _ Ho). xstep. reflexivity.
Qed.

(* ------------------------------------------------------------------ lbuf_next *)
Lemma lbuf_at_upd m lb bln lbs lines b blk' : lbuf_at m lb bln lbs lines -> (b < length m)%nat -> ~ In b (lb :: bln :: lbs) ->
  lbuf_at (upd m b blk') lb bln lbs lines.
Proof.
  intros R Hb Nb. apply (lbuf_at_other m); [exact R|]. intros k Hk. apply mem_upd_other; [exact Hb|]. intros ->. contradiction.
Qed.

Definition next_tail : stmt := match fn_body cf_lbuf_next with SSeq _ t => t | _ => SSkip end.
(* lbuf_next after the clamp of the row *)
Definition next_tail_model (b : buf) (dir r o : Z) : st3 :=
  match lbuf_lnnext b dir r o with
  | Some o' => (false, r, o')
  | None => match getl b (r + dir) with
            | None => (true, r, o)
            | Some _ => (false, r + dir, if 0 <? dir then 0 else lbuf_eol b (r + dir))
            end
  end.
Definition st_val (s : bool) : val := VInt (if s then -1 else 0).

Lemma next_tail_ok m lb bln lbs lines br bo r o dir d fuel : lbuf_at m lb bln lbs lines -> lines_small lines ->
  (maxlen lines < fuel)%nat -> cell_at m br r -> cell_at m bo o -> br <> bo ->
  ~ In br (lb :: bln :: lbs) -> ~ In bo (lb :: bln :: lbs) ->
  i32 r -> i32 o -> i32 (o + dir) -> i32 (r + dir) ->
  exec (callf cprog fuel (S (S (S d)))) fuel next_tail (mkst [VPtr lb 0; VInt dir; VPtr br 0; VPtr bo 0] m)
  = let '(s, r', o') := next_tail_model (map chop lines) dir r o in
    OReturn (st_val s) (mkst [VPtr lb 0; VInt dir; VPtr br 0; VPtr bo 0] (set_pos m br bo r' o')).
Proof.
  intros R Hsm Hf Hr Ho Hne Nr No Ir Io Iod Ird. pose proof (cell_lt _ _ _ Hr) as Lr. pose proof (cell_lt _ _ _ Ho) as Lo.
  unfold next_tail; cbn [fn_body cf_lbuf_next]. xstep.
  rewrite (tr_lbuf_lnnext m lb bln lbs lines br bo r o dir d fuel R Hsm Hf Hr Ho Ir Io Iod).
  unfold next_tail_model. destruct (lbuf_lnnext (map chop lines) dir r o) as [o'|]; xstep.
  { unfold set_pos. rewrite (upd_self m br _ Hr). reflexivity. }
  rewrite (load_cell m br r Hr). xstep. rewrite wrap_I32_id by exact Ir. rewrite chk_I32 by exact Ird. xstep.
  rewrite (tr_lbuf_get m lb bln lbs lines (r + dir) (S (S d)) fuel R Hsm). xstep.
  rewrite getl_rowidx. unfold line_ptr. destruct (rowidx lines (r + dir)) as [i|] eqn:Ei; xstep; cbn [option_map].
  2:{ rewrite chk_I32 by lia. rewrite (set_pos_self m br bo r o Hr Ho). reflexivity. }
  rewrite (load_cell m br r Hr). xstep. rewrite wrap_I32_id by exact Ir. rewrite chk_I32 by exact Ird. xstep.
  rewrite wrap_I32_id by exact Ird. rewrite (store_cell m br r _ Hr). xstep.
  set (m2 := upd m br [VInt (r + dir)]).
  assert (R2 : lbuf_at m2 lb bln lbs lines) by (apply lbuf_at_upd; assumption).
  assert (Hr2 : cell_at m2 br (r + dir)) by (apply cell_at_upd_same; exact Lr).
  assert (Ho2 : cell_at m2 bo o) by (apply cell_at_upd_other; [exact Lr|congruence|exact Ho]).
  destruct (Z.ltb_spec 0 dir); xstep.
  - rewrite (store_cell m2 bo o _ Ho2). xstep. reflexivity.
  - rewrite (load_cell m2 br _ Hr2). xstep. rewrite wrap_I32_id by exact Ird.
    rewrite (tr_lbuf_eol m2 lb bln lbs lines (r + dir) d fuel R2 Hsm Hf). xstep.
    assert (i32 (lbuf_eol (map chop lines) (r + dir))) as Ie.
    { unfold lbuf_eol. rewrite getl_rowidx, Ei. cbn [option_map].
      pose proof (slen_small lines i Hsm (la_nonul _ _ _ _ _ R)). unfold i32. destruct (slen (chop (nthl lines i)) =? 0); lia. }
    rewrite wrap_I32_id by exact Ie. rewrite (store_cell m2 bo o _ Ho2). xstep. reflexivity.
Qed.

Lemma set_pos_upd_r m br bo x r o : (br < length m)%nat -> set_pos (upd m br [VInt x]) br bo r o = set_pos m br bo r o.
Proof. intro H. unfold set_pos. rewrite upd_upd by exact H. reflexivity. Qed.

(* lbuf_next: status 0 / -1, the new position in *row, *off, nothing else changed *)
Theorem tr_lbuf_next m lb bln lbs lines br bo r o dir d fuel : lbuf_at m lb bln lbs lines -> lines_small lines ->
  (maxlen lines < fuel)%nat -> cell_at m br r -> cell_at m bo o -> br <> bo ->
  ~ In br (lb :: bln :: lbs) -> ~ In bo (lb :: bln :: lbs) ->
  i32 r -> i32 o -> i32 dir -> i32 (o + dir) -> i32 (r + dir) ->
  callf cprog fuel (S (S (S (S d)))) F_lbuf_next [VPtr lb 0; VInt dir; VPtr br 0; VPtr bo 0] m
  = let '(s, r', o') := lbuf_next (map chop lines) dir r o in Ok (st_val s, set_pos m br bo r' o').
Proof.
  intros R Hsm Hf Hr Ho Hne Nr No Ir Io Id Iod Ird. pose proof (cell_lt _ _ _ Hr) as Lr. pose proof (cell_lt _ _ _ Ho) as Lo.
  enter F_lbuf_next cf_lbuf_next. rewrite exec_seq. (let t := eval cbv [next_tail fn_body cf_lbuf_next] in next_tail in change t with next_tail).
  set (b := map chop lines).
  change (lbuf_next b dir r o) with
    (next_tail_model b dir (if (dir <? 0) && (r >=? blen b) then Z.max 0 (blen b - 1) else r) o).
  assert (Hlen : 0 <= blen b <= 2147483647) by (unfold blen, b; rewrite map_length; destruct Hsm; lia).
  remember next_tail as nt eqn:Ent.
  xstep. destruct (Z.ltb_spec dir 0) as [Ld|Ld]; xstep.
  - rewrite (load_cell m br r Hr). xstep. rewrite wrap_I32_id by exact Ir.
    rewrite (tr_lbuf_len m lb bln lbs lines (S (S d)) fuel R Hsm). xstep. fold b. rewrite Z.geb_leb.
    destruct (Z.leb_spec (blen b) r) as [Lc|Lc]; xstep.
    + rewrite (tr_lbuf_len m lb bln lbs lines (S (S d)) fuel R Hsm). xstep. fold b. rewrite chk_I32 by lia. xstep.
      destruct (Z.ltb_spec 0 (blen b - 1)) as [L1|L1]; xstep.
      * rewrite (tr_lbuf_len m lb bln lbs lines (S (S d)) fuel R Hsm). xstep. fold b. rewrite chk_I32 by lia. xstep.
        replace (Z.max 0 (blen b - 1)) with (blen b - 1) by lia. set (r1 := blen b - 1).
        rewrite wrap_I32_id by (unfold r1; lia). rewrite (store_cell m br r _ Hr). xstep.
        subst nt. rewrite (next_tail_ok (upd m br [VInt r1]) lb bln lbs lines br bo r1 o dir d fuel); try assumption;
          try (apply lbuf_at_upd; assumption); try (apply cell_at_upd_same; exact Lr);
          try (apply cell_at_upd_other; [exact Lr|congruence|exact Ho]); try (unfold i32, r1 in *; lia).
        fold b. destruct (next_tail_model b dir r1 o) as [[s r'] o']. rewrite set_pos_upd_r by exact Lr. reflexivity.
      * replace (Z.max 0 (blen b - 1)) with 0 by lia. change (wrap I32 0) with 0.
        rewrite (store_cell m br r _ Hr). xstep.
        subst nt. rewrite (next_tail_ok (upd m br [VInt 0]) lb bln lbs lines br bo 0 o dir d fuel); try assumption;
          try (apply lbuf_at_upd; assumption); try (apply cell_at_upd_same; exact Lr);
          try (apply cell_at_upd_other; [exact Lr|congruence|exact Ho]); try (unfold i32 in *; lia).
        fold b. destruct (next_tail_model b dir 0 o) as [[s r'] o']. rewrite set_pos_upd_r by exact Lr. reflexivity.
    + subst nt. rewrite (next_tail_ok m lb bln lbs lines br bo r o dir d fuel); try assumption.
      fold b. destruct (next_tail_model b dir r o) as [[s r'] o']. reflexivity.
  - subst nt. rewrite (next_tail_ok m lb bln lbs lines br bo r o dir d fuel); try assumption.
    fold b. destruct (next_tail_model b dir r o) as [[s r'] o']. reflexivity.
Qed.

(* ------------------------------------------------------------------ lbuf_chr and the character it points at *)
(* the pointer lbuf_chr returns: into the line, or the static "" *)
Definition chr_ptr (lbs : list nat) (lines : list bytes) (r o : Z) : val :=
  match rowidx lines r with
  | Some i => chr_val (nth i lbs O) (uc_chr (nthl lines i) o)
  | None => VPtr G_lit__0 0
  end.
Lemma option_map_add0 (x : option nat) : option_map (fun q => (0 + q)%nat) x = x.
Proof. destruct x; reflexivity. Qed.

Theorem tr_lbuf_chr m lb bln lbs lines r o d fuel : lbuf_at m lb bln lbs lines -> lines_small lines ->
  (maxlen lines < fuel)%nat ->
  callf cprog fuel (S (S (S (S d)))) F_lbuf_chr [VPtr lb 0; VInt r; VInt o] m = Ok (chr_ptr lbs lines r o, m).
Proof.
  intros R Hsm Hf. enter F_lbuf_chr cf_lbuf_chr. xstep.
  rewrite (tr_lbuf_get m lb bln lbs lines r (S (S d)) fuel R Hsm). xstep.
  unfold chr_ptr, line_ptr. destruct (rowidx lines r) as [i|] eqn:Ei; xstep; [|reflexivity].
  destruct (rowidx_lt _ _ _ Ei) as [Hi _].
  pose proof (la_str _ _ _ _ _ R i Hi) as Hs. pose proof (nthl_nonul lines i (la_nonul _ _ _ _ _ R)) as Hnn.
  pose proof (maxlen_ge lines i) as Hml. pose proof (nthl_small lines i Hsm) as Hsmall.
  change (VPtr (nth i lbs O) 0) with (VPtr (nth i lbs O) (Z.of_nat 0)).
  rewrite (tr_uc_chr m _ _ O o d fuel Hs Hnn) by lia. xstep. cbn [skipn]. rewrite option_map_add0. reflexivity.
Qed.

(* what the pointer points at: a C string in memory whose suffix starts with the model's character lchr *)
Lemma chr_ptr_view m lb bln lbs lines r o : lbuf_at m lb bln lbs lines -> str_at m G_lit__0 [] ->
  exists cb cs q, chr_ptr lbs lines r o = VPtr cb (Z.of_nat q) /\ str_at m cb cs /\ nonul cs /\ (q <= length cs)%nat /\
                  hd_chr (skipn q cs) = lchr (map chop lines) r o /\
                  (cs = [] \/ exists i, (i < length lines)%nat /\ cs = nthl lines i).
Proof.
  intros R Hlit. unfold chr_ptr, lchr. rewrite getl_rowidx.
  assert (Hnone : forall c : chr, c = [] ->
    exists cb cs q, VPtr G_lit__0 0 = VPtr cb (Z.of_nat q) /\ str_at m cb cs /\ nonul cs /\ (q <= length cs)%nat /\
                    hd_chr (skipn q cs) = c /\ (cs = [] \/ exists i, (i < length lines)%nat /\ cs = nthl lines i)).
  { intros c ->. exists G_lit__0, [], O. split; [reflexivity|]. split; [exact Hlit|]. split; [constructor|].
    split; [cbn; lia|]. split; [reflexivity|]. left. reflexivity. }
  destruct (rowidx lines r) as [i|] eqn:Ei; cbn [option_map]; [|apply Hnone; reflexivity].
  destruct (rowidx_lt _ _ _ Ei) as [Hi _]. pose proof (nthl_nonul lines i (la_nonul _ _ _ _ _ R)) as Hnn.
  pose proof (uc_chr_chop (nthl lines i) o Hnn) as H. destruct (uc_chr (nthl lines i) o) as [q|]; cbn [chr_val]; [|apply Hnone; exact H].
  destruct H as [H1 H2]. exists (nth i lbs O), (nthl lines i), q. split; [reflexivity|]. split; [apply (la_str _ _ _ _ _ R i Hi)|].
  split; [exact Hnn|]. split; [exact H1|]. split; [exact H2|]. right. exists i. split; [exact Hi|reflexivity].
Qed.

Lemma kind_at m lb bln lbs lines r o d fuel : lbuf_at m lb bln lbs lines -> str_at m G_lit__0 [] ->
  callf cprog fuel (S (S d)) F_uc_kind [chr_ptr lbs lines r o] m = Ok (VInt (Z.of_N (kindof (map chop lines) r o)), m).
Proof.
  intros R Hlit. destruct (chr_ptr_view m lb bln lbs lines r o R Hlit) as (cb & cs & q & -> & Hs & Hnn & Hq & Hv & _).
  rewrite (tr_uc_kind m cb cs q d fuel Hs (nonul_lt256 _ Hnn) Hq). unfold kindof. rewrite <- Hv, uc_kind_hd. reflexivity.
Qed.
Lemma isspace_at m lb bln lbs lines r o d fuel : lbuf_at m lb bln lbs lines -> str_at m G_lit__0 [] ->
  callf cprog fuel (S d) F_uc_isspace [chr_ptr lbs lines r o] m = Ok (VInt (b2z (uc_isspace (lchr (map chop lines) r o))), m).
Proof.
  intros R Hlit. destruct (chr_ptr_view m lb bln lbs lines r o R Hlit) as (cb & cs & q & -> & Hs & Hnn & Hq & Hv & _).
  rewrite (tr_uc_isspace m cb cs q d fuel Hs (nonul_lt256 _ Hnn) Hq). rewrite <- Hv, uc_isspace_hd. reflexivity.
Qed.

(* uc_code reads up to three bytes behind the lead byte, whatever they are; the model decodes the character cut by
   uc_next alone.  The two agree on "is it a line feed", and uc_code stays inside the line's block, when: *)
Definition nl_ok (s : bytes) : Prop := forall q, (q <= length s)%nat ->
  (q + uc_len_b (nthb s q) - 1 <= length s)%nat /\ (uc_code (skipn q s) =? 10)%N = is_nl (hd_chr (skipn q s)).
Definition lines_nl_ok (lines : list bytes) : Prop := Forall nl_ok lines.
Lemma nthl_nl_ok lines i : lines_nl_ok lines -> (i < length lines)%nat -> nl_ok (nthl lines i).
Proof. intros H Hi. unfold lines_nl_ok in H. rewrite Forall_forall in H. apply H. apply nth_In. exact Hi. Qed.

Lemma isnl_at m lb bln lbs lines r o d fuel : lbuf_at m lb bln lbs lines -> str_at m G_lit__0 [] -> lines_nl_ok lines ->
  exists c, callf cprog fuel (S d) F_uc_code [chr_ptr lbs lines r o] m = Ok (VInt c, m) /\
            (c =? 10) = is_nl (lchr (map chop lines) r o).
Proof.
  intros R Hlit Hok. destruct (chr_ptr_view m lb bln lbs lines r o R Hlit) as (cb & cs & q & -> & Hs & Hnn & Hq & Hv & Hc).
  assert (Hnl : nl_ok cs).
  { destruct Hc as [->|(i & Hi & ->)]; [|apply nthl_nl_ok; assumption].
    intros q' Hq'. cbn in Hq'. assert (q' = O) as -> by lia. split; [cbn; lia|reflexivity]. }
  destruct (Hnl q Hq) as [H1 H2]. exists (Z.of_N (uc_code (skipn q cs))). split.
  - apply (tr_uc_code m cb cs q d fuel Hs (nonul_lt256 _ Hnn) H1 Hq).
  - rewrite <- Hv, <- H2. destruct (N.eqb_spec (uc_code (skipn q cs)) 10) as [E|E]; [rewrite E; reflexivity|].
    apply Z.eqb_neq. lia.
Qed.

(* ------------------------------------------------------------------ the memory of a scan *)
(* the buffer, the static "" of uc_chr / lbuf_chr, and the two int cells row / off outside them *)
Record mot_mem (m : mem) (lb bln : nat) (lbs : list nat) (lines : list bytes) (br bo : nat) : Prop := mk_mot_mem {
  mm_rep : lbuf_at m lb bln lbs lines;
  mm_lit : str_at m G_lit__0 [];
  mm_ne : br <> bo;
  mm_nr : ~ In br (G_lit__0 :: lb :: bln :: lbs);
  mm_no : ~ In bo (G_lit__0 :: lb :: bln :: lbs);
  mm_lr : (br < length m)%nat;
  mm_lo : (bo < length m)%nat
}.
Lemma mot_mem_set_pos m lb bln lbs lines br bo r o : mot_mem m lb bln lbs lines br bo ->
  mot_mem (set_pos m br bo r o) lb bln lbs lines br bo /\ cell_at (set_pos m br bo r o) br r /\ cell_at (set_pos m br bo r o) bo o.
Proof.
  intros [R Hl Hne Nr No Lr Lo]. split; [|apply set_pos_cells; assumption].
  constructor; try assumption; try (rewrite set_pos_length by assumption; assumption).
  - apply lbuf_at_set_pos; try assumption; intro H; [apply Nr|apply No]; right; exact H.
  - unfold str_at. rewrite set_pos_other; try assumption; intros E; [apply Nr|apply No]; left; congruence.
Qed.

(* rows and offsets for which *off + dir, *row + dir and -dir cannot overflow (dir = 1 or -1) *)
Definition pos_ok (r o : Z) : Prop := -2147483647 <= r <= 2147483646 /\ -2147483647 <= o <= 2147483646.
Definition dir_ok (dir : Z) : Prop := dir = 1 \/ dir = -1.

Lemma getl_some lines r l : getl (map chop lines) r = Some l -> exists i, rowidx lines r = Some i /\ l = chop (nthl lines i).
Proof. rewrite getl_rowidx. destruct (rowidx lines r) as [i|]; [|discriminate]. cbn. intro E. injection E as <-. exists i. split; reflexivity. Qed.

Lemma lbuf_next_pos_ok lines dir r o s r' o' : lines_small lines -> Forall nonul lines -> dir_ok dir -> pos_ok r o ->
  lbuf_next (map chop lines) dir r o = (s, r', o') -> pos_ok r' o'.
Proof.
  intros Hsm Hn Hd [Hr Ho]. set (b := map chop lines).
  assert (Hlen : 0 <= blen b <= 2147483647) by (unfold blen, b; rewrite map_length; destruct Hsm; lia).
  assert (Hrow : forall x l, getl b x = Some l -> 0 <= x < blen b /\ 0 <= slen l <= 2147483647).
  { intros x l E. destruct (getl_some _ _ _ E) as (i & Ei & ->). destruct (rowidx_lt _ _ _ Ei) as [Hi ->].
    split; [unfold blen, b; rewrite map_length; lia|apply slen_small; assumption]. }
  unfold lbuf_next. set (r1 := if (dir <? 0) && (r >=? blen b) then Z.max 0 (blen b - 1) else r).
  assert (Hr1 : -2147483647 <= r1 <= 2147483646) by (unfold r1; destruct ((dir <? 0) && (r >=? blen b)); lia).
  unfold lbuf_lnnext. destruct (getl b r1) as [l|] eqn:El.
  - destruct (Hrow _ _ El) as [_ Hl]. destruct ((o + dir <? 0) || (o + dir >=? slen l)) eqn:Ec.
    + destruct (getl b (r1 + dir)) as [l2|] eqn:E2; intro E; injection E as <- <- <-; [|split; assumption].
      destruct (Hrow _ _ E2) as [Hx Hl2]. split; [lia|]. destruct (0 <? dir); [lia|].
      unfold lbuf_eol. rewrite E2. destruct (slen l2 =? 0); lia.
    + intro E; injection E as <- <- <-. split; [assumption|]. apply orb_false_iff in Ec. destruct Ec as [E1 E2].
      apply Z.ltb_ge in E1. rewrite Z.geb_leb in E2. apply Z.leb_gt in E2. lia.
  - destruct (getl b (r1 + dir)) as [l2|] eqn:E2; intro E; injection E as <- <- <-; [|split; assumption].
    destruct (Hrow _ _ E2) as [Hx Hl2]. split; [lia|]. destruct (0 <? dir); [lia|].
    unfold lbuf_eol. rewrite E2. destruct (slen l2 =? 0); lia.
Qed.

(* lbuf_next on the memory of a scan: status, the cells rewritten *)
Lemma next_call m lb bln lbs lines br bo r o dir d fuel : mot_mem m lb bln lbs lines br bo -> lines_small lines ->
  (maxlen lines < fuel)%nat -> cell_at m br r -> cell_at m bo o -> pos_ok r o -> dir_ok dir ->
  callf cprog fuel (S (S (S (S d)))) F_lbuf_next [VPtr lb 0; VInt dir; VPtr br 0; VPtr bo 0] m
  = let '(s, r', o') := lbuf_next (map chop lines) dir r o in Ok (st_val s, set_pos m br bo r' o').
Proof.
  intros [R Hl Hne Nr No Lr Lo] Hsm Hf Hr Ho [Pr Po] Hd.
  apply (tr_lbuf_next m lb bln lbs lines br bo r o dir d fuel);
    [exact R|exact Hsm|exact Hf|exact Hr|exact Ho|exact Hne|intro H; apply Nr; right; exact H|intro H; apply No; right; exact H
    |unfold i32; lia|unfold i32; lia| | | ]; unfold i32; destruct Hd as [-> | ->]; lia.
Qed.

(* ------------------------------------------------------------------ lbuf_wordlast *)
Definition st_val1 (s : bool) : val := VInt (if s then 1 else 0).
Definition wl_loop : stmt := match fn_body cf_lbuf_wordlast with SSeq _ (SSeq w _) => w | _ => SSkip end.
Definition wl_rest : stmt := match fn_body cf_lbuf_wordlast with SSeq _ (SSeq _ r) => r | _ => SSkip end.

(* read *row and *off, call lbuf_chr *)
Ltac rd_chr R Hsm Hf Hr Ho Pr Po d :=
  rewrite (load_cell _ _ _ Hr); xstep; rewrite wrap_I32_id by lia;
  rewrite (load_cell _ _ _ Ho); xstep; rewrite wrap_I32_id by lia;
  rewrite (tr_lbuf_chr _ _ _ _ _ _ _ d _ R Hsm Hf); xstep.

Lemma land_test k kind : (Z.land (Z.of_N k) (Z.of_N kind) =? 0) = (N.land k kind =? 0)%N.
Proof. rewrite of_N_land. destruct (N.eqb_spec (N.land k kind) 0) as [->|E]; [reflexivity|]. apply Z.eqb_neq. lia. Qed.

Lemma wl_loop_ok F d lb bln lbs lines br bo kind dir fuel2 : lines_small lines -> (maxlen lines < F)%nat -> dir_ok dir ->
  forall mf m r o fuel res, mot_mem m lb bln lbs lines br bo -> cell_at m br r -> cell_at m bo o -> pos_ok r o ->
  (mf < fuel)%nat -> (0 < fuel2)%nat ->
  wordlast_loop mf (map chop lines) kind dir r o = Some res ->
  match exec (callf cprog F (S (S (S (S d))))) fuel wl_loop
             (mkst [VPtr lb 0; VInt (Z.of_N kind); VInt dir; VPtr br 0; VPtr bo 0] m) with
  | ONormal st1 => exec (callf cprog F (S (S (S (S d))))) fuel2 wl_rest st1
  | o => o
  end = let '(s, r', o') := res in
        OReturn (st_val1 s) (mkst [VPtr lb 0; VInt (Z.of_N kind); VInt dir; VPtr br 0; VPtr bo 0] (set_pos m br bo r' o')).
Proof.
  intros Hsm HF Hd. set (b := map chop lines).
  induction mf as [|mf IH]; intros m r o fuel res MM Hr Ho Hp Hf Hf2 Hres; [discriminate|].
  destruct fuel as [|fuel]; [lia|]. destruct fuel2 as [|fuel2']; [lia|].
  pose proof MM as [R Hl Hne Nr No Lr Lo]. destruct Hp as [Pr Po].
  cbn [wordlast_loop] in Hres. unfold kmatch in Hres. fold b in Hres.
  unfold wl_loop, wl_rest; cbn [fn_body cf_lbuf_wordlast]. rewrite exec_while. xstep.
  rd_chr R Hsm HF Hr Ho Pr Po d.
  rewrite (kind_at m lb bln lbs lines r o (S (S d)) F R Hl). xstep. fold b. rewrite land_test.
  destruct (N.land (kindof b r o) kind =? 0)%N eqn:Ek; cbn [negb] in Hres |- *; xstep.
  - (* the class ended: step back *)
    rd_chr R Hsm HF Hr Ho Pr Po d.
    rewrite (kind_at m lb bln lbs lines r o (S (S d)) F R Hl). xstep. fold b. rewrite land_test, Ek. xstep.
    assert (Hnd : chk I32 (- dir) = Ok (- dir)) by (apply chk_I32; destruct Hd as [-> | ->]; lia). rewrite Hnd. xstep.
    rewrite (next_call m lb bln lbs lines br bo r o (- dir) d F MM Hsm HF Hr Ho (conj Pr Po))
      by (destruct Hd as [-> | ->]; [right|left]; reflexivity).
    fold b. destruct (lbuf_next b (- dir) r o) as [[s1 r1] o1]. injection Hres as <-. xstep. reflexivity.
  - rewrite (next_call m lb bln lbs lines br bo r o dir d F MM Hsm HF Hr Ho (conj Pr Po) Hd).
    fold b. destruct (lbuf_next b dir r o) as [[s1 r1] o1] eqn:En. xstep.
    destruct s1; cbn [st_val]; xstep.
    + injection Hres as <-. reflexivity.
    + destruct (mot_mem_set_pos m lb bln lbs lines br bo r1 o1 MM) as (MM1 & Hr1 & Ho1).
      pose proof (lbuf_next_pos_ok lines dir r o _ _ _ Hsm (la_nonul _ _ _ _ _ R) Hd (conj Pr Po) En) as Hp1.
      specialize (IH (set_pos m br bo r1 o1) r1 o1 fuel res MM1 Hr1 Ho1 Hp1 ltac:(lia) ltac:(lia) Hres).
      destruct res as [[s r'] o']. rewrite set_pos_set_pos in IH by assumption. exact IH.
Qed.

Theorem tr_lbuf_wordlast m lb bln lbs lines br bo kind dir r o mf res d fuel :
  mot_mem m lb bln lbs lines br bo -> lines_small lines -> cell_at m br r -> cell_at m bo o -> pos_ok r o -> dir_ok dir ->
  lbuf_wordlast mf (map chop lines) kind dir r o = Some res -> (mf < fuel)%nat -> (maxlen lines < fuel)%nat ->
  callf cprog fuel (S (S (S (S (S d))))) F_lbuf_wordlast [VPtr lb 0; VInt (Z.of_N kind); VInt dir; VPtr br 0; VPtr bo 0] m
  = let '(s, r', o') := res in Ok (st_val1 s, set_pos m br bo r' o').
Proof.
  intros MM Hsm Hr Ho Hp Hd Hres Hmf Hf. pose proof MM as [R Hl Hne Nr No Lr Lo]. pose proof Hp as [Pr Po].
  set (b := map chop lines) in *. unfold lbuf_wordlast, kmatch in Hres.
  enter F_lbuf_wordlast cf_lbuf_wordlast. rewrite exec_seq.
  (let t := eval cbv [wl_loop fn_body cf_lbuf_wordlast] in wl_loop in change t with wl_loop).
  (let t := eval cbv [wl_rest fn_body cf_lbuf_wordlast] in wl_rest in change t with wl_rest).
  remember wl_loop as wl eqn:Ewl. remember wl_rest as wr eqn:Ewr.
  xstep. destruct (N.eqb_spec kind 0) as [->|Hk].
  { cbn [Z.of_N Z.eqb negb b2z]. xstep. cbn [orb] in Hres. injection Hres as <-. rewrite (set_pos_self m br bo r o Hr Ho). reflexivity. }
  replace (Z.of_N kind =? 0) with false by (symmetry; apply Z.eqb_neq; lia). cbn [negb b2z]. xstep.
  rd_chr R Hsm Hf Hr Ho Pr Po d.
  rewrite (kind_at m lb bln lbs lines r o (S (S d)) fuel R Hl). xstep. fold b. rewrite land_test.
  cbn [orb] in Hres.
  destruct (N.land (kindof b r o) kind =? 0)%N eqn:Ek; cbn [negb] in Hres |- *; xstep.
  { injection Hres as <-. rewrite (set_pos_self m br bo r o Hr Ho). reflexivity. }
  subst wl wr.
  rewrite (wl_loop_ok fuel d lb bln lbs lines br bo kind dir fuel Hsm Hf Hd mf m r o fuel res MM Hr Ho Hp Hmf ltac:(lia) Hres).
  destruct res as [[s r'] o']. reflexivity.
Qed.

Lemma wordlast_loop_pos_ok lines kind dir : lines_small lines -> Forall nonul lines -> dir_ok dir ->
  forall mf r o s r' o', pos_ok r o -> wordlast_loop mf (map chop lines) kind dir r o = Some (s, r', o') -> pos_ok r' o'.
Proof.
  intros Hsm Hn Hd. induction mf as [|mf IH]; intros r o s r' o' Hp H; [discriminate|]. cbn [wordlast_loop] in H.
  destruct (kmatch (map chop lines) kind r o).
  - destruct (lbuf_next (map chop lines) dir r o) as [[s1 r1] o1] eqn:En.
    pose proof (lbuf_next_pos_ok lines dir r o _ _ _ Hsm Hn Hd Hp En) as Hp1.
    destruct s1; [injection H as <- <- <-; exact Hp1|]. apply (IH _ _ _ _ _ Hp1 H).
  - destruct (lbuf_next (map chop lines) (- dir) r o) as [[s1 r1] o1] eqn:En. injection H as <- <- <-.
    apply (lbuf_next_pos_ok lines (- dir) r o s1 r1 o1 Hsm Hn); [destruct Hd as [-> | ->]; [right|left]; reflexivity|exact Hp|exact En].
Qed.
Lemma wordlast_pos_ok lines kind dir mf r o s r' o' : lines_small lines -> Forall nonul lines -> dir_ok dir -> pos_ok r o ->
  lbuf_wordlast mf (map chop lines) kind dir r o = Some (s, r', o') -> pos_ok r' o'.
Proof.
  intros Hsm Hn Hd Hp H. unfold lbuf_wordlast in H.
  destruct ((kind =? 0)%N || negb (kmatch (map chop lines) kind r o)); [injection H as <- <- <-; exact Hp|].
  apply (wordlast_loop_pos_ok lines kind dir Hsm Hn Hd mf r o s r' o' Hp H).
Qed.

(* ------------------------------------------------------------------ lbuf_wordbeg *)
Definition wb_loop : stmt := match fn_body cf_lbuf_wordbeg with SSeq _ (SSeq _ (SSeq _ (SSeq w _))) => w | _ => SSkip end.
Definition wb_rest : stmt := match fn_body cf_lbuf_wordbeg with SSeq _ (SSeq _ (SSeq _ (SSeq _ r))) => r | _ => SSkip end.

Lemma wb_loop_ok F d lb bln lbs lines br bo bigz dir fuel2 : lines_small lines -> lines_nl_ok lines -> (maxlen lines < F)%nat -> dir_ok dir ->
  forall mf m r o nl fuel res, mot_mem m lb bln lbs lines br bo -> cell_at m br r -> cell_at m bo o -> pos_ok r o ->
  (mf < fuel)%nat -> (0 < fuel2)%nat -> 0 <= nl <= 1 ->
  wordbeg_loop mf (map chop lines) dir nl r o = Some res ->
  exists st',
  match exec (callf cprog F (S (S (S (S (S d)))))) fuel wb_loop
             (mkst [VPtr lb 0; VInt bigz; VInt dir; VPtr br 0; VPtr bo 0; VInt nl] m) with
  | ONormal st1 => exec (callf cprog F (S (S (S (S (S d)))))) fuel2 wb_rest st1
  | o => o
  end = OReturn (st_val1 (fst (fst res))) st' /\ memm st' = set_pos m br bo (snd (fst res)) (snd res).
Proof.
  intros Hsm Hok HF Hd. set (b := map chop lines).
  induction mf as [|mf IH]; intros m r o nl fuel res MM Hr Ho Hp Hf Hf2 Hnl Hres; [discriminate|].
  destruct fuel as [|fuel]; [lia|]. destruct fuel2 as [|fuel2']; [lia|].
  pose proof MM as [R Hl Hne Nr No Lr Lo]. pose proof Hp as [Pr Po].
  cbn [wordbeg_loop] in Hres. fold b in Hres.
  unfold wb_loop, wb_rest; cbn [fn_body cf_lbuf_wordbeg]. rewrite exec_while. xstep.
  rd_chr R Hsm HF Hr Ho Pr Po (S d).
  rewrite (isspace_at m lb bln lbs lines r o (S (S (S (S d)))) F R Hl). xstep. fold b.
  destruct (uc_isspace (lchr b r o)); xstep.
  2:{ injection Hres as <-. cbn [fst snd st_val1]. rewrite (set_pos_self m br bo r o Hr Ho). eexists; split; reflexivity. }
  rd_chr R Hsm HF Hr Ho Pr Po (S d).
  destruct (isnl_at m lb bln lbs lines r o (S (S (S (S d)))) F R Hl Hok) as (c & Hc & Hcn). rewrite Hc. xstep. fold b in Hcn. rewrite Hcn.
  change (if is_nl (lchr b r o) then 1 else 0) with (b2z (is_nl (lchr b r o))) in Hres.
  set (nl2 := nl + b2z (is_nl (lchr b r o))) in *.
  assert (Hnl2 : 0 <= nl2 <= 2) by (unfold nl2; destruct (is_nl (lchr b r o)); cbn [b2z]; lia).
  rewrite chk_I32 by lia. xstep.
  destruct (Z.eqb_spec nl2 2) as [E2|E2]; xstep.
  { injection Hres as <-. cbn [fst snd st_val1]. rewrite (set_pos_self m br bo r o Hr Ho). eexists; split; reflexivity. }
  rewrite (next_call m lb bln lbs lines br bo r o dir (S d) F MM Hsm HF Hr Ho Hp Hd).
  fold b. destruct (lbuf_next b dir r o) as [[s1 r1] o1] eqn:En. xstep.
  destruct s1; cbn [st_val]; xstep.
  - injection Hres as <-. cbn [fst snd st_val1]. eexists; split; reflexivity.
  - destruct (mot_mem_set_pos m lb bln lbs lines br bo r1 o1 MM) as (MM1 & Hr1 & Ho1).
    pose proof (lbuf_next_pos_ok lines dir r o _ _ _ Hsm (la_nonul _ _ _ _ _ R) Hd Hp En) as Hp1.
    destruct (IH (set_pos m br bo r1 o1) r1 o1 nl2 fuel res MM1 Hr1 Ho1 Hp1 ltac:(lia) ltac:(lia) ltac:(lia) Hres) as (st' & E1 & E2').
    exists st'. split; [exact E1|]. rewrite E2'. apply set_pos_set_pos; assumption.
Qed.

Definition wb_after : stmt := match fn_body cf_lbuf_wordbeg with SSeq _ r => r | _ => SSkip end.
Theorem tr_lbuf_wordbeg m lb bln lbs lines br bo bigz dir r o mf res d fuel :
  mot_mem m lb bln lbs lines br bo -> lines_small lines -> lines_nl_ok lines ->
  cell_at m br r -> cell_at m bo o -> pos_ok r o -> dir_ok dir ->
  lbuf_wordbeg mf (map chop lines) (negb (bigz =? 0)) dir r o = Some res -> (mf < fuel)%nat -> (maxlen lines < fuel)%nat ->
  callf cprog fuel (S (S (S (S (S (S d)))))) F_lbuf_wordbeg [VPtr lb 0; VInt bigz; VInt dir; VPtr br 0; VPtr bo 0] m
  = let '(s, r', o') := res in Ok (st_val1 s, set_pos m br bo r' o').
Proof.
  intros MM Hsm Hok Hr Ho Hp Hd Hres Hmf Hf. pose proof MM as [R Hl Hne Nr No Lr Lo]. pose proof Hp as [Pr Po].
  set (b := map chop lines) in *. unfold lbuf_wordbeg in Hres.
  enter F_lbuf_wordbeg cf_lbuf_wordbeg. rewrite exec_seq.
  (let t := eval cbv [wb_after fn_body cf_lbuf_wordbeg] in wb_after in change t with wb_after).
  remember wb_after as ra eqn:Era.
  xstep.
  (* the kind argument of lbuf_wordlast *)
  set (K := if negb (bigz =? 0) then 3%N else kindof b r o) in *.
  destruct (lbuf_wordlast mf b K dir r o) as [[[s0 r0] o0]|] eqn:Ewl0; [|discriminate].
  assert (Hcall : callf cprog fuel (S (S (S (S (S d))))) F_lbuf_wordlast [VPtr lb 0; VInt (Z.of_N K); VInt dir; VPtr br 0; VPtr bo 0] m
                  = Ok (st_val1 s0, set_pos m br bo r0 o0)).
  { apply (tr_lbuf_wordlast m lb bln lbs lines br bo K dir r o mf (s0, r0, o0) d fuel MM Hsm Hr Ho Hp Hd Ewl0 Hmf Hf). }
  destruct (mot_mem_set_pos m lb bln lbs lines br bo r0 o0 MM) as (MM1 & Hr1 & Ho1).
  pose proof (wordlast_pos_ok lines K dir mf r o s0 r0 o0 Hsm (la_nonul _ _ _ _ _ R) Hd Hp Ewl0) as Hp1.
  pose proof MM1 as [R1 Hl1 _ _ _ Lr1 Lo1]. pose proof Hp1 as [Pr1 Po1].
  set (m1 := set_pos m br bo r0 o0) in *.
  assert (Hafter :
    match exec (callf cprog fuel (S (S (S (S (S d)))))) fuel wb_after
      (mkst [VPtr lb 0; VInt bigz; VInt dir; VPtr br 0; VPtr bo 0; VUndef] m1) with
    | ONormal st => Ok (VUndef, memm st) | OReturn v st => Ok (v, memm st) | OErr x => Err x | _ => Err EShape end
    = let '(s, r', o') := res in Ok (st_val1 s, set_pos m br bo r' o')).
  { clear Era. unfold wb_after; cbn [fn_body cf_lbuf_wordbeg].
    (let t := eval cbv [wb_loop fn_body cf_lbuf_wordbeg] in wb_loop in change t with wb_loop).
    (let t := eval cbv [wb_rest fn_body cf_lbuf_wordbeg] in wb_rest in change t with wb_rest).
    remember wb_loop as wl eqn:Ewl. remember wb_rest as wr eqn:Ewr.
    xstep. rd_chr R1 Hsm Hf Hr1 Ho1 Pr1 Po1 (S d).
    destruct (isnl_at m1 lb bln lbs lines r0 o0 (S (S (S (S d)))) fuel R1 Hl1 Hok) as (c & Hc & Hcn). rewrite Hc. xstep. fold b in Hcn. rewrite Hcn.
    rewrite (next_call m1 lb bln lbs lines br bo r0 o0 dir (S d) fuel MM1 Hsm Hf Hr1 Ho1 Hp1 Hd).
    fold b. destruct (lbuf_next b dir r0 o0) as [[s1 r1] o1] eqn:En. xstep.
    unfold m1 at 1 2. rewrite set_pos_set_pos by assumption.
    destruct s1; unfold st_val; [change (truth (VInt (-1))) with (@Ok bool true)|change (truth (VInt 0)) with (@Ok bool false)]; xstep.
    - injection Hres as <-. reflexivity.
    - destruct (mot_mem_set_pos m lb bln lbs lines br bo r1 o1 MM) as (MM2 & Hr2 & Ho2).
      pose proof (lbuf_next_pos_ok lines dir r0 o0 _ _ _ Hsm (la_nonul _ _ _ _ _ R) Hd Hp1 En) as Hp2.
      subst wl wr.
      destruct (wb_loop_ok fuel d lb bln lbs lines br bo bigz dir fuel Hsm Hok Hf Hd mf (set_pos m br bo r1 o1) r1 o1
                  (b2z (is_nl (lchr b r0 o0))) fuel res MM2 Hr2 Ho2 Hp2 Hmf ltac:(lia)
                  ltac:(destruct (is_nl (lchr b r0 o0)); cbn; lia) Hres) as (st' & E1 & E2).
      rewrite E1, E2. rewrite set_pos_set_pos by assumption. destruct res as [[s r'] o']. reflexivity. }
  destruct (Z.eqb_spec bigz 0) as [Eb|Eb]; cbn [negb] in K; xstep.
  - rd_chr R Hsm Hf Hr Ho Pr Po (S d).
    rewrite (kind_at m lb bln lbs lines r o (S (S (S d))) fuel R Hl). xstep. fold b. fold K.
    rewrite Hcall. xstep. subst ra. exact Hafter.
  - change 3 with (Z.of_N K). rewrite Hcall. xstep. subst ra. exact Hafter.
Qed.

(* ------------------------------------------------------------------ lbuf_wordend *)
Definition we_loop : stmt := match fn_body cf_lbuf_wordend with SSeq _ (SSeq _ (SSeq _ (SSeq w _))) => w | _ => SSkip end.
Definition we_tail : stmt := match fn_body cf_lbuf_wordend with SSeq _ (SSeq _ (SSeq _ (SSeq _ r))) => r | _ => SSkip end.

Lemma we_loop_ok F d lb bln lbs lines br bo bigz dir : lines_small lines -> lines_nl_ok lines -> (maxlen lines < F)%nat -> dir_ok dir ->
  forall mf m r o nl fuel early s r' o', mot_mem m lb bln lbs lines br bo -> cell_at m br r -> cell_at m bo o -> pos_ok r o ->
  (mf < fuel)%nat -> 0 <= nl <= 1 ->
  wordend_loop mf (map chop lines) dir nl r o = Some (early, (s, r', o')) ->
  pos_ok r' o' /\
  exists nl',
  exec (callf cprog F (S (S (S (S (S d)))))) fuel we_loop
       (mkst [VPtr lb 0; VInt bigz; VInt dir; VPtr br 0; VPtr bo 0; VInt nl] m)
  = (if early then OReturn (st_val1 s) else ONormal)
      (mkst [VPtr lb 0; VInt bigz; VInt dir; VPtr br 0; VPtr bo 0; VInt nl'] (set_pos m br bo r' o')).
Proof.
  intros Hsm Hok HF Hd. set (b := map chop lines).
  induction mf as [|mf IH]; intros m r o nl fuel early s r' o' MM Hr Ho Hp Hf Hnl Hres; [discriminate|].
  destruct fuel as [|fuel]; [lia|].
  pose proof MM as [R Hl Hne Nr No Lr Lo]. pose proof Hp as [Pr Po].
  cbn [wordend_loop] in Hres. fold b in Hres.
  unfold we_loop; cbn [fn_body cf_lbuf_wordend]. rewrite exec_while. xstep.
  rd_chr R Hsm HF Hr Ho Pr Po (S d).
  rewrite (isspace_at m lb bln lbs lines r o (S (S (S (S d)))) F R Hl). xstep. fold b.
  destruct (uc_isspace (lchr b r o)); xstep.
  2:{ injection Hres as <- <- <- <-. split; [exact Hp|]. rewrite (set_pos_self m br bo r o Hr Ho). eexists; reflexivity. }
  rewrite (next_call m lb bln lbs lines br bo r o dir (S d) F MM Hsm HF Hr Ho Hp Hd).
  fold b. destruct (lbuf_next b dir r o) as [[s1 r1] o1] eqn:En. xstep.
  pose proof (lbuf_next_pos_ok lines dir r o _ _ _ Hsm (la_nonul _ _ _ _ _ R) Hd Hp En) as Hp1.
  destruct s1; unfold st_val; [change (truth (VInt (-1))) with (@Ok bool true)|change (truth (VInt 0)) with (@Ok bool false)]; xstep.
  { injection Hres as <- <- <- <-. split; [exact Hp1|]. eexists; reflexivity. }
  destruct (mot_mem_set_pos m lb bln lbs lines br bo r1 o1 MM) as (MM1 & Hr1 & Ho1).
  pose proof MM1 as [R1 Hl1 _ _ _ Lr1 Lo1]. pose proof Hp1 as [Pr1 Po1].
  set (m1 := set_pos m br bo r1 o1) in *.
  rd_chr R1 Hsm HF Hr1 Ho1 Pr1 Po1 (S d).
  destruct (isnl_at m1 lb bln lbs lines r1 o1 (S (S (S (S d)))) F R1 Hl1 Hok) as (c & Hc & Hcn). rewrite Hc. xstep. fold b in Hcn. rewrite Hcn.
  change (if is_nl (lchr b r1 o1) then 1 else 0) with (b2z (is_nl (lchr b r1 o1))) in Hres.
  set (nl2 := nl + b2z (is_nl (lchr b r1 o1))) in *.
  assert (Hnl2 : 0 <= nl2 <= 2) by (unfold nl2; destruct (is_nl (lchr b r1 o1)); cbn [b2z]; lia).
  rewrite chk_I32 by lia. xstep.
  destruct (Z.eqb_spec nl2 2) as [E2|E2]; xstep.
  - destruct (Z.ltb_spec dir 0) as [Ld|Ld]; xstep.
    + assert (Hnd : chk I32 (- dir) = Ok (- dir)) by (apply chk_I32; destruct Hd as [-> | ->]; lia). rewrite Hnd. xstep.
      rewrite (next_call m1 lb bln lbs lines br bo r1 o1 (- dir) (S d) F MM1 Hsm HF Hr1 Ho1 Hp1)
        by (destruct Hd as [-> | ->]; [right|left]; reflexivity).
      fold b. destruct (lbuf_next b (- dir) r1 o1) as [[s2 r2] o2] eqn:En2. xstep. injection Hres as <- <- <- <-.
      split.
      * apply (lbuf_next_pos_ok lines (- dir) r1 o1 s2 r2 o2 Hsm (la_nonul _ _ _ _ _ R)); [destruct Hd as [-> | ->]; [right|left]; reflexivity|exact Hp1|exact En2].
      * unfold m1. rewrite set_pos_set_pos by assumption. eexists; reflexivity.
    + injection Hres as <- <- <- <-. split; [exact Hp1|]. eexists; reflexivity.
  - destruct (IH m1 r1 o1 nl2 fuel early s r' o' MM1 Hr1 Ho1 Hp1 ltac:(lia) ltac:(lia) Hres) as (Hp' & nl' & E).
    split; [exact Hp'|]. exists nl'. unfold we_loop in E; cbn [fn_body cf_lbuf_wordend] in E. rewrite E.
    unfold m1. rewrite set_pos_set_pos by assumption. reflexivity.
Qed.

Definition we_after : stmt := match fn_body cf_lbuf_wordend with SSeq _ (SSeq _ r) => r | _ => SSkip end.
(* lbuf_wordend from the statement "nl += dir > 0 && ..." on *)
Definition wordend_from (mf : nat) (b : buf) (big : bool) (dir nl0 r o : Z) : option st3 :=
  let nl := nl0 + (if (0 <? dir) && is_nl (lchr b r o) then 1 else 0) in
  match wordend_loop mf b dir nl r o with
  | None => None
  | Some (true, res) => Some res
  | Some (false, (_, r, o)) =>
      match lbuf_wordlast mf b (if big then 3%N else kindof b r o) dir r o with
      | None => None
      | Some (true, r', o') => Some (true, r', o')
      | Some (false, r', o') => Some (false, r', o')
      end
  end.

Lemma we_after_ok m lb bln lbs lines br bo bigz dir nl0 r o mf res d fuel :
  mot_mem m lb bln lbs lines br bo -> lines_small lines -> lines_nl_ok lines ->
  cell_at m br r -> cell_at m bo o -> pos_ok r o -> dir_ok dir -> 0 <= nl0 <= 1 -> (nl0 = 1 -> dir < 0) ->
  wordend_from mf (map chop lines) (negb (bigz =? 0)) dir nl0 r o = Some res -> (mf < fuel)%nat -> (maxlen lines < fuel)%nat ->
  match exec (callf cprog fuel (S (S (S (S (S d)))))) fuel we_after
             (mkst [VPtr lb 0; VInt bigz; VInt dir; VPtr br 0; VPtr bo 0; VInt nl0] m) with
  | ONormal st => Ok (VUndef, memm st) | OReturn v st => Ok (v, memm st) | OErr x => Err x | _ => Err EShape end
  = let '(s, r', o') := res in Ok (st_val1 s, set_pos m br bo r' o').
Proof.
  intros MM Hsm Hok Hr Ho Hp Hd Hnl0 Hnl0d Hres Hmf Hf. pose proof MM as [R Hl Hne Nr No Lr Lo]. pose proof Hp as [Pr Po].
  set (b := map chop lines) in *. unfold wordend_from in Hres.
  unfold we_after; cbn [fn_body cf_lbuf_wordend].
  (let t := eval cbv [we_loop fn_body cf_lbuf_wordend] in we_loop in change t with we_loop).
  (let t := eval cbv [we_tail fn_body cf_lbuf_wordend] in we_tail in change t with we_tail).
  remember we_loop as wl eqn:Ewl. remember we_tail as wt eqn:Ewt.
  set (nl := nl0 + (if (0 <? dir) && is_nl (lchr b r o) then 1 else 0)) in *.
  assert (Hnl : 0 <= nl <= 1).
  { unfold nl. destruct (Z.ltb_spec 0 dir); cbn [andb]; [|lia]. destruct (is_nl (lchr b r o)); lia. }
  (* the statement nl += dir > 0 && uc_code(...) == '\n' *)
  assert (Hs2 : exec (callf cprog fuel (S (S (S (S (S d)))))) fuel
            (SExpr (ESetLocal 5 (EBin OAdd I32 (ELocal 5) (EAndAlso (EBin OGt I32 (ELocal 2) (EConst 0))
               (EBin OEq I32 (ECall F_uc_code [ECall F_lbuf_chr [ELocal 0; ELoad (Some I32) (ELocal 3); ELoad (Some I32) (ELocal 4)]]) (EConst 10))))))
            (mkst [VPtr lb 0; VInt bigz; VInt dir; VPtr br 0; VPtr bo 0; VInt nl0] m)
          = ONormal (mkst [VPtr lb 0; VInt bigz; VInt dir; VPtr br 0; VPtr bo 0; VInt nl] m)).
  { xstep. unfold nl. destruct (Z.ltb_spec 0 dir) as [Ld|Ld]; xstep; cbn [andb].
    - rd_chr R Hsm Hf Hr Ho Pr Po (S d).
      destruct (isnl_at m lb bln lbs lines r o (S (S (S (S d)))) fuel R Hl Hok) as (c & Hc & Hcn). rewrite Hc. xstep. fold b in Hcn. rewrite Hcn.
      destruct (is_nl (lchr b r o)); cbn [b2z]; xstep; rewrite chk_I32 by lia; xstep; reflexivity.
    - rewrite chk_I32 by lia. xstep. reflexivity. }
  rewrite exec_seq, Hs2. rewrite exec_seq. subst wl.
  destruct (wordend_loop mf b dir nl r o) as [[early [[s0 r0] o0]]|] eqn:Eloop; [|discriminate].
  destruct (we_loop_ok fuel d lb bln lbs lines br bo bigz dir Hsm Hok Hf Hd mf m r o nl fuel early s0 r0 o0 MM Hr Ho Hp Hmf Hnl Eloop)
    as (Hp0 & nl' & Eex).
  rewrite Eex. destruct early.
  { injection Hres as <-. reflexivity. }
  (* the loop ended on a non-blank: lbuf_wordlast from there *)
  subst wt. unfold we_tail; cbn [fn_body cf_lbuf_wordend].
  destruct (mot_mem_set_pos m lb bln lbs lines br bo r0 o0 MM) as (MM1 & Hr1 & Ho1).
  pose proof MM1 as [R1 Hl1 _ _ _ Lr1 Lo1]. pose proof Hp0 as [Pr1 Po1].
  set (m1 := set_pos m br bo r0 o0) in *.
  set (K := if negb (bigz =? 0) then 3%N else kindof b r0 o0) in *.
  destruct (lbuf_wordlast mf b K dir r0 o0) as [[[s1 r1] o1]|] eqn:Ewl0; [|discriminate].
  assert (Hcall : callf cprog fuel (S (S (S (S (S d))))) F_lbuf_wordlast [VPtr lb 0; VInt (Z.of_N K); VInt dir; VPtr br 0; VPtr bo 0] m1
                  = Ok (st_val1 s1, set_pos m1 br bo r1 o1)).
  { apply (tr_lbuf_wordlast m1 lb bln lbs lines br bo K dir r0 o0 mf (s1, r1, o1) d fuel MM1 Hsm Hr1 Ho1 Hp0 Hd Ewl0 Hmf Hf). }
  assert (Hfin : res = (s1, r1, o1)) by (destruct s1; injection Hres as <-; reflexivity).
  subst res. unfold m1 in Hcall at 2. rewrite set_pos_set_pos in Hcall by assumption.
  xstep. destruct (Z.eqb_spec bigz 0) as [Eb|Eb]; cbn [negb] in K; xstep.
  - rd_chr R1 Hsm Hf Hr1 Ho1 Pr1 Po1 (S d).
    rewrite (kind_at m1 lb bln lbs lines r0 o0 (S (S (S d))) fuel R1 Hl1). xstep. fold b. fold K.
    rewrite Hcall. xstep. destruct s1; unfold st_val1; xstep; reflexivity.
  - change 3 with (Z.of_N K). rewrite Hcall. xstep. destruct s1; unfold st_val1; xstep; reflexivity.
Qed.

Theorem tr_lbuf_wordend m lb bln lbs lines br bo bigz dir r o mf res d fuel :
  mot_mem m lb bln lbs lines br bo -> lines_small lines -> lines_nl_ok lines ->
  cell_at m br r -> cell_at m bo o -> pos_ok r o -> dir_ok dir ->
  lbuf_wordend mf (map chop lines) (negb (bigz =? 0)) dir r o = Some res -> (mf < fuel)%nat -> (maxlen lines < fuel)%nat ->
  callf cprog fuel (S (S (S (S (S (S d)))))) F_lbuf_wordend [VPtr lb 0; VInt bigz; VInt dir; VPtr br 0; VPtr bo 0] m
  = let '(s, r', o') := res in Ok (st_val1 s, set_pos m br bo r' o').
Proof.
  intros MM Hsm Hok Hr Ho Hp Hd Hres Hmf Hf. pose proof MM as [R Hl Hne Nr No Lr Lo]. pose proof Hp as [Pr Po].
  set (b := map chop lines) in *.
  change (lbuf_wordend mf b (negb (bigz =? 0)) dir r o) with
    (match (if negb (uc_isspace (lchr b r o)) then
              match lbuf_next b dir r o with
              | (true, r', o') => None
              | (false, r', o') => Some ((if (dir <? 0) && is_nl (lchr b r' o') then 1 else 0), r', o')
              end
            else Some (0, r, o)) with
     | None => match lbuf_next b dir r o with (_, r', o') => Some (true, r', o') end
     | Some (nl, r, o) => wordend_from mf b (negb (bigz =? 0)) dir nl r o
     end) in Hres.
  enter F_lbuf_wordend cf_lbuf_wordend. rewrite exec_seq.
  (let t := eval cbv [we_after fn_body cf_lbuf_wordend] in we_after in change t with we_after).
  remember we_after as wa eqn:Ewa.
  xstep. rd_chr R Hsm Hf Hr Ho Pr Po (S d).
  rewrite (isspace_at m lb bln lbs lines r o (S (S (S (S d)))) fuel R Hl). xstep. fold b.
  destruct (uc_isspace (lchr b r o)); cbn [negb] in Hres |- *; xstep.
  { subst wa. apply (we_after_ok m lb bln lbs lines br bo bigz dir 0 r o mf res d fuel MM Hsm Hok Hr Ho Hp Hd); try assumption; lia. }
  rewrite (next_call m lb bln lbs lines br bo r o dir (S d) fuel MM Hsm Hf Hr Ho Hp Hd).
  fold b. destruct (lbuf_next b dir r o) as [[s1 r1] o1] eqn:En. xstep.
  pose proof (lbuf_next_pos_ok lines dir r o _ _ _ Hsm (la_nonul _ _ _ _ _ R) Hd Hp En) as Hp1.
  destruct s1; unfold st_val; [change (truth (VInt (-1))) with (@Ok bool true)|change (truth (VInt 0)) with (@Ok bool false)]; xstep.
  { injection Hres as <-. reflexivity. }
  destruct (mot_mem_set_pos m lb bln lbs lines br bo r1 o1 MM) as (MM1 & Hr1 & Ho1).
  pose proof MM1 as [R1 Hl1 _ _ _ Lr1 Lo1]. pose proof Hp1 as [Pr1 Po1].
  set (m1 := set_pos m br bo r1 o1) in *.
  set (nl0 := if (dir <? 0) && is_nl (lchr b r1 o1) then 1 else 0) in *.
  assert (Hnl0 : 0 <= nl0 <= 1 /\ (nl0 = 1 -> dir < 0)).
  { unfold nl0. destruct (Z.ltb_spec dir 0); cbn [andb]; [|lia]. destruct (is_nl (lchr b r1 o1)); lia. }
  assert (Hfinal :
    match exec (callf cprog fuel (S (S (S (S (S d)))))) fuel wa
               (mkst [VPtr lb 0; VInt bigz; VInt dir; VPtr br 0; VPtr bo 0; VInt nl0] m1) with
    | ONormal st => Ok (VUndef, memm st) | OReturn v st => Ok (v, memm st) | OErr x => Err x | _ => Err EShape end
    = let '(s, r', o') := res in Ok (st_val1 s, set_pos m br bo r' o')).
  { subst wa. rewrite (we_after_ok m1 lb bln lbs lines br bo bigz dir nl0 r1 o1 mf res d fuel MM1 Hsm Hok Hr1 Ho1 Hp1 Hd); try tauto.
    destruct res as [[s r'] o']. unfold m1. rewrite set_pos_set_pos by assumption. reflexivity. }
  destruct (Z.ltb_spec dir 0) as [Ld|Ld]; xstep.
  - rd_chr R1 Hsm Hf Hr1 Ho1 Pr1 Po1 (S d).
    destruct (isnl_at m1 lb bln lbs lines r1 o1 (S (S (S (S d)))) fuel R1 Hl1 Hok) as (c & Hc & Hcn). rewrite Hc. xstep. fold b in Hcn. rewrite Hcn.
    unfold nl0 in Hfinal. cbn [andb] in Hfinal.
    destruct (is_nl (lchr b r1 o1)); cbn [b2z]; xstep; exact Hfinal.
  - unfold nl0 in Hfinal. cbn [andb] in Hfinal. exact Hfinal.
Qed.

(* ------------------------------------------------------------------ when nl_ok holds *)
(* a line without UTF-8 lead bytes (all bytes below 0xC0, e.g. ASCII): uc_code reads one byte *)
Definition no_lead (s : bytes) : Prop := Forall (fun c => (c < 192)%N) s.
Lemma nolead_bits : forall c, (c < 256)%N -> (c <? 192)%N = negb (bit c 128 && bit c 64).
Proof. byte_fact. Qed.
Lemma nolead_len : forall c, (c < 256)%N -> ((c <? 192)%N && (2 <=? uc_len_b c)%nat) = false.
Proof. byte_fact. Qed.
Lemma nthb_nolead s q : no_lead s -> (nthb s q < 192)%N.
Proof.
  intro H. unfold nthb. destruct (Nat.lt_ge_cases q (length s)) as [L|L].
  - unfold no_lead in H. rewrite Forall_forall in H. apply H. apply nth_In. exact L.
  - rewrite nth_overflow by exact L. reflexivity.
Qed.
Lemma uc_code_single t : (nthb t 0 < 192)%N -> uc_code t = nthb t 0.
Proof.
  intro H. unfold uc_code. pose proof (nolead_bits (nthb t 0) ltac:(lia)) as E.
  destruct (N.ltb_spec (nthb t 0) 192); [|lia]. rewrite <- E. reflexivity.
Qed.
Lemma nthb0_hd_chr t : nthb (hd_chr t) 0 = nthb t 0.
Proof. destruct t as [|x t]; [reflexivity|]. unfold hd_chr. destruct (Nat.max 1 (uc_next (x :: t))) eqn:E; [lia|reflexivity]. Qed.
Lemma nl_ok_nolead s : no_lead s -> nl_ok s.
Proof.
  intros H q Hq. pose proof (nthb_nolead s q H) as Hc. split.
  - pose proof (nolead_len (nthb s q) ltac:(lia)) as E. destruct (N.ltb_spec (nthb s q) 192); [|lia]. cbn [andb] in E.
    apply Nat.leb_gt in E. lia.
  - unfold is_nl, code. rewrite !uc_code_single; [rewrite nthb0_hd_chr; reflexivity| |]; rewrite ?nthb0_hd_chr, nthb_skipn, Nat.add_0_r; exact Hc.
Qed.

(* ... and for every line that is valid UTF-8 (the encoding of a list of scalar values) *)
From NV Require Import UcSpec UcProps UcSegProps.
Definition nl_ok_at (s : bytes) (q : nat) : Prop :=
  (q + uc_len_b (nthb s q) - 1 <= length s)%nat /\ (uc_code (skipn q s) =? 10)%N = is_nl (hd_chr (skipn q s)).
Lemma nl_ok_at_single s q : (q <= length s)%nat -> (nthb s q < 192)%N -> nl_ok_at s q.
Proof.
  intros Hq Hc. split.
  - pose proof (nolead_len (nthb s q) ltac:(lia)) as E. destruct (N.ltb_spec (nthb s q) 192); [|lia]. cbn [andb] in E.
    apply Nat.leb_gt in E. lia.
  - unfold is_nl, code. rewrite !uc_code_single; [rewrite nthb0_hd_chr; reflexivity| |]; rewrite ?nthb0_hd_chr, nthb_skipn, Nat.add_0_r; exact Hc.
Qed.
Lemma cont_lt192 : forall c, (c < 256)%N -> (negb (is_cont c) || (c <? 192)%N) = true.
Proof. byte_fact. Qed.
Lemma nthb_app_r (s r : bytes) i : (length s <= i)%nat -> nthb (s ++ r) i = nthb r (i - length s).
Proof. intro H. unfold nthb. apply app_nth2. lia. Qed.
Lemma hd_chr_ne t : t <> [] -> hd_chr t = firstn (Nat.max 1 (uc_next t)) t.
Proof. destruct t; [congruence|reflexivity]. Qed.
Lemma nl_ok_chars cs : Forall scalar cs -> forall q, (q <= length (chars cs))%nat -> nl_ok_at (chars cs) q.
Proof.
  induction 1 as [|c cs Hc Hcs IH]; intros q Hq.
  - apply nl_ok_at_single; [exact Hq|]. cbn in Hq. destruct q; [reflexivity|lia].
  - rewrite chars_cons in *. rewrite app_length in Hq.
    destruct (encode_decomp c Hc) as (l & t & E & Hl & Ht & Hl0 & _ & _ & Ht256).
    destruct (Nat.lt_ge_cases q (length (encode c))) as [L|L].
    + destruct q as [|q].
      * (* a character start *)
        destruct (uc_len_code_encode c (chars cs) Hc) as [E1 E2]. destruct (uc_len_code_encode c [] Hc) as [_ E3]. rewrite app_nil_r in E3.
        pose proof (uc_next_encode c (chars cs) Hc (chars_hd_noncont cs Hcs)) as En. pose proof (encode_nonempty c Hc) as Hne.
        split.
        -- unfold uc_len in E1. replace (nthb (encode c ++ chars cs) 0) with (hd0 (encode c ++ chars cs)) by (destruct (encode c ++ chars cs); reflexivity).
           rewrite E1, app_length. lia.
        -- cbn [skipn]. rewrite E2. rewrite hd_chr_ne by (rewrite E; discriminate).
           rewrite En. replace (Nat.max 1 (length (encode c))) with (length (encode c)) by lia.
           rewrite firstn_app, Nat.sub_diag, firstn_all. cbn [firstn]. rewrite app_nil_r. unfold is_nl, code. rewrite E3. reflexivity.
      * (* inside a character: a continuation byte *)
        apply nl_ok_at_single; [rewrite app_length; lia|]. rewrite nthb_app_l by exact L. rewrite E in *. cbn [length] in L. unfold nthb. cbn [nth].
        assert (Hin : In (nth q t 0%N) t) by (apply nth_In; lia).
        unfold all_cont in Ht. rewrite Forall_forall in Ht, Ht256. specialize (Ht _ Hin). specialize (Ht256 _ Hin).
        pose proof (cont_lt192 (nth q t 0%N) ltac:(lia)) as Hx. rewrite Ht in Hx. cbn in Hx. apply N.ltb_lt. exact Hx.
    + specialize (IH (q - length (encode c))%nat ltac:(lia)). destruct IH as [I1 I2]. split.
      * rewrite nthb_app_r by exact L. rewrite app_length. lia.
      * assert (Hsk : skipn q (encode c ++ chars cs) = skipn (q - length (encode c)) (chars cs))
          by (rewrite skipn_app, skipn_all2 by lia; reflexivity).
        rewrite Hsk. exact I2.
Qed.
Theorem nl_ok_valid s : valid s -> nl_ok s.
Proof. intros (cs & Hcs & ->) q Hq. apply (nl_ok_chars cs Hcs q Hq). Qed.

(* ------------------------------------------------------------------ lbuf_paragraphbeg *)
(* the line is exactly "\n" *)
Definition blankb (s : bytes) : bool := if list_eq_dec N.eq_dec s [10%N] then true else false.
Lemma chop_nonnil' t : t <> [] -> chop t <> [].
Proof. intro H. rewrite chop_cons by exact H. discriminate. Qed.
Lemma chop_blank s : nonul s ->
  match chop s with [c] => if list_eq_dec N.eq_dec c [10%N] then true else false | _ => false end = blankb s.
Proof.
  intro Hn. unfold blankb. destruct (list_eq_dec N.eq_dec s [10%N]) as [->|Hne]; [reflexivity|].
  destruct s as [|x t]; [reflexivity|]. rewrite chop_cons by discriminate.
  destruct (nonul_next (x :: t) Hn ltac:(discriminate)) as (E1 & E3 & E2). rewrite E1.
  destruct (skipn (uc_next (x :: t)) (x :: t)) as [|y r] eqn:Es.
  - rewrite chop_nil. rewrite hd_chr_ne by discriminate. rewrite E1.
    assert (Hall : firstn (uc_next (x :: t)) (x :: t) = x :: t).
    { pose proof (firstn_skipn (uc_next (x :: t)) (x :: t)) as Hfs. rewrite Es, app_nil_r in Hfs. exact Hfs. }
    rewrite Hall. destruct (list_eq_dec N.eq_dec (x :: t) [10%N]); [contradiction|reflexivity].
  - pose proof (chop_nonnil' (y :: r) ltac:(discriminate)) as Hc. destruct (chop (y :: r)); [contradiction|reflexivity].
Qed.
Lemma is_blank_line_rowidx lines r : Forall nonul lines ->
  is_blank_line (map chop lines) r = option_map (fun i => blankb (nthl lines i)) (rowidx lines r).
Proof.
  intro Hn. unfold is_blank_line. rewrite getl_rowidx. unfold rowidx, blen. rewrite map_length.
  destruct (Z.ltb_spec r 0); destruct (Z.leb_spec 0 r); try lia; cbn [orb andb]; [reflexivity|].
  rewrite Z.geb_leb. destruct (Z.leb_spec (Z.of_nat (length lines)) r); destruct (Z.ltb_spec r (Z.of_nat (length lines))); try lia; [reflexivity|].
  cbn [option_map]. rewrite chop_blank by (apply nthl_nonul; exact Hn). reflexivity.
Qed.

Lemma wrap_u8_byte' : forall c, (c < 256)%N -> wrap U8 (Z.of_N c) = Z.of_N c.
Proof. byte_fact. Qed.
(* strcmp("\n", s) == 0 exactly when s is "\n" *)
Lemma strcmp_nl m g b s : str_at m g [10%N] -> str_at m b s -> nonul s ->
  exists x, do_builtin_m BStrcmp [VPtr g 0; VPtr b 0] m = Ok (VInt x, m) /\ (x =? 0) = blankb s.
Proof.
  intros Hg Hs Hn. cbn [do_builtin_m do_builtin].
  change 0 with (Z.of_nat 0). rewrite (blk_from_str m g _ O Hg) by (cbn; lia). rewrite (blk_from_str m b s O Hs) by lia.
  cbn [bind skipn]. change (cstr_block (zb [10%N])) with [VInt 10; VInt 0]. cbn [length].
  destruct s as [|c t].
  - cbn. eexists; split; reflexivity.
  - inversion Hn as [|? ? [Hc0 Hc] Ht]; subst. unfold cstr_block, zb. cbn [map app length Nat.max cmp_cells].
    change (wrap U8 10) with 10. rewrite (wrap_u8_byte' c Hc).
    destruct (Z.ltb_spec 10 (Z.of_N c)).
    { cbn [bind]. eexists; split; [reflexivity|]. unfold blankb. destruct (list_eq_dec N.eq_dec (c :: t) [10%N]) as [E|E]; [injection E as -> _; lia|reflexivity]. }
    destruct (Z.ltb_spec (Z.of_N c) 10).
    { cbn [bind]. eexists; split; [reflexivity|]. unfold blankb. destruct (list_eq_dec N.eq_dec (c :: t) [10%N]) as [E|E]; [injection E as -> _; lia|reflexivity]. }
    assert (c = 10%N) as -> by lia. change (10 =? 0) with false. cbn iota.
    destruct t as [|e t'].
    + cbn. eexists; split; reflexivity.
    + inversion Ht as [|? ? [He0 He] Ht']; subst.
      cbn [map app cmp_cells]. change (wrap U8 0) with 0. rewrite (wrap_u8_byte' e He).
      destruct (Z.ltb_spec 0 (Z.of_N e)); [|lia]. cbn [bind]. eexists; split; [reflexivity|].
      unfold blankb. destruct (list_eq_dec N.eq_dec (10%N :: e :: t') [10%N]) as [E|E]; [discriminate|reflexivity].
Qed.

Definition pb_loop1 : stmt := match fn_body cf_lbuf_paragraphbeg with SSeq w _ => w | _ => SSkip end.
Definition pb_loop2 : stmt := match fn_body cf_lbuf_paragraphbeg with SSeq _ (SSeq w _) => w | _ => SSkip end.
(* the number of rows a scan in direction dir can still visit from row r *)
Definition meas (lines : list bytes) (dir r : Z) : nat :=
  if (r <? 0) || (Z.of_nat (length lines) <=? r) then O
  else if dir =? 1 then Z.to_nat (Z.of_nat (length lines) - r) else Z.to_nat (r + 1).

Lemma pb_loop1_ok F d lb bln lbs lines br dir v3 : lines_small lines ->
  ~ In br (lb :: bln :: lbs) -> br <> G_lit_0a_1 -> dir_ok dir ->
  forall n m r mf fuel, lbuf_at m lb bln lbs lines -> str_at m G_lit_0a_1 [10%N] -> (br < length m)%nat -> cell_at m br r -> i32 r ->
  (meas lines dir r <= n)%nat -> (n < mf)%nat -> (n < fuel)%nat ->
  exec (callf cprog F (S d)) fuel pb_loop1 (mkst [VPtr lb 0; VInt dir; VPtr br 0; v3] m)
  = ONormal (mkst [VPtr lb 0; VInt dir; VPtr br 0; v3] (upd m br [VInt (para_skip mf (map chop lines) dir true r)])) /\
  i32 (para_skip mf (map chop lines) dir true r).
Proof.
  intros Hsm Nr Nlit Hd. set (b := map chop lines). pose proof (proj1 Hsm) as Hsm1.
  induction n as [|n IH]; intros m r mf fuel Rm Hl Lr Hr Ir Hmeas Hmf Hf;
    (destruct fuel as [|fuel]; [lia|]); (destruct mf as [|mf]; [lia|]);
    unfold pb_loop1; cbn [fn_body cf_lbuf_paragraphbeg]; rewrite exec_while; xstep;
    rewrite (load_cell m br r Hr); xstep; rewrite wrap_I32_id by exact Ir;
    cbn [para_skip]; fold b; unfold b; rewrite (is_blank_line_rowidx lines r (la_nonul _ _ _ _ _ Rm)); unfold rowidx;
    (destruct (Z.leb_spec 0 r) as [L0|L0]; xstep; cbn [andb option_map];
     [|split; [rewrite (upd_self m br _ Hr); reflexivity|exact Ir]]);
    rewrite (load_cell m br r Hr); xstep; rewrite wrap_I32_id by exact Ir;
    rewrite (tr_lbuf_len m lb bln lbs lines d F Rm Hsm); xstep; unfold blen; rewrite map_length;
    (destruct (Z.ltb_spec r (Z.of_nat (length lines))) as [L1|L1]; xstep; cbn [andb option_map];
     [|split; [rewrite (upd_self m br _ Hr); reflexivity|exact Ir]]).
  - exfalso. unfold meas in Hmeas. destruct (Z.ltb_spec r 0); [lia|]. destruct (Z.leb_spec (Z.of_nat (length lines)) r); [lia|]. cbn [orb] in Hmeas.
    destruct Hd as [-> | ->]; cbn in Hmeas; lia.
  - rewrite (load_cell m br r Hr). xstep. rewrite wrap_I32_id by exact Ir.
    rewrite (tr_lbuf_get m lb bln lbs lines r d F Rm Hsm). unfold line_ptr, rowidx.
    destruct (Z.leb_spec 0 r); [|lia]. destruct (Z.ltb_spec r (Z.of_nat (length lines))); [|lia]. cbn [andb]. xstep.
    assert (Hi : (Z.to_nat r < length lines)%nat) by lia.
    destruct (strcmp_nl m G_lit_0a_1 (nth (Z.to_nat r) lbs O) (nthl lines (Z.to_nat r)) Hl (la_str _ _ _ _ _ Rm _ Hi)
                (nthl_nonul lines _ (la_nonul _ _ _ _ _ Rm))) as (x & Hx & Hxb).
    rewrite Hx. xstep. rewrite Hxb.
    destruct (blankb (nthl lines (Z.to_nat r))); cbn [negb b2z Bool.eqb]; xstep; [|split; [rewrite (upd_self m br _ Hr); reflexivity|exact Ir]].
    rewrite (load_cell m br r Hr). xstep. rewrite wrap_I32_id by exact Ir.
    rewrite chk_I32 by (destruct Hd as [-> | ->]; lia). xstep.
    rewrite wrap_I32_id by (destruct Hd as [-> | ->]; lia). rewrite (store_cell m br r _ Hr). xstep.
    set (m1 := upd m br [VInt (r + dir)]).
    assert (Hm1 : (meas lines dir (r + dir) <= n)%nat).
    { unfold meas in *. destruct (Z.ltb_spec r 0); [lia|]. destruct (Z.leb_spec (Z.of_nat (length lines)) r); [lia|]. cbn [orb] in Hmeas.
      destruct ((r + dir <? 0) || (Z.of_nat (length lines) <=? r + dir)) eqn:Eo; [lia|].
      apply orb_false_iff in Eo. destruct Eo as [Eo1 Eo2]. apply Z.ltb_ge in Eo1. apply Z.leb_gt in Eo2.
      destruct Hd as [-> | ->]; cbn [Z.eqb Pos.eqb] in *; lia. }
    destruct (IH m1 (r + dir) mf fuel) as [E1 E2]; try lia.
    { apply lbuf_at_upd; assumption. }
    { unfold str_at. unfold m1. rewrite mem_upd_other; [exact Hl|exact Lr|congruence]. }
    { unfold m1. rewrite upd_length by exact Lr. exact Lr. }
    { apply cell_at_upd_same. exact Lr. }
    { unfold i32. destruct Hd as [-> | ->]; lia. }
    unfold pb_loop1 in E1; cbn [fn_body cf_lbuf_paragraphbeg] in E1. rewrite E1.
    split; [|exact E2]. unfold m1. rewrite upd_upd by exact Lr. reflexivity.
Qed.

Lemma pb_loop2_ok F d lb bln lbs lines br dir v3 : lines_small lines ->
  ~ In br (lb :: bln :: lbs) -> br <> G_lit_0a_1 -> dir_ok dir ->
  forall n m r mf fuel, lbuf_at m lb bln lbs lines -> str_at m G_lit_0a_1 [10%N] -> (br < length m)%nat -> cell_at m br r -> i32 r ->
  (meas lines dir r <= n)%nat -> (n < mf)%nat -> (n < fuel)%nat ->
  exec (callf cprog F (S d)) fuel pb_loop2 (mkst [VPtr lb 0; VInt dir; VPtr br 0; v3] m)
  = ONormal (mkst [VPtr lb 0; VInt dir; VPtr br 0; v3] (upd m br [VInt (para_skip mf (map chop lines) dir false r)])) /\
  i32 (para_skip mf (map chop lines) dir false r).
Proof.
  intros Hsm Nr Nlit Hd. set (b := map chop lines). pose proof (proj1 Hsm) as Hsm1.
  induction n as [|n IH]; intros m r mf fuel Rm Hl Lr Hr Ir Hmeas Hmf Hf;
    (destruct fuel as [|fuel]; [lia|]); (destruct mf as [|mf]; [lia|]);
    unfold pb_loop2; cbn [fn_body cf_lbuf_paragraphbeg]; rewrite exec_while; xstep;
    rewrite (load_cell m br r Hr); xstep; rewrite wrap_I32_id by exact Ir;
    cbn [para_skip]; fold b; unfold b; rewrite (is_blank_line_rowidx lines r (la_nonul _ _ _ _ _ Rm)); unfold rowidx;
    (destruct (Z.leb_spec 0 r) as [L0|L0]; xstep; cbn [andb option_map];
     [|split; [rewrite (upd_self m br _ Hr); reflexivity|exact Ir]]);
    rewrite (load_cell m br r Hr); xstep; rewrite wrap_I32_id by exact Ir;
    rewrite (tr_lbuf_len m lb bln lbs lines d F Rm Hsm); xstep; unfold blen; rewrite map_length;
    (destruct (Z.ltb_spec r (Z.of_nat (length lines))) as [L1|L1]; xstep; cbn [andb option_map];
     [|split; [rewrite (upd_self m br _ Hr); reflexivity|exact Ir]]).
  - exfalso. unfold meas in Hmeas. destruct (Z.ltb_spec r 0); [lia|]. destruct (Z.leb_spec (Z.of_nat (length lines)) r); [lia|]. cbn [orb] in Hmeas.
    destruct Hd as [-> | ->]; cbn in Hmeas; lia.
  - rewrite (load_cell m br r Hr). xstep. rewrite wrap_I32_id by exact Ir.
    rewrite (tr_lbuf_get m lb bln lbs lines r d F Rm Hsm). unfold line_ptr, rowidx.
    destruct (Z.leb_spec 0 r); [|lia]. destruct (Z.ltb_spec r (Z.of_nat (length lines))); [|lia]. cbn [andb]. xstep.
    assert (Hi : (Z.to_nat r < length lines)%nat) by lia.
    destruct (strcmp_nl m G_lit_0a_1 (nth (Z.to_nat r) lbs O) (nthl lines (Z.to_nat r)) Hl (la_str _ _ _ _ _ Rm _ Hi)
                (nthl_nonul lines _ (la_nonul _ _ _ _ _ Rm))) as (x & Hx & Hxb).
    rewrite Hx. xstep. rewrite Hxb.
    destruct (blankb (nthl lines (Z.to_nat r))); cbn [negb b2z Bool.eqb]; xstep; [split; [rewrite (upd_self m br _ Hr); reflexivity|exact Ir]|].
    rewrite (load_cell m br r Hr). xstep. rewrite wrap_I32_id by exact Ir.
    rewrite chk_I32 by (destruct Hd as [-> | ->]; lia). xstep.
    rewrite wrap_I32_id by (destruct Hd as [-> | ->]; lia). rewrite (store_cell m br r _ Hr). xstep.
    set (m1 := upd m br [VInt (r + dir)]).
    assert (Hm1 : (meas lines dir (r + dir) <= n)%nat).
    { unfold meas in *. destruct (Z.ltb_spec r 0); [lia|]. destruct (Z.leb_spec (Z.of_nat (length lines)) r); [lia|]. cbn [orb] in Hmeas.
      destruct ((r + dir <? 0) || (Z.of_nat (length lines) <=? r + dir)) eqn:Eo; [lia|].
      apply orb_false_iff in Eo. destruct Eo as [Eo1 Eo2]. apply Z.ltb_ge in Eo1. apply Z.leb_gt in Eo2.
      destruct Hd as [-> | ->]; cbn [Z.eqb Pos.eqb] in *; lia. }
    destruct (IH m1 (r + dir) mf fuel) as [E1 E2]; try lia.
    { apply lbuf_at_upd; assumption. }
    { unfold str_at. unfold m1. rewrite mem_upd_other; [exact Hl|exact Lr|congruence]. }
    { unfold m1. rewrite upd_length by exact Lr. exact Lr. }
    { apply cell_at_upd_same. exact Lr. }
    { unfold i32. destruct Hd as [-> | ->]; lia. }
    unfold pb_loop2 in E1; cbn [fn_body cf_lbuf_paragraphbeg] in E1. rewrite E1.
    split; [|exact E2]. unfold m1. rewrite upd_upd by exact Lr. reflexivity.
Qed.

Lemma meas_le lines dir r : (meas lines dir r <= length lines)%nat.
Proof.
  unfold meas. destruct (Z.ltb_spec r 0); cbn [orb]; [lia|]. destruct (Z.leb_spec (Z.of_nat (length lines)) r); [lia|].
  destruct (dir =? 1); lia.
Qed.
Definition pb_rest : stmt := match fn_body cf_lbuf_paragraphbeg with SSeq _ (SSeq _ r) => r | _ => SSkip end.

Definition pb_fin : stmt := match fn_body cf_lbuf_paragraphbeg with SSeq _ (SSeq _ (SSeq _ r)) => r | _ => SSkip end.

Theorem tr_lbuf_paragraphbeg m lb bln lbs lines br bo r o dir d fuel :
  lbuf_at m lb bln lbs lines -> lines_small lines -> str_at m G_lit_0a_1 [10%N] -> cell_at m br r -> cell_at m bo o -> br <> bo ->
  ~ In br (G_lit_0a_1 :: lb :: bln :: lbs) -> ~ In bo (G_lit_0a_1 :: lb :: bln :: lbs) -> i32 r -> dir_ok dir ->
  (length lines < fuel)%nat ->
  callf cprog fuel (S (S d)) F_lbuf_paragraphbeg [VPtr lb 0; VInt dir; VPtr br 0; VPtr bo 0] m
  = Ok (VInt 0, set_pos m br bo (fst (lbuf_paragraphbeg (map chop lines) dir r)) 0).
Proof.
  intros R Hsm Hl Hr Ho Hne Nr No Ir Hd Hf. pose proof (cell_lt _ _ _ Hr) as Lr. pose proof (cell_lt _ _ _ Ho) as Lo.
  assert (Nr' : ~ In br (lb :: bln :: lbs)) by (intro H; apply Nr; right; exact H).
  assert (Nrl : br <> G_lit_0a_1) by (intro H; apply Nr; left; congruence).
  set (b := map chop lines). unfold lbuf_paragraphbeg. cbn [fst]. fold b.
  assert (Hlb : length b = length lines) by (unfold b; apply map_length). rewrite Hlb.
  enter F_lbuf_paragraphbeg cf_lbuf_paragraphbeg. rewrite exec_seq.
  (let t := eval cbv [pb_loop1 fn_body cf_lbuf_paragraphbeg] in pb_loop1 in change t with pb_loop1).
  (let t := eval cbv [pb_rest fn_body cf_lbuf_paragraphbeg] in pb_rest in change t with pb_rest).
  destruct (pb_loop1_ok fuel d lb bln lbs lines br dir (VPtr bo 0) Hsm Nr' Nrl Hd (length lines) m r (S (length lines)) fuel
              R Hl Lr Hr Ir (meas_le _ _ _) ltac:(lia) Hf) as [E1 I1].
  rewrite E1. fold b in I1 |- *. set (r1 := para_skip (S (length lines)) b dir true r) in *.
  set (m1 := upd m br [VInt r1]).
  assert (R1 : lbuf_at m1 lb bln lbs lines) by (apply lbuf_at_upd; assumption).
  assert (Hl1 : str_at m1 G_lit_0a_1 [10%N]) by (unfold str_at, m1; rewrite mem_upd_other; [exact Hl|exact Lr|congruence]).
  assert (Lr1 : (br < length m1)%nat) by (unfold m1; rewrite upd_length by exact Lr; exact Lr).
  assert (Hr1 : cell_at m1 br r1) by (apply cell_at_upd_same; exact Lr).
  unfold pb_rest; cbn [fn_body cf_lbuf_paragraphbeg]. rewrite exec_seq.
  (let t := eval cbv [pb_loop2 fn_body cf_lbuf_paragraphbeg] in pb_loop2 in change t with pb_loop2).
  destruct (pb_loop2_ok fuel d lb bln lbs lines br dir (VPtr bo 0) Hsm Nr' Nrl Hd (length lines) m1 r1 (S (length lines)) fuel
              R1 Hl1 Lr1 Hr1 I1 (meas_le _ _ _) ltac:(lia) Hf) as [E2 I2].
  rewrite E2. fold b in I2 |- *. set (r2 := para_skip (S (length lines)) b dir false r1) in *.
  unfold m1. rewrite upd_upd by exact Lr. set (m2 := upd m br [VInt r2]).
  assert (R2 : lbuf_at m2 lb bln lbs lines) by (apply lbuf_at_upd; assumption).
  assert (Hr2 : cell_at m2 br r2) by (apply cell_at_upd_same; exact Lr).
  assert (Ho2 : cell_at m2 bo o) by (apply cell_at_upd_other; [exact Lr|congruence|exact Ho]).
  assert (Hlen : 0 <= blen b <= 2147483647) by (unfold blen; rewrite Hlb; destruct Hsm; lia).
  assert (Hcl : forall dd, callf cprog fuel (S dd) F_lbuf_len [VPtr lb 0] m2 = Ok (VInt (blen b), m2))
    by (intro dd; apply (tr_lbuf_len m2 lb bln lbs lines dd fuel R2 Hsm)).
  (let t := eval cbv [pb_fin fn_body cf_lbuf_paragraphbeg] in pb_fin in change t with pb_fin).
  remember pb_fin as pf eqn:Epf.
  xstep.
  rewrite (load_cell m2 br r2 Hr2). xstep. rewrite wrap_I32_id by exact I2.
  rewrite Hcl. xstep. rewrite chk_I32 by lia. xstep.
  assert (Hfinal : forall v, v = Z.max 0 (Z.min r2 (blen b - 1)) -> i32 v ->
    match exec (callf cprog fuel (S d)) fuel pf
      (mkst [VPtr lb 0; VInt dir; VPtr br 0; VPtr bo 0] (upd m2 br [VInt v])) with
    | ONormal st => Ok (VUndef, memm st) | OReturn v st => Ok (v, memm st) | OErr x => Err x | _ => Err EShape end
    = Ok (VInt 0, set_pos m br bo (Z.max 0 (Z.min r2 (blen b - 1))) 0)).
  { intros v -> Iv. subst pf. unfold pb_fin; cbn [fn_body cf_lbuf_paragraphbeg]. xstep. change (wrap I32 0) with 0.
    assert (Ho3 : cell_at (upd m2 br [VInt (Z.max 0 (Z.min r2 (blen b - 1)))]) bo o)
      by (apply cell_at_upd_other; [unfold m2; rewrite upd_length by exact Lr; exact Lr|congruence|exact Ho2]).
    rewrite (store_cell _ bo o _ Ho3). xstep. unfold m2. rewrite upd_upd by exact Lr. reflexivity. }
  destruct (Z.ltb_spec r2 (blen b - 1)) as [La|La]; xstep.
  - rewrite (load_cell m2 br r2 Hr2). xstep. rewrite wrap_I32_id by exact I2.
    destruct (Z.ltb_spec 0 r2) as [Lb|Lb]; xstep.
    + rewrite (load_cell m2 br r2 Hr2). xstep. rewrite wrap_I32_id by exact I2.
      rewrite Hcl. xstep. rewrite chk_I32 by lia. xstep.
      destruct (Z.ltb_spec r2 (blen b - 1)); [|lia]. xstep.
      rewrite (load_cell m2 br r2 Hr2). xstep. rewrite !(wrap_I32_id r2) by exact I2.
      rewrite (store_cell m2 br r2 _ Hr2). xstep. apply Hfinal; [lia|exact I2].
    + change (wrap I32 0) with 0. rewrite (store_cell m2 br r2 _ Hr2). xstep. apply Hfinal; [lia|unfold i32; lia].
  - rewrite Hcl. xstep. rewrite chk_I32 by lia. xstep.
    destruct (Z.ltb_spec 0 (blen b - 1)) as [Lb|Lb]; xstep.
    + rewrite (load_cell m2 br r2 Hr2). xstep. rewrite wrap_I32_id by exact I2.
      rewrite Hcl. xstep. rewrite chk_I32 by lia. xstep.
      destruct (Z.ltb_spec r2 (blen b - 1)); [lia|]. xstep.
      rewrite Hcl. xstep. rewrite chk_I32 by lia. xstep. rewrite wrap_I32_id by lia.
      rewrite (store_cell m2 br r2 _ Hr2). xstep. apply Hfinal; [lia|unfold i32; lia].
    + change (wrap I32 0) with 0. rewrite (store_cell m2 br r2 _ Hr2). xstep. apply Hfinal; [lia|unfold i32; lia].
Qed.

(* ------------------------------------------------------------------ uc_nextdir *)
(* char **s: a one-cell block bs holding a pointer into the string block b; beg points into the same string.
   The model, on byte offsets: backwards one character (uc_prev) unless already at beg (status 1); forwards one
   character (uc_next), status 1 when that reaches the terminator *)
Definition nextdir_model (str : bytes) (ob p : nat) (dir : Z) : bool * nat :=
  if dir <? 0 then (if Nat.eqb p ob then (true, p) else (false, (p - uc_prev (pre_of str ob p))%nat))
  else let p' := (p + uc_next (skipn p str))%nat in ((nthb str p' =? 0)%N, p').

Theorem tr_uc_nextdir m b bs str ob p dir d fuel :
  str_at m b str -> bytes_lt256 str -> nth_error m bs = Some [VPtr b (Z.of_nat p)] -> bs <> b ->
  (ob <= p <= length str)%nat -> (length str < fuel)%nat ->
  callf cprog fuel (S (S (S d))) F_uc_nextdir [VPtr bs 0; VPtr b (Z.of_nat ob); VInt dir] m
  = let '(s, p') := nextdir_model str ob p dir in Ok (VInt (b2z s), upd m bs [VPtr b (Z.of_nat p')]).
Proof.
  intros Hs H256 Hc Hne Hp Hf. assert (Lbs : (bs < length m)%nat) by (apply nth_error_Some; congruence).
  assert (Hld : load m bs 0 = Ok (VPtr b (Z.of_nat p))) by (unfold load; rewrite Hc; reflexivity).
  assert (Hst : forall v, store m bs 0 v = Ok (upd m bs [v])) by (intro v; rewrite (store_ok m bs _ 0 v Hc) by (cbn; lia); reflexivity).
  enter F_uc_nextdir cf_uc_nextdir. xstep. unfold nextdir_model.
  destruct (Z.ltb_spec dir 0) as [Ld|Ld]; xstep.
  - rewrite Hld. xstep. cbn [ptr_cmp]. rewrite Nat.eqb_refl. xstep.
    destruct (Nat.eqb_spec p ob) as [->|Hpo].
    + rewrite Z.eqb_refl. xstep. rewrite (upd_self m bs _ Hc). reflexivity.
    + destruct (Z.eqb_spec (Z.of_nat p) (Z.of_nat ob)); [lia|]. xstep.
      rewrite Hld. xstep. rewrite (tr_uc_prev m b str ob p d fuel Hs H256) by lia. xstep.
      rewrite Hst. xstep. reflexivity.
  - rewrite Hld. xstep. rewrite (tr_uc_next m b str p d fuel Hs H256) by lia. xstep.
    rewrite Hst. xstep. set (p' := (p + uc_next (skipn p str))%nat).
    set (m' := upd m bs [VPtr b (Z.of_nat p')]).
    assert (Hld' : load m' bs 0 = Ok (VPtr b (Z.of_nat p'))) by (unfold load, m'; rewrite mem_upd_same by exact Lbs; reflexivity).
    assert (Hs' : str_at m' b str) by (apply str_at_upd_other; [exact Lbs|congruence|exact Hs]).
    rewrite Hld'. xstep.
    assert (Hp' : (p' <= length str)%nat).
    { unfold p'. pose proof (uc_end_in (skipn p str)) as He. rewrite skipn_length in He. unfold uc_next.
      destruct (N.eqb_spec (nthb (skipn p str) (uc_end (skipn p str))) 0) as [E0|E0]; [lia|].
      rewrite nthb_skipn in E0. destruct (Nat.lt_ge_cases (p + uc_end (skipn p str)) (length str)); [lia|].
      rewrite nthb_end in E0 by lia. congruence. }
    replace (Z.of_nat p' + 1 * 0) with (Z.of_nat p') by lia.
    rewrite (load_str m' b str _ p' Hs') by lia. xstep.
    rewrite (cc_z0 _ (nthb_lt256 str p' H256)).
    destruct (nthb str p' =? 0)%N; xstep; reflexivity.
Qed.
