(* ExPipeDefs.v -- C06: the commands of ex.c that hand text to / take text from an external command, on top of ExDefs.v:
     ec_rx          `rx reg cmd`      the register's text is the command's input, its output the register's new text
     ec_read_pipe   `addr r !cmd`     the command's output is read in after the addressed line
   (ExDefs.ec_exec, the filter `beg,end!cmd`, and ExDefs.ec_read for files are there already), the line executor extended by the
   two (ex_command_x / ex_main_x: the first command of an input line may be one of them), and the feeding loop of cmd.c's
   cmd_pipe(): the text goes to the child through a non-blocking pipe in as many write()s as the kernel makes of it.
   No proofs here (ExPipeProps.v). *)
From Coq Require Import List NArith ZArith Bool.
From NV Require Import Bytes ExDefs.
Import ListNotations.
Local Open Scope Z_scope.

(* ------------------------------------------------------------------------------------------ *)
(* cmd_pipe(): the POLLOUT branch
       int ret = write(fds[1].fd, ibuf + nw, slen - nw);
       if (ret > 0) nw += ret;
       if (ret <= 0 || nw == slen) { close(fds[1].fd); fds[1].fd = -1; }
   One element of the schedule per POLLOUT event: what the kernel does with the bytes offered. *)
Inductive wres := WErr | WAcc (k : nat).      (* write() fails / accepts min(k, offered) bytes *)

(* (bytes that reached the pipe, nw, descriptor closed) *)
Fixpoint pipe_feed (ibuf : bytes) (nw : nat) (sched : list wres) : bytes * nat * bool :=
  match sched with
  | [] => ([], nw, false)
  | WErr :: _ => ([], nw, true)
  | WAcc k :: rest =>
    let offered := skipn nw ibuf in                      (* ibuf + nw, slen - nw *)
    let ret := Nat.min k (length offered) in
    if (ret =? 0)%nat then ([], nw, true)
    else
      let nw' := (nw + ret)%nat in
      if (nw' =? length ibuf)%nat then (firstn ret offered, nw', true)
      else let '(d, n2, c) := pipe_feed ibuf nw' rest in (firstn ret offered ++ d, n2, c)
  end.

(* the same loop with the pointer NOT advanced (write(ip, ilen) with ilen -= ret but no ip += ret): what a rewrite that drops
   the advance sends -- used by the non-vacuity example only *)
Fixpoint pipe_feed_noadv (ibuf : bytes) (nw : nat) (sched : list wres) : bytes * nat * bool :=
  match sched with
  | [] => ([], nw, false)
  | WErr :: _ => ([], nw, true)
  | WAcc k :: rest =>
    let offered := firstn (length ibuf - nw) ibuf in     (* ibuf, slen - nw *)
    let ret := Nat.min k (length offered) in
    if (ret =? 0)%nat then ([], nw, true)
    else
      let nw' := (nw + ret)%nat in
      if (nw' =? length ibuf)%nat then (firstn ret offered, nw', true)
      else let '(d, n2, c) := pipe_feed_noadv ibuf nw' rest in (firstn ret offered ++ d, n2, c)
  end.

(* a schedule that lets the whole text through: no failure, every write accepts at least one byte *)
Fixpoint sched_ok (sched : list wres) : bool :=
  match sched with
  | [] => true
  | WErr :: _ => false
  | WAcc k :: r => negb (k =? 0)%nat && sched_ok r
  end.

(* the POLLIN branch: sbuf_mem(sb, buf, ret) per read(): the collected output is the concatenation of the chunks *)
Definition pipe_collect (chunks : list bytes) : bytes := concat chunks.

(* ------------------------------------------------------------------------------------------ *)
(* ex_reg(): blanks, the register name, the rest of the word, blanks *)
Fixpoint skip_sp (s : bytes) : bytes :=
  match s with c :: r => if (c =? 32)%N then skip_sp r else s | [] => [] end.
Fixpoint skip_word (s : bytes) : bytes :=
  match s with c :: r => if ((c =? 32) || (c =? 9))%N then s else skip_word r | [] => [] end.
Fixpoint skip_blank (s : bytes) : bytes :=
  match s with c :: r => if ((c =? 32) || (c =? 9))%N then skip_blank r else s | [] => [] end.
Definition ex_reg (arg : bytes) : N * bytes :=
  let a := skip_sp arg in (REG a, skip_blank (skip_word a)).

Section ExPipe.
Variable rvalid : bytes -> bool.
Variable rfind : bytes -> bytes -> bool -> option (nat * nat).
Variable filter : bytes -> bytes -> option bytes.              (* cmd_pipe(cmd, input, 1), input != NULL *)
Variable cmdout : bytes -> option bytes.                       (* cmd_pipe(cmd, NULL, 1): the command reads the terminal *)
Variable readfile : bytes -> option bytes.
Variable curpath : bytes.

(* ec_rx.  F_UNSUP: % # \ in the command (ex_pathexpand), the registers ; # ^, a register that is not set (reg_get gives NULL and
   the command would read the terminal) *)
Definition ec_rx (arg : bytes) (s : st) : st * Z :=
  let '(reg, cmd) := ex_reg arg in
  if (reg =? 0)%N then (s, 1)
  else if negb (plain_arg cmd) || reg_special reg then (flag s F_UNSUP, 1)
  else match reg_get s reg with
  | None => (flag s F_UNSUP, 1)
  | Some text =>
    match filter cmd text with
    | Some rep => (set_regs s (reg_put (regs s) reg rep), 0)
    | None => (set_regs s (reg_put (regs s) reg []), 1)
    end
  end.

(* ec_read with path[0] == '!' (arg = "!cmd", no % # \ in it) *)
Definition ec_read_pipe (loc arg : bytes) (s : st) : st * Z :=
  let n := slen s in
  let '(bad, b, e, s1) := ex_region rvalid rfind loc s in
  if bad && (negb (b =? 0) || negb (e =? 0)) then (s1, 1)
  else
    let pos := if slen s1 =? 0 then 0 else e in
    match tl arg with
    | [] => (s1, 1)
    | cmd =>
      let s2 := match cmdout cmd with Some obuf => edit s1 (Some obuf) pos pos | None => s1 end in
      (emit (set_xrow s2 (Z.max 0 (e + slen s2 - n - 1))) (OMsg M_READ), 0)
    end.

Definition RX : bytes := [114; 120]%N.
Definition RD : bytes := [114]%N.
Definition READ : bytes := [114; 101; 97; 100]%N.

(* ex_command() on an input line whose FIRST command may be `rx` or `r !cmd` (ex_exec's loop: address, word, argument; the
   command; then the rest of the line with ExDefs.ex_exec; the sequence number is bumped once per line) *)
Definition ex_command_x (fuel : nat) (ln : bytes) (s : st) : st * Z :=
  let '(ln1, loc) := ex_loc ln in
  let '(ln2, cmd) := ex_cmd ln1 in
  if bytes_eqb cmd RX then
    let '(ln3, arg) := ex_arg ln2 RX in
    let '(s1, r) := ec_rx arg s in
    let '(s2, r2) := ex_exec rvalid rfind filter readfile curpath fuel r ln3 s1 in (bump s2, r2)
  else if bytes_eqb cmd RD || bytes_eqb cmd READ then
    let '(ln3, arg) := ex_arg ln2 RD in
    if (hd0 arg =? 33)%N && plain_arg arg then
      let '(s1, r) := ec_read_pipe loc arg s in
      let '(s2, r2) := ex_exec rvalid rfind filter readfile curpath fuel r ln3 s1 in (bump s2, r2)
    else ex_command rvalid rfind filter readfile curpath fuel ln s
  else ex_command rvalid rfind filter readfile curpath fuel ln s.

Fixpoint ex_main_x (n : nat) (fuel : nat) (s : st) : st :=
  match n with
  | O => flag s F_OOF
  | S n' =>
    if xquit s then s
    else match inp s with
         | [] => flag s F_EOF
         | ln :: rest =>
           let '(s1, _) := ex_command_x fuel ln (set_inp s rest) in
           ex_main_x n' fuel (set_regs s1 (reg_put (regs s1) 58 ln))
         end
  end.

End ExPipe.
