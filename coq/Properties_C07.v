(* Properties_C07.v -- C07: vi cursor motions land where the reference motion semantics say.
   Statements only; every proof is `exact <lemma>`; Print Assumptions under each.
   Model: MotDefs.v (mirror of mot.c, the motion part of vi.c, the cursor helpers of ren.c for
   left-to-right lines).  A program is a list of motions with counts (and the ex command :n used
   to reach start positions); `run` returns None only when a fuelled loop ran out of fuel. *)
From Coq Require Import List NArith ZArith.
From NV Require Import Bytes UcDefs MotDefs MotProps.
Import ListNotations.
Local Open Scope Z_scope.

(* motions never change the text *)
Theorem C07_text_unchanged : forall b rows cs b' s, run_prog b rows cs = Some (b', s) -> b' = b.
Proof. exact run_prog_text. Qed.
Print Assumptions C07_text_unchanged.

(* after every motion (+ the vi_wfix clamp), for all texts, counts and motion sequences: the row
   exists, the offset is on an existing character and not on the terminator of a non-empty line;
   in the empty buffer the cursor is (0,0) *)
Theorem C07_cursor_valid : forall b rows cs b' s, buf_wf b -> run_prog b rows cs = Some (b', s) ->
  cursor_ok b (v_row s) (v_off s).
Proof. exact cursor_valid. Qed.
Print Assumptions C07_cursor_valid.

Theorem C07_cursor_on_character : forall b r o, buf_wf b -> cursor_ok b r o ->
  match getl b r with
  | Some l => 0 <= o < slen l /\ (b0 (chr_at l o) = 10%N -> l = [[10%N]])
  | None => b = [] /\ r = 0 /\ o = 0
  end.
Proof. exact cursor_ok_char. Qed.
Print Assumptions C07_cursor_on_character.

(* a motion the model reports as failing leaves row, offset and remembered column in place ... *)
Theorem C07_fail_in_place : forall b rows a1 a2 k s cl cc, buf_wf b -> cursor_ok b (v_row s) (v_off s) ->
  vi_motion b rows (v_top s) (v_cl s) (v_cc s) (v_pcol s) (m_has a1 a2) (m_cnt a1 a2) k (v_row s)
            (ren_noeol (getl b (v_row s)) (v_off s)) = MvFail cl cc ->
  exists s', do_motion b rows a1 a2 k s = Some s' /\ v_row s' = v_row s /\ v_off s' = v_off s /\ v_col s' = v_col s.
Proof. exact do_motion_fail. Qed.
Print Assumptions C07_fail_in_place.

(* ... and failure is reported exactly for: f F t T ; , without target, ; , without an earlier
   find, % without bracket or match, a percentage above 100 *)
Theorem C07_fail_cases : forall b rows top cl cc pc has cnt k row off cl' cc',
  vi_motion b rows top cl cc pc has cnt k row off = MvFail cl' cc' ->
  match k with
  | Kf c => lbuf_findchar b c 102%N cnt row off = None
  | KF c => lbuf_findchar b c 70%N cnt row off = None
  | Kt c => lbuf_findchar b c 116%N cnt row off = None
  | KT c => lbuf_findchar b c 84%N cnt row off = None
  | Ksemi => cl = [] \/ lbuf_findchar b cl cc cnt row off = None
  | Kcomma => cl = [] \/ lbuf_findchar b cl cc (- cnt) row off = None
  | Kpct => (has = true /\ 100 < cnt) \/ (has = false /\ lbuf_pair (mfuel b) b row off = Some None)
  | _ => False
  end.
Proof. exact vi_motion_fail_cases. Qed.
Print Assumptions C07_fail_cases.

(* where any successful motion lands: the motion's row; the offset put before the terminator;
   line motions on the first non-blank; j k on the character covering the remembered column;
   the remembered column is recomputed except by | j k *)
Theorem C07_landing : forall b rows a1 a2 k s r o cl cc pc l, buf_wf b -> 0 <= v_off s ->
  vi_motion b rows (v_top s) (v_cl s) (v_cc s) (v_pcol s) (m_has a1 a2) (m_cnt a1 a2) k (v_row s)
            (ren_noeol (getl b (v_row s)) (v_off s)) = MvOk r o cl cc pc ->
  getl b r = Some l ->
  exists s', do_motion b rows a1 a2 k s = Some s' /\ v_row s' = r /\
    v_off s' = ren_noeol (Some l) (if is_jk k then ren_off l (v_col s) else if o <? 0 then count_space l else o) /\
    v_col s' = (if is_bar k then pc else if is_jk k then v_col s else ren_pos l (v_off s')) /\
    v_cl s' = cl /\ v_cc s' = cc.
Proof. exact do_motion_land. Qed.
Print Assumptions C07_landing.

(* f t (and , after F T): the n-th character with the wanted code point strictly after the cursor
   on this line, t one short; failure iff there are fewer than n *)
Theorem C07_find_forward : forall b cs cmd n r o l, getl b r = Some l -> 0 <= o -> n <> 0 ->
  (if n <? 0 then negb (is_ft cmd) else is_ft cmd) = true ->
  let rest := skipn (Z.to_nat (o + 1)) l in
  let m := Z.to_nat (Z.abs n) in
  match lbuf_findchar b cs cmd n r o with
  | Some o' => exists k, (k < length rest)%nat /\ code (nth k rest []) = code cs /\ count_m cs (firstn k rest) = (m - 1)%nat /\
                         o' = o + 1 + Z.of_nat k - (if is_tT cmd then 1 else 0)
  | None => (count_m cs rest < m)%nat
  end.
Proof. exact findchar_forward. Qed.
Print Assumptions C07_find_forward.

(* F T (and , after f t): the same towards the start of the line *)
Theorem C07_find_backward : forall b cs cmd n r o l, getl b r = Some l -> 0 <= o -> n <> 0 ->
  (if n <? 0 then negb (is_ft cmd) else is_ft cmd) = false ->
  let rest := rev (firstn (Z.to_nat o) l) in
  let m := Z.to_nat (Z.abs n) in
  match lbuf_findchar b cs cmd n r o with
  | Some o' => exists k, (k < length rest)%nat /\ code (nth k rest []) = code cs /\ count_m cs (firstn k rest) = (m - 1)%nat /\
                         o' = o - 1 - Z.of_nat k + (if is_tT cmd then 1 else 0)
  | None => (count_m cs rest < m)%nat
  end.
Proof. exact findchar_backward. Qed.
Print Assumptions C07_find_backward.

(* G + - _ H M L (and the row of j k): the clamped target row ... *)
Theorem C07_line_target : forall b rows top has cnt k row, is_linekey k = true ->
  vi_motionln b rows top has cnt k row = Some (Some (line_target b rows top has cnt k row)).
Proof. exact vi_motionln_target. Qed.
Print Assumptions C07_line_target.

(* ... and the first non-blank of that row (the last character of an all-blank line) *)
Theorem C07_line_motions : forall b rows a1 a2 k s l, buf_wf b -> 0 <= v_off s ->
  is_linekey k = true -> is_jk k = false ->
  let t := line_target b rows (v_top s) (m_has a1 a2) (m_cnt a1 a2) k (v_row s) in
  getl b t = Some l ->
  exists s', do_motion b rows a1 a2 k s = Some s' /\ v_row s' = t /\
             v_off s' = ren_noeol (Some l) (count_space l) /\ v_col s' = ren_pos l (v_off s').
Proof. exact line_motion_lands. Qed.
Print Assumptions C07_line_motions.

Theorem C07_first_nonblank : forall l, let k := count_space l in
  0 <= k <= slen l /\ (forall i, 0 <= i < k -> uc_isspace (chr_at l i) = true) /\
  (k < slen l -> uc_isspace (chr_at l k) = false).
Proof. exact count_space_spec. Qed.
Print Assumptions C07_first_nonblank.

(* j k: clamped row, the character covering the remembered column (ren_off; the terminator is
   replaced by the last character), and the remembered column is kept (sticky) *)
Theorem C07_jk : forall b rows a1 a2 k s l, buf_wf b -> 0 <= v_off s -> is_jk k = true ->
  let t := line_target b rows (v_top s) (m_has a1 a2) (m_cnt a1 a2) k (v_row s) in
  getl b t = Some l ->
  exists s', do_motion b rows a1 a2 k s = Some s' /\ v_row s' = t /\
             v_off s' = ren_noeol (Some l) (ren_off l (v_col s)) /\ v_col s' = v_col s.
Proof. exact jk_lands. Qed.
Print Assumptions C07_jk.

(* 0 ^ $ | *)
Theorem C07_col0_caret_dollar_bar : forall b rows a1 a2 k s l, buf_wf b -> cursor_ok b (v_row s) (v_off s) ->
  getl b (v_row s) = Some l ->
  match k with K0 | Kcaret | Kdollar | Kbar => True | _ => False end ->
  exists s', do_motion b rows a1 a2 k s = Some s' /\ v_row s' = v_row s /\
    v_off s' = match k with
               | K0 => 0
               | Kcaret => ren_noeol (Some l) (count_space l)
               | Kdollar => Z.max 0 (slen l - 2)
               | _ => ren_noeol (Some l) (ren_off l (m_cnt a1 a2 - 1))
               end /\
    v_col s' = match k with Kbar => m_cnt a1 a2 - 1 | _ => ren_pos l (v_off s') end.
Proof. exact col_motions_land. Qed.
Print Assumptions C07_col0_caret_dollar_bar.

(* h l w b e W B E { } % -- PARTIAL.  Full statement wanted: h/l = the character displayed
   immediately left/right (stop at the line ends); w b e W B E = the count-th word start / word
   end of the right kind strictly beyond the cursor (empty lines are stops); { } = the next blank
   line; % = the matching bracket with balanced nesting in between.
   Proved: these motions are mirrored step for step (MotDefs), every one of them returns a
   non-negative offset, hence (C07_cursor_valid, C07_landing) a valid cursor on the returned row.
   Missing: the relation of the mirrored scanners (lbuf_wordbeg/wordend/pair, pos_next/pos_prev) to
   the declarative descriptions, and that the fuel (2 + characters + lines) always suffices. *)
Theorem C07_scanners_partial : forall b rows top cl cc pc has cnt k row off r o cl' cc' pc',
  0 <= off -> vi_motion b rows top cl cc pc has cnt k row off = MvOk r o cl' cc' pc' -> 0 <= o \/ o = -1.
Proof. exact vi_motion_off. Qed.
Print Assumptions C07_scanners_partial.

(* the target row of G + - _ H M L j k exists whenever the buffer is not empty: counts that
   overrun are clamped (for G since fix 4be34b5; before it 9G on "  ab" landed on column 0:
   corpus/C07-g-overrun.json) -- so C07_line_motions and C07_jk apply to every count *)
Theorem C07_line_target_in_range : forall b rows top has cnt k row, is_linekey k = true -> 0 <= row < blen b -> 1 <= cnt ->
  exists l, getl b (line_target b rows top has cnt k row) = Some l.
Proof. exact line_target_exists. Qed.
Print Assumptions C07_line_target_in_range.

(* non-vacuity: a well-formed buffer with a tab, a wide and a 2-byte character; a program of
   motions runs to a valid cursor *)
Example C07_nonvacuous :
  let b := buf_of_bytes [9; 97; 32; 228; 184; 173; 195; 169; 10; 10; 40; 120; 41; 10]%N in
  match run_prog b 23 [Mot 0 Kw; Mot 2 Kl; Mot 0 Kj; Mot 0 Kj; Mot 0 Kpct; Mot 0 Kdollar; Mot 2 Kk; Mot 0 (Kf [195; 169]%N)] with
  | Some (_, s) => (v_row s, v_off s) = (0, 4)
  | None => False
  end.
Proof. vm_compute. reflexivity. Qed.

Example C07_G_overrun_fixed :
  match run g_witness 23 [Mot 9 KG] init_vst, run g_witness 23 [Mot 1 KG] init_vst with
  | Some s9, Some s1 => v_row s9 = 0 /\ v_row s1 = 0 /\ v_off s1 = 2 /\ v_off s9 = 2
  | _, _ => False
  end.
Proof. exact g_overrun_fixed. Qed.

Example C07_nonvacuous_wf : buf_wf g_witness /\ cursor_ok g_witness 0 2.
Proof.
  split.
  - repeat constructor. exists [[32]; [32]; [97]; [98]]%N. split; [reflexivity|]. repeat constructor; discriminate.
  - vm_compute. split; [discriminate|]. left. reflexivity.
Qed.

(* ====================================================================================================
   Declarative characterisations of the scanners (w W b B e E, h l, %, { }) and fuel sufficiency
   (MotWordProps.v).  These replace the weak C07_scanners_partial above for the motions they name.

   Vocabulary.  The buffer is read as ONE sequence of characters, flat b = concat b (every line with
   its terminator); a position (r, o) of the buffer (vpos b r o: row r exists, 0 <= o < its length)
   has the index idx b r o = (characters of the rows before r) + o in it, fchr b i is the character
   at index i, nchars b the number of characters.  uc_kind gives the class of a character: 0 blank,
   1 word (alphanumeric, _, non-ASCII), 2 punctuation.
     word_start F big k : k is the first character of a word: not blank, and k = 0 or the character
                          before it is blank (W B E) / of a different class (w b e)
     word_end F L big k : k is the last character of a word (its successor exists and is blank / of a
                          different class)
     w_stop / e_stop / b_stop : a word start (w), word end (e), word start (b) OR the "second line
                          break" stop of mot.c: the terminator of a line of blanks only (e.g. an empty
                          line) that lies entirely beyond the cursor (for b: its first character)
     fwd_step stop L i j s : j is the FIRST index after i with `stop i j` (s = false), or there is no
                          such index and j = L - 1, the end of the buffer (s = true: the C function
                          returned 1); bwd_step: the same towards index 0
     chain step n i j   : n such scans in a row, stopping early after one that hit the buffer end
   ==================================================================================================== *)
From Coq Require Import Bool.
From NV Require Import MotWordProps.

(* the flat view is faithful: lbuf_chr reads the flat sequence, lbuf_next moves the index by exactly
   one (dir = +1 / -1) and fails exactly at the two ends of the buffer *)
Theorem C07_flat_char : forall b r o, vpos b r o -> lchr b r o = fchr b (idx b r o).
Proof. exact lchr_idx. Qed.
Print Assumptions C07_flat_char.

Theorem C07_flat_step : forall b dir r o, buf_wf b -> dir = 1 \/ dir = -1 -> vpos b r o ->
  exists r' o', lbuf_next b dir r o = (fst (fnext (nchars b) dir (idx b r o)), r', o') /\ vpos b r' o' /\
                idx b r' o' = snd (fnext (nchars b) dir (idx b r o)).
Proof. exact flat_step. Qed.
Print Assumptions C07_flat_step.

(* w / W (count 1): lbuf_wordbeg never runs out of fuel; it lands on the FIRST index after the cursor
   that is a word start or a blank-line stop (strictly after the cursor, none in between:
   minimality); if there is none it reports failure and lands on the last character of the buffer *)
Theorem C07_w_W_first_stop : forall b big r o, buf_wf b -> vpos b r o ->
  exists s r' o', lbuf_wordbeg (mfuel b) b big 1 r o = Some (s, r', o') /\ vpos b r' o' /\
    fwd_step (w_stop (fchr b) big) (nchars b) (idx b r o) (idx b r' o') s.
Proof. exact w_first_stop. Qed.
Print Assumptions C07_w_W_first_stop.

(* e / E (count 1): the first word end / blank-line stop strictly after the cursor *)
Theorem C07_e_E_first_stop : forall b big r o, buf_wf b -> vpos b r o ->
  exists s r' o', lbuf_wordend (mfuel b) b big 1 r o = Some (s, r', o') /\ vpos b r' o' /\
    fwd_step (e_stop (fchr b) (nchars b) big) (nchars b) (idx b r o) (idx b r' o') s.
Proof. exact e_first_stop. Qed.
Print Assumptions C07_e_E_first_stop.

(* b / B (count 1): the nearest word start / blank-line stop strictly before the cursor; if there is
   none, failure is reported and the landing index is 0 *)
Theorem C07_b_B_first_stop : forall b big r o, buf_wf b -> vpos b r o ->
  exists s r' o', lbuf_wordend (mfuel b) b big (-1) r o = Some (s, r', o') /\ vpos b r' o' /\
    bwd_step (b_stop (fchr b) big) (idx b r o) (idx b r' o') s.
Proof. exact b_first_stop. Qed.
Print Assumptions C07_b_B_first_stop.

(* w W e E b B with any count, at the vi_motion level: never MvFuel, never MvFail; the landing
   position is reached by count scans in a row (fewer when one of them hits the buffer end) *)
Theorem C07_word_motions_count : forall b rows top cl cc pc has cnt k row off,
  buf_wf b -> vpos b row off -> word_key k = true ->
  exists r' o', vi_motion b rows top cl cc pc has cnt k row off = MvOk r' o' cl cc pc /\ vpos b r' o' /\
                word_chain b k (Z.to_nat cnt) (idx b row off) (idx b r' o').
Proof. exact word_motion_count. Qed.
Print Assumptions C07_word_motions_count.

(* a valid cursor of a non-empty buffer is a position *)
Theorem C07_cursor_is_position : forall b r o, b <> [] -> cursor_ok b r o -> vpos b r o.
Proof. exact cursor_ok_vpos. Qed.
Print Assumptions C07_cursor_is_position.

(* reading the stops over a well-formed buffer: a blank character is a line break exactly when it is
   the terminator of its line; the last character of the buffer is blank *)
Theorem C07_line_break_is_terminator : forall b r o l, buf_wf b -> getl b r = Some l -> 0 <= o < slen l ->
  uc_isspace (lchr b r o) = true -> (is_nl (lchr b r o) = true <-> o = slen l - 1).
Proof. exact nl_is_terminator. Qed.
Print Assumptions C07_line_break_is_terminator.

Theorem C07_last_character_blank : forall b, buf_wf b -> b <> [] -> uc_isspace (fchr b (nchars b - 1)) = true.
Proof. exact wf_last_blank. Qed.
Print Assumptions C07_last_character_blank.

(* % : lbuf_pair never runs out of fuel.  It starts from the first of ( ) [ ] { } at or after the
   cursor on its line (pair_first) and walks forward from an opening, backward from a closing
   bracket (pair_dir, pair_other: C07_pair_table); pdepth .. t is the nesting depth of THIS kind
   of bracket after t steps (1 at the start, +1 for a bracket like the starting one, -1 for its
   partner).  Success: the landing character is the partner bracket, at the first step m where
   the depth returns to 0 -- the depth is >= 1 at all steps in between (balanced nesting).
   Failure (cursor stays, C07_fail_in_place): no bracket before the end of the line, or the depth
   never returns to 0 before the end of the buffer *)
Theorem C07_pair_match : forall b r o, buf_wf b -> vpos b r o ->
  match lbuf_pair (mfuel b) b r o with
  | None => False
  | Some None =>
      (exists o1, o <= o1 /\ b0 (lchr b r o1) = 0%N /\ forall k, o <= k < o1 -> index_of (b0 (lchr b r k)) pairs 0 = None)
      \/ (exists o1 c pidx, pair_first b r o o1 c pidx /\
            forall t, (0 < t)%nat -> 0 <= idx b r o1 + pair_dir pidx * Z.of_nat t < nchars b ->
                      1 <= pdepth (fchr b) c (pair_other pidx) (pair_dir pidx) (idx b r o1) t)
  | Some (Some (r', o')) =>
      exists o1 c pidx, pair_first b r o o1 c pidx /\ vpos b r' o' /\
        exists m, (0 < m)%nat /\ idx b r' o' = idx b r o1 + pair_dir pidx * Z.of_nat m /\
          b0 (lchr b r' o') = pair_other pidx /\
          pdepth (fchr b) c (pair_other pidx) (pair_dir pidx) (idx b r o1) m = 0 /\
          forall t, (0 < t < m)%nat -> 1 <= pdepth (fchr b) c (pair_other pidx) (pair_dir pidx) (idx b r o1) t
  end.
Proof. exact pair_match. Qed.
Print Assumptions C07_pair_match.

Theorem C07_pair_table : map (fun i => (nth i pairs 0%N, pair_dir i, pair_other i)) (seq 0 6) =
  [(40%N, 1, 41%N); (41%N, -1, 40%N); (91%N, 1, 93%N); (93%N, -1, 91%N); (123%N, 1, 125%N); (125%N, -1, 123%N)].
Proof. exact pair_table. Qed.
Print Assumptions C07_pair_table.

Theorem C07_pct_motion : forall b rows top cl cc pc cnt row off,
  vi_motion b rows top cl cc pc false cnt Kpct row off =
  match lbuf_pair (mfuel b) b row off with
  | None => MvFuel
  | Some None => MvFail cl cc
  | Some (Some (r, o)) => MvOk r o cl cc pc
  end.
Proof. exact pct_motion_spec. Qed.
Print Assumptions C07_pct_motion.

(* h / l : on the column model of a left-to-right line every character occupies at least one cell,
   so the character displayed immediately left / right is the neighbouring character of the line:
   one step moves to offset o - 1 / o + 1, and fails (cursor stays) at the start of the line, at
   the end of the line and before the terminator *)
Theorem C07_h_l_step : forall b dir r o l, dir = 1 \/ dir = -1 -> getl b r = Some l -> 0 <= o < slen l ->
  vi_nextcol b dir (r, o) =
  Some (if (0 <=? o + dir) && (o + dir <? slen l) && negb (N.eqb (b0 (chr_at l (o + dir))) 10)
        then (false, (r, o + dir)) else (true, (r, o))).
Proof. exact nextcol_spec. Qed.
Print Assumptions C07_h_l_step.

Theorem C07_cell_width_positive : forall c pos, 0 <= pos -> 1 <= ren_cwid c pos.
Proof. exact cwid_pos. Qed.
Print Assumptions C07_cell_width_positive.

(* h l with a count over a well-formed buffer: count characters left, not beyond the first one;
   count characters right, not beyond the last character before the terminator; never a failure *)
Theorem C07_h_l_count : forall b rows top cl cc pc has cnt row off l, buf_wf b -> getl b row = Some l -> 0 <= off < slen l ->
  vi_motion b rows top cl cc pc has cnt Kh row off = MvOk row (Z.max 0 (off - Z.max 0 cnt)) cl cc pc /\
  vi_motion b rows top cl cc pc has cnt Kl row off = MvOk row (Z.max off (Z.min (off + Z.max 0 cnt) (slen l - 2))) cl cc pc.
Proof. exact hl_motion_spec. Qed.
Print Assumptions C07_h_l_count.

(* } (one step): rows r .. r1-1 are the blank lines under the cursor, rows r1 .. r2-1 the paragraph
   (no blank line), and the landing row is the blank line r2 that follows it -- the nearest blank
   line below that is not part of the cursor's own blank run -- or the last line of the buffer;
   offset 0.  A blank line is a line that is exactly its terminator (C07_blank_line) *)
Theorem C07_paragraph_forward : forall b r, 0 <= r < blen b ->
  exists r1 r2, lbuf_paragraphbeg b 1 r = (Z.min r2 (blen b - 1), 0) /\ r <= r1 <= r2 /\ r2 <= blen b /\
    (forall k, r <= k < r1 -> is_blank_line b k = Some true) /\
    (forall k, r1 <= k < r2 -> is_blank_line b k = Some false) /\
    (r2 < blen b -> is_blank_line b r2 = Some true).
Proof. exact paragraph_fwd. Qed.
Print Assumptions C07_paragraph_forward.

(* { (one step): the same towards the start; r2 = -1: no blank line above, lands on row 0 *)
Theorem C07_paragraph_backward : forall b r, 0 <= r < blen b ->
  exists r1 r2, lbuf_paragraphbeg b (-1) r = (Z.max 0 r2, 0) /\ r2 <= r1 <= r /\ -1 <= r2 /\
    (forall k, r1 < k <= r -> is_blank_line b k = Some true) /\
    (forall k, r2 < k <= r1 -> is_blank_line b k = Some false) /\
    (0 <= r2 -> is_blank_line b r2 = Some true).
Proof. exact paragraph_bwd. Qed.
Print Assumptions C07_paragraph_backward.

Theorem C07_blank_line : forall b r, is_blank_line b r = Some true <-> getl b r = Some [[10%N]].
Proof. exact is_blank_line_true. Qed.
Print Assumptions C07_blank_line.

(* { } with a count: the one-step function iterated count times (never a failure) *)
Theorem C07_paragraph_count : forall b rows top cl cc pc has cnt row off (fwd : bool),
  vi_motion b rows top cl cc pc has cnt (if fwd then Krbrace else Klbrace) row off =
  let p := Nat.iter (Z.to_nat cnt) (fun p => lbuf_paragraphbeg b (if fwd then 1 else -1) (fst p)) (row, off) in
  MvOk (fst p) (snd p) cl cc pc.
Proof. exact para_motion_spec. Qed.
Print Assumptions C07_paragraph_count.

(* fuel sufficiency: with the fuel mfuel b = 2 + characters + lines no scanner ever returns the
   out-of-fuel result from a position of the buffer, so NO program of motions runs out of fuel:
   the `= Some ...` hypotheses of the theorems above are always satisfied *)
Theorem C07_motion_never_out_of_fuel : forall b rows top cl cc pc has cnt k row off, buf_wf b -> vpos b row off ->
  vi_motion b rows top cl cc pc has cnt k row off <> MvFuel.
Proof. exact vi_motion_total_wf. Qed.
Print Assumptions C07_motion_never_out_of_fuel.

Theorem C07_fuel_suffices : forall b rows cs, buf_wf b -> run_prog b rows cs <> None.
Proof. exact run_prog_total. Qed.
Print Assumptions C07_fuel_suffices.

(* non-vacuity of the new hypotheses and of the success branches (s = false), on
   "ab  c.\n \n\n(x)\n": w, e from the first character; w from "." stops on the terminator of the
   blank-only line; b from "(" stops on the empty line; % from "("; W from "x" hits the buffer end *)
Example C07_word_nonvacuous :
  let b := buf_of_bytes [97; 98; 32; 32; 99; 46; 10; 32; 10; 10; 40; 120; 41; 10]%N in
  buf_wf b /\ vpos b 0 0 /\
  lbuf_wordbeg (mfuel b) b false 1 0 0 = Some (false, 0, 4) /\ lbuf_wordend (mfuel b) b false 1 0 0 = Some (false, 0, 1) /\
  lbuf_wordbeg (mfuel b) b false 1 0 5 = Some (false, 1, 1) /\ lbuf_wordend (mfuel b) b false (-1) 3 0 = Some (false, 2, 0) /\
  lbuf_pair (mfuel b) b 3 0 = Some (Some (3, 2)) /\ lbuf_wordbeg (mfuel b) b true 1 3 1 = Some (true, 3, 3).
Proof. exact word_nonvacuous. Qed.

(* the characterisations are complete: they determine the landing index (and, for one scan, the
   reported status), so two scanners satisfying them agree *)
Theorem C07_forward_scan_determined : forall stop L i j j' s s',
  fwd_step stop L i j s -> fwd_step stop L i j' s' -> j = j' /\ s = s'.
Proof. exact fwd_step_unique. Qed.
Print Assumptions C07_forward_scan_determined.

Theorem C07_backward_scan_determined : forall stop i j j' s s',
  bwd_step stop i j s -> bwd_step stop i j' s' -> j = j' /\ s = s'.
Proof. exact bwd_step_unique. Qed.
Print Assumptions C07_backward_scan_determined.

Theorem C07_word_motions_determined : forall b k n i j j', word_chain b k n i j -> word_chain b k n i j' -> j = j'.
Proof. exact word_chain_unique. Qed.
Print Assumptions C07_word_motions_determined.

(* end to end for w W e E b B with counts: from any valid cursor of a non-empty well-formed buffer the
   command succeeds, and the new cursor is the chain's landing position, moved off the terminator of
   a non-empty line by ren_noeol; the remembered column is recomputed from it *)
Theorem C07_word_motion_cursor : forall b rows a1 a2 k s,
  buf_wf b -> b <> [] -> cursor_ok b (v_row s) (v_off s) -> word_key k = true ->
  exists r' o' l' s', do_motion b rows a1 a2 k s = Some s' /\ getl b r' = Some l' /\ 0 <= o' < slen l' /\
    word_chain b k (Z.to_nat (m_cnt a1 a2)) (idx b (v_row s) (v_off s)) (idx b r' o') /\
    v_row s' = r' /\ v_off s' = ren_noeol (Some l') o' /\ v_col s' = ren_pos l' (v_off s').
Proof. exact word_motion_cursor. Qed.
Print Assumptions C07_word_motion_cursor.

(* what the blank-line stops are, over a well-formed buffer without overlong-encoded line feeds
   (nl_canon: a character with code point 10 is the blank byte 0x0A): for w W exactly the terminator
   of a row of blanks (possibly empty) that begins after the cursor; for e E the same with only
   blanks between the cursor and that row; for b B exactly the first character of a row of blanks
   that ends before the cursor, with only blanks between it and the cursor *)
Theorem C07_w_blank_stop_reading : forall b i r o l, buf_wf b -> nl_canon b -> 0 <= i -> getl b r = Some l -> 0 <= o < slen l ->
  (w_blank_stop (fchr b) i (idx b r o) <-> o = slen l - 1 /\ blank_row b r /\ i < idx b r 0).
Proof. exact w_blank_stop_reading. Qed.
Print Assumptions C07_w_blank_stop_reading.

Theorem C07_e_blank_stop_reading : forall b i r o l, buf_wf b -> nl_canon b -> 0 <= i -> getl b r = Some l -> 0 <= o < slen l ->
  (e_blank_stop (fchr b) i (idx b r o) <->
   o = slen l - 1 /\ blank_row b r /\ i < idx b r 0 /\ forall k, i < k < idx b r 0 -> uc_isspace (fchr b k) = true).
Proof. exact e_blank_stop_reading. Qed.
Print Assumptions C07_e_blank_stop_reading.

Theorem C07_b_blank_stop_reading : forall b i r o l, buf_wf b -> nl_canon b -> i <= nchars b -> getl b r = Some l -> 0 <= o < slen l ->
  (b_blank_stop (fchr b) i (idx b r o) <->
   o = 0 /\ 1 <= r /\ blank_row b r /\ idx b r (slen l - 1) < i /\
   forall k, idx b r 0 <= k < i -> uc_isspace (fchr b k) = true).
Proof. exact b_blank_stop_reading. Qed.
Print Assumptions C07_b_blank_stop_reading.

(* count 1 is exactly one scan (so C07_word_motions_count with count 1 is "the first stop") *)
Theorem C07_count_one : forall step i j, chain step 1 i j <-> exists s, step i j s.
Proof. exact chain_one. Qed.
Print Assumptions C07_count_one.

(* on the column model of a left-to-right line display order is offset order: the neighbouring
   character of C07_h_l_step is the character displayed immediately left / right *)
Theorem C07_columns_increasing : forall l i j, 0 <= i < j -> j < slen l -> ren_pos l i < ren_pos l j.
Proof. exact columns_increasing. Qed.
Print Assumptions C07_columns_increasing.

(* N% (with a count) is the line motion to row (len-1)*N/100 and fails above 100 *)
Theorem C07_percent_line : forall b rows top cl cc pc cnt row off,
  vi_motion b rows top cl cc pc true cnt Kpct row off =
  if 100 <? cnt then MvFail cl cc
  else MvOk (Z.max 0 (Z.max 0 (blen b - 1) * cnt / 100)) (-1) cl cc pc.
Proof. exact percent_line. Qed.
Print Assumptions C07_percent_line.

(* ================================================================================================
   The model is the C text (appended; coq/TrMot.v, coq/TrMotSpec.v).  The functions of /repo/mot.c that every
   motion is built from -- lbuf_indents, lbuf_lnnext, lbuf_eol, lbuf_next, lbuf_chr, lbuf_wordlast, lbuf_wordbeg,
   lbuf_wordend -- and lbuf_get / lbuf_len of lbuf.c are translated by tools/c2clite.py (tools/c2clite.d/85_mot.list)
   into the deep embedding CLite.v and RUN on a memory that holds the buffer as lbuf.c keeps it: block lb = the
   struct lbuf (cell 64 = ln, cell 66 = ln_n), block bln = the array lb->ln of pointer cells, whose first ln_n
   cells point to pairwise distinct blocks lbs, each one line as a NUL-terminated C string (TrMot.lbuf_at; lbuf_rep
   hides the block numbers).  The out-parameters int *row, int *off point to two one-cell blocks br, bo outside the
   buffer.  For ALL such memories, all lines, all rows / offsets (any int that cannot overflow in "+ dir"), the
   translated function returns the status of the model (MotDefs.v, on the character view `map chop lines`) and
   leaves memory with exactly the two int cells rewritten to the model's new position (TrMot.set_pos); every load and
   store stays inside its block, no signed overflow, no fuel exhausted.  The word scanners are stated for every
   model fuel that returns a result (C07_fuel_suffices: mfuel b does) and C fuel above it and above the longest line;
   C07_tr_w_W / e_E / b_B_first_stop compose them with the characterisations above: the C TEXT lands on the first stop.
   One hypothesis is about the bytes: TrMot.nl_ok -- uc_code(lbuf_chr(..)) == '\n' in lbuf_wordbeg / lbuf_wordend
   decodes with the bytes BEHIND a truncated multi-byte character, the model decodes the character cut by uc_next
   alone; they agree (and uc_code stays inside the line's block) on every line without such a sequence, e.g. every
   line without UTF-8 lead bytes (C07_tr_nl_ok_nolead) and every line that is valid UTF-8 (C07_tr_nl_ok_valid); C07_tr_nl_needed shows a line ("a\xC0\n") on which the C text
   and the model differ. *)
From Coq Require Import Lia.
From NV Require CLite CLiteProps GenCFuncs TrLbufBase TrUc TrMot TrMotSpec.
Section C07_translated.
Import CLite CLiteProps GenCFuncs TrLbufBase TrUc TrMot TrMotSpec.

(* the character view and the byte view of one line *)
Theorem C07_tr_chop_bridge : forall s off, nonul s ->
  uc_slen s = length (chop s) /\
  match uc_chr s off with
  | Some q => (q <= length s)%nat /\ hd_chr (skipn q s) = chr_at (chop s) off
  | None => chr_at (chop s) off = []
  end.
Proof. exact (fun s off H => conj (uc_slen_chop s H) (uc_chr_chop s off H)). Qed.
Print Assumptions C07_tr_chop_bridge.

Theorem C07_tr_lbuf_get : forall m lb bln lbs lines r d fuel, lbuf_at m lb bln lbs lines -> lines_small lines ->
  callf cprog fuel (S d) F_lbuf_get [VPtr lb 0; VInt r] m = Ok (line_ptr lbs lines r, m) /\
  getl (map chop lines) r = option_map (fun i => chop (nthl lines i)) (rowidx lines r).
Proof. exact (fun m lb bln lbs lines r d fuel R H => conj (tr_lbuf_get m lb bln lbs lines r d fuel R H) (getl_rowidx lines r)). Qed.
Print Assumptions C07_tr_lbuf_get.

Theorem C07_tr_lbuf_len : forall m lb bln lbs lines d fuel, lbuf_at m lb bln lbs lines -> lines_small lines ->
  callf cprog fuel (S d) F_lbuf_len [VPtr lb 0] m = Ok (VInt (blen (map chop lines)), m).
Proof. exact tr_lbuf_len. Qed.
Print Assumptions C07_tr_lbuf_len.

Theorem C07_tr_lbuf_indents : forall m lb bln lbs lines r d fuel, lbuf_at m lb bln lbs lines -> lines_small lines ->
  (maxlen lines < fuel)%nat ->
  callf cprog fuel (S (S (S d))) F_lbuf_indents [VPtr lb 0; VInt r] m = Ok (VInt (lbuf_indents (map chop lines) r), m).
Proof. exact tr_lbuf_indents. Qed.
Print Assumptions C07_tr_lbuf_indents.

Theorem C07_tr_lbuf_eol : forall m lb bln lbs lines r d fuel, lbuf_at m lb bln lbs lines -> lines_small lines ->
  (maxlen lines < fuel)%nat ->
  callf cprog fuel (S (S (S d))) F_lbuf_eol [VPtr lb 0; VInt r] m = Ok (VInt (lbuf_eol (map chop lines) r), m).
Proof. exact tr_lbuf_eol. Qed.
Print Assumptions C07_tr_lbuf_eol.

Theorem C07_tr_lbuf_lnnext : forall m lb bln lbs lines br bo r o dir d fuel, lbuf_at m lb bln lbs lines -> lines_small lines ->
  (maxlen lines < fuel)%nat -> cell_at m br r -> cell_at m bo o -> i32 r -> i32 o -> i32 (o + dir) ->
  callf cprog fuel (S (S (S d))) F_lbuf_lnnext [VPtr lb 0; VInt dir; VPtr br 0; VPtr bo 0] m
  = Ok (match lbuf_lnnext (map chop lines) dir r o with
        | Some o' => (VInt 0, upd m bo [VInt o'])
        | None => (VInt 1, m)
        end).
Proof. exact tr_lbuf_lnnext. Qed.
Print Assumptions C07_tr_lbuf_lnnext.

Theorem C07_tr_lbuf_next : forall m lb bln lbs lines br bo r o dir d fuel, lbuf_at m lb bln lbs lines -> lines_small lines ->
  (maxlen lines < fuel)%nat -> cell_at m br r -> cell_at m bo o -> br <> bo ->
  ~ In br (lb :: bln :: lbs) -> ~ In bo (lb :: bln :: lbs) ->
  i32 r -> i32 o -> i32 dir -> i32 (o + dir) -> i32 (r + dir) ->
  callf cprog fuel (S (S (S (S d)))) F_lbuf_next [VPtr lb 0; VInt dir; VPtr br 0; VPtr bo 0] m
  = let '(s, r', o') := lbuf_next (map chop lines) dir r o in Ok (st_val s, set_pos m br bo r' o').
Proof. exact tr_lbuf_next. Qed.
Print Assumptions C07_tr_lbuf_next.

(* lbuf_chr: the pointer returned, and what it points at: a C string in memory whose rest starts with the model's character *)
Theorem C07_tr_lbuf_chr : forall m lb bln lbs lines r o d fuel, lbuf_at m lb bln lbs lines -> lines_small lines ->
  (maxlen lines < fuel)%nat -> str_at m G_lit__0 [] ->
  callf cprog fuel (S (S (S (S d)))) F_lbuf_chr [VPtr lb 0; VInt r; VInt o] m = Ok (chr_ptr lbs lines r o, m) /\
  exists cb cs q, chr_ptr lbs lines r o = VPtr cb (Z.of_nat q) /\ str_at m cb cs /\ nonul cs /\ (q <= length cs)%nat /\
                  hd_chr (skipn q cs) = lchr (map chop lines) r o /\
                  (cs = [] \/ exists i, (i < length lines)%nat /\ cs = nthl lines i).
Proof.
  exact (fun m lb bln lbs lines r o d fuel R Hs Hf Hl =>
           conj (tr_lbuf_chr m lb bln lbs lines r o d fuel R Hs Hf) (chr_ptr_view m lb bln lbs lines r o R Hl)).
Qed.
Print Assumptions C07_tr_lbuf_chr.

Theorem C07_tr_lbuf_wordlast : forall m lb bln lbs lines br bo kind dir r o mf res d fuel,
  mot_mem m lb bln lbs lines br bo -> lines_small lines -> cell_at m br r -> cell_at m bo o -> pos_ok r o -> dir_ok dir ->
  lbuf_wordlast mf (map chop lines) kind dir r o = Some res -> (mf < fuel)%nat -> (maxlen lines < fuel)%nat ->
  callf cprog fuel (S (S (S (S (S d))))) F_lbuf_wordlast [VPtr lb 0; VInt (Z.of_N kind); VInt dir; VPtr br 0; VPtr bo 0] m
  = let '(s, r', o') := res in Ok (st_val1 s, set_pos m br bo r' o').
Proof. exact tr_lbuf_wordlast. Qed.
Print Assumptions C07_tr_lbuf_wordlast.

Theorem C07_tr_lbuf_wordbeg : forall m lb bln lbs lines br bo bigz dir r o mf res d fuel,
  mot_mem m lb bln lbs lines br bo -> lines_small lines -> lines_nl_ok lines ->
  cell_at m br r -> cell_at m bo o -> pos_ok r o -> dir_ok dir ->
  lbuf_wordbeg mf (map chop lines) (negb (bigz =? 0)) dir r o = Some res -> (mf < fuel)%nat -> (maxlen lines < fuel)%nat ->
  callf cprog fuel (S (S (S (S (S (S d)))))) F_lbuf_wordbeg [VPtr lb 0; VInt bigz; VInt dir; VPtr br 0; VPtr bo 0] m
  = let '(s, r', o') := res in Ok (st_val1 s, set_pos m br bo r' o').
Proof. exact tr_lbuf_wordbeg. Qed.
Print Assumptions C07_tr_lbuf_wordbeg.

Theorem C07_tr_lbuf_wordend : forall m lb bln lbs lines br bo bigz dir r o mf res d fuel,
  mot_mem m lb bln lbs lines br bo -> lines_small lines -> lines_nl_ok lines ->
  cell_at m br r -> cell_at m bo o -> pos_ok r o -> dir_ok dir ->
  lbuf_wordend mf (map chop lines) (negb (bigz =? 0)) dir r o = Some res -> (mf < fuel)%nat -> (maxlen lines < fuel)%nat ->
  callf cprog fuel (S (S (S (S (S (S d)))))) F_lbuf_wordend [VPtr lb 0; VInt bigz; VInt dir; VPtr br 0; VPtr bo 0] m
  = let '(s, r', o') := res in Ok (st_val1 s, set_pos m br bo r' o').
Proof. exact tr_lbuf_wordend. Qed.
Print Assumptions C07_tr_lbuf_wordend.

(* the memory after a scan: the two cells hold the new position, every other block is untouched, the buffer is still there *)
Theorem C07_tr_set_pos : forall m lb bln lbs lines br bo r o, mot_mem m lb bln lbs lines br bo ->
  mot_mem (set_pos m br bo r o) lb bln lbs lines br bo /\ cell_at (set_pos m br bo r o) br r /\ cell_at (set_pos m br bo r o) bo o /\
  (forall k, k <> br -> k <> bo -> nth_error (set_pos m br bo r o) k = nth_error m k).
Proof.
  exact (fun m lb bln lbs lines br bo r o MM =>
    match mot_mem_set_pos m lb bln lbs lines br bo r o MM with
    | conj A (conj B C) => conj A (conj B (conj C (fun k H1 H2 =>
        set_pos_other m br bo r o k (mm_lr _ _ _ _ _ _ _ MM) (mm_lo _ _ _ _ _ _ _ MM) H1 H2)))
    end).
Qed.
Print Assumptions C07_tr_set_pos.

(* the characterisations of w W e E b B, about the C text *)
Theorem C07_tr_w_W_first_stop : forall m lb bln lbs lines br bo bigz r o d fuel,
  mot_mem m lb bln lbs lines br bo -> lines_small lines -> lines_nl_ok lines -> cell_at m br r -> cell_at m bo o ->
  buf_wf (map chop lines) -> vpos (map chop lines) r o -> (mfuel (map chop lines) < fuel)%nat -> (maxlen lines < fuel)%nat ->
  exists s r' o',
    callf cprog fuel (S (S (S (S (S (S d)))))) F_lbuf_wordbeg [VPtr lb 0; VInt bigz; VInt 1; VPtr br 0; VPtr bo 0] m
    = Ok (st_val1 s, set_pos m br bo r' o') /\ vpos (map chop lines) r' o' /\
    fwd_step (w_stop (fchr (map chop lines)) (negb (bigz =? 0))) (nchars (map chop lines))
             (idx (map chop lines) r o) (idx (map chop lines) r' o') s.
Proof. exact ctext_w_W_first_stop. Qed.
Print Assumptions C07_tr_w_W_first_stop.

Theorem C07_tr_e_E_first_stop : forall m lb bln lbs lines br bo bigz r o d fuel,
  mot_mem m lb bln lbs lines br bo -> lines_small lines -> lines_nl_ok lines -> cell_at m br r -> cell_at m bo o ->
  buf_wf (map chop lines) -> vpos (map chop lines) r o -> (mfuel (map chop lines) < fuel)%nat -> (maxlen lines < fuel)%nat ->
  exists s r' o',
    callf cprog fuel (S (S (S (S (S (S d)))))) F_lbuf_wordend [VPtr lb 0; VInt bigz; VInt 1; VPtr br 0; VPtr bo 0] m
    = Ok (st_val1 s, set_pos m br bo r' o') /\ vpos (map chop lines) r' o' /\
    fwd_step (e_stop (fchr (map chop lines)) (nchars (map chop lines)) (negb (bigz =? 0))) (nchars (map chop lines))
             (idx (map chop lines) r o) (idx (map chop lines) r' o') s.
Proof. exact ctext_e_E_first_stop. Qed.
Print Assumptions C07_tr_e_E_first_stop.

Theorem C07_tr_b_B_first_stop : forall m lb bln lbs lines br bo bigz r o d fuel,
  mot_mem m lb bln lbs lines br bo -> lines_small lines -> lines_nl_ok lines -> cell_at m br r -> cell_at m bo o ->
  buf_wf (map chop lines) -> vpos (map chop lines) r o -> (mfuel (map chop lines) < fuel)%nat -> (maxlen lines < fuel)%nat ->
  exists s r' o',
    callf cprog fuel (S (S (S (S (S (S d)))))) F_lbuf_wordend [VPtr lb 0; VInt bigz; VInt (-1); VPtr br 0; VPtr bo 0] m
    = Ok (st_val1 s, set_pos m br bo r' o') /\ vpos (map chop lines) r' o' /\
    bwd_step (b_stop (fchr (map chop lines)) (negb (bigz =? 0))) (idx (map chop lines) r o) (idx (map chop lines) r' o') s.
Proof. exact ctext_b_B_first_stop. Qed.
Print Assumptions C07_tr_b_B_first_stop.

Theorem C07_tr_nl_ok_nolead : forall s, no_lead s -> nl_ok s.
Proof. exact nl_ok_nolead. Qed.
Print Assumptions C07_tr_nl_ok_nolead.

(* ... and for every line that is valid UTF-8: the encoding (RFC 3629, UcSpec.chars) of any list of scalar values *)
Theorem C07_tr_nl_ok_valid : forall s, NV.UcSpec.valid s -> nl_ok s.
Proof. exact nl_ok_valid. Qed.
Print Assumptions C07_tr_nl_ok_valid.

(* not vacuous, and the translated functions RUN: the two lines "ab cd\n" and " ef\n" behind the program's globals
   (struct lbuf in block G, the line array in G+1, the lines in G+2 and G+3, *row in G+4, *off in G+5).  The memory
   satisfies every hypothesis of C07_tr_lbuf_wordbeg; the translated lbuf_wordbeg, run by the interpreter, moves
   (0,0) -> (0,3) -> (1,1) and reports failure at the last word, landing on the last character (1,3), as the model does;
   lbuf_wordend backwards from (1,1) lands on (0,3); lbuf_indents of line 1 is 1, lbuf_eol of line 0 is 5. *)
Definition ex_G : nat := Eval vm_compute in length cglobals.
Definition ex_lines : list bytes := [[97; 98; 32; 99; 100; 10]; [32; 101; 102; 10]]%N.
Definition ex_struct : block := repeat (VInt 0) 64 ++ [VPtr (ex_G + 1) 0; VInt 0; VInt 2; VInt 4] ++ repeat (VInt 0) 7.
Definition ex_mem (r o : Z) : mem :=
  cglobals ++ [ex_struct; [VPtr (ex_G + 2) 0; VPtr (ex_G + 3) 0; VInt 0; VInt 0];
               cstr_block (zb (nthl ex_lines 0)); cstr_block (zb (nthl ex_lines 1)); [VInt r]; [VInt o]].
Definition ex_call (f : nat) (args : list val) (r o : Z) : res (val * mem) :=
  callf cprog 100 10 f ([VPtr ex_G 0] ++ args ++ [VPtr (ex_G + 4) 0; VPtr (ex_G + 5) 0]) (ex_mem r o).

Example C07_tr_nonvacuous :
  (forall r o, mot_mem (ex_mem r o) ex_G (ex_G + 1) [ex_G + 2; ex_G + 3]%nat ex_lines (ex_G + 4) (ex_G + 5) /\
               cell_at (ex_mem r o) (ex_G + 4) r /\ cell_at (ex_mem r o) (ex_G + 5) o) /\
  lines_small ex_lines /\ lines_nl_ok ex_lines /\ (maxlen ex_lines < 100)%nat /\
  lbuf_wordbeg 20 (map chop ex_lines) false 1 0 0 = Some (false, 0, 3) /\
  ex_call F_lbuf_wordbeg [VInt 0; VInt 1] 0 0 = Ok (VInt 0, ex_mem 0 3) /\
  ex_call F_lbuf_wordbeg [VInt 0; VInt 1] 0 3 = Ok (VInt 0, ex_mem 1 1) /\
  ex_call F_lbuf_wordbeg [VInt 0; VInt 1] 1 1 = Ok (VInt 1, ex_mem 1 3) /\
  lbuf_wordbeg 20 (map chop ex_lines) false 1 1 1 = Some (true, 1, 3) /\
  ex_call F_lbuf_wordend [VInt 0; VInt (-1)] 1 1 = Ok (VInt 0, ex_mem 0 3) /\
  ex_call F_lbuf_wordend [VInt 1; VInt 1] 0 0 = Ok (VInt 0, ex_mem 0 1) /\
  callf cprog 100 10 F_lbuf_indents [VPtr ex_G 0; VInt 1] (ex_mem 0 0) = Ok (VInt 1, ex_mem 0 0) /\
  callf cprog 100 10 F_lbuf_eol [VPtr ex_G 0; VInt 0] (ex_mem 0 0) = Ok (VInt 5, ex_mem 0 0) /\
  ex_call F_lbuf_next [VInt 1] 0 5 = Ok (VInt 0, ex_mem 1 0) /\
  ex_call F_lbuf_next [VInt 1] 1 3 = Ok (VInt (-1), ex_mem 1 3).
Proof.
  split.
  { intros r o. split; [|split; reflexivity]. constructor; [ |reflexivity|apply Nat.eqb_neq; vm_compute; reflexivity| | |apply Nat.ltb_lt; vm_compute; reflexivity|apply Nat.ltb_lt; vm_compute; reflexivity].
    - constructor.
      + exists ex_struct. repeat split; reflexivity.
      + exists [VPtr (ex_G + 2) 0; VPtr (ex_G + 3) 0; VInt 0; VInt 0]. split; [reflexivity|]. split; [cbn; lia|].
        intros [|[|i]] Hi; try reflexivity. cbn in Hi. lia.
      + reflexivity.
      + intros [|[|i]] Hi; try reflexivity. cbn in Hi. lia.
      + repeat (apply NoDup_cons; [cbn [In]; intros H; repeat (destruct H as [H|H]; [lia|]); exact H|]). apply NoDup_nil.
      + repeat (apply Forall_cons; [repeat (apply Forall_cons; [cbv; split; reflexivity|]); apply Forall_nil|]). apply Forall_nil.
    - cbn [In]; intros H; repeat (destruct H as [H|H]; [unfold ex_G, G_lit__0 in H; lia|]); exact H.
    - cbn [In]; intros H; repeat (destruct H as [H|H]; [unfold ex_G, G_lit__0 in H; lia|]); exact H. }
  split; [split; [cbn; lia|repeat constructor; cbn; lia]|].
  split; [unfold lines_nl_ok; repeat (apply Forall_cons; [apply nl_ok_nolead; repeat (apply Forall_cons; [reflexivity|]); apply Forall_nil|]); apply Forall_nil|].
  split; [cbn; lia|].
  repeat match goal with |- _ /\ _ => split end; vm_compute; reflexivity.
Qed.

(* nl_ok is needed: on the line "a\xC0\n" (a truncated two-byte character before the line end) followed by "b\n",
   uc_code at the \xC0 decodes C0 0A to 10, so the C text of lbuf_wordbeg counts a line break there and stops on the
   terminator of line 0, while the model (which decodes the character cut by uc_next, C0 alone) moves on to "b" *)
Example C07_tr_nl_needed :
  let lines := [[97; 192; 10]; [98; 10]]%N in
  let m0 := cglobals ++ [ex_struct; [VPtr (ex_G + 2) 0; VPtr (ex_G + 3) 0; VInt 0; VInt 0];
                         cstr_block (zb (nthl lines 0)); cstr_block (zb (nthl lines 1)); [VInt 0]; [VInt 0]] in
  ~ nl_ok (nthl lines 0) /\
  lbuf_wordbeg 20 (map chop lines) false 1 0 0 = Some (false, 1, 0) /\
  callf cprog 100 10 F_lbuf_wordbeg [VPtr ex_G 0; VInt 0; VInt 1; VPtr (ex_G + 4) 0; VPtr (ex_G + 5) 0] m0
  = Ok (VInt 0, set_pos m0 (ex_G + 4) (ex_G + 5) 0 2).
Proof.
  cbv zeta. split.
  { intro H. destruct (H 1%nat ltac:(cbn; lia)) as [_ E]. vm_compute in E. discriminate. }
  vm_compute. split; reflexivity.
Qed.
End C07_translated.

(* ====================================================================================================
   Columns of lines of every length, and the remembered column after a motion that succeeds without
   moving the cursor (MotColProps.v; added after the seeded changes C07g / C07h).

   ren.c diverts a line with multi-byte characters to ren_position_reorder() only when it has at most
   xlim = 256 characters (terminator included); every longer line is laid out by the plain loop of
   ren_position(), whatever it contains.  MotDefs.ren_position IS that loop and has no length limit,
   so the column statements below (and C07_jk, C07_col0_caret_dollar_bar, C07_landing, which are
   stated with ren_pos / ren_off) speak about lines of every length.
   ==================================================================================================== *)
From NV Require Import MotColProps.

(* the column of a character = the sum of the cell widths of the characters before it *)
Theorem C07_column_first : forall l, 0 < slen l -> ren_pos l 0 = 0.
Proof. exact ren_pos_zero. Qed.
Print Assumptions C07_column_first.

Theorem C07_column_next : forall l i, 0 <= i -> i + 1 < slen l ->
  ren_pos l (i + 1) = ren_pos l i + ren_cwid (chr_at l i) (ren_pos l i).
Proof. exact ren_pos_succ. Qed.
Print Assumptions C07_column_next.

(* a tab ends at the next multiple of 8; the width of any other character does not depend on the column *)
Theorem C07_tab_width : forall c pos, b0 c = 9%N -> 0 <= pos ->
  ren_cwid c pos = 8 - pos mod 8 /\ (pos + ren_cwid c pos) mod 8 = 0.
Proof. exact cwid_tab. Qed.
Print Assumptions C07_tab_width.

Theorem C07_width_column_independent : forall c p q, b0 c <> 9%N -> ren_cwid c p = ren_cwid c q.
Proof. exact cwid_nontab. Qed.
Print Assumptions C07_width_column_independent.

(* the offset j, k and N| go to (ren_off, before ren_noeol): the character whose cells cover the
   wanted column p -- its column is <= p and the next character starts beyond p; when p is at or
   beyond the end of the line it is the last character of the list (the terminator, which ren_noeol
   then replaces by the character before it) *)
Theorem C07_column_to_offset : forall l p, 0 <= p -> 0 < slen l ->
  let o := ren_off l p in
  0 <= o < slen l /\ ren_pos l o <= p /\ (o + 1 < slen l -> p < ren_pos l (o + 1)).
Proof. exact ren_off_covering. Qed.
Print Assumptions C07_column_to_offset.

(* ... and that description determines the offset *)
Theorem C07_column_to_offset_determined : forall l p o, 0 <= p -> 0 <= o < slen l ->
  ren_pos l o <= p -> (o + 1 < slen l -> p < ren_pos l (o + 1)) -> ren_off l p = o.
Proof. exact ren_off_unique. Qed.
Print Assumptions C07_column_to_offset_determined.

(* the remembered column: a successful motion other than j k gives the same state whatever column
   was remembered before it (with_col s c = s with the remembered column replaced by c) ... *)
Theorem C07_sticky_column_forgotten : forall b rows a1 a2 k s c r o cl cc pc, is_jk k = false ->
  vi_motion b rows (v_top s) (v_cl s) (v_cc s) (v_pcol s) (m_has a1 a2) (m_cnt a1 a2) k (v_row s)
            (ren_noeol (getl b (v_row s)) (v_off s)) = MvOk r o cl cc pc ->
  do_motion b rows a1 a2 k (with_col s c) = do_motion b rows a1 a2 k s.
Proof. exact do_motion_col_reset. Qed.
Print Assumptions C07_sticky_column_forgotten.

(* ... while a failing motion keeps it *)
Theorem C07_sticky_column_kept_on_failure : forall b rows a1 a2 k s c cl cc, buf_wf b -> cursor_ok b (v_row s) (v_off s) ->
  vi_motion b rows (v_top s) (v_cl s) (v_cc s) (v_pcol s) (m_has a1 a2) (m_cnt a1 a2) k (v_row s)
            (ren_noeol (getl b (v_row s)) (v_off s)) = MvFail cl cc ->
  exists s', do_motion b rows a1 a2 k (with_col s c) = Some s' /\ v_row s' = v_row s /\ v_off s' = v_off s /\ v_col s' = c.
Proof. exact do_motion_col_kept. Qed.
Print Assumptions C07_sticky_column_kept_on_failure.

(* the case the code could be tempted to skip: the motion (not j k |) succeeded and the cursor is where
   it was ($ on the last character, l h w e at an edge, 0 ^ at that offset, + - G _ onto the same line):
   the remembered column is now the column of the cursor, whatever it was *)
Theorem C07_unmoved_motion_resets_column : forall b rows a1 a2 k s r o cl cc pc l, buf_wf b -> 0 <= v_off s ->
  is_jk k = false -> is_bar k = false ->
  vi_motion b rows (v_top s) (v_cl s) (v_cc s) (v_pcol s) (m_has a1 a2) (m_cnt a1 a2) k (v_row s)
            (ren_noeol (getl b (v_row s)) (v_off s)) = MvOk r o cl cc pc ->
  getl b r = Some l ->
  exists s', do_motion b rows a1 a2 k s = Some s' /\
             (v_row s' = v_row s -> v_off s' = v_off s -> getl b (v_row s) = Some l /\ v_col s' = ren_pos l (v_off s)).
Proof. exact unmoved_motion_resets_col. Qed.
Print Assumptions C07_unmoved_motion_resets_column.

(* what the next j / k does: after ANY successful motion k other than j k |, a following j / k (any
   count) lands on the character covering the column of the cursor after k; the column remembered
   before k appears nowhere in the result *)
Theorem C07_jk_after_motion : forall b rows a1 a2 k a1' a2' k' s r o cl cc pc l, buf_wf b -> 0 <= v_off s ->
  is_jk k = false -> is_bar k = false -> is_jk k' = true ->
  vi_motion b rows (v_top s) (v_cl s) (v_cc s) (v_pcol s) (m_has a1 a2) (m_cnt a1 a2) k (v_row s)
            (ren_noeol (getl b (v_row s)) (v_off s)) = MvOk r o cl cc pc ->
  getl b r = Some l ->
  exists s1, do_motion b rows a1 a2 k s = Some s1 /\ v_row s1 = r /\ v_col s1 = ren_pos l (v_off s1) /\
    forall l', getl b (line_target b rows (v_top s1) (m_has a1' a2') (m_cnt a1' a2') k' r) = Some l' ->
    exists s2, do_motion b rows a1' a2' k' s1 = Some s2 /\
      v_row s2 = line_target b rows (v_top s1) (m_has a1' a2') (m_cnt a1' a2') k' r /\
      v_off s2 = ren_noeol (Some l') (ren_off l' (ren_pos l (v_off s1))) /\
      v_col s2 = ren_pos l (v_off s1).
Proof. exact nonjk_then_jk. Qed.
Print Assumptions C07_jk_after_motion.

(* non-vacuity and the concrete histories, run by the kernel: (row, offset, remembered column) after
   $ j j / $ j / $ j $ / $ j $ j / $ j l j / $ j <space> j / $ j tc j / 9| j $ k on "abcdefghij" "abc" "ABCDEFGHIJ",
   and l l l j / l l l j 0 k / l l l j k on "abcdefghij" TAB "x" *)
Example C07_sticky_histories :
  lands sticky_witness [Mot 0 Kdollar; Mot 0 Kj; Mot 0 Kj] = Some (2, 9, 9) /\
  lands sticky_witness [Mot 0 Kdollar; Mot 0 Kj] = Some (1, 2, 9) /\
  lands sticky_witness [Mot 0 Kdollar; Mot 0 Kj; Mot 0 Kdollar] = Some (1, 2, 2) /\
  lands sticky_witness [Mot 0 Kdollar; Mot 0 Kj; Mot 0 Kdollar; Mot 0 Kj] = Some (2, 2, 2) /\
  lands sticky_witness [Mot 0 Kdollar; Mot 0 Kj; Mot 0 Kl; Mot 0 Kj] = Some (2, 2, 2) /\
  lands sticky_witness [Mot 0 Kdollar; Mot 0 Kj; Mot 0 Kspace; Mot 0 Kj] = Some (2, 2, 2) /\
  lands sticky_witness [Mot 0 Kdollar; Mot 0 Kj; Mot 0 (Kt [99%N]); Mot 0 Kj] = Some (2, 9, 9) /\
  lands sticky_witness [Mot 9 Kbar; Mot 0 Kj; Mot 0 Kdollar; Mot 0 Kk] = Some (0, 2, 2) /\
  lands sticky_tab_witness [Mot 0 Kl; Mot 0 Kl; Mot 0 Kl; Mot 0 Kj] = Some (1, 0, 3) /\
  lands sticky_tab_witness [Mot 0 Kl; Mot 0 Kl; Mot 0 Kl; Mot 0 Kj; Mot 0 K0; Mot 0 Kk] = Some (0, 0, 0) /\
  lands sticky_tab_witness [Mot 0 Kl; Mot 0 Kl; Mot 0 Kl; Mot 0 Kj; Mot 0 Kk] = Some (0, 3, 3).
Proof. exact sticky_examples. Qed.

(* a line of 304 characters (beyond the line limit): "ab", U+6F22 (two columns), 300 "c"; and
   U+00E9, TAB, "X", 300 "c": 10| / j $ k / $ / 9| / 5| land on the character covering the column *)
Example C07_long_line_columns :
  (match getl long_witness 0 with Some l => slen l = 304 | None => False end) /\
  lands long_witness [Mot 10 Kbar] = Some (0, 8, 9) /\
  lands long_witness [Mot 0 Kj; Mot 0 Kdollar; Mot 0 Kk] = Some (0, 8, 9) /\
  lands long_witness [Mot 0 Kdollar] = Some (0, 302, 303) /\
  lands long_tab_witness [Mot 9 Kbar] = Some (0, 2, 8) /\
  lands long_tab_witness [Mot 5 Kbar] = Some (0, 1, 4).
Proof. exact long_examples. Qed.

Example C07_column_witnesses_wf : buf_wf long_witness /\ buf_wf sticky_witness /\ buf_wf sticky_tab_witness.
Proof. exact long_witness_wf. Qed.

(* ---- the translation tie, continued (coq/TrMot.v): lbuf_paragraphbeg ({ }) and uc_nextdir (the stepping function of f F t T) *)
Section C07_translated_2.
Import CLite CLiteProps GenCFuncs TrLbufBase TrUc TrMot.

(* { and }: the two row loops (strcmp("\n", line)) and the clamp, for every buffer in memory, every int row, dir = 1 / -1;
   the literal "\n" of the program is block G_lit_0a_1; *row gets the model's row, *off gets 0 *)
Theorem C07_tr_lbuf_paragraphbeg : forall m lb bln lbs lines br bo r o dir d fuel,
  lbuf_at m lb bln lbs lines -> lines_small lines -> str_at m G_lit_0a_1 [10%N] -> cell_at m br r -> cell_at m bo o -> br <> bo ->
  ~ In br (G_lit_0a_1 :: lb :: bln :: lbs) -> ~ In bo (G_lit_0a_1 :: lb :: bln :: lbs) -> i32 r -> dir_ok dir ->
  (length lines < fuel)%nat ->
  callf cprog fuel (S (S d)) F_lbuf_paragraphbeg [VPtr lb 0; VInt dir; VPtr br 0; VPtr bo 0] m
  = Ok (VInt 0, set_pos m br bo (fst (lbuf_paragraphbeg (map chop lines) dir r)) 0).
Proof. exact tr_lbuf_paragraphbeg. Qed.
Print Assumptions C07_tr_lbuf_paragraphbeg.

(* uc_nextdir(&s, beg, dir): s is a pointer cell (block bs) holding a pointer into the string block b *)
Theorem C07_tr_uc_nextdir : forall m b bs str ob p dir d fuel,
  str_at m b str -> bytes_lt256 str -> nth_error m bs = Some [VPtr b (Z.of_nat p)] -> bs <> b ->
  (ob <= p <= length str)%nat -> (length str < fuel)%nat ->
  callf cprog fuel (S (S (S d))) F_uc_nextdir [VPtr bs 0; VPtr b (Z.of_nat ob); VInt dir] m
  = let '(s, p') := nextdir_model str ob p dir in Ok (VInt (b2z s), upd m bs [VPtr b (Z.of_nat p')]).
Proof. exact tr_uc_nextdir. Qed.
Print Assumptions C07_tr_uc_nextdir.

(* they run: } from row 0 of "ab\n" "\n" "cd\n" lands on the blank row 1, { from row 2 too; uc_nextdir steps over "é" *)
Example C07_tr_paragraph_runs :
  let lines := [[97; 98; 10]; [10]; [99; 100; 10]]%N in
  let G := ex_G in
  let st : block := repeat (VInt 0) 64 ++ [VPtr (G + 1) 0; VInt 0; VInt 3; VInt 4] ++ repeat (VInt 0) 7 in
  let mem r := cglobals ++ [st; [VPtr (G + 2) 0; VPtr (G + 3) 0; VPtr (G + 4) 0; VInt 0];
                            cstr_block (zb (nthl lines 0)); cstr_block (zb (nthl lines 1)); cstr_block (zb (nthl lines 2)); [VInt r]; [VInt 7]] in
  let run dir r := callf cprog 100 10 F_lbuf_paragraphbeg [VPtr G 0; VInt dir; VPtr (G + 5) 0; VPtr (G + 6) 0] (mem r) in
  run 1 0 = Ok (VInt 0, set_pos (mem 0) (G + 5) (G + 6) 1 0) /\ lbuf_paragraphbeg (map chop lines) 1 0 = (1, 0) /\
  run (-1) 2 = Ok (VInt 0, set_pos (mem 2) (G + 5) (G + 6) 1 0) /\ lbuf_paragraphbeg (map chop lines) (-1) 2 = (1, 0) /\
  run 1 1 = Ok (VInt 0, set_pos (mem 1) (G + 5) (G + 6) 2 0) /\ lbuf_paragraphbeg (map chop lines) 1 1 = (2, 0) /\
  (let ms := [cstr_block [97; 195; 169; 98]; [VPtr 0 1]] in
   callf cprog 100 10 F_uc_nextdir [VPtr 1 0; VPtr 0 0; VInt 1] ms = Ok (VInt 0, [cstr_block [97; 195; 169; 98]; [VPtr 0 3]]) /\
   nextdir_model [97; 195; 169; 98]%N 0 1 1 = (false, 3%nat) /\
   callf cprog 100 10 F_uc_nextdir [VPtr 1 0; VPtr 0 0; VInt (-1)] [cstr_block [97; 195; 169; 98]; [VPtr 0 3]]
   = Ok (VInt 0, [cstr_block [97; 195; 169; 98]; [VPtr 0 1]])).
Proof. cbv zeta. repeat match goal with |- _ /\ _ => split end; vm_compute; reflexivity. Qed.
End C07_translated_2.

(* ---- the translation tie, continued (coq/TrViMot.v, tools/c2clite.d/89_vimot.list): lbuf_findchar (f F t T ; ,) of mot.c.
   Lines: valid UTF-8 (NV.UcSpec.valid), so that the byte pointers of the C text (uc_chr / uc_next / uc_prev / uc_off / uc_code) and the
   characters of the model (chop) are the same thing (TrViMot: chop_chars, next_at, prev_at, code_at).  The address-taken local
   `char *s` of the C function is a fresh one-cell block that stays behind at the end of memory (CLite never reclaims it): [[sv]]. *)
From NV Require TrViMot.
Section C07_translated_3.
Import CLite CLiteProps GenCFuncs TrLbufBase TrUc TrMot TrViMot.

(* for every buffer in memory, every row, every cursor on a character of its line, every command letter cmd, every count
   n <> 0 inside int (n < 0 = the reversed direction, as `,` passes it), every searched character cs (a C string in memory):
   lbuf_findchar returns 0 and stores the model's offset in *off, or returns 1 and stores nothing *)
Theorem C07_tr_lbuf_findchar : forall m lb bln lbs lines br bo bc cst (cmdN : N) n r o d fuel,
  lbuf_at m lb bln lbs lines -> lines_small lines -> lines_valid lines ->
  cell_at m br r -> cell_at m bo o -> i32 r -> i32 o ->
  str_at m bc cst -> bytes_lt256 cst -> (uc_len_b (nthb cst 0) - 1 <= length cst)%nat ->
  (Z.of_N cmdN <= 2147483647)%Z -> (-2147483647 <= n <= 2147483647)%Z -> n <> 0%Z ->
  (forall l, getl (map chop lines) r = Some l -> (0 <= o < slen l)%Z) ->
  (maxlen lines < fuel)%nat ->
  exists sv,
  callf cprog fuel (S (S (S (S d)))) F_lbuf_findchar [VPtr lb 0; VPtr bc 0; VInt (Z.of_N cmdN); VInt n; VPtr br 0; VPtr bo 0] m
  = match lbuf_findchar (map chop lines) cst cmdN n r o with
    | Some o' => Ok (VInt 0, upd m bo [VInt o'] ++ [[sv]])
    | None => Ok (VInt 1, m ++ [[sv]])
    end.
Proof. exact tr_lbuf_findchar. Qed.
Print Assumptions C07_tr_lbuf_findchar.

(* it runs: the line "axbxc\195\169x\n" (the last x behind a two-byte character) in memory behind the program's globals, the
   searched character "x" in a block of its own; 2fx from offset 0 lands on offset 3, 3fx on offset 6, 4fx fails, 2tx stops
   one short (2), 2Fx from offset 6 lands on 1, ;-reversed (n = -1, cmd = f) from 3 lands on 1 -- the interpreter on the
   translated C text and the model agree, and the memory satisfies the hypotheses of the theorem *)
Example C07_tr_findchar_runs :
  let lines := [[97; 120; 98; 120; 99; 195; 169; 120; 10]]%N in
  let G := ex_G in
  let st : block := repeat (VInt 0) 64 ++ [VPtr (G + 1) 0; VInt 0; VInt 1; VInt 4] ++ repeat (VInt 0) 7 in
  let mem o := cglobals ++ [st; [VPtr (G + 2) 0; VInt 0; VInt 0; VInt 0]; cstr_block (zb (nthl lines 0)); [VInt 0]; [VInt o]; cstr_block [120]] in
  let run cmd n o := callf cprog 100 10 F_lbuf_findchar [VPtr G 0; VPtr (G + 5) 0; VInt cmd; VInt n; VPtr (G + 3) 0; VPtr (G + 4) 0] (mem o) in
  let ok o' p := Ok (VInt 0, mem o' ++ [[VPtr (G + 2) p]]) in
  (forall o, lbuf_at (mem o) G (G + 1) [G + 2]%nat lines /\ cell_at (mem o) (G + 3) 0 /\ cell_at (mem o) (G + 4) o /\ str_at (mem o) (G + 5) [120%N]) /\
  lines_small lines /\ lines_valid lines /\
  run 102 2 0 = ok 3 3 /\ lbuf_findchar (map chop lines) [120%N] 102 2 0 0 = Some 3 /\
  run 102 3 0 = ok 6 7 /\ lbuf_findchar (map chop lines) [120%N] 102 3 0 0 = Some 6 /\
  (exists p, run 102 4 0 = Ok (VInt 1, mem 0 ++ [[VPtr (G + 2) p]])) /\ lbuf_findchar (map chop lines) [120%N] 102 4 0 0 = None /\
  run 116 2 0 = ok 2 2 /\ lbuf_findchar (map chop lines) [120%N] 116 2 0 0 = Some 2 /\
  run 70 2 6 = ok 1 1 /\ lbuf_findchar (map chop lines) [120%N] 70 2 0 6 = Some 1 /\
  run 102 (-1) 3 = ok 1 1 /\ lbuf_findchar (map chop lines) [120%N] 102 (-1) 0 3 = Some 1.
Proof.
  cbv zeta. split.
  { intro o. split; [|repeat split; reflexivity]. constructor.
    - eexists. repeat split; reflexivity.
    - eexists. split; [reflexivity|]. split; [cbn; lia|]. intros [|i] Hi; [reflexivity|cbn in Hi; lia].
    - reflexivity.
    - intros [|i] Hi; [reflexivity|cbn in Hi; lia].
    - repeat (apply NoDup_cons; [cbn [In]; intros H; repeat (destruct H as [H|H]; [lia|]); exact H|]). apply NoDup_nil.
    - repeat (apply Forall_cons; [repeat (apply Forall_cons; [cbv; split; reflexivity|]); apply Forall_nil|]). apply Forall_nil. }
  split; [split; [cbn; lia|repeat constructor; cbn; lia]|].
  split. { repeat constructor. exists [97; 120; 98; 120; 99; 233; 120; 10]%N. split; [|reflexivity]. repeat constructor; cbv; intuition discriminate. }
  repeat match goal with |- _ /\ _ => split end; try (vm_compute; reflexivity). eexists. vm_compute. reflexivity.
Qed.

(* % (lbuf_pair): the scan for the first bracket at or behind the cursor (strchr in the literal "()[]{}", block G_pairs), then the
   nesting loop over lbuf_next in the direction the bracket's index gives, the depth counted in an int.  For every buffer in
   memory, every position inside int with off >= 0, every model fuel mf for which the model's loop ends: returns 0 and stores
   the model's matching position in *row, *off, or returns 1 and stores nothing.  The address-taken locals r and o of the C
   function stay behind as two fresh one-cell blocks. *)
Theorem C07_tr_lbuf_pair : forall m lb bln lbs lines br bo r o mf res d fuel,
  lbuf_at m lb bln lbs lines -> str_at m G_lit__0 [] -> str_at m G_pairs pairs_b -> lines_small lines ->
  cell_at m br r -> cell_at m bo o -> pos_ok r o -> (0 <= o)%Z ->
  lbuf_pair mf (map chop lines) r o = Some res -> (Z.of_nat mf <= 2147483645)%Z ->
  (mf < fuel)%nat -> (S (maxlen lines) < fuel)%nat ->
  exists r1 o1,
  callf cprog fuel (S (S (S (S (S d))))) F_lbuf_pair [VPtr lb 0; VPtr br 0; VPtr bo 0] m
  = match res with
    | Some (r', o') => Ok (VInt 0, set_pos m br bo r' o' ++ [[VInt r1]; [VInt o1]])
    | None => Ok (VInt 1, m ++ [[VInt r1]; [VInt o1]])
    end.
Proof. exact tr_lbuf_pair. Qed.
Print Assumptions C07_tr_lbuf_pair.

(* it runs: "a(b[c]\n" "d)e}\n": % from (0,0) finds the "(" at offset 1 and lands on its ")" at (1,1), across the line break and over
   the nested "[c]"; from (1,1) it comes back to (0,1); from (0,3) "[" -> (0,5); from (1,3) the "}" has no partner: failure, nothing
   stored; from (1,2) "e" the scan runs to the "}" (same failure) *)
Example C07_tr_pair_runs :
  let lines := [[97; 40; 98; 91; 99; 93; 10]; [100; 41; 101; 125; 10]]%N in
  let G := ex_G in
  let st : block := repeat (VInt 0) 64 ++ [VPtr (G + 1) 0; VInt 0; VInt 2; VInt 4] ++ repeat (VInt 0) 7 in
  let mem r o := cglobals ++ [st; [VPtr (G + 2) 0; VPtr (G + 3) 0; VInt 0; VInt 0];
                              cstr_block (zb (nthl lines 0)); cstr_block (zb (nthl lines 1)); [VInt r]; [VInt o]] in
  let run r o := callf cprog 100 10 F_lbuf_pair [VPtr G 0; VPtr (G + 4) 0; VPtr (G + 5) 0] (mem r o) in
  (forall r o, lbuf_at (mem r o) G (G + 1) [G + 2; G + 3]%nat lines /\ cell_at (mem r o) (G + 4) r /\ cell_at (mem r o) (G + 5) o /\
               str_at (mem r o) G_lit__0 [] /\ str_at (mem r o) G_pairs pairs_b) /\
  lines_small lines /\
  run 0 0 = Ok (VInt 0, mem 1 1 ++ [[VInt 1]; [VInt 1]]) /\ lbuf_pair 30 (map chop lines) 0 0 = Some (Some (1, 1)) /\
  run 1 1 = Ok (VInt 0, mem 0 1 ++ [[VInt 0]; [VInt 1]]) /\ lbuf_pair 30 (map chop lines) 1 1 = Some (Some (0, 1)) /\
  run 0 3 = Ok (VInt 0, mem 0 5 ++ [[VInt 0]; [VInt 5]]) /\ lbuf_pair 30 (map chop lines) 0 3 = Some (Some (0, 5)) /\
  (exists r1 o1, run 1 3 = Ok (VInt 1, mem 1 3 ++ [[VInt r1]; [VInt o1]])) /\ lbuf_pair 30 (map chop lines) 1 3 = Some None /\
  (exists r1 o1, run 1 2 = Ok (VInt 1, mem 1 2 ++ [[VInt r1]; [VInt o1]])) /\ lbuf_pair 30 (map chop lines) 1 2 = Some None.
Proof.
  cbv zeta. split.
  { intros r o. split; [|repeat split; reflexivity]. constructor.
    - eexists. repeat split; reflexivity.
    - eexists. split; [reflexivity|]. split; [cbn; lia|]. intros [|[|i]] Hi; try reflexivity. cbn in Hi. lia.
    - reflexivity.
    - intros [|[|i]] Hi; try reflexivity. cbn in Hi. lia.
    - repeat (apply NoDup_cons; [cbn [In]; intros H; repeat (destruct H as [H|H]; [lia|]); exact H|]). apply NoDup_nil.
    - repeat (apply Forall_cons; [repeat (apply Forall_cons; [cbv; split; reflexivity|]); apply Forall_nil|]). apply Forall_nil. }
  split; [split; [cbn; lia|repeat constructor; cbn; lia]|].
  repeat match goal with |- _ /\ _ => split end; try (vm_compute; reflexivity); eexists; eexists; vm_compute; reflexivity.
Qed.
End C07_translated_3.

(* ---- the translation tie, continued (coq/TrViCol.v, coq/TrViMot.v): the column / offset helpers of vi.c -- vi_col2off, vi_off2col,
   vi_nextcol (the machinery of | j k h l) and vi_nextoff (space, backspace).  They call lbuf_get and ren_off / ren_pos / ren_next of
   ren.c; TrRenPos2.v (property C17) proves those equal to the byte-level model RenDefs.v on every line that takes the plain loop of
   ren_position.  TrViCol.v part A proves that on a valid UTF-8 line that is not reordered the character-level column functions of
   MotDefs.v (this property's model) ARE RenDefs' (C07_tr_columns_bridge), so the statements below are about MotDefs.
   col_mem: the read-only tables of ren.c / uc.c, the static `bits` of ren_placeholder and the options xlim / xorder are in memory;
   col_lines: every line valid UTF-8, not reordered (RenDefs.use_reorder = false), at most 2^28 bytes.  The memory afterwards is
   some M with ren_frame m M: blocks appended (ren.c's arrays, freed, and address-taken locals), the static bits set, every other
   block of m unchanged. *)
From NV Require RenDefs TrRenPos TrRenPos2 TrViCol.
Section C07_translated_4.
Import CLite CLiteProps GenCFuncs TrLbufBase TrUc TrMot TrViMot.

Theorem C07_tr_columns_bridge : forall dr o cs, List.Forall NV.UcSpec.scalar cs -> RenDefs.use_reorder o (NV.UcSpec.chars cs) = false ->
  chop (NV.UcSpec.chars cs) = map NV.UcSpec.encode cs /\
  (forall p, ren_off (map NV.UcSpec.encode cs) p = Z.of_nat (RenDefs.ren_off dr o (NV.UcSpec.chars cs) p)) /\
  (forall off, (0 <= off)%Z -> ren_pos (map NV.UcSpec.encode cs) off = RenDefs.ren_pos dr o (NV.UcSpec.chars cs) off) /\
  (forall p dir, ren_next (map NV.UcSpec.encode cs) p dir = RenDefs.ren_next dr o (NV.UcSpec.chars cs) p dir).
Proof.
  intros dr o cs Hcs U. split; [apply chop_chars; exact Hcs|]. split; [intro p; apply TrViCol.ren_off_bridge; assumption|].
  split; [intros off H; apply TrViCol.ren_pos_bridge; assumption|intros p dir; apply TrViCol.ren_next_bridge; assumption].
Qed.
Print Assumptions C07_tr_columns_bridge.

Theorem C07_tr_vi_col2off : forall o lb bln lbs lines m row col d fuel, lines_small lines -> TrViCol.col_lines o lines ->
  lbuf_at m lb bln lbs lines -> TrViCol.col_mem o m ->
  (maxlen lines < fuel)%nat -> (TrRenPos.nph < fuel)%nat -> (NV.TrUcTab.fuel_tabs <= fuel)%nat ->
  exists M, callf cprog fuel (S (S (S (S (S (S (S (S d)))))))) F_vi_col2off [VPtr lb 0; VInt row; VInt col] m
            = Ok (VInt (vi_col2off (map chop lines) row col), M) /\ TrRenPos.ren_frame m M.
Proof. intros o lb bln lbs lines m row col d fuel Hsm Hcl. exact (TrViCol.tr_vi_col2off o lb bln lbs lines Hsm Hcl m row col d fuel). Qed.
Print Assumptions C07_tr_vi_col2off.

Theorem C07_tr_vi_off2col : forall o lb bln lbs lines m row off d fuel, lines_small lines -> TrViCol.col_lines o lines ->
  lbuf_at m lb bln lbs lines -> TrViCol.col_mem o m -> (0 <= off)%Z ->
  (maxlen lines < fuel)%nat -> (TrRenPos.nph < fuel)%nat -> (NV.TrUcTab.fuel_tabs <= fuel)%nat ->
  exists M, callf cprog fuel (S (S (S (S (S (S (S (S d)))))))) F_vi_off2col [VPtr lb 0; VInt row; VInt off] m
            = Ok (VInt (vi_off2col (map chop lines) row off), M) /\ TrRenPos.ren_frame m M.
Proof. intros o lb bln lbs lines m row off d fuel Hsm Hcl. exact (TrViCol.tr_vi_off2col o lb bln lbs lines Hsm Hcl m row off d fuel). Qed.
Print Assumptions C07_tr_vi_off2col.

(* h / l: one column step; 0 and the model's new offset stored in *off, or -1 and nothing stored *)
Theorem C07_tr_vi_nextcol : forall o lb bln lbs lines m br bo r off dir d fuel, lines_small lines -> TrViCol.col_lines o lines ->
  lbuf_at m lb bln lbs lines -> TrViCol.col_mem o m ->
  cell_at m br r -> cell_at m bo off -> i32 r -> i32 off -> (0 <= off)%Z ->
  ~ In TrRenPos.G_bits (lb :: bln :: lbs) -> bo <> TrRenPos.G_bits ->
  (maxlen lines < fuel)%nat -> (TrRenPos.nph < fuel)%nat -> (NV.TrUcTab.fuel_tabs <= fuel)%nat ->
  exists M, TrRenPos.ren_frame m M /\
    callf cprog fuel (S (S (S (S (S (S (S (S (S d))))))))) F_vi_nextcol [VPtr lb 0; VInt dir; VPtr br 0; VPtr bo 0] m
    = match vi_nextcol (map chop lines) dir (r, off) with
      | Some (false, (_, o')) => Ok (VInt 0, upd M bo [VInt o'])
      | _ => Ok (VInt (-1), M)
      end.
Proof. intros o lb bln lbs lines m br bo r off dir d fuel Hsm Hcl. exact (TrViCol.tr_vi_nextcol o lb bln lbs lines Hsm Hcl m br bo r off dir d fuel). Qed.
Print Assumptions C07_tr_vi_nextcol.

(* space / backspace: one character step inside the line *)
Theorem C07_tr_vi_nextoff : forall m lb bln lbs lines br bo r o dir d fuel, lbuf_at m lb bln lbs lines -> lines_small lines ->
  (maxlen lines < fuel)%nat -> cell_at m br r -> cell_at m bo o -> i32 r -> i32 o -> i32 (o + dir) ->
  callf cprog fuel (S (S (S d))) F_vi_nextoff [VPtr lb 0; VInt dir; VPtr br 0; VPtr bo 0] m
  = match vi_nextoff (map chop lines) dir (r, o) with
    | Some (false, (_, o')) => Ok (VInt 0, upd m bo [VInt o'])
    | _ => Ok (VInt 1, m)
    end.
Proof. exact tr_vi_nextoff. Qed.
Print Assumptions C07_tr_vi_nextoff.

(* they run: the line "a<TAB>b中c\n" (a tab, a wide character) with the option xorder = 0 (no reordering), xlim = 256: the interpreter on
   the translated vi_col2off / vi_off2col / vi_nextcol / vi_nextoff (with the whole translated ren.c stack below them: ren_off, ren_pos,
   ren_next, ren_position, ren_cwid, ren_placeholder, uc_wid ...) returns what the model returns: column 8 is "b" (offset 2), column 10 the
   second cell of the wide character (offset 3), character 4 starts in column 11, l from the tab goes to offset 2, h from offset 0 fails,
   space from offset 5 (the last character before the line break is offset 4 ... 5 is "\n") is refused at the end of the line *)
Example C07_tr_columns_run :
  let lines := [[97; 9; 98; 228; 184; 173; 99; 10]]%N in
  let o := {| RenDefs.xorder := 0; RenDefs.xlim := 256 |} in
  let G := ex_G in
  let st : block := repeat (VInt 0) 64 ++ [VPtr (G + 1) 0; VInt 0; VInt 1; VInt 4] ++ repeat (VInt 0) 7 in
  let mem r off := upd cglobals G_xorder [VInt 0] ++ [st; [VPtr (G + 2) 0; VInt 0; VInt 0; VInt 0]; cstr_block (zb (nthl lines 0)); [VInt r]; [VInt off]] in
  let b := map chop lines in
  TrViCol.col_lines o lines /\ lines_small lines /\
  (forall r off, lbuf_at (mem r off) G (G + 1) [G + 2]%nat lines /\ cell_at (mem r off) G_xlim 256 /\ cell_at (mem r off) G_xorder 0 /\
                 TrRenPos.bits_ok (mem r off)) /\
  NV.TrRen2.retv (callf cprog 400 20 F_vi_col2off [VPtr G 0; VInt 0; VInt 8] (mem 0 0)) = Ok (VInt (vi_col2off b 0 8)) /\ vi_col2off b 0 8 = 2%Z /\
  NV.TrRen2.retv (callf cprog 400 20 F_vi_col2off [VPtr G 0; VInt 0; VInt 10] (mem 0 0)) = Ok (VInt (vi_col2off b 0 10)) /\ vi_col2off b 0 10 = 3%Z /\
  NV.TrRen2.retv (callf cprog 400 20 F_vi_off2col [VPtr G 0; VInt 0; VInt 4] (mem 0 0)) = Ok (VInt (vi_off2col b 0 4)) /\ vi_off2col b 0 4 = 11%Z /\
  NV.TrRen2.retv (callf cprog 400 20 F_vi_nextcol [VPtr G 0; VInt 1; VPtr (G + 3) 0; VPtr (G + 4) 0] (mem 0 1)) = Ok (VInt 0) /\
  vi_nextcol b 1 (0, 1)%Z = Some (false, (0, 2)%Z) /\
  NV.TrRen2.retv (callf cprog 400 20 F_vi_nextcol [VPtr G 0; VInt (-1); VPtr (G + 3) 0; VPtr (G + 4) 0] (mem 0 0)) = Ok (VInt (-1)) /\
  vi_nextcol b (-1) (0, 0)%Z = Some (true, (0, 0)%Z) /\
  callf cprog 400 20 F_vi_nextoff [VPtr G 0; VInt 1; VPtr (G + 3) 0; VPtr (G + 4) 0] (mem 0 4) = Ok (VInt 0, mem 0 5) /\
  vi_nextoff b 1 (0, 4)%Z = Some (false, (0, 5)%Z) /\
  callf cprog 400 20 F_vi_nextoff [VPtr G 0; VInt 1; VPtr (G + 3) 0; VPtr (G + 4) 0] (mem 0 5) = Ok (VInt 1, mem 0 5) /\
  vi_nextoff b 1 (0, 5)%Z = Some (true, (0, 5)%Z).
Proof.
  cbv zeta. split.
  { repeat constructor; [exists [97; 9; 98; 20013; 99; 10]%N; split; [repeat constructor; cbv; intuition discriminate|reflexivity]|cbn; lia]. }
  split; [split; [cbn; lia|repeat constructor; cbn; lia]|].
  split.
  { intros r off. split; [|split; [reflexivity|split; [reflexivity|left; reflexivity]]]. constructor.
    - eexists. repeat split; reflexivity.
    - eexists. split; [reflexivity|]. split; [cbn; lia|]. intros [|i] Hi; [reflexivity|cbn in Hi; lia].
    - reflexivity.
    - intros [|i] Hi; [reflexivity|cbn in Hi; lia].
    - repeat (apply NoDup_cons; [cbn [In]; intros H; repeat (destruct H as [H|H]; [lia|]); exact H|]). apply NoDup_nil.
    - repeat (apply Forall_cons; [repeat (apply Forall_cons; [cbv; split; reflexivity|]); apply Forall_nil|]). apply Forall_nil. }
  repeat match goal with |- _ /\ _ => split end; vm_compute; reflexivity.
Qed.
End C07_translated_4.

(* ---- the translation tie, continued (coq/TrViLn.v, coq/TrViMot.v): vi_cnt (the saturated count) and vi_motionln (the line motions
   + - _ <newline> j k G H L M and N%: a switch statement) of vi.c.  vi_motionln reads its key with vi_read() and the window height
   with xrows = term_rows(), which are not translated: the theorem holds for every oracle ext (CLiteExt.callx) whose vi_read returns the
   key c and leaves a memory m1 that still holds the buffer, bufs[0].lb, *row, vi_arg1 / vi_arg2 and xtop (ln_mem), whose term_rows
   returns rows and changes nothing, and whose vi_back (reached only for a key that is no line motion) leaves m3.  Result: the key and
   the model's row stored in *row; -1 (N% with N > 100); or 0 after the key was pushed back.  Rows, xtop, xrows below 2^30 (the count is
   saturated at 2^30 so that row + count stays inside int: fix 164b6b4), 100 * number of lines inside int (N% multiplies in int). *)
From NV Require CLiteExt TrViLn.
Section C07_translated_5.
Import CLite CLiteProps CLiteExt GenCFuncs TrLbufBase TrUc TrMot TrViMot TrViLn.

Theorem C07_tr_vi_cnt : forall m a1 a2 d fuel, cell_at m G_vi_arg1 a1 -> cell_at m G_vi_arg2 a2 -> i32 a1 -> i32 a2 ->
  callf cprog fuel (S d) F_vi_cnt [] m = Ok (VInt (vi_cnt_m a1 a2), m) /\
  ((0 < (if a1 =? 0 then 1 else a1) * (if a2 =? 0 then 1 else a2) < 1073741824)%Z ->
   vi_cnt_m a1 a2 = ((if a1 =? 0 then 1 else a1) * (if a2 =? 0 then 1 else a2))%Z).
Proof.
  intros m a1 a2 d fuel H1 H2 I1 I2. split; [exact (tr_vi_cnt m a1 a2 d fuel H1 H2 I1 I2)|].
  intro H. unfold vi_cnt_m. destruct (Z.ltb_spec 0 ((if a1 =? 0 then 1 else a1) * (if a2 =? 0 then 1 else a2))%Z); [|lia].
  destruct (Z.ltb_spec ((if a1 =? 0 then 1 else a1) * (if a2 =? 0 then 1 else a2))%Z 1073741824); [reflexivity|lia].
Qed.
Print Assumptions C07_tr_vi_cnt.

Theorem C07_tr_vi_motionln : forall ext m m1 m3 lb bln lbs lines br r a1 a2 top rows c cmd vb d fuel,
  ln_mem m lb bln lbs lines br r a1 a2 top -> ln_mem m1 lb bln lbs lines br r a1 a2 top -> lines_small lines ->
  ext X_vi_read [] m = Ok (VInt c, m1) ->
  (forall M, ext X_term_rows [] M = Ok (VInt rows, M)) ->
  ext X_vi_back [VInt c] (m1 ++ [[VUndef]; [VUndef]]) = Ok (vb, m3) ->
  i32 a1 -> i32 a2 -> (-1073741824 <= r <= 1073741823)%Z -> (0 <= top <= 1073741823)%Z -> (0 <= rows <= 1073741823)%Z ->
  (blen (map chop lines) * 100 <= 2147483647)%Z -> c <> 39%Z -> c <> cmd -> i32 cmd ->
  callx ext cprog fuel (S (S (S d))) F_vi_motionln [VPtr br 0; VInt cmd] m
  = match (match lnkey_of c with
           | Some k => vi_motionln (map chop lines) rows top (negb (a1 =? 0) || negb (a2 =? 0)) (vi_cnt_m a1 a2) k r
           | None => None
           end) with
    | Some (Some r') => Ok (VInt c, upd (m1 ++ [[VUndef]; [VUndef]]) br [VInt r'])
    | Some None => Ok (VInt (-1), m1 ++ [[VUndef]; [VUndef]])
    | None => Ok (VInt 0, m3)
    end.
Proof.
  intros ext m m1 m3 lb bln lbs lines br r a1 a2 top rows c cmd vb d fuel A B C D E F G H I J K L M N O.
  exact (tr_vi_motionln ext m m1 m3 lb bln lbs lines br r a1 a2 top rows c cmd vb A B C D E F G H I J K L d fuel M N O).
Qed.
Print Assumptions C07_tr_vi_motionln.

(* it runs, with an oracle that types the key: the two-line buffer of C07_tr_nonvacuous, the cursor on row 0, vi_arg1 = 7: 7G goes to the
   LAST line (row 1, fix 4be34b5), 7j too, 7k from row 1 to row 0, 7_ to row 1, H to the top row, 50% (vi_arg1 = 50) to row 0; `w`
   is no line motion: pushed back, 0 returned *)
Example C07_tr_motionln_runs :
  let G := ex_G in
  let gl a1 top := upd (upd (upd cglobals G_bufs (upd gb_bufs 33 (VPtr G 0))) G_vi_arg1 [VInt a1]) G_xtop [VInt top] in
  let mm a1 top r := gl a1 top ++ [ex_struct; [VPtr (G + 2) 0; VPtr (G + 3) 0; VInt 0; VInt 0];
                                    cstr_block (zb (nthl ex_lines 0)); cstr_block (zb (nthl ex_lines 1)); [VInt r]] in
  let ext key := fun (f : nat) (args : list val) (m : CLite.mem) =>
                   if Nat.eqb f X_vi_read then Ok (VInt key, m) else if Nat.eqb f X_term_rows then Ok (VInt 23, m)
                   else if Nat.eqb f X_vi_back then Ok (VUndef, m) else Err EShape in
  let run key a1 top r := callx (ext key) cprog 100 10 F_vi_motionln [VPtr (G + 4) 0; VInt 0] (mm a1 top r) in
  (forall a1 top r, ln_mem (mm a1 top r) G (G + 1) [G + 2; G + 3]%nat ex_lines (G + 4) r a1 0 top) /\
  run 71 7 0 0 = Ok (VInt 71, mm 7 0 1 ++ [[VUndef]; [VUndef]]) /\
  vi_motionln (map chop ex_lines) 23 0 true (vi_cnt_m 7 0) KG 0 = Some (Some 1%Z) /\
  run 106 7 0 0 = Ok (VInt 106, mm 7 0 1 ++ [[VUndef]; [VUndef]]) /\
  run 107 7 0 1 = Ok (VInt 107, mm 7 0 0 ++ [[VUndef]; [VUndef]]) /\
  run 95 7 0 0 = Ok (VInt 95, mm 7 0 1 ++ [[VUndef]; [VUndef]]) /\
  run 72 0 1 0 = Ok (VInt 72, mm 0 1 1 ++ [[VUndef]; [VUndef]]) /\
  run 37 50 0 1 = Ok (VInt 37, mm 50 0 0 ++ [[VUndef]; [VUndef]]) /\
  run 119 0 0 1 = Ok (VInt 0, mm 0 0 1 ++ [[VUndef]; [VUndef]]).
Proof.
  cbv zeta. split.
  { intros a1 top r. constructor; try reflexivity.
    - constructor.
      + exists ex_struct. repeat split; reflexivity.
      + exists [VPtr (ex_G + 2) 0; VPtr (ex_G + 3) 0; VInt 0; VInt 0]. split; [reflexivity|]. split; [cbn; lia|].
        intros [|[|i]] Hi; try reflexivity. cbn in Hi. lia.
      + reflexivity.
      + intros [|[|i]] Hi; try reflexivity. cbn in Hi. lia.
      + repeat (apply NoDup_cons; [cbn [In]; intros H; repeat (destruct H as [H|H]; [lia|]); exact H|]). apply NoDup_nil.
      + repeat (apply Forall_cons; [repeat (apply Forall_cons; [cbv; split; reflexivity|]); apply Forall_nil|]). apply Forall_nil.
    - eexists. split; reflexivity. }
  repeat match goal with |- _ /\ _ => split end; vm_compute; reflexivity.
Qed.
End C07_translated_5.

(* ---- vi_findchar (vi.c): f F t T record the searched character in vi_charlast (strcpy) and the command in vi_charcmd BEFORE the
   search runs, whether it succeeds or fails (`;` and `,` repeat a failed search too: MotDefs.vi_motion returns MvFail cs cmd), then
   lbuf_findchar.  cs in a block of its own (not vi_charlast itself: that is the `;` `,` path), short enough for vi_charlast[8]. *)
Section C07_translated_6.
Import CLite CLiteProps GenCFuncs TrLbufBase TrUc TrMot TrViMot.
Theorem C07_tr_vi_findchar : forall m lb bln lbs lines br bo bc cst (cmdN : N) n r o last cmd0 d fuel,
  lbuf_at m lb bln lbs lines -> lines_small lines -> lines_valid lines ->
  cell_at m br r -> cell_at m bo o -> i32 r -> i32 o ->
  str_at m bc cst -> nonul cst -> (uc_len_b (nthb cst 0) - 1 <= length cst)%nat ->
  nth_error m G_vi_charlast = Some last -> (S (length cst) <= length last)%nat -> cell_at m G_vi_charcmd cmd0 ->
  ~ In G_vi_charlast (bc :: br :: bo :: lb :: bln :: lbs) -> ~ In G_vi_charcmd (bc :: br :: bo :: lb :: bln :: lbs) ->
  (Z.of_N cmdN <= 2147483647)%Z -> (-2147483647 <= n <= 2147483647)%Z -> n <> 0%Z ->
  (forall l, getl (map chop lines) r = Some l -> (0 <= o < slen l)%Z) ->
  (maxlen lines < fuel)%nat ->
  exists sv,
  callf cprog fuel (S (S (S (S (S d))))) F_vi_findchar [VPtr lb 0; VPtr bc 0; VInt (Z.of_N cmdN); VInt n; VPtr br 0; VPtr bo 0] m
  = match lbuf_findchar (map chop lines) cst cmdN n r o with
    | Some o' => Ok (VInt 0, upd (fc_recorded m last cst (Z.of_N cmdN)) bo [VInt o'] ++ [[sv]])
    | None => Ok (VInt 1, fc_recorded m last cst (Z.of_N cmdN) ++ [[sv]])
    end.
Proof. exact tr_vi_findchar. Qed.
Print Assumptions C07_tr_vi_findchar.
End C07_translated_6.

(* ================================================================================================
   THE COUNT IN FRONT OF A MOTION (coq/MotCountDefs.v, MotCountProps.v).  vi() reads vi_arg1 = vi_prefix() off the pending keys and then
   the motion; MotCountDefs.vi_prefix mirrors the C text over a list of keys (`c = vi_read(); if (c >= '1' && c <= '9') while
   (isdigit(c)) { if (n < 100000000) n = n * 10 + c - '0'; c = vi_read(); } vi_back(c);`).  Stated for digit strings of ANY length:
   every digit belongs to the count, the key behind the last digit is the motion key (a change that stops reading at saturation --
   seeded/C07k -- makes the tenth digit a command of its own: refuted by C07_count_digits_consumed on the model and found by the
   streams `bigcount` of tools/props/c07.py on the binary).  The extracted parse_motion / step_keys read the typed digits of those
   streams themselves (ocaml/drv_mot.ml, request k:). *)
From NV Require Import MotCountDefs MotCountProps.

(* all the digits are consumed; what is left starts with the key that ended the count *)
Theorem C07_count_digits_consumed : forall c0 ds rest, is_19 c0 = true -> digits ds -> stops rest ->
  vi_prefix ((c0 :: ds) ++ rest) = (sat_count (c0 :: ds), rest).
Proof. exact vi_prefix_digits. Qed.
Print Assumptions C07_count_digits_consumed.

(* a key other than 1..9 starts no count -- `0` is the motion to column 0 *)
Theorem C07_count_none : forall c rest, is_19 c = false -> vi_prefix (c :: rest) = (0, c :: rest).
Proof. exact vi_prefix_none. Qed.
Print Assumptions C07_count_none.

(* the value: the decimal value for up to nine digits; from nine digits on the value of the first nine (a number in
   [10^8, 10^9): the saturation of the C text), whatever digits and however many follow *)
Theorem C07_count_value_short : forall ds, digits ds -> (length ds <= 9)%nat -> sat_count ds = dec_value ds.
Proof. exact sat_count_short. Qed.
Print Assumptions C07_count_value_short.
Theorem C07_count_value_saturated : forall c0 ds, is_19 c0 = true -> digits ds -> (8 <= length ds)%nat ->
  sat_count (c0 :: ds) = dec_value (c0 :: firstn 8 ds) /\ 100000000 <= sat_count (c0 :: ds) < 1000000000.
Proof. exact sat_count_long. Qed.
Print Assumptions C07_count_value_saturated.
Theorem C07_count_value_range : forall c0 ds, is_19 c0 = true -> digits ds -> 1 <= sat_count (c0 :: ds) < 1000000000.
Proof. exact sat_count_range. Qed.
Print Assumptions C07_count_value_range.

(* digits ++ motion key: exactly the digits are the count, the key is the motion, the rest is untouched; also with the
   character argument of f F t T *)
Theorem C07_count_parse_motion : forall c0 ds key mk rest, is_19 c0 = true -> digits ds -> is_digit key = false ->
  plain_key key = Some mk ->
  parse_motion ((c0 :: ds) ++ key :: rest) = Some (sat_count (c0 :: ds), mk, rest).
Proof. exact parse_motion_count. Qed.
Print Assumptions C07_count_parse_motion.
Theorem C07_count_parse_motion_none : forall key mk rest, is_19 key = false -> plain_key key = Some mk ->
  parse_motion (key :: rest) = Some (0, mk, rest).
Proof. exact parse_motion_nocount. Qed.
Print Assumptions C07_count_parse_motion_none.
Theorem C07_count_parse_find : forall c0 ds key a0 a rest, is_19 c0 = true -> digits ds -> is_find key = true ->
  let k := Nat.max 1 (uc_len (a0 :: a)) in
  exists mk, find_key key (firstn k (a0 :: a ++ rest)) = Some mk /\
  (uc_len (a0 :: a ++ rest) = uc_len (a0 :: a)) /\
  parse_motion ((c0 :: ds) ++ key :: a0 :: a ++ rest) = Some (sat_count (c0 :: ds), mk, skipn k (a0 :: a ++ rest)).
Proof. exact parse_motion_count_find. Qed.
Print Assumptions C07_count_parse_find.

(* vi_cnt (long long product saturated at 2^30, fix 164b6b4): of ONE count as vi_prefix returns it, the count itself *)
Theorem C07_count_vi_cnt : forall n, 0 <= n < 1000000000 -> vi_cnt n 0 = MotProps.m_cnt n 0 /\ MotProps.m_cnt n 0 = Z.max 1 n.
Proof. exact vi_cnt_single. Qed.
Print Assumptions C07_count_vi_cnt.
Theorem C07_count_vi_cnt_range : forall a1 a2, 1 <= vi_cnt a1 a2 <= 1073741824.
Proof. exact vi_cnt_range. Qed.
Print Assumptions C07_count_vi_cnt_range.

(* the model that the correspondence runs on counts of 10^9 (the loops over a binary counter, leaving at the first step that
   breaks or does not move; f F t T ; , failing at once above the line length) IS do_motion whenever it answers; typed keys *)
Theorem C07_count_model_z : forall b rows a1 a2 k s r, do_motion_z b rows a1 a2 k s = Some r -> do_motion b rows a1 a2 k s = r.
Proof. exact do_motion_z_sound. Qed.
Print Assumptions C07_count_model_z.
Theorem C07_count_typed_keys : forall b rows ks s s' rest, step_keys b rows ks s = KOk s' rest ->
  exists n k, parse_motion ks = Some (n, k, rest) /\ do_motion b rows n 0 k s = Some s'.
Proof. exact step_keys_sound. Qed.
Print Assumptions C07_count_typed_keys.

(* count_beyond_clamps.  Line motions + - _ j k G H L M N%: from count_cap = lines + |window height| + |window top| + 101 on
   every count gives the same row (N%: the same failure) -- hence the same state after the command; the row is the last line for
   j + _ G H, the first for k - L *)
Theorem C07_count_beyond_clamps_lines : forall b rows top k row c1 c2, 0 <= row < Z.max 1 (blen b) ->
  count_cap b rows top <= c1 -> count_cap b rows top <= c2 ->
  vi_motionln b rows top true c1 k row = vi_motionln b rows top true c2 k row.
Proof. exact line_count_beyond. Qed.
Print Assumptions C07_count_beyond_clamps_lines.
Theorem C07_count_beyond_clamps_target : forall b rows top k row c, 0 <= row < Z.max 1 (blen b) -> count_cap b rows top <= c ->
  MotProps.is_linekey k = true ->
  MotProps.line_target b rows top true c k row =
  match k with
  | Kj | Kplus | Kunder | KG | KH => Z.max 0 (blen b - 1)
  | KM => MotProps.line_target b rows top true 1 k row
  | _ => 0
  end.
Proof. exact line_count_beyond_target. Qed.
Print Assumptions C07_count_beyond_clamps_target.
Theorem C07_count_beyond_clamps : forall b rows k s c1 c2, MotProps.is_linekey k = true \/ k = Kpct ->
  0 <= v_row s < Z.max 1 (blen b) ->
  count_cap b rows (v_top s) <= c1 -> count_cap b rows (v_top s) <= c2 ->
  do_motion b rows c1 0 k s = do_motion b rows c2 0 k s.
Proof. exact do_motion_line_count_beyond. Qed.
Print Assumptions C07_count_beyond_clamps.
(* h l: from the length of the line on, the first character / the last character before the terminator *)
Theorem C07_count_beyond_clamps_h_l : forall b rows top cl cc pc has c row off l, buf_wf b -> getl b row = Some l ->
  0 <= off < slen l -> slen l <= c ->
  vi_motion b rows top cl cc pc has c Kh row off = MvOk row 0 cl cc pc /\
  vi_motion b rows top cl cc pc has c Kl row off = MvOk row (Z.max off (slen l - 2)) cl cc pc.
Proof. exact hl_count_beyond. Qed.
Print Assumptions C07_count_beyond_clamps_h_l.
(* f F t T ; , : above the length of the line the motion fails (the cursor stays: C07_fail_in_place) *)
Theorem C07_count_beyond_fails_find : forall b rows top cl cc pc has c k row off, is_findkey k = true -> row_len b row < c ->
  exists cl' cc', vi_motion b rows top cl cc pc has c k row off = MvFail cl' cc'.
Proof. exact find_count_beyond. Qed.
Print Assumptions C07_count_beyond_fails_find.
(* N| : from the terminator's column on, the terminator (then ren_noeol: the last character) *)
Theorem C07_count_beyond_clamps_bar : forall l p, 0 < slen l -> 0 <= p -> ren_pos l (slen l - 1) <= p -> ren_off l p = slen l - 1.
Proof. exact bar_count_beyond. Qed.
Print Assumptions C07_count_beyond_clamps_bar.
(* the loops h l w b e W B E { } space backspace: once some count n reaches a position where one more step stays in place (the
   step reports the edge, or does not move), every count above n lands there *)
Theorem C07_count_beyond_clamps_loops : forall b rows top cl cc pc has k row off step n r o, key_step b k = Some step ->
  0 <= n -> vi_motion b rows top cl cc pc has n k row off = MvOk r o cl cc pc ->
  (step (r, o) = Some (true, (r, o)) \/ step (r, o) = Some (false, (r, o))) ->
  forall c, n <= c -> vi_motion b rows top cl cc pc has c k row off = MvOk r o cl cc pc.
Proof. exact loop_count_beyond. Qed.
Print Assumptions C07_count_beyond_clamps_loops.

(* non-vacuity: `ll1234567890j` on four lines -- ten digits, one count, one motion: last line, column kept; `1000000002l`: the
   last character; twenty digits; 10^9 steps of `}` decided at the first step that does not move; a count then `0`: the 0 is a digit *)
Definition count_witness : buf := buf_of_bytes [97;98;99;32;100;101;102;10; 106;107;108;10; 115;116;117;32;118;10; 48;49;50;51;10]%N.
Example C07_count_nonvacuous :
  parse_motion [49;50;51;52;53;54;55;56;57;48;106;105]%N = Some (123456789, Kj, [105]%N) /\
  vi_prefix [49;48;48;48;48;48;48;48;48;50;108]%N = (100000000, [108]%N) /\
  vi_prefix [57;57;57;57;57;57;57;57;57;57;57;57;57;57;57;57;57;57;57;57;119]%N = (999999999, [119]%N) /\
  vi_prefix [53;48]%N = (50, []) /\ vi_prefix [48;53;106]%N = (0, [48;53;106]%N) /\
  (exists s, step_keys count_witness 23 [49;50;51;52;53;54;55;56;57;48;106]%N (mk_vst 0 2 2 0 [] 0%N 0) = KOk s [] /\
             v_row s = 3 /\ v_off s = 2 /\ v_col s = 2) /\
  (exists s, step_keys count_witness 23 [49;48;48;48;48;48;48;48;48;50;108]%N init_vst = KOk s [] /\ v_row s = 0 /\ v_off s = 6) /\
  (exists s, step_keys count_witness 23 [57;57;57;57;57;57;57;57;57;57;125]%N init_vst = KOk s [] /\ v_row s = 3 /\ v_off s = 0) /\
  buf_wf count_witness /\ count_cap count_witness 23 0 = 128.
Proof.
  split; [vm_compute; reflexivity|]. split; [vm_compute; reflexivity|]. split; [vm_compute; reflexivity|].
  split; [vm_compute; reflexivity|]. split; [vm_compute; reflexivity|].
  split; [eexists; split; [vm_compute; reflexivity|repeat split]|].
  split; [eexists; split; [vm_compute; reflexivity|repeat split]|].
  split; [eexists; split; [vm_compute; reflexivity|repeat split]|].
  split; [|vm_compute; reflexivity].
  unfold buf_wf. let v := eval vm_compute in count_witness in change count_witness with v.
  repeat (apply Forall_cons; [match goal with |- line_wf ?l => exists (removelast l); split; [reflexivity|cbn [removelast]; repeat constructor; discriminate] end|]).
  apply Forall_nil.
Qed.

(* ---- vi_prefix (vi.c) as C TEXT (coq/TrRepeat2.v, proved there for property C09; restated here because C07's count semantics rest on
   it): for EVERY oracle that answers vi_read() / vi_back() as the key-source model of coq/TrRepeat.v says, the translated vi_prefix
   returns vi_prefix_m: a count starts with 1..9, every following digit is read (no bound on their number), the value is folded with
   the saturating step `if (n < 100000000) n = n * 10 + c - '0'` -- which is MotCountDefs.add_digit (C07_tr_digit_step) --, the key
   that ends the count is pushed back; the result is below 10^9 (no signed overflow is reached).  A change of the loop (seeded/C07k:
   the saturation test moved into the loop condition) breaks this proof. *)
From NV Require CLiteExt TrTerm TrRepeat TrRepeat2.
Section C07_translated_7.
Import CLite CLiteProps GenCFuncs CLiteExt TrTerm TrRepeat TrRepeat2.
Theorem C07_tr_vi_prefix : forall (ext : oracle) kt, reads_ok ext kt -> back_ok ext kt -> forall (m : mem) (s : src) d fuel,
  src_at kt m s -> (S (S (length (keys s))) < fuel)%nat ->
  exists m', callx ext cprog fuel (S (S d)) F_vi_prefix [] m = Ok (VInt (fst (vi_prefix_m s)), m') /\
             src_at kt m' (snd (vi_prefix_m s)) /\ keeps kt m m' /\ 0 <= fst (vi_prefix_m s) < 1000000000.
Proof. exact tr_vi_prefix. Qed.
Print Assumptions C07_tr_vi_prefix.
Theorem C07_tr_digit_step : forall n (c : N), TrRepeat2.digit_step n (Z.of_N c) = MotCountDefs.add_digit n c.
Proof. intros n c. reflexivity. Qed.
Print Assumptions C07_tr_digit_step.
End C07_translated_7.
