(* Properties_C07.v -- C07: vi cursor motions land where the reference motion semantics say.
   Statements only; every proof is `exact <lemma>`; Print Assumptions under each.
   Model: MotDefs.v (mirror of mot.c, the motion part of vi.c, the cursor helpers of ren.c for
   left-to-right lines).  A program is a list of motions with counts (and the ex command :n used
   to reach start positions); `run` returns None only when a fuelled loop ran out of fuel. *)
From Coq Require Import List NArith ZArith.
From NV Require Import Bytes UcDefs MotDefs MotProps.
Import ListNotations.
Local Open Scope Z_scope.

(* motions never change the text *)
Theorem C07_text_unchanged : forall b rows cs b' s, run_prog b rows cs = Some (b', s) -> b' = b.
Proof. exact run_prog_text. Qed.
Print Assumptions C07_text_unchanged.

(* after every motion (+ the vi_wfix clamp), for all texts, counts and motion sequences: the row
   exists, the offset is on an existing character and not on the terminator of a non-empty line;
   in the empty buffer the cursor is (0,0) *)
Theorem C07_cursor_valid : forall b rows cs b' s, buf_wf b -> run_prog b rows cs = Some (b', s) ->
  cursor_ok b (v_row s) (v_off s).
Proof. exact cursor_valid. Qed.
Print Assumptions C07_cursor_valid.

Theorem C07_cursor_on_character : forall b r o, buf_wf b -> cursor_ok b r o ->
  match getl b r with
  | Some l => 0 <= o < slen l /\ (b0 (chr_at l o) = 10%N -> l = [[10%N]])
  | None => b = [] /\ r = 0 /\ o = 0
  end.
Proof. exact cursor_ok_char. Qed.
Print Assumptions C07_cursor_on_character.

(* a motion the model reports as failing leaves row, offset and remembered column in place ... *)
Theorem C07_fail_in_place : forall b rows a1 a2 k s cl cc, buf_wf b -> cursor_ok b (v_row s) (v_off s) ->
  vi_motion b rows (v_top s) (v_cl s) (v_cc s) (v_pcol s) (m_has a1 a2) (m_cnt a1 a2) k (v_row s)
            (ren_noeol (getl b (v_row s)) (v_off s)) = MvFail cl cc ->
  exists s', do_motion b rows a1 a2 k s = Some s' /\ v_row s' = v_row s /\ v_off s' = v_off s /\ v_col s' = v_col s.
Proof. exact do_motion_fail. Qed.
Print Assumptions C07_fail_in_place.

(* ... and failure is reported exactly for: f F t T ; , without target, ; , without an earlier
   find, % without bracket or match, a percentage above 100 *)
Theorem C07_fail_cases : forall b rows top cl cc pc has cnt k row off cl' cc',
  vi_motion b rows top cl cc pc has cnt k row off = MvFail cl' cc' ->
  match k with
  | Kf c => lbuf_findchar b c 102%N cnt row off = None
  | KF c => lbuf_findchar b c 70%N cnt row off = None
  | Kt c => lbuf_findchar b c 116%N cnt row off = None
  | KT c => lbuf_findchar b c 84%N cnt row off = None
  | Ksemi => cl = [] \/ lbuf_findchar b cl cc cnt row off = None
  | Kcomma => cl = [] \/ lbuf_findchar b cl cc (- cnt) row off = None
  | Kpct => (has = true /\ 100 < cnt) \/ (has = false /\ lbuf_pair (mfuel b) b row off = Some None)
  | _ => False
  end.
Proof. exact vi_motion_fail_cases. Qed.
Print Assumptions C07_fail_cases.

(* where any successful motion lands: the motion's row; the offset put before the terminator;
   line motions on the first non-blank; j k on the character covering the remembered column;
   the remembered column is recomputed except by | j k *)
Theorem C07_landing : forall b rows a1 a2 k s r o cl cc pc l, buf_wf b -> 0 <= v_off s ->
  vi_motion b rows (v_top s) (v_cl s) (v_cc s) (v_pcol s) (m_has a1 a2) (m_cnt a1 a2) k (v_row s)
            (ren_noeol (getl b (v_row s)) (v_off s)) = MvOk r o cl cc pc ->
  getl b r = Some l ->
  exists s', do_motion b rows a1 a2 k s = Some s' /\ v_row s' = r /\
    v_off s' = ren_noeol (Some l) (if is_jk k then ren_off l (v_col s) else if o <? 0 then count_space l else o) /\
    v_col s' = (if is_bar k then pc else if is_jk k then v_col s else ren_pos l (v_off s')) /\
    v_cl s' = cl /\ v_cc s' = cc.
Proof. exact do_motion_land. Qed.
Print Assumptions C07_landing.

(* f t (and , after F T): the n-th character with the wanted code point strictly after the cursor
   on this line, t one short; failure iff there are fewer than n *)
Theorem C07_find_forward : forall b cs cmd n r o l, getl b r = Some l -> 0 <= o -> n <> 0 ->
  (if n <? 0 then negb (is_ft cmd) else is_ft cmd) = true ->
  let rest := skipn (Z.to_nat (o + 1)) l in
  let m := Z.to_nat (Z.abs n) in
  match lbuf_findchar b cs cmd n r o with
  | Some o' => exists k, (k < length rest)%nat /\ code (nth k rest []) = code cs /\ count_m cs (firstn k rest) = (m - 1)%nat /\
                         o' = o + 1 + Z.of_nat k - (if is_tT cmd then 1 else 0)
  | None => (count_m cs rest < m)%nat
  end.
Proof. exact findchar_forward. Qed.
Print Assumptions C07_find_forward.

(* F T (and , after f t): the same towards the start of the line *)
Theorem C07_find_backward : forall b cs cmd n r o l, getl b r = Some l -> 0 <= o -> n <> 0 ->
  (if n <? 0 then negb (is_ft cmd) else is_ft cmd) = false ->
  let rest := rev (firstn (Z.to_nat o) l) in
  let m := Z.to_nat (Z.abs n) in
  match lbuf_findchar b cs cmd n r o with
  | Some o' => exists k, (k < length rest)%nat /\ code (nth k rest []) = code cs /\ count_m cs (firstn k rest) = (m - 1)%nat /\
                         o' = o - 1 - Z.of_nat k + (if is_tT cmd then 1 else 0)
  | None => (count_m cs rest < m)%nat
  end.
Proof. exact findchar_backward. Qed.
Print Assumptions C07_find_backward.

(* G + - _ H M L (and the row of j k): the clamped target row ... *)
Theorem C07_line_target : forall b rows top has cnt k row, is_linekey k = true ->
  vi_motionln b rows top has cnt k row = Some (Some (line_target b rows top has cnt k row)).
Proof. exact vi_motionln_target. Qed.
Print Assumptions C07_line_target.

(* ... and the first non-blank of that row (the last character of an all-blank line) *)
Theorem C07_line_motions : forall b rows a1 a2 k s l, buf_wf b -> 0 <= v_off s ->
  is_linekey k = true -> is_jk k = false ->
  let t := line_target b rows (v_top s) (m_has a1 a2) (m_cnt a1 a2) k (v_row s) in
  getl b t = Some l ->
  exists s', do_motion b rows a1 a2 k s = Some s' /\ v_row s' = t /\
             v_off s' = ren_noeol (Some l) (count_space l) /\ v_col s' = ren_pos l (v_off s').
Proof. exact line_motion_lands. Qed.
Print Assumptions C07_line_motions.

Theorem C07_first_nonblank : forall l, let k := count_space l in
  0 <= k <= slen l /\ (forall i, 0 <= i < k -> uc_isspace (chr_at l i) = true) /\
  (k < slen l -> uc_isspace (chr_at l k) = false).
Proof. exact count_space_spec. Qed.
Print Assumptions C07_first_nonblank.

(* j k: clamped row, the character covering the remembered column (ren_off; the terminator is
   replaced by the last character), and the remembered column is kept (sticky) *)
Theorem C07_jk : forall b rows a1 a2 k s l, buf_wf b -> 0 <= v_off s -> is_jk k = true ->
  let t := line_target b rows (v_top s) (m_has a1 a2) (m_cnt a1 a2) k (v_row s) in
  getl b t = Some l ->
  exists s', do_motion b rows a1 a2 k s = Some s' /\ v_row s' = t /\
             v_off s' = ren_noeol (Some l) (ren_off l (v_col s)) /\ v_col s' = v_col s.
Proof. exact jk_lands. Qed.
Print Assumptions C07_jk.

(* 0 ^ $ | *)
Theorem C07_col0_caret_dollar_bar : forall b rows a1 a2 k s l, buf_wf b -> cursor_ok b (v_row s) (v_off s) ->
  getl b (v_row s) = Some l ->
  match k with K0 | Kcaret | Kdollar | Kbar => True | _ => False end ->
  exists s', do_motion b rows a1 a2 k s = Some s' /\ v_row s' = v_row s /\
    v_off s' = match k with
               | K0 => 0
               | Kcaret => ren_noeol (Some l) (count_space l)
               | Kdollar => Z.max 0 (slen l - 2)
               | _ => ren_noeol (Some l) (ren_off l (m_cnt a1 a2 - 1))
               end /\
    v_col s' = match k with Kbar => m_cnt a1 a2 - 1 | _ => ren_pos l (v_off s') end.
Proof. exact col_motions_land. Qed.
Print Assumptions C07_col0_caret_dollar_bar.

(* h l w b e W B E { } % -- PARTIAL.  Full statement wanted: h/l = the character displayed
   immediately left/right (stop at the line ends); w b e W B E = the count-th word start / word
   end of the right kind strictly beyond the cursor (empty lines are stops); { } = the next blank
   line; % = the matching bracket with balanced nesting in between.
   Proved: these motions are mirrored step for step (MotDefs), every one of them returns a
   non-negative offset, hence (C07_cursor_valid, C07_landing) a valid cursor on the returned row.
   Missing: the relation of the mirrored scanners (lbuf_wordbeg/wordend/pair, pos_next/pos_prev) to
   the declarative descriptions, and that the fuel (2 + characters + lines) always suffices. *)
Theorem C07_scanners_partial : forall b rows top cl cc pc has cnt k row off r o cl' cc' pc',
  0 <= off -> vi_motion b rows top cl cc pc has cnt k row off = MvOk r o cl' cc' pc' -> 0 <= o \/ o = -1.
Proof. exact vi_motion_off. Qed.
Print Assumptions C07_scanners_partial.

(* the target row of G + - _ H M L j k exists whenever the buffer is not empty: counts that
   overrun are clamped (for G since fix 4be34b5; before it 9G on "  ab" landed on column 0:
   corpus/C07-g-overrun.json) -- so C07_line_motions and C07_jk apply to every count *)
Theorem C07_line_target_in_range : forall b rows top has cnt k row, is_linekey k = true -> 0 <= row < blen b -> 1 <= cnt ->
  exists l, getl b (line_target b rows top has cnt k row) = Some l.
Proof. exact line_target_exists. Qed.
Print Assumptions C07_line_target_in_range.

(* non-vacuity: a well-formed buffer with a tab, a wide and a 2-byte character; a program of
   motions runs to a valid cursor *)
Example C07_nonvacuous :
  let b := buf_of_bytes [9; 97; 32; 228; 184; 173; 195; 169; 10; 10; 40; 120; 41; 10]%N in
  match run_prog b 23 [Mot 0 Kw; Mot 2 Kl; Mot 0 Kj; Mot 0 Kj; Mot 0 Kpct; Mot 0 Kdollar; Mot 2 Kk; Mot 0 (Kf [195; 169]%N)] with
  | Some (_, s) => (v_row s, v_off s) = (0, 4)
  | None => False
  end.
Proof. vm_compute. reflexivity. Qed.

Example C07_G_overrun_fixed :
  match run g_witness 23 [Mot 9 KG] init_vst, run g_witness 23 [Mot 1 KG] init_vst with
  | Some s9, Some s1 => v_row s9 = 0 /\ v_row s1 = 0 /\ v_off s1 = 2 /\ v_off s9 = 2
  | _, _ => False
  end.
Proof. exact g_overrun_fixed. Qed.

Example C07_nonvacuous_wf : buf_wf g_witness /\ cursor_ok g_witness 0 2.
Proof.
  split.
  - repeat constructor. exists [[32]; [32]; [97]; [98]]%N. split; [reflexivity|]. repeat constructor; discriminate.
  - vm_compute. split; [discriminate|]. left. reflexivity.
Qed.
