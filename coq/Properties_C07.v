(* Properties_C07.v -- C07: vi cursor motions land where the reference motion semantics say.
   Statements only; every proof is `exact <lemma>`; Print Assumptions under each. *)
From Coq Require Import List NArith ZArith.
From NV Require Import Bytes UcDefs MotDefs MotProps.
Import ListNotations.
Local Open Scope Z_scope.

Theorem C07_text_unchanged : forall b rows cs b' s, run_prog b rows cs = Some (b', s) -> b' = b.
Proof. exact run_prog_text. Qed.
Print Assumptions C07_text_unchanged.
