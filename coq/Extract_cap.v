(* Extract_cap.v -- extraction of the C05 capacity models to OCaml (ExtrOcamlBasic only). *)
From Coq Require Import List NArith ZArith Extraction ExtrOcamlBasic.
From NV Require Import Bytes GenConsts GenCap GenExCmds CapDefs CapDefs2 CapDefs3 CapDefs4.
Definition all_types : nat * N * Z := (0%nat, 0%N, 0%Z).
Extraction "cap_model.ml" all_types ex_exec ex_exec_unguarded ex_loc ex_cmd ex_arg ex_lineno ex_region
  ex_plus cutword ec_set_bufs newbuf wstr t_init t_step t_run excap
  REG reg_put reg_get markidx lbuf_mark lbuf_jump vb_run back_after_read rep_copy led_render_off cells_index
  ex_pathexpand ex_pathexpand_gen b_run b_run_gen b_init bufs_findroom
  REGSZ VIBUFSZ VIBUFGUARD PATHCAP NMARKS NBUFS REPCMDSZ ICMDSZ
  vi_help_tag_gen vi_help_tag ai_init ai_step ai_run TAGSZ AISZ uc_trim cut_store
  replace offs_ok NOFFS.
