(* Extract_cap.v -- extraction of the C05 capacity models to OCaml (ExtrOcamlBasic only). *)
From Coq Require Import List NArith ZArith Extraction ExtrOcamlBasic.
From NV Require Import Bytes GenConsts GenExCmds CapDefs.
Definition all_types : nat * N * Z := (0%nat, 0%N, 0%Z).
Extraction "cap_model.ml" all_types ex_exec ex_exec_unguarded ex_loc ex_cmd ex_arg ex_lineno ex_region
  ex_plus cutword ec_set_bufs newbuf wstr t_init t_step t_run excap.
