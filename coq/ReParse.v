(* ReParse.v -- byte-level model of the parser of regex.c: brk_len, ratom_read, rnode_grp,
   rnode_atom, rnode_seq, rnode_parse.  A pointer into the pattern is the remaining suffix
   (terminator implicit); every read beyond the terminator is a distinct OOB result.  No proofs. *)
From Coq Require Import List NArith ZArith Bool.
From NV Require Import Bytes GenConsts ReSyntax.
Import ListNotations.
Local Open Scope N_scope.

(* ---- brk_len ------------------------------------------------------------------------------ *)
(* the scanning loop after the optional '^' and ']':
     while (s[n] && s[n] != ']') { if (s[n] == '[' && (s[n+1] == ':' || s[n+1] == '=')) while (s[n] && s[n] != ']') n++;
                                   if (s[n]) n++; }
   inner = inside a [: :] / [= =] item (looking for its ']') *)
Fixpoint brk_body (inner : bool) (s : bytes) : nat :=
  match s with
  | [] => 0
  | c :: r =>
    if inner then (if c =? 93 then S (brk_body false r) else S (brk_body true r))
    else if c =? 93 then 0%nat
    else if (c =? 91) && ((hd0 r =? 58) || (hd0 r =? 61)) then S (brk_body true r)
    else S (brk_body false r)
  end.

Definition brk_len (s : bytes) : nat :=
  let n1 := if nthb s 1 =? 94 then 2%nat else 1%nat in
  let n2 := if nthb s n1 =? 93 then S n1 else n1 in
  let n := (n2 + brk_body false (skipn n2 s))%nat in
  if nthb s n =? 93 then S n else n.

(* ---- ratom_read --------------------------------------------------------------------------- *)
(* the literal run of the default case.  first = (s == *pat).  n = bytes taken so far.
   A literal that starts at the terminator (pattern ending in a lone backslash) makes the C loop
   spin: uc_len is 0.  That is NoFuel here. *)
Fixpoint chr_run (k : nat) (first : bool) (s : bytes) (n : nat) : res nat :=
  match k with
  | O => NoFuel
  | S k' =>
    let c := hd0 s in
    if first || negb ((c =? 0) || memb c re_meta) then
      let l := re_uclen s in
      if first then
        (if Nat.eqb l 0 then NoFuel else do s' <- adv SUcLen s l; chr_run k' false s' (n + l))
      else
        do d <- rdk SUcLen s l;
        if negb (d =? 0) && memb d re_rep then Ok n
        else do s' <- adv SUcLen s l; chr_run k' false s' (n + l)
    else Ok n
  end.

Definition chr_lit (s : bytes) : res (atom * bytes) :=
  do n <- chr_run (S (length s)) true s 0;
  Ok (AChr (firstn n s), skipn n s).

Definition ratom_read (s : bytes) : res (atom * bytes) :=
  match s with
  | [] => chr_lit s
  | c :: r =>
    if c =? 46 then Ok (AAny, r)
    else if c =? 94 then Ok (ABeg, r)
    else if c =? 36 then Ok (AEnd, r)
    else if c =? 91 then let n := brk_len s in Ok (ABrk (firstn n s), skipn n s)
    else if c =? 92 then
      match r with
      | d :: r' => if d =? 60 then Ok (AWBeg, r') else if d =? 62 then Ok (AWEnd, r') else chr_lit r
      | [] => chr_lit r
      end
    else chr_lit s
  end.

(* ---- rnode_atom: the repetition suffixes ---------------------------------------------------- *)
Definition isdigit (c : N) : bool := (48 <=? c) && (c <=? 57).

(* while (isdigit(c = next char)) { cnt = cnt * 10 + c - 48; if (cnt > NREPS) cnt = NREPS + 1; } *)
Fixpoint digits (s : bytes) (cnt : Z) : Z * bytes :=
  match s with
  | c :: r => if isdigit c then
                let v := (cnt * 10 + Z.of_N c - 48)%Z in
                digits r (if (NREPS <? v)%Z then (NREPS + 1)%Z else v)
              else (cnt, s)
  | [] => (cnt, s)
  end.

(* returns None for a rejected count, else the counts and the rest *)
Definition rep_suffix (s : bytes) : res (option (Z * Z) * bytes) :=
  let '(mn, mx, s) :=
    if (hd0 s =? 42) || (hd0 s =? 63) then (0%Z, if hd0 s =? 42 then (-1)%Z else 1%Z, tl s) else (1%Z, 1%Z, s) in
  let '(mn, mx, s) := if hd0 s =? 43 then (1%Z, (-1)%Z, tl s) else (mn, mx, s) in
  if hd0 s =? 123 then
    let s := tl s in
    let '(mn, s) := digits s 0%Z in
    let '(mx, s) :=
      if hd0 s =? 44 then
        let s := tl s in
        digits s (if hd0 s =? 125 then (-1)%Z else 0%Z)
      else (mn, s) in
    (* if the next byte is not '}' or a count is bad: re_bad = 1, return NULL; else step over the '}'  (strict since the fix) *)
    if negb (hd0 s =? 125) || (NREPS <? mn)%Z || (NREPS <? mx)%Z || ((0 <=? mx)%Z && (mx <? mn)%Z) then Ok (None, s)
    else Ok (Some (mn, mx), tl s)
  else Ok (Some (mn, mx), s).

Definition set_rep (n : node) (mn mx : Z) : node :=
  match n with
  | NAtom a _ _ => NAtom a mn mx
  | NGrp x g _ _ => NGrp x g mn mx
  | _ => n
  end.

Section Parse.
  Variable parse : bytes -> res (option node * bytes).

  Definition rnode_grp (s : bytes) : res (option node * bytes) :=
    if negb (hd0 s =? 40) then Ok (None, s)
    else
      let s1 := tl s in
      do xs <- (if negb (hd0 s1 =? 41) then
                  do rs <- parse s1;
                  match rs with (Some x, s2) => Ok (Some x, s2) | (None, s2) => Ok (None, s2) end
                else Ok (Some NNil, s1));
      match xs with
      | (None, s2) => Ok (None, s2)
      | (Some x, s2) => if negb (hd0 s2 =? 41) then Ok (None, s2) else Ok (Some (NGrp x 0 1 1), tl s2)
      end.

  Definition rnode_atom (s : bytes) : res (option node * bytes) :=
    if (hd0 s =? 0) || (hd0 s =? 124) || (hd0 s =? 41) then Ok (None, s)
    else
      do ns <- (if hd0 s =? 40 then rnode_grp s
                else do a <- ratom_read s; Ok (Some (NAtom (fst a) 1 1), snd a));
      match ns with
      | (None, s1) => Ok (None, s1)
      | (Some n, s1) =>
        do rp <- rep_suffix s1;
        match rp with
        | (None, s2) => Ok (None, s2)
        | (Some (mn, mx), s2) => Ok (Some (set_rep n mn mx), s2)
        end
      end.

  Fixpoint rnode_seq (f : nat) (s : bytes) : res (option node * bytes) :=
    match f with
    | O => NoFuel
    | S f' =>
      do c1 <- rnode_atom s;
      match c1 with
      | (None, s1) => Ok (None, s1)
      | (Some x, s1) =>
        do c2 <- rnode_seq f' s1;
        match c2 with
        | (Some y, s2) => Ok (Some (NCat x y), s2)
        | (None, s2) => Ok (Some x, s2)
        end
      end
    end.
End Parse.

Fixpoint rnode_parse (f : nat) (s : bytes) : res (option node * bytes) :=
  match f with
  | O => NoFuel
  | S f' =>
    do c1 <- rnode_seq (rnode_parse f') f' s;
    let '(x, s1) := c1 in
    if negb (hd0 s1 =? 124) then Ok (x, s1)
    else
      do c2 <- rnode_parse f' (tl s1);
      match c2 with
      | (Some y, s2) => Ok (Some (NAlt (of_opt x) y), s2)
      | (None, s2) => Ok (x, s2)
      end
  end.

(* ---- the flag re_bad: set when a group has nothing inside / is not closed (rnode_grp) or a repetition
   is malformed (rnode_atom); the parse goes on, regcomp looks at the flag afterwards.  The functions
   below follow the control flow of the parser and return whether the flag was set during the call. *)
Definition rep_bad (s : bytes) : bool := match rep_suffix s with Ok (None, _) => true | _ => false end.

Section ParseBad.
  Variable parse : bytes -> res (option node * bytes).
  Variable pbad : bytes -> bool.

  Definition rnode_grp_bad (s : bytes) : bool :=
    if negb (hd0 s =? 40) then false
    else
      let s1 := tl s in
      if negb (hd0 s1 =? 41) then
        match parse s1 with
        | Ok (Some _, s2) => pbad s1 || negb (hd0 s2 =? 41)
        | Ok (None, _) => true
        | _ => false
        end
      else false.

  Definition rnode_atom_bad (s : bytes) : bool :=
    if (hd0 s =? 0) || (hd0 s =? 124) || (hd0 s =? 41) then false
    else if hd0 s =? 40 then
      match rnode_grp parse s with
      | Ok (Some _, s1) => rnode_grp_bad s || rep_bad s1
      | Ok (None, _) => rnode_grp_bad s
      | _ => false
      end
    else match ratom_read s with Ok a => rep_bad (snd a) | _ => false end.

  Fixpoint rnode_seq_bad (f : nat) (s : bytes) : bool :=
    match f with
    | O => false
    | S f' =>
      match rnode_atom parse s with
      | Ok (Some _, s1) => rnode_atom_bad s || rnode_seq_bad f' s1
      | Ok (None, _) => rnode_atom_bad s
      | _ => false
      end
    end.
End ParseBad.

Fixpoint rnode_parse_bad (f : nat) (s : bytes) : bool :=
  match f with
  | O => false
  | S f' =>
    match rnode_seq (rnode_parse f') f' s with
    | Ok (_, s1) =>
      rnode_seq_bad (rnode_parse f') (rnode_parse_bad f') f' s
      || (if negb (hd0 s1 =? 124) then false else rnode_parse_bad f' (tl s1))
    | _ => false
    end
  end.

Definition parse_fuel (s : bytes) : nat := (2 * length s + 2)%nat.
Definition parse_bad (s : bytes) : bool := rnode_parse_bad (parse_fuel s) s.
Definition parse_pat (s : bytes) : res (option node * bytes) := rnode_parse (parse_fuel s) s.
