(* ReProps9.v -- C10_rset_index: the index rset_find returns is that of an alternative whose wrapper
   group is set in regexec's answer, and the groups it hands back are that alternative's groups,
   renumbered from 0 (group i of the alternative = group grp[set] + i of the combined expression,
   -1/-1 beyond the alternative's own groups). *)
From Coq Require Import List Arith Lia Bool ZArith NArith ZifyN ZifyBool ZifyNat.
From NV Require Import Bytes GenConsts ReSyntax ReParse ReEmit ReVM ReSem RsetDefs.
Import ListNotations.

Lemma rset_which_spec subs : forall grp i set0,
  let r := rset_which grp subs i set0 in
  r = set0 \/ ((i <= r < i + Z.of_nat (length grp))%Z /\
               (0 <= nth (Z.to_nat (r - i)) grp (-1)%Z)%Z /\
               (0 <= fst (nth (Z.to_nat (nth (Z.to_nat (r - i)) grp (-1)%Z)) subs ((-1)%Z, (-1)%Z)))%Z).
Proof.
  induction grp as [|g rest IH]; intros i set0; cbn [rset_which length]; [left; reflexivity|].
  specialize (IH (i + 1)%Z (if (0 <=? g)%Z && (0 <=? fst (nth (Z.to_nat g) subs ((-1)%Z, (-1)%Z)))%Z then i else set0)).
  cbv zeta in IH. destruct IH as [E|(R1 & R2 & R3)].
  - rewrite E. destruct ((0 <=? g)%Z && (0 <=? fst (nth (Z.to_nat g) subs ((-1)%Z, (-1)%Z)))%Z) eqn:C; [|left; reflexivity].
    right. apply andb_prop in C. destruct C as [C1 C2]. replace (i - i)%Z with 0%Z by lia. cbn [Z.to_nat nth]. lia.
  - right. set (r := rset_which rest subs (i + 1) _) in *. split; [lia|].
    replace (Z.to_nat (r - i)) with (S (Z.to_nat (r - (i + 1)))) by lia. cbn [nth]. split; assumption.
Qed.

Theorem rset_index d rs line n flg idx g c : rset_find_d d rs line n flg = (Ok (idx, g), c) -> (0 <= idx)%Z ->
  exists subs, regexec_d d (rs_prog rs) (rs_cflg rs) line (rs_grpcnt rs)
                 (Z.lor REG_NEWLINE (Z.lor (if has flg RE_NOTBOL then REG_NOTBOL else 0%Z) (if has flg RE_NOTEOL then REG_NOTEOL else 0%Z))) = (Ok (Some subs), c) /\
    (idx < Z.of_nat (length (firstn (rs_n rs) (rs_grp rs))))%Z /\
    let base := nth (Z.to_nat idx) (firstn (rs_n rs) (rs_grp rs)) (-1)%Z in
    (0 <= base)%Z /\ (0 <= fst (nth (Z.to_nat base) subs ((-1)%Z, (-1)%Z)))%Z /\
    g = map (fun i => if Nat.ltb i (nth (Z.to_nat idx) (rs_setgrpcnt rs) O + 1)
                      then nth (Z.to_nat (nth (Z.to_nat idx) (rs_grp rs) 0%Z) + i) subs ((-1)%Z, (-1)%Z) else ((-1)%Z, (-1)%Z)) (seq 0 n).
Proof.
  unfold rset_find_d. intros H Hs.
  destruct (Nat.leb (rs_grpcnt rs) 2); [inversion H; subst; lia|].
  destruct (regexec_d d (rs_prog rs) (rs_cflg rs) line (rs_grpcnt rs) _) as [[[subs|]| |] c0] eqn:E; try (inversion H; subst; lia); try discriminate.
  exists subs.
  pose proof (rset_which_spec subs (firstn (rs_n rs) (rs_grp rs)) 0%Z (-1)%Z) as W. cbv zeta in W.
  set (r := rset_which (firstn (rs_n rs) (rs_grp rs)) subs 0 (-1)) in *.
  destruct (r <? 0)%Z eqn:N; [inversion H; subst; lia|].
  inversion H; subst; clear H. split; [reflexivity|].
  destruct W as [W|(W1 & W2 & W3)]; [lia|]. replace (r - 0)%Z with r in * by lia.
  split; [lia|]. cbv zeta. split; [exact W2|]. split; [exact W3 | reflexivity].
Qed.
