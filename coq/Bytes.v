(* Bytes.v -- byte strings as lists of N, finite sweeps over the 256 byte values, and the bit
   lemmas that turn masks into mod, shifts into products and disjoint or into plus. *)
From Coq Require Import List NArith ZArith Lia Bool ZifyN ZifyBool ZifyNat.
Import ListNotations.
Local Open Scope N_scope.
Ltac Zify.zify_post_hook ::= Z.div_mod_to_equations.

Definition bytes := list N.

(* a C string is a list of non-NUL bytes; the terminator is implicit *)
Definition byte_ok (b : N) : Prop := 0 < b < 256.
Definition nonul (s : bytes) : Prop := Forall byte_ok s.
Definition hd0 (s : bytes) : N := match s with [] => 0 | b :: _ => b end.   (* *s *)
Definition nthb (s : bytes) (i : nat) : N := nth i s 0.                       (* s[i], NUL at and past the end *)

(* c & m != 0 *)
Definition bit (c m : N) : bool := negb (N.land c m =? 0).

Definition bytes256 : list N := map N.of_nat (seq 0 256).
Lemma in_bytes256 b : b < 256 -> In b bytes256.
Proof.
  intro H. unfold bytes256. apply in_map_iff. exists (N.to_nat b). split; [apply N2Nat.id|].
  apply in_seq. lia.
Qed.
Lemma byte_sweep (P : N -> bool) : forallb P bytes256 = true -> forall b, b < 256 -> P b = true.
Proof. intros H b Hb. rewrite forallb_forall in H. apply H. apply in_bytes256. exact Hb. Qed.

Lemma land_ones_mod a k : N.land a (N.ones k) = a mod 2 ^ k.
Proof. apply N.land_ones. Qed.
Lemma shiftl_land_low a b k : b < 2 ^ k -> N.land (N.shiftl a k) b = 0.
Proof.
  intro H. apply N.bits_inj_iff. intro n. rewrite N.land_spec, N.bits_0.
  destruct (N.ltb_spec n k).
  - rewrite N.shiftl_spec_low by assumption. reflexivity.
  - destruct (N.eq_dec b 0) as [->|Hb]. { rewrite N.bits_0. apply andb_false_r. }
    rewrite (N.bits_above_log2 b n). { apply andb_false_r. }
    apply N.log2_lt_pow2 in H; [|lia]. lia.
Qed.
Lemma lor_shiftl_add a b k : b < 2 ^ k -> N.lor (N.shiftl a k) b = a * 2 ^ k + b.
Proof.
  intro H. rewrite <- N.lxor_lor by (apply shiftl_land_low; assumption).
  rewrite <- N.add_nocarry_lxor by (apply shiftl_land_low; assumption).
  rewrite N.shiftl_mul_pow2. reflexivity.
Qed.
(* (a << (j+k)) | (b << k) = ((a << j) | b) << k *)
Lemma lor_shiftl_shiftl a b j k : N.lor (N.shiftl a (j + k)) (N.shiftl b k) = N.shiftl (N.lor (N.shiftl a j) b) k.
Proof. rewrite N.shiftl_lor, N.shiftl_shiftl. reflexivity. Qed.

Lemma shiftr_div a k : N.shiftr a k = a / 2 ^ k.
Proof. apply N.shiftr_div_pow2. Qed.

(* list helpers used everywhere *)
Lemma skipn_skipn {A} (n m : nat) (l : list A) : skipn n (skipn m l) = skipn (m + n) l.
Proof.
  revert l; induction m as [|m IH]; intro l; [reflexivity|].
  destruct l as [|x l]; [now rewrite !skipn_nil|]. cbn [skipn plus]. apply IH.
Qed.
Lemma firstn_app_exact {A} (l r : list A) : firstn (length l) (l ++ r) = l.
Proof. rewrite firstn_app, Nat.sub_diag, firstn_all. cbn. apply app_nil_r. Qed.
Lemma skipn_app_exact {A} (l r : list A) : skipn (length l) (l ++ r) = r.
Proof. rewrite skipn_app, Nat.sub_diag, skipn_all. reflexivity. Qed.
Lemma Forall_firstn' {A} (P : A -> Prop) n (l : list A) : Forall P l -> Forall P (firstn n l).
Proof. intro H. rewrite <- (firstn_skipn n l) in H. apply Forall_app in H. apply H. Qed.
Lemma Forall_skipn' {A} (P : A -> Prop) n (l : list A) : Forall P l -> Forall P (skipn n l).
Proof. intro H. rewrite <- (firstn_skipn n l) in H. apply Forall_app in H. apply H. Qed.
