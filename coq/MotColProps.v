(* MotColProps.v -- C07: the column model of a line of ANY length and the remembered ("sticky") column
   of j / k after a motion that succeeds without moving the cursor.

   (1) Columns.  ren.c lays a line out with ren_position(); lines of at most xlim (256) characters
   that contain multi-byte characters go through ren_position_reorder() (the identity order for a
   left-to-right line), every longer line goes through the plain loop, whatever it contains.
   MotDefs.ren_position is that loop with no length limit, so the statements below hold for lines
   of every length: the column of a character is the sum of the cell widths of the characters
   before it (ren_pos_zero / ren_pos_succ), a tab reaches the next multiple of 8, the width of any
   other character does not depend on the column, and ren_off -- what j, k and N| use -- returns
   the character whose cells cover the wanted column (the last character when the column is
   beyond the end of the line).

   (2) The sticky column.  do_motion recomputes the remembered column from the landing position
   after EVERY successful motion other than j k | -- also when the landing position is the
   position the cursor was on -- so the previous remembered column has no influence on anything
   that follows (do_motion_col_reset, nonjk_then_jk). *)
From Coq Require Import List NArith ZArith Bool Lia.
From NV Require Import Bytes UcDefs GenUcTables GenConf MotDefs MotProps MotWordProps.
Import ListNotations.
Local Open Scope Z_scope.

(* ---------- (1) columns ---------- *)
Lemma ren_position_nth0 l c : nth 0 (ren_position l c) 0 = c.
Proof. destruct l; reflexivity. Qed.

Lemma ren_position_nth_succ l : forall c k, (k < length l)%nat ->
  nth (S k) (ren_position l c) 0 = nth k (ren_position l c) 0 + ren_cwid (nth k l []) (nth k (ren_position l c) 0).
Proof.
  induction l as [|x l IH]; intros c k Hk; [cbn in Hk; lia|].
  destruct k as [|k].
  - cbn [ren_position nth]. rewrite ren_position_nth0. reflexivity.
  - cbn [length] in Hk. change (nth (S (S k)) (ren_position (x :: l) c) 0) with (nth (S k) (ren_position l (c + ren_cwid x c)) 0).
    change (nth (S k) (ren_position (x :: l) c) 0) with (nth k (ren_position l (c + ren_cwid x c)) 0).
    change (nth (S k) (x :: l) []) with (nth k l []). apply IH. lia.
Qed.

Lemma ren_pos_nth l k : (k < length l)%nat -> ren_pos l (Z.of_nat k) = nth k (ren_position l 0) 0.
Proof.
  intro Hk. unfold ren_pos, slen.
  destruct (Z.leb_spec 0 (Z.of_nat k)); [|lia]. destruct (Z.ltb_spec (Z.of_nat k) (Z.of_nat (length l))); [|lia].
  cbn [andb]. rewrite Nat2Z.id. unfold positions. apply nth_firstn_lt. exact Hk.
Qed.

(* the first character is in column 0 *)
Lemma ren_pos_zero l : 0 < slen l -> ren_pos l 0 = 0.
Proof.
  intro H. unfold slen in H. change 0 with (Z.of_nat 0) at 1. rewrite ren_pos_nth by lia. apply ren_position_nth0.
Qed.

(* every character begins where the cells of the one before it end *)
Lemma ren_pos_succ l i : 0 <= i -> i + 1 < slen l ->
  ren_pos l (i + 1) = ren_pos l i + ren_cwid (chr_at l i) (ren_pos l i).
Proof.
  intros Hi Hl. unfold slen in Hl.
  replace (i + 1) with (Z.of_nat (S (Z.to_nat i))) by lia.
  replace i with (Z.of_nat (Z.to_nat i)) at 2 3 4 by lia.
  rewrite !ren_pos_nth by lia. unfold chr_at. destruct (Z.ltb_spec (Z.of_nat (Z.to_nat i)) 0); [lia|].
  rewrite Nat2Z.id. apply ren_position_nth_succ. lia.
Qed.

(* cell widths: a tab reaches the next multiple of 8; every other character has a width that does
   not depend on the column (so not on what precedes it, and not on the length of the line) *)
Lemma cwid_tab c pos : b0 c = 9%N -> 0 <= pos -> ren_cwid c pos = 8 - pos mod 8 /\ (pos + ren_cwid c pos) mod 8 = 0.
Proof.
  intros Hb Hp. unfold ren_cwid. rewrite Hb. cbn [N.eqb Pos.eqb].
  change 7 with (Z.ones 3). rewrite Z.land_ones by lia. change (2 ^ 3) with 8. split; [reflexivity|].
  pose proof (Z.mod_pos_bound pos 8 ltac:(lia)).
  replace (pos + (8 - pos mod 8)) with (8 * (pos / 8 + 1)) by (pose proof (Z.div_mod pos 8 ltac:(lia)); lia).
  rewrite Z.mul_comm. apply Z.mod_mul. lia.
Qed.

Lemma cwid_nontab c p q : b0 c <> 9%N -> ren_cwid c p = ren_cwid c q.
Proof. intro Hb. unfold ren_cwid. destruct (N.eqb_spec (b0 c) 9); [contradiction|reflexivity]. Qed.

(* ren_off: the character covering column p *)
Lemma positions_nth0 l : (0 < length l)%nat -> nth 0 (positions l) 0 = 0.
Proof. intro H. unfold positions. rewrite nth_firstn_lt by exact H. apply ren_position_nth0. Qed.

Lemma ren_pos_positions l k : (k < length l)%nat -> ren_pos l (Z.of_nat k) = nth k (positions l) 0.
Proof. intro Hk. rewrite ren_pos_nth by exact Hk. unfold positions. symmetry. apply nth_firstn_lt. exact Hk. Qed.

Lemma ren_off_covering l p : 0 <= p -> 0 < slen l ->
  let o := ren_off l p in
  0 <= o < slen l /\ ren_pos l o <= p /\ (o + 1 < slen l -> p < ren_pos l (o + 1)).
Proof.
  intros Hp Hl. unfold slen in Hl. cbv zeta.
  destruct (positions_incr l) as [Hi Hn]. pose proof (positions_len l) as Hlen.
  destruct (pos_prev_spec (positions l) p true) as [[_ H]|(H1 & H2 & H3)].
  - exfalso. apply (H (nth 0 (positions l) 0)); [apply nth_In; lia|]. rewrite positions_nth0 by lia. lia.
  - apply (In_nth _ _ 0) in H1. destruct H1 as (k & Hk & Ek). rewrite Hlen in Hk.
    assert (Eo : ren_off l p = Z.of_nat k).
    { unfold ren_off. cbv zeta. rewrite <- Ek. rewrite (last_index_self _ Hi) by lia.
      destruct (Z.leb_spec 0 (Z.of_nat k)); [reflexivity|lia]. }
    rewrite Eo. unfold slen. split; [lia|]. split.
    + rewrite ren_pos_positions by exact Hk. lia.
    + intro Hs. replace (Z.of_nat k + 1) with (Z.of_nat (S k)) by lia. rewrite ren_pos_positions by lia.
      destruct (Z.lt_ge_cases p (nth (S k) (positions l) 0)) as [Hlt|Hge]; [exact Hlt|]. exfalso.
      assert (HS : (S k < length (positions l))%nat) by lia.
      specialize (H3 (nth (S k) (positions l) 0) (nth_In _ _ HS) ltac:(lia)).
      pose proof (Hi k (S k) ltac:(lia)). lia.
Qed.

(* a column inside the line: the offset whose cells contain it; a column at or beyond the end of the
   last character (the terminator's column included): the last character of the list *)
Lemma ren_off_unique l p o : 0 <= p -> 0 <= o < slen l -> ren_pos l o <= p -> (o + 1 < slen l -> p < ren_pos l (o + 1)) ->
  ren_off l p = o.
Proof.
  intros Hp Ho H1 H2. destruct (ren_off_covering l p Hp ltac:(lia)) as (Hr & G1 & G2).
  set (o' := ren_off l p) in *.
  destruct (Z.lt_trichotomy o o') as [Hlt|[E|Hgt]]; [|symmetry; exact E|].
  - exfalso. specialize (H2 ltac:(lia)).
    destruct (Z.eq_dec (o + 1) o') as [E|Hne]; [rewrite E in H2; lia|].
    pose proof (columns_increasing l (o + 1) o' ltac:(lia) ltac:(lia)). lia.
  - exfalso. specialize (G2 ltac:(lia)).
    destruct (Z.eq_dec (o' + 1) o) as [E|Hne]; [rewrite E in G2; lia|].
    pose proof (columns_increasing l (o' + 1) o ltac:(lia) ltac:(lia)). lia.
Qed.

(* ---------- (2) the remembered column ---------- *)
Definition with_col (s : vst) (c : Z) : vst := mk_vst (v_row s) (v_off s) c (v_top s) (v_cl s) (v_cc s) (v_pcol s).

(* a successful motion other than j / k forgets the remembered column it started with *)
Lemma do_motion_col_reset b rows a1 a2 k s c r o cl cc pc : is_jk k = false ->
  vi_motion b rows (v_top s) (v_cl s) (v_cc s) (v_pcol s) (m_has a1 a2) (m_cnt a1 a2) k (v_row s)
            (ren_noeol (getl b (v_row s)) (v_off s)) = MvOk r o cl cc pc ->
  do_motion b rows a1 a2 k (with_col s c) = do_motion b rows a1 a2 k s.
Proof.
  intros Hj M. unfold do_motion, with_col. cbn [v_row v_off v_col v_top v_cl v_cc v_pcol].
  fold (m_cnt a1 a2). fold (m_has a1 a2). rewrite M. rewrite Hj. reflexivity.
Qed.

(* a failing motion keeps it (the other half of the rule) *)
Lemma do_motion_col_kept b rows a1 a2 k s c cl cc : buf_wf b -> cursor_ok b (v_row s) (v_off s) ->
  vi_motion b rows (v_top s) (v_cl s) (v_cc s) (v_pcol s) (m_has a1 a2) (m_cnt a1 a2) k (v_row s)
            (ren_noeol (getl b (v_row s)) (v_off s)) = MvFail cl cc ->
  exists s', do_motion b rows a1 a2 k (with_col s c) = Some s' /\ v_row s' = v_row s /\ v_off s' = v_off s /\ v_col s' = c.
Proof.
  intros HW Hc M. apply (do_motion_fail b rows a1 a2 k (with_col s c) cl cc HW); [exact Hc|exact M].
Qed.

(* the unmoved case spelt out: the motion succeeded, is not j k |, and the cursor is where it was --
   the remembered column is now the column of the cursor, whatever it was before *)
Lemma unmoved_motion_resets_col b rows a1 a2 k s r o cl cc pc l : buf_wf b -> 0 <= v_off s ->
  is_jk k = false -> is_bar k = false ->
  vi_motion b rows (v_top s) (v_cl s) (v_cc s) (v_pcol s) (m_has a1 a2) (m_cnt a1 a2) k (v_row s)
            (ren_noeol (getl b (v_row s)) (v_off s)) = MvOk r o cl cc pc ->
  getl b r = Some l ->
  exists s', do_motion b rows a1 a2 k s = Some s' /\
             (v_row s' = v_row s -> v_off s' = v_off s -> getl b (v_row s) = Some l /\ v_col s' = ren_pos l (v_off s)).
Proof.
  intros HW Ho Hj Hb M El.
  destruct (do_motion_land b rows a1 a2 k s r o cl cc pc l HW Ho M El) as (s' & E & H1 & _ & H3 & _).
  exists s'. split; [exact E|]. intros Er Eo. rewrite Hb, Hj in H3. rewrite <- Er, H1. split; [exact El|].
  rewrite H3, Eo. reflexivity.
Qed.

(* the rule the next j / k sees: after ANY successful motion k other than j k |, a following j / k
   lands on the character covering the column of the cursor after k -- nothing of the column
   remembered before k survives, whether or not k moved the cursor *)
Lemma nonjk_then_jk b rows a1 a2 k a1' a2' k' s r o cl cc pc l : buf_wf b -> 0 <= v_off s ->
  is_jk k = false -> is_bar k = false -> is_jk k' = true ->
  vi_motion b rows (v_top s) (v_cl s) (v_cc s) (v_pcol s) (m_has a1 a2) (m_cnt a1 a2) k (v_row s)
            (ren_noeol (getl b (v_row s)) (v_off s)) = MvOk r o cl cc pc ->
  getl b r = Some l ->
  exists s1, do_motion b rows a1 a2 k s = Some s1 /\ v_row s1 = r /\ v_col s1 = ren_pos l (v_off s1) /\
    forall l', getl b (line_target b rows (v_top s1) (m_has a1' a2') (m_cnt a1' a2') k' r) = Some l' ->
    exists s2, do_motion b rows a1' a2' k' s1 = Some s2 /\
      v_row s2 = line_target b rows (v_top s1) (m_has a1' a2') (m_cnt a1' a2') k' r /\
      v_off s2 = ren_noeol (Some l') (ren_off l' (ren_pos l (v_off s1))) /\
      v_col s2 = ren_pos l (v_off s1).
Proof.
  intros HW Ho Hj Hb Hj' M El.
  destruct (do_motion_land b rows a1 a2 k s r o cl cc pc l HW Ho M El) as (s1 & E & H1 & _ & H3 & _).
  rewrite Hb, Hj in H3. exists s1. split; [exact E|]. split; [exact H1|]. split; [exact H3|].
  intros l' El'.
  assert (Ho1 : 0 <= v_off s1) by (eapply cursor_ok_off, do_motion_ok; eauto).
  rewrite <- H1 in El'.
  destruct (jk_lands b rows a1' a2' k' s1 l' HW Ho1 Hj' El') as (s2 & E2 & G1 & G2 & G3).
  exists s2. rewrite H1 in G1. rewrite H3 in G2, G3. auto.
Qed.

(* ---------- examples (the translated programs are run by the kernel) ---------- *)
(* "abcdefghij" / "abc" / "ABCDEFGHIJ" *)
Definition sticky_witness : buf :=
  buf_of_bytes [97; 98; 99; 100; 101; 102; 103; 104; 105; 106; 10; 97; 98; 99; 10; 65; 66; 67; 68; 69; 70; 71; 72; 73; 74; 10]%N.
(* "abcdefghij" / TAB "x" *)
Definition sticky_tab_witness : buf := buf_of_bytes [97; 98; 99; 100; 101; 102; 103; 104; 105; 106; 10; 9; 120; 10]%N.

Definition lands (b : buf) (cs : list mcmd) : option (Z * Z * Z) :=
  match run b 23 cs init_vst with Some s => Some (v_row s, v_off s, v_col s) | None => None end.

Lemma sticky_examples :
  (* $ j j : the column 9 survives the short line *)
  lands sticky_witness [Mot 0 Kdollar; Mot 0 Kj; Mot 0 Kj] = Some (2, 9, 9) /\
  (* $ j : on the c of "abc", still aiming for column 9 *)
  lands sticky_witness [Mot 0 Kdollar; Mot 0 Kj] = Some (1, 2, 9) /\
  (* $ j $ j, $ j l j, $ j e .. : a motion that succeeds where the cursor already is; from then on the column is 2 *)
  lands sticky_witness [Mot 0 Kdollar; Mot 0 Kj; Mot 0 Kdollar] = Some (1, 2, 2) /\
  lands sticky_witness [Mot 0 Kdollar; Mot 0 Kj; Mot 0 Kdollar; Mot 0 Kj] = Some (2, 2, 2) /\
  lands sticky_witness [Mot 0 Kdollar; Mot 0 Kj; Mot 0 Kl; Mot 0 Kj] = Some (2, 2, 2) /\
  lands sticky_witness [Mot 0 Kdollar; Mot 0 Kj; Mot 0 Kspace; Mot 0 Kj] = Some (2, 2, 2) /\
  lands sticky_witness [Mot 0 Kdollar; Mot 0 Kj; Mot 0 (Kt [99%N]); Mot 0 Kj] = Some (2, 9, 9) /\   (* tc fails on the c: column kept *)
  lands sticky_witness [Mot 9 Kbar; Mot 0 Kj; Mot 0 Kdollar; Mot 0 Kk] = Some (0, 2, 2) /\
  (* l l l j 0 k : j lands on the tab (columns 0-7) aiming for column 3; 0 targets offset 0, where the cursor is *)
  lands sticky_tab_witness [Mot 0 Kl; Mot 0 Kl; Mot 0 Kl; Mot 0 Kj] = Some (1, 0, 3) /\
  lands sticky_tab_witness [Mot 0 Kl; Mot 0 Kl; Mot 0 Kl; Mot 0 Kj; Mot 0 K0; Mot 0 Kk] = Some (0, 0, 0) /\
  lands sticky_tab_witness [Mot 0 Kl; Mot 0 Kl; Mot 0 Kl; Mot 0 Kj; Mot 0 Kk] = Some (0, 3, 3).
Proof. vm_compute. repeat split; reflexivity. Qed.

(* lines beyond the line limit of ren.c: "ab" U+6F22 (two columns) and 300 "c" / "0123456789";
   U+00E9 TAB "X" and 300 "c" *)
Definition long_witness : buf :=
  buf_of_bytes ([97; 98; 230; 188; 162] ++ repeat 99 300 ++ [10; 48; 49; 50; 51; 52; 53; 54; 55; 56; 57; 10])%N.
Definition long_tab_witness : buf := buf_of_bytes ([195; 169; 9; 88] ++ repeat 99 300 ++ [10])%N.

Lemma long_examples :
  (match getl long_witness 0 with Some l => slen l = 304 | None => False end) /\
  (* 10| : a 0, b 1, U+6F22 2-3, c 4 ... : column 9 is offset 8 *)
  lands long_witness [Mot 10 Kbar] = Some (0, 8, 9) /\
  lands long_witness [Mot 0 Kj; Mot 0 Kdollar; Mot 0 Kk] = Some (0, 8, 9) /\
  lands long_witness [Mot 0 Kdollar] = Some (0, 302, 303) /\
  (* 9| : U+00E9 0, TAB 1-7, X 8 *)
  lands long_tab_witness [Mot 9 Kbar] = Some (0, 2, 8) /\
  lands long_tab_witness [Mot 5 Kbar] = Some (0, 1, 4).
Proof. vm_compute. repeat split; reflexivity. Qed.

Lemma long_witness_wf : buf_wf long_witness /\ buf_wf sticky_witness /\ buf_wf sticky_tab_witness.
Proof.
  assert (H : forall b : buf, forallb (fun l : line => match rev l with
                                          | c :: body => (if list_eq_dec N.eq_dec c [10%N] then true else false) &&
                                                         forallb (fun c : chr => negb (N.eqb (b0 c) 10)) body
                                          | [] => false end) b = true -> buf_wf b).
  { intros b Hb. unfold buf_wf. rewrite Forall_forall. intros l Hin. rewrite forallb_forall in Hb. specialize (Hb l Hin). cbv beta in Hb.
    destruct (rev l) as [|c body] eqn:E; [discriminate|]. apply andb_true_iff in Hb. destruct Hb as [Hc Hbody].
    destruct (list_eq_dec N.eq_dec c [10%N]) as [->|]; [|discriminate].
    exists (rev body). split.
    - rewrite <- (rev_involutive l), E. reflexivity.
    - rewrite Forall_forall. intros x Hx. apply in_rev in Hx. rewrite forallb_forall in Hbody. specialize (Hbody x Hx).
      destruct (N.eqb_spec (b0 x) 10); [discriminate|assumption]. }
  repeat split; apply H; vm_compute; reflexivity.
Qed.
