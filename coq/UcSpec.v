(* UcSpec.v -- the specification side of C16: RFC 3629 encoding, code-point segmentation. *)
From Coq Require Import List NArith ZArith Bool.
From NV Require Import Bytes.
Import ListNotations.
Local Open Scope N_scope.

Definition encode (c : N) : bytes :=
  if c <? 128 then [c]
  else if c <? 2048 then [192 + c / 64; 128 + c mod 64]
  else if c <? 65536 then [224 + c / 4096; 128 + (c / 64) mod 64; 128 + c mod 64]
  else [240 + c / 262144; 128 + (c / 4096) mod 64; 128 + (c / 64) mod 64; 128 + c mod 64].

(* Unicode scalar values other than NUL (a C string cannot hold U+0000) *)
Definition scalar (c : N) : Prop := 0 < c /\ c <= 1114111 /\ ~ (55296 <= c <= 57343).
Definition scalar_b (c : N) : bool := (0 <? c) && (c <=? 1114111) && negb ((55296 <=? c) && (c <=? 57343)).

Definition chars (cs : list N) : bytes := flat_map encode cs.
Definition valid (s : bytes) : Prop := exists cs, Forall scalar cs /\ s = chars cs.

(* byte offset of the k-th character *)
Definition off_of (cs : list N) (k : nat) : nat := length (chars (firstn k cs)).
(* the n + 1 character boundaries, starting at base *)
Fixpoint bounds (cs : list N) (base : nat) : list nat :=
  base :: match cs with [] => [] | c :: r => bounds r (base + length (encode c)) end.
