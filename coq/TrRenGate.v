(* TrRenGate.v -- the GATE of ren_position (ren.c) on the translated C text (C18): the condition that hands the line
   to ren_position_reorder (dir_reorder) is RenDefs.use_reorder -- the number of CHARACTERS uc_slen(s) against
   xlim, strlen(s) only in `n < strlen(s)` (order 1: the line has a multi-byte sequence).
   ren_position_reorder is an extern of the translated program (it calls the regex engine); the body of
   ren_position is therefore executed with an ARBITRARY call function `call`, of which only the answer for uc_slen
   (the model's, TrUc.tr_uc_slen) and the answer r for ren_position_reorder(s) are given: with use_reorder o s = true
   the translated ren_position returns exactly r -- whatever the number of bytes of s. The other half (use_reorder
   = false: the fast path, no call of ren_position_reorder) is TrRenPos2.tr_ren_position_fast (C17). *)
From Coq Require Import List ZArith NArith Bool Lia.
From NV Require Import Bytes UcDefs RenDefs RenOrdDefs RenOrdProps CLite CLiteProps GenCFuncs CLiteTac TrUc.
Import ListNotations.
Local Open Scope Z_scope.

Definition gate_result (r : res (val * mem)) (loc : list val) : outcome :=
  match r with Ok (v, M) => OReturn v (mkst loc M) | Err x => OErr x end.

Theorem tr_ren_position_gate (call : nat -> list val -> mem -> res (val * mem)) o m b s fuel r :
  str_at m b s -> nonul s -> Z.of_nat (length s) < 2147483647 ->
  cell_at m G_xlim (xlim o) -> cell_at m G_xorder (xorder o) -> int_ok (xlim o) -> int_ok (xorder o) ->
  call F_uc_slen [VPtr b 0] m = Ok (VInt (Z.of_nat (uc_slen s)), m) ->
  call X_ren_position_reorder [VPtr b 0] m = r ->
  use_reorder o s = true ->
  exec call fuel (fn_body cf_ren_position) (mkst [VPtr b 0; VUndef; VUndef; VUndef; VUndef] m)
  = gate_result r [VPtr b 0; VInt 0; VUndef; VUndef; VInt (Z.of_nat (uc_slen s))].
Proof.
  intros Hs Hnn Hmax Hxl Hxo Il Io Hslen Hre Hgate.
  pose proof (uc_slen_le_length s) as Hn.
  cbn [fn_body cf_ren_position].
  rewrite exec_seq, exec_expr. xcbn. rewrite exec_seq, exec_expr. xcbn.
  rewrite Hslen. xcbn. set (n := uc_slen s) in *.
  rewrite exec_seq, exec_if. xcbn.
  rewrite (load_cell m G_xlim _ Hxl). xcbn. rewrite (wrap_int_ok _ Il).
  unfold use_reorder in Hgate. fold n in Hgate.
  apply andb_true_iff in Hgate. destruct Hgate as [E1 Hgate].
  rewrite nb2z. rewrite E1. xcbn.
  rewrite (load_cell m G_xorder _ Hxo). xcbn. rewrite (wrap_int_ok _ Io). rewrite nb2z.
  destruct (xorder o =? 2) eqn:E2; xcbn.
  - rewrite exec_return. xcbn. rewrite Hre. destruct r as [[v M]|x]; reflexivity.
  - cbn [orb] in Hgate. apply andb_true_iff in Hgate. destruct Hgate as [E3 E4].
    rewrite (load_cell m G_xorder _ Hxo). xcbn. rewrite (wrap_int_ok _ Io). rewrite nb2z. rewrite E3. xcbn.
    pose proof (builtin_strlen m b s 0 Hs Hnn ltac:(lia)) as E. change (Z.of_nat 0) with 0 in E. rewrite E; clear E. xcbn.
    rewrite wrap_U64_id by lia. rewrite Nat.sub_0_r. rewrite E4. xcbn.
    rewrite exec_return. xcbn. rewrite Hre. destruct r as [[v M]|x]; reflexivity.
Qed.

(* in the translated program itself ren_position_reorder has no body (a call of it is the error EShape): a call of
   ren_position on a line that is to be reordered reaches that call and nothing else *)
Corollary tr_ren_position_gate_cprog o m b s d fuel :
  str_at m b s -> nonul s -> Z.of_nat (length s) < 2147483647 -> (length s < fuel)%nat ->
  cell_at m G_xlim (xlim o) -> cell_at m G_xorder (xorder o) -> int_ok (xlim o) -> int_ok (xorder o) ->
  use_reorder o s = true ->
  callf cprog fuel (S (S (S (S (S d))))) F_ren_position [VPtr b 0] m = Err EShape.
Proof.
  intros Hs Hnn Hmax Hf Hxl Hxo Il Io Hgate.
  enter F_ren_position cf_ren_position.
  pose proof (tr_uc_slen m b s 0 (S (S d)) fuel Hs Hnn ltac:(lia) Hf ltac:(lia)) as E. change (Z.of_nat 0) with 0 in E. cbn [skipn] in E.
  pose proof (tr_ren_position_gate (callf cprog fuel (S (S (S (S d))))) o m b s fuel (Err EShape) Hs Hnn Hmax Hxl Hxo Il Io E) as G.
  cbn [fn_body cf_ren_position] in G. rewrite G; [reflexivity| |exact Hgate].
  rewrite callf_S. reflexivity.
Qed.

(* the gate in words of the line: within linelimit in characters -- orders 1 (multi-byte line) and 2 -- the result is
   ren_position_reorder's, in particular for a line with MORE BYTES than linelimit *)
Corollary tr_ren_position_gate_chars (call : nat -> list val -> mem -> res (val * mem)) o m b s fuel r :
  str_at m b s -> nonul s -> Z.of_nat (length s) < 2147483647 ->
  cell_at m G_xlim (xlim o) -> cell_at m G_xorder (xorder o) -> int_ok (xlim o) -> int_ok (xorder o) ->
  call F_uc_slen [VPtr b 0] m = Ok (VInt (Z.of_nat (uc_slen s)), m) ->
  call X_ren_position_reorder [VPtr b 0] m = r ->
  Z.of_nat (uc_slen s) <= xlim o < Z.of_nat (length s) -> xorder o = 1 \/ xorder o = 2 ->
  exec call fuel (fn_body cf_ren_position) (mkst [VPtr b 0; VUndef; VUndef; VUndef; VUndef] m)
  = gate_result r [VPtr b 0; VInt 0; VUndef; VUndef; VInt (Z.of_nat (uc_slen s))].
Proof.
  intros Hs Hnn Hmax Hxl Hxo Il Io Hslen Hre Hwin Hord.
  apply (tr_ren_position_gate call o); try assumption. apply limit_not_bytes; assumption.
Qed.
