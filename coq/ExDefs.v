(* ExDefs.v -- executable model of neatvi's ex line commands (ex.c, lbuf.c, reg.c), C06 and C15.
   Mirrors the C functions branch by branch: lbuf_replace/lbuf_opt/lbuf_edit/lbuf_mark/lbuf_jump/
   lbuf_undo/lbuf_globset/lbuf_globget, reg_get/reg_put, re_read, ex_search, ex_lineno, ex_region,
   ec_insert, ec_print, ec_null, ec_delete, ec_yank, ec_put, ec_lnum, ec_mark, ec_read, ec_exec (filter),
   ec_rs, ec_at, ec_substitute, ec_glob, ec_undo, ec_write (whole buffer to the own path), ec_quit (q!),
   ex_loc, ex_cmd, ex_arg, ex_txt, ex_exec, ex_command, ex().
   Lines carry a ghost identity [lid] (never inspected by the model) and the ln_glob bits [lgl].
   Marks carry a ghost [option nat] = the identity the mark designates as long as that is known.
   The regular-expression engine, the shell and the file system enter as Section variables.
   No proofs in this file. *)
From Coq Require Import List NArith ZArith Bool.
From NV Require Import Bytes.
Import ListNotations.
Local Open Scope Z_scope.

(* ------------------------------------------------------------------------------------------ *)
(* lines and the line buffer                                                                    *)

Record line := mkline { lid : nat; lgl : N; ltxt : bytes }.   (* text without the trailing newline *)

Record lopt := mkopt {
  o_pos : nat; o_nins : nat; o_ndel : nat;
  o_del : option bytes;                 (* NULL when nothing was deleted *)
  o_seq : Z;
  o_marks : list (nat * Z) }.           (* saved marks (index, row) *)

Definition NMARKS : nat := 32.
Definition NMARKS_BASE : nat := 28.

Record lbuf := mklb {
  lns : list line;
  marks : list (Z * option nat);        (* row (-1 = unset), ghost: designated identity *)
  hist : list lopt; hist_u : nat;
  useq : Z; useq_zero : Z; useq_last : Z;
  nextid : nat }.

Definition llen (lb : lbuf) : Z := Z.of_nat (length (lns lb)).

Definition nl : N := 10%N.

(* linecount/linelength of lbuf_replace: split at newlines, a last partial line counts *)
Fixpoint split_lines_aux (s cur : bytes) : list bytes :=
  match s with
  | [] => match cur with [] => [] | _ => [rev cur] end
  | c :: s' => if (c =? nl)%N then rev cur :: split_lines_aux s' [] else split_lines_aux s' (c :: cur)
  end.
Definition split_lines (s : bytes) : list bytes := split_lines_aux s [].

Definition join_lines (l : list bytes) : bytes := concat (map (fun t => t ++ [nl]) l).

(* lbuf_cp *)
Definition lbuf_cp (lb : lbuf) (b e : nat) : bytes :=
  join_lines (map ltxt (firstn (e - b) (skipn b (lns lb)))).

(* the new lines: the first min(n_del, n_ins) keep ln_glob (and the identity: a 1:1 replacement is
   "the same line"), the others are born with ln_glob = 0 and a fresh identity *)
Fixpoint mknew (old : list line) (t : list bytes) (nid : nat) : list line :=
  match t with
  | [] => []
  | x :: t' =>
    match old with
    | o :: old' => mkline (lid o) (lgl o) x :: mknew old' t' nid
    | [] => mkline nid 0%N x :: mknew [] t' (S nid)
    end
  end.

Definition markidx (m : N) : option nat :=
  if ((97 <=? m) && (m <=? 122))%N then Some (N.to_nat (m - 97))
  else if ((m =? 39) || (m =? 96))%N then Some 26%nat
  else if (m =? 42)%N then Some 27%nat
  else if (m =? 91)%N then Some 28%nat
  else if (m =? 93)%N then Some 29%nat
  else if (m =? 94)%N then Some 30%nat
  else None.

Fixpoint upd {A} (k : nat) (v : A) (l : list A) : list A :=
  match l with
  | [] => []
  | x :: l' => match k with O => v :: l' | S k' => x :: upd k' v l' end
  end.

Definition ghost_at (l : list line) (pos : Z) : option nat :=
  if (0 <=? pos) && (pos <? Z.of_nat (length l)) then
    match nth_error l (Z.to_nat pos) with Some x => Some (lid x) | None => None end
  else None.

(* lbuf_mark (the column is not modelled) *)
Definition lbuf_mark (lb : lbuf) (m : N) (pos : Z) : lbuf :=
  match markidx m with
  | Some k => mklb (lns lb) (upd k (pos, ghost_at (lns lb) pos) (marks lb)) (hist lb) (hist_u lb)
                   (useq lb) (useq_zero lb) (useq_last lb) (nextid lb)
  | None => lb
  end.

Definition mark_row (lb : lbuf) (k : nat) : Z := fst (nth k (marks lb) (-1, None)).

(* lbuf_jump: None = failure *)
Definition lbuf_jump (lb : lbuf) (m : N) : option Z :=
  match markidx m with
  | Some k => if mark_row lb k <? 0 then None else Some (mark_row lb k)
  | None => None
  end.

(* the three-way mark update of lbuf_replace; the ghost survives exactly when the marked row lies
   outside [pos, pos + n_del) *)
Definition shift_mark (nul : bool) (pos n_del n_ins : Z) (m : Z * option nat) : Z * option nat :=
  let '(r, g) := m in
  if nul && (pos <=? r) && (r <? pos + n_del) then (-1, None)
  else if pos + n_del <=? r then (r + n_ins - n_del, g)
  else if pos + n_ins <=? r then (pos + n_ins - 1, None)
  else (r, if pos <=? r then None else g).

(* lbuf_replace(lb, s, pos, n_del) *)
Definition lbuf_replace (s : option bytes) (pos n_del : nat) (lb : lbuf) : lbuf :=
  let t := match s with Some b => split_lines b | None => [] end in
  let n_ins := length t in
  let old := firstn n_del (skipn pos (lns lb)) in
  let lns' := firstn pos (lns lb) ++ mknew old t (nextid lb) ++ skipn (pos + n_del) (lns lb) in
  let nul := match s with None => true | Some _ => false end in
  let marks' := map (shift_mark nul (Z.of_nat pos) (Z.of_nat n_del) (Z.of_nat n_ins)) (marks lb) in
  let lb1 := mklb lns' marks' (hist lb) (hist_u lb) (useq lb) (useq_zero lb) (useq_last lb) (nextid lb + n_ins) in
  let lb2 := lbuf_mark lb1 91 (Z.of_nat pos) in
  lbuf_mark lb2 93 (Z.of_nat pos + (if (n_ins =? 0)%nat then 0 else Z.of_nat n_ins - 1)).

Definition markcopy (mk : list (Z * option nat)) (dst src : nat) : list (Z * option nat) :=
  upd dst (nth src mk (-1, None)) mk.

Fixpoint saved_marks (mk : list (Z * option nat)) (k : nat) (lo hi : Z) : list (nat * Z) :=
  match mk with
  | [] => []
  | (r, _) :: mk' =>
    (if (k <? NMARKS_BASE)%nat && (lo <=? r) && (r <? hi) then [(k, r)] else []) ++ saved_marks mk' (S k) lo hi
  end.

(* lbuf_opt: append to the history (dropping what was undone), lbuf_savepos copies mark ^ to * *)
Definition lbuf_opt (s : option bytes) (pos n_del : nat) (lb : lbuf) : lbuf :=
  let lo := mkopt pos (match s with Some b => length (split_lines b) | None => 0%nat end) n_del
                  (if (n_del =? 0)%nat then None else Some (lbuf_cp lb pos (pos + n_del)))
                  (useq lb)
                  (saved_marks (marks lb) 0 (Z.of_nat pos) (Z.of_nat pos + Z.of_nat n_del)) in
  let h := firstn (hist_u lb) (hist lb) ++ [lo] in
  mklb (lns lb) (markcopy (marks lb) 27 30) h (length h) (useq lb) (useq_zero lb) (useq_last lb) (nextid lb).

(* lbuf_edit *)
Definition lbuf_edit (s : option bytes) (b e : nat) (lb : lbuf) : lbuf :=
  let n := length (lns lb) in
  let b := Nat.min b n in
  let e := Nat.min e n in
  if (b =? e)%nat && (match s with None => true | Some _ => false end) then lb
  else lbuf_replace s b (e - b) (lbuf_opt s b (e - b) lb).

Definition lbuf_seq (lb : lbuf) : Z :=
  match hist_u lb with
  | O => useq_last lb
  | S k => match nth_error (hist lb) k with Some lo => o_seq lo | None => useq_last lb end
  end.

(* lbuf_modified: bumps the sequence number; the answer is "differs from the saved text" *)
Definition lbuf_modified (lb : lbuf) : lbuf * bool :=
  let lb' := mklb (lns lb) (marks lb) (hist lb) (hist_u lb) (useq lb + 1) (useq_zero lb) (useq_last lb) (nextid lb) in
  (lb', negb (lbuf_seq lb' =? useq_zero lb')).

(* lbuf_saved(lb, 0) *)
Definition lbuf_saved0 (lb : lbuf) : lbuf :=
  fst (lbuf_modified (mklb (lns lb) (marks lb) (hist lb) (hist_u lb) (useq lb) (lbuf_seq lb) (useq_last lb) (nextid lb))).

Fixpoint loadmarks (sv : list (nat * Z)) (mk : list (Z * option nat)) : list (Z * option nat) :=
  match sv with
  | [] => mk
  | (k, r) :: sv' => loadmarks sv' (upd k (r, None) mk)
  end.

(* lbuf_undo: the loop over the entries carrying the sequence number of the newest one *)
Fixpoint undo_loop (n : nat) (sq : Z) (lb : lbuf) : lbuf :=
  match n with
  | O => lb
  | S n' =>
    match nth_error (hist lb) n' with
    | Some lo =>
      if o_seq lo =? sq then
        let lb1 := lbuf_replace (o_del lo) (o_pos lo) (o_nins lo)
                     (mklb (lns lb) (marks lb) (hist lb) n' (useq lb) (useq_zero lb) (useq_last lb) (nextid lb)) in
        let mk1 := upd 30%nat (Z.of_nat (o_pos lo), None) (marks lb1) in       (* lbuf_loadpos *)
        let mk2 := markcopy mk1 27 30 in
        let mk3 := loadmarks (o_marks lo) mk2 in
        undo_loop n' sq (mklb (lns lb1) mk3 (hist lb1) (hist_u lb1) (useq lb1) (useq_zero lb1) (useq_last lb1) (nextid lb1))
      else lb
    | None => lb
    end
  end.

Definition lbuf_undo (lb : lbuf) : lbuf * Z :=
  match hist_u lb with
  | O => (lb, 1)
  | S k => match nth_error (hist lb) k with
           | Some lo => (undo_loop (hist_u lb) (o_seq lo) lb, 0)
           | None => (lb, 1)
           end
  end.

(* ln_glob bits *)
Definition set_lgl (x : line) (g : N) : line := mkline (lid x) g (ltxt x).
Fixpoint upd_line (k : nat) (f : line -> line) (l : list line) : list line :=
  match l with
  | [] => []
  | x :: l' => match k with O => f x :: l' | S k' => x :: upd_line k' f l' end
  end.
Definition with_lns (lb : lbuf) (l : list line) : lbuf :=
  mklb l (marks lb) (hist lb) (hist_u lb) (useq lb) (useq_zero lb) (useq_last lb) (nextid lb).
Definition lbuf_globset (lb : lbuf) (pos : nat) (dep : N) : lbuf :=
  with_lns lb (upd_line pos (fun x => set_lgl x (N.setbit (lgl x) dep)) (lns lb)).
Definition glob_marked (dep : N) (x : line) : bool := N.testbit (lgl x) dep.
Definition lbuf_globget (lb : lbuf) (pos : nat) (dep : N) : lbuf * bool :=
  match nth_error (lns lb) pos with
  | Some x => (with_lns lb (upd_line pos (fun x => set_lgl x (N.clearbit (lgl x) dep)) (lns lb)), glob_marked dep x)
  | None => (lb, false)
  end.

(* ------------------------------------------------------------------------------------------ *)
(* editor state                                                                                 *)

Inductive oitem := OLine (b : bytes) | ONum (z : Z) | OMsg (k : N) | OEcho (b : bytes).
(* message kinds *)
Definition M_UNKNOWN : N := 1%N.  Definition M_READFAIL : N := 2%N.  Definition M_READ : N := 3%N.
Definition M_MODIFIED : N := 4%N. Definition M_WRITE : N := 5%N.
Definition M_GDEEP : N := 6%N.        (* "global nesting too deep" *)

Record st := mkst {
  lb : lbuf;
  xrow : Z;
  regs : list (N * bytes);
  kwd : bytes; kwddir : Z;
  out : list oitem;                     (* newest first *)
  inp : list bytes;                     (* the lines still to be read from standard input *)
  xquit : bool;
  xwa : bool;
  xgdep : nat;
  written : option bytes;               (* what the last w put into the file *)
  flags : N }.                          (* 1 = out of fuel, 2 = outside the modelled fragment, 4 = end of input reached *)

Definition F_OOF : N := 1%N.  Definition F_UNSUP : N := 2%N.  Definition F_EOF : N := 4%N.

Definition set_lb (s : st) (l : lbuf) : st :=
  mkst l (xrow s) (regs s) (kwd s) (kwddir s) (out s) (inp s) (xquit s) (xwa s) (xgdep s) (written s) (flags s).
Definition set_xrow (s : st) (r : Z) : st :=
  mkst (lb s) r (regs s) (kwd s) (kwddir s) (out s) (inp s) (xquit s) (xwa s) (xgdep s) (written s) (flags s).
Definition set_regs (s : st) (r : list (N * bytes)) : st :=
  mkst (lb s) (xrow s) r (kwd s) (kwddir s) (out s) (inp s) (xquit s) (xwa s) (xgdep s) (written s) (flags s).
Definition set_kwd (s : st) (k : bytes) (d : Z) : st :=
  mkst (lb s) (xrow s) (regs s) k d (out s) (inp s) (xquit s) (xwa s) (xgdep s) (written s) (flags s).
Definition emit (s : st) (o : oitem) : st :=
  mkst (lb s) (xrow s) (regs s) (kwd s) (kwddir s) (o :: out s) (inp s) (xquit s) (xwa s) (xgdep s) (written s) (flags s).
Definition set_inp (s : st) (i : list bytes) : st :=
  mkst (lb s) (xrow s) (regs s) (kwd s) (kwddir s) (out s) i (xquit s) (xwa s) (xgdep s) (written s) (flags s).
Definition set_quit (s : st) : st :=
  mkst (lb s) (xrow s) (regs s) (kwd s) (kwddir s) (out s) (inp s) true (xwa s) (xgdep s) (written s) (flags s).
Definition set_gdep (s : st) (d : nat) : st :=
  mkst (lb s) (xrow s) (regs s) (kwd s) (kwddir s) (out s) (inp s) (xquit s) (xwa s) d (written s) (flags s).
Definition set_written (s : st) (w : bytes) : st :=
  mkst (lb s) (xrow s) (regs s) (kwd s) (kwddir s) (out s) (inp s) (xquit s) (xwa s) (xgdep s) (Some w) (flags s).
Definition flag (s : st) (f : N) : st :=
  mkst (lb s) (xrow s) (regs s) (kwd s) (kwddir s) (out s) (inp s) (xquit s) (xwa s) (xgdep s) (written s) (N.lor (flags s) f).

Definition slen (s : st) : Z := llen (lb s).

(* ------------------------------------------------------------------------------------------ *)
(* bytes                                                                                        *)

Definition isdigit (c : N) : bool := ((48 <=? c) && (c <=? 57))%N.
Definition isupper (c : N) : bool := ((65 <=? c) && (c <=? 90))%N.
Definition islower (c : N) : bool := ((97 <=? c) && (c <=? 122))%N.
Definition isalpha (c : N) : bool := isupper c || islower c.
Definition tolower (c : N) : N := if isupper c then (c + 32)%N else c.

Fixpoint bytes_eqb (a b : bytes) : bool :=
  match a, b with
  | [], [] => true
  | x :: a', y :: b' => (x =? y)%N && bytes_eqb a' b'
  | _, _ => false
  end.

(* digits at the front of s: value and rest *)
Fixpoint digits (s : bytes) (acc : Z) : Z * bytes :=
  match s with
  | c :: s' => if isdigit c then digits s' (acc * 10 + Z.of_N (c - 48)) else (acc, s)
  | [] => (acc, [])
  end.
Fixpoint skip_digits (s : bytes) : bytes :=
  match s with
  | c :: s' => if isdigit c then skip_digits s' else s
  | [] => []
  end.
(* atoi on a string that starts with an optional sign *)
Definition atoi (s : bytes) : Z :=
  match s with
  | 43%N :: s' => fst (digits s' 0)
  | 45%N :: s' => - fst (digits s' 0)
  | _ => fst (digits s 0)
  end.

Definition str (l : list N) : bytes := l.
Definition mem (c : N) (set : bytes) : bool := existsb (fun x => (x =? c)%N) set.

(* ------------------------------------------------------------------------------------------ *)
(* registers (reg.c); in ex mode every put is linewise                                          *)

Fixpoint reg_getraw (r : list (N * bytes)) (c : N) : option bytes :=
  match r with
  | [] => None
  | (k, v) :: r' => if (k =? c)%N then Some v else reg_getraw r' c
  end.

Definition reg_putraw (r : list (N * bytes)) (c : N) (v : bytes) : list (N * bytes) :=
  let pre := if isupper c then match reg_getraw r (tolower c) with Some p => p | None => [] end else [] in
  (tolower c, pre ++ v) :: r.

Fixpoint reg_shift (i : nat) (r : list (N * bytes)) : list (N * bytes) :=   (* for (i = 8; i > 0; i--) *)
  match i with
  | O => r
  | S i' => let r1 := match reg_getraw r (48 + N.of_nat i) with
                      | Some v => reg_putraw r (48 + N.of_nat i + 1) v
                      | None => r end in
            reg_shift i' r1
  end.

Definition reg_put (r : list (N * bytes)) (c : N) (v : bytes) : list (N * bytes) :=
  let r1 := if (c =? 0)%N || isalpha c then reg_putraw (reg_shift 8 r) 49 v else r in
  reg_putraw r1 c v.

Definition REG (arg : bytes) : N :=
  match arg with
  | [] => 0%N
  | 92%N :: rest => N.lor 128 (hd0 rest)
  | c :: _ => c
  end.

Section Ex.
Variable rvalid : bytes -> bool.                               (* rstr_make succeeds *)
Variable rfind : bytes -> bytes -> bool -> option (nat * nat).   (* pattern, line (no newline), RE_NOTBOL: leftmost match span *)
Variable filter : bytes -> bytes -> option bytes.              (* cmd_pipe(cmd, input, 1) *)
Variable readfile : bytes -> option bytes.                     (* open+read of a path *)
Variable curpath : bytes.                                      (* ex_path() *)

(* reg_get; the specials ; # ^ are outside the modelled fragment *)
Definition reg_get (s : st) (c : N) : option bytes :=
  reg_getraw (regs s) (if (c =? 34)%N then 0%N else c).
Definition reg_special (c : N) : bool := ((c =? 59) || (c =? 35) || (c =? 94))%N.

(* ------------------------------------------------------------------------------------------ *)
(* re_read: delimiter-terminated pattern; returns (pattern or NULL, rest) *)
Fixpoint re_read_loop (s : bytes) (delim : N) (acc : bytes) : bytes * bytes :=
  match s with
  | [] => (rev acc, [])
  | c :: s' =>
    if (c =? delim)%N then (rev acc, s')
    else if (c =? 92)%N then
      match s' with
      | d :: s'' => if (d =? delim)%N then re_read_loop s'' delim (d :: acc) else re_read_loop s'' delim (d :: 92%N :: acc)
      | [] => re_read_loop s' delim (c :: acc)
      end
    else re_read_loop s' delim (c :: acc)
  end.
Definition re_read (s : bytes) : option bytes * bytes :=
  match s with
  | [] => (None, [])
  | delim :: s' => let '(p, rest) := re_read_loop s' delim [] in (Some p, rest)
  end.

(* ex_kwdset / ex_kwd *)
Definition kwdset_if (s : st) (p : option bytes) (d : Z) : st :=
  match p with
  | Some (c :: p') => set_kwd s (c :: p') d
  | _ => s
  end.

Definition line_at (s : st) (row : Z) : option line :=
  if (0 <=? row) && (row <? slen s) then nth_error (lns (lb s)) (Z.to_nat row) else None.

(* the search loop of ex_search *)
Fixpoint search_loop (fuel : nat) (s : st) (pat : bytes) (row dir : Z) : Z :=
  match fuel with
  | O => -1
  | S f =>
    match line_at s row with
    | None => -1
    | Some x => match rfind pat (ltxt x) false with
                | Some _ => row
                | None => search_loop f s pat (row + dir) dir
                end
    end
  end.

(* ex_search: returns (row or -1, rest of the address string, state with the remembered keyword) *)
Definition ex_search (s : st) (pat : bytes) : Z * bytes * st :=
  let delim := hd0 pat in
  let '(kw, rest) := re_read pat in
  let s1 := kwdset_if s kw (if (delim =? 47)%N then 1 else -1) in
  if kwddir s1 =? 0 then (-1, rest, s1)
  else if negb (rvalid (kwd s1)) then (-1, rest, s1)
  else (search_loop (S (length (lns (lb s1)))) s1 (kwd s1) (xrow s1 + kwddir s1) (kwddir s1), rest, s1).

(* the +n/-n tail of ex_lineno *)
Fixpoint offsets (fuel : nat) (num : bytes) (n : Z) : Z * bytes :=
  match fuel with
  | O => (n, num)
  | S f =>
    match num with
    | c :: rest => if ((c =? 45) || (c =? 43))%N then offsets f (skip_digits rest) (n + atoi num) else (n, num)
    | [] => (n, num)
    end
  end.

(* ex_lineno: -2 = unset mark or failed search *)
Definition ex_lineno (s : st) (num : bytes) : Z * bytes * st :=
  let fin := fun (n : Z) (rest : bytes) (s' : st) =>
    let '(n', rest') := offsets (S (length rest)) rest n in (n', rest', s') in
  match num with
  | [] => fin (xrow s) [] s
  | c :: rest =>
    if (c =? 46)%N then fin (xrow s) rest s
    else if (c =? 36)%N then fin (slen s - 1) rest s
    else if (c =? 39)%N then
      match lbuf_jump (lb s) (hd0 rest) with
      | None => (-2, tl rest, s)
      | Some n => fin n (tl rest) s
      end
    else if ((c =? 47) || (c =? 63))%N then
      let '(n, rest', s') := ex_search s num in
      if n <? 0 then (-2, rest', s') else fin n rest' s'
    else if isdigit c then fin (fst (digits num 0) - 1) (skip_digits num) s
    else fin (xrow s) num s
  end.

Fixpoint skip_to_sep (loc : bytes) : bytes :=
  match loc with
  | c :: rest => if ((c =? 59) || (c =? 44))%N then loc else skip_to_sep rest
  | [] => []
  end.

(* the address loop of ex_region: (failed early, beg, end, state) *)
Fixpoint region_loop (fuel : nat) (loc : bytes) (first : bool) (b e : Z) (s : st) : bool * Z * Z * st :=
  match fuel with
  | O => (true, b, e, flag s F_OOF)
  | S f =>
    match loc with
    | [] => (false, b, e, s)
    | _ =>
      let '(n, rest, s1) := ex_lineno s loc in
      let e1 := n + 1 in
      let b1 := if first then e1 - 1 else e - 1 in
      if e1 <? 0 then (true, b1, e1, s1)
      else match skip_to_sep rest with
           | [] => (false, b1, e1, s1)
           | c :: rest' =>
             let s2 := if (c =? 59)%N then set_xrow s1 (e1 - 1) else s1 in
             region_loop f rest' false b1 e1 s2
           end
    end
  end.

(* ex_region: (nonzero = rejected, beg, end, state) *)
Definition ex_region (loc : bytes) (s : st) : bool * Z * Z * st :=
  if bytes_eqb loc [37%N] then (false, 0, Z.max 0 (slen s), s)
  else match loc with
  | [] => ((xrow s <? 0) || (slen s <? xrow s), xrow s, (if xrow s =? slen s then xrow s else xrow s + 1), s)
  | _ =>
    let '(bad, b, e, s1) := region_loop (S (length loc)) loc true 0 0 s in
    if bad then (true, b, e, s1)
    else
      let b := if (b <? 0) && (e =? 0) then 0 else b in
      if (b <? 0) || (slen s1 <=? b) then (true, b, e, s1)
      else if (e <? b) || (slen s1 <? e) then (true, b, e, s1)
      else (false, b, e, s1)
  end.

(* ------------------------------------------------------------------------------------------ *)
(* commands; every one returns (state, return value)                                            *)

(* ex_zero: address 0 (before the first line) is only meaningful for the commands that add text *)
Definition ex_zero (loc : bytes) (b e : Z) : bool :=
  (match loc with [] => false | _ => true end) && negb (bytes_eqb loc [37%N]) && (b =? 0) && (e =? 0).

Definition edit (s : st) (t : option bytes) (b e : Z) : st :=
  set_lb s (lbuf_edit t (Z.to_nat b) (Z.to_nat e) (lb s)).

Definition ec_insert (loc cmd : bytes) (txt : option bytes) (s : st) : st * Z :=
  let '(bad, b, e, s1) := ex_region loc s in
  if bad && (negb (b =? 0) || negb (e =? 0)) then (s1, 1)
  else
    let b := if (hd0 cmd =? 97)%N && (b <? e) && (b + 1 <=? slen s1) then b + 1 else b in
    let e := if (hd0 cmd =? 99)%N then e else b in
    let n := slen s1 in
    let s2 := edit s1 txt b e in
    (set_xrow s2 (Z.max 0 (Z.min (slen s2 - 1) (e + slen s2 - n - 1))), 0).

Fixpoint print_lines (l : list line) (s : st) : st :=
  match l with
  | [] => s
  | x :: l' => print_lines l' (emit s (OLine (ltxt x)))
  end.

Definition ec_print (loc cmd : bytes) (s : st) : st * Z :=
  if (match cmd, loc with [], [] => true | _, _ => false end) && (slen s <=? xrow s) then (s, 1)
  else
    let '(bad, b, e, s1) := ex_region loc s in
    if bad || ex_zero loc b e then (s1, 1)
    else
      let s2 := print_lines (firstn (Z.to_nat (e - b)) (skipn (Z.to_nat b) (lns (lb s1)))) s1 in
      (set_xrow s2 (Z.max b (e - 1)), 0).

Definition ec_null (loc cmd : bytes) (s : st) : st * Z :=
  ec_print loc cmd (set_xrow s (if xrow s + 1 <? slen s then xrow s + 1 else xrow s)).

Definition ex_yank (s : st) (reg : N) (b e : Z) : st :=
  set_regs s (reg_put (regs s) reg (lbuf_cp (lb s) (Z.to_nat b) (Z.to_nat e))).

Definition ec_rs (arg : bytes) (txt : option bytes) (s : st) : st * Z :=
  match txt with
  | Some t => (set_regs s (reg_put (regs s) (REG arg) t), 0)
  | None => (flag s F_UNSUP, 1)
  end.

Definition ec_delete (loc arg : bytes) (s : st) : st * Z :=
  let '(bad, b, e, s1) := ex_region loc s in
  if bad || ex_zero loc b e || (slen s1 =? 0) then (s1, 1)
  else
    let s2 := ex_yank s1 (REG arg) b e in
    let s3 := edit s2 None b e in
    (set_xrow s3 (Z.max 0 (Z.min b (slen s3 - 1))), 0).

Definition ec_yank (loc arg : bytes) (s : st) : st * Z :=
  let '(bad, b, e, s1) := ex_region loc s in
  if bad || ex_zero loc b e || (slen s1 =? 0) then (s1, 1)
  else (ex_yank s1 (REG arg) b e, 0).

Definition ec_put (loc arg : bytes) (s : st) : st * Z :=
  if reg_special (REG arg) then (flag s F_UNSUP, 1) else
  let n := slen s in
  match reg_get s (REG arg) with
  | None => (s, 1)
  | Some buf =>
    let '(bad, b, e, s1) := ex_region loc s in
    if bad && (negb (b =? 0) || negb (e =? 0)) then (s1, 1)
    else
      let s2 := edit s1 (Some buf) e e in
      (set_xrow s2 (Z.max 0 (Z.min (slen s2 - 1) (e + slen s2 - n - 1))), 0)
  end.

Definition ec_lnum (loc : bytes) (s : st) : st * Z :=
  let '(bad, b, e, s1) := ex_region loc s in
  if bad || ex_zero loc b e then (s1, 1) else (emit s1 (ONum e), 0).

Definition ec_mark (loc arg : bytes) (s : st) : st * Z :=
  let '(bad, b, e, s1) := ex_region loc s in
  if bad || ex_zero loc b e then (s1, 1) else (set_lb s1 (lbuf_mark (lb s1) (hd0 arg) (e - 1)), 0).

Definition ec_undo (s : st) : st * Z :=
  let '(l, r) := lbuf_undo (lb s) in (set_lb s l, r).

(* ex_pathexpand is the identity on arguments without % # \ and a leading = *)
Definition plain_arg (a : bytes) : bool :=
  negb (existsb (fun c => ((c =? 37) || (c =? 35) || (c =? 92))%N) a) && negb (hd0 a =? 61)%N.

Definition ec_read (loc arg : bytes) (s : st) : st * Z :=
  if negb (plain_arg arg) || (hd0 arg =? 33)%N then (flag s F_UNSUP, 1) else
  let n := slen s in
  let path := match arg with [] => curpath | _ => arg end in
  let '(bad, b, e, s1) := ex_region loc s in
  if bad && (negb (b =? 0) || negb (e =? 0)) then (s1, 1)
  else
    let pos := if slen s1 =? 0 then 0 else e in
    match readfile path with
    | None => (emit s1 (OMsg M_READFAIL), 1)
    | Some data =>
      let s2 := edit s1 (Some data) pos pos in
      (emit (set_xrow s2 (Z.max 0 (e + slen s2 - n - 1))) (OMsg M_READ), 0)
    end.

(* bufs_modified(0, msg): lbuf_modified bumps the sequence number *)
Definition bufs_modified (s : st) : st * bool :=
  let '(l, m) := lbuf_modified (lb s) in
  if m then (emit (set_lb s l) (OMsg M_MODIFIED), true) else (set_lb s l, false).

Definition ec_exec (loc arg : bytes) (s : st) : st * Z :=
  let '(s0, m) := if xwa s then (s, false) else bufs_modified s in
  if m then (s0, 1)
  else if negb (plain_arg arg) then (flag s0 F_UNSUP, 1)
  else match loc with
  | [] => (flag s0 F_UNSUP, 1)
  | _ =>
    let '(bad, b, e, s1) := ex_region loc s0 in
    if bad || ex_zero loc b e then (s1, 1)
    else
      let text := lbuf_cp (lb s1) (Z.to_nat b) (Z.to_nat e) in
      match filter arg text with
      | Some rep => (edit s1 (Some rep) b e, 0)
      | None => (s1, 0)
      end
  end.

(* ec_write: only "w" / "w!" without address and argument (the whole buffer to its own file) *)
Definition ec_write (loc arg : bytes) (s : st) : st * Z :=
  match loc, arg with
  | [], [] =>
    let '(bad, b, e, s1) := ex_region loc s in
    if bad then (s1, 1)
    else
      let s2 := set_written s1 (lbuf_cp (lb s1) 0 (length (lns (lb s1)))) in
      (set_lb (emit s2 (OMsg M_WRITE)) (lbuf_saved0 (lb s2)), 0)
  | _, _ => (flag s F_UNSUP, 1)
  end.

(* replace() of ex.c without group references (they are outside the modelled fragment) *)
Fixpoint subst_rep (rep : bytes) : bytes :=
  match rep with
  | 92%N :: c :: rest => c :: subst_rep rest
  | c :: rest => c :: subst_rep rest
  | [] => []
  end.
Definition rep_plain (rep : bytes) : bool :=
  let fix go (r : bytes) : bool :=
    match r with
    | 92%N :: c :: rest => negb (isdigit c) && go rest
    | _ :: rest => go rest
    | [] => true
    end in go rep.

(* the per-line loop of ec_substitute; ln = the not yet copied rest of the line (without newline) *)
Fixpoint subst_line (fuel : nat) (pat rep : bytes) (g : bool) (ln : bytes) (acc : option bytes) : option bytes * bytes :=
  match fuel with
  | O => (acc, ln)
  | S f =>
    match rfind pat ln (match acc with Some _ => true | None => false end) with
    | None => (acc, ln)
    | Some (so, eo) =>
      let r := match acc with Some r => r | None => [] end in
      let r1 := r ++ firstn so ln ++ rep in
      let ln1 := skipn eo ln in
      let '(r2, ln2) := if (eo =? 0)%nat then (r1 ++ firstn 1 ln1, skipn 1 ln1) else (r1, ln1) in
      match ln2 with
      | [] => (Some r2, ln2)
      | _ => if g then subst_line f pat rep g ln2 (Some r2) else (Some r2, ln2)
      end
    end
  end.

Fixpoint subst_rows (n : nat) (i : Z) (pat rep : bytes) (g : bool) (s : st) : st :=
  match n with
  | O => s
  | S n' =>
    let s' := match line_at s i with
              | Some x =>
                match subst_line (S (length (ltxt x))) pat rep g (ltxt x) None with
                | (Some r, rest) => edit s (Some (r ++ rest ++ [nl])) i (i + 1)
                | (None, _) => s
                end
              | None => s
              end in
    subst_rows n' (i + 1) pat rep g s'
  end.

(* ec_substitute; xrep is not remembered across commands (a substitute without pattern and
   replacement is outside the modelled fragment), zero-length matches step one byte (ASCII text) *)
Definition ec_substitute (loc arg : bytes) (s : st) : st * Z :=
  let '(bad, b, e, s1) := ex_region loc s in
  if bad then (s1, 1)
  else
    let '(pat, rest) := re_read arg in
    let s2 := kwdset_if s1 pat 1 in
    match pat, rest with
    | Some _, _ :: _ =>
      let delim := hd0 arg in
      let '(rep, flags) := re_read (delim :: rest) in
      let rep := match rep with Some r => r | None => [] end in
      if negb (rep_plain rep) then (flag s2 F_UNSUP, 1)
      else if kwddir s2 =? 0 then (s2, 1)
      else if negb (rvalid (kwd s2)) then (s2, 1)
      else (subst_rows (Z.to_nat (e - b)) b (kwd s2) (subst_rep rep) (mem 103 flags) s2, 0)
    | _, _ => (flag s2 F_UNSUP, 1)
    end.

(* ------------------------------------------------------------------------------------------ *)
(* parsing of a command line                                                                    *)

Definition LOCSET : bytes := str [46;36;48;49;50;51;52;53;54;55;56;57;39;47;63;43;45;44;59;37]%N.

Fixpoint loc_pat (src : bytes) (d : N) (acc : bytes) : bytes * bytes :=   (* inside /.../ : stops AT the closing delimiter *)
  match src with
  | [] => ([], acc)
  | c :: src' =>
    if (c =? d)%N then (src, acc)
    else if (c =? 92)%N then
      match src' with
      | c2 :: src'' => loc_pat src'' d (c2 :: c :: acc)
      | [] => loc_pat src' d (c :: acc)
      end
    else loc_pat src' d (c :: acc)
  end.

Fixpoint ex_loc_loop (fuel : nat) (src : bytes) (acc : bytes) : bytes * bytes :=
  match fuel with
  | O => (src, acc)
  | S f =>
    match src with
    | [] => (src, acc)
    | c :: src' =>
      if negb (mem c LOCSET) then (src, acc)
      else
        let '(src1, acc1) := if (c =? 39)%N then (src', c :: acc) else (src, acc) in
        let '(src2, acc2) :=
          match src1 with
          | d :: rest => if ((d =? 47) || (d =? 63))%N then loc_pat rest d (d :: acc1) else (src1, acc1)
          | [] => (src1, acc1)
          end in
        match src2 with
        | x :: src3 => ex_loc_loop f src3 (x :: acc2)
        | [] => ex_loc_loop f [] acc2
        end
    end
  end.

Fixpoint skip_set (set : bytes) (src : bytes) : bytes :=
  match src with
  | c :: src' => if mem c set then skip_set set src' else src
  | [] => []
  end.

(* ex_loc: (rest, loc) *)
Definition ex_loc (src : bytes) : bytes * bytes :=
  let src := skip_set (str [58;32;9]%N) src in
  let '(rest, acc) := ex_loc_loop (S (length src)) src [] in (rest, rev acc).

(* ex_cmd: (rest, cmd) *)
Fixpoint ex_cmd_alpha (n : nat) (src : bytes) (acc : bytes) : bytes * bytes :=
  match n with
  | O => (src, acc)
  | S n' =>
    match src with
    | c :: src' =>
      if isalpha c then
        if (c =? 107)%N && (match acc with [] => true | _ => false end) then (src', c :: acc)
        else ex_cmd_alpha n' src' (c :: acc)
      else (src, acc)
    | [] => (src, acc)
    end
  end.
Definition ex_cmd (src : bytes) : bytes * bytes :=
  let src := skip_set (str [32;9]%N) src in
  let '(src1, acc) := ex_cmd_alpha 16 src [] in
  match src1 with
  | c :: src2 => if ((c =? 33) || (c =? 61) || (c =? 64))%N then (src2, rev (c :: acc)) else (src1, rev acc)
  | [] => (src1, rev acc)
  end.

(* copy until one of the stop bytes, a backslash takes the next byte along *)
Fixpoint copy_until (stop : bytes) (src acc : bytes) : bytes * bytes :=
  match src with
  | [] => ([], acc)
  | c :: src' =>
    if mem c stop then (src, acc)
    else if (c =? 92)%N then
      match src' with
      | c2 :: src'' => copy_until stop src'' (c2 :: c :: acc)
      | [] => copy_until stop src' (c :: acc)
      end
    else copy_until stop src' (c :: acc)
  end.

(* the delimiter-counting loop of the substitute branch *)
Fixpoint copy_delims (src acc : bytes) (delim : N) (cnt : nat) : bytes * bytes :=
  match src with
  | [] => ([], acc)
  | c :: src' =>
    if (cnt =? 0)%nat || (c =? nl)%N then (src, acc)
    else
      let cnt1 := if (c =? delim)%N then (cnt - 1)%nat else cnt in
      if (c =? 92)%N then
        match src' with
        | c2 :: src'' => copy_delims src'' (c2 :: c :: acc) delim cnt1
        | [] => copy_delims src' (c :: acc) delim cnt1
        end
      else copy_delims src' (c :: acc) delim cnt1
  end.

Fixpoint skip_to_nl (src : bytes) : bytes :=
  match src with
  | c :: src' => if (c =? nl)%N then src else skip_to_nl src'
  | [] => []
  end.

(* ex_arg: (rest, arg) *)
Definition ex_arg (src : bytes) (excmd : bytes) : bytes * bytes :=
  let c0 := hd0 excmd in
  let c1 := hd0 (tl excmd) in
  let src := skip_set (str [32;9]%N) src in
  let '(src1, acc1) :=
    if ((c0 =? 33) || (c0 =? 103) || (c0 =? 118))%N
       || (((c0 =? 114) || (c0 =? 119)) && (c1 =? 0) && (hd0 src =? 33))%N
    then copy_until [nl] src []
    else if (((c0 =? 115) && negb (c1 =? 101)) || (c0 =? 38) || (c0 =? 126))%N then
      let delim := hd0 src in
      if negb (delim =? 0)%N && negb (mem delim (str [10;124;92;34]%N)) then
        (* cnt counts the closing delimiters still to see; the loop runs while cnt > 0 *)
        copy_delims (tl src) [delim] delim 2
      else (src, [])
    else (src, []) in
  let '(src2, acc2) := copy_until (str [10;124;34]%N) src1 acc1 in
  let src3 := if (hd0 src2 =? 34)%N then skip_to_nl src2 else src2 in
  let src4 := match src3 with c :: r => if ((c =? nl) || (c =? 124))%N then r else src3 | [] => [] end in
  (src4, rev acc2).

(* ex_read("") until the lone "." (or the end of the input) *)
Fixpoint read_block (i : list bytes) (acc : bytes) : bytes * list bytes :=
  match i with
  | [] => (acc, [])
  | l :: i' => if bytes_eqb l [46%N] then (acc, i') else read_block i' (acc ++ l ++ [nl])
  end.

(* the inline text of rs: up to "\n.\n" or the end of the string *)
Fixpoint inline_block (src acc : bytes) : bytes * bytes :=
  match src with
  | [] => (rev acc, [])
  | 10%N :: 46%N :: 10%N :: rest => (rev acc, rest)
  | c :: src' => inline_block src' (c :: acc)
  end.

(* ex_txt: (rest, txt, state) *)
Definition ex_txt (src : bytes) (excmd : bytes) (s : st) : bytes * option bytes * st :=
  let c0 := hd0 excmd in
  let c1 := hd0 (tl excmd) in
  let is_rs := ((c0 =? 114) && (c1 =? 115))%N in
  match is_rs, src with
  | true, _ :: _ => let '(t, rest) := inline_block src [] in (rest, Some (t ++ [nl]), s)
  | _, _ =>
    if is_rs || ((c1 =? 0) && ((c0 =? 105) || (c0 =? 97) || (c0 =? 99)))%N then
      let '(t, i') := read_block (inp s) [] in (src, Some t, set_inp s i')
    else (src, None, s)
  end.

(* the abbreviations of the modelled commands; everything else of excmds[] is F_UNSUP *)
Definition CMDS : list (bytes * bytes) :=
  map (fun p => (str (fst p), str (snd p)))
  [ ([97], [97;112;112;101;110;100]); ([100], [100;101;108;101;116;101]); ([99], [99;104;97;110;103;101]);
    ([103], [103;108;111;98;97;108]); ([103;33], [103;108;111;98;97;108;33]); ([105], [105;110;115;101;114;116]);
    ([107], [109;97;114;107]); ([112], [112;114;105;110;116]); ([112;117], [112;117;116]);
    ([113;33], [113;117;105;116;33]); ([114], [114;101;97;100]); ([114;115], [114;115]);
    ([115], [115;117;98;115;116;105;116;117;116;101]); ([117], [117;110;100;111]);
    ([118], [118;103;108;111;98;97;108]); ([119], [119;114;105;116;101]); ([119;33], [119;114;105;116;101;33]);
    ([121], [121;97;110;107]); ([33], [33]); ([64], [64]); ([61], [61]); ([101;99], [101;99;104;111]); ([], []) ]%N.
(* names of excmds[] that exist but are not modelled *)
Definition OTHER : list bytes :=
  map str [ [98]; [98;117;102;102;101;114]; [99;109]; [99;109;97;112]; [99;109;33]; [99;109;97;112;33]; [101]; [101;100;105;116];
    [101;33]; [101;100;105;116;33]; [101;119]; [101;119;33]; [102;116]; [102;105;108;101;116;121;112;101];
    [109;97;107;101]; [110]; [110;101;120;116]; [112;111]; [112;111;112]; [112;114;101;118]; [113]; [113;117;105;116];
    [114;101;100;111]; [114;120]; [114;97]; [114;107]; [115;101]; [115;101;116]; [115;111]; [115;111;117;114;99;101];
    [116;97]; [116;97;103]; [116;110]; [116;110;101;120;116]; [116;112]; [116;112;114;101;118]; [116;102]; [116;102;114;101;101];
    [119;113]; [119;113;33]; [120]; [120;105;116]; [120;33]; [120;105;116;33]; [120;97]; [120;97;33] ]%N.

Fixpoint ex_idx_in (l : list (bytes * bytes)) (cmd : bytes) : option bytes :=
  match l with
  | [] => None
  | (a, n) :: l' => if bytes_eqb a cmd || bytes_eqb n cmd then Some a else ex_idx_in l' cmd
  end.
Definition ex_idx (cmd : bytes) : option bytes := ex_idx_in CMDS cmd.
Definition is_other (cmd : bytes) : bool := existsb (bytes_eqb cmd) OTHER.

(* the commands that do not run other commands *)
Definition is (a : bytes) (l : list N) : bool := bytes_eqb a l.
Definition ex_simple (abbr loc cmd arg : bytes) (txt : option bytes) (s : st) : st * Z :=
  if is abbr [97]%N || is abbr [105]%N || is abbr [99]%N then ec_insert loc cmd txt s
  else if is abbr [100]%N then ec_delete loc arg s
  else if is abbr [107]%N then ec_mark loc arg s
  else if is abbr [112]%N then ec_print loc cmd s
  else if is abbr [112; 117]%N then ec_put loc arg s
  else if is abbr [113; 33]%N then (set_quit s, 0)
  else if is abbr [114]%N then ec_read loc arg s
  else if is abbr [114; 115]%N then ec_rs arg txt s
  else if is abbr [115]%N then ec_substitute loc arg s
  else if is abbr [117]%N then ec_undo s
  else if is abbr [119]%N || is abbr [119; 33]%N then ec_write loc arg s
  else if is abbr [121]%N then ec_yank loc arg s
  else if is abbr [33]%N then ec_exec loc arg s
  else if is abbr [61]%N then ec_lnum loc s
  else if is abbr [101; 99]%N then (emit s (OEcho arg), 0)
  else if is abbr [] then ec_null loc cmd s
  else (flag s F_UNSUP, 1).

Definition bump (s : st) : st := set_lb s (fst (lbuf_modified (lb s))).

(* ec_glob, given the executor of command lists *)
Fixpoint globset_range (n : nat) (i : nat) (dep : N) (l : lbuf) : lbuf :=
  match n with
  | O => l
  | S n' => globset_range n' (S i) dep (lbuf_globset l i dep)
  end.

(* while (i < lbuf_len(xb) && !lbuf_globget(xb, i, xgdep)) i++;
   as a structural recursion over the lines: the first marked line at or after i gets its mark cleared
   (lbuf_globget clears what it finds) and its index is returned; the length if there is none *)
Definition clear_lgl (dep : N) (x : line) : line := set_lgl x (N.clearbit (lgl x) dep).
Fixpoint scan_l (i : nat) (dep : N) (L : list line) : nat * list line :=
  match L with
  | [] => (O, [])
  | x :: L' =>
    match i with
    | S i' => let '(j, L2) := scan_l i' dep L' in (S j, x :: L2)
    | O => if glob_marked dep x then (O, clear_lgl dep x :: L')
           else let '(j, L2) := scan_l O dep L' in (S j, x :: L2)
    end
  end.
Definition glob_scan (i : nat) (dep : N) (l : lbuf) : nat * lbuf :=
  let '(j, L2) := scan_l i dep (lns l) in (j, with_lns l L2).

Fixpoint globclear (n : nat) (i : nat) (dep : N) (l : lbuf) : lbuf :=
  match n with
  | O => l
  | S n' => globclear n' (S i) dep (fst (lbuf_globget l i dep))
  end.

Section Glob.
Variable exec : bytes -> st -> st * Z.

Fixpoint glob_loop (fuel : nat) (i : nat) (pat body : bytes) (not : bool) (dep : N) (s : st) : st :=
  match fuel with
  | O => flag s F_OOF
  | S f =>
    match nth_error (lns (lb s)) i with
    | None => s
    | Some x =>
      let hit := match rfind pat (ltxt x) false with Some _ => true | None => false end in
      let run := Bool.eqb (negb hit) not in
      let '(s1, r) := if run then exec body (set_xrow s (Z.of_nat i)) else (s, 0) in
      if run && negb (r =? 0) then s1
      else
        let i1 := if run then Z.to_nat (Z.min (Z.of_nat i) (xrow s1)) else i in
        let '(j, l) := glob_scan i1 dep (lb s1) in
        glob_loop f j pat body not dep (set_lb s1 l)
    end
  end.

(* GDEPMAX: ln_glob[] is a char array and the mark of nesting level dep is the bit 1 << dep, so the levels 1..7 exist;
   `if (xgdep >= 7) { ex_show("global nesting too deep"); return 1; }` (/repo daf82c9) *)
Definition GDEPMAX : nat := 7.
Definition ec_glob (fuel : nat) (loc cmd arg : bytes) (s : st) : st * Z :=
  if (GDEPMAX <=? xgdep s)%nat then (emit s (OMsg M_GDEEP), 1) else
  let loc := match loc, xgdep s with [], O => [37%N] | _, _ => loc end in
  let '(bad, b, e, s1) := ex_region loc s in
  if bad || ex_zero loc b e then (s1, 1)
  else
    let not := mem 33 cmd || (hd0 cmd =? 118)%N in
    let '(pat, body) := re_read arg in
    let s2 := kwdset_if s1 pat 1 in
    if kwddir s2 =? 0 then (s2, 1)
    else if negb (rvalid (kwd s2)) then (s2, 1)
    else
      let dep := S (xgdep s2) in
      let dp := N.of_nat dep in
      let s3 := set_gdep s2 dep in
      let s4 := set_lb s3 (globset_range (Z.to_nat (e - b - 1)) (Z.to_nat (b + 1)) dp (lb s3)) in
      let s5 := glob_loop fuel (Z.to_nat b) (kwd s4) body not dp s4 in
      let s6 := set_lb s5 (globclear (length (lns (lb s5))) 0 dp (lb s5)) in
      (set_gdep s6 (xgdep s2), 0).

(* ec_at ("@" only; "ra" is not modelled): ex_command on the register *)
Definition ec_at (loc arg : bytes) (s : st) : st * Z :=
  if reg_special (REG arg) then (flag s F_UNSUP, 1) else
  match reg_get s (REG arg) with
  | None => (s, 1)
  | Some buf =>
    let '(bad, b, e, s1) := ex_region loc s in
    if bad || ex_zero loc b e then (s1, 1)
    else let '(s2, r) := exec buf (set_xrow s1 b) in (bump s2, r)
  end.
End Glob.

(* ex_exec: the loop over the commands of one line; fuel bounds the loop and the nesting *)
Fixpoint ex_exec (fuel : nat) (ret : Z) (ln : bytes) (s : st) : st * Z :=
  match fuel with
  | O => (flag s F_OOF, 1)
  | S f =>
    match ln with
    | [] => (s, ret)
    | _ =>
      let '(ln1, loc) := ex_loc ln in
      let '(ln2, cmd) := ex_cmd ln1 in
      let idx := ex_idx cmd in
      let abbr := match idx with Some a => a | None => str [117;110;107;110;111;119;110]%N end in
      let '(ln3, arg) := ex_arg ln2 abbr in
      let '(ln4, txt, s1) := ex_txt ln3 abbr s in
      let '(s2, ret2) :=
        match idx with
        | None => (if is_other cmd then flag s1 F_UNSUP else emit s1 (OMsg M_UNKNOWN), ret)
        | Some a =>
          if (hd0 a =? 103)%N || (hd0 a =? 118)%N then ec_glob (ex_exec f 0) f loc cmd arg s1
          else if (hd0 a =? 64)%N then ec_at (ex_exec f 0) loc arg s1
          else ex_simple a loc cmd arg txt s1
        end in
      ex_exec f ret2 ln4 s2
    end
  end.

(* ex_command *)
Definition ex_command (fuel : nat) (ln : bytes) (s : st) : st * Z :=
  let '(s1, r) := ex_exec fuel 0 ln s in (bump s1, r).

(* ex(): read a line, execute it, remember it in register ":" *)
Fixpoint ex_main (n : nat) (fuel : nat) (s : st) : st :=
  match n with
  | O => flag s F_OOF
  | S n' =>
    if xquit s then s
    else match inp s with
         | [] => flag s F_EOF
         | ln :: rest =>
           let '(s1, _) := ex_command fuel ln (set_inp s rest) in
           ex_main n' fuel (set_regs s1 (reg_put (regs s1) 58 ln))
         end
  end.

End Ex.

(* the state after "vi -s -e file": the file's lines, current line 0 *)
Fixpoint number_lines (l : list bytes) (k : nat) : list line :=
  match l with
  | [] => []
  | x :: l' => mkline k 0%N x :: number_lines l' (S k)
  end.
Definition init_lbuf (data : bytes) : lbuf :=
  let l0 := mklb [] (repeat (-1, None) NMARKS) [] 0 1 0 0 0 in
  let l1 := lbuf_edit (Some data) 0 0 l0 in          (* lbuf_rd; then lbuf_saved(xb, 1) and two sequence bumps *)
  mklb (lns l1) (marks l1) [] 0 3 1 1 (nextid l1).
Definition init_st (data : bytes) (input : list bytes) (wa : bool) : st :=
  mkst (init_lbuf data) 0 [] [] 0 [] input false wa 0 None 0%N.
